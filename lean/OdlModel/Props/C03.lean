/-
C03 — operator calls: in-place equals out-of-place, input untouched, malformed input rejected.
Property theorems only, about the model of `Operator.__call__`, the signature dispatch, the
default bridges, the expression classes and the product-space classes in `Model/Call.lean`.
Scalars: any type `K` with `+`, `*`, `0` such that `+` and `*` commute and `0 + a = a`
(`CommArith`): every commutative ring, and the IEEE doubles (NaN/inf included; `0 + a = a` up
to the sign of zero).  No other law is used, so "whatever `out` contained" includes NaN/inf.
-/
import OdlModel.Model.Call
import OdlModel.Lemmas.Call
import Mathlib.Tactic.Ring
import Mathlib.Tactic.SplitIfs

namespace OdlModel.C03
open OdlModel.Prox OdlModel.Call

variable {K : Type}

/-- The only arithmetic laws the theorems use. -/
structure CommArith (K : Type) [Add K] [Mul K] [OfNat K 0] : Prop where
  add_comm : ∀ a b : K, a + b = b + a
  mul_comm : ∀ a b : K, a * b = b * a
  zero_add : ∀ a : K, 0 + a = a

/-- Contract of an out-of-place body `_call(x)`: returns an object holding `φ(x)` (a new one,
or an existing one such as `x` itself — `RealPart` on a real space returns `x`) and writes to
no existing object. -/
def OopOK (l : Leaf K) : Prop :=
  ∀ (s : St K) (x : Nat), x < s.next →
    (l.oop x s).1 < (l.oop x s).2.next ∧ s.next ≤ (l.oop x s).2.next ∧
    (l.oop x s).2.mem (l.oop x s).1 = l.phi (s.mem x) ∧
    ∀ b : Nat, b < s.next → (l.oop x s).2.mem b = s.mem b

/-- Contract of an in-place body `_call(x, out)`: returns `None` or `out`; afterwards `out`
holds `φ(x)` (`x` from the PRE-state, also when `x is out`), whatever it held before; no other
existing object is written. -/
def IpOK (l : Leaf K) : Prop :=
  ∀ (s : St K) (x y : Nat), x < s.next → y < s.next →
    (l.ip x y s).1 ≠ .other ∧ (l.ip x y s).2.mem y = l.phi (s.mem x) ∧
    (∀ b : Nat, b < s.next → b ≠ y → (l.ip x y s).2.mem b = s.mem b) ∧
    s.next ≤ (l.ip x y s).2.next

/-- Leaf contract: the bodies that the signature class makes reachable satisfy theirs. -/
def LeafOK (l : Leaf K) : Prop :=
  (l.sig ≠ .ip → OopOK l ∧ l.junk = false) ∧ (l.sig ≠ .oop → IpOK l)

/-- The in-place contract with the aliased case optional: `A` = "the body must also be correct
when `x is out`". `A := False` is all that C03 asks of a leaf (a leaf may write `out` before
it has finished reading `x`); `A := True` is `IpOK`, what C10 asks of proximals. -/
def IpOKg (A : Prop) (l : Leaf K) : Prop :=
  ∀ (s : St K) (x y : Nat), x < s.next → y < s.next → (A ∨ x ≠ y) →
    (l.ip x y s).1 ≠ .other ∧ (l.ip x y s).2.mem y = l.phi (s.mem x) ∧
    (∀ b : Nat, b < s.next → b ≠ y → (l.ip x y s).2.mem b = s.mem b) ∧
    s.next ≤ (l.ip x y s).2.next

def LeafOKg (A : Prop) (l : Leaf K) : Prop :=
  (l.sig ≠ .ip → OopOK l ∧ l.junk = false) ∧ (l.sig ≠ .oop → IpOKg A l)

def AllOKg (A : Prop) : Op K → Prop
  | .leaf l => LeafOKg A l
  | .sum a b => AllOKg A a ∧ AllOKg A b ∧ a.fn = b.fn
  | .vecsum a _ => AllOKg A a ∧ a.fn = false
  | .comp a b => AllOKg A a ∧ AllOKg A b
  | .pwprod a b => AllOKg A a ∧ AllOKg A b ∧ a.fn = b.fn
  | .lscal a _ => AllOKg A a
  | .rscal a _ => AllOKg A a
  | .lvec a _ => AllOKg A a
  | .rvec a _ => AllOKg A a
  | .flvm f _ => AllOKg A f

/-- Well-formed tree: leaves satisfy the contract; the operands of a sum / pointwise product
have the same range kind (enforced by the constructors of `OperatorSum`,
`OperatorPointwiseProduct`). -/
def AllOK : Op K → Prop
  | .leaf l => LeafOK l
  | .sum a b => AllOK a ∧ AllOK b ∧ a.fn = b.fn
  | .vecsum a _ => AllOK a ∧ a.fn = false
  | .comp a b => AllOK a ∧ AllOK b
  | .pwprod a b => AllOK a ∧ AllOK b ∧ a.fn = b.fn
  | .lscal a _ => AllOK a
  | .rscal a _ => AllOK a
  | .lvec a _ => AllOK a
  | .rvec a _ => AllOK a
  | .flvm f _ => AllOK f

/-- Specification of `op(x, out=y)`. -/
def IPSpec [Add K] [Mul K] (e : Op K) (x y : Nat) (s : St K) (r : Res K) : Prop :=
  ∃ s', r = .ok y s' ∧ s'.mem y = den e (s.mem x) ∧
    (∀ b : Nat, b < s.next → b ≠ y → s'.mem b = s.mem b) ∧ s.next ≤ s'.next

/-- Specification of `op(x)`. -/
def OOPSpec [Add K] [Mul K] (e : Op K) (x : Nat) (s : St K) (r : Res K) : Prop :=
  ∃ (rb : Nat) (s' : St K), r = .ok rb s' ∧ rb < s'.next ∧ s.next ≤ s'.next ∧
    s'.mem rb = den e (s.mem x) ∧ ∀ b : Nat, b < s.next → s'.mem b = s.mem b

/-- A leaf whose out-of-place body returns its argument itself (what `RealPart._call` does on
a real space: `return x.real`, and `x.real is x`). It satisfies the leaf contract. -/
def retInputLeaf {K : Type} : Leaf K :=
  { sig := .oop, fn := false, raw := false, phi := id, oop := fun x s => (x, s),
    ip := fun _ _ s => (.none, s) }

/-- Out-of-place-only leaf returning a raw array (wrapped by `__call__`). -/
def oopLeaf {K : Type} (f : Vec K → Vec K) : Leaf K :=
  { sig := .oop, fn := false, raw := true, phi := f,
    oop := fun x s => alloc s (f (s.mem x)), ip := fun _ _ s => (.other, s) }

end OdlModel.C03

open OdlModel.Prox OdlModel.Call OdlModel.Call.Lemmas OdlModel.C03

/-- Every commutative ring (ℤ, ℚ, ℝ, ℂ, …) satisfies the arithmetic laws the theorems use. -/
theorem C03.comm_arith_of_comm_ring (K : Type) [CommRing K] : CommArith K :=
  ⟨fun a b => by ring, fun a b => by ring, fun a => by ring⟩

/-- (General form: leaves need not be alias safe, `A := False`.) Out-of-place call, for EVERY well-formed expression tree (unbounded depth), every store,
every `x`, every junk in the temporaries: `op(x)` returns an object holding `⟦e⟧(x)` and writes
to NO existing object (so `x` is bit-for-bit unchanged). Covers `_default_call_out_of_place`
for in-place-only leaves and the `range.element` wrapping of raw results. -/
theorem C03.call_out_of_place_gen {K : Type} [Add K] [Mul K] (A : Prop) (jk : Nat → Vec K)
    (e : Op K) (h : AllOKg A e) :
    ∀ (s : St K) (x : Nat), x < s.next → OOPSpec e x s (callO jk e x s) := by
  induction e with
  | leaf l =>
    intro s x hx
    obtain ⟨ho, hi⟩ := h
    unfold callO
    cases hsig : l.sig
    · obtain ⟨hoo, hj⟩ := ho (by simp [hsig])
      obtain ⟨h1, h2, h3, h4⟩ := hoo s x hx
      simp only [hj, Bool.false_eq_true, if_false]
      cases hraw : l.raw
      · exact ⟨_, _, rfl, h1, h2, by rw [h3]; rfl, h4⟩
      · obtain ⟨s0, ea, hn0, hv0, hf0⟩ := alloc_spec (l.oop x s).2 ((l.oop x s).2.mem (l.oop x s).1)
        simp only [ea, if_true]
        refine ⟨_, _, rfl, by omega, by omega, by rw [hv0, h3]; rfl, ?_⟩
        intro b hb; rw [hf0 b (by omega), h4 b hb]
    · -- in-place only: _default_call_out_of_place
      obtain ⟨s0, ea, hn0, hv0, hf0⟩ := alloc_spec s (jk s.next)
      have hxs : x ≠ s.next := by omega
      obtain ⟨h1, h2, h3, h4⟩ := hi (by simp [hsig]) s0 x s.next (by omega) (by omega)
        (Or.inr (by omega))
      simp only [ea]
      cases hret : (l.ip x s.next s0).1
      · refine ⟨_, _, rfl, by change s.next < (l.ip x s.next s0).2.next; omega,
          by change s.next ≤ (l.ip x s.next s0).2.next; omega, by rw [h2, hf0 x hxs]; rfl, ?_⟩
        intro b hb; rw [h3 b (by omega) (by omega), hf0 b (by omega)]
      · refine ⟨_, _, rfl, by change s.next < (l.ip x s.next s0).2.next; omega,
          by change s.next ≤ (l.ip x s.next s0).2.next; omega, by rw [h2, hf0 x hxs]; rfl, ?_⟩
        intro b hb; rw [h3 b (by omega) (by omega), hf0 b (by omega)]
      · exact absurd hret h1
    · obtain ⟨hoo, hj⟩ := ho (by simp [hsig])
      obtain ⟨h1, h2, h3, h4⟩ := hoo s x hx
      simp only [hj, Bool.false_eq_true, if_false]
      cases hraw : l.raw
      · exact ⟨_, _, rfl, h1, h2, by rw [h3]; rfl, h4⟩
      · obtain ⟨s0, ea, hn0, hv0, hf0⟩ := alloc_spec (l.oop x s).2 ((l.oop x s).2.mem (l.oop x s).1)
        simp only [ea, if_true]
        refine ⟨_, _, rfl, by omega, by omega, by rw [hv0, h3]; rfl, ?_⟩
        intro b hb; rw [hf0 b (by omega), h4 b hb]
  | sum a b iha ihb =>
    intro s x hx
    obtain ⟨ha, hb, _⟩ := h
    simp only [callO]
    obtain ⟨ra, s1, e1, u1, n1, v1, f1⟩ := iha ha s x hx
    rw [e1, bind_ok]
    obtain ⟨rb, s2, e2, u2, n2, v2, f2⟩ := ihb hb s1 x (by omega)
    rw [e2, bind_ok]
    obtain ⟨s3, ea, hn3, hv3, hf3⟩ := alloc_spec s2 (fun i => s2.mem ra i + s2.mem rb i)
    simp only [ea]
    refine ⟨_, _, rfl, by omega, by omega, ?_, ?_⟩
    · rw [hv3]; funext i
      rw [f2 ra u1, v1, v2, f1 x hx]; rfl
    · intro b hb'; rw [hf3 b (by omega), f2 b (by omega), f1 b hb']
  | vecsum a v iha =>
    intro s x hx
    simp only [callO]
    obtain ⟨r, s1, e1, u1, n1, v1, f1⟩ := iha h.1 s x hx
    rw [e1, bind_ok]
    obtain ⟨s2, ea, hn2, hv2, hf2⟩ := alloc_spec s1 (fun i => s1.mem r i + v i)
    simp only [ea]
    refine ⟨_, _, rfl, by omega, by omega, by rw [hv2, v1]; rfl, ?_⟩
    intro b hb'; rw [hf2 b (by omega), f1 b hb']
  | comp a b iha ihb =>
    intro s x hx
    obtain ⟨ha, hb⟩ := h
    simp only [callO]
    obtain ⟨rb, s1, e1, u1, n1, v1, f1⟩ := ihb hb s x hx
    rw [e1, bind_ok]
    obtain ⟨r, s2, e2, u2, n2, v2, f2⟩ := iha ha s1 rb u1
    refine ⟨r, s2, e2, u2, by omega, by rw [v2, v1]; rfl, ?_⟩
    intro b hb'; rw [f2 b (by omega), f1 b hb']
  | pwprod a b iha ihb =>
    intro s x hx
    obtain ⟨ha, hb, _⟩ := h
    simp only [callO]
    obtain ⟨ra, s1, e1, u1, n1, v1, f1⟩ := iha ha s x hx
    rw [e1, bind_ok]
    obtain ⟨rb, s2, e2, u2, n2, v2, f2⟩ := ihb hb s1 x (by omega)
    rw [e2, bind_ok]
    obtain ⟨s3, ea, hn3, hv3, hf3⟩ := alloc_spec s2 (fun i => s2.mem ra i * s2.mem rb i)
    simp only [ea]
    refine ⟨_, _, rfl, by omega, by omega, ?_, ?_⟩
    · rw [hv3]; funext i
      rw [f2 ra u1, v1, v2, f1 x hx]; rfl
    · intro b hb'; rw [hf3 b (by omega), f2 b (by omega), f1 b hb']
  | lscal a c iha =>
    intro s x hx
    simp only [callO]
    obtain ⟨r, s1, e1, u1, n1, v1, f1⟩ := iha h s x hx
    rw [e1, bind_ok]
    obtain ⟨s2, ea, hn2, hv2, hf2⟩ := alloc_spec s1 (fun i => c * s1.mem r i)
    simp only [ea]
    refine ⟨_, _, rfl, by omega, by omega, by rw [hv2, v1]; rfl, ?_⟩
    intro b hb'; rw [hf2 b (by omega), f1 b hb']
  | rscal a c iha =>
    intro s x hx
    obtain ⟨s0, ea, hn0, hv0, hf0⟩ := alloc_spec s (fun i => c * s.mem x i)
    simp only [callO, ea]
    obtain ⟨r, s2, e2, u2, n2, v2, f2⟩ := iha h s0 s.next (by omega)
    refine ⟨r, s2, e2, u2, by omega, by rw [v2, hv0]; rfl, ?_⟩
    intro b hb'; rw [f2 b (by omega), hf0 b (by omega)]
  | lvec a v iha =>
    intro s x hx
    simp only [callO]
    obtain ⟨r, s1, e1, u1, n1, v1, f1⟩ := iha h s x hx
    rw [e1, bind_ok]
    obtain ⟨s2, ea, hn2, hv2, hf2⟩ := alloc_spec s1 (fun i => s1.mem r i * v i)
    simp only [ea]
    refine ⟨_, _, rfl, by omega, by omega, by rw [hv2, v1]; rfl, ?_⟩
    intro b hb'; rw [hf2 b (by omega), f1 b hb']
  | rvec a v iha =>
    intro s x hx
    obtain ⟨s0, ea, hn0, hv0, hf0⟩ := alloc_spec s (fun i => s.mem x i * v i)
    simp only [callO, ea]
    obtain ⟨r, s2, e2, u2, n2, v2, f2⟩ := iha h s0 s.next (by omega)
    refine ⟨r, s2, e2, u2, by omega, by rw [v2, hv0]; rfl, ?_⟩
    intro b hb'; rw [f2 b (by omega), hf0 b (by omega)]
  | flvm f v ihf =>
    intro s x hx
    simp only [callO]
    obtain ⟨r, s1, e1, u1, n1, v1, f1⟩ := ihf h s x hx
    rw [e1, bind_ok]
    obtain ⟨s2, ea, hn2, hv2, hf2⟩ := alloc_spec s1 (fun i => v i * s1.mem r 0)
    simp only [ea]
    refine ⟨_, _, rfl, by omega, by omega, by rw [hv2, v1]; rfl, ?_⟩
    intro b hb'; rw [hf2 b (by omega), f1 b hb']

/-- (General form.) With `A := False` the leaves only have to be correct for `x` and `out`
DISTINCT: the theorem then holds because every expression class hands a FRESH temporary — never
`out`, never `x` — to its operand wherever the code does (`OperatorSum`, `OperatorComp`,
`OperatorPointwiseProduct`, `OperatorRightScalarMult`, `OperatorRightVectorMult`); a wrapper
that reused `out` as its temporary would need `A := True`.
In-place call, for EVERY well-formed expression tree (unbounded depth) that is not a
functional, every store, every `x` and `y` (`y` may hold arbitrary junk — NaN/inf included —
and may even BE `x`), every junk in the temporaries: the call returns the very object `y`; `y`
then holds `⟦e⟧(x)` (of the pre-state `x`); no other existing object — in particular `x` when
`x ≠ y` — is written. -/
theorem C03.call_in_place_gen {K : Type} [Add K] [Mul K] [OfNat K 0] (hK : CommArith K)
    (A : Prop) (jk : Nat → Vec K) (e : Op K) (h : AllOKg A e) (hfn : e.fn = false) :
    ∀ (s : St K) (x y : Nat), x < s.next → y < s.next → (A ∨ x ≠ y) →
      IPSpec e x y s (callI jk e x y s) := by
  induction e with
  | leaf l =>
    intro s x y hx hy hA
    obtain ⟨ho, hi⟩ := h
    have hl : l.fn = false := hfn
    unfold callI
    simp only [hl]
    cases hsig : l.sig
    · -- out-of-place only: default bridge out.assign(range.element(_call(x)))
      obtain ⟨hoo, hj⟩ := ho (by simp [hsig])
      obtain ⟨h1, h2, h3, h4⟩ := hoo s x hx
      simp only [hj, Bool.false_eq_true, if_false]
      refine ⟨_, rfl, ?_, ?_, ?_⟩
      · simp [h3, den]
      · intro b hb hne; rw [write_mem_other _ _ _ _ hne, h4 b hb]
      · change s.next ≤ (l.oop x s).2.next; omega
    · obtain ⟨h1, h2, h3, h4⟩ := hi (by simp [hsig]) s x y hx hy hA
      simp only
      cases hret : (l.ip x y s).1 <;> simp_all [IPSpec, den]
    · obtain ⟨h1, h2, h3, h4⟩ := hi (by simp [hsig]) s x y hx hy hA
      simp only
      cases hret : (l.ip x y s).1 <;> simp_all [IPSpec, den]
  | sum a b iha ihb =>
    intro s x y hx hy hA
    obtain ⟨ha, hb, hab⟩ := h
    have hfa : a.fn = false := hfn
    obtain ⟨s0, ea, hn0, hv0, hf0⟩ := alloc_spec s (jk s.next)
    simp only [callI, ea]
    obtain ⟨s1, e1, v1, f1, n1⟩ := iha ha hfa s0 x s.next (by omega) (by omega) (Or.inr (by omega))
    rw [e1, bind_ok]
    obtain ⟨s2, e2, v2, f2, n2⟩ := ihb hb (by rw [← hab]; exact hfa) s1 x y (by omega) (by omega) hA
    rw [e2, bind_ok]
    have hxs : x ≠ s.next := by omega
    have hys : y ≠ s.next := by omega
    have m1x : s1.mem x = s.mem x := by rw [f1 x (by omega) hxs, hf0 x hxs]
    refine ⟨_, rfl, ?_, ?_, ?_⟩
    · funext i
      have : s2.mem s.next = s1.mem s.next := f2 _ (by omega) (by omega)
      simp only [write_mem_same, v2, this, v1, m1x, den, hf0 x hxs]
      exact hK.add_comm _ _
    · intro b hb hne
      have hbs : b ≠ s.next := by omega
      rw [write_mem_other _ _ _ _ hne, f2 b (by omega) hne, f1 b (by omega) hbs, hf0 b hbs]
    · simp only [write_next]; omega
  | vecsum a v iha =>
    intro s x y hx hy hA
    simp only [callI]
    obtain ⟨s1, e1, v1, f1, n1⟩ := iha h.1 h.2 s x y hx hy hA
    rw [e1, bind_ok]
    refine ⟨_, rfl, ?_, ?_, ?_⟩
    · simp [v1, den]
    · intro b hb hne; rw [write_mem_other _ _ _ _ hne, f1 b hb hne]
    · simp only [write_next]; omega
  | comp a b iha ihb =>
    intro s x y hx hy hA
    obtain ⟨ha, hb⟩ := h
    have hfa : a.fn = false := hfn
    simp only [callI]
    cases hbf : b.fn
    · -- the right factor is an operator: temporary for its result
      obtain ⟨s0, ea, hn0, hv0, hf0⟩ := alloc_spec s (jk s.next)
      simp only [ea, Bool.false_eq_true, if_false]
      have hxs : x ≠ s.next := by omega
      have hys : y ≠ s.next := by omega
      obtain ⟨s1, e1, v1, f1, n1⟩ := ihb hb hbf s0 x s.next (by omega) (by omega) (Or.inr (by omega))
      rw [e1, bind_ok]
      obtain ⟨s2, e2, v2, f2, n2⟩ := iha ha hfa s1 s.next y (by omega) (by omega) (Or.inr (by omega))
      refine ⟨s2, e2, ?_, ?_, ?_⟩
      · rw [v2, v1, hf0 x hxs]; rfl
      · intro b hb hne
        have hbs : b ≠ s.next := by omega
        rw [f2 b (by omega) hne, f1 b (by omega) hbs, hf0 b hbs]
      · omega
    · -- the right factor is a functional: its scalar is computed out-of-place
      simp only [if_true]
      obtain ⟨rb, s1, e1, u1, n1, v1, f1⟩ := C03.call_out_of_place_gen A jk b hb s x hx
      rw [e1, bind_ok]
      obtain ⟨s1', ea, hn1, hv1, hf1⟩ := alloc_spec s1 (s1.mem rb)
      simp only [ea]
      obtain ⟨s2, e2, v2, f2, n2⟩ := iha ha hfa s1' s1.next y (by omega) (by omega)
        (Or.inr (by omega))
      refine ⟨s2, e2, by rw [v2, hv1, v1]; rfl, ?_, by omega⟩
      intro b' hb' hne; rw [f2 b' (by omega) hne, hf1 b' (by omega), f1 b' hb']
  | pwprod a b iha ihb =>
    intro s x y hx hy hA
    obtain ⟨ha, hb, hab⟩ := h
    have hfa : a.fn = false := hfn
    obtain ⟨s0, ea, hn0, hv0, hf0⟩ := alloc_spec s (jk s.next)
    simp only [callI, ea]
    obtain ⟨s1, e1, v1, f1, n1⟩ := iha ha hfa s0 x s.next (by omega) (by omega) (Or.inr (by omega))
    rw [e1, bind_ok]
    obtain ⟨s2, e2, v2, f2, n2⟩ := ihb hb (by rw [← hab]; exact hfa) s1 x y (by omega) (by omega) hA
    rw [e2, bind_ok]
    have hxs : x ≠ s.next := by omega
    have hys : y ≠ s.next := by omega
    have m1x : s1.mem x = s.mem x := by rw [f1 x (by omega) hxs, hf0 x hxs]
    refine ⟨_, rfl, ?_, ?_, ?_⟩
    · funext i
      have : s2.mem s.next = s1.mem s.next := f2 _ (by omega) (by omega)
      simp only [write_mem_same, v2, this, v1, m1x, den, hf0 x hxs]
      exact hK.mul_comm _ _
    · intro b hb hne
      have hbs : b ≠ s.next := by omega
      rw [write_mem_other _ _ _ _ hne, f2 b (by omega) hne, f1 b (by omega) hbs, hf0 b hbs]
    · simp only [write_next]; omega
  | lscal a c iha =>
    intro s x y hx hy hA
    simp only [callI]
    obtain ⟨s1, e1, v1, f1, n1⟩ := iha h hfn s x y hx hy hA
    rw [e1, bind_ok]
    refine ⟨_, rfl, ?_, ?_, ?_⟩
    · funext i; simp only [write_mem_same, v1, den]; exact hK.mul_comm _ _
    · intro b hb hne; rw [write_mem_other _ _ _ _ hne, f1 b hb hne]
    · simp only [write_next]; omega
  | rscal a c iha =>
    intro s x y hx hy hA
    obtain ⟨s0, ea, hn0, hv0, hf0⟩ := alloc_spec s (jk s.next)
    simp only [callI, ea]
    have hxs : x ≠ s.next := by omega
    have hys : y ≠ s.next := by omega
    obtain ⟨s2, e2, v2, f2, n2⟩ := iha h hfn (s0.write s.next (fun i => c * s0.mem x i)) s.next y
      (by simp only [write_next]; omega) (by simp only [write_next]; omega) (Or.inr (by omega))
    refine ⟨s2, e2, ?_, ?_, ?_⟩
    · rw [v2, write_mem_same, hf0 x hxs]; rfl
    · intro b hb hne
      have hbs : b ≠ s.next := by omega
      rw [f2 b (by simp only [write_next]; omega) hne, write_mem_other _ _ _ _ hbs, hf0 b hbs]
    · simp only [write_next] at n2; omega
  | lvec a v iha =>
    intro s x y hx hy hA
    simp only [callI]
    obtain ⟨s1, e1, v1, f1, n1⟩ := iha h hfn s x y hx hy hA
    rw [e1, bind_ok]
    refine ⟨_, rfl, ?_, ?_, ?_⟩
    · simp [v1, den]
    · intro b hb hne; rw [write_mem_other _ _ _ _ hne, f1 b hb hne]
    · simp only [write_next]; omega
  | rvec a v iha =>
    intro s x y hx hy hA
    obtain ⟨s0, ea, hn0, hv0, hf0⟩ := alloc_spec s (jk s.next)
    simp only [callI, ea]
    have hxs : x ≠ s.next := by omega
    have hys : y ≠ s.next := by omega
    obtain ⟨s2, e2, v2, f2, n2⟩ := iha h hfn (s0.write s.next (fun i => s0.mem x i * v i)) s.next y
      (by simp only [write_next]; omega) (by simp only [write_next]; omega) (Or.inr (by omega))
    refine ⟨s2, e2, ?_, ?_, ?_⟩
    · rw [v2, write_mem_same, hf0 x hxs]; rfl
    · intro b hb hne
      have hbs : b ≠ s.next := by omega
      rw [f2 b (by simp only [write_next]; omega) hne, write_mem_other _ _ _ _ hbs, hf0 b hbs]
    · simp only [write_next] at n2; omega
  | flvm f v _ =>
    intro s x y hx hy hA
    simp only [callI]
    obtain ⟨r, s1, e1, u1, n1, v1, f1⟩ := C03.call_out_of_place_gen A jk f h s x hx
    rw [e1, bind_ok]
    refine ⟨_, rfl, ?_, ?_, ?_⟩
    · funext i; simp only [write_mem_same, v1, den]; exact hK.mul_comm _ _
    · intro b hb hne; rw [write_mem_other _ _ _ _ hne, f1 b hb]
    · simp only [write_next]; omega

/-- The alias-tolerant contract implies the general one for every `A`. -/
theorem C03.allOK_weaken {K : Type} (A : Prop) (e : Op K) (h : AllOK e) : AllOKg A e := by
  induction e with
  | leaf l => exact ⟨h.1, fun hs s x y hx hy _ => h.2 hs s x y hx hy⟩
  | sum a b iha ihb => exact ⟨iha h.1, ihb h.2.1, h.2.2⟩
  | vecsum a v iha => exact ⟨iha h.1, h.2⟩
  | comp a b iha ihb => exact ⟨iha h.1, ihb h.2⟩
  | pwprod a b iha ihb => exact ⟨iha h.1, ihb h.2.1, h.2.2⟩
  | lscal a c iha => exact iha h
  | rscal a c iha => exact iha h
  | lvec a v iha => exact iha h
  | rvec a v iha => exact iha h
  | flvm f v ihf => exact ihf h

/-- Out-of-place call, for EVERY well-formed expression tree (unbounded depth), every store,
every `x`, every junk in the temporaries: `op(x)` returns an object holding `⟦e⟧(x)` and writes
to NO existing object (so `x` is bit-for-bit unchanged). -/
theorem C03.call_out_of_place {K : Type} [Add K] [Mul K] (jk : Nat → Vec K) (e : Op K)
    (h : AllOK e) :
    ∀ (s : St K) (x : Nat), x < s.next → OOPSpec e x s (callO jk e x s) :=
  C03.call_out_of_place_gen True jk e (C03.allOK_weaken True e h)

/-- In-place call over alias-safe leaves (`x` may be `out`): the form used by C10. -/
theorem C03.call_in_place {K : Type} [Add K] [Mul K] [OfNat K 0] (hK : CommArith K)
    (jk : Nat → Vec K) (e : Op K) (h : AllOK e) (hfn : e.fn = false) :
    ∀ (s : St K) (x y : Nat), x < s.next → y < s.next → IPSpec e x y s (callI jk e x y s) :=
  fun s x y hx hy =>
    C03.call_in_place_gen hK True jk e (C03.allOK_weaken True e h) hfn s x y hx hy (Or.inl trivial)

/-- C03 proper: leaves that obey the call protocol only for DISTINCT `x` and `out` (they may
write `out` before they have finished reading `x`) — in-place equals out-of-place for every
tree, `x ≠ y`. -/
theorem C03.call_in_place_distinct {K : Type} [Add K] [Mul K] [OfNat K 0] (hK : CommArith K)
    (jk : Nat → Vec K) (e : Op K) (h : AllOKg False e) (hfn : e.fn = false)
    (s : St K) (x y : Nat) (hx : x < s.next) (hy : y < s.next) (hxy : x ≠ y) :
    IPSpec e x y s (callI jk e x y s) :=
  C03.call_in_place_gen hK False jk e h hfn s x y hx hy (Or.inr hxy)

/-- The deliberately non-alias-safe leaf `accumLeaf` (`out[:] = 0; out += c*x`) satisfies the
protocol for distinct `x`, `out` — and NOT for `x is out` (witness over ℤ: c = 2, x = 5 gives 0
instead of 10). A wrapper calling it with its own `out` as input would therefore be wrong. -/
theorem C03.accum_leaf_ok {K : Type} [Add K] [Mul K] [OfNat K 0] (c : K) :
    LeafOKg False (accumLeaf c) := by
  refine ⟨fun h => absurd rfl h, fun _ s x y hx hy hA => ?_⟩
  have hxy : x ≠ y := hA.resolve_left id
  simp only [accumLeaf]
  refine ⟨by simp, ?_, ?_, by simp⟩
  · funext i
    simp only [write_mem_same, write_mem_other _ _ _ _ hxy]
  · intro b _ hne; rw [write_mem_other _ _ _ _ hne, write_mem_other _ _ _ _ hne]

theorem C03.accum_leaf_not_alias_safe : ¬ IpOK (accumLeaf (2 : Int)) := by
  intro h
  have := congrFun (h ⟨fun _ _ => 5, 1⟩ 0 0 (by simp) (by simp)).2.1 0
  simp [accumLeaf, St.write] at this

/-- The public call `Operator.__call__` on well-formed arguments — the property itself.
For every well-formed expression tree that is not a functional, every store `s`, every domain
element `x` and range element `y` of that store (whatever `y` holds, NaN/inf included):
* `op(x)` returns an object holding `⟦e⟧(x)` and writes to no existing object (so `x` is
  bit-for-bit unchanged);
* `op(x, out=y)` returns the very object `y`, which then holds the same `⟦e⟧(x)`; no other
  existing object is written, in particular `x` when `x` is not `y`. -/
theorem C03.call_protocol {K : Type} [Add K] [Mul K] [OfNat K 0] (hK : CommArith K)
    (jk jk' : Nat → Vec K) (e : Op K) (h : AllOK e) (hfn : e.fn = false)
    (s : St K) (x y : Nat) (hx : x < s.next) (hy : y < s.next) :
    (∃ r s1, call jk e (.inDomain x) .none s = .ok r s1 ∧
        s1.mem r = den e (s.mem x) ∧ ∀ b : Nat, b < s.next → s1.mem b = s.mem b) ∧
    (∃ s2, call jk' e (.inDomain x) (.inRange y) s = .ok y s2 ∧
        s2.mem y = den e (s.mem x) ∧ (x ≠ y → s2.mem x = s.mem x) ∧
        ∀ b : Nat, b < s.next → b ≠ y → s2.mem b = s.mem b) := by
  constructor
  · obtain ⟨r, s1, e1, _, _, v1, f1⟩ := C03.call_out_of_place jk e h s x hx
    exact ⟨r, s1, by simpa [call] using e1, v1, f1⟩
  · obtain ⟨s2, e2, v2, f2, _⟩ := C03.call_in_place hK jk' e h hfn s x y hx hy
    exact ⟨s2, by simpa [call, hfn] using e2, v2, fun hne => f2 x hx hne, f2⟩

/-- Functionals: `op(x)` returns the value and writes nothing; `op(x, out=…)` is rejected with
`TypeError` before anything runs. -/
theorem C03.call_functional {K : Type} [Add K] [Mul K] (jk : Nat → Vec K) (e : Op K)
    (h : AllOK e) (hfn : e.fn = true) (s : St K) (x y : Nat) (hx : x < s.next) :
    (∃ r s1, call jk e (.inDomain x) .none s = .ok r s1 ∧
        s1.mem r = den e (s.mem x) ∧ ∀ b : Nat, b < s.next → s1.mem b = s.mem b) ∧
    call jk e (.inDomain x) (.inRange y) s = .err .type s := by
  constructor
  · obtain ⟨r, s1, e1, _, _, v1, f1⟩ := C03.call_out_of_place jk e h s x hx
    exact ⟨r, s1, by simpa [call] using e1, v1, f1⟩
  · simp [call, hfn]

/-- The previous content of `out` never influences the result: two stores that differ only
in what `y` holds give the same final `y` (for `x` distinct from `y`). -/
theorem C03.out_content_irrelevant {K : Type} [Add K] [Mul K] [OfNat K 0] (hK : CommArith K)
    (jk jk' : Nat → Vec K) (e : Op K)
    (h : AllOK e) (hfn : e.fn = false) (s : St K) (x y : Nat) (j : Vec K) (hx : x < s.next)
    (hy : y < s.next) (hxy : x ≠ y) :
    ∃ s1 s2, callI jk e x y s = .ok y s1 ∧ callI jk' e x y (s.write y j) = .ok y s2 ∧
      s1.mem y = s2.mem y := by
  obtain ⟨s1, e1, v1, _, _⟩ := C03.call_in_place hK jk e h hfn s x y hx hy
  obtain ⟨s2, e2, v2, _, _⟩ := C03.call_in_place hK jk' e h hfn (s.write y j) x y hx hy
  refine ⟨s1, s2, e1, e2, ?_⟩
  rw [v1, v2, write_mem_other _ _ _ _ hxy]

/-- An `x` that is not a domain element but can be cast (`domain.element(x)` succeeds) is
copied into a new domain element first; the results are those of the cast value. -/
theorem C03.call_casts_input {K : Type} [Add K] [Mul K] [OfNat K 0] (hK : CommArith K)
    (jk : Nat → Vec K) (e : Op K)
    (h : AllOK e) (hfn : e.fn = false) (s : St K) (v : Vec K) (y : Nat) (hy : y < s.next) :
    (∃ r s1, call jk e (.castable v) .none s = .ok r s1 ∧ s1.mem r = den e v ∧
        ∀ b : Nat, b < s.next → s1.mem b = s.mem b) ∧
    (∃ s2, call jk e (.castable v) (.inRange y) s = .ok y s2 ∧ s2.mem y = den e v ∧
        ∀ b : Nat, b < s.next → b ≠ y → s2.mem b = s.mem b) := by
  obtain ⟨s0, ea, hn0, hv0, hf0⟩ := alloc_spec s v
  constructor
  · obtain ⟨r, s1, e1, _, _, v1, f1⟩ := C03.call_out_of_place jk e h s0 s.next (by omega)
    refine ⟨r, s1, by simpa [call, ea] using e1, by rw [v1, hv0], ?_⟩
    intro b hb; rw [f1 b (by omega), hf0 b (by omega)]
  · obtain ⟨s2, e2, v2, f2, _⟩ := C03.call_in_place hK jk e h hfn s0 s.next y (by omega) (by omega)
    refine ⟨s2, by simpa [call, ea, hfn] using e2, by rw [v2, hv0], ?_⟩
    intro b hb hne; rw [f2 b (by omega) hne, hf0 b (by omega)]

/-- Malformed input is rejected before any existing object is written, with the error kinds
and the priority of `Operator.__call__`: a non-castable `x` gives `OpDomainError` (whatever
`out` is, store untouched); otherwise an `out` that is not a range element gives
`OpRangeError`; otherwise `out` together with a functional gives `TypeError`.  These hold for
ALL trees and leaves (no contract needed): the error branches are explicit constructors taken
before any body runs. -/
theorem C03.call_rejects {K : Type} [Add K] [Mul K] (jk : Nat → Vec K) (e : Op K)
    (s : St K) :
    (∀ o, call jk e .bad o s = .err .domain s) ∧
    (∀ x, call jk e (.inDomain x) .foreign s = .err .range s) ∧
    (∀ v, ∃ s', call jk e (.castable v) .foreign s = .err .range s' ∧
        ∀ b : Nat, b < s.next → s'.mem b = s.mem b) ∧
    (e.fn = true → ∀ x y, call jk e (.inDomain x) (.inRange y) s = .err .type s) := by
  refine ⟨fun o => rfl, fun x => rfl, fun v => ?_, fun hfn x y => by simp [call, hfn]⟩
  obtain ⟨s0, ea, hn0, hv0, hf0⟩ := alloc_spec s v
  exact ⟨s0, by simp [call, ea], fun b hb => hf0 b (by omega)⟩

/-- An out-of-place body whose result cannot be cast to the range (model flag `junk`): `op(x)`
is an `OpRangeError`; through the default in-place bridge the `ValueError` of `range.element`
escapes. (Model definition, tied to `Operator.__call__` by the dispatch stream.) -/
theorem C03.uncastable_result {K : Type} [Add K] [Mul K] (jk : Nat → Vec K) (l : Leaf K)
    (hs : l.sig = .oop) (hf : l.fn = false) (hj : l.junk = true) (x y : Nat) (s : St K) :
    callO jk (.leaf l) x s = .err .range (l.oop x s).2 ∧
    callI jk (.leaf l) x y s = .err .value (l.oop x s).2 := by
  constructor
  · simp [callO, hs, hj]
  · simp [callI, hs, hf, hj]

/-- A leaf that returns its own argument (`RealPart` on a real space) satisfies the leaf
contract — with the repaired `OperatorVectorSum` no expression class writes into the result
of an inner out-of-place call, so freshness is not needed. -/
theorem C03.ret_input_leaf_ok {K : Type} : LeafOK (retInputLeaf (K := K)) := by
  refine ⟨fun _ => ⟨fun s x hx => ?_, rfl⟩, fun h => absurd rfl h⟩
  simp only [retInputLeaf]
  exact ⟨hx, le_refl _, by simp, fun _ _ => trivial⟩

/-- Sensitivity (the defect repaired by /repo e5d6c3c): the OLD out-of-place body of
`OperatorVectorSum`, `out = operator(x); out += vector`, over a leaf that returns its argument
writes the vector INTO `x`. -/
theorem C03.old_vector_sum_writes_input {K : Type} [Add K] [Mul K] (jk : Nat → Vec K)
    (v : Vec K) (s : St K) (x : Nat) :
    ((callO jk (.leaf retInputLeaf) x s).bind fun r s1 =>
        .ok r (s1.write r (fun i => s1.mem r i + v i))) =
      .ok x (s.write x (fun i => s.mem x i + v i)) := by
  simp [callO, retInputLeaf]

/-- Sensitivity (the defect repaired by /repo ab9b331): handing `out` to a functional is a
`TypeError`; this is why `OperatorComp` must evaluate a functional right factor out-of-place. -/
theorem C03.functional_rejects_out {K : Type} [Add K] [Mul K] (jk : Nat → Vec K) (l : Leaf K)
    (hl : l.fn = true) (x y : Nat) (s : St K) : callI jk (.leaf l) x y s = .err .type s := by
  simp [callI, hl]

/-- The modelled `default_ops` leaves (`ScalingOperator`/`IdentityOperator`,
`ConstantOperator`, `MultiplyOperator`, `PowerOperator`, `ZeroOperator`, the
out-of-place-only `ComplexModulusSquared`, functionals such as `InnerProductOperator`)
satisfy the leaf contract, aliased case included. -/
theorem C03.scale_leaf_ok {K : Type} [Add K] [Mul K] [OfNat K 0] (c : K) :
    LeafOK (scalingLeaf c) := by
  refine ⟨fun _ => ⟨fun s x hx => ?_, rfl⟩, fun _ s x y hx hy => ?_⟩
  · obtain ⟨s0, ea, hn0, hv0, hf0⟩ := alloc_spec s (fun i => c * s.mem x i)
    simp only [scalingLeaf, ea]
    exact ⟨by omega, by omega, hv0, fun b hb => hf0 b (by omega)⟩
  · simp only [scalingLeaf]
    exact ⟨by simp, by simp, fun b _ hne => write_mem_other _ _ _ _ hne, by simp⟩

theorem C03.default_leaves_ok {K : Type} [Add K] [Mul K] [OfNat K 0] (hK : CommArith K)
    (v : Vec K) (pw : K → K) (f : Vec K → K) :
    LeafOK (constLeaf v) ∧ LeafOK (multLeaf v) ∧ LeafOK (powLeaf pw) ∧
    LeafOK (zeroLeaf (K := K)) ∧ LeafOK (modSqLeaf (K := K)) ∧ LeafOK (funcLeaf f) := by
  refine ⟨⟨fun _ => ⟨fun s x hx => ?_, rfl⟩, fun _ s x y hx hy => ?_⟩,
    ⟨fun _ => ⟨fun s x hx => ?_, rfl⟩, fun _ s x y hx hy => ?_⟩,
    ⟨fun _ => ⟨fun s x hx => ?_, rfl⟩, fun _ s x y hx hy => ?_⟩,
    ⟨fun _ => ⟨fun s x hx => ?_, rfl⟩, fun _ s x y hx hy => ?_⟩,
    ⟨fun _ => ⟨fun s x hx => ?_, rfl⟩, fun h => absurd rfl h⟩,
    ⟨fun _ => ⟨fun s x hx => ?_, rfl⟩, fun h => absurd rfl h⟩⟩
  · obtain ⟨s0, ea, hn0, hv0, hf0⟩ := alloc_spec s v
    simp only [constLeaf, ea]
    exact ⟨by omega, by omega, hv0, fun b hb => hf0 b (by omega)⟩
  · simp only [constLeaf]
    exact ⟨by simp, by simp, fun b _ hne => write_mem_other _ _ _ _ hne, by simp⟩
  · obtain ⟨s0, ea, hn0, hv0, hf0⟩ := alloc_spec s (fun i => s.mem x i * v i)
    simp only [multLeaf, ea]
    exact ⟨by omega, by omega, hv0, fun b hb => hf0 b (by omega)⟩
  · obtain ⟨s0, ea, hn0, hv0, hf0⟩ := alloc_spec s (fun i => v i * s.mem x i)
    simp only [multLeaf, ea]
    refine ⟨by simp, ?_, ?_, by simp only [write_next]; omega⟩
    · rw [write_mem_same, hv0]; funext i; exact hK.mul_comm _ _
    · intro b hb hne; rw [write_mem_other _ _ _ _ hne, hf0 b (by omega)]
  · obtain ⟨s0, ea, hn0, hv0, hf0⟩ := alloc_spec s (fun i => pw (s.mem x i))
    simp only [powLeaf, ea]
    exact ⟨by omega, by omega, hv0, fun b hb => hf0 b (by omega)⟩
  · simp only [powLeaf]
    refine ⟨by simp, by simp, ?_, by simp⟩
    intro b _ hne; rw [write_mem_other _ _ _ _ hne, write_mem_other _ _ _ _ hne]
  · obtain ⟨s0, ea, hn0, hv0, hf0⟩ := alloc_spec s (fun i => 0 * s.mem x i)
    simp only [zeroLeaf, ea]
    exact ⟨by omega, by omega, hv0, fun b hb => hf0 b (by omega)⟩
  · simp only [zeroLeaf]
    exact ⟨by simp, by simp, fun b _ hne => write_mem_other _ _ _ _ hne, by simp⟩
  · obtain ⟨s0, ea, hn0, hv0, hf0⟩ := alloc_spec s (fun i => s.mem x i * s.mem x i + 0 * 0)
    simp only [modSqLeaf, ea]
    exact ⟨by omega, by omega, hv0, fun b hb => hf0 b (by omega)⟩
  · obtain ⟨s0, ea, hn0, hv0, hf0⟩ := alloc_spec s (fun _ => f (s.mem x))
    simp only [funcLeaf, ea]
    exact ⟨by omega, by omega, hv0, fun b hb => hf0 b (by omega)⟩

theorem C03.oop_leaf_ok {K : Type} (f : Vec K → Vec K) : LeafOK (oopLeaf f) := by
  refine ⟨fun _ => ⟨fun s x hx => ?_, rfl⟩, fun h => absurd rfl h⟩
  obtain ⟨s0, ea, hn0, hv0, hf0⟩ := alloc_spec s (f (s.mem x))
  simp only [oopLeaf, ea]
  exact ⟨by omega, by omega, hv0, fun b hb => hf0 b (by omega)⟩

/-- Non-vacuity: a depth-3 tree mixing a dual-use leaf, an out-of-place-only leaf (default
in-place bridge, raw result wrapped), a leaf that returns its own argument under an
`OperatorVectorSum`, a functional under `FunctionalLeftVectorMult` and as right factor of an
`OperatorComp` satisfies the hypotheses of `call_protocol`; its aliased in-place call on
x = (5, …) yields 2*(3*5) + (5*5 + 7) + (5 + 1) + 2*5 + 3*5 = 93. -/
example : let e : Op Int :=
      .sum (.sum (.sum (.comp (.leaf (scalingLeaf 2)) (.leaf (scalingLeaf 3)))
                       (.vecsum (.leaf (oopLeaf fun v i => v i * v i)) (fun _ => 7)))
                 (.sum (.vecsum (.leaf retInputLeaf) (fun _ => 1))
                       (.flvm (.leaf (funcLeaf fun v => v 0)) (fun _ => 2))))
           (.comp (.leaf (scalingLeaf 3)) (.comp (.leaf retInputLeaf) (.leaf retInputLeaf)))
    AllOK e ∧ e.fn = false ∧
      ∃ s', callI (fun _ _ => 99) e 0 0 ⟨fun _ _ => 5, 1⟩ = .ok 0 s' ∧ s'.mem 0 0 = 93 := by
  intro e
  have hK := C03.comm_arith_of_comm_ring Int
  have hd := C03.default_leaves_ok hK (fun _ => (0 : Int)) id (fun v => v 0)
  have hok : AllOK e := by
    have h1 := C03.scale_leaf_ok (2 : Int)
    have h2 := C03.scale_leaf_ok (3 : Int)
    have h3 := C03.oop_leaf_ok (fun (v : Vec Int) i => v i * v i)
    have h4 := C03.ret_input_leaf_ok (K := Int)
    have h5 := hd.2.2.2.2.2
    simp only [e, AllOK, Op.fn]
    exact ⟨⟨⟨⟨h1, h2⟩, ⟨h3, by trivial⟩, by trivial⟩, ⟨⟨h4, by trivial⟩, h5, by trivial⟩,
      by trivial⟩, ⟨h2, h4, h4⟩, by trivial⟩
  refine ⟨hok, rfl, ?_⟩
  obtain ⟨s', e1, v1, _, _⟩ := C03.call_in_place hK (fun _ _ => 99) e hok rfl ⟨fun _ _ => 5, 1⟩ 0 0
    (by simp) (by simp)
  exact ⟨s', e1, by rw [v1]; simp [e, den, scalingLeaf, oopLeaf, retInputLeaf, funcLeaf]⟩

/-! ### Product-space classes -/

namespace OdlModel.C03
open OdlModel.Prox OdlModel.Call

/-- Hypotheses on the blocks of a `ProductSpaceOperator` with `m` rows and `n` columns. -/
def EntriesOK {K : Type} (m n : Nat) (inPlace : Bool) (entries : List (Entry K)) : Prop :=
  ∀ e ∈ entries, AllOKg False e.op ∧ (inPlace = true → e.op.fn = false) ∧ e.row < m ∧ e.col < n

/-- Option-valued accumulator of the in-place loop: `none` = row not yet evaluated. -/
def stepAcc {K : Type} [Add K] [Mul K] (xv : Nat → Vec K) (e : Entry K)
    (acc : Nat → Option (Vec K)) : Nat → Option (Vec K) :=
  fun i => if e.row = i then
      some (match acc i with
            | none => den e.op (xv e.col)
            | some v => fun k => v k + den e.op (xv e.col) k)
    else acc i

def finalAcc {K : Type} [Add K] [Mul K] (xv : Nat → Vec K) :
    List (Entry K) → (Nat → Option (Vec K)) → Nat → Option (Vec K)
  | [], acc => acc
  | e :: rest, acc => finalAcc xv rest (stepAcc xv e acc)

end OdlModel.C03

/-- Out-of-place loop of `ProductSpaceOperator._call`: with the output components `o` (distinct
objects, distinct from the input components) holding `acc`, the loop ends with row `i` holding
`acc_i + Σ ⟦op⟧(x[col])` over the blocks of row `i` in order, and writes nothing else. -/
theorem C03.pso_loop_out_of_place {K : Type} [Add K] [Mul K] [OfNat K 0] (jk : Nat → Vec K)
    (m n : Nat) (x o : Nat → Nat) (xv : Nat → Vec K) (entries : List (Entry K))
    (hent : EntriesOK m n false entries)
    (hoinj : ∀ i i' : Nat, i < m → i' < m → o i = o i' → i = i')
    (hodis : ∀ i j : Nat, i < m → j < n → o i ≠ x j) :
    ∀ (s : St K) (acc : Nat → Vec K),
      (∀ j : Nat, j < n → x j < s.next) → (∀ i : Nat, i < m → o i < s.next) →
      (∀ j : Nat, j < n → s.mem (x j) = xv j) → (∀ i : Nat, i < m → s.mem (o i) = acc i) →
      ∃ s', psoLoopO jk x o entries s = .ok [] s' ∧
        (∀ i : Nat, i < m → s'.mem (o i) = rowDen xv entries i (acc i)) ∧
        (∀ b : Nat, b < s.next → (∀ i : Nat, i < m → b ≠ o i) → s'.mem b = s.mem b) ∧
        s.next ≤ s'.next := by
  induction entries with
  | nil =>
    intro s acc _ _ _ hinv
    exact ⟨s, rfl, fun i hi => by simp [rowDen, hinv i hi], fun _ _ _ => rfl, le_refl _⟩
  | cons e rest ih =>
    intro s acc hx ho hxv hinv
    obtain ⟨hop, _, hr, hc⟩ := hent e (by simp)
    obtain ⟨rb, s1, e1, u1, n1, v1, f1⟩ :=
      C03.call_out_of_place_gen False jk e.op hop s (x e.col) (hx _ hc)
    simp only [psoLoopO, e1]
    have hent' : EntriesOK m n false rest := fun e' he' => hent e' (by simp [he'])
    obtain ⟨s', es, vs, fs, ns⟩ := ih hent'
      (s1.write (o e.row) (fun k => s1.mem (o e.row) k + s1.mem rb k))
      (fun i => if e.row = i then (fun k => acc i k + den e.op (xv e.col) k) else acc i)
      (fun j hj => by simp only [write_next]; have := hx j hj; omega)
      (fun i hi => by simp only [write_next]; have := ho i hi; omega)
      (fun j hj => by
        rw [write_mem_other _ _ _ _ (Ne.symm (hodis _ _ hr hj)), f1 _ (hx j hj), hxv j hj])
      (fun i hi => by
        by_cases hri : e.row = i
        · subst hri
          simp only [write_mem_same, if_true]
          funext k
          rw [f1 _ (ho _ hr), hinv _ hr, v1, hxv _ hc]
        · have hne : o i ≠ o e.row := fun h => hri (hoinj _ _ hi hr h).symm
          simp only [hri, if_false]
          rw [write_mem_other _ _ _ _ hne, f1 _ (ho i hi), hinv i hi])
    refine ⟨s', es, ?_, ?_, ?_⟩
    · intro i hi
      rw [vs i hi]
      simp only [rowDen]
    · intro b hb hnb
      rw [fs b (by simp only [write_next]; omega) hnb,
        write_mem_other _ _ _ _ (hnb _ hr), f1 b hb]
    · simp only [write_next] at ns; omega

/-- `ProductSpaceOperator._call(x)` (hence `BroadcastOperator`, `ReductionOperator`,
`DiagonalOperator`, which delegate to one): for every block matrix whose blocks are well-formed
expression trees (any sparsity pattern, several blocks per row, empty rows), every store and
every input tuple `x`: the result is a tuple of NEW objects, component `i` holding
`Σ_j ⟦op_ij⟧(x_j)`; no existing object is written. -/
theorem C03.pso_out_of_place {K : Type} [Add K] [Mul K] [OfNat K 0] (jk : Nat → Vec K)
    (m n : Nat) (x : Nat → Nat) (entries : List (Entry K)) (hent : EntriesOK m n false entries)
    (s : St K) (hx : ∀ j : Nat, j < n → x j < s.next) :
    ∃ s', psoO jk m entries x s = .ok [] s' ∧
      (∀ i : Nat, i < m → s'.mem (s.next + i) = denPso entries (fun j => s.mem (x j)) i) ∧
      (∀ b : Nat, b < s.next → s'.mem b = s.mem b) := by
  obtain ⟨s', es, vs, fs, _⟩ := C03.pso_loop_out_of_place jk m n x (fun i => s.next + i)
    (fun j => s.mem (x j)) entries hent
    (fun i i' _ _ h => by omega)
    (fun i j _ hj h => by have := hx j hj; omega)
    (allocZeros s m) (fun _ _ => 0)
    (fun j hj => by have := hx j hj; simp only [allocZeros]; omega)
    (fun i hi => by simp only [allocZeros]; omega)
    (fun j hj => by
      have := hx j hj
      simp only [allocZeros]
      rw [if_neg (by omega)])
    (fun i hi => by
      simp only [allocZeros]
      rw [if_pos (by omega)])
  refine ⟨s', es, fun i hi => vs i hi, ?_⟩
  intro b hb
  rw [fs b (by simp only [allocZeros]; omega) (fun i _ => by omega)]
  simp only [allocZeros]
  rw [if_neg (by omega)]

/-- In-place loop of `ProductSpaceOperator._call` with its `has_evaluated_row` flags. Invariant:
`done` is exactly the set of rows whose accumulator is `some v`, and those rows hold `v`. -/
theorem C03.pso_loop_in_place {K : Type} [Add K] [Mul K] [OfNat K 0] (hK : CommArith K)
    (jk : Nat → Vec K)
    (m n : Nat) (x y : Nat → Nat) (xv : Nat → Vec K) (entries : List (Entry K))
    (hent : EntriesOK m n true entries)
    (hyinj : ∀ i i' : Nat, i < m → i' < m → y i = y i' → i = i')
    (hdis : ∀ i j : Nat, i < m → j < n → y i ≠ x j) :
    ∀ (s : St K) (done : List Nat) (acc : Nat → Option (Vec K)),
      (∀ j : Nat, j < n → x j < s.next) → (∀ i : Nat, i < m → y i < s.next) →
      (∀ j : Nat, j < n → s.mem (x j) = xv j) →
      (∀ i : Nat, i < m → (i ∈ done ↔ (acc i).isSome = true) ∧
          ∀ v, acc i = some v → s.mem (y i) = v) →
      ∃ done' s', psoLoopI jk x y entries done s = .ok done' s' ∧
        (∀ i : Nat, i < m → (i ∈ done' ↔ (finalAcc xv entries acc i).isSome = true) ∧
            ∀ v, finalAcc xv entries acc i = some v → s'.mem (y i) = v) ∧
        (∀ b : Nat, b < s.next → (∀ i : Nat, i < m → b ≠ y i) → s'.mem b = s.mem b) ∧
        s.next ≤ s'.next := by
  induction entries with
  | nil =>
    intro s done acc _ _ _ hinv
    exact ⟨done, s, rfl, hinv, fun _ _ _ => rfl, le_refl _⟩
  | cons e rest ih =>
    intro s done acc hx hy hxv hinv
    obtain ⟨hop, hfn, hr, hc⟩ := hent e (by simp)
    have hent' : EntriesOK m n true rest := fun e' he' => hent e' (by simp [he'])
    simp only [psoLoopI, finalAcc]
    by_cases hd : e.row ∈ done
    · -- row already evaluated: out[i] += op(x[j])
      obtain ⟨rb, s1, e1, u1, n1, v1, f1⟩ :=
        C03.call_out_of_place_gen False jk e.op hop s (x e.col) (hx _ hc)
      simp only [hd, if_true, e1]
      obtain ⟨v0, hv0⟩ : ∃ v0, acc e.row = some v0 :=
        Option.isSome_iff_exists.mp ((hinv _ hr).1.mp hd)
      obtain ⟨done', s', es, vs, fs, ns⟩ := ih hent'
        (s1.write (y e.row) (fun k => s1.mem (y e.row) k + s1.mem rb k)) done (stepAcc xv e acc)
        (fun j hj => by simp only [write_next]; have := hx j hj; omega)
        (fun i hi => by simp only [write_next]; have := hy i hi; omega)
        (fun j hj => by
          rw [write_mem_other _ _ _ _ (Ne.symm (hdis _ _ hr hj)), f1 _ (hx j hj), hxv j hj])
        (fun i hi => by
          by_cases hri : e.row = i
          · subst hri
            refine ⟨by simp [stepAcc, hd], ?_⟩
            intro v hv
            simp only [stepAcc, if_true, hv0, Option.some.injEq] at hv
            subst hv
            simp only [write_mem_same]
            funext k
            rw [f1 _ (hy _ hr), (hinv _ hr).2 v0 hv0, v1, hxv _ hc]
          · have hne : y i ≠ y e.row := fun h => hri (hyinj _ _ hi hr h).symm
            simp only [stepAcc, hri, if_false]
            refine ⟨(hinv i hi).1, fun v hv => ?_⟩
            rw [write_mem_other _ _ _ _ hne, f1 _ (hy i hi)]
            exact (hinv i hi).2 v hv)
      refine ⟨done', s', es, vs, ?_, ?_⟩
      · intro b hb hnb
        rw [fs b (by simp only [write_next]; omega) hnb,
          write_mem_other _ _ _ _ (hnb _ hr), f1 b hb]
      · simp only [write_next] at ns; omega
    · -- first block of this row: op(x[j], out=out[i])
      obtain ⟨s1, e1, v1, f1, n1⟩ := C03.call_in_place_gen hK False jk e.op hop (hfn rfl) s
        (x e.col) (y e.row) (hx _ hc) (hy _ hr) (Or.inr (Ne.symm (hdis _ _ hr hc)))
      simp only [hd, if_false, e1]
      have hnone : acc e.row = none := by
        have := (hinv _ hr).1
        cases hacc : acc e.row with
        | none => rfl
        | some v => exact absurd (this.mpr (by simp [hacc])) hd
      obtain ⟨done', s', es, vs, fs, ns⟩ := ih hent' s1 (e.row :: done) (stepAcc xv e acc)
        (fun j hj => by have := hx j hj; omega)
        (fun i hi => by have := hy i hi; omega)
        (fun j hj => by
          rw [f1 _ (hx j hj) (Ne.symm (hdis _ _ hr hj)), hxv j hj])
        (fun i hi => by
          by_cases hri : e.row = i
          · subst hri
            refine ⟨by simp [stepAcc], ?_⟩
            intro v hv
            simp only [stepAcc, if_true, hnone, Option.some.injEq] at hv
            subst hv
            rw [v1, hxv _ hc]
          · have hne : y i ≠ y e.row := fun h => hri (hyinj _ _ hi hr h).symm
            simp only [stepAcc, hri, if_false]
            refine ⟨?_, fun v hv => ?_⟩
            · rw [← (hinv i hi).1]
              simp [List.mem_cons, Ne.symm hri]
            · rw [f1 _ (hy i hi) hne]
              exact (hinv i hi).2 v hv)
      refine ⟨done', s', es, vs, ?_, by omega⟩
      intro b hb hnb
      rw [fs b (by omega) hnb, f1 b hb (hnb _ hr)]

/-- The accumulator of the in-place loop (first block assigns, later blocks add, missing rows
are zeroed) and the one of the out-of-place loop (start from zero, always add) agree. -/
theorem C03.acc_agree {K : Type} [Add K] [Mul K] [OfNat K 0] (hK : CommArith K)
    (xv : Nat → Vec K) (entries : List (Entry K)) (i : Nat) :
    ∀ (acc : Nat → Option (Vec K)) (accp : Vec K),
      (match acc i with | none => accp = fun _ => 0 | some v => accp = v) →
      (match finalAcc xv entries acc i with
        | none => rowDen xv entries i accp = fun _ => 0
        | some v => rowDen xv entries i accp = v) := by
  induction entries with
  | nil => intro acc accp h; simpa [finalAcc, rowDen] using h
  | cons e rest ih =>
    intro acc accp h
    simp only [finalAcc, rowDen]
    apply ih
    by_cases hri : e.row = i
    · simp only [stepAcc, hri, if_true]
      cases hacc : acc i with
      | none =>
        simp only [hacc] at h
        subst h
        funext k
        exact hK.zero_add _
      | some v =>
        simp only [hacc] at h
        subst h
        rfl
    · simpa [stepAcc, hri] using h

/-- `ProductSpaceOperator._call(x, out)` (hence `BroadcastOperator`, `ReductionOperator`,
`DiagonalOperator`): for every block matrix whose blocks are well-formed non-functional
expression trees, every store, every input tuple `x` and every output tuple `y` of distinct
objects disjoint from `x` — whatever they hold, NaN/inf included: afterwards component `i` of
`y` holds exactly the value `Σ_j ⟦op_ij⟧(x_j)` that the out-of-place call puts into its new
component `i` (rows without a block are zero); no other existing object — in particular no
component of `x` — is written. -/
theorem C03.pso_in_place {K : Type} [Add K] [Mul K] [OfNat K 0] (hK : CommArith K)
    (jk : Nat → Vec K) (m n : Nat) (x y : Nat → Nat) (entries : List (Entry K))
    (hent : EntriesOK m n true entries) (s : St K)
    (hx : ∀ j : Nat, j < n → x j < s.next) (hy : ∀ i : Nat, i < m → y i < s.next)
    (hyinj : ∀ i i' : Nat, i < m → i' < m → y i = y i' → i = i')
    (hdis : ∀ i j : Nat, i < m → j < n → y i ≠ x j) :
    ∃ done s', psoI jk m entries x y s = .ok done s' ∧
      (∀ i : Nat, i < m → s'.mem (y i) = denPso entries (fun j => s.mem (x j)) i) ∧
      (∀ b : Nat, b < s.next → (∀ i : Nat, i < m → b ≠ y i) → s'.mem b = s.mem b) := by
  obtain ⟨done, s1, es, vs, fs, _⟩ := C03.pso_loop_in_place hK jk m n x y
    (fun j => s.mem (x j)) entries hent hyinj hdis s [] (fun _ => none) hx hy
    (fun _ _ => rfl) (fun i _ => ⟨by simp, fun v hv => by simp at hv⟩)
  refine ⟨done, zeroRows y m done s1, by simp only [psoI, es], ?_, ?_⟩
  · intro i hi
    have hag := C03.acc_agree hK (fun j => s.mem (x j)) entries i (fun _ => none) (fun _ => 0) rfl
    cases hfa : finalAcc (fun j => s.mem (x j)) entries (fun _ => none) i with
    | none =>
      simp only [hfa] at hag
      have hnd : i ∉ done := fun hmem => by
        have := (vs i hi).1.mp hmem
        simp [hfa] at this
      simp only [zeroRows, denPso]
      rw [if_pos ⟨i, hi, hnd, rfl⟩, hag]
    | some v =>
      simp only [hfa] at hag
      have hd : i ∈ done := (vs i hi).1.mpr (by simp [hfa])
      simp only [zeroRows, denPso]
      rw [if_neg, (vs i hi).2 v hfa, hag]
      rintro ⟨i', hi', hnd', hyy⟩
      exact hnd' (by rw [hyinj i' i hi' hi hyy]; exact hd)
  · intro b hb hnb
    simp only [zeroRows]
    rw [if_neg, fs b hb hnb]
    rintro ⟨i', hi', _, hyy⟩
    exact hnb i' hi' hyy.symm

/-- `ComponentProjection(space, i)`: `op(x)` returns a NEW object holding component `i`,
`op(x, out=y)` leaves it in `y`; nothing else is written (in particular no component of `x`). -/
theorem C03.component_projection {K : Type} [Add K] [Mul K] [OfNat K 0] (i : Nat)
    (x : Nat → Nat) (y : Nat) (s : St K) :
    (s.next ≤ (compProjO i x s).1 ∧ (compProjO i x s).2.mem (compProjO i x s).1 = s.mem (x i) ∧
      ∀ b : Nat, b < s.next → (compProjO i x s).2.mem b = s.mem b) ∧
    ((compProjI i x y s).mem y = s.mem (x i) ∧
      ∀ b : Nat, b ≠ y → (compProjI i x y s).mem b = s.mem b) := by
  obtain ⟨s0, ea, hn0, hv0, hf0⟩ := alloc_spec s (s.mem (x i))
  refine ⟨?_, ?_⟩
  · simp only [compProjO, ea]
    exact ⟨le_refl _, hv0, fun b hb => hf0 b (by omega)⟩
  · simp only [compProjI]
    exact ⟨write_mem_same _ _ _, fun b hb => write_mem_other _ _ _ _ hb⟩

/-- `ComponentProjectionAdjoint(space, i)`, `m` components: out-of-place the result is a tuple
of NEW objects, component `i` holding `x`, the others zero; in-place the same values end up in
the distinct objects `y` (whatever they held; `x` not among them); nothing else is written. -/
theorem C03.component_projection_adjoint {K : Type} [Add K] [Mul K] [OfNat K 0] (m i : Nat)
    (hi : i < m) (x : Nat) (y : Nat → Nat) (s : St K)
    (hyinj : ∀ k k' : Nat, k < m → k' < m → y k = y k' → k = k')
    (hdis : ∀ k : Nat, k < m → y k ≠ x) :
    (∀ k : Nat, k < m → (compProjAdjO m i x s).mem (s.next + k) =
        if k = i then s.mem x else fun _ => 0) ∧
    (∀ b : Nat, b < s.next → (compProjAdjO m i x s).mem b = s.mem b) ∧
    (∀ k : Nat, k < m → (compProjAdjI m i x y s).mem (y k) =
        if k = i then s.mem x else fun _ => 0) ∧
    (∀ b : Nat, (∀ k : Nat, k < m → b ≠ y k) → (compProjAdjI m i x y s).mem b = s.mem b) := by
  refine ⟨?_, ?_, ?_, ?_⟩
  · intro k hk
    by_cases hki : k = i
    · subst hki; simp [compProjAdjO]
    · simp only [compProjAdjO, hki, if_false]
      rw [write_mem_other _ _ _ _ (by omega)]
      simp only [allocZeros]
      rw [if_pos (by omega)]
  · intro b hb
    simp only [compProjAdjO]
    rw [write_mem_other _ _ _ _ (by omega)]
    simp only [allocZeros]
    rw [if_neg (by omega)]
  · intro k hk
    have hxz : (zeroRows y m [] s).mem x = s.mem x := by
      simp only [zeroRows]
      rw [if_neg]
      rintro ⟨k', hk', _, hyy⟩
      exact hdis k' hk' hyy
    by_cases hki : k = i
    · subst hki; simp [compProjAdjI, hxz]
    · have hne : y k ≠ y i := fun h => hki (hyinj _ _ hk hi h)
      simp only [compProjAdjI, hki, if_false]
      rw [write_mem_other _ _ _ _ hne]
      simp only [zeroRows]
      rw [if_pos ⟨k, hk, by simp, rfl⟩]
  · intro b hb
    simp only [compProjAdjI]
    rw [write_mem_other _ _ _ _ (hb i hi)]
    simp only [zeroRows]
    rw [if_neg]
    rintro ⟨k', hk', _, hyy⟩
    exact hb k' hk' hyy.symm

/-- Non-vacuity of the product-space theorems: a `BroadcastOperator`, a `ReductionOperator` and
a `DiagonalOperator` over ℤ-valued trees satisfy `EntriesOK`; e.g. the reduction
`x ↦ 2·x₀ + 3·x₁` evaluated in place on x = ((5,…),(7,…)) leaves 31 in `y`. -/
example : EntriesOK (K := Int) 2 1 true (broadcastEntries [.leaf (scalingLeaf 2), .leaf (scalingLeaf 3)]) ∧
    EntriesOK (K := Int) 2 2 true (diagonalEntries [.leaf (scalingLeaf 2), .leaf (scalingLeaf 3)]) ∧
    EntriesOK (K := Int) 1 2 true (reductionEntries [.leaf (scalingLeaf 2), .leaf (scalingLeaf 3)]) ∧
    ∃ done s', psoI (fun _ _ => 99) 1 (reductionEntries [.leaf (scalingLeaf 2), .leaf (scalingLeaf 3)])
        (fun j => j) (fun _ => 2)
        (⟨fun b _ => if b = 0 then 5 else if b = 1 then 7 else 1000, 3⟩ : St Int)
        = .ok done s' ∧ s'.mem 2 0 = 31 := by
  have h2 := C03.allOK_weaken False (.leaf (scalingLeaf (2 : Int))) (C03.scale_leaf_ok 2)
  have h3 := C03.allOK_weaken False (.leaf (scalingLeaf (3 : Int))) (C03.scale_leaf_ok 3)
  have hb : EntriesOK (K := Int) 2 1 true
      (broadcastEntries [.leaf (scalingLeaf 2), .leaf (scalingLeaf 3)]) := by
    intro e he
    simp [broadcastEntries, List.range, List.range.loop] at he
    rcases he with rfl | rfl
    · exact ⟨h2, fun _ => rfl, by decide, by decide⟩
    · exact ⟨h3, fun _ => rfl, by decide, by decide⟩
  have hd : EntriesOK (K := Int) 2 2 true
      (diagonalEntries [.leaf (scalingLeaf 2), .leaf (scalingLeaf 3)]) := by
    intro e he
    simp [diagonalEntries, List.range, List.range.loop] at he
    rcases he with rfl | rfl
    · exact ⟨h2, fun _ => rfl, by decide, by decide⟩
    · exact ⟨h3, fun _ => rfl, by decide, by decide⟩
  have hr : EntriesOK (K := Int) 1 2 true
      (reductionEntries [.leaf (scalingLeaf 2), .leaf (scalingLeaf 3)]) := by
    intro e he
    simp [reductionEntries, List.range, List.range.loop] at he
    rcases he with rfl | rfl
    · exact ⟨h2, fun _ => rfl, by decide, by decide⟩
    · exact ⟨h3, fun _ => rfl, by decide, by decide⟩
  refine ⟨hb, hd, hr, ?_⟩
  obtain ⟨done, s', es, vs, _⟩ := C03.pso_in_place (C03.comm_arith_of_comm_ring Int) (fun _ _ => 99) 1 2
    (fun j => j) (fun _ => 2) _ hr
    (⟨fun b _ => if b = 0 then 5 else if b = 1 then 7 else 1000, 3⟩ : St Int)
    (fun j hj => by simp; omega) (fun i _ => by simp) (fun i i' hi hi' _ => by omega)
    (fun i j _ hj => by omega)
  refine ⟨done, s', es, ?_⟩
  have := congrFun (vs 0 (by omega)) 0
  simpa [denPso, rowDen, reductionEntries, List.range, List.range.loop, den, scalingLeaf] using this

/-- `MultiplyOperator` with a field domain (the left factor of an `OperatorComp` whose right
factor is a functional) satisfies the leaf contract. -/
theorem C03.scalar_mult_leaf_ok {K : Type} [Add K] [Mul K] [OfNat K 0] (v : Vec K) :
    LeafOK (scalarMultLeaf v) := by
  refine ⟨fun _ => ⟨fun s x hx => ?_, rfl⟩, fun _ s x y hx hy => ?_⟩
  · obtain ⟨s0, ea, hn0, hv0, hf0⟩ := alloc_spec s (fun i => s.mem x 0 * v i)
    simp only [scalarMultLeaf, ea]
    exact ⟨by omega, by omega, hv0, fun b hb => hf0 b (by omega)⟩
  · simp only [scalarMultLeaf]
    exact ⟨by simp, by simp, fun b _ hne => write_mem_other _ _ _ _ hne, by simp⟩

/-- Sensitivity (seeded bug C04-13): `OperatorRightScalarMult._call` must scale `x` into a FRESH
temporary. If it reused `out` (`tmp = out; tmp.lincomb(s, x); operator(tmp, out=out)`), the
operand would be called aliased; over the protocol-abiding but non-alias-safe `accumLeaf` the
result is 0 instead of `2·(3·5) = 30`, while the model of the code as it is gives 30. -/
theorem C03.reusing_out_as_temporary_is_wrong :
    let s : St Int := ⟨fun b _ => if b = 0 then 5 else 77, 2⟩
    let e : Op Int := .rscal (.leaf (accumLeaf 2)) 3
    (∃ s', callI (fun _ _ => 99) e 0 1 s = .ok 1 s' ∧ s'.mem 1 0 = 30) ∧
    (∃ s', callI (fun _ _ => 99) (.leaf (accumLeaf 2)) 1 1
        (s.write 1 (fun i => 3 * s.mem 0 i)) = .ok 1 s' ∧ s'.mem 1 0 = 0) := by
  intro s e
  constructor
  · have hok : AllOKg False e := C03.accum_leaf_ok 2
    obtain ⟨s', e1, v1, _, _⟩ := C03.call_in_place_distinct (C03.comm_arith_of_comm_ring Int)
      (fun _ _ => 99) e hok rfl s 0 1 (by simp [s]) (by simp [s]) (by omega)
    exact ⟨s', e1, by rw [v1]; simp [e, s, den, accumLeaf]⟩
  · exact ⟨_, by simp only [callI, accumLeaf]; rfl, by simp [St.write]⟩

namespace OdlModel.C03
/-- The top node is an expression class whose out-of-place `_call` builds its result by
element arithmetic (`left(x) + right(x)`, `op(x) + v`, `l(x) * r(x)`, `s * op(x)`, `op(x) * v`,
`v * f(x)`). -/
def TopAllocates {K : Type} : Op K → Prop
  | .sum _ _ | .vecsum _ _ | .pwprod _ _ | .lscal _ _ | .lvec _ _ | .flvm _ _ => True
  | _ => False
end OdlModel.C03

/-- RESULT OWNERSHIP on the model (what the ownership oracle tests): whatever the operands do —
even operands that return their argument or an existing object — `op(x)` of an
`OperatorSum`, `OperatorVectorSum`, `OperatorPointwiseProduct`, `OperatorLeftScalarMult`,
`OperatorLeftVectorMult`, `FunctionalLeftVectorMult` over any well-formed tree (any depth, leaves
need not be alias safe) returns a NEW object: not `x`, not any object that existed before the
call, so the caller may overwrite it without changing `x` or anything else. -/
theorem C03.wrapper_result_is_new_object {K : Type} [Add K] [Mul K] (A : Prop)
    (jk : Nat → Vec K) (e : Op K) (h : AllOKg A e) (ht : TopAllocates e)
    (s : St K) (x : Nat) (hx : x < s.next) :
    ∃ r s', callO jk e x s = .ok r s' ∧ s.next ≤ r ∧ r ≠ x := by
  cases e with
  | sum a b =>
    obtain ⟨ra, s1, e1, u1, n1, v1, f1⟩ := C03.call_out_of_place_gen A jk a h.1 s x hx
    obtain ⟨rb, s2, e2, u2, n2, v2, f2⟩ := C03.call_out_of_place_gen A jk b h.2.1 s1 x (by omega)
    exact ⟨s2.next, _, by simp only [callO, e1, bind_ok, e2, alloc]; rfl, by omega, by omega⟩
  | vecsum a v =>
    obtain ⟨ra, s1, e1, u1, n1, v1, f1⟩ := C03.call_out_of_place_gen A jk a h.1 s x hx
    exact ⟨s1.next, _, by simp only [callO, e1, bind_ok, alloc]; rfl, by omega, by omega⟩
  | pwprod a b =>
    obtain ⟨ra, s1, e1, u1, n1, v1, f1⟩ := C03.call_out_of_place_gen A jk a h.1 s x hx
    obtain ⟨rb, s2, e2, u2, n2, v2, f2⟩ := C03.call_out_of_place_gen A jk b h.2.1 s1 x (by omega)
    exact ⟨s2.next, _, by simp only [callO, e1, bind_ok, e2, alloc]; rfl, by omega, by omega⟩
  | lscal a c =>
    obtain ⟨ra, s1, e1, u1, n1, v1, f1⟩ := C03.call_out_of_place_gen A jk a h s x hx
    exact ⟨s1.next, _, by simp only [callO, e1, bind_ok, alloc]; rfl, by omega, by omega⟩
  | lvec a v =>
    obtain ⟨ra, s1, e1, u1, n1, v1, f1⟩ := C03.call_out_of_place_gen A jk a h s x hx
    exact ⟨s1.next, _, by simp only [callO, e1, bind_ok, alloc]; rfl, by omega, by omega⟩
  | flvm f v =>
    obtain ⟨ra, s1, e1, u1, n1, v1, f1⟩ := C03.call_out_of_place_gen A jk f h s x hx
    exact ⟨s1.next, _, by simp only [callO, e1, bind_ok, alloc]; rfl, by omega, by omega⟩
  | leaf l => exact absurd ht (by simp [TopAllocates])
  | comp a b => exact absurd ht (by simp [TopAllocates])
  | rscal a c => exact absurd ht (by simp [TopAllocates])
  | rvec a v => exact absurd ht (by simp [TopAllocates])

/-- SECOND CALL (what the `second-call-same-result` oracle tests), for every well-formed tree:
after `op(x)` a second `op(x)` on the store the first call left behind returns the same value —
the first call changed neither `x` nor anything the tree depends on. -/
theorem C03.second_call_same_value {K : Type} [Add K] [Mul K] (A : Prop) (jk jk' : Nat → Vec K)
    (e : Op K) (h : AllOKg A e) (s : St K) (x : Nat) (hx : x < s.next) :
    ∃ r1 s1 r2 s2, callO jk e x s = .ok r1 s1 ∧ callO jk' e x s1 = .ok r2 s2 ∧
      s2.mem r2 = s1.mem r1 ∧ s2.mem x = s.mem x := by
  obtain ⟨r1, s1, e1, u1, n1, v1, f1⟩ := C03.call_out_of_place_gen A jk e h s x hx
  obtain ⟨r2, s2, e2, u2, n2, v2, f2⟩ := C03.call_out_of_place_gen A jk' e h s1 x (by omega)
  exact ⟨r1, s1, r2, s2, e1, e2, by rw [v2, v1, f1 x hx], by rw [f2 x (by omega), f1 x hx]⟩

/-- Non-vacuity: `RealPart + v` (a vector sum over the leaf that returns its argument): the
result is a new object although the operand returned `x` itself. -/
example : ∃ r s', callO (fun _ _ => (0 : Int)) (.vecsum (.leaf retInputLeaf) (fun _ => 7)) 0
    ⟨fun _ _ => 5, 1⟩ = .ok r s' ∧ 1 ≤ r ∧ r ≠ 0 := by
  have hl : AllOKg False (Op.leaf (retInputLeaf (K := Int))) :=
    C03.allOK_weaken False (.leaf retInputLeaf) C03.ret_input_leaf_ok
  have hok : AllOKg False (Op.vecsum (.leaf (retInputLeaf (K := Int))) (fun _ => 7)) := ⟨hl, rfl⟩
  exact C03.wrapper_result_is_new_object False _ _ hok trivial ⟨fun _ _ => 5, 1⟩ 0 (by simp)

/-! ### Round 4: more `default_ops.py` bodies under the leaf contract -/

/-- `ZeroOperator` with `domain != range` (model `zeroDiffLeaf`, the `else` branch of its
`_call`, executed by the `leaf` stream): out-of-place it returns a NEW object holding zeros
and writes nothing; in-place it leaves zeros in `out` whatever `out` held (the temporary
`range.zero()` is a new object), returns `out`, and writes nothing else — the input is never
read, so the aliased call is covered too. Hence `call_protocol` applies to every tree that
contains it. -/
theorem C03.zero_diff_leaf_ok {K : Type} [Add K] [Mul K] [OfNat K 0] :
    LeafOK (zeroDiffLeaf (K := K)) := by
  refine ⟨fun _ => ⟨fun s x hx => ?_, rfl⟩, fun _ s x y hx hy => ?_⟩
  · obtain ⟨s0, ea, hn0, hv0, hf0⟩ := alloc_spec s (fun _ => (0 : K))
    simp only [zeroDiffLeaf, ea]
    exact ⟨by omega, by omega, hv0, fun b hb => hf0 b (by omega)⟩
  · obtain ⟨s0, ea, hn0, hv0, hf0⟩ := alloc_spec s (fun _ => (0 : K))
    simp only [zeroDiffLeaf, ea]
    refine ⟨by simp, ?_, ?_, by simp only [write_next]; omega⟩
    · rw [write_mem_same, hv0]
    · intro b hb hne; rw [write_mem_other _ _ _ _ hne, hf0 b (by omega)]

/-- `MultiplyOperator` with a SCALAR multiplicand on a space (model `multScalarLeaf`, both
`out` branches with their temporaries: `tmp = space.element(); lincomb(c, x, out=tmp)` and then
`return tmp` | `out.assign(tmp)`): whatever the uninitialised temporary and `out` held, the
result holds what `lincomb(c, x)` computes (`lincombSmall`: exact zeros for `c == 0`, else
`c·x + 0·x`; equal to `c·x` in every ring: `mult_scalar_value`), is a new object out-of-place
and `out` in-place, also for `x is out`; nothing else is written. -/
theorem C03.mult_scalar_leaf_ok {K : Type} [Add K] [Mul K] [OfNat K 0] (isz : K → Bool)
    (jk : Nat → Vec K) (c : K) : LeafOK (multScalarLeaf isz jk c) := by
  refine ⟨fun _ => ⟨fun s x hx => ?_, rfl⟩, fun _ s x y hx hy => ?_⟩
  · obtain ⟨s0, ea, hn0, hv0, hf0⟩ := alloc_spec s (jk s.next)
    simp only [multScalarLeaf, ea]
    refine ⟨by simp only [write_next]; omega, by simp only [write_next]; omega, ?_, ?_⟩
    · rw [write_mem_same, hf0 x (by omega)]
    · intro b hb; rw [write_mem_other _ _ _ _ (by omega), hf0 b (by omega)]
  · obtain ⟨s0, ea, hn0, hv0, hf0⟩ := alloc_spec s (jk s.next)
    simp only [multScalarLeaf, ea]
    refine ⟨by simp, ?_, ?_, by simp only [write_next]; omega⟩
    · rw [write_mem_same, write_mem_same, hf0 x (by omega)]
    · intro b hb hne
      rw [write_mem_other _ _ _ _ hne, write_mem_other _ _ _ _ (by omega), hf0 b (by omega)]

/-- `ImagPart` on a real space (model `imagLeaf`: `return x.imag`, a new zero element;
out-of-place only, in-place through `_default_call_in_place`). -/
theorem C03.imag_leaf_ok {K : Type} [Add K] [Mul K] [OfNat K 0] :
    LeafOK (imagLeaf (K := K)) := by
  refine ⟨fun _ => ⟨fun s x hx => ?_, rfl⟩, fun h => absurd rfl h⟩
  obtain ⟨s0, ea, hn0, hv0, hf0⟩ := alloc_spec s (fun _ => (0 : K))
  simp only [imagLeaf, ea]
  exact ⟨by omega, by omega, hv0, fun b hb => hf0 b (by omega)⟩

/-- `ComplexModulus` on a real space (model `cmodLeaf`, all five temporaries of
`(x.real ** 2 + x.imag ** 2).ufuncs.sqrt()` as separate new objects): the returned object is
new, holds `sqrt(x_i·x_i + 0·0)`, and no existing object — in particular `x`, which IS
`x.real` — is written. -/
theorem C03.cmod_leaf_ok {K : Type} [Add K] [Mul K] [OfNat K 0] (sq : K → K) :
    LeafOK (cmodLeaf sq) := by
  refine ⟨fun _ => ⟨fun s x hx => ?_, rfl⟩, fun h => absurd rfl h⟩
  simp only [cmodLeaf, alloc]
  refine ⟨by omega, by omega, ?_, ?_⟩
  · funext i
    have e1 : ¬ (s.next = s.next + 1 + 1) := by omega
    simp [e1]
  · intro b hb
    have h0 : b ≠ s.next := by omega
    have h1 : b ≠ s.next + 1 := by omega
    have h2 : b ≠ s.next + 1 + 1 := by omega
    have h3 : b ≠ s.next + 1 + 1 + 1 := by omega
    have h4 : b ≠ s.next + 1 + 1 + 1 + 1 := by omega
    simp [h0, h1, h2, h3, h4]

/-- `LinCombOperator(X, a, b)` (`linCombO` / `linCombI`, executed by the `lincomb` op):
`op(x)` returns a NEW object holding `lincomb(a, x₀, b, x₁)` (`lincombSmall`; `a·x₀ + b·x₁` in
every ring: `lincomb_small_value`) whatever `range.element()` contained, and
writes no existing object; `op(x, out=y)` leaves the same value in `y` — also when `y` IS the
component `x₀` or `x₁` — and writes nothing else. (The atomic `lincomb` is the subject of C01.) -/
theorem C03.lin_comb_operator {K : Type} [Add K] [Mul K] [OfNat K 0] (isz : K → Bool)
    (jk : Nat → Vec K)
    (a b : K) (x : Nat → Nat) (y : Nat) (s : St K) (h0 : x 0 < s.next) (h1 : x 1 < s.next) :
    ((linCombO isz jk a b x s).1 = s.next ∧
      (linCombO isz jk a b x s).2.mem (linCombO isz jk a b x s).1 =
        lincombSmall isz a (s.mem (x 0)) b (s.mem (x 1)) ∧
      ∀ k : Nat, k < s.next → (linCombO isz jk a b x s).2.mem k = s.mem k) ∧
    ((linCombI isz a b x y s).mem y = lincombSmall isz a (s.mem (x 0)) b (s.mem (x 1)) ∧
      ∀ k : Nat, k ≠ y → (linCombI isz a b x y s).mem k = s.mem k) := by
  obtain ⟨s0, ea, hn0, hv0, hf0⟩ := alloc_spec s (jk s.next)
  refine ⟨?_, ?_⟩
  · simp only [linCombO, ea]
    refine ⟨trivial, ?_, ?_⟩
    · rw [write_mem_same, hf0 _ (by omega), hf0 _ (by omega)]
    · intro k hk; rw [write_mem_other _ _ _ _ (by omega), hf0 k (by omega)]
  · simp only [linCombI]
    exact ⟨write_mem_same _ _ _, fun k hk => write_mem_other _ _ _ _ hk⟩

/-- Non-vacuity and use: the round-4 leaves inside a tree satisfy the hypotheses of
`call_protocol`; `ZeroOperator(X, Y) + 3·|x|` … evaluated in place over ℤ with `sq := id` on
x = (−4, …) gives `0 + 2·((−4)·(−4) + 0·0) = 32` in `y`, whatever `y` held. -/
example : let e : Op Int :=
      .sum (.leaf zeroDiffLeaf) (.sum (.leaf imagLeaf)
                                      (.comp (.leaf (multScalarLeaf (· == 0) (fun _ _ => 77) 2))
                                             (.leaf (cmodLeaf id))))
    AllOK e ∧ e.fn = false ∧
      ∃ s', callI (fun _ _ => 99) e 0 1 ⟨fun b _ => if b = 0 then -4 else 12345, 2⟩ = .ok 1 s' ∧
        s'.mem 1 0 = 32 := by
  intro e
  have hK := C03.comm_arith_of_comm_ring Int
  have hok : AllOK e := by
    simp only [e, AllOK, Op.fn]
    exact ⟨C03.zero_diff_leaf_ok, ⟨C03.imag_leaf_ok,
      ⟨C03.mult_scalar_leaf_ok _ _ 2, C03.cmod_leaf_ok id⟩, by trivial⟩, by trivial⟩
  refine ⟨hok, rfl, ?_⟩
  obtain ⟨s', e1, v1, _, _⟩ := C03.call_in_place hK (fun _ _ => 99) e hok rfl
    ⟨fun b _ => if b = 0 then -4 else 12345, 2⟩ 0 1 (by simp) (by simp)
  exact ⟨s', e1, by rw [v1]; simp [e, den, zeroDiffLeaf, imagLeaf, multScalarLeaf, cmodLeaf, lincombSmall]⟩

example : (linCombI (· == 0) (2 : Int) 3 (fun j => j) 0
    ⟨fun b _ => if b = 0 then 5 else 7, 2⟩).mem 0 0 = 31 := by
  simp [linCombI, St.write, lincombSmall]

/-- In every commutative ring, with `isz` the test `· = 0`, the small-size `lincomb` computes
`a·x₁ + b·x₂` (the `a == 0 and b == 0` shortcut changes nothing), so `multScalarLeaf` computes
`c·x`. Over the doubles the two differ in the sign of zero and on NaN/inf entries of `x`
(`0·inf`), which is why the model keeps the shortcut and the `+ 0·x`. -/
theorem C03.lincomb_small_value {K : Type} [CommRing K] (isz : K → Bool)
    (hz : ∀ a : K, isz a = true ↔ a = 0) (a b : K) (x1 x2 : Vec K) :
    lincombSmall isz a x1 b x2 = (fun i => a * x1 i + b * x2 i) ∧
    (multScalarLeaf isz (fun _ _ => 0) a).phi x1 = fun i => a * x1 i := by
  have h1 : ∀ (a b : K) (x1 x2 : Vec K),
      lincombSmall isz a x1 b x2 = (fun i => a * x1 i + b * x2 i) := by
    intro a b x1 x2
    unfold lincombSmall
    split_ifs with h
    · simp only [Bool.and_eq_true] at h
      funext i
      rw [(hz a).mp h.1, (hz b).mp h.2]; ring
    · rfl
  refine ⟨h1 a b x1 x2, ?_⟩
  simp only [multScalarLeaf, h1]
  funext i; ring

/-! ### Round 4: `BroadcastOperator`, `ReductionOperator`, `DiagonalOperator` -/

/-- The block lists that the constructors of `BroadcastOperator` / `DiagonalOperator`
(`rowsFrom`) and `ReductionOperator` (`colsFrom`) build from well-formed non-functional
operands satisfy the hypotheses `EntriesOK` of the `ProductSpaceOperator` theorems. -/
theorem C03.wrapper_entries_ok {K : Type} (ops : List (Op K))
    (hops : ∀ op ∈ ops, AllOKg False op ∧ op.fn = false) (ip : Bool) :
    EntriesOK ops.length 1 ip (rowsFrom (fun _ => 0) 0 ops) ∧
    EntriesOK ops.length ops.length ip (rowsFrom id 0 ops) ∧
    EntriesOK 1 ops.length ip (colsFrom 0 ops) := by
  refine ⟨fun e he => ?_, fun e he => ?_, fun e he => ?_⟩
  · obtain ⟨_, h2, h3, h4⟩ := rowsFrom_rows (fun _ => 0) ops 0 e he
    exact ⟨(hops _ h4).1, fun _ => (hops _ h4).2, by omega, by omega⟩
  · obtain ⟨_, h2, h3, h4⟩ := rowsFrom_rows id ops 0 e he
    exact ⟨(hops _ h4).1, fun _ => (hops _ h4).2, by omega, by simp only [id] at h3; omega⟩
  · obtain ⟨h1, _, h3, h4⟩ := colsFrom_cols ops 0 e he
    exact ⟨(hops _ h4).1, fun _ => (hops _ h4).2, by omega, by omega⟩

/-- `BroadcastOperator(op_0, …, op_{m-1})`, its own `_call` included (`broadcastO/I`: the block
list built by the constructor, `x` wrapped into a 1-tuple WITHOUT copy): for all well-formed
non-functional operand trees, every store, every `x` and every output tuple `y` of distinct
objects other than `x`, whatever they hold: `op(x)` returns a tuple of NEW objects, component
`i` holding `0 + ⟦op_i⟧(x)`, and writes no existing object (although the wrapped tuple shares
`x`); `op(x, out=y)` leaves exactly these values in the components of `y` and writes nothing
else, in particular not `x`. -/
theorem C03.broadcast_protocol {K : Type} [Add K] [Mul K] [OfNat K 0] (hK : CommArith K)
    (jk : Nat → Vec K) (ops : List (Op K))
    (hops : ∀ op ∈ ops, AllOKg False op ∧ op.fn = false) (s : St K) (xb : Nat)
    (hx : xb < s.next) (y : Nat → Nat) (hy : ∀ i : Nat, i < ops.length → y i < s.next)
    (hyinj : ∀ i i' : Nat, i < ops.length → i' < ops.length → y i = y i' → i = i')
    (hdis : ∀ i : Nat, i < ops.length → y i ≠ xb) :
    (∃ s', broadcastO jk ops xb s = .ok [] s' ∧
      (∀ (i : Nat) (op : Op K), ops[i]? = some op →
        s'.mem (s.next + i) = fun k => 0 + den op (s.mem xb) k) ∧
      ∀ b : Nat, b < s.next → s'.mem b = s.mem b) ∧
    (∃ done s', broadcastI jk ops xb y s = .ok done s' ∧
      (∀ (i : Nat) (op : Op K), ops[i]? = some op →
        s'.mem (y i) = fun k => 0 + den op (s.mem xb) k) ∧
      ∀ b : Nat, b < s.next → (∀ i : Nat, i < ops.length → b ≠ y i) → s'.mem b = s.mem b) := by
  have hlt : ∀ (i : Nat) (op : Op K), ops[i]? = some op → i < ops.length := fun i op h => by
    have := List.getElem?_eq_some_iff.mp h; exact this.1
  constructor
  · obtain ⟨s', es, vs, fs⟩ := C03.pso_out_of_place jk ops.length 1 (fun _ => xb) _
      (C03.wrapper_entries_ok ops hops false).1 s (fun _ _ => hx)
    refine ⟨s', es, fun i op hop => ?_, fs⟩
    rw [vs i (hlt i op hop)]
    exact rowDen_rowsFrom _ _ ops 0 i op (by omega) (by simpa using hop) _
  · obtain ⟨done, s', es, vs, fs⟩ := C03.pso_in_place hK jk ops.length 1 (fun _ => xb) y _
      (C03.wrapper_entries_ok ops hops true).1 s (fun _ _ => hx) hy hyinj (fun i _ hi _ => hdis i hi)
    refine ⟨done, s', es, fun i op hop => ?_, fs⟩
    rw [vs i (hlt i op hop)]
    exact rowDen_rowsFrom _ _ ops 0 i op (by omega) (by simpa using hop) _

/-- `DiagonalOperator(op_0, …, op_{m-1})` (a `ProductSpaceOperator` with the blocks `(i, i, op_i)`
built by its constructor): component `i` of the result is `0 + ⟦op_i⟧(x_i)`, in NEW objects
out-of-place and in the distinct objects `y` (disjoint from `x`) in-place; nothing else is
written. -/
theorem C03.diagonal_protocol {K : Type} [Add K] [Mul K] [OfNat K 0] (hK : CommArith K)
    (jk : Nat → Vec K) (ops : List (Op K))
    (hops : ∀ op ∈ ops, AllOKg False op ∧ op.fn = false) (s : St K) (x y : Nat → Nat)
    (hx : ∀ j : Nat, j < ops.length → x j < s.next)
    (hy : ∀ i : Nat, i < ops.length → y i < s.next)
    (hyinj : ∀ i i' : Nat, i < ops.length → i' < ops.length → y i = y i' → i = i')
    (hdis : ∀ i j : Nat, i < ops.length → j < ops.length → y i ≠ x j) :
    (∃ s', diagonalO jk ops x s = .ok [] s' ∧
      (∀ (i : Nat) (op : Op K), ops[i]? = some op →
        s'.mem (s.next + i) = fun k => 0 + den op (s.mem (x i)) k) ∧
      ∀ b : Nat, b < s.next → s'.mem b = s.mem b) ∧
    (∃ done s', diagonalI jk ops x y s = .ok done s' ∧
      (∀ (i : Nat) (op : Op K), ops[i]? = some op →
        s'.mem (y i) = fun k => 0 + den op (s.mem (x i)) k) ∧
      ∀ b : Nat, b < s.next → (∀ i : Nat, i < ops.length → b ≠ y i) → s'.mem b = s.mem b) := by
  have hlt : ∀ (i : Nat) (op : Op K), ops[i]? = some op → i < ops.length := fun i op h => by
    have := List.getElem?_eq_some_iff.mp h; exact this.1
  constructor
  · obtain ⟨s', es, vs, fs⟩ := C03.pso_out_of_place jk ops.length ops.length x _
      (C03.wrapper_entries_ok ops hops false).2.1 s hx
    refine ⟨s', es, fun i op hop => ?_, fs⟩
    rw [vs i (hlt i op hop)]
    exact rowDen_rowsFrom _ id ops 0 i op (by omega) (by simpa using hop) _
  · obtain ⟨done, s', es, vs, fs⟩ := C03.pso_in_place hK jk ops.length ops.length x y _
      (C03.wrapper_entries_ok ops hops true).2.1 s hx hy hyinj hdis
    refine ⟨done, s', es, fun i op hop => ?_, fs⟩
    rw [vs i (hlt i op hop)]
    exact rowDen_rowsFrom _ id ops 0 i op (by omega) (by simpa using hop) _

/-- `ReductionOperator(op_0, …, op_{n-1})`, its own `_call` included (`reductionO/I`):
`op(x)` returns component 0 of the new result tuple — a NEW object — holding
`((0 + ⟦op_0⟧(x_0)) + ⟦op_1⟧(x_1)) + …` (`redSum`) and writes no existing object;
`op(x, out=y)` wraps `y` into a 1-tuple WITHOUT copy, so the returned `pspace_result[0]` is the
very object `y`, which then holds the same value whatever it held before; nothing else — in
particular no component of `x` — is written. -/
theorem C03.reduction_protocol {K : Type} [Add K] [Mul K] [OfNat K 0] (hK : CommArith K)
    (jk : Nat → Vec K) (ops : List (Op K))
    (hops : ∀ op ∈ ops, AllOKg False op ∧ op.fn = false) (s : St K) (x : Nat → Nat) (yb : Nat)
    (hx : ∀ j : Nat, j < ops.length → x j < s.next) (hy : yb < s.next)
    (hdis : ∀ j : Nat, j < ops.length → yb ≠ x j) :
    (∃ s', reductionO jk ops x s = .ok s.next s' ∧
      s'.mem s.next = redSum (fun j => s.mem (x j)) 0 ops (fun _ => 0) ∧
      ∀ b : Nat, b < s.next → s'.mem b = s.mem b) ∧
    (∃ s', reductionI jk ops x yb s = .ok yb s' ∧
      s'.mem yb = redSum (fun j => s.mem (x j)) 0 ops (fun _ => 0) ∧
      ∀ b : Nat, b < s.next → b ≠ yb → s'.mem b = s.mem b) := by
  constructor
  · obtain ⟨s', es, vs, fs⟩ := C03.pso_out_of_place jk 1 ops.length x _
      (C03.wrapper_entries_ok ops hops false).2.2 s hx
    refine ⟨s', by simp only [reductionO, es], ?_, fs⟩
    have := vs 0 (by omega)
    rw [Nat.add_zero] at this
    rw [this]
    exact rowDen_colsFrom _ ops 0 _
  · obtain ⟨done, s', es, vs, fs⟩ := C03.pso_in_place hK jk 1 ops.length x (fun _ => yb) _
      (C03.wrapper_entries_ok ops hops true).2.2 s hx (fun _ _ => hy) (fun i i' hi hi' _ => by omega)
      (fun _ j _ hj => hdis j hj)
    refine ⟨s', by simp only [reductionI, es], ?_, fun b hb hne => fs b hb (fun _ _ => hne)⟩
    rw [vs 0 (by omega)]
    exact rowDen_colsFrom _ ops 0 _

/-- Non-vacuity: the reduction `x ↦ 2·x₀ + 3·x₁` over ℤ satisfies the hypotheses; evaluated in
place on x = ((5,…),(7,…)) into `y` (holding 1000) it returns `y` holding 0 + 10 + 21 = 31; the
broadcast `x ↦ (2x, 3x)` on 5 puts 10 and 15 into two new objects. -/
example : let ops : List (Op Int) := [.leaf (scalingLeaf 2), .leaf (scalingLeaf 3)]
    let s : St Int := ⟨fun b _ => if b = 0 then 5 else if b = 1 then 7 else 1000, 3⟩
    (∃ s', reductionI (fun _ _ => 99) ops (fun j => j) 2 s = .ok 2 s' ∧ s'.mem 2 0 = 31) ∧
    (∃ s', broadcastO (fun _ _ => 99) ops 0 s = .ok [] s' ∧ s'.mem 3 0 = 10 ∧ s'.mem 4 0 = 15) := by
  intro ops s
  have hK := C03.comm_arith_of_comm_ring Int
  have hops : ∀ op ∈ ops, AllOKg False op ∧ op.fn = false := by
    intro op hop
    simp only [ops, List.mem_cons, List.not_mem_nil, or_false] at hop
    rcases hop with rfl | rfl
    · exact ⟨C03.allOK_weaken False _ (C03.scale_leaf_ok 2), rfl⟩
    · exact ⟨C03.allOK_weaken False _ (C03.scale_leaf_ok 3), rfl⟩
  constructor
  · obtain ⟨s', es, vs, _⟩ := (C03.reduction_protocol hK (fun _ _ => 99) ops hops s (fun j => j) 2
      (fun j hj => by simp [ops] at hj; simp [s]; omega) (by simp [s])
      (fun j hj => by simp [ops] at hj; omega)).2
    refine ⟨s', es, ?_⟩
    rw [vs]; simp [ops, s, redSum, den, scalingLeaf]
  · obtain ⟨s', es, vs, _⟩ := (C03.broadcast_protocol hK (fun _ _ => 99) ops hops s 0 (by simp [s])
      (fun i => 1 + i) (fun i hi => by simp [ops] at hi; simp [s]; omega)
      (fun i i' _ _ h => by omega) (fun i _ => by omega)).1
    refine ⟨s', es, ?_, ?_⟩
    · have := vs 0 (.leaf (scalingLeaf 2)) rfl
      simp only [s, Nat.add_zero] at this
      rw [this]; simp [den, scalingLeaf]
    · have := vs 1 (.leaf (scalingLeaf 3)) rfl
      simp only [s] at this
      rw [this]; simp [den, scalingLeaf]

/-- UNCONDITIONAL call protocol of the round-4 `default_ops.py` leaves (no leaf contract left
as a hypothesis — it is proved above): for `ZeroOperator` with `domain != range`,
`MultiplyOperator` with a scalar multiplicand, `ImagPart` and `ComplexModulus` on a real space,
the public `op(x)` returns an object holding the leaf's value and writes no existing object;
`op(x, out=y)` returns the very `y` holding the same value whatever it held (for the two
out-of-place-only classes through `_default_call_in_place`), and writes nothing else. -/
theorem C03.round4_leaves_call_protocol {K : Type} [Add K] [Mul K] [OfNat K 0] (hK : CommArith K)
    (isz : K → Bool) (jk0 : Nat → Vec K) (c : K) (sq : K → K) (l : Leaf K)
    (hl : l = zeroDiffLeaf ∨ l = multScalarLeaf isz jk0 c ∨ l = imagLeaf ∨ l = cmodLeaf sq)
    (jk jk' : Nat → Vec K) (s : St K) (x y : Nat) (hx : x < s.next) (hy : y < s.next) :
    (∃ r s1, call jk (.leaf l) (.inDomain x) .none s = .ok r s1 ∧
        s1.mem r = l.phi (s.mem x) ∧ ∀ b : Nat, b < s.next → s1.mem b = s.mem b) ∧
    (∃ s2, call jk' (.leaf l) (.inDomain x) (.inRange y) s = .ok y s2 ∧
        s2.mem y = l.phi (s.mem x) ∧ (x ≠ y → s2.mem x = s.mem x) ∧
        ∀ b : Nat, b < s.next → b ≠ y → s2.mem b = s.mem b) := by
  have hok : LeafOK l := by
    rcases hl with rfl | rfl | rfl | rfl
    · exact C03.zero_diff_leaf_ok
    · exact C03.mult_scalar_leaf_ok _ _ _
    · exact C03.imag_leaf_ok
    · exact C03.cmod_leaf_ok _
  have hfn : l.fn = false := by
    rcases hl with rfl | rfl | rfl | rfl <;> rfl
  exact C03.call_protocol hK jk jk' (.leaf l) hok hfn s x y hx hy

/-- UNCONDITIONAL public call of a functional / field-range class whose `_call(self, x)` returns
a scalar computed from `x` (`funcLeaf f`: `InnerProductOperator`, `NormOperator`,
`DistOperator`, and `PowerOperator` / `MultiplyOperator` on a FIELD domain, where `x` itself
is a scalar; all five run by the `leaf` / `tree` streams), for every `f`: `op(x)` returns a new
value `f(x)` and writes no existing object; an `x` that has to be cast gives the value of the
cast input; ANY `out` is refused before the body runs and with the store untouched — an `out`
in the range (a number) with `TypeError`, anything else with `OpRangeError`; an uncastable `x`
with `OpDomainError`. The result is never written into `out`. (Holds by unfolding the model
of `__call__` on this concrete leaf — no arithmetic law and no contract is used; its content
is the tie of `call` / `funcLeaf` to the code by the dispatch and leaf streams.) -/
theorem C03.field_range_call {K : Type} [Add K] [Mul K] [OfNat K 0]
    (jk : Nat → Vec K) (f : Vec K → K) (s : St K) (x : Nat) :
    (∃ r s1, call jk (.leaf (funcLeaf f)) (.inDomain x) .none s = .ok r s1 ∧ s.next ≤ r ∧
        s1.mem r = (fun _ => f (s.mem x)) ∧ ∀ b : Nat, b < s.next → s1.mem b = s.mem b) ∧
    (∀ v : Vec K, ∃ r s1, call jk (.leaf (funcLeaf f)) (.castable v) .none s = .ok r s1 ∧
        s1.mem r = (fun _ => f v) ∧ ∀ b : Nat, b < s.next → s1.mem b = s.mem b) ∧
    (∀ y, call jk (.leaf (funcLeaf f)) (.inDomain x) (.inRange y) s = .err .type s) ∧
    call jk (.leaf (funcLeaf f)) (.inDomain x) .foreign s = .err .range s ∧
    (∀ o, call jk (.leaf (funcLeaf f)) .bad o s = .err .domain s) := by
  refine ⟨?_, fun v => ?_, fun y => by simp [call, Op.fn, funcLeaf], rfl, fun o => rfl⟩
  · simp only [call, callO, funcLeaf, alloc]
    exact ⟨_, _, rfl, le_refl _, by simp, fun b hb => by simp; intro h; omega⟩
  · simp only [call, callO, funcLeaf, alloc]
    refine ⟨_, _, rfl, by simp, fun b hb => ?_⟩
    have h0 : b ≠ s.next := by omega
    have h1 : b ≠ s.next + 1 := by omega
    simp [h0, h1]

example : ∃ r s1, call (fun _ _ => (99 : Int)) (.leaf (funcLeaf fun v => v 0 * v 0 + v 1))
    (.inDomain 0) .none ⟨fun _ i => if i = 0 then 3 else 4, 1⟩ = .ok r s1 ∧ s1.mem r 0 = 13 := by
  obtain ⟨r, s1, e1, _, v1, _⟩ := (C03.field_range_call
    (fun _ _ => (99 : Int)) (fun v => v 0 * v 0 + v 1) ⟨fun _ i => if i = 0 then 3 else 4, 1⟩ 0).1
  exact ⟨r, s1, e1, by rw [v1]; simp⟩

/-- `ComponentProjection` with a LIST index `[i_0, …, i_{p-1}]` (`compProjListO/I`, executed by
`pso kind=projl`): `op(x)` returns a tuple of `p` NEW objects, component `k` holding `x[i_k]`
(repeated indices allowed), and writes no existing object — although `x[index]` shares the
components of `x`; `op(x, out=y)`, `y` a tuple of distinct objects none of which is a
component of `x`, leaves `x[i_k]` in `y_k` whatever `y` held, and writes nothing else. -/
theorem C03.component_projection_list {K : Type} (idx : List Nat) (x y : Nat → Nat) (s : St K)
    (hx : ∀ i ∈ idx, x i < s.next)
    (hyinj : ∀ a b : Nat, y a = y b → a = b) (hdis : ∀ (k : Nat), ∀ i ∈ idx, y k ≠ x i) :
    ((compProjListO idx x s).next = s.next + idx.length ∧
      (∀ (k i : Nat), idx[k]? = some i → (compProjListO idx x s).mem (s.next + k) = s.mem (x i)) ∧
      ∀ b : Nat, b < s.next → (compProjListO idx x s).mem b = s.mem b) ∧
    ((∀ (k i : Nat), idx[k]? = some i → (compProjListI idx 0 x y s).mem (y k) = s.mem (x i)) ∧
      ∀ b : Nat, (∀ k : Nat, k < idx.length → b ≠ y k) →
        (compProjListI idx 0 x y s).mem b = s.mem b) := by
  constructor
  · clear hyinj hdis
    induction idx generalizing s with
    | nil => exact ⟨rfl, fun k i h => by simp at h, fun _ _ => rfl⟩
    | cons i r ih =>
      obtain ⟨s0, ea, hn0, hv0, hf0⟩ := alloc_spec s (s.mem (x i))
      have hx0 : ∀ i' ∈ r, x i' < s0.next := fun i' hi' => by
        have := hx i' (by simp [hi']); omega
      obtain ⟨n1, v1, f1⟩ := ih s0 hx0
      simp only [compProjListO, ea]
      refine ⟨by rw [n1, hn0]; simp only [List.length_cons]; omega, ?_, ?_⟩
      · intro k i' hk
        cases k with
        | zero =>
          simp only [List.getElem?_cons_zero, Option.some.injEq] at hk
          subst hk
          rw [Nat.add_zero, f1 s.next (by omega), hv0]
        | succ k =>
          simp only [List.getElem?_cons_succ] at hk
          have hmem : i' ∈ r := List.mem_of_getElem? hk
          have := v1 k i' hk
          rw [hn0] at this
          rw [show s.next + (k + 1) = s.next + 1 + k by omega, this,
            hf0 _ (by have := hx i' (by simp [hmem]); omega)]
      · intro b hb; rw [f1 b (by omega), hf0 b (by omega)]
  · suffices h : ∀ (k0 : Nat) (s : St K),
        (∀ (k i : Nat), idx[k]? = some i → (compProjListI idx k0 x y s).mem (y (k0 + k)) = s.mem (x i)) ∧
        ∀ b : Nat, (∀ k : Nat, k < idx.length → b ≠ y (k0 + k)) →
          (compProjListI idx k0 x y s).mem b = s.mem b by
      have := h 0 s
      simpa using this
    clear hx
    induction idx with
    | nil => intro k0 s; exact ⟨fun k i h => by simp at h, fun _ _ => rfl⟩
    | cons i r ih =>
      intro k0 s
      obtain ⟨v1, f1⟩ := ih (fun k i' hi' => hdis k i' (by simp [hi'])) (k0 + 1)
        (s.write (y k0) (s.mem (x i)))
      simp only [compProjListI]
      refine ⟨?_, ?_⟩
      · intro k i' hk
        cases k with
        | zero =>
          simp only [List.getElem?_cons_zero, Option.some.injEq] at hk
          subst hk
          show (compProjListI r (k0 + 1) x y _).mem (y k0) = _
          rw [f1 (y k0) (fun k _ h => by have := hyinj _ _ h; omega), write_mem_same]
        | succ k =>
          simp only [List.getElem?_cons_succ] at hk
          have hmem : i' ∈ r := List.mem_of_getElem? hk
          rw [show k0 + (k + 1) = k0 + 1 + k by omega, v1 k i' hk,
            write_mem_other _ _ _ _ (fun h => hdis k0 i' (by simp [hmem]) h.symm)]
      · intro b hb
        rw [f1 b (fun k hk => by
          have := hb (k + 1) (by simp only [List.length_cons]; omega)
          rwa [show k0 + (k + 1) = k0 + 1 + k by omega] at this),
          write_mem_other _ _ _ _ (by have := hb 0 (by simp); simpa using this)]

/-- Non-vacuity: projecting x = (5, 7, 9) on `[2, 0]` in place into y = (buffers 3, 4). -/
example : let s : St Int := ⟨fun b _ => if b = 0 then 5 else if b = 1 then 7 else if b = 2 then 9 else 1000, 5⟩
    (compProjListI [2, 0] 0 (fun j => j) (fun k => 3 + k) s).mem 3 0 = 9 ∧
    (compProjListI [2, 0] 0 (fun j => j) (fun k => 3 + k) s).mem 4 0 = 5 := by
  intro s
  have h := (C03.component_projection_list [2, 0] (fun j => j) (fun k => 3 + k) s
    (fun i hi => by simp at hi; rcases hi with rfl | rfl <;> simp [s])
    (fun a b h => by omega) (fun k i hi => by simp at hi; rcases hi with rfl | rfl <;> omega)).2.1
  exact ⟨by have := h 0 2 rfl; simp only [Nat.add_zero] at this; rw [this]; simp [s],
    by have := h 1 0 rfl; rw [this]; simp [s]⟩

/-! ### Round 5: user temporaries; entry order of `ProductSpaceOperator` -/

/-- Wrappers constructed WITH a user temporary `t` (`OperatorRightScalarMult(op, c, tmp=t)`,
`OperatorComp(l, r, tmp=t)`, `OperatorSum(l, r, tmp_ran=t)`; models `rscalTmpI`, `compTmpI`,
`sumTmpI`, run by `tree … wrap=`): for all well-formed non-functional operand trees, every
store and all DISTINCT existing objects `x`, `y`, `t`, whatever `y` and `t` hold: the in-place
call returns `y` holding exactly the value of the wrapper WITHOUT temporary (`den` of `.rscal`,
`.comp`, `.sum`), and writes no object other than `y` and the temporary `t`. (The out-of-place
calls do not touch `t` at all: they are `callO`, which writes no existing object —
`call_out_of_place_gen`.) -/
theorem C03.user_tmp_in_place {K : Type} [Add K] [Mul K] [OfNat K 0] (hK : CommArith K)
    (jk : Nat → Vec K) (a b : Op K) (c : K) (ha : AllOKg False a) (hb : AllOKg False b)
    (hfa : a.fn = false) (hfb : b.fn = false) (s : St K) (t x y : Nat)
    (ht : t < s.next) (hx : x < s.next) (hy : y < s.next)
    (htx : t ≠ x) (hty : t ≠ y) (hxy : x ≠ y) :
    (∃ s', rscalTmpI jk a c t x y s = .ok y s' ∧ s'.mem y = den (.rscal a c) (s.mem x) ∧
      ∀ k : Nat, k < s.next → k ≠ y → k ≠ t → s'.mem k = s.mem k) ∧
    (∃ s', compTmpI jk a b t x y s = .ok y s' ∧ s'.mem y = den (.comp a b) (s.mem x) ∧
      ∀ k : Nat, k < s.next → k ≠ y → k ≠ t → s'.mem k = s.mem k) ∧
    (∃ s', sumTmpI jk a b t x y s = .ok y s' ∧ s'.mem y = den (.sum a b) (s.mem x) ∧
      ∀ k : Nat, k < s.next → k ≠ y → k ≠ t → s'.mem k = s.mem k) := by
  refine ⟨?_, ?_, ?_⟩
  · obtain ⟨s', e1, v1, f1, _⟩ := C03.call_in_place_gen hK False jk a ha hfa
      (s.write t (fun i => c * s.mem x i)) t y (by simpa using ht) (by simpa using hy) (Or.inr hty)
    refine ⟨s', e1, ?_, fun k hk hky hkt => ?_⟩
    · rw [v1, write_mem_same]; rfl
    · rw [f1 k (by simpa using hk) hky, write_mem_other _ _ _ _ hkt]
  · obtain ⟨s1, e1, v1, f1, n1⟩ := C03.call_in_place_gen hK False jk b hb hfb s x t hx ht
      (Or.inr (Ne.symm htx))
    obtain ⟨s2, e2, v2, f2, _⟩ := C03.call_in_place_gen hK False jk a ha hfa s1 t y (by omega)
      (by omega) (Or.inr hty)
    refine ⟨s2, by simp only [compTmpI, e1, bind_ok, e2], ?_, fun k hk hky hkt => ?_⟩
    · rw [v2, v1]; rfl
    · rw [f2 k (by omega) hky, f1 k hk hkt]
  · obtain ⟨s1, e1, v1, f1, n1⟩ := C03.call_in_place_gen hK False jk a ha hfa s x t hx ht
      (Or.inr (Ne.symm htx))
    obtain ⟨s2, e2, v2, f2, n2⟩ := C03.call_in_place_gen hK False jk b hb hfb s1 x y (by omega)
      (by omega) (Or.inr hxy)
    refine ⟨s2.write y (fun i => s2.mem y i + s2.mem t i), by simp only [sumTmpI, e1, bind_ok, e2], ?_,
      fun k hk hky hkt => ?_⟩
    · rw [write_mem_same, v2, f2 t (by omega) hty, v1, f1 x hx (Ne.symm htx)]
      funext i
      exact hK.add_comm _ _
    · rw [write_mem_other _ _ _ _ hky, f2 k (by omega) hky, f1 k hk hkt]

/-- Sensitivity (seed C03-52): an out-of-place body of `OperatorRightScalarMult` that scales
into the user temporary and hands it to an operand returning its argument (`RealPart` on a real
space, `FlatteningOperator`) returns THE TEMPORARY ITSELF — an existing object of the
operator's state, which the next call overwrites. The code (`callO (.rscal a c)`) returns an
object that did not exist before (`wrapper_result_is_new_object` for the new-object nodes). -/
theorem C03.user_tmp_out_of_place_reuse_is_wrong {K : Type} [Add K] [Mul K]
    (jk : Nat → Vec K) (c : K) (t x : Nat) (s : St K) :
    rscalTmpBadO jk (.leaf retInputLeaf) c t x s = .ok t (s.write t (fun i => c * s.mem x i)) := by
  simp [rscalTmpBadO, callO, retInputLeaf]

/-- Sensitivity (seed C03-51): `psoLoopI` follows `has_evaluated_row`, so `pso_in_place` holds
for EVERY entry order (its hypothesis `EntriesOK` does not mention the order). The loop that
compares with the row of the previous entry is wrong as soon as a row is not contiguous: for
the 2 x 2 block operator of identities in the transposed order (0,0), (1,0), (0,1), (1,1) of
`.adjoint`, on x = (5, 7) it leaves 7 in row 0 where the code leaves 5 + 7 = 12. -/
theorem C03.row_grouping_assumption_is_wrong :
    let es : List (Entry Int) := [⟨0, 0, .leaf (scalingLeaf 1)⟩, ⟨1, 0, .leaf (scalingLeaf 1)⟩,
      ⟨0, 1, .leaf (scalingLeaf 1)⟩, ⟨1, 1, .leaf (scalingLeaf 1)⟩]
    let s : St Int := ⟨fun b _ => if b = 0 then 5 else if b = 1 then 7 else 1000, 4⟩
    (∃ d s', psoLoopI (fun _ _ => 99) (fun j => j) (fun i => 2 + i) es [] s = .ok d s' ∧
        s'.mem 2 0 = 12) ∧
    (∃ d s', psoLoopPrevRow (fun _ _ => 99) (fun j => j) (fun i => 2 + i) es none s = .ok d s' ∧
        s'.mem 2 0 = 7) := by
  refine ⟨⟨_, _, rfl, by decide⟩, ⟨_, _, rfl, by decide⟩⟩

/-- Non-vacuity of `user_tmp_in_place`: `(2·)∘(3·)` with a user temporary over ℤ. -/
example : ∃ s', compTmpI (fun _ _ => (99 : Int)) (.leaf (scalingLeaf 2)) (.leaf (scalingLeaf 3)) 2 0 1
    ⟨fun b _ => if b = 0 then 5 else 1000, 3⟩ = .ok 1 s' ∧ s'.mem 1 0 = 30 := by
  have h := (C03.user_tmp_in_place (C03.comm_arith_of_comm_ring Int) (fun _ _ => (99 : Int))
    (.leaf (scalingLeaf 2)) (.leaf (scalingLeaf 3)) 0
    (C03.allOK_weaken False _ (C03.scale_leaf_ok 2)) (C03.allOK_weaken False _ (C03.scale_leaf_ok 3))
    rfl rfl ⟨fun b _ => if b = 0 then 5 else 1000, 3⟩ 2 0 1 (by simp) (by simp) (by simp)
    (by omega) (by omega) (by omega)).2.1
  obtain ⟨s', e1, v1, _⟩ := h
  exact ⟨s', e1, by rw [v1]; simp [den, scalingLeaf]⟩

/-- The constructor shortcut of `OperatorRightScalarMult` (`rscalCtor`: nested right
multiplications are merged into one with the product of the scalars) does not change the value
in any commutative ring (associativity of `*` is needed, which `CommArith` does not contain:
over the doubles the merged operator may round differently). -/
theorem C03.rscal_ctor_value {K : Type} [CommRing K] (a : Op K) (c : K) (x : Vec K) :
    den (.rscal (rscalCtor a c).1 (rscalCtor a c).2) x = den (.rscal a c) x := by
  cases a <;> simp only [rscalCtor, den]
  congr 1; funext i; ring

example : rscalCtor (.rscal (.leaf (scalingLeaf (2 : Int))) 3) 5 = (.leaf (scalingLeaf 2), 15) := rfl
