/-
C03 — operator calls: in-place equals out-of-place, input untouched, malformed input rejected.
Property theorems only, about the model of `Operator.__call__`, the signature dispatch, the
default bridges and the expression classes in `Model/Call.lean`.
-/
import OdlModel.Model.Call
import OdlModel.Lemmas.Call
import Mathlib.Tactic.Ring
import Mathlib.Tactic.SplitIfs

namespace OdlModel.C03
open OdlModel.Prox OdlModel.Call

variable {K : Type}

/-- Contract of an out-of-place body `_call(x)`: returns a NEW object holding `φ(x)`, writes
to no existing object. -/
def OopOK (l : Leaf K) : Prop :=
  ∀ (s : St K) (x : Nat), x < s.next →
    s.next ≤ (l.oop x s).1 ∧ (l.oop x s).1 < (l.oop x s).2.next ∧
    (l.oop x s).2.mem (l.oop x s).1 = l.phi (s.mem x) ∧
    ∀ b : Nat, b < s.next → (l.oop x s).2.mem b = s.mem b

/-- Contract of an in-place body `_call(x, out)`: returns `None` or `out`; afterwards `out`
holds `φ(x)` (`x` from the PRE-state, also when `x is out`), whatever it held before; no other
existing object is written. -/
def IpOK (l : Leaf K) : Prop :=
  ∀ (s : St K) (x y : Nat), x < s.next → y < s.next →
    (l.ip x y s).1 ≠ .other ∧ (l.ip x y s).2.mem y = l.phi (s.mem x) ∧
    (∀ b : Nat, b < s.next → b ≠ y → (l.ip x y s).2.mem b = s.mem b) ∧
    s.next ≤ (l.ip x y s).2.next

/-- Leaf contract: the bodies that the signature class makes reachable satisfy theirs. -/
def LeafOK (l : Leaf K) : Prop := (l.sig ≠ .ip → OopOK l) ∧ (l.sig ≠ .oop → IpOK l)

def AllOK : Op K → Prop
  | .leaf l => LeafOK l
  | .sum a b => AllOK a ∧ AllOK b
  | .vecsum a _ => AllOK a
  | .comp a b => AllOK a ∧ AllOK b
  | .pwprod a b => AllOK a ∧ AllOK b
  | .lscal a _ => AllOK a
  | .rscal a _ => AllOK a
  | .lvec a _ => AllOK a
  | .rvec a _ => AllOK a

/-- Specification of `op(x, out=y)`. -/
def IPSpec [Add K] [Mul K] (e : Op K) (x y : Nat) (s : St K) (r : Res K) : Prop :=
  ∃ s', r = .ok y s' ∧ s'.mem y = den e (s.mem x) ∧
    (∀ b : Nat, b < s.next → b ≠ y → s'.mem b = s.mem b) ∧ s.next ≤ s'.next

/-- Specification of `op(x)`. -/
def OOPSpec [Add K] [Mul K] (e : Op K) (x : Nat) (s : St K) (r : Res K) : Prop :=
  ∃ (rb : Nat) (s' : St K), r = .ok rb s' ∧ s.next ≤ rb ∧ rb < s'.next ∧
    s'.mem rb = den e (s.mem x) ∧ ∀ b : Nat, b < s.next → s'.mem b = s.mem b

/-- A leaf whose out-of-place body returns its argument itself (what `RealPart._call` does on
a real space: `return x.real`, and `x.real is x`). -/
def retInputLeaf {K : Type} : Leaf K :=
  { sig := .oop, raw := false, phi := id, oop := fun x s => (x, s),
    ip := fun _ _ s => (.none, s) }

/-- `InnerProductOperator`-like out-of-place-only leaf (`_call(x)` returning a new object). -/
def oopLeaf {K : Type} (f : Vec K → Vec K) : Leaf K :=
  { sig := .oop, raw := true, phi := f,
    oop := fun x s => alloc s (f (s.mem x)), ip := fun _ _ s => (.other, s) }

/-- Scalars with a NaN (`none`), absorbing for `+` and `*` like IEEE NaN. -/
abbrev NInt := Option Int
instance : Add NInt := ⟨fun a b => a.bind fun x => b.bind fun y => some (x + y)⟩
instance : Sub NInt := ⟨fun a b => a.bind fun x => b.bind fun y => some (x - y)⟩
instance : Mul NInt := ⟨fun a b => a.bind fun x => b.bind fun y => some (x * y)⟩
instance : Div NInt := ⟨fun a b => a.bind fun x => b.bind fun y => some (x / y)⟩
instance : Neg NInt := ⟨fun a => a.map fun x => -x⟩
instance : OfNat NInt 0 := ⟨some 0⟩
instance : OfNat NInt 1 := ⟨some 1⟩

def nanFns : Fns NInt where
  abs := id
  sign := id
  sqrt := id
  square := id
  exp := id
  lambertw := id
  max := fun a _ => a
  min := fun a _ => a
  pow := id
  lt := fun a b => match a, b with | some x, some y => x < y | _, _ => false
  le := fun a b => match a, b with | some x, some y => x ≤ y | _, _ => false
  truthy := fun a => a ≠ some 0
  ofBool := fun b => if b then some 1 else some 0
  inf := some 1000000
  half := some 0
  two := some 2
  four := some 4
  norm := fun v => v 0
  sum := fun v => v 0
  invSize := some 1
  pwnorm := id
  pdiv := fun a _ => a
  simplex := fun _ v => v

def nanPar : Par NInt :=
  { lam := some 1, sigma := some 1, gamma := some 1, radius := some 1, eps := some 0,
    a := some 1, b := some 1 }

end OdlModel.C03

open OdlModel.Prox OdlModel.Call OdlModel.Call.Lemmas OdlModel.C03


theorem C03.call_in_place {K : Type} [CommRing K] (jk : Nat → Vec K) (e : Op K) (h : AllOK e) :
    ∀ (s : St K) (x y : Nat), x < s.next → y < s.next → IPSpec e x y s (callI jk e x y s) := by
  induction e with
  | leaf l =>
    intro s x y hx hy
    obtain ⟨ho, hi⟩ := h
    unfold callI
    cases hsig : l.sig
    · -- out-of-place only: default bridge out.assign(range.element(_call(x)))
      obtain ⟨h1, h2, h3, h4⟩ := ho (by simp [hsig]) s x hx
      refine ⟨_, rfl, ?_, ?_, ?_⟩
      · simp [h3, den]
      · intro b hb hne; rw [write_mem_other _ _ _ _ hne, h4 b hb]
      · change s.next ≤ (l.oop x s).2.next; omega
    · obtain ⟨h1, h2, h3, h4⟩ := hi (by simp [hsig]) s x y hx hy
      simp only
      cases hret : (l.ip x y s).1 <;> simp_all [IPSpec, den]
    · obtain ⟨h1, h2, h3, h4⟩ := hi (by simp [hsig]) s x y hx hy
      simp only
      cases hret : (l.ip x y s).1 <;> simp_all [IPSpec, den]
  | sum a b iha ihb =>
    intro s x y hx hy
    obtain ⟨ha, hb⟩ := h
    obtain ⟨s0, ea, hn0, hv0, hf0⟩ := alloc_spec s (jk s.next)
    simp only [callI, ea]
    obtain ⟨s1, e1, v1, f1, n1⟩ := iha ha s0 x s.next (by omega) (by omega)
    rw [e1, bind_ok]
    obtain ⟨s2, e2, v2, f2, n2⟩ := ihb hb s1 x y (by omega) (by omega)
    rw [e2, bind_ok]
    have hxs : x ≠ s.next := by omega
    have hys : y ≠ s.next := by omega
    have m1x : s1.mem x = s.mem x := by rw [f1 x (by omega) hxs, hf0 x hxs]
    refine ⟨_, rfl, ?_, ?_, ?_⟩
    · funext i
      have : s2.mem s.next = s1.mem s.next := f2 _ (by omega) (by omega)
      simp [v2, this, v1, m1x, den, hf0 x hxs]; ring
    · intro b hb hne
      have hbs : b ≠ s.next := by omega
      rw [write_mem_other _ _ _ _ hne, f2 b (by omega) hne, f1 b (by omega) hbs, hf0 b hbs]
    · simp only [write_next]; omega
  | vecsum a v iha =>
    intro s x y hx hy
    simp only [callI]
    obtain ⟨s1, e1, v1, f1, n1⟩ := iha h s x y hx hy
    rw [e1, bind_ok]
    refine ⟨_, rfl, ?_, ?_, ?_⟩
    · simp [v1, den]
    · intro b hb hne; rw [write_mem_other _ _ _ _ hne, f1 b hb hne]
    · simp only [write_next]; omega
  | comp a b iha ihb =>
    intro s x y hx hy
    obtain ⟨ha, hb⟩ := h
    obtain ⟨s0, ea, hn0, hv0, hf0⟩ := alloc_spec s (jk s.next)
    simp only [callI, ea]
    have hxs : x ≠ s.next := by omega
    have hys : y ≠ s.next := by omega
    obtain ⟨s1, e1, v1, f1, n1⟩ := ihb hb s0 x s.next (by omega) (by omega)
    rw [e1, bind_ok]
    obtain ⟨s2, e2, v2, f2, n2⟩ := iha ha s1 s.next y (by omega) (by omega)
    refine ⟨s2, e2, ?_, ?_, ?_⟩
    · rw [v2, v1, hf0 x hxs]; rfl
    · intro b hb hne
      have hbs : b ≠ s.next := by omega
      rw [f2 b (by omega) hne, f1 b (by omega) hbs, hf0 b hbs]
    · omega
  | pwprod a b iha ihb =>
    intro s x y hx hy
    obtain ⟨ha, hb⟩ := h
    obtain ⟨s0, ea, hn0, hv0, hf0⟩ := alloc_spec s (jk s.next)
    simp only [callI, ea]
    obtain ⟨s1, e1, v1, f1, n1⟩ := iha ha s0 x s.next (by omega) (by omega)
    rw [e1, bind_ok]
    obtain ⟨s2, e2, v2, f2, n2⟩ := ihb hb s1 x y (by omega) (by omega)
    rw [e2, bind_ok]
    have hxs : x ≠ s.next := by omega
    have hys : y ≠ s.next := by omega
    have m1x : s1.mem x = s.mem x := by rw [f1 x (by omega) hxs, hf0 x hxs]
    refine ⟨_, rfl, ?_, ?_, ?_⟩
    · funext i
      have : s2.mem s.next = s1.mem s.next := f2 _ (by omega) (by omega)
      simp [v2, this, v1, m1x, den, hf0 x hxs]; ring
    · intro b hb hne
      have hbs : b ≠ s.next := by omega
      rw [write_mem_other _ _ _ _ hne, f2 b (by omega) hne, f1 b (by omega) hbs, hf0 b hbs]
    · simp only [write_next]; omega
  | lscal a c iha =>
    intro s x y hx hy
    simp only [callI]
    obtain ⟨s1, e1, v1, f1, n1⟩ := iha h s x y hx hy
    rw [e1, bind_ok]
    refine ⟨_, rfl, ?_, ?_, ?_⟩
    · funext i; simp [v1, den]; ring
    · intro b hb hne; rw [write_mem_other _ _ _ _ hne, f1 b hb hne]
    · simp only [write_next]; omega
  | rscal a c iha =>
    intro s x y hx hy
    obtain ⟨s0, ea, hn0, hv0, hf0⟩ := alloc_spec s (jk s.next)
    simp only [callI, ea]
    have hxs : x ≠ s.next := by omega
    have hys : y ≠ s.next := by omega
    obtain ⟨s2, e2, v2, f2, n2⟩ := iha h (s0.write s.next (fun i => c * s0.mem x i)) s.next y
      (by simp only [write_next]; omega) (by simp only [write_next]; omega)
    refine ⟨s2, e2, ?_, ?_, ?_⟩
    · rw [v2, write_mem_same, hf0 x hxs]; rfl
    · intro b hb hne
      have hbs : b ≠ s.next := by omega
      rw [f2 b (by simp only [write_next]; omega) hne, write_mem_other _ _ _ _ hbs, hf0 b hbs]
    · simp only [write_next] at n2; omega
  | lvec a v iha =>
    intro s x y hx hy
    simp only [callI]
    obtain ⟨s1, e1, v1, f1, n1⟩ := iha h s x y hx hy
    rw [e1, bind_ok]
    refine ⟨_, rfl, ?_, ?_, ?_⟩
    · simp [v1, den]
    · intro b hb hne; rw [write_mem_other _ _ _ _ hne, f1 b hb hne]
    · simp only [write_next]; omega
  | rvec a v iha =>
    intro s x y hx hy
    obtain ⟨s0, ea, hn0, hv0, hf0⟩ := alloc_spec s (jk s.next)
    simp only [callI, ea]
    have hxs : x ≠ s.next := by omega
    have hys : y ≠ s.next := by omega
    obtain ⟨s2, e2, v2, f2, n2⟩ := iha h (s0.write s.next (fun i => s0.mem x i * v i)) s.next y
      (by simp only [write_next]; omega) (by simp only [write_next]; omega)
    refine ⟨s2, e2, ?_, ?_, ?_⟩
    · rw [v2, write_mem_same, hf0 x hxs]; rfl
    · intro b hb hne
      have hbs : b ≠ s.next := by omega
      rw [f2 b (by simp only [write_next]; omega) hne, write_mem_other _ _ _ _ hbs, hf0 b hbs]
    · simp only [write_next] at n2; omega

theorem C03.call_out_of_place {K : Type} [CommRing K] (jk : Nat → Vec K) (e : Op K)
    (h : AllOK e) :
    ∀ (s : St K) (x : Nat), x < s.next → OOPSpec e x s (callO jk e x s) := by
  induction e with
  | leaf l =>
    intro s x hx
    obtain ⟨ho, hi⟩ := h
    unfold callO
    cases hsig : l.sig
    · obtain ⟨h1, h2, h3, h4⟩ := ho (by simp [hsig]) s x hx
      simp only
      cases hraw : l.raw
      · exact ⟨_, _, rfl, h1, h2, by rw [h3]; rfl, h4⟩
      · obtain ⟨s0, ea, hn0, hv0, hf0⟩ := alloc_spec (l.oop x s).2 ((l.oop x s).2.mem (l.oop x s).1)
        simp only [ea, if_true]
        refine ⟨_, _, rfl, by omega, by omega, by rw [hv0, h3]; rfl, ?_⟩
        intro b hb; rw [hf0 b (by omega), h4 b hb]
    · -- in-place only: _default_call_out_of_place
      obtain ⟨s0, ea, hn0, hv0, hf0⟩ := alloc_spec s (jk s.next)
      have hxs : x ≠ s.next := by omega
      obtain ⟨h1, h2, h3, h4⟩ := hi (by simp [hsig]) s0 x s.next (by omega) (by omega)
      simp only [ea]
      cases hret : (l.ip x s.next s0).1
      · refine ⟨_, _, rfl, le_refl _, by change s.next < (l.ip x s.next s0).2.next; omega,
          by rw [h2, hf0 x hxs]; rfl, ?_⟩
        intro b hb; rw [h3 b (by omega) (by omega), hf0 b (by omega)]
      · refine ⟨_, _, rfl, le_refl _, by change s.next < (l.ip x s.next s0).2.next; omega,
          by rw [h2, hf0 x hxs]; rfl, ?_⟩
        intro b hb; rw [h3 b (by omega) (by omega), hf0 b (by omega)]
      · exact absurd hret h1
    · obtain ⟨h1, h2, h3, h4⟩ := ho (by simp [hsig]) s x hx
      simp only
      cases hraw : l.raw
      · exact ⟨_, _, rfl, h1, h2, by rw [h3]; rfl, h4⟩
      · obtain ⟨s0, ea, hn0, hv0, hf0⟩ := alloc_spec (l.oop x s).2 ((l.oop x s).2.mem (l.oop x s).1)
        simp only [ea, if_true]
        refine ⟨_, _, rfl, by omega, by omega, by rw [hv0, h3]; rfl, ?_⟩
        intro b hb; rw [hf0 b (by omega), h4 b hb]
  | sum a b iha ihb =>
    intro s x hx
    obtain ⟨ha, hb⟩ := h
    simp only [callO]
    obtain ⟨ra, s1, e1, l1, u1, v1, f1⟩ := iha ha s x hx
    rw [e1, bind_ok]
    obtain ⟨rb, s2, e2, l2, u2, v2, f2⟩ := ihb hb s1 x (by omega)
    rw [e2, bind_ok]
    obtain ⟨s3, ea, hn3, hv3, hf3⟩ := alloc_spec s2 (fun i => s2.mem ra i + s2.mem rb i)
    simp only [ea]
    refine ⟨_, _, rfl, by omega, by omega, ?_, ?_⟩
    · rw [hv3]; funext i
      rw [f2 ra (by omega), v1, v2, f1 x hx]; rfl
    · intro b hb'; rw [hf3 b (by omega), f2 b (by omega), f1 b hb']
  | vecsum a v iha =>
    intro s x hx
    simp only [callO]
    obtain ⟨r, s1, e1, l1, u1, v1, f1⟩ := iha h s x hx
    rw [e1, bind_ok]
    refine ⟨_, _, rfl, l1, by simp only [write_next]; omega, ?_, ?_⟩
    · simp [v1, den]
    · intro b hb'; rw [write_mem_other _ _ _ _ (by omega), f1 b hb']
  | comp a b iha ihb =>
    intro s x hx
    obtain ⟨ha, hb⟩ := h
    simp only [callO]
    obtain ⟨rb, s1, e1, l1, u1, v1, f1⟩ := ihb hb s x hx
    rw [e1, bind_ok]
    obtain ⟨r, s2, e2, l2, u2, v2, f2⟩ := iha ha s1 rb u1
    refine ⟨r, s2, e2, by omega, u2, by rw [v2, v1]; rfl, ?_⟩
    intro b hb'; rw [f2 b (by omega), f1 b hb']
  | pwprod a b iha ihb =>
    intro s x hx
    obtain ⟨ha, hb⟩ := h
    simp only [callO]
    obtain ⟨ra, s1, e1, l1, u1, v1, f1⟩ := iha ha s x hx
    rw [e1, bind_ok]
    obtain ⟨rb, s2, e2, l2, u2, v2, f2⟩ := ihb hb s1 x (by omega)
    rw [e2, bind_ok]
    obtain ⟨s3, ea, hn3, hv3, hf3⟩ := alloc_spec s2 (fun i => s2.mem ra i * s2.mem rb i)
    simp only [ea]
    refine ⟨_, _, rfl, by omega, by omega, ?_, ?_⟩
    · rw [hv3]; funext i
      rw [f2 ra (by omega), v1, v2, f1 x hx]; rfl
    · intro b hb'; rw [hf3 b (by omega), f2 b (by omega), f1 b hb']
  | lscal a c iha =>
    intro s x hx
    simp only [callO]
    obtain ⟨r, s1, e1, l1, u1, v1, f1⟩ := iha h s x hx
    rw [e1, bind_ok]
    obtain ⟨s2, ea, hn2, hv2, hf2⟩ := alloc_spec s1 (fun i => c * s1.mem r i)
    simp only [ea]
    refine ⟨_, _, rfl, by omega, by omega, by rw [hv2, v1]; rfl, ?_⟩
    intro b hb'; rw [hf2 b (by omega), f1 b hb']
  | rscal a c iha =>
    intro s x hx
    obtain ⟨s0, ea, hn0, hv0, hf0⟩ := alloc_spec s (fun i => c * s.mem x i)
    simp only [callO, ea]
    obtain ⟨r, s2, e2, l2, u2, v2, f2⟩ := iha h s0 s.next (by omega)
    refine ⟨r, s2, e2, by omega, u2, by rw [v2, hv0]; rfl, ?_⟩
    intro b hb'; rw [f2 b (by omega), hf0 b (by omega)]
  | lvec a v iha =>
    intro s x hx
    simp only [callO]
    obtain ⟨r, s1, e1, l1, u1, v1, f1⟩ := iha h s x hx
    rw [e1, bind_ok]
    obtain ⟨s2, ea, hn2, hv2, hf2⟩ := alloc_spec s1 (fun i => s1.mem r i * v i)
    simp only [ea]
    refine ⟨_, _, rfl, by omega, by omega, by rw [hv2, v1]; rfl, ?_⟩
    intro b hb'; rw [hf2 b (by omega), f1 b hb']
  | rvec a v iha =>
    intro s x hx
    obtain ⟨s0, ea, hn0, hv0, hf0⟩ := alloc_spec s (fun i => s.mem x i * v i)
    simp only [callO, ea]
    obtain ⟨r, s2, e2, l2, u2, v2, f2⟩ := iha h s0 s.next (by omega)
    refine ⟨r, s2, e2, by omega, u2, by rw [v2, hv0]; rfl, ?_⟩
    intro b hb'; rw [f2 b (by omega), hf0 b (by omega)]

/-- The public call `Operator.__call__` on well-formed arguments (partial: see below).
For every expression tree over leaves satisfying the leaf contract, every store `s`, every
domain element `x` and range element `y` of that store (whatever `y` holds, NaN-free scalars):
* `op(x)` returns a NEW object holding `⟦e⟧(x)` and writes to no existing object (so `x` is
  bit-for-bit unchanged);
* `op(x, out=y)` returns the very object `y`, which then holds the same `⟦e⟧(x)`; no other
  existing object is written, in particular `x` when `x` is not `y`.

PARTIAL with respect to the property as stated for the library, in two respects, both
witnessed on the real code and recorded in known_findings.json:
(1) the leaf contract demands a *fresh* out-of-place result; `RealPart` on a real space
    returns `x` itself, and `OperatorVectorSum` then adds its vector INTO `x`
    (`C03.vector_sum_writes_input`);
(2) `K` is a commutative ring, i.e. the junk in `y` is finite: `out.set_zero()` is coded as
    `lincomb(0, out, 0, out)` and keeps NaN/inf (`C03.set_zero_keeps_nan`).
Full statement (false for the current code): the same with `LeafOK` weakened to allow
`oop` to return its argument, and with `K` the IEEE doubles including NaN/inf junk. -/
theorem C03.call_protocol_partial {K : Type} [CommRing K] (jk jk' : Nat → Vec K) (e : Op K)
    (h : AllOK e) (s : St K) (x y : Nat) (hx : x < s.next) (hy : y < s.next) :
    (∃ r s1, call jk false e (.inDomain x) .none s = .ok r s1 ∧ s.next ≤ r ∧
        s1.mem r = den e (s.mem x) ∧ ∀ b : Nat, b < s.next → s1.mem b = s.mem b) ∧
    (∃ s2, call jk' false e (.inDomain x) (.inRange y) s = .ok y s2 ∧
        s2.mem y = den e (s.mem x) ∧ (x ≠ y → s2.mem x = s.mem x) ∧
        ∀ b : Nat, b < s.next → b ≠ y → s2.mem b = s.mem b) := by
  constructor
  · obtain ⟨r, s1, e1, l1, _, v1, f1⟩ := C03.call_out_of_place jk e h s x hx
    exact ⟨r, s1, by simpa [call] using e1, l1, v1, f1⟩
  · obtain ⟨s2, e2, v2, f2, _⟩ := C03.call_in_place jk' e h s x y hx hy
    exact ⟨s2, by simpa [call] using e2, v2, fun hne => f2 x hx hne, f2⟩

/-- The previous content of `out` never influences the result: two stores that differ only
in what `y` holds give the same final `y` (for `x` distinct from `y`). -/
theorem C03.out_content_irrelevant {K : Type} [CommRing K] (jk jk' : Nat → Vec K) (e : Op K)
    (h : AllOK e) (s : St K) (x y : Nat) (j : Vec K) (hx : x < s.next) (hy : y < s.next)
    (hxy : x ≠ y) :
    ∃ s1 s2, callI jk e x y s = .ok y s1 ∧ callI jk' e x y (s.write y j) = .ok y s2 ∧
      s1.mem y = s2.mem y := by
  obtain ⟨s1, e1, v1, _, _⟩ := C03.call_in_place jk e h s x y hx hy
  obtain ⟨s2, e2, v2, _, _⟩ := C03.call_in_place jk' e h (s.write y j) x y hx hy
  refine ⟨s1, s2, e1, e2, ?_⟩
  rw [v1, v2, write_mem_other _ _ _ _ hxy]

/-- An `x` that is not a domain element but can be cast (`domain.element(x)` succeeds) is
copied into a new domain element first; the results are those of the cast value. -/
theorem C03.call_casts_input {K : Type} [CommRing K] (jk : Nat → Vec K) (e : Op K)
    (h : AllOK e) (s : St K) (v : Vec K) (y : Nat) (hy : y < s.next) :
    (∃ r s1, call jk false e (.castable v) .none s = .ok r s1 ∧ s1.mem r = den e v ∧
        ∀ b : Nat, b < s.next → s1.mem b = s.mem b) ∧
    (∃ s2, call jk false e (.castable v) (.inRange y) s = .ok y s2 ∧ s2.mem y = den e v ∧
        ∀ b : Nat, b < s.next → b ≠ y → s2.mem b = s.mem b) := by
  obtain ⟨s0, ea, hn0, hv0, hf0⟩ := alloc_spec s v
  constructor
  · obtain ⟨r, s1, e1, l1, _, v1, f1⟩ := C03.call_out_of_place jk e h s0 s.next (by omega)
    refine ⟨r, s1, by simpa [call, ea] using e1, by rw [v1, hv0], ?_⟩
    intro b hb; rw [f1 b (by omega), hf0 b (by omega)]
  · obtain ⟨s2, e2, v2, f2, _⟩ := C03.call_in_place jk e h s0 s.next y (by omega) (by omega)
    refine ⟨s2, by simpa [call, ea] using e2, by rw [v2, hv0], ?_⟩
    intro b hb hne; rw [f2 b (by omega) hne, hf0 b (by omega)]

/-- Malformed input is rejected before any existing object is written, with the error kinds
and the priority of `Operator.__call__`: a non-castable `x` gives `OpDomainError` (whatever
`out` is, store untouched); otherwise an `out` that is not a range element gives
`OpRangeError`; otherwise `out` together with a functional gives `TypeError`.  These hold for
ALL trees and leaves (no contract needed): the error branches are explicit constructors taken
before any body runs. -/
theorem C03.call_rejects {K : Type} [Add K] [Mul K] (jk : Nat → Vec K) (fn : Bool) (e : Op K)
    (s : St K) :
    (∀ o, call jk fn e .bad o s = .err .domain s) ∧
    (∀ x, call jk fn e (.inDomain x) .foreign s = .err .range s) ∧
    (∀ v, ∃ s', call jk fn e (.castable v) .foreign s = .err .range s' ∧
        ∀ b : Nat, b < s.next → s'.mem b = s.mem b) ∧
    (∀ x y, call jk true e (.inDomain x) (.inRange y) s = .err .type s) := by
  refine ⟨fun o => rfl, fun x => rfl, fun v => ?_, fun x y => rfl⟩
  obtain ⟨s0, ea, hn0, hv0, hf0⟩ := alloc_spec s v
  exact ⟨s0, by simp [call, ea], fun b hb => hf0 b (by omega)⟩

/-- Counterexample (1), on the model: a leaf whose out-of-place body returns its argument
(as `RealPart` does on a real space) violates the leaf contract, and `OperatorVectorSum` over
it returns `x` itself after adding the vector INTO `x`. -/
theorem C03.vector_sum_writes_input {K : Type} [Add K] [Mul K] (jk : Nat → Vec K) (v : Vec K)
    (s : St K) (x : Nat) :
    callO jk (.vecsum (.leaf retInputLeaf) v) x s =
      .ok x (s.write x (fun i => s.mem x i + v i)) ∧ ¬ OopOK (retInputLeaf (K := K)) := by
  constructor
  · simp [callO, retInputLeaf]
  · intro h
    have := (h ⟨s.mem, 1⟩ 0 (by simp)).1
    simp [retInputLeaf] at this

/-- Counterexample (2), on the model of the code as it is: `ProximalL2._call` at `x = 0`
takes the `out.set_zero()` branch, which is `lincomb(0, out, 0, out)`; with a NaN in `out`
the result is NaN although `P(x) = 0` (scalars with an absorbing NaN). -/
theorem C03.set_zero_keeps_nan :
    (run (fun _ _ => none) (prog nanFns nanPar (.l2 false)) 0 1
        (fun b _ => if b = 1 then none else some 0)).mem 1 0 = none ∧
    (run (fun _ _ => none) (prog nanFns nanPar (.l2 false)) 0 0
        (fun _ _ => some 0)).mem 0 0 = some 0 := by
  constructor <;>
  simp [run, exec, prog, l2Step, env0, Env.set, St.write, srcVals, cst, nanFns, nanPar] <;>
  decide

/-- The modelled `default_ops` leaves (`ScalingOperator`/`IdentityOperator`,
`ConstantOperator`, `MultiplyOperator`, `PowerOperator`, `ZeroOperator`, and the
out-of-place-only `ComplexModulusSquared`) satisfy the leaf contract, aliased case included. -/
theorem C03.scale_leaf_ok {K : Type} [CommRing K] (c : K) : LeafOK (scalingLeaf c) := by
  refine ⟨fun _ s x hx => ?_, fun _ s x y hx hy => ?_⟩
  · obtain ⟨s0, ea, hn0, hv0, hf0⟩ := alloc_spec s (fun i => c * s.mem x i)
    simp only [scalingLeaf, ea]
    exact ⟨le_refl _, by omega, hv0, fun b hb => hf0 b (by omega)⟩
  · simp only [scalingLeaf]
    exact ⟨by simp, by simp, fun b _ hne => write_mem_other _ _ _ _ hne, by simp⟩

theorem C03.default_leaves_ok {K : Type} [CommRing K] (v : Vec K) (pw : K → K) :
    LeafOK (constLeaf v) ∧ LeafOK (multLeaf v) ∧ LeafOK (powLeaf pw) ∧
    LeafOK (zeroLeaf (K := K)) ∧ LeafOK (modSqLeaf (K := K)) := by
  refine ⟨⟨fun _ s x hx => ?_, fun _ s x y hx hy => ?_⟩, ⟨fun _ s x hx => ?_, fun _ s x y hx hy => ?_⟩,
    ⟨fun _ s x hx => ?_, fun _ s x y hx hy => ?_⟩, ⟨fun _ s x hx => ?_, fun _ s x y hx hy => ?_⟩,
    ⟨fun _ s x hx => ?_, fun h => absurd rfl h⟩⟩
  · obtain ⟨s0, ea, hn0, hv0, hf0⟩ := alloc_spec s v
    simp only [constLeaf, ea]
    exact ⟨le_refl _, by omega, hv0, fun b hb => hf0 b (by omega)⟩
  · simp only [constLeaf]
    exact ⟨by simp, by simp, fun b _ hne => write_mem_other _ _ _ _ hne, by simp⟩
  · obtain ⟨s0, ea, hn0, hv0, hf0⟩ := alloc_spec s (fun i => s.mem x i * v i)
    simp only [multLeaf, ea]
    exact ⟨le_refl _, by omega, hv0, fun b hb => hf0 b (by omega)⟩
  · obtain ⟨s0, ea, hn0, hv0, hf0⟩ := alloc_spec s (fun i => v i * s.mem x i)
    simp only [multLeaf, ea]
    refine ⟨by simp, ?_, ?_, by simp only [write_next]; omega⟩
    · rw [write_mem_same, hv0]; funext i; ring
    · intro b hb hne; rw [write_mem_other _ _ _ _ hne, hf0 b (by omega)]
  · obtain ⟨s0, ea, hn0, hv0, hf0⟩ := alloc_spec s (fun i => pw (s.mem x i))
    simp only [powLeaf, ea]
    exact ⟨le_refl _, by omega, hv0, fun b hb => hf0 b (by omega)⟩
  · simp only [powLeaf]
    refine ⟨by simp, by simp, ?_, by simp⟩
    intro b _ hne; rw [write_mem_other _ _ _ _ hne, write_mem_other _ _ _ _ hne]
  · obtain ⟨s0, ea, hn0, hv0, hf0⟩ := alloc_spec s (fun i => 0 * s.mem x i)
    simp only [zeroLeaf, ea]
    exact ⟨le_refl _, by omega, hv0, fun b hb => hf0 b (by omega)⟩
  · simp only [zeroLeaf]
    exact ⟨by simp, by simp, fun b _ hne => write_mem_other _ _ _ _ hne, by simp⟩
  · obtain ⟨s0, ea, hn0, hv0, hf0⟩ := alloc_spec s (fun i => s.mem x i * s.mem x i + 0 * 0)
    simp only [modSqLeaf, ea]
    exact ⟨le_refl _, by omega, hv0, fun b hb => hf0 b (by omega)⟩

theorem C03.oop_leaf_ok {K : Type} (f : Vec K → Vec K) : LeafOK (oopLeaf f) := by
  refine ⟨fun _ s x hx => ?_, fun h => absurd rfl h⟩
  obtain ⟨s0, ea, hn0, hv0, hf0⟩ := alloc_spec s (f (s.mem x))
  simp only [oopLeaf, ea]
  exact ⟨le_refl _, by omega, hv0, fun b hb => hf0 b (by omega)⟩

/-- Non-vacuity: a depth-3 tree mixing a dual-use leaf, an out-of-place-only leaf (default
in-place bridge, raw result wrapped) and four expression classes satisfies the hypotheses of
`call_protocol_partial`; its aliased in-place call on x = (5, …) yields 2*(3*5) + (5*5 + 7) = 62. -/
example : let e : Op Int := .sum (.comp (.leaf (scalingLeaf 2)) (.leaf (scalingLeaf 3)))
                            (.vecsum (.leaf (oopLeaf fun v i => v i * v i)) (fun _ => 7))
    AllOK e ∧ ∃ s', callI (fun _ _ => 99) e 0 0 ⟨fun _ _ => 5, 1⟩ = .ok 0 s' ∧ s'.mem 0 0 = 62 := by
  intro e
  have hok : AllOK e := ⟨⟨C03.scale_leaf_ok 2, C03.scale_leaf_ok 3⟩, C03.oop_leaf_ok _⟩
  refine ⟨hok, ?_⟩
  obtain ⟨s', e1, v1, _, _⟩ := C03.call_in_place (fun _ _ => 99) e hok ⟨fun _ _ => 5, 1⟩ 0 0
    (by simp) (by simp)
  exact ⟨s', e1, by rw [v1]; simp [e, den, scalingLeaf, oopLeaf]⟩
