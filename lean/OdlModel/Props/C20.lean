/-
C20 — sets and spaces: equality, hashing, membership and element creation are coherent.
Property theorems only.  Model: `OdlModel/Model/Spaces.lean` (hand-written from the code as it
exists, tied to /repo by the correspondence check on the live zoo); helper lemmas:
`OdlModel/Lemmas/Spaces.lean`.

Reading guide.  `X.eqI a b` / `X.eqO a b` is the model of `a.__eq__(b)` (`eqO … = none` means
the Python code raises), `X.hk heap a` the tuple handed to `hash` by `a.__hash__()`.  All
statements quantify over ALL descriptors (any shape, any number of axes, any nesting depth
of product spaces, any float / rational coordinates).
-/
import OdlModel.Lemmas.Spaces

open OdlModel.Spaces

/-! ## floats and weightings -/

/-- IEEE `==` on non-NaN floats is an equivalence relation (it is the kernel of `canon`). -/
theorem C20.fl_numEq_equivalence :
    (∀ a : Fl, a.numEq a = true) ∧
    (∀ a b : Fl, a.numEq b = true → b.numEq a = true) ∧
    (∀ a b c : Fl, a.numEq b = true → b.numEq c = true → a.numEq c = true) := by
  refine ⟨?_, ?_, ?_⟩ <;> intros <;> simp_all [Fl.numEq]

/-- `Weighting.__eq__` (all ten concrete classes of both `impl='numpy'` families, including
cross-class and cross-family pairs) is reflexive, symmetric and transitive. -/
theorem C20.weighting_eq_equivalence :
    (∀ a : Weighting, a.eqI a = true) ∧
    (∀ a b : Weighting, a.eqI b = true → b.eqI a = true) ∧
    (∀ a b c : Weighting, a.eqI b = true → b.eqI c = true → a.eqI c = true) := by
  refine ⟨?_, ?_, ?_⟩ <;> intros <;> simp_all [Weighting.eqI_iff]

/- FULL STATEMENT (false for the code as it exists, see `C20.weighting_hash_cross_family_fails`):
   ∀ heap a b, a.eqI b = true → a.hk heap = b.hk heap. -/
/-- Equal weightings OF THE SAME CLASS FAMILY have equal hashes (for every content of the
weighting arrays).  Missing for the full statement: `Weighting.__eq__` ignores `type(self)`
while `__hash__` contains it (finding C20-F3). -/
theorem C20.weighting_hash_respects_eq_partial (heap : Nat → String) (a b : Weighting)
    (h : a.eqI b = true) (hc : a.cls = b.cls) : a.hk heap = b.hk heap :=
  Weighting.hk_of_key heap ((Weighting.eqI_iff a b).1 h) hc

example : (Weighting.const .np (.fin 2) (.fin 1)).eqI (.const .np (.fin 2) (.fin 1)) = true := by
  decide

/-- Counterexample on the model of the current code: `NumpyTensorSpaceConstWeighting(2.0) ==
ProductSpaceConstWeighting(2.0)` is `True` but the hashed tuples differ. -/
theorem C20.weighting_hash_cross_family_fails :
    ∃ a b : Weighting, a.eqI b = true ∧ ∀ heap, a.hk heap ≠ b.hk heap :=
  ⟨.const .np (.fin 2) (.fin 2), .const .ps (.fin 2) (.fin 2), by decide, fun _ => by
    simp [Weighting.hk, Weighting.baseHk, tup, WCls.tok]⟩

/-! ## interval products, grids, partitions -/

/- FULL STATEMENT (false for the code as it exists): `IntervalProd.__eq__` never raises and is
   an equivalence on all interval products, and equal ones have equal hashes. -/
/-- `IntervalProd.__eq__` restricted to interval products of one common dimension `d`: never
raises, reflexive, symmetric, transitive, and equal ones have equal hashes.  Missing for the
full statement: pairs of different `ndim` (NumPy broadcasting, finding C20-F1). -/
theorem C20.interval_eq_equivalence_partial (d : Nat) :
    (∀ a : IntervalProd, a.wf → a.eqO a = some true) ∧
    (∀ a b : IntervalProd, a.wf → b.wf → a.ndim = d → b.ndim = d → (a.eqO b).isSome = true) ∧
    (∀ a b : IntervalProd, a.wf → b.wf → a.ndim = d → b.ndim = d →
      a.eqO b = some true → b.eqO a = some true) ∧
    (∀ a b c : IntervalProd, a.wf → b.wf → c.wf → a.ndim = d → b.ndim = d → c.ndim = d →
      a.eqO b = some true → b.eqO c = some true → a.eqO c = some true) ∧
    (∀ a b : IntervalProd, a.wf → b.wf → a.ndim = d → b.ndim = d →
      a.eqO b = some true → a.hk = b.hk) := by
  refine ⟨?_, ?_, ?_, ?_, ?_⟩
  · intro a ha; exact (IntervalProd.eqO_iff ha ha rfl).2 rfl
  · intro a b ha hb hda hdb; simp [IntervalProd.eqO_same ha hb (hda.trans hdb.symm)]
  · intro a b ha hb hda hdb h
    have := (IntervalProd.eqO_iff ha hb (hda.trans hdb.symm)).1 h
    exact (IntervalProd.eqO_iff hb ha (hdb.trans hda.symm)).2 this.symm
  · intro a b c ha hb hc hda hdb hdc h1 h2
    have k1 := (IntervalProd.eqO_iff ha hb (hda.trans hdb.symm)).1 h1
    have k2 := (IntervalProd.eqO_iff hb hc (hdb.trans hdc.symm)).1 h2
    exact (IntervalProd.eqO_iff ha hc (hda.trans hdc.symm)).2 (k1.trans k2)
  · intro a b ha hb hda hdb h
    exact IntervalProd.hk_of_key ((IntervalProd.eqO_iff ha hb (hda.trans hdb.symm)).1 h)

example : (IntervalProd.mk [.fin 0, .negZero] [.fin 1, .posInf]).eqO ⟨[.negZero, .fin 0], [.fin 1, .posInf]⟩
    = some true := by decide

/-- Counterexamples on the model of the current code (finding C20-F1):
`[0,1] == [0,1]^2` and `[0,1] == [0,1]^3` are `True` (broadcasting) with different hashes,
`[0,1]^2 == [0,1]^3` raises — so `==` is neither hash-consistent nor transitive nor total. -/
theorem C20.interval_eq_broadcast_fails :
    let i1 : IntervalProd := ⟨[.fin 0], [.fin 1]⟩
    let i2 : IntervalProd := ⟨[.fin 0, .fin 0], [.fin 1, .fin 1]⟩
    let i3 : IntervalProd := ⟨[.fin 0, .fin 0, .fin 0], [.fin 1, .fin 1, .fin 1]⟩
    i2.eqO i1 = some true ∧ i1.eqO i3 = some true ∧ i2.eqO i3 = none ∧ i1.hk ≠ i2.hk := by
  decide

/-- `RectGrid.__eq__` is an equivalence relation on all grids (any number of axes/points). -/
theorem C20.grid_eq_equivalence :
    (∀ a : Grid, a.eqI a = true) ∧
    (∀ a b : Grid, a.eqI b = true → b.eqI a = true) ∧
    (∀ a b c : Grid, a.eqI b = true → b.eqI c = true → a.eqI c = true) := by
  refine ⟨?_, ?_, ?_⟩ <;> intros <;> simp_all [Grid.eqI_iff]

/- FULL STATEMENT (false for the code as it exists): ∀ a b, a.eqI b = true → a.hk = b.hk. -/
/-- Equal grids without a `-0.0` coordinate have equal hashes.  Missing for the full
statement: `__hash__` hashes `tobytes()`, which distinguishes `-0.0` from `0.0` (finding C20-F2). -/
theorem C20.grid_hash_respects_eq_partial (a b : Grid) (ha : a.noNegZero) (hb : b.noNegZero)
    (h : a.eqI b = true) : a.hk = b.hk :=
  Grid.hk_of_key ((Grid.eqI_iff a b).1 h) ha hb

/-- Counterexample (finding C20-F2): `RectGrid([-0.0, 1]) == RectGrid([0.0, 1])` but the hashed
byte strings differ. -/
theorem C20.grid_hash_signed_zero_fails :
    (Grid.mk [[.negZero, .fin 1]]).eqI ⟨[[.fin 0, .fin 1]]⟩ = true ∧
    (Grid.mk [[.negZero, .fin 1]]).hk ≠ (Grid.mk [[.fin 0, .fin 1]]).hk := by
  decide

/-- `RectPartition.__eq__` restricted to well-formed partitions of one common dimension:
never raises, is an equivalence; equal ones without `-0.0` grid coordinates have equal hashes.
(Partitions of different dimension inherit finding C20-F1 through `self.set == other.set`.) -/
theorem C20.partition_eq_equivalence_partial (d : Nat) :
    (∀ a : Partition, a.wf → a.eqO a = some true) ∧
    (∀ a b : Partition, a.wf → b.wf → a.set.ndim = d → b.set.ndim = d →
      a.eqO b = some true → b.eqO a = some true) ∧
    (∀ a b c : Partition, a.wf → b.wf → c.wf → a.set.ndim = d → b.set.ndim = d →
      c.set.ndim = d → a.eqO b = some true → b.eqO c = some true → a.eqO c = some true) ∧
    (∀ a b : Partition, a.wf → b.wf → a.set.ndim = d → b.set.ndim = d →
      a.grid.noNegZero → b.grid.noNegZero → a.eqO b = some true → a.hk = b.hk) := by
  refine ⟨?_, ?_, ?_, ?_⟩
  · intro a ha; exact (Partition.eqO_iff ha ha rfl).2 rfl
  · intro a b ha hb hda hdb h
    have := (Partition.eqO_iff ha hb (hda.trans hdb.symm)).1 h
    exact (Partition.eqO_iff hb ha (hdb.trans hda.symm)).2 this.symm
  · intro a b c ha hb hc hda hdb hdc h1 h2
    have k1 := (Partition.eqO_iff ha hb (hda.trans hdb.symm)).1 h1
    have k2 := (Partition.eqO_iff hb hc (hdb.trans hdc.symm)).1 h2
    exact (Partition.eqO_iff ha hc (hda.trans hdc.symm)).2 (k1.trans k2)
  · intro a b ha hb hda hdb na nb h
    exact Partition.hk_of_key ((Partition.eqO_iff ha hb (hda.trans hdb.symm)).1 h) na nb

/-! ## tensor spaces, discretized spaces, (nested, weighted) product spaces -/

/-- The partition comparison inside `DiscretizedSpace.__eq__` is only reached with equal
shapes, and then it cannot raise: the broadcasting defect C20-F1 never surfaces through
discretized spaces. -/
theorem C20.discr_eq_never_raises (a b : Discr) (h : a.shape = b.shape) :
    (Partition.eqO b.part a.part).isSome = true :=
  Discr.part_eq_total h

/-- MAIN (equivalence): `==` on `NumpyTensorSpace`, `DiscretizedSpace` and `ProductSpace`
objects — all shapes, dtypes, weighting kinds (constants by value, arrays and callables by
identity), exponents, partitions, arbitrarily nested product spaces, and all cross-class
pairs — is reflexive, symmetric and transitive. -/
theorem C20.space_eq_equivalence :
    (∀ a : Space, a.eqI a = true) ∧
    (∀ a b : Space, a.eqI b = true → b.eqI a = true) ∧
    (∀ a b c : Space, a.eqI b = true → b.eqI c = true → a.eqI c = true) := by
  refine ⟨?_, ?_, ?_⟩ <;> intros <;> simp_all [Space.eqI_iff]

example : (Space.prod [.tensor ⟨[2], .float64, .const .np (.fin 1) (.fin 2)⟩,
      .prod [.tensor ⟨[3], .float32, .array .np 7 (.fin 1)⟩] (.const .ps (.fin 2) .posInf) .real]
      (.array .ps 3 (.fin 2)) .real).eqI
    (.prod [.tensor ⟨[2], .float64, .const .np (.fin 1) (.fin 2)⟩,
      .prod [.tensor ⟨[3], .float32, .array .np 7 (.fin 1)⟩] (.const .ps (.fin 2) .posInf) .real]
      (.array .ps 3 (.fin 2)) .complex) = true := by decide

/- FULL STATEMENT (false for the code as it exists): ∀ heap a b, a.eqI b = true →
   a.hk heap = b.hk heap. -/
/-- MAIN (hash): equal spaces have equal hashes, for every nesting depth and every content of
the weighting arrays, provided both spaces carry the weighting classes native to their space
class and no grid coordinate is `-0.0` (`Space.wfH`).  Missing for the full statement:
findings C20-F2 (signed zero in `RectGrid.__hash__`) and C20-F3 (weighting family). -/
theorem C20.space_hash_respects_eq_partial (heap : Nat → String) (a b : Space)
    (ha : a.wfH) (hb : b.wfH) (h : a.eqI b = true) : a.hk heap = b.hk heap :=
  Space.hk_of_key heap a b ((Space.eqI_iff a b).1 h) ha hb

example : (Space.discr ⟨[⟨.fin 0, .fin 1, [.fin (1/4), .fin (3/4)]⟩], .float64,
    .const .np (.fin (1/2)) (.fin 2), []⟩).wfH := by
  simp [Space.wfH, Weighting.cls, Grid.noNegZero, Discr.part]

/-- Counterexample (finding C20-F3 at the level of spaces): `rn(3, weighting=
ProductSpaceConstWeighting(2.0)) == rn(3, weighting=2.0)` with different hashes. -/
theorem C20.space_hash_weighting_family_fails :
    ∃ a b : Space, a.eqI b = true ∧ ∀ heap, a.hk heap ≠ b.hk heap :=
  ⟨.tensor ⟨[3], .float64, .const .ps (.fin 2) (.fin 2)⟩,
   .tensor ⟨[3], .float64, .const .np (.fin 2) (.fin 2)⟩, by decide, fun _ => by
    simp [Space.hk, TSpace.hk, Weighting.hk, Weighting.baseHk, tup, WCls.tok]⟩

/-- Membership is decided by the element's space alone (`x in S` iff `x.space == S`), objects
without a `space` are never members, and membership respects equality of spaces: an element
of `S` is an element of every space equal to `S`, and of no other space comparable to it. -/
theorem C20.mem_iff_space_eq (S T X : Space) :
    (S.contains (some X) = true ↔ X.eqI S = true) ∧
    S.contains none = false ∧
    (S.eqI T = true → (S.contains (some X) = T.contains (some X))) := by
  refine ⟨by simp [Space.contains], by simp [Space.contains], ?_⟩
  intro h
  have hk := (Space.eqI_iff S T).1 h
  have : (X.eqI S = true) ↔ (X.eqI T = true) := by
    rw [Space.eqI_iff, Space.eqI_iff, hk]
  simp only [Space.contains]
  cases h1 : X.eqI S <;> cases h2 : X.eqI T <;> simp_all
