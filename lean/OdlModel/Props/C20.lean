/-
C20 — sets and spaces: equality, hashing, membership and element creation are coherent.
Property theorems only.  Model: `OdlModel/Model/Spaces.lean` (hand-written from the code as it
exists, tied to /repo by the correspondence check on the live zoo); helper lemmas:
`OdlModel/Lemmas/Spaces.lean`.

Reading guide.  `X.eqI a b` / `X.eqO a b` is the model of `a.__eq__(b)` (`eqO … = none` means
the Python code raises), `X.hk heap a` the tuple handed to `hash` by `a.__hash__()`.  All
statements quantify over ALL descriptors (any shape, any number of axes, any nesting depth
of product spaces, any float / rational coordinates).
-/
import OdlModel.Lemmas.Spaces
import OdlModel.Gen.DTypeTables

open OdlModel.Spaces

/-! ## floats and weightings -/

/-- IEEE `==` on non-NaN floats is an equivalence relation (it is the kernel of `canon`). -/
theorem C20.fl_numEq_equivalence :
    (∀ a : Fl, a.numEq a = true) ∧
    (∀ a b : Fl, a.numEq b = true → b.numEq a = true) ∧
    (∀ a b c : Fl, a.numEq b = true → b.numEq c = true → a.numEq c = true) := by
  refine ⟨?_, ?_, ?_⟩ <;> intros <;> simp_all [Fl.numEq]

/-- `Weighting.__eq__` (all ten concrete classes of both `impl='numpy'` families, including
cross-class and cross-family pairs) is reflexive, symmetric and transitive. -/
theorem C20.weighting_eq_equivalence :
    (∀ a : Weighting, a.eqI a = true) ∧
    (∀ a b : Weighting, a.eqI b = true → b.eqI a = true) ∧
    (∀ a b c : Weighting, a.eqI b = true → b.eqI c = true → a.eqI c = true) := by
  refine ⟨?_, ?_, ?_⟩ <;> intros <;> simp_all [Weighting.eqI_iff]

/- FULL STATEMENT (false for the code as it exists, see `C20.weighting_hash_cross_family_fails`):
   ∀ heap a b, a.eqI b = true → a.hk heap = b.hk heap. -/
/-- Equal weightings OF THE SAME CLASS FAMILY have equal hashes (for every content of the
weighting arrays).  Missing for the full statement: `Weighting.__eq__` ignores `type(self)`
while `__hash__` contains it (finding C20-F3). -/
theorem C20.weighting_hash_respects_eq_partial (heap : Nat → String) (a b : Weighting)
    (h : a.eqI b = true) (hc : a.cls = b.cls) : a.hk heap = b.hk heap :=
  Weighting.hk_of_key heap ((Weighting.eqI_iff a b).1 h) hc

example : (Weighting.const .np (.fin 2) (.fin 1)).eqI (.const .np (.fin 2) (.fin 1)) = true := by
  decide

/-- Counterexample on the model of the current code: `NumpyTensorSpaceConstWeighting(2.0) ==
ProductSpaceConstWeighting(2.0)` is `True` but the hashed tuples differ. -/
theorem C20.weighting_hash_cross_family_fails :
    ∃ a b : Weighting, a.eqI b = true ∧ ∀ heap, a.hk heap ≠ b.hk heap :=
  ⟨.const .np (.fin 2) (.fin 2), .const .ps (.fin 2) (.fin 2), by decide, fun _ => by
    simp [Weighting.hk, Weighting.baseHk, tup, WCls.tok]⟩

/-! ## interval products, grids, partitions -/

/- FULL STATEMENT (false for the code as it exists): `IntervalProd.__eq__` never raises and is
   an equivalence on all interval products, and equal ones have equal hashes. -/
/-- `IntervalProd.__eq__` restricted to interval products of one common dimension `d`: never
raises, reflexive, symmetric, transitive, and equal ones have equal hashes.  Missing for the
full statement: pairs of different `ndim` (NumPy broadcasting, finding C20-F1). -/
theorem C20.interval_eq_equivalence_partial (d : Nat) :
    (∀ a : IntervalProd, a.wf → a.eqO a = some true) ∧
    (∀ a b : IntervalProd, a.wf → b.wf → a.ndim = d → b.ndim = d → (a.eqO b).isSome = true) ∧
    (∀ a b : IntervalProd, a.wf → b.wf → a.ndim = d → b.ndim = d →
      a.eqO b = some true → b.eqO a = some true) ∧
    (∀ a b c : IntervalProd, a.wf → b.wf → c.wf → a.ndim = d → b.ndim = d → c.ndim = d →
      a.eqO b = some true → b.eqO c = some true → a.eqO c = some true) ∧
    (∀ a b : IntervalProd, a.wf → b.wf → a.ndim = d → b.ndim = d →
      a.eqO b = some true → a.hk = b.hk) := by
  refine ⟨?_, ?_, ?_, ?_, ?_⟩
  · intro a ha; exact (IntervalProd.eqO_iff ha ha rfl).2 rfl
  · intro a b ha hb hda hdb; simp [IntervalProd.eqO_same ha hb (hda.trans hdb.symm)]
  · intro a b ha hb hda hdb h
    have := (IntervalProd.eqO_iff ha hb (hda.trans hdb.symm)).1 h
    exact (IntervalProd.eqO_iff hb ha (hdb.trans hda.symm)).2 this.symm
  · intro a b c ha hb hc hda hdb hdc h1 h2
    have k1 := (IntervalProd.eqO_iff ha hb (hda.trans hdb.symm)).1 h1
    have k2 := (IntervalProd.eqO_iff hb hc (hdb.trans hdc.symm)).1 h2
    exact (IntervalProd.eqO_iff ha hc (hda.trans hdc.symm)).2 (k1.trans k2)
  · intro a b ha hb hda hdb h
    exact IntervalProd.hk_of_key ((IntervalProd.eqO_iff ha hb (hda.trans hdb.symm)).1 h)

example : (IntervalProd.mk [.fin 0, .negZero] [.fin 1, .posInf]).eqO ⟨[.negZero, .fin 0], [.fin 1, .posInf]⟩
    = some true := by decide

/-- Counterexamples on the model of the current code (finding C20-F1):
`[0,1] == [0,1]^2` and `[0,1] == [0,1]^3` are `True` (broadcasting) with different hashes,
`[0,1]^2 == [0,1]^3` raises — so `==` is neither hash-consistent nor transitive nor total. -/
theorem C20.interval_eq_broadcast_fails :
    let i1 : IntervalProd := ⟨[.fin 0], [.fin 1]⟩
    let i2 : IntervalProd := ⟨[.fin 0, .fin 0], [.fin 1, .fin 1]⟩
    let i3 : IntervalProd := ⟨[.fin 0, .fin 0, .fin 0], [.fin 1, .fin 1, .fin 1]⟩
    i2.eqO i1 = some true ∧ i1.eqO i3 = some true ∧ i2.eqO i3 = none ∧ i1.hk ≠ i2.hk := by
  decide

/-- `RectGrid.__eq__` is an equivalence relation on all grids (any number of axes/points). -/
theorem C20.grid_eq_equivalence :
    (∀ a : Grid, a.eqI a = true) ∧
    (∀ a b : Grid, a.eqI b = true → b.eqI a = true) ∧
    (∀ a b c : Grid, a.eqI b = true → b.eqI c = true → a.eqI c = true) := by
  refine ⟨?_, ?_, ?_⟩ <;> intros <;> simp_all [Grid.eqI_iff]

/- FULL STATEMENT (false for the code as it exists): ∀ a b, a.eqI b = true → a.hk = b.hk. -/
/-- Equal grids without a `-0.0` coordinate have equal hashes.  Missing for the full
statement: `__hash__` hashes `tobytes()`, which distinguishes `-0.0` from `0.0` (finding C20-F2). -/
theorem C20.grid_hash_respects_eq_partial (a b : Grid) (ha : a.noNegZero) (hb : b.noNegZero)
    (h : a.eqI b = true) : a.hk = b.hk :=
  Grid.hk_of_key ((Grid.eqI_iff a b).1 h) ha hb

/-- Counterexample (finding C20-F2): `RectGrid([-0.0, 1]) == RectGrid([0.0, 1])` but the hashed
byte strings differ. -/
theorem C20.grid_hash_signed_zero_fails :
    (Grid.mk [[.negZero, .fin 1]]).eqI ⟨[[.fin 0, .fin 1]]⟩ = true ∧
    (Grid.mk [[.negZero, .fin 1]]).hk ≠ (Grid.mk [[.fin 0, .fin 1]]).hk := by
  decide

/-- `RectPartition.__eq__` restricted to well-formed partitions of one common dimension:
never raises, is an equivalence; equal ones without `-0.0` grid coordinates have equal hashes.
(Partitions of different dimension inherit finding C20-F1 through `self.set == other.set`.) -/
theorem C20.partition_eq_equivalence_partial (d : Nat) :
    (∀ a : Partition, a.wf → a.eqO a = some true) ∧
    (∀ a b : Partition, a.wf → b.wf → a.set.ndim = d → b.set.ndim = d →
      a.eqO b = some true → b.eqO a = some true) ∧
    (∀ a b c : Partition, a.wf → b.wf → c.wf → a.set.ndim = d → b.set.ndim = d →
      c.set.ndim = d → a.eqO b = some true → b.eqO c = some true → a.eqO c = some true) ∧
    (∀ a b : Partition, a.wf → b.wf → a.set.ndim = d → b.set.ndim = d →
      a.grid.noNegZero → b.grid.noNegZero → a.eqO b = some true → a.hk = b.hk) := by
  refine ⟨?_, ?_, ?_, ?_⟩
  · intro a ha; exact (Partition.eqO_iff ha ha rfl).2 rfl
  · intro a b ha hb hda hdb h
    have := (Partition.eqO_iff ha hb (hda.trans hdb.symm)).1 h
    exact (Partition.eqO_iff hb ha (hdb.trans hda.symm)).2 this.symm
  · intro a b c ha hb hc hda hdb hdc h1 h2
    have k1 := (Partition.eqO_iff ha hb (hda.trans hdb.symm)).1 h1
    have k2 := (Partition.eqO_iff hb hc (hdb.trans hdc.symm)).1 h2
    exact (Partition.eqO_iff ha hc (hda.trans hdc.symm)).2 (k1.trans k2)
  · intro a b ha hb hda hdb na nb h
    exact Partition.hk_of_key ((Partition.eqO_iff ha hb (hda.trans hdb.symm)).1 h) na nb

/-! ## tensor spaces, discretized spaces, (nested, weighted) product spaces -/

/-- The partition comparison inside `DiscretizedSpace.__eq__` is only reached with equal
shapes, and then it cannot raise: the broadcasting defect C20-F1 never surfaces through
discretized spaces. -/
theorem C20.discr_eq_never_raises (a b : Discr) (h : a.shape = b.shape) :
    (Partition.eqO b.part a.part).isSome = true :=
  Discr.part_eq_total h

/-- MAIN (equivalence): `==` on `NumpyTensorSpace`, `DiscretizedSpace` and `ProductSpace`
objects — all shapes, dtypes, weighting kinds (constants by value, arrays and callables by
identity), exponents, partitions, arbitrarily nested product spaces, and all cross-class
pairs — is reflexive, symmetric and transitive. -/
theorem C20.space_eq_equivalence :
    (∀ a : Space, a.eqI a = true) ∧
    (∀ a b : Space, a.eqI b = true → b.eqI a = true) ∧
    (∀ a b c : Space, a.eqI b = true → b.eqI c = true → a.eqI c = true) := by
  refine ⟨?_, ?_, ?_⟩ <;> intros <;> simp_all [Space.eqI_iff]

example : (Space.prod [.tensor ⟨[2], .float64, .const .np (.fin 1) (.fin 2)⟩,
      .prod [.tensor ⟨[3], .float32, .array .np 7 (.fin 1)⟩] (.const .ps (.fin 2) .posInf) .real]
      (.array .ps 3 (.fin 2)) .real).eqI
    (.prod [.tensor ⟨[2], .float64, .const .np (.fin 1) (.fin 2)⟩,
      .prod [.tensor ⟨[3], .float32, .array .np 7 (.fin 1)⟩] (.const .ps (.fin 2) .posInf) .real]
      (.array .ps 3 (.fin 2)) .complex) = true := by decide

/- FULL STATEMENT (false for the code as it exists): ∀ heap a b, a.eqI b = true →
   a.hk heap = b.hk heap. -/
/-- MAIN (hash): equal spaces have equal hashes, for every nesting depth and every content of
the weighting arrays, provided both spaces carry the weighting classes native to their space
class and no grid coordinate is `-0.0` (`Space.wfH`).  Missing for the full statement:
findings C20-F2 (signed zero in `RectGrid.__hash__`) and C20-F3 (weighting family). -/
theorem C20.space_hash_respects_eq_partial (heap : Nat → String) (a b : Space)
    (ha : a.wfH) (hb : b.wfH) (h : a.eqI b = true) : a.hk heap = b.hk heap :=
  Space.hk_of_key heap a b ((Space.eqI_iff a b).1 h) ha hb

example : (Space.discr ⟨[⟨.fin 0, .fin 1, [.fin (1/4), .fin (3/4)]⟩], .float64,
    .const .np (.fin (1/2)) (.fin 2), []⟩).wfH := by
  simp [Space.wfH, Weighting.cls, Grid.noNegZero, Discr.part]

/-- Counterexample (finding C20-F3 at the level of spaces): `rn(3, weighting=
ProductSpaceConstWeighting(2.0)) == rn(3, weighting=2.0)` with different hashes. -/
theorem C20.space_hash_weighting_family_fails :
    ∃ a b : Space, a.eqI b = true ∧ ∀ heap, a.hk heap ≠ b.hk heap :=
  ⟨.tensor ⟨[3], .float64, .const .ps (.fin 2) (.fin 2)⟩,
   .tensor ⟨[3], .float64, .const .np (.fin 2) (.fin 2)⟩, by decide, fun _ => by
    simp [Space.hk, TSpace.hk, Weighting.hk, Weighting.baseHk, tup, WCls.tok]⟩

/-- Membership is decided by the element's space alone (`x in S` iff `x.space == S`), objects
without a `space` are never members, and membership respects equality of spaces: an element
of `S` is an element of every space equal to `S`, and of no other space comparable to it. -/
theorem C20.mem_iff_space_eq (S T X : Space) :
    (S.contains (some X) = true ↔ X.eqI S = true) ∧
    S.contains none = false ∧
    (S.eqI T = true → (S.contains (some X) = T.contains (some X))) := by
  refine ⟨by simp [Space.contains], by simp [Space.contains], ?_⟩
  intro h
  have hk := (Space.eqI_iff S T).1 h
  have : (X.eqI S = true) ↔ (X.eqI T = true) := by
    rw [Space.eqI_iff, Space.eqI_iff, hk]
  simp only [Space.contains]
  cases h1 : X.eqI S <;> cases h2 : X.eqI T <;> simp_all

/-! ## element creation -/

/-- `element_idem`: for every space (tensor, discretized, arbitrarily nested product) and
every input that already belongs to it (`inp.space == S`), `S.element(inp)` returns `inp`
itself — no copy, no re-wrapping. -/
theorem C20.element_idem (T : DTables) (S : Space) (inp : Inp)
    (h : S.contains inp.space? = true) : S.element T inp = .same := by
  cases S with
  | tensor t => simp [Space.element, TSpace.element, h]
  | discr d => simp [Space.element, Discr.element, h]
  | prod l w f => simp [Space.element, h]

example : (Space.tensor ⟨[3], .float64, .const .np (.fin 1) (.fin 2)⟩).contains
    (Inp.elem (.tensor ⟨[3], .float64, .const .np (.fin 1) (.fin 2)⟩) [3] .float64 [1, 2, 3]).space?
    = true := by decide

/-- Conversely an input that is not in a tensor space is never returned as is: the result is
an error or a NEW tensor whose dtype and shape are those of the space. -/
theorem C20.element_new_in_space (T : DTables) (S : TSpace) (forced : Bool) (inp : Inp)
    (h : (Space.tensor S).contains inp.space? = false ∨ forced = true) :
    S.element T forced inp = .errValue ∨ S.element T forced inp = .errType ∨
    ∃ v sm, S.element T forced inp = .tensor S.dtype S.shape v sm := by
  unfold TSpace.element
  have hc : ((Space.tensor S).contains inp.space? && !forced) = false := by
    rcases h with h | h <;> simp [h]
  rw [hc]
  simp only [Bool.false_eq_true, if_false]
  cases hv : inp.view? with
  | none => cases inp <;> simp
  | some q =>
    obtain ⟨nd, sh, dt, v⟩ := q
    by_cases hs : padShape S.shape.length sh = S.shape
    · simp [hs]
    · simp [hs]

/-- `element_shape_error` and `element_values`: an array-like (or foreign element) with view
`(shape, dtype, values)` offered to a tensor space it is not a member of raises `ValueError`
iff its shape, left-padded with 1s to the rank of the space (`ndmin`), differs from the
shape of the space; otherwise the new element holds exactly the input values converted to
the dtype of the space, and shares memory only if the input is an ndarray of that dtype. -/
theorem C20.element_values (T : DTables) (S : TSpace) (inp : Inp) (nd : Bool) (sh : List Nat)
    (dt : DType) (v : List Rat) (hm : (Space.tensor S).contains inp.space? = false)
    (hv : inp.view? = some (nd, sh, dt, v)) :
    (padShape S.shape.length sh ≠ S.shape → S.element T false inp = .errValue) ∧
    (padShape S.shape.length sh = S.shape →
      S.element T false inp =
        .tensor S.dtype S.shape (v.map (castVal T S.dtype)) (nd && decide (dt = S.dtype))) := by
  unfold TSpace.element
  simp [hm, hv]

example : (⟨[1, 3], .float64, .const .np (.fin 1) (.fin 2)⟩ : TSpace).element
    OdlModel.Gen.DTypes.tables false (.arr true [3] .float32 [1, 2, 3]) =
    .tensor .float64 [1, 3] [1, 2, 3] false := by
  rfl

/-- Conversion to the dtype of the space is idempotent (converting twice changes nothing),
so `element(element(x))`-style round trips are stable. -/
theorem C20.castVal_idem (T : DTables) (d : DType) (r : Rat) :
    castVal T d (castVal T d r) = castVal T d r := by
  unfold castVal
  by_cases hb : d = .bool
  · simp [hb]
  · simp only [hb, if_false]
    by_cases hi : T.isInt d = true
    · simp only [hi, if_true]
      unfold truncRat
      by_cases hr : r < 0
      · simp only [hr, if_true]
        by_cases h2 : (-(((-r).floor : Int) : Rat)) < 0
        · simp [h2, Rat.floor_intCast]
        · simp only [h2, if_false]
          have : (((-r).floor : Int) : Rat) = 0 ∨ True := Or.inr trivial
          simp [Rat.floor_intCast, ← Rat.intCast_neg]
      · simp only [hr, if_false]
        by_cases h2 : ((r.floor : Int) : Rat) < 0
        · simp [h2, Rat.floor_intCast, ← Rat.intCast_neg]
        · simp [h2, Rat.floor_intCast]
    · simp [hi]

/-- `ProductSpace.element`: a sequence of the wrong length raises `ValueError`; a sequence of
the right length whose items all belong to the respective components is wrapped as is. -/
theorem C20.pspace_element_length (T : DTables) (l : List Space) (w : Weighting) (f : Fld)
    (inp : Inp) (ps : List Inp) (hm : (Space.prod l w f).contains inp.space? = false)
    (hp : inp.parts? = some ps) :
    (ps.length ≠ l.length → (Space.prod l w f).element T inp = .errValue) ∧
    (ps.length = l.length → Space.allMember l ps = true →
      (Space.prod l w f).element T inp = .prod true []) := by
  simp only [Space.element, hm, hp, Bool.false_eq_true, if_false]
  constructor
  · intro h1; simp [h1]
  · intro h1 h2; simp [h1, h2]

/-! ## derived spaces -/

/-- `astype_descr`: whenever `space.astype(dtype)` returns, the shape is unchanged, the dtype
is the requested one, and for floating-point targets the weighting OBJECT (hence constant /
array identity / callable and exponent) is the one of the original space. -/
theorem C20.astype_descr (T : DTables) (t r : TSpace) (dt : DType) (ok : Bool)
    (h : t.astype T dt ok = some r) :
    r.shape = t.shape ∧ r.dtype = dt ∧ (T.isFloating dt = true → r.w = t.w) ∧
    (dt = t.dtype → r = t) := by
  unfold TSpace.astype at h
  split at h
  · next h1 => cases h; simp [h1]
  · next h1 =>
    split at h
    · cases h
    · split at h
      · next h3 =>
        split at h
        · split at h
          · cases h; simp [h1]
          · cases h
        · cases h; simp [h1]
      · next h3 => cases h; simp [h1, h3]

/-- `real_complex_descr` (involution), re-checked against the dtype tables regenerated from
the live `odl.util.utility`: for the exact real/complex pairs float32/complex64,
float64/complex128, float128/complex256 the round trips `real_space.complex_space` and
`complex_space.real_space` give back the original descriptor (shape, dtype, weighting object,
exponent), for every shape and weighting. -/
theorem C20.real_complex_involution (t : TSpace) :
    (t.dtype = .float32 ∨ t.dtype = .float64 ∨ t.dtype = .float128 →
      (t.complexSpace OdlModel.Gen.DTypes.tables true).bind
        (·.realSpace OdlModel.Gen.DTypes.tables true) = some t) ∧
    (t.dtype = .complex64 ∨ t.dtype = .complex128 ∨ t.dtype = .complex256 →
      (t.realSpace OdlModel.Gen.DTypes.tables true).bind
        (·.complexSpace OdlModel.Gen.DTypes.tables true) = some t) := by
  obtain ⟨sh, d, w⟩ := t
  constructor <;> rintro (h | h | h) <;> simp only at h <;> subst h <;>
    cases w <;> rfl

/-- `float16` is NOT part of an exact pair in the live tables (`float16 → complex64 →
float32`): the round trip changes the dtype.  (Shows the hypothesis above is sharp.) -/
theorem C20.real_complex_float16_not_involutive :
    let t : TSpace := ⟨[3], .float16, defaultW .np⟩
    (t.complexSpace OdlModel.Gen.DTypes.tables true).bind
      (·.realSpace OdlModel.Gen.DTypes.tables true) = some ⟨[3], .float32, defaultW .np⟩ := by
  decide

/-- `byaxis_descr`: `space.byaxis[i]`, `[slice]`, `[list]` has exactly the selected shape
entries, the same dtype and the same weighting object (non-array weightings). -/
theorem C20.byaxis_descr (t r : TSpace) (idx : PIdx) (h : t.byaxis idx = some r) :
    r.dtype = t.dtype ∧ r.w = t.w ∧
    (match idx with
     | .int i => t.shape[i]? = some (r.shape.headD 0) ∧ r.shape.length = 1
     | .slice s => r.shape = selSlice t.shape s
     | .list l => selList t.shape l = some r.shape) := by
  cases idx with
  | int i =>
    simp only [TSpace.byaxis, Option.map_eq_some_iff] at h
    obtain ⟨n, hn, rfl⟩ := h
    simp [hn]
  | slice s => simp only [TSpace.byaxis, Option.some.injEq] at h; subst h; simp
  | list l =>
    simp only [TSpace.byaxis, Option.map_eq_some_iff] at h
    obtain ⟨sh, hs, rfl⟩ := h
    simp [hs]

/- FULL STATEMENT (false for the code as it exists): the weighting and exponent of `P[idx]`
   are those of `P` restricted to the selection. -/
/-- `pspace_index_descr`: `P[i]` is the i-th component; `P[slice]` / `P[list]` is the product of
exactly the selected components with the field of `P`.  Its weighting is the one of `P` only
when `P` is unweighted with exponent 2 (finding C20-F4: weighting and exponent are dropped). -/
theorem C20.pspace_index_descr_partial (l : List Space) (w : Weighting) (f : Fld) :
    (∀ i, (Space.prod l w f).pindex (.int i) = l[i]?) ∧
    (∀ s, (Space.prod l w f).pindex (.slice s) = some (.prod (selSlice l s) (defaultW .ps) f)) ∧
    (∀ idx sel, selList l idx = some sel →
      (Space.prod l w f).pindex (.list idx) = some (.prod sel (defaultW .ps) f)) ∧
    (w = defaultW .ps → ∀ s, (Space.prod l w f).pindex (.slice s) = some (.prod (selSlice l s) w f)) := by
  refine ⟨fun _ => rfl, fun _ => rfl, ?_, ?_⟩
  · intro idx sel h; simp [Space.pindex, h, mkProdF]
  · intro h s; subst h; rfl

/-- Counterexample (finding C20-F4) on the model of the current code: slicing a product space
weighted by 2 with exponent 1 yields an unweighted exponent-2 space. -/
theorem C20.pspace_index_drops_weighting_fails :
    let r2 : Space := .tensor ⟨[2], .float64, defaultW .np⟩
    (Space.prod [r2, r2, r2] (.const .ps (.fin 2) (.fin 1)) .real).pindex (.slice ⟨1, 2, 1⟩) =
      some (.prod [r2, r2] (.const .ps (.fin 1) (.fin 2)) .real) := by
  rfl

/-! ## composite sets -/

/-- `SetUnion.__eq__` / `SetIntersection.__eq__` (mutual inclusion of the member tuples, as
repaired by commit 02921b9) and `CartesianProduct.__eq__` (tuple equality), for members that
are fields, `Strings`, `EmptySet`, `UniversalSet`, grids or spaces of any kind (i.e. members
whose own `==` cannot raise): never raise, reflexive, symmetric, transitive — for any number
of members, in any order, with duplicates.  Excluded members: interval products of mixed
dimension (finding C20-F1) and `FiniteSet`s. -/
theorem C20.composite_eq_equivalence_partial :
    (∀ a b : List Leaf, (∀ x ∈ a, x.simple) → (∀ x ∈ b, x.simple) →
      ((Obj.union a).eqO (.union b)).isSome = true ∧
      ((Obj.inter a).eqO (.inter b)).isSome = true ∧
      ((Obj.cartesian a).eqO (.cartesian b)).isSome = true) ∧
    (∀ a : List Leaf, (∀ x ∈ a, x.simple) →
      (Obj.union a).eqO (.union a) = some true ∧ (Obj.inter a).eqO (.inter a) = some true ∧
      (Obj.cartesian a).eqO (.cartesian a) = some true) ∧
    (∀ a b : List Leaf, (∀ x ∈ a, x.simple) → (∀ x ∈ b, x.simple) →
      ((Obj.union a).eqO (.union b) = some true → (Obj.union b).eqO (.union a) = some true) ∧
      ((Obj.inter a).eqO (.inter b) = some true → (Obj.inter b).eqO (.inter a) = some true) ∧
      ((Obj.cartesian a).eqO (.cartesian b) = some true →
        (Obj.cartesian b).eqO (.cartesian a) = some true)) ∧
    (∀ a b c : List Leaf, (∀ x ∈ a, x.simple) → (∀ x ∈ b, x.simple) → (∀ x ∈ c, x.simple) →
      ((Obj.union a).eqO (.union b) = some true → (Obj.union b).eqO (.union c) = some true →
        (Obj.union a).eqO (.union c) = some true) ∧
      ((Obj.inter a).eqO (.inter b) = some true → (Obj.inter b).eqO (.inter c) = some true →
        (Obj.inter a).eqO (.inter c) = some true) ∧
      ((Obj.cartesian a).eqO (.cartesian b) = some true →
        (Obj.cartesian b).eqO (.cartesian c) = some true →
        (Obj.cartesian a).eqO (.cartesian c) = some true)) := by
  have hr : ∀ x y : Leaf, x.simple → y.simple → x.eqO y = some (x.eqB y) := Leaf.eqO_simple
  have hk : ∀ x y : Leaf, x.simple → y.simple → (x.eqB y = true ↔ x.key = y.key) := Leaf.eqB_iff
  have mi : ∀ a b : List Leaf, (∀ x ∈ a, x.simple) → (∀ x ∈ b, x.simple) →
      (mutualInclO Leaf.eqO a b = some true ↔ ∀ z, z ∈ a.map Leaf.key ↔ z ∈ b.map Leaf.key) := by
    intro a b ha hb
    rw [mutualInclO_total Leaf.eqO Leaf.eqB Leaf.simple hr a b ha hb]
    simpa using mutualInclB_iff Leaf.eqB Leaf.key Leaf.simple hk a b ha hb
  have te := tupleEqO_iff Leaf.eqO Leaf.eqB Leaf.key Leaf.simple hr hk
  refine ⟨?_, ?_, ?_, ?_⟩
  · intro a b ha hb
    simp only [Obj.eqO]
    rw [mutualInclO_total Leaf.eqO Leaf.eqB Leaf.simple hr a b ha hb]
    exact ⟨rfl, rfl, (te a b ha hb).1⟩
  · intro a ha
    simp only [Obj.eqO]
    exact ⟨(mi a a ha ha).2 (fun _ => Iff.rfl), (mi a a ha ha).2 (fun _ => Iff.rfl),
      ((te a a ha ha).2).2 rfl⟩
  · intro a b ha hb
    simp only [Obj.eqO]
    refine ⟨fun h => (mi b a hb ha).2 (fun z => ((mi a b ha hb).1 h z).symm),
      fun h => (mi b a hb ha).2 (fun z => ((mi a b ha hb).1 h z).symm),
      fun h => ((te b a hb ha).2).2 (((te a b ha hb).2).1 h).symm⟩
  · intro a b c ha hb hc
    simp only [Obj.eqO]
    refine ⟨fun h1 h2 => (mi a c ha hc).2
        (fun z => ((mi a b ha hb).1 h1 z).trans ((mi b c hb hc).1 h2 z)),
      fun h1 h2 => (mi a c ha hc).2
        (fun z => ((mi a b ha hb).1 h1 z).trans ((mi b c hb hc).1 h2 z)),
      fun h1 h2 => ((te a c ha hc).2).2
        ((((te a b ha hb).2).1 h1).trans (((te b c hb hc).2).1 h2))⟩

example : (Obj.union [.realNumbers, .complexNumbers]).eqO
    (.union [.complexNumbers, .realNumbers, .complexNumbers]) = some true := by decide

/-- The defect repaired by commit 02921b9, on a model of the OLD code: with `set_ in other`
(membership of the member set AS AN ELEMENT of the other union, which is `False` for a set
that is not an element of e.g. the real numbers) in place of `set_ in other.sets`, even
`u == u` is `False` for every non-empty union.  `old` is the old comparison with an
arbitrary element-membership test `isElem`; it fails reflexivity as soon as the members are
not elements of each other. -/
theorem C20.old_union_eq_not_reflexive (isElem : Leaf → Leaf → Bool)
    (h : ∀ s t, isElem s t = false) (x : Leaf) (l : List Leaf) :
    let old := fun (a b : List Leaf) =>
      a.all (fun s => b.any (fun t => isElem s t)) && b.all (fun s => a.any (fun t => isElem s t))
    old (x :: l) (x :: l) = false := by
  simp [h]
