/-
C20 — sets and spaces: equality, hashing, membership and element creation are coherent.
Property theorems only.  Model: `OdlModel/Model/Spaces.lean` (hand-written from the code as it
exists, tied to /repo by the correspondence check on the live zoo); helper lemmas:
`OdlModel/Lemmas/Spaces.lean`.

Reading guide.  `X.eqI a b` / `X.eqO a b` is the model of `a.__eq__(b)` (`eqO … = none` means
the Python code raises), `X.hk heap a` the tuple handed to `hash` by `a.__hash__()`.  All
statements quantify over ALL descriptors (any shape, any number of axes, any nesting depth
of product spaces, any float / rational coordinates).

Two kinds of theorems (the manifest says the same):
(P) LAWS proved about the model of `__eq__` / `__hash__` and of the derived constructors:
    the equivalence / hash theorems (weighting, interval, grid, partition, space, finite,
    composite), `castVal_idem`, `real_complex_involution`, `astype_round_trip`,
    `astype_byaxis_commute`, `pspace_index_list_int`, `dtype_tables_coherent`, and the
    counterexample / sensitivity theorems.
(S) BRANCH LEMMAS of the executable specification — `mem_iff_space_eq` (parts 1-2),
    `element_idem`, `element_new_in_space`, `element_values`, `pspace_element_length`,
    `astype_descr`, `byaxis_descr_partial`, `byaxis_nonnumeric`, `pspace_index_descr_partial`,
    `pspace_astype_descr`: they unfold the hand-written definition of `element` / `astype` /
    `byaxis` / `pindex` and say which outcome each branch has.  They document the specification
    that the correspondence check executes against the real code; for that half of the
    property the level reached is "executable specification tied by correspondence on the
    zoo", not an independent proof.
-/
import OdlModel.Lemmas.Spaces
import OdlModel.Lemmas.SetMembership
import OdlModel.Gen.DTypeTables

open OdlModel.Spaces

/-! ## floats and weightings -/

/-- IEEE `==` on non-NaN floats is an equivalence relation (it is the kernel of `canon`). -/
theorem C20.fl_numEq_equivalence :
    (∀ a : Fl, a.numEq a = true) ∧
    (∀ a b : Fl, a.numEq b = true → b.numEq a = true) ∧
    (∀ a b c : Fl, a.numEq b = true → b.numEq c = true → a.numEq c = true) := by
  refine ⟨?_, ?_, ?_⟩ <;> intros <;> simp_all [Fl.numEq]

/-- `Weighting.__eq__` (all ten concrete classes of both `impl='numpy'` families, including
cross-class and cross-family pairs) is reflexive, symmetric and transitive. -/
theorem C20.weighting_eq_equivalence :
    (∀ a : Weighting, a.eqI a = true) ∧
    (∀ a b : Weighting, a.eqI b = true → b.eqI a = true) ∧
    (∀ a b c : Weighting, a.eqI b = true → b.eqI c = true → a.eqI c = true) := by
  refine ⟨?_, ?_, ?_⟩ <;> intros <;> simp_all [Weighting.eqI_iff]

/-- Equal weightings have equal hashes, for every content of the weighting arrays (full
statement since the repair of C20-F3: `__eq__` tests `type(other) is type(self)`). -/
theorem C20.weighting_hash_respects_eq (heap : Nat → String) (a b : Weighting)
    (h : a.eqI b = true) : a.hk heap = b.hk heap :=
  Weighting.hk_of_key heap ((Weighting.eqI_iff a b).1 h)

example : (Weighting.const .np (.fin 2) (.fin 1)).eqI (.const .np (.fin 2) (.fin 1)) = true := by
  decide

/-- Weightings of different class families are never equal (they have different hashes):
`NumpyTensorSpaceConstWeighting(2.0) != ProductSpaceConstWeighting(2.0)`. -/
theorem C20.weighting_cross_family_unequal (a b : Weighting) (h : a.cls ≠ b.cls) :
    a.eqI b = false := by
  cases a <;> cases b <;> simp_all [Weighting.eqI, Weighting.baseEq, Weighting.cls]

/-! ## interval products, grids, partitions -/

/-- `IntervalProd.__eq__` (with the `ndim` guard of the repair of C20-F1) never raises, is
reflexive, symmetric and transitive on ALL interval products, of any and mixed dimensions,
and equal ones have equal hashes. -/
theorem C20.interval_eq_equivalence :
    (∀ a : IntervalProd, a.wf → a.eqO a = some true) ∧
    (∀ a b : IntervalProd, a.wf → b.wf → (a.eqO b).isSome = true) ∧
    (∀ a b : IntervalProd, a.wf → b.wf → a.eqO b = some true → b.eqO a = some true) ∧
    (∀ a b c : IntervalProd, a.wf → b.wf → c.wf →
      a.eqO b = some true → b.eqO c = some true → a.eqO c = some true) ∧
    (∀ a b : IntervalProd, a.wf → b.wf → a.eqO b = some true → a.hk = b.hk) ∧
    (∀ a b : IntervalProd, a.ndim ≠ b.ndim → a.eqO b = some false) := by
  refine ⟨?_, ?_, ?_, ?_, ?_, ?_⟩
  · intro a ha; exact (IntervalProd.eqO_iff ha ha).2 rfl
  · intro a b ha hb; exact IntervalProd.eqO_total ha hb
  · intro a b ha hb h
    exact (IntervalProd.eqO_iff hb ha).2 ((IntervalProd.eqO_iff ha hb).1 h).symm
  · intro a b c ha hb hc h1 h2
    exact (IntervalProd.eqO_iff ha hc).2
      (((IntervalProd.eqO_iff ha hb).1 h1).trans ((IntervalProd.eqO_iff hb hc).1 h2))
  · intro a b ha hb h
    exact IntervalProd.hk_of_key ((IntervalProd.eqO_iff ha hb).1 h)
  · intro a b h; simp [IntervalProd.eqO, h]

example : (IntervalProd.mk [.fin 0, .negZero] [.fin 1, .posInf]).eqO ⟨[.negZero, .fin 0], [.fin 1, .posInf]⟩
    = some true := by decide

/-- Sensitivity (the defect C20-F1, on the model of the OLD comparison without the `ndim`
guard): `[0,1] == [0,1]^2` and `[0,1] == [0,1]^3` were `True` by broadcasting, with different
hashes, and `[0,1]^2 == [0,1]^3` raised. -/
theorem C20.old_interval_eq_broadcast_fails :
    let i1 : IntervalProd := ⟨[.fin 0], [.fin 1]⟩
    let i2 : IntervalProd := ⟨[.fin 0, .fin 0], [.fin 1, .fin 1]⟩
    let i3 : IntervalProd := ⟨[.fin 0, .fin 0, .fin 0], [.fin 1, .fin 1, .fin 1]⟩
    i2.eqOld i1 = some true ∧ i1.eqOld i3 = some true ∧ i2.eqOld i3 = none ∧ i1.hk ≠ i2.hk := by
  decide

/-- `RectGrid.__eq__` is an equivalence relation on all grids (any number of axes/points)
and equal grids have equal hashes (full statement since the repair of C20-F2: the hashed
bytes are those of `cv + 0.0`). -/
theorem C20.grid_eq_equivalence :
    (∀ a : Grid, a.eqI a = true) ∧
    (∀ a b : Grid, a.eqI b = true → b.eqI a = true) ∧
    (∀ a b c : Grid, a.eqI b = true → b.eqI c = true → a.eqI c = true) ∧
    (∀ a b : Grid, a.eqI b = true → a.hk = b.hk) := by
  refine ⟨?_, ?_, ?_, ?_⟩ <;> intros <;> simp_all [Grid.eqI_iff]
  exact Grid.hk_of_key (by assumption)

/-- Two grids that differ in one interior coordinate only (same shape, same end points) are
unequal in BOTH directions — e.g. the uniform `[0,2,4,6]` and the non-uniform `[0,2,5,6]`. -/
theorem C20.grid_interior_coordinate_matters :
    (Grid.mk [[.fin 0, .fin 2, .fin 4, .fin 6]]).eqI ⟨[[.fin 0, .fin 2, .fin 5, .fin 6]]⟩ = false ∧
    (Grid.mk [[.fin 0, .fin 2, .fin 5, .fin 6]]).eqI ⟨[[.fin 0, .fin 2, .fin 4, .fin 6]]⟩ = false := by
  decide

/-- Sensitivity (the defect C20-F2): with the OLD hash of the raw bytes,
`RectGrid([-0.0, 1]) == RectGrid([0.0, 1])` had different hashes. -/
theorem C20.old_grid_hash_signed_zero_fails :
    (Grid.mk [[.negZero, .fin 1]]).eqI ⟨[[.fin 0, .fin 1]]⟩ = true ∧
    (Grid.mk [[.negZero, .fin 1]]).hkOld ≠ (Grid.mk [[.fin 0, .fin 1]]).hkOld ∧
    (Grid.mk [[.negZero, .fin 1]]).hk = (Grid.mk [[.fin 0, .fin 1]]).hk := by
  decide

/-- `RectPartition.__eq__` on all well-formed partitions (any and mixed dimensions): never
raises, is an equivalence, and equal partitions have equal hashes. -/
theorem C20.partition_eq_equivalence :
    (∀ a : Partition, a.wf → a.eqO a = some true) ∧
    (∀ a b : Partition, a.wf → b.wf → (a.eqO b).isSome = true) ∧
    (∀ a b : Partition, a.wf → b.wf → a.eqO b = some true → b.eqO a = some true) ∧
    (∀ a b c : Partition, a.wf → b.wf → c.wf →
      a.eqO b = some true → b.eqO c = some true → a.eqO c = some true) ∧
    (∀ a b : Partition, a.wf → b.wf → a.eqO b = some true → a.hk = b.hk) := by
  refine ⟨?_, ?_, ?_, ?_, ?_⟩
  · intro a ha; exact (Partition.eqO_iff ha ha).2 rfl
  · intro a b ha hb; exact Partition.eqO_total ha hb
  · intro a b ha hb h
    exact (Partition.eqO_iff hb ha).2 ((Partition.eqO_iff ha hb).1 h).symm
  · intro a b c ha hb hc h1 h2
    exact (Partition.eqO_iff ha hc).2
      (((Partition.eqO_iff ha hb).1 h1).trans ((Partition.eqO_iff hb hc).1 h2))
  · intro a b ha hb h
    exact Partition.hk_of_key ((Partition.eqO_iff ha hb).1 h)

/-! ## tensor spaces, discretized spaces, (nested, weighted) product spaces -/

/-- The partition comparison inside `DiscretizedSpace.__eq__` cannot raise. -/
theorem C20.discr_eq_never_raises (a b : Discr) :
    (Partition.eqO b.part a.part).isSome = true :=
  Discr.part_eq_total a b

/-- MAIN (equivalence): `==` on `NumpyTensorSpace`, `DiscretizedSpace` and `ProductSpace`
objects — all shapes, dtypes, weighting kinds (constants by value, arrays and callables by
identity), exponents, partitions, arbitrarily nested product spaces, and all cross-class
pairs — is reflexive, symmetric and transitive. -/
theorem C20.space_eq_equivalence :
    (∀ a : Space, a.eqI a = true) ∧
    (∀ a b : Space, a.eqI b = true → b.eqI a = true) ∧
    (∀ a b c : Space, a.eqI b = true → b.eqI c = true → a.eqI c = true) := by
  refine ⟨?_, ?_, ?_⟩ <;> intros <;> simp_all [Space.eqI_iff]

example : (Space.prod [.tensor ⟨[2], .float64, .const .np (.fin 1) (.fin 2)⟩,
      .prod [.tensor ⟨[3], .float32, .array .np 7 (.fin 1)⟩] (.const .ps (.fin 2) .posInf) .real]
      (.array .ps 3 (.fin 2)) .real).eqI
    (.prod [.tensor ⟨[2], .float64, .const .np (.fin 1) (.fin 2)⟩,
      .prod [.tensor ⟨[3], .float32, .array .np 7 (.fin 1)⟩] (.const .ps (.fin 2) .posInf) .real]
      (.array .ps 3 (.fin 2)) .complex) = true := by decide

/-- MAIN (hash), full statement since the repairs of C20-F2 and C20-F3: equal spaces have
equal hashes — every space class, every nesting depth, every weighting (also weightings of
the other class family passed in explicitly), signed zeros in grids, every content of the
weighting arrays. -/
theorem C20.space_hash_respects_eq (heap : Nat → String) (a b : Space)
    (h : a.eqI b = true) : a.hk heap = b.hk heap :=
  Space.hk_of_key heap a b ((Space.eqI_iff a b).1 h)

/-- `rn(3, weighting=ProductSpaceConstWeighting(2.0))` and `rn(3, weighting=2.0)` (the pair
of C20-F3) are now unequal. -/
theorem C20.space_weighting_family_unequal :
    (Space.tensor ⟨[3], .float64, .const .ps (.fin 2) (.fin 2)⟩).eqI
      (.tensor ⟨[3], .float64, .const .np (.fin 2) (.fin 2)⟩) = false := by decide

/-- Membership is decided by the element's space alone (`x in S` iff `x.space == S`), objects
without a `space` are never members, and membership respects equality of spaces: an element
of `S` is an element of every space equal to `S`, and of no other space comparable to it. -/
theorem C20.mem_iff_space_eq (S T X : Space) :
    (S.contains (some X) = true ↔ X.eqI S = true) ∧
    S.contains none = false ∧
    (S.eqI T = true → (S.contains (some X) = T.contains (some X))) := by
  refine ⟨by simp [Space.contains], by simp [Space.contains], ?_⟩
  intro h
  have hk := (Space.eqI_iff S T).1 h
  have : (X.eqI S = true) ↔ (X.eqI T = true) := by
    rw [Space.eqI_iff, Space.eqI_iff, hk]
  simp only [Space.contains]
  cases h1 : X.eqI S <;> cases h2 : X.eqI T <;> simp_all

/-! ## element creation -/

/-- `element_idem`: for every space (tensor, discretized, arbitrarily nested product) and
every input that already belongs to it (`inp.space == S`), `S.element(inp)` returns `inp`
itself — no copy, no re-wrapping. -/
theorem C20.element_idem (T : DTables) (S : Space) (inp : Inp)
    (h : S.contains inp.space? = true) : S.element T inp = .same := by
  cases S with
  | tensor t => simp [Space.element, TSpace.element, h]
  | discr d => simp [Space.element, Discr.element, h]
  | prod l w f => simp [Space.element, h]

example : (Space.tensor ⟨[3], .float64, .const .np (.fin 1) (.fin 2)⟩).contains
    (Inp.elem (.tensor ⟨[3], .float64, .const .np (.fin 1) (.fin 2)⟩) [3] .float64 [1, 2, 3]).space?
    = true := by decide

/-- Conversely an input that is not in a tensor space is never returned as is: the result is
an error, a NEW tensor whose dtype and shape are those of the space, or (values outside the
exactly modelled range) no statement. -/
theorem C20.element_new_in_space (T : DTables) (S : TSpace) (forced : Bool) (inp : Inp)
    (h : (Space.tensor S).contains inp.space? = false ∨ forced = true) :
    S.element T forced inp = .errValue ∨ S.element T forced inp = .errType ∨
    S.element T forced inp = .outside ∨
    ∃ v sm, S.element T forced inp = .tensor S.dtype S.shape v sm := by
  unfold TSpace.element
  have hc : ((Space.tensor S).contains inp.space? && !forced) = false := by
    rcases h with h | h <;> simp [h]
  rw [hc]
  simp only [Bool.false_eq_true, if_false]
  cases hv : inp.view? with
  | none => cases inp <;> simp
  | some q =>
    obtain ⟨nd, sh, dt, v⟩ := q
    by_cases hs : padShape S.shape.length sh = S.shape
    · simp only [hs, if_true]
      cases v.mapM (castVal? T S.dtype) <;> simp
    · simp [hs]

/-- `element_shape_error` and `element_values`: an array-like (or foreign element) with view
`(shape, dtype, values)` offered to a tensor space it is not a member of raises `ValueError`
iff its shape, left-padded with 1s to the rank of the space (`ndmin`), differs from the
shape of the space; otherwise — for values in the exactly modelled range (`castVal?`: dyadic,
≤ 11 significant bits, magnitude < 128, non-negative for unsigned targets) — the new element
holds exactly the input values converted to the dtype of the space (`castVal`: truncation for
integer kinds, test against zero for bool, identity for float/complex kinds), and shares
memory only if the input is an ndarray of that dtype.  Outside that range (wrap-around,
rounding, overflow) there is no statement. -/
theorem C20.element_values (T : DTables) (S : TSpace) (inp : Inp) (nd : Bool) (sh : List Nat)
    (dt : DType) (v : List Rat) (hm : (Space.tensor S).contains inp.space? = false)
    (hv : inp.view? = some (nd, sh, dt, v)) :
    (padShape S.shape.length sh ≠ S.shape → S.element T false inp = .errValue) ∧
    (padShape S.shape.length sh = S.shape → ∀ v', v.mapM (castVal? T S.dtype) = some v' →
      v' = v.map (castVal T S.dtype) ∧
      S.element T false inp = .tensor S.dtype S.shape v' (nd && decide (dt = S.dtype))) := by
  unfold TSpace.element
  refine ⟨by intro h; simp [hm, hv, h], ?_⟩
  intro h v' hv'
  exact ⟨mapM_castVal?_eq T S.dtype v v' hv', by simp [hm, hv, h, hv']⟩

/-- non-vacuity: a float32 ndarray of shape (3,) offered to `rn((1,3))`, and a list with
fractional and negative entries offered to an int64 space (truncation toward zero) -/
example : (⟨[1, 3], .float64, .const .np (.fin 1) (.fin 2)⟩ : TSpace).element
    OdlModel.Gen.DTypes.tables false (.arr true [3] .float32 [1, 2, 3]) =
    .tensor .float64 [1, 3] [1, 2, 3] false :=
  ((C20.element_values OdlModel.Gen.DTypes.tables _ _ true [3] .float32 [1, 2, 3] (by decide)
    rfl).2 (by decide) [1, 2, 3] (by decide)).2

example : [(3/2 : Rat), -5/2, 3].mapM (castVal? OdlModel.Gen.DTypes.tables .int64) =
    some [1, -2, 3] := by decide +kernel

/-- Conversion to the dtype of the space is idempotent (converting twice changes nothing),
so `element(element(x))`-style round trips are stable. -/
theorem C20.castVal_idem (T : DTables) (d : DType) (r : Rat) :
    castVal T d (castVal T d r) = castVal T d r := by
  unfold castVal
  by_cases hb : d = .bool
  · simp [hb]
  · simp only [hb, if_false]
    by_cases hi : T.isInt d = true
    · simp only [hi, if_true]
      unfold truncRat
      by_cases hr : r < 0
      · simp only [hr, if_true]
        by_cases h2 : (-(((-r).floor : Int) : Rat)) < 0
        · simp [h2, Rat.floor_intCast]
        · simp only [h2, if_false]
          have : (((-r).floor : Int) : Rat) = 0 ∨ True := Or.inr trivial
          simp [-Int.cast_neg, Rat.floor_intCast, ← Rat.intCast_neg]
      · simp only [hr, if_false]
        by_cases h2 : ((r.floor : Int) : Rat) < 0
        · simp [-Int.cast_neg, h2, Rat.floor_intCast, ← Rat.intCast_neg]
        · simp [h2, Rat.floor_intCast]
    · simp [hi]

/-- `ProductSpace.element`: a sequence of the wrong length raises `ValueError`; a sequence of
the right length whose items all belong to the respective components is wrapped as is. -/
theorem C20.pspace_element_length (T : DTables) (l : List Space) (w : Weighting) (f : Fld)
    (inp : Inp) (ps : List Inp) (hm : (Space.prod l w f).contains inp.space? = false)
    (hp : inp.parts? = some ps) :
    (ps.length ≠ l.length → (Space.prod l w f).element T inp = .errValue) ∧
    (ps.length = l.length → Space.allMember l ps = true →
      (Space.prod l w f).element T inp = .prod true []) := by
  simp only [Space.element, hm, hp, Bool.false_eq_true, if_false]
  constructor
  · intro h1; simp [h1]
  · intro h1 h2; simp [h1, h2]

/-- `cast=False` changes nothing for inputs made of members: `element(inp, cast=False)`
returns `inp` itself for an element of the space (or of any EQUAL space, however it was
built), and wraps a sequence of the right length whose items are elements of spaces EQUAL to
the respective components (`v.space == space`, not identity) — it never raises `TypeError`
for them; for every other input it agrees with `cast=True` except that the item-wise
conversion is replaced by `TypeError`. -/
theorem C20.pspace_element_cast_false (T : DTables) (l : List Space) (w : Weighting) (f : Fld)
    (inp : Inp) :
    ((Space.prod l w f).contains inp.space? = true →
      (Space.prod l w f).elementC T false inp = .same) ∧
    (∀ ps, (Space.prod l w f).contains inp.space? = false → inp.parts? = some ps →
      ps.length = l.length → Space.allMember l ps = true →
      (Space.prod l w f).elementC T false inp = .prod true [] ∧
      (Space.prod l w f).elementC T true inp = .prod true []) ∧
    ((Space.prod l w f).elementC T true inp = (Space.prod l w f).element T inp) := by
  refine ⟨?_, ?_, ?_⟩
  · intro h; simp [Space.elementC, h]
  · intro ps hm hp hl ha; simp [Space.elementC, hm, hp, hl, ha]
  · simp [Space.elementC, Space.element]

/-- the items only have to be elements of EQUAL spaces: a fresh `rn(3)` element is accepted by
`ProductSpace(rn(2), rn(3)).element([...], cast=False)` -/
example :
    let r2 : Space := .tensor ⟨[2], .float64, defaultW .np⟩
    let r3 : Space := .tensor ⟨[3], .float64, defaultW .np⟩
    (Space.prod [r2, r3] (defaultW .ps) .real).elementC OdlModel.Gen.DTypes.tables false
      (.seq [.elem r2 [2] .float64 [1, 2], .elem r3 [3] .float64 [1, 2, 3]]) = .prod true [] := by
  simp [Space.elementC, Space.contains, Inp.space?, Inp.parts?, Space.allMember, Space.eqI,
    TSpace.eqI, Weighting.eqI, Weighting.baseEq, Weighting.cls, Weighting.exponent, defaultW,
    Fl.numEq]

/-! ## derived spaces -/

/-- `astype_descr`: whenever `space.astype(dtype)` returns, the shape is unchanged, the dtype
is the requested one, and for floating-point targets the weighting OBJECT (hence constant /
array identity / callable and exponent) is the one of the original space. -/
theorem C20.astype_descr (T : DTables) (t r : TSpace) (dt : DType) (ok : Bool)
    (h : t.astype T dt ok = some r) :
    r.shape = t.shape ∧ r.dtype = dt ∧ (T.isFloating dt = true → r.w = t.w) ∧
    (dt = t.dtype → r = t) := by
  unfold TSpace.astype at h
  split at h
  · next h1 => cases h; simp [h1]
  · next h1 =>
    split at h
    · cases h
    · split at h
      · next h3 =>
        split at h
        · split at h
          · cases h; simp [h1]
          · cases h
        · cases h; simp [h1]
      · next h3 => cases h; simp [h1, h3]

/-- `real_complex_descr` (involution), re-checked against the dtype tables regenerated from
the live `odl.util.utility`: for the exact real/complex pairs float32/complex64,
float64/complex128, float128/complex256 the round trips `real_space.complex_space` and
`complex_space.real_space` give back the original descriptor (shape, dtype, weighting object,
exponent), for every shape and weighting. -/
theorem C20.real_complex_involution (t : TSpace) :
    (t.dtype = .float32 ∨ t.dtype = .float64 ∨ t.dtype = .float128 →
      (t.complexSpace OdlModel.Gen.DTypes.tables true).bind
        (·.realSpace OdlModel.Gen.DTypes.tables true) = some t) ∧
    (t.dtype = .complex64 ∨ t.dtype = .complex128 ∨ t.dtype = .complex256 →
      (t.realSpace OdlModel.Gen.DTypes.tables true).bind
        (·.complexSpace OdlModel.Gen.DTypes.tables true) = some t) := by
  obtain ⟨sh, d, w⟩ := t
  constructor <;> rintro (h | h | h) <;> simp only at h <;> subst h <;>
    cases w <;> rfl

/-- `float16` is NOT part of an exact pair in the live tables (`float16 → complex64 →
float32`): the round trip changes the dtype.  (Shows the hypothesis above is sharp.) -/
theorem C20.real_complex_float16_not_involutive :
    let t : TSpace := ⟨[3], .float16, defaultW .np⟩
    (t.complexSpace OdlModel.Gen.DTypes.tables true).bind
      (·.realSpace OdlModel.Gen.DTypes.tables true) = some ⟨[3], .float32, defaultW .np⟩ := by
  decide

/- FULL STATEMENT (false for the code as it exists): the same for array weightings, with the
   weights restricted to the selection. -/
/-- `byaxis_descr`: for spaces whose weighting is NOT an array weighting, `space.byaxis[i]`,
`[slice]`, `[list]` has exactly the selected shape entries, the same dtype and the same
weighting object.  Missing for the full statement: array weightings (finding C20-F7, see
`C20.byaxis_array_weighting_fails`). -/
theorem C20.byaxis_descr_partial (T : DTables) (t r : TSpace) (idx : PIdx) (fresh : Nat)
    (hn : T.isNumeric t.dtype = true)
    (hw : ∀ c i e, t.w ≠ .array c i e) (h : t.byaxis T idx fresh = some r) :
    r.dtype = t.dtype ∧ r.w = t.w ∧ selShape t.shape idx = some r.shape := by
  unfold TSpace.byaxis at h
  cases hs : selShape t.shape idx with
  | none => simp [hs] at h
  | some sh =>
    simp only [hs, hn, Bool.not_true, Bool.false_eq_true, if_false] at h
    cases hww : t.w with
    | array c i e => exact absurd hww (hw c i e)
    | const c v e => simp [hww] at h; subst h; simp
    | inner c f => simp [hww] at h; subst h; simp
    | norm c f => simp [hww] at h; subst h; simp
    | dist c f => simp [hww] at h; subst h; simp

/-- for non-numeric dtypes (bool, strings; their only possible weighting is the constant 1.0)
`byaxis` keeps shape selection, dtype and exponent -/
theorem C20.byaxis_nonnumeric (T : DTables) (t r : TSpace) (idx : PIdx) (fresh : Nat)
    (hn : T.isNumeric t.dtype = false) (h : t.byaxis T idx fresh = some r) :
    r.dtype = t.dtype ∧ r.w = .const .np (.fin 1) t.w.exponent ∧
    selShape t.shape idx = some r.shape := by
  unfold TSpace.byaxis at h
  cases hs : selShape t.shape idx with
  | none => simp [hs] at h
  | some sh => simp [hs, hn] at h; subst h; simp

example : (⟨[2, 3, 4], .float32, .const .np (.fin 2) (.fin 1)⟩ : TSpace).byaxis
    OdlModel.Gen.DTypes.tables (.list [2, 0]) 0 =
    some ⟨[4, 2], .float32, .const .np (.fin 2) (.fin 1)⟩ := by decide

/-- Counterexamples (finding C20-F7) on the model of the current code, which indexes the
full-shape weight array along its FIRST axis with the AXIS index:
`rn((2,3), weighting=W).byaxis[0]` raises; the identity selection `byaxis[:]` returns a space
with a NEW weight array (token 0 ≠ 1), hence unequal to the original; and
`rn((3,3), weighting=W).byaxis[1]` silently returns `rn(3)` weighted by ROW 1 of `W`. -/
theorem C20.byaxis_array_weighting_fails :
    let T := OdlModel.Gen.DTypes.tables
    let s : TSpace := ⟨[2, 3], .float64, .array .np 1 (.fin 2)⟩
    s.byaxis T (.int 0) 0 = none ∧
    s.byaxis T (.slice ⟨0, 2, 1⟩) 0 2 = some ⟨[2, 3], .float64, .array .np 0 (.fin 2)⟩ ∧
    (⟨[2, 3], .float64, .array .np 0 (.fin 2)⟩ : TSpace).eqI s = false ∧
    (⟨[3, 3], .float64, .array .np 1 (.fin 2)⟩ : TSpace).byaxis T (.int 1) 0 =
      some ⟨[3], .float64, .array .np 0 (.fin 2)⟩ := by
  decide

/-- `astype` round trip (generalises the real/complex involution): casting between two
available floating-point dtypes and back returns the ORIGINAL descriptor (shape, dtype,
weighting object, exponent) — for every shape and every weighting whose array can be cast. -/
theorem C20.astype_round_trip (T : DTables) (t : TSpace) (d : DType)
    (h1 : T.available d = true) (h2 : T.available t.dtype = true)
    (h3 : T.isFloating d = true) (h4 : T.isFloating t.dtype = true) :
    (t.astype T d true).bind (·.astype T t.dtype true) = some t := by
  obtain ⟨sh, d0, w⟩ := t
  by_cases hd : d = d0
  · subst hd; simp [TSpace.astype]
  · have hd' : ¬ d0 = d := fun h => hd h.symm
    cases w <;> simp_all [TSpace.astype]

/-- `astype` commutes with `byaxis` (no array weighting): selecting axes and then casting is
the same as casting and then selecting axes, including the cases where either raises
(numeric source and target dtypes). -/
theorem C20.astype_byaxis_commute (T : DTables) (t : TSpace) (idx : PIdx) (dt : DType)
    (ok : Bool) (fresh : Nat) (hn : T.isNumeric t.dtype = true) (hn' : T.isNumeric dt = true)
    (hw : ∀ c i e, t.w ≠ .array c i e) :
    (t.byaxis T idx fresh).bind (·.astype T dt ok) =
      (t.astype T dt ok).bind (·.byaxis T idx fresh) := by
  obtain ⟨sh, d0, w⟩ := t
  cases w with
  | array c i e => exact absurd rfl (hw c i e)
  | const c v e =>
    cases hs : selShape sh idx <;> by_cases h1 : dt = d0 <;> by_cases h2 : T.available dt = true <;>
      by_cases h3 : T.isFloating dt = true <;>
      simp_all [TSpace.byaxis, TSpace.astype, defaultW]
  | inner c f =>
    cases hs : selShape sh idx <;> by_cases h1 : dt = d0 <;> by_cases h2 : T.available dt = true <;>
      by_cases h3 : T.isFloating dt = true <;>
      simp_all [TSpace.byaxis, TSpace.astype, defaultW]
  | norm c f =>
    cases hs : selShape sh idx <;> by_cases h1 : dt = d0 <;> by_cases h2 : T.available dt = true <;>
      by_cases h3 : T.isFloating dt = true <;>
      simp_all [TSpace.byaxis, TSpace.astype, defaultW]
  | dist c f =>
    cases hs : selShape sh idx <;> by_cases h1 : dt = d0 <;> by_cases h2 : T.available dt = true <;>
      by_cases h3 : T.isFloating dt = true <;>
      simp_all [TSpace.byaxis, TSpace.astype, defaultW]

/-- The dtype tables regenerated from the live `odl.util.utility` are coherent (checked over
all dtypes of the model on every run): the classifiers partition as documented
(`is_floating = real_floating or complex_floating`, `is_real = numeric and not complex`,
integer dtypes are numeric and not floating, bool and string dtypes are not numeric);
`TYPE_MAP_R2C` is defined exactly on the real floating dtypes and yields complex floating
dtypes, `TYPE_MAP_C2R` exactly on the floating dtypes and yields real floating dtypes, is the
identity on real floating dtypes, and `c2r (r2c d) = d` except for `float16` (→ `float32`). -/
theorem C20.dtype_tables_coherent (d : DType) :
    let T := OdlModel.Gen.DTypes.tables
    (T.isFloating d = (T.isRealFloating d || T.isComplexFloating d)) ∧
    (T.isReal d = (T.isNumeric d && !T.isComplexFloating d)) ∧
    (T.isInt d = true → T.isNumeric d = true ∧ T.isFloating d = false) ∧
    (T.isNumeric d = (T.isInt d || T.isFloating d)) ∧
    (T.isInt d = d.isUnsigned || T.isInt d) ∧
    (d.isUnsigned = true → T.isInt d = true) ∧
    ((T.r2c d).isSome = T.isRealFloating d) ∧
    ((T.c2r d).isSome = T.isFloating d) ∧
    (∀ c, T.r2c d = some c → T.isComplexFloating c = true ∧
      (T.c2r c = some d ∨ (d = .float16 ∧ T.c2r c = some .float32))) ∧
    (∀ r, T.c2r d = some r → T.isRealFloating r = true ∧
      (T.isRealFloating d = true → r = d)) ∧
    (T.isNumeric d = true → T.available d = true) := by
  cases d <;> simp [OdlModel.Gen.DTypes.tables, OdlModel.Gen.DTypes.isFloating,
    OdlModel.Gen.DTypes.isRealFloating, OdlModel.Gen.DTypes.isComplexFloating,
    OdlModel.Gen.DTypes.isReal, OdlModel.Gen.DTypes.isNumeric, OdlModel.Gen.DTypes.isInt,
    OdlModel.Gen.DTypes.r2c, OdlModel.Gen.DTypes.c2r, OdlModel.Gen.DTypes.available,
    DType.isUnsigned]

/- FULL STATEMENT (false for the code as it exists): the weighting and exponent of `P[idx]`
   are those of `P` restricted to the selection, for every weighting kind. -/
/-- `pspace_index_descr`: `P[i]` is the i-th component; `P[slice]` / `P[list]` is the product of
exactly the selected components with the field of `P`, and — since the repair of C20-F4 for
constant weightings — carries the constant weighting and exponent of `P`.  Missing for the
full statement: array (and custom) weightings are still not passed on (C20-F4, open part). -/
theorem C20.pspace_index_descr_partial (l : List Space) (w : Weighting) (f : Fld) :
    (∀ i, (Space.prod l w f).pindex (.int i) = l[i]?) ∧
    (∀ s, (Space.prod l w f).pindex (.slice s) = some (.prod (selSlice l s) (selW w) f)) ∧
    (∀ idx sel, selList l idx = some sel →
      (Space.prod l w f).pindex (.list idx) = some (.prod sel (selW w) f)) ∧
    (∀ c v e, w = .const c v e → selW w = w) := by
  refine ⟨fun _ => rfl, fun _ => rfl, ?_, ?_⟩
  · intro idx sel h; simp [Space.pindex, h]
  · intro c v e h; subst h; rfl

/-- Indexing composes: `P[idx_list][j]` IS `P[idx_list[j]]` (the same component), for every
product space, list of indices and `j`, including the out-of-range cases. -/
theorem C20.pspace_index_list_int (l : List Space) (w : Weighting) (f : Fld) (idx : List Nat)
    (P' : Space) (h : (Space.prod l w f).pindex (.list idx) = some P') (j : Nat) :
    P'.pindex (.int j) = (idx[j]?).bind (fun (i : Nat) => (Space.prod l w f).pindex (.int i)) := by
  simp only [Space.pindex, Option.map_eq_some_iff] at h
  obtain ⟨sel, hs, rfl⟩ := h
  simpa [Space.pindex] using selList_getElem? l idx sel hs j

/-- a product space weighted by 2 with exponent 1 keeps both under slicing -/
example :
    let r2 : Space := .tensor ⟨[2], .float64, defaultW .np⟩
    (Space.prod [r2, r2, r2] (.const .ps (.fin 2) (.fin 1)) .real).pindex (.slice ⟨1, 2, 1⟩) =
      some (.prod [r2, r2] (.const .ps (.fin 2) (.fin 1)) .real) := by
  rfl

/-- Counterexample (open part of C20-F4) on the model of the current code: slicing a product
space weighted by an ARRAY yields an unweighted exponent-2 space. -/
theorem C20.pspace_index_drops_array_weighting_fails :
    let r2 : Space := .tensor ⟨[2], .float64, defaultW .np⟩
    (Space.prod [r2, r2, r2] (.array .ps 5 (.fin 1)) .real).pindex (.slice ⟨1, 2, 1⟩) =
      some (.prod [r2, r2] (.const .ps (.fin 1) (.fin 2)) .real) := by
  rfl

/-- `ProductSpace.astype(dtype)` (after the repair of C20-F4): a product space whose
components all have dtype `dtype` already is returned as is; otherwise, if all components
can be cast, the result is the product of the cast components, and for floating-point
targets it carries the weighting object (hence exponent) of the original. -/
theorem C20.pspace_astype_descr (T : DTables) (l l' : List Space) (w : Weighting) (f : Fld)
    (dt : DType) (h : Space.astypeL T l dt = some l') :
    (Space.dtypeIs l dt = true → (Space.prod l w f).astype T dt = some (.prod l w f)) ∧
    (Space.dtypeIs l dt = false → T.isFloating dt = true →
      (Space.prod l w f).astype T dt = mkProdW T l' w) := by
  constructor
  · intro h1; simp [Space.astype, h1]
  · intro h1 h2; simp [Space.astype, h1, h, h2]

/-- A product space with MIXED component dtypes is never "already of dtype `dt`", in
particular not when only its first component has dtype `dt`: `ProductSpace(rn(2), rn(3,
dtype='float32')).astype('float64')` must cast the second component. -/
theorem C20.pspace_astype_mixed_dtype_casts :
    let T := OdlModel.Gen.DTypes.tables
    let r2 : Space := .tensor ⟨[2], .float64, defaultW .np⟩
    let r3f : Space := .tensor ⟨[3], .float32, defaultW .np⟩
    let r3 : Space := .tensor ⟨[3], .float64, defaultW .np⟩
    (Space.prod [r2, r3f] (defaultW .ps) .real).astype T .float64 =
      some (.prod [r2, r3] (defaultW .ps) .real) := by
  simp [Space.astype, Space.astypeL, Space.dtypeIs, Space.dtypeAll, TSpace.astype, mkProdW,
    Space.field, OdlModel.Gen.DTypes.tables, OdlModel.Gen.DTypes.available,
    OdlModel.Gen.DTypes.isFloating, OdlModel.Gen.DTypes.isReal, defaultW]

/-! ## composite sets -/

/-- `SetUnion.__eq__` / `SetIntersection.__eq__` (mutual inclusion of the member tuples, as
repaired by commit 02921b9) and `CartesianProduct.__eq__` (tuple equality), for members that
are fields, `Strings`, `EmptySet`, `UniversalSet`, interval products (of any, also mixed,
dimensions — since the repair of C20-F1), grids, `FiniteSet`s or spaces of any kind, i.e. ALL
non-composite members: never raise, reflexive, symmetric, transitive — for any number of
members, in any order, with duplicates. -/
theorem C20.composite_eq_equivalence :
    (∀ a b : List Leaf, (∀ x ∈ a, x.simple) → (∀ x ∈ b, x.simple) →
      ((Obj.union a).eqO (.union b)).isSome = true ∧
      ((Obj.inter a).eqO (.inter b)).isSome = true ∧
      ((Obj.cartesian a).eqO (.cartesian b)).isSome = true) ∧
    (∀ a : List Leaf, (∀ x ∈ a, x.simple) →
      (Obj.union a).eqO (.union a) = some true ∧ (Obj.inter a).eqO (.inter a) = some true ∧
      (Obj.cartesian a).eqO (.cartesian a) = some true) ∧
    (∀ a b : List Leaf, (∀ x ∈ a, x.simple) → (∀ x ∈ b, x.simple) →
      ((Obj.union a).eqO (.union b) = some true → (Obj.union b).eqO (.union a) = some true) ∧
      ((Obj.inter a).eqO (.inter b) = some true → (Obj.inter b).eqO (.inter a) = some true) ∧
      ((Obj.cartesian a).eqO (.cartesian b) = some true →
        (Obj.cartesian b).eqO (.cartesian a) = some true)) ∧
    (∀ a b c : List Leaf, (∀ x ∈ a, x.simple) → (∀ x ∈ b, x.simple) → (∀ x ∈ c, x.simple) →
      ((Obj.union a).eqO (.union b) = some true → (Obj.union b).eqO (.union c) = some true →
        (Obj.union a).eqO (.union c) = some true) ∧
      ((Obj.inter a).eqO (.inter b) = some true → (Obj.inter b).eqO (.inter c) = some true →
        (Obj.inter a).eqO (.inter c) = some true) ∧
      ((Obj.cartesian a).eqO (.cartesian b) = some true →
        (Obj.cartesian b).eqO (.cartesian c) = some true →
        (Obj.cartesian a).eqO (.cartesian c) = some true)) := by
  have hr : ∀ x y : Leaf, x.simple → y.simple → x.eqO y = some (x.eqB y) := Leaf.eqO_simple
  have hk : ∀ x y : Leaf, x.simple → y.simple → (x.eqB y = true ↔ x.key = y.key) := Leaf.eqB_iff
  have mi : ∀ a b : List Leaf, (∀ x ∈ a, x.simple) → (∀ x ∈ b, x.simple) →
      (mutualInclO Leaf.eqO a b = some true ↔ ∀ z, z ∈ a.map Leaf.key ↔ z ∈ b.map Leaf.key) := by
    intro a b ha hb
    rw [mutualInclO_total Leaf.eqO Leaf.eqB Leaf.simple hr a b ha hb]
    simpa using mutualInclB_iff Leaf.eqB Leaf.key Leaf.simple hk a b ha hb
  have te := tupleEqO_iff Leaf.eqO Leaf.eqB Leaf.key Leaf.simple hr hk
  refine ⟨?_, ?_, ?_, ?_⟩
  · intro a b ha hb
    simp only [Obj.eqO]
    rw [mutualInclO_total Leaf.eqO Leaf.eqB Leaf.simple hr a b ha hb]
    exact ⟨rfl, rfl, (te a b ha hb).1⟩
  · intro a ha
    simp only [Obj.eqO]
    exact ⟨(mi a a ha ha).2 (fun _ => Iff.rfl), (mi a a ha ha).2 (fun _ => Iff.rfl),
      ((te a a ha ha).2).2 rfl⟩
  · intro a b ha hb
    simp only [Obj.eqO]
    refine ⟨fun h => (mi b a hb ha).2 (fun z => ((mi a b ha hb).1 h z).symm),
      fun h => (mi b a hb ha).2 (fun z => ((mi a b ha hb).1 h z).symm),
      fun h => ((te b a hb ha).2).2 (((te a b ha hb).2).1 h).symm⟩
  · intro a b c ha hb hc
    simp only [Obj.eqO]
    refine ⟨fun h1 h2 => (mi a c ha hc).2
        (fun z => ((mi a b ha hb).1 h1 z).trans ((mi b c hb hc).1 h2 z)),
      fun h1 h2 => (mi a c ha hc).2
        (fun z => ((mi a b ha hb).1 h1 z).trans ((mi b c hb hc).1 h2 z)),
      fun h1 h2 => ((te a c ha hc).2).2
        ((((te a b ha hb).2).1 h1).trans (((te b c hb hc).2).1 h2))⟩

example : (Obj.union [.realNumbers, .complexNumbers]).eqO
    (.union [.complexNumbers, .realNumbers, .complexNumbers]) = some true := by decide

example : (Obj.union [.interval ⟨[.fin 0, .fin 0], [.fin 1, .fin 1]⟩,
      .interval ⟨[.fin 0, .fin 0, .fin 0], [.fin 1, .fin 1, .fin 1]⟩]).eqO
    (.union [.interval ⟨[.fin 0, .fin 0, .fin 0], [.fin 1, .fin 1, .fin 1]⟩,
      .interval ⟨[.fin 0, .fin 0], [.fin 1, .fin 1]⟩]) = some true := by decide

/-- The defect repaired by commit 02921b9, on a model of the OLD code: with `set_ in other`
(membership of the member set AS AN ELEMENT of the other union, which is `False` for a set
that is not an element of e.g. the real numbers) in place of `set_ in other.sets`, even
`u == u` is `False` for every non-empty union.  `old` is the old comparison with an
arbitrary element-membership test `isElem`; it fails reflexivity as soon as the members are
not elements of each other. -/
theorem C20.old_union_eq_not_reflexive (isElem : Leaf → Leaf → Bool)
    (h : ∀ s t, isElem s t = false) (x : Leaf) (l : List Leaf) :
    let old := fun (a b : List Leaf) =>
      a.all (fun s => b.any (fun t => isElem s t)) && b.all (fun s => a.any (fun t => isElem s t))
    old (x :: l) (x :: l) = false := by
  simp [h]

/-- `FiniteSet.__eq__` (mutual containment of the element tuples) is an equivalence, and equal
finite sets have equal hashes: `hash((type, frozenset(elements)))`, the element tuples being
duplicate-free (`unique` in the constructor). -/
theorem C20.finite_eq_hash :
    (∀ a : List Atom, finiteEq a a = true) ∧
    (∀ a b : List Atom, finiteEq a b = true → finiteEq b a = true) ∧
    (∀ a b c : List Atom, finiteEq a b = true → finiteEq b c = true → finiteEq a c = true) ∧
    (∀ (heap : Nat → String) (a b : List Atom), a.Nodup → b.Nodup → finiteEq a b = true →
      SHKey.eqv ((Leaf.finite a).hk heap) ((Leaf.finite b).hk heap) = true) := by
  refine ⟨?_, ?_, ?_, ?_⟩
  · intro a; rw [finiteEq_iff]; intro x; exact Iff.rfl
  · intro a b h; rw [finiteEq_iff] at h ⊢; intro x; exact (h x).symm
  · intro a b c h1 h2; rw [finiteEq_iff] at h1 h2 ⊢; intro x; exact (h1 x).trans (h2 x)
  · intro heap a b na nb h
    have hp : a.Perm b := (List.perm_ext_iff_of_nodup na nb).2 ((finiteEq_iff a b).1 h)
    simp only [Leaf.hk, SHKey.eqv, decide_true, Bool.true_and]
    exact List.isPerm_iff.2 (hp.map atomHk)

example : finiteEq [.int 1, .int 2, .str "a"] [.str "a", .int 2, .int 1] = true := by decide

/-- Equal unions / intersections / Cartesian products have equal hashes
(`hash((type, frozenset(self.sets)))`, resp. `hash((type, self.sets))`): for every number of
members and every order, members being any non-composite sets other than `FiniteSet`s
(`plainHash`: fields, `Strings`, interval products, grids, spaces of any kind, …), with
duplicate-free member tuples for unions and intersections (`unique` in the constructors).
Composites with `FiniteSet` members or nested composites are outside the model: their hashes
are checked by the oracle on the real code only. -/
theorem C20.composite_hash_respects_eq (heap : Nat → String) (a b : List Leaf)
    (ha : ∀ x ∈ a, x.simple) (hb : ∀ x ∈ b, x.simple)
    (_ha' : ∀ x ∈ a, x.plainHash) (_hb' : ∀ x ∈ b, x.plainHash) :
    ((a.map Leaf.key).Nodup → (b.map Leaf.key).Nodup →
      (Obj.union a).eqO (.union b) = some true →
      SHKey.eqv ((Obj.union a).hk heap) ((Obj.union b).hk heap) = true) ∧
    ((a.map Leaf.key).Nodup → (b.map Leaf.key).Nodup →
      (Obj.inter a).eqO (.inter b) = some true →
      SHKey.eqv ((Obj.inter a).hk heap) ((Obj.inter b).hk heap) = true) ∧
    ((Obj.cartesian a).eqO (.cartesian b) = some true →
      SHKey.eqv ((Obj.cartesian a).hk heap) ((Obj.cartesian b).hk heap) = true) := by
  have hr : ∀ x y : Leaf, x.simple → y.simple → x.eqO y = some (x.eqB y) := Leaf.eqO_simple
  have hk : ∀ x y : Leaf, x.simple → y.simple → (x.eqB y = true ↔ x.key = y.key) := Leaf.eqB_iff
  have perm : (a.map Leaf.key).Nodup → (b.map Leaf.key).Nodup →
      mutualInclO Leaf.eqO a b = some true →
      (memberKeys heap a).isPerm (memberKeys heap b) = true := by
    intro na nb h
    rw [mutualInclO_total Leaf.eqO Leaf.eqB Leaf.simple hr a b ha hb] at h
    have hm := (mutualInclB_iff Leaf.eqB Leaf.key Leaf.simple hk a b ha hb).1 (by simpa using h)
    have hp : (a.map Leaf.key).Perm (b.map Leaf.key) := (List.perm_ext_iff_of_nodup na nb).2 hm
    exact List.isPerm_iff.2 (perm_map_of_perm_key Leaf.key (Leaf.hkPlain heap) a b hp
      (fun x _ y _ hxy => Leaf.hkPlain_of_key heap x y hxy))
  refine ⟨?_, ?_, ?_⟩
  · intro na nb h
    simp only [Obj.eqO] at h
    simp [Obj.hk, SHKey.eqv, perm na nb h]
  · intro na nb h
    simp only [Obj.eqO] at h
    simp [Obj.hk, SHKey.eqv, perm na nb h]
  · intro h
    simp only [Obj.eqO] at h
    have hkeys := ((tupleEqO_iff Leaf.eqO Leaf.eqB Leaf.key Leaf.simple hr hk a b ha hb).2).1 h
    have := map_eq_of_map_key_eq Leaf.key (Leaf.hkPlain heap)
      (fun x y hxy => Leaf.hkPlain_of_key heap x y hxy) a b hkeys
    simp [Obj.hk, SHKey.eqv, memberKeys, this]

/-! ## laws of the conversions (final round) -/

/-- `astype` is idempotent: casting to `dt` twice is the same as casting once — for every
shape, source dtype, target dtype, weighting and `can_cast` outcome, including the raising
cases. -/
theorem C20.astype_idem (T : DTables) (t : TSpace) (dt : DType) (ok : Bool) :
    (t.astype T dt ok).bind (·.astype T dt ok) = t.astype T dt ok := by
  cases h : t.astype T dt ok with
  | none => rfl
  | some r =>
    have hd := (C20.astype_descr T t r dt ok h).2.1
    simp [TSpace.astype, hd]

example : (⟨[2, 3], .float64, .const .np (.fin 2) (.fin 1)⟩ : TSpace).astype
    OdlModel.Gen.DTypes.tables .float32 true =
    some ⟨[2, 3], .float32, .const .np (.fin 2) (.fin 1)⟩ := by decide

/-- The real / complex counterparts STABILISE after one step, for EVERY dtype of the library
(checked against the dtype tables regenerated from the live module; this is the invariant the
history stream tests, and it covers `float16`, whose round trip is not the identity):
`real_space` and `complex_space` are idempotent, and with `c = s.complex_space`,
`r = c.real_space` the pair is exact: `r.complex_space = c` and `r.complex_space.real_space = r`
(for `float16`, `r` is the float32 space, not `s`), whenever the conversions are defined
(`castOk` for array weightings), for every shape and weighting. -/
theorem C20.real_complex_stabilise (t : TSpace) :
    let T := OdlModel.Gen.DTypes.tables
    ((t.realSpace T true).bind (·.realSpace T true) = t.realSpace T true) ∧
    ((t.complexSpace T true).bind (·.complexSpace T true) = t.complexSpace T true) ∧
    (((t.complexSpace T true).bind (·.realSpace T true)).bind (·.complexSpace T true) =
      ((t.complexSpace T true).bind fun c => (c.realSpace T true).map fun _ => c)) ∧
    ((((t.complexSpace T true).bind (·.realSpace T true)).bind (·.complexSpace T true)).bind
        (·.realSpace T true) = (t.complexSpace T true).bind (·.realSpace T true)) := by
  obtain ⟨sh, d, w⟩ := t
  cases d <;> cases w <;> refine ⟨?_, ?_, ?_, ?_⟩ <;> rfl

example :
    let T := OdlModel.Gen.DTypes.tables
    let t : TSpace := ⟨[3], .float16, .const .np (.fin 2) (.fin 1)⟩
    (t.complexSpace T true).bind (·.realSpace T true) =
      some ⟨[3], .float32, .const .np (.fin 2) (.fin 1)⟩ := by decide

/-- HISTORY INDEPENDENCE on the model: equal spaces have equal conversions.  If two tensor
space descriptors compare equal (`==`; they may differ in how floats are written, e.g.
`-0.0` vs `0.0`), then `astype(dt)`, `real_space`, `complex_space` and `byaxis[idx]` either
raise for both or return spaces that compare equal again (hence hash equally, by
`C20.space_hash_respects_eq`) — for every shape, dtype, weighting, target and index. -/
theorem C20.conversions_respect_eq (T : DTables) (a b : TSpace) (h : a.eqI b = true)
    (dt : DType) (ok : Bool) (idx : PIdx) (fresh flen : Nat) :
    let rel : Option TSpace → Option TSpace → Prop := fun x y =>
      match x, y with
      | some r, some r' => r.eqI r' = true
      | none, none => True
      | _, _ => False
    rel (a.astype T dt ok) (b.astype T dt ok) ∧
    rel (a.realSpace T ok) (b.realSpace T ok) ∧
    rel (a.complexSpace T ok) (b.complexSpace T ok) ∧
    rel (a.byaxis T idx fresh flen) (b.byaxis T idx fresh flen) := by
  have hk := (TSpace.eqI_iff a b).1 h
  obtain ⟨sa, da, wa⟩ := a
  obtain ⟨sb, db, wb⟩ := b
  simp only [TSpace.key, Prod.mk.injEq] at hk
  obtain ⟨rfl, rfl, hw⟩ := hk
  have hast : ∀ d : DType, (match (TSpace.astype T ⟨sa, da, wa⟩ d ok),
      (TSpace.astype T ⟨sa, da, wb⟩ d ok) with
      | some r, some r' => r.eqI r' = true
      | none, none => True
      | _, _ => False) := by
    intro d
    cases wa <;> cases wb <;> simp [Weighting.key] at hw <;>
      by_cases h1 : d = da <;> by_cases h2 : T.available d = true <;>
      by_cases h3 : T.isFloating d = true <;> cases ok <;>
      simp_all [TSpace.astype, TSpace.eqI_iff, TSpace.key, Weighting.key, defaultW]
  refine ⟨hast dt, ?_, ?_, ?_⟩
  · by_cases hn : T.isNumeric da = true
    · cases hr : realDtype T da with
      | none => simp [TSpace.realSpace, hn, hr]
      | some d => simpa [TSpace.realSpace, hn, hr] using hast d
    · simp [TSpace.realSpace, hn]
  · by_cases hn : T.isNumeric da = true
    · cases hr : complexDtype T da with
      | none => simp [TSpace.complexSpace, hn, hr]
      | some d => simpa [TSpace.complexSpace, hn, hr] using hast d
    · simp [TSpace.complexSpace, hn]
  · simp only [TSpace.byaxis]
    cases selShape sa idx with
    | none => trivial
    | some sh =>
      cases wa <;> cases wb <;> simp [Weighting.key] at hw <;>
        by_cases hn : T.isNumeric da = true <;>
        simp_all [TSpace.eqI_iff, TSpace.key, Weighting.key, Weighting.exponent,
          Fl.canon_canon]
      all_goals (cases firstAxisIndexShape sa flen idx with
        | none => simp
        | some wsh => by_cases hws : wsh = sh <;> simp_all)

/-- non-vacuity: the hypothesis holds for `rn(3, weighting=2.0, exponent=1)` (and, for
descriptors written differently, see the `-0.0` / `0.0` example after
`C20.discr_astype_respects_eq`) -/
example : (⟨[3], .float64, .const .np (.fin 2) (.fin 1)⟩ : TSpace).eqI
    ⟨[3], .float64, .const .np (.fin 2) (.fin 1)⟩ = true := by decide

/-- The same for discretized spaces: equal `DiscretizedSpace`s (equal partitions up to the
sign of zeros, equal tensor spaces) have equal `astype(dt)` results or both raise, and
`astype` never changes the partition — for any number of axes and grid points. -/
theorem C20.discr_astype_respects_eq (T : DTables) (a b : Discr) (h : a.eqI b = true)
    (dt : DType) (ok : Bool) :
    (match a.astype T dt ok, b.astype T dt ok with
     | some r, some r' => r.eqI r' = true ∧ r.axes = a.axes ∧ r'.axes = b.axes
     | none, none => True
     | _, _ => False) := by
  have hk := (Discr.eqI_iff a b).1 h
  simp only [Discr.key, Prod.mk.injEq] at hk
  obtain ⟨hs, hd, hw, hp⟩ := hk
  have ht : a.tspace.eqI b.tspace = true := by
    rw [TSpace.eqI_iff]; simp [TSpace.key, Discr.tspace, hs, hd, hw]
  have hc := (C20.conversions_respect_eq T a.tspace b.tspace ht dt ok (.int 0) 0 0).1
  simp only [Discr.astype]
  cases ha : a.tspace.astype T dt ok with
  | none =>
    cases hb : b.tspace.astype T dt ok with
    | none => simp
    | some r' => simp [ha, hb] at hc
  | some r =>
    cases hb : b.tspace.astype T dt ok with
    | none => simp [ha, hb] at hc
    | some r' =>
      simp only [ha, hb] at hc
      have hrk := (TSpace.eqI_iff r r').1 hc
      simp only [TSpace.key, Prod.mk.injEq] at hrk
      refine ⟨?_, rfl, rfl⟩
      rw [Discr.eqI_iff]
      simp [Discr.key, Discr.shape, Discr.part, hrk.2.1, hrk.2.2] 
      have hs' : a.axes.map (fun x => x.pts.length) = b.axes.map (fun x => x.pts.length) := hs
      exact ⟨hs', hp⟩

example : (⟨[⟨.negZero, .fin 1, [.fin (1/4), .fin (3/4)]⟩], .float64,
      .const .np (.fin (1/2)) (.fin 2), []⟩ : Discr).eqI
    ⟨[⟨.fin 0, .fin 1, [.fin (1/4), .fin (3/4)]⟩], .float64,
      .const .np (.fin (1/2)) (.fin 2), ["x"]⟩ = true := by decide +kernel

/-! ## round 4: `astype` on arbitrarily nested product spaces -/

/-- After `space.astype(dt)` returns — for a tensor space, a discretized space or a product
space nested to any depth — EVERY leaf has dtype `dt` (`hasDtype` is `dtype ==
getattr(space, 'dtype', object)`, which for a product space means: non-empty and all
components, recursively, have that dtype). -/
theorem C20.pspace_astype_dtype (T : DTables) (s r : Space) (dt : DType)
    (h : s.astype T dt = some r) : r.hasDtype dt = true :=
  Space.astype_hasDtype T s dt r h

/-- `astype` is idempotent on ALL space classes incl. arbitrarily nested product spaces:
casting to `dt` twice is the same as casting once (the second call takes the `self` fast
path), including the raising cases (empty product space, non-castable component). -/
theorem C20.pspace_astype_idem (T : DTables) (s : Space) (dt : DType) :
    (s.astype T dt).bind (·.astype T dt) = s.astype T dt := by
  cases h : s.astype T dt with
  | none => rfl
  | some r => simpa using Space.astype_of_hasDtype T r dt (Space.astype_hasDtype T s dt r h)

/-- non-vacuity: a weighted product space nested two deep with mixed dtypes is cast -/
example :
    let T := OdlModel.Gen.DTypes.tables
    let r2 : Space := .tensor ⟨[2], .float64, defaultW .np⟩
    let r3f : Space := .tensor ⟨[3], .float32, defaultW .np⟩
    (Space.prod [r2, .prod [r3f, r2] (defaultW .ps) .real] (.const .ps (.fin 2) (.fin 1)) .real).astype
      T .float32 =
      some (.prod [.tensor ⟨[2], .float32, defaultW .np⟩,
        .prod [r3f, .tensor ⟨[2], .float32, defaultW .np⟩] (defaultW .ps) .real]
        (.const .ps (.fin 2) (.fin 1)) .real) := by
  simp [Space.astype, Space.astypeL, Space.dtypeIs, Space.dtypeAll, TSpace.astype, mkProdW,
    Space.field, OdlModel.Gen.DTypes.tables, OdlModel.Gen.DTypes.available,
    OdlModel.Gen.DTypes.isFloating, OdlModel.Gen.DTypes.isReal, defaultW]

mutual
/-- HISTORY INDEPENDENCE for `astype` on ALL space classes, by structural induction over the
nesting: if two spaces (tensor, discretized, product spaces of any length nested to any depth,
any weightings) compare equal, then `a.astype(dt)` and `b.astype(dt)` either both raise or
return spaces that compare equal again (hence hash equally, `C20.space_hash_respects_eq`).
`Space.astype` is the definition the driver executes for `derive op=astype` (streams
`astype/ProductSpace/*` and `history/*`).  As there, `can_cast` is taken to hold for array
weighted components. -/
theorem C20.pspace_astype_respects_eq (T : DTables) : (a b : Space) → a.eqI b = true →
    (dt : DType) →
    (match a.astype T dt, b.astype T dt with
     | some r, some r' => r.eqI r' = true
     | none, none => True
     | _, _ => False)
  | .tensor a, .tensor b, h, dt => by
      have := (C20.conversions_respect_eq T a b (by simpa [Space.eqI] using h) dt true (.int 0) 0 0).1
      simp only [Space.astype]
      cases ha : a.astype T dt true <;> cases hb : b.astype T dt true <;>
        simp_all [Space.eqI]
  | .discr a, .discr b, h, dt => by
      have := C20.discr_astype_respects_eq T a b (by simpa [Space.eqI] using h) dt true
      simp only [Space.astype]
      cases ha : a.astype T dt true <;> cases hb : b.astype T dt true <;>
        simp_all [Space.eqI]
  | .prod l w f, .prod l' w' f', h, dt => by
      have h0 := h
      simp only [Space.eqI, Bool.and_eq_true, decide_eq_true_eq] at h
      obtain ⟨⟨hl, hw⟩, he⟩ := h
      have hd := Space.dtypeIs_of_eq l l' hl he dt
      have ih := C20.pspace_astypeL_respects_eq T l l' hl he dt
      simp only [Space.astype, ← hd]
      by_cases h1 : Space.dtypeIs l dt = true
      · simpa [h1] using h0
      · simp only [h1, Bool.false_eq_true, if_false]
        cases hr : Space.astypeL T l dt with
        | none => cases hr' : Space.astypeL T l' dt <;> simp_all
        | some r =>
          cases hr' : Space.astypeL T l' dt with
          | none => simp_all
          | some r' =>
            simp only [hr, hr'] at ih
            obtain ⟨hlen, heq⟩ := ih
            cases r <;> cases r' <;> simp at hlen <;>
              by_cases h3 : T.isFloating dt = true <;>
              simp_all [mkProdW, mkProd, Space.eqI, defaultW, Weighting.eqI, Weighting.baseEq,
                Weighting.cls, Weighting.exponent, Fl.numEq]
  | .tensor _, .discr _, h, _ | .tensor _, .prod .., h, _ | .discr _, .tensor _, h, _
  | .discr _, .prod .., h, _ | .prod .., .tensor _, h, _ | .prod .., .discr _, h, _ => by
      simp [Space.eqI] at h
/-- list part of the induction: component-wise equal component tuples have component-wise
equal casts, or the first failing component raises for both -/
theorem C20.pspace_astypeL_respects_eq (T : DTables) : (l l' : List Space) →
    l.length = l'.length → Space.eqL l l' = true → (dt : DType) →
    (match Space.astypeL T l dt, Space.astypeL T l' dt with
     | some r, some r' => r.length = r'.length ∧ Space.eqL r r' = true
     | none, none => True
     | _, _ => False)
  | [], [], _, _, _ => by simp [Space.astypeL, Space.eqL]
  | [], _ :: _, h, _, _ => by simp at h
  | _ :: _, [], h, _, _ => by simp at h
  | a :: l, b :: l', hl, he, dt => by
      simp only [Space.eqL, Bool.and_eq_true] at he
      have h1 := C20.pspace_astype_respects_eq T a b he.1 dt
      have h2 := C20.pspace_astypeL_respects_eq T l l' (by simpa using hl) he.2 dt
      simp only [Space.astypeL]
      cases ha : Space.astype T a dt <;> cases hb : Space.astype T b dt <;>
        cases hr : Space.astypeL T l dt <;> cases hr' : Space.astypeL T l' dt <;>
        simp_all [Space.eqL]
end

/-- non-vacuity: two nested product spaces that are equal but differ in the recorded field and
in the spelling of a weighting constant (`-0.0`-free here; fields are not compared) -/
example : (Space.prod [.prod [.tensor ⟨[2], .float64, defaultW .np⟩] (defaultW .ps) .real]
      (.const .ps (.fin 2) (.fin 1)) .real).eqI
    (.prod [.prod [.tensor ⟨[2], .float64, defaultW .np⟩] (defaultW .ps) .complex]
      (.const .ps (.fin 2) (.fin 1)) .complex) = true := by decide

/-! ## round 4: membership in plain sets, `contains_set`, `contains_all` -/


/-- `contains_set` is SOUND with respect to `in`, two separately coded methods: for all
non-composite plain sets `A`, `B` (`EmptySet`, `UniversalSet`, `Strings`, the number sets,
interval products of any dimension ≥ 1 with finite bounds, `FiniteSet`s of Python scalars),
if `A.contains_set(B)` (exact inclusion: `atol = 0` / no `atol`) returns `True`, then every
value `v` (scalars of every kind, sequences nested to any depth)
with `v in B` also has `v in A`.  In particular the tower `Integers ⊂ RealNumbers ⊂
ComplexNumbers` of `contains_set` agrees with the `numbers` ABC tests of `__contains__`.
Executed definitions: `PLeaf.containsSet` (stream `cset/*`) and `PLeaf.mem` (stream `mem/*`).
The hypothesis `posDim` is needed: see `C20.contains_set_zero_dim_fails` (finding C20-F15). -/
theorem C20.contains_set_sound (A B : PLeaf) (same : Bool) (hA : A.wf) (hB : B.wf)
    (hB0 : B.posDim) (hsame : same = true → A = B)
    (h : PLeaf.containsSet 0 same A B = some true) (v : Val) (hv : B.mem v = true) :
    A.mem v = true := by
  cases same with
  | true => rw [hsame rfl]; exact hv
  | false =>
    have h' : A.containsSetDistinct 0 B = some true := by
      cases A <;> simpa [PLeaf.containsSet] using h
    clear h hsame
    cases A with
    | universal => simp [PLeaf.mem]
    | empty => cases B <;> simp_all [PLeaf.containsSetDistinct]
    | complex =>
      cases B <;> simp [PLeaf.containsSetDistinct] at h' <;> cases v <;>
        simp_all [PLeaf.mem]
      · exact Scalar.real?_isSome_num? hv
      · exact Scalar.real?_isSome_num? (Scalar.isIntegral_real? hv)
    | real =>
      cases B <;> simp [PLeaf.containsSetDistinct] at h' <;> cases v <;>
        simp_all [PLeaf.mem]
      exact Scalar.isIntegral_real? hv
    | integers => cases B <;> simp_all [PLeaf.containsSetDistinct]
    | strings n =>
      cases B <;> simp [PLeaf.containsSetDistinct, PLeaf.eqB] at h'
      subst h'; exact hv
    | finite a =>
      cases B with
      | finite b =>
        simp only [PLeaf.containsSetDistinct, PLeaf.eqB, Option.some.injEq, Bool.and_eq_true,
          List.all_eq_true, List.any_eq_true] at h'
        cases v with
        | tuple vs => simp [PLeaf.mem] at hv
        | sc s =>
          simp only [PLeaf.mem, List.any_eq_true] at hv ⊢
          obtain ⟨e, he, hes⟩ := hv
          obtain ⟨e', he', hee⟩ := h'.2 e he
          refine ⟨e', he', ?_⟩
          rw [Scalar.pyEq_iff] at *
          exact hee.trans hes
      | _ => simp [PLeaf.containsSetDistinct, PLeaf.eqB] at h'
    | interval lo hi =>
      cases B with
      | interval lo' hi' =>
        simp only [PLeaf.containsSetDistinct, Option.some.injEq, Bool.and_eq_true] at h'
        simp only [PLeaf.wf] at hA hB
        simp only [PLeaf.posDim] at hB0
        have hh0 : hi' ≠ [] := by
          intro hc; rw [hc] at hB; exact hB0 (List.length_eq_zero_iff.1 hB.symm)
        obtain ⟨l1, b1⟩ := approxContains_zero hB0 h'.1
        obtain ⟨l2, b2⟩ := approxContains_zero hh0 h'.2
        cases v with
        | sc s =>
          simp only [PLeaf.mem, intervalMem] at hv ⊢
          cases hs : s.floatConv? with
          | none => simp [hs] at hv
          | some x =>
            simp only [hs, Bool.and_eq_true, decide_eq_true_eq] at hv ⊢
            refine ⟨by omega, boxMem_mono lo hi lo' hi' [x] l1 l2 hA (by simp; omega) b1 b2 hv.2⟩
        | tuple vs =>
          simp only [PLeaf.mem, intervalMem] at hv ⊢
          cases hs : vs.mapM Val.coord? with
          | none => simp [hs] at hv
          | some p =>
            simp only [hs, Bool.and_eq_true, decide_eq_true_eq] at hv ⊢
            refine ⟨by omega, boxMem_mono lo hi lo' hi' p l1 l2 hA (by omega) b1 b2 hv.2⟩
      | _ => simp [PLeaf.containsSetDistinct] at h'


/-- `IntervalProd.contains_set` at `atol = 0` is a PARTIAL ORDER on interval products of
positive dimension (any, also mixed, dimensions; distinct objects, i.e. without the `self is
other` shortcut): reflexive (for every `atol ≥ 0`; uses the constructor invariant
`min_pt ≤ max_pt`), transitive, and antisymmetric up to equality of the end points (which is
`IntervalProd.__eq__`).  Last part: for every pair of sets, `contains_set` is monotone in
`atol`. -/
theorem C20.interval_contains_set_partial_order :
    (∀ lo hi atol, hi.length = lo.length → List.Forall₂ (· ≤ ·) lo hi → 0 ≤ atol →
      PLeaf.containsSet atol false (.interval lo hi) (.interval lo hi) = some true) ∧
    (∀ lo hi lo' hi' lo'' hi'' : List Rat, hi.length = lo.length → hi'.length = lo'.length →
      hi''.length = lo''.length → lo' ≠ [] → lo'' ≠ [] →
      PLeaf.containsSet 0 false (.interval lo hi) (.interval lo' hi') = some true →
      PLeaf.containsSet 0 false (.interval lo' hi') (.interval lo'' hi'') = some true →
      PLeaf.containsSet 0 false (.interval lo hi) (.interval lo'' hi'') = some true) ∧
    (∀ lo hi lo' hi' : List Rat, hi.length = lo.length → hi'.length = lo'.length →
      lo ≠ [] → lo' ≠ [] →
      PLeaf.containsSet 0 false (.interval lo hi) (.interval lo' hi') = some true →
      PLeaf.containsSet 0 false (.interval lo' hi') (.interval lo hi) = some true →
      lo = lo' ∧ hi = hi') ∧
    (∀ (A B : PLeaf) (same : Bool) (atol atol' : Rat), atol ≤ atol' →
      PLeaf.containsSet atol same A B = some true →
      PLeaf.containsSet atol' same A B = some true) := by
  have nonempty_hi : ∀ lo hi : List Rat, hi.length = lo.length → lo ≠ [] → hi ≠ [] := by
    intro lo hi h h0 hc; rw [hc] at h; exact h0 (List.length_eq_zero_iff.1 h.symm)
  have mk : ∀ lo hi p : List Rat, p.length = lo.length → boxMem lo hi p = true →
      approxContains lo hi p 0 = true := by
    intro lo hi p hl hb
    unfold approxContains
    by_cases hp : p.isEmpty = true
    · simp [hp]
    · simp [hp, hl, distInf_of_boxMem lo hi p hb]
  refine ⟨?_, ?_, ?_, ?_⟩
  · intro lo hi atol hl hf ha
    have hb := boxMem_self lo hi hf
    have e1 := distInf_of_boxMem lo hi lo hb.1
    have e2 := distInf_of_boxMem lo hi hi hb.2
    simp [PLeaf.containsSet, PLeaf.containsSetDistinct, approxContains, e1, e2, ha, hl]
  · intro lo hi lo' hi' lo'' hi'' h1 h2 h3 n2 n3 hab hbc
    simp only [PLeaf.containsSet, PLeaf.containsSetDistinct, Option.some.injEq,
      Bool.and_eq_true] at hab hbc ⊢
    obtain ⟨l1, b1⟩ := approxContains_zero n2 hab.1
    obtain ⟨l2, b2⟩ := approxContains_zero (nonempty_hi lo' hi' h2 n2) hab.2
    obtain ⟨l3, b3⟩ := approxContains_zero n3 hbc.1
    obtain ⟨l4, b4⟩ := approxContains_zero (nonempty_hi lo'' hi'' h3 n3) hbc.2
    exact ⟨mk lo hi lo'' (by omega) (boxMem_mono lo hi lo' hi' lo'' l1 l2 h1 (by omega) b1 b2 b3),
      mk lo hi hi'' (by omega) (boxMem_mono lo hi lo' hi' hi'' l1 l2 h1 (by omega) b1 b2 b4)⟩
  · intro lo hi lo' hi' h1 h2 n1 n2 hab hba
    simp only [PLeaf.containsSet, PLeaf.containsSetDistinct, Option.some.injEq,
      Bool.and_eq_true] at hab hba
    obtain ⟨l1, b1⟩ := approxContains_zero n2 hab.1
    obtain ⟨l2, b2⟩ := approxContains_zero (nonempty_hi lo' hi' h2 n2) hab.2
    obtain ⟨l3, b3⟩ := approxContains_zero n1 hba.1
    obtain ⟨l4, b4⟩ := approxContains_zero (nonempty_hi lo hi h1 n1) hba.2
    exact boxMem_antisymm lo hi lo' hi' l1 h1 l2 b1 b2 b3 b4
  · intro A B same atol atol' hle h
    have ap : ∀ lo hi p : List Rat, approxContains lo hi p atol = true →
        approxContains lo hi p atol' = true := by
      intro lo hi p
      unfold approxContains
      split
      · simp
      · split
        · simp
        · simp only [decide_eq_true_eq]; intro hd; exact le_trans hd hle
    cases A <;> cases B <;> cases same <;>
      simp_all [PLeaf.containsSet, PLeaf.containsSetDistinct]

/-- `contains_all(array)` of the number sets (a test on the array's dtype against
`is_int_dtype` / `is_real_dtype` / `is_numeric_dtype`, tables regenerated from the live module)
respects the tower, for every dtype of the library: an array accepted by `Integers` is accepted
by `RealNumbers`, one accepted by `RealNumbers` by `ComplexNumbers` (stream `call/*`). -/
theorem C20.contains_all_dtype_tower (d : DType) :
    let T := OdlModel.Gen.DTypes.tables
    (PLeaf.integers.containsAllDtype T d = some true →
      PLeaf.real.containsAllDtype T d = some true) ∧
    (PLeaf.real.containsAllDtype T d = some true →
      PLeaf.complex.containsAllDtype T d = some true) := by
  cases d <;> simp [PLeaf.containsAllDtype, OdlModel.Gen.DTypes.tables,
    OdlModel.Gen.DTypes.isReal, OdlModel.Gen.DTypes.isNumeric, OdlModel.Gen.DTypes.isInt]

/-- Membership in composites, for members that are themselves composites nested to any depth:
`x in SetUnion(…)` iff `x` is in some member, `x in SetIntersection(…)` iff in all members
(empty union: nothing, empty intersection: everything), `x in CartesianProduct(…)` iff `x` has a
`len` (sequence, or a string: its characters), the right length, and its i-th item is in the
i-th member.  (Characterisation of the recursive `any` / `all` / `zip` loops; stream `mem/*`.) -/
theorem C20.composite_mem_iff (ms : List PSet) (v : Val) :
    ((PSet.union ms).mem v = true ↔ ∃ s ∈ ms, s.mem v = true) ∧
    ((PSet.inter ms).mem v = true ↔ ∀ s ∈ ms, s.mem v = true) ∧
    ((PSet.cartesian ms).mem v = true ↔
      ∃ ps, v.items? = some ps ∧ List.Forall₂ (fun s p => s.mem p = true) ms ps) := by
  refine ⟨by simp [PSet.mem, memAny_iff], by simp [PSet.mem, memAll_iff], ?_⟩
  simp only [PSet.mem]
  cases hv : v.items? with
  | none => simp
  | some ps =>
    simp only [Bool.and_eq_true, decide_eq_true_eq, Option.some.injEq, exists_eq_left']
    constructor
    · rintro ⟨hl, hz⟩; exact (memZip_iff ms ps hl).1 hz
    · intro hf
      have hl : ps.length = ms.length := (forall2_length hf).symm
      exact ⟨hl, (memZip_iff ms ps hl).2 hf⟩

/-- Membership is coherent with `SetUnion.__eq__` / `SetIntersection.__eq__` (mutual inclusion of
the member tuples): two unions (intersections) whose member tuples contain the same members —
in any order, with any multiplicity — have exactly the same elements.  (For members with a
`__contains__` that may raise, the real code's `any` makes this order-dependent: finding
C20-F14; such members are outside the model.) -/
theorem C20.composite_mem_order_irrelevant (a b : List PSet) (h : ∀ s, s ∈ a ↔ s ∈ b)
    (v : Val) :
    (PSet.union a).mem v = (PSet.union b).mem v ∧ (PSet.inter a).mem v = (PSet.inter b).mem v := by
  have h1 := (C20.composite_mem_iff a v)
  have h2 := (C20.composite_mem_iff b v)
  constructor
  · rw [Bool.eq_iff_iff, h1.1, h2.1]; simp [h]
  · rw [Bool.eq_iff_iff, h1.2.1, h2.2.1]; simp [h]

/-- Sensitivity (the defect C20-F13, repaired in /repo 1a77968), on the model of the OLD
`__contains__` (`intervalMemOld`, not executed): the NumPy complex scalar
`np.complex64(0.5+1j)` WAS reported as a member of `IntervalProd(0, 1)` (its imaginary part was
discarded by `np.array(other, dtype=float)`) while the equal Python `complex` was not, also
inside a sequence; the current model rejects both. -/
theorem C20.old_interval_mem_numpy_complex_fails :
    intervalMemOld [0] [1] (.sc (.cplx (1/2) 1 true)) = true ∧
    intervalMemOld [0] [1] (.sc (.cplx (1/2) 1 false)) = false ∧
    (Scalar.cplx (1/2) 1 true).pyEq (.cplx (1/2) 1 false) = true ∧
    intervalMemOld [0, 0] [1, 1] (.tuple [.sc (.real (1/2)), .sc (.cplx (1/2) 2 true)]) = true ∧
    (PLeaf.interval [0] [1]).mem (.sc (.cplx (1/2) 1 true)) = false ∧
    (PLeaf.interval [0, 0] [1, 1]).mem (.tuple [.sc (.real (1/2)), .sc (.cplx (1/2) 2 true)]) = false := by
  decide +kernel

/-- Since the repair of C20-F13 every member of an interval product is a real number or a
sequence of real numbers (`bool`, `int`, `float` and their NumPy counterparts) of the right
length — no complex value, `None`, text or nested sequence is ever a member. -/
theorem C20.interval_mem_real (lo hi : List Rat) (v : Val)
    (h : (PLeaf.interval lo hi).mem v = true) :
    (∃ s x, v = .sc s ∧ s.real? = some x ∧ lo.length = 1) ∨
    (∃ vs p, v = .tuple vs ∧ vs.mapM Val.coord? = some p ∧ p.length = lo.length) := by
  cases v with
  | sc s =>
    left
    simp only [PLeaf.mem, intervalMem, Scalar.floatConv?] at h
    cases hs : s.real? with
    | none => simp [hs] at h
    | some x => simp only [hs, Bool.and_eq_true, decide_eq_true_eq] at h; exact ⟨s, x, rfl, hs, h.1⟩
  | tuple vs =>
    right
    simp only [PLeaf.mem, intervalMem] at h
    cases hs : vs.mapM Val.coord? with
    | none => simp [hs] at h
    | some p => simp only [hs, Bool.and_eq_true, decide_eq_true_eq] at h; exact ⟨vs, p, rfl, hs, h.1⟩

/-- Counterexamples on the model of the current code: (finding C20-F15) `IntervalProd(0,
1).contains_set(IntervalProd([], []))` is `True` although `()` is in the second and not in the
first; and the `self is other` shortcut is observable: with `atol = -0.25` an interval product
contains ITSELF but not an equal copy. -/
theorem C20.contains_set_zero_dim_fails :
    PLeaf.containsSet 0 false (.interval [0] [1]) (.interval [] []) = some true ∧
    (PLeaf.interval [] []).mem (.tuple []) = true ∧
    (PLeaf.interval [0] [1]).mem (.tuple []) = false ∧
    PLeaf.containsSet (-1/4) true (.interval [0] [1]) (.interval [0] [1]) = some true ∧
    PLeaf.containsSet (-1/4) false (.interval [0] [1]) (.interval [0] [1]) = some false := by
  decide +kernel

/-- non-vacuity of `C20.contains_set_sound`: `[0,2]×[0,2] ⊇ [1/2,1]×[0,2]` and a NumPy float
pair in the smaller box -/
example : PLeaf.containsSet 0 false (.interval [0, 0] [2, 2]) (.interval [1/2, 0] [1, 2]) = some true ∧
    (PLeaf.interval [1/2, 0] [1, 2]).mem (.tuple [.sc (.real (3/4)), .sc (.int 2)]) = true := by
  decide +kernel

/-- non-vacuity of the composite theorems: a Cartesian product nested in a union -/
example : (PSet.union [.leaf .integers, .cartesian [.leaf .real, .union [.leaf (.strings 1),
      .leaf (.finite [.pynone])]]]).mem (.tuple [.sc (.real (1/2)), .sc .pynone]) = true := by
  decide +kernel

/-! ## round 5: `IntervalProd.approx_equals` -/

/-- `IntervalProd.approx_equals` (since /repo b059927) between ANY two interval products — any
and mixed dimensions, finite bounds, distinct objects; the only hypotheses are the constructor
invariants `len(min_pt) == len(max_pt)`: it never raises; at `atol = 0` it is exactly `__eq__`
(equal end points, in particular equal dimension); it is symmetric for every `atol`, reflexive
for `atol ≥ 0` and monotone in `atol`.  Executed definition `intervalApproxEq` (driver op
`approxeq`, streams `approxeq/same-ndim/*` and `approxeq/other-ndim/*`). -/
theorem C20.interval_approx_equals_laws (lo hi lo' hi' : List Rat)
    (h1 : hi.length = lo.length) (h2 : hi'.length = lo'.length) :
    (∀ atol, (intervalApproxEq atol lo hi lo' hi').isSome = true) ∧
    (intervalApproxEq 0 lo hi lo' hi' = some true ↔ lo = lo' ∧ hi = hi') ∧
    (∀ atol, intervalApproxEq atol lo hi lo' hi' = intervalApproxEq atol lo' hi' lo hi) ∧
    (∀ atol, 0 ≤ atol → intervalApproxEq atol lo hi lo hi = some true) ∧
    (∀ atol atol', atol ≤ atol' → intervalApproxEq atol lo hi lo' hi' = some true →
      intervalApproxEq atol' lo hi lo' hi' = some true) := by
  by_cases e1 : lo.length = lo'.length
  · have e2 : hi.length = hi'.length := by omega
    have form : ∀ atol, intervalApproxEq atol lo hi lo' hi' =
        some (closeAll atol lo lo' && closeAll atol hi hi') := by
      intro atol
      simp only [intervalApproxEq, intervalApproxEqOld, npAllClose, e1, e2, if_true]
      cases closeAll atol lo lo' <;> simp
    have form' : ∀ atol, intervalApproxEq atol lo' hi' lo hi =
        some (closeAll atol lo' lo && closeAll atol hi' hi) := by
      intro atol
      simp only [intervalApproxEq, intervalApproxEqOld, npAllClose, e1.symm, e2.symm, if_true]
      cases closeAll atol lo' lo <;> simp
    refine ⟨fun atol => by simp [form], ?_, ?_, ?_, ?_⟩
    · rw [form]; simp [closeAll_zero lo lo' e1, closeAll_zero hi hi' e2]
    · intro atol; rw [form, form', closeAll_symm atol lo lo', closeAll_symm atol hi hi']
    · intro atol ha
      simp [intervalApproxEq, intervalApproxEqOld, npAllClose, closeAll_refl atol ha]
    · intro atol atol' hle
      rw [form, form]
      simp only [Option.some.injEq, Bool.and_eq_true]
      rintro ⟨a, b⟩
      exact ⟨closeAll_mono hle _ _ a, closeAll_mono hle _ _ b⟩
  · have e1' : ¬ lo'.length = lo.length := fun h => e1 h.symm
    have ne : ¬ (lo = lo' ∧ hi = hi') := fun h => e1 (by rw [h.1])
    refine ⟨fun atol => by simp [intervalApproxEq, e1], ?_, ?_, ?_, ?_⟩
    · simp [intervalApproxEq, e1, ne]
    · intro atol; simp [intervalApproxEq, e1, e1']
    · intro atol ha
      simp [intervalApproxEq, intervalApproxEqOld, npAllClose, closeAll_refl atol ha]
    · intro atol atol' _ h; simp [intervalApproxEq, e1] at h

/-- Sensitivity (the defect C20-F18, repaired in /repo b059927), on the model of the OLD
`approx_equals` without the `ndim` guard (`intervalApproxEqOld`): a 2-d against a 3-d interval
product RAISED and a 1-d interval product was "approximately equal" to a 2-d one by NumPy
broadcasting; the current model answers `False` for both.  Last three parts (no defect, a limit
of the notion, about the CURRENT model): for `atol > 0` `approx_equals` is not transitive. -/
theorem C20.interval_approx_equals_ndim_fails :
    intervalApproxEqOld 9 [0, 0] [1, 1] [0, 0, 0] [1, 1, 1] = none ∧
    intervalApproxEqOld 9 [3/4] [3/4] [0, 0] [1, 1] = some true ∧
    intervalApproxEq 9 [0, 0] [1, 1] [0, 0, 0] [1, 1, 1] = some false ∧
    intervalApproxEq 9 [3/4] [3/4] [0, 0] [1, 1] = some false ∧
    intervalApproxEq (1/4) [0] [1] [1/4] [1] = some true ∧
    intervalApproxEq (1/4) [1/4] [1] [1/2] [1] = some true ∧
    intervalApproxEq (1/4) [0] [1] [1/2] [1] = some false := by
  decide +kernel

/-- non-vacuity: `[0,1]×[0,2]` and the same box shifted by 1/8 in one end point at `atol = 1/4` -/
example : intervalApproxEq (1/4) [0, 0] [1, 2] [0, 1/8] [1, 2] = some true := by decide +kernel
