/-
C15 — sampling and interpolation reproduce the function at the nodes and between them.
Property theorems only; the model is `OdlModel/Model/Interp.lean`, helper lemmas are in
`OdlModel/Lemmas/Interp.lean`.  `K` is any linearly ordered field (ℚ, ℝ: every finite float
is a rational), `V` any `K`-module (real or complex values).
-/
import OdlModel.Model.Interp
import OdlModel.Lemmas.Interp
import Mathlib.Tactic.Ring
import Mathlib.Tactic.Linarith
import Mathlib.Tactic.FieldSimp
import Mathlib.Algebra.Order.Field.Basic
import Mathlib.Algebra.Order.AbsoluteValue.Basic
import Mathlib.Algebra.Module.Defs

open OdlModel.Interp

section
variable {K : Type} [Field K] [LinearOrder K] [IsStrictOrderedRing K]

/-- `_NearestInterpolator`, one axis, ANY evaluation point (inside or outside the grid), any
strictly increasing (uniform or not) coordinate vector with at least two nodes: the selected
node is a closest one, and among equally close nodes it is the right-most ("ties go right").
Outside the hull this is clamping to the first / last node. -/
theorem C15.nearest_is_closest (c : Nat → K) (n : Nat) (p : K) (h : Incr c n) (hn : 2 ≤ n) :
    nearestIndex c n p < n ∧
    ∀ k, k < n → |p - c (nearestIndex c n p)| ≤ |p - c k| ∧
      (|p - c k| = |p - c (nearestIndex c n p)| → k ≤ nearestIndex c n p) := by
  have hilt := findIndex_lt c n p hn
  have hd : 0 < c (findIndex c n p + 1) - c (findIndex c n p) := by
    have := h (findIndex c n p) (findIndex c n p + 1) (by omega) hilt
    linarith
  -- distances to nodes on either side
  have left : ∀ k, k < n → c k ≤ p → |p - c k| = p - c k := fun k _ hk =>
    abs_of_nonneg (by linarith)
  have right : ∀ k, k < n → p ≤ c k → |p - c k| = c k - p := fun k _ hk => by
    rw [abs_of_nonpos (by linarith)]; ring
  by_cases hlo : p ≤ c 0
  · -- below the first node
    have hi := findIndex_low c n p h hn hlo
    have hj : nearestIndex c n p = 0 := by
      simp only [nearestIndex, hi, normDist]
      rw [if_pos]
      rw [hi] at hd
      have : (p - c 0) / (c (0 + 1) - c 0) ≤ 0 := div_nonpos_of_nonpos_of_nonneg (by linarith) hd.le
      linarith [(by norm_num : (0:K) < 1 / 2)]
    rw [hj]
    refine ⟨by omega, fun k hk => ?_⟩
    have hck : c 0 ≤ c k := h.mono (Nat.zero_le k) hk
    rw [right 0 (by omega) hlo, right k hk (by linarith)]
    refine ⟨by linarith, fun heq => ?_⟩
    by_contra hne
    have := h 0 k (by omega) hk
    linarith
  · push Not at hlo
    by_cases hhi : c (n - 1) < p
    · -- above the last node
      have hi := findIndex_high c n p h hn hhi
      have hj : nearestIndex c n p = n - 1 := by
        simp only [nearestIndex, hi, normDist]
        have e : n - 2 + 1 = n - 1 := by omega
        rw [hi, e] at hd
        rw [if_neg, e]
        rw [e, not_lt, div_le_div_iff₀ (by norm_num) hd]
        linarith
      rw [hj]
      refine ⟨by omega, fun k hk => ?_⟩
      have hck : c k ≤ c (n - 1) := h.mono (by omega) (by omega)
      rw [left (n - 1) (by omega) hhi.le, left k hk (by linarith)]
      exact ⟨by linarith, fun _ => by omega⟩
    · push Not at hhi
      obtain ⟨h1, h2⟩ := findIndex_inside c n p h hn hlo hhi
      obtain ⟨i, hi⟩ : ∃ i, findIndex c n p = i := ⟨_, rfl⟩
      rw [hi] at h1 h2 hd hilt
      have hnd : normDist c i p < 1 / 2 ↔ p - c i < c (i + 1) - p := by
        unfold normDist
        rw [div_lt_div_iff₀ hd (by norm_num)]
        constructor <;> intro hh <;> linarith
      have below : ∀ k, k < n → k ≤ i → |p - c k| = p - c k ∧ p - c i ≤ p - c k := fun k hk hki => by
        have : c k ≤ c i := h.mono hki (by omega)
        exact ⟨left k hk (by linarith), by linarith⟩
      have above : ∀ k, k < n → i + 1 ≤ k → |p - c k| = c k - p ∧ c (i + 1) - p ≤ c k - p :=
        fun k hk hki => by
          have : c (i + 1) ≤ c k := h.mono hki hk
          exact ⟨right k hk (by linarith), by linarith⟩
      by_cases hlt : normDist c i p < 1 / 2
      · have hj : nearestIndex c n p = i := by simp only [nearestIndex, hi, hlt, if_true]
        rw [hj]
        have hlt' := hnd.mp hlt
        refine ⟨by omega, fun k hk => ?_⟩
        rw [(below i (by omega) (le_refl _)).1]
        by_cases hki : k ≤ i
        · obtain ⟨e, hle⟩ := below k hk hki
          rw [e]; exact ⟨hle, fun _ => hki⟩
        · obtain ⟨e, hle⟩ := above k hk (by omega)
          rw [e]; exact ⟨by linarith, fun heq => by linarith⟩
      · have hj : nearestIndex c n p = i + 1 := by simp only [nearestIndex, hi, hlt, if_false]
        rw [hj]
        have hge : c (i + 1) - p ≤ p - c i := by
          by_contra hh; exact hlt (hnd.mpr (by linarith))
        refine ⟨by omega, fun k hk => ?_⟩
        rw [(above (i + 1) (by omega) (le_refl _)).1]
        by_cases hki : k ≤ i
        · obtain ⟨e, hle⟩ := below k hk hki
          rw [e]; exact ⟨by linarith, fun _ => by omega⟩
        · obtain ⟨e, hle⟩ := above k hk (by omega)
          rw [e]
          refine ⟨hle, fun heq => ?_⟩
          by_contra hne
          have := h (i + 1) k (by omega) hk
          linarith

end
