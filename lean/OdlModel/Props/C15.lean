/-
C15 — sampling and interpolation reproduce the function at the nodes and between them.
Property theorems only; the model is `OdlModel/Model/Interp.lean` (it follows
`odl/discr/discr_utils.py` as it is and is tied to it by the correspondence check on every
run), helper lemmas are in `OdlModel/Lemmas/Interp.lean`.

`K` is any linearly ordered field (ℚ, ℝ; every finite float is a rational), `V` any
`K`-module (real or complex values); for the pure index rule of `_NearestInterpolator` the
value type is arbitrary (integers, strings).  All statements hold for every dimension
(`axes : List (Axis K)`), every node count `n ≥ 2`, every strictly increasing (uniform or
non-uniform) coordinate vector and every value array.
-/
import OdlModel.Model.Interp
import OdlModel.Lemmas.Interp
import OdlModel.Gen.InterpEdges
import OdlModel.Model.Sampling
import OdlModel.Lemmas.Sampling
import Mathlib.Tactic.Ring
import Mathlib.Tactic.Linarith
import Mathlib.Tactic.Module
import Mathlib.Tactic.FieldSimp
import Mathlib.Tactic.NormNum
import Mathlib.Algebra.Order.Field.Basic
import Mathlib.Algebra.Order.AbsoluteValue.Basic
import Mathlib.Algebra.Module.Defs

set_option linter.unusedSectionVars false

namespace OdlModel.C15
open OdlModel.Interp

/-- The grid point with multi-index `idx`. -/
def gridPoint {K : Type} (axes : List (Axis K)) (idx : List Nat) : List K :=
  List.zipWith (fun a i => a.c i) axes idx

/-- `idx` is a valid multi-index of the grid. -/
def ValidIdx {K : Type} (axes : List (Axis K)) (idx : List Nat) : Prop :=
  List.Forall₂ (fun a i => i < a.n) axes idx

/-- `p` has one coordinate per axis and lies in the hull `[c 0, c (n-1)]` of every axis. -/
def InHull {K : Type} [LE K] (axes : List (Axis K)) (p : List K) : Prop :=
  List.Forall₂ (fun a x => a.c 0 ≤ x ∧ x ≤ a.c (a.n - 1)) axes p

/-- The affine function `a0 + Σ_j x_j • b_j` of the coordinates. -/
def affineAt {K V : Type} [Add V] [SMul K V] (a0 : V) : List K → List V → V
  | x :: xs, b :: bs => x • b + affineAt a0 xs bs
  | _, _ => a0

/-- Domain axes of a refinement: per axis `(lo, hi, n, k)` — `n` cells on `[lo, hi]`. -/
def refineDom {K : Type} [Add K] [Sub K] [Mul K] [Div K] [NatCast K] [OfNat K 1] [OfNat K 2]
    (specs : List (K × K × Nat × Nat)) : List (Axis K) :=
  specs.map (fun s => uniformAxis s.1 s.2.1 s.2.2.1 .nearest)
/-- Range axes of a refinement: `k * n` cells on the same interval. -/
def refineRan {K : Type} [Add K] [Sub K] [Mul K] [Div K] [NatCast K] [OfNat K 1] [OfNat K 2]
    (specs : List (K × K × Nat × Nat)) : List (Axis K) :=
  specs.map (fun s => uniformAxis s.1 s.2.1 (s.2.2.2 * s.2.2.1) .nearest)
/-- All multi-indices of the grid in C order (first axis slowest). -/
def allIdx {K : Type} (axes : List (Axis K)) : List (List Nat) :=
  cartesian (axes.map (fun a => List.range a.n))

end OdlModel.C15

open OdlModel OdlModel.Interp OdlModel.C15 OdlModel.Gen.Interp

section
variable {K : Type} [Field K] [LinearOrder K] [IsStrictOrderedRing K]
variable {V : Type} [AddCommGroup V] [Module K V]

/-- `_NearestInterpolator`, one axis, ANY evaluation point (inside or outside the grid), any
strictly increasing (uniform or not) coordinate vector with at least two nodes: the selected
node is a closest one, and among equally close nodes it is the right-most ("ties go right").
Outside the hull this is clamping to the first / last node. -/
theorem C15.nearest_is_closest (c : Nat → K) (n : Nat) (p : K) (h : Incr c n) (hn : 2 ≤ n) :
    nearestIndex c n p < n ∧
    ∀ k, k < n → |p - c (nearestIndex c n p)| ≤ |p - c k| ∧
      (|p - c k| = |p - c (nearestIndex c n p)| → k ≤ nearestIndex c n p) :=
  nearestIndex_closest c n p h hn

/-- Non-vacuity: non-uniform nodes 0, 1, 4, 9; the exact midpoint 5/2 of the cell [1, 4] goes
to the right node (index 2). -/
example : Incr (fun i => ((i * i : Nat) : ℚ)) 4 ∧
    nearestIndex (fun i => ((i * i : Nat) : ℚ)) 4 (5 / 2) = 2 := by
  refine ⟨?_, ?_⟩
  · exact incr_sq 4
  · norm_num [nearestIndex, findIndex, searchLeft, normDist]

/-- In any dimension the per-axis interpolator with the nearest scheme on an axis is the
interpolator of the remaining axes applied to the slice through the closest node of that
axis (`_compute_nearest_weights_edge` selects the same node as the index rule), for every
coordinate, inside or outside. -/
theorem C15.peraxis_nearest_axis (a : Axis K) (ha : a.Good) (hs : a.scheme = .nearest)
    (as : List (Axis K)) (v : List Nat → V) (x : K) (xs : List K) :
    perAxisInterp (a :: as) v (x :: xs) =
      perAxisInterp as (fun idx => v (nearestIndex a.c a.n x :: idx)) xs := by
  rw [perAxisInterp_cons]
  exact nearest_edge_select a ha hs x (fun k => perAxisInterp as (fun idx => v (k :: idx)) xs)

/-- `per_axis_interpolator(…, 'nearest')` (used by `Resampling` and `linear_deform`) and
`nearest_interpolator` agree at every point, in every dimension. -/
theorem C15.nearest_paths_agree (axes : List (Axis K))
    (hg : ∀ a ∈ axes, a.Good ∧ a.scheme = .nearest) (v : List Nat → V) (p : List K) :
    perAxisInterp axes v p = nearestInterp axes v p := by
  induction axes generalizing v p with
  | nil => simp [perAxisInterp_nil, nearestInterp]
  | cons a as ih =>
    cases p with
    | nil => simp [perAxisInterp, perAxisEval_nil, nearestInterp]
    | cons x xs =>
      have h := hg a (by simp)
      rw [C15.peraxis_nearest_axis a h.1 h.2, ih (fun b hb => hg b (by simp [hb]))]
      simp [nearestInterp]

/-- The dispatch inside `per_axis_interpolator` (all axes nearest ↦ `_NearestInterpolator`,
introduced by the repair of finding C15-F8) does not change any value: it agrees with the
generic per-axis evaluator wherever that one is defined, at every point, in every dimension. -/
theorem C15.peraxis_dispatch_agrees (axes : List (Axis K)) (hg : ∀ a ∈ axes, a.Good)
    (v : List Nat → V) (p : List K) :
    perAxisInterpolator axes v p = perAxisInterp axes v p := by
  unfold perAxisInterpolator allNearest
  split
  · rename_i h
    refine (C15.nearest_paths_agree axes (fun a ha => ⟨hg a ha, ?_⟩) v p).symm
    have := List.all_eq_true.mp h a ha
    simpa using this
  · rfl

/-- Linear axis, point in the hull: the weights are the barycentric coordinates of the point
in its cell — they sum to one, lie in `[0, 1]`, refer to two adjacent nodes enclosing the
point and reproduce the point itself. -/
theorem C15.linear_weights (a : Axis K) (ha : a.Good) (hs : a.scheme = .linear) (p : K)
    (hlo : a.c 0 ≤ p) (hhi : p ≤ a.c (a.n - 1)) :
    (a.edge p).wlo + (a.edge p).whi = 1 ∧ 0 ≤ (a.edge p).wlo ∧ 0 ≤ (a.edge p).whi ∧
    (a.edge p).ehi = (a.edge p).elo + 1 ∧ (a.edge p).ehi < a.n ∧
    a.c (a.edge p).elo ≤ p ∧ p ≤ a.c (a.edge p).ehi ∧
    (a.edge p).wlo * a.c (a.edge p).elo + (a.edge p).whi * a.c (a.edge p).ehi = p := by
  obtain ⟨i, t, hi, h1, h2, ht0, ht1, ht, _, he⟩ := linear_edge_inside a ha hs p hlo hhi
  rw [he]
  refine ⟨by ring, by linarith, ht0, rfl, hi, h1, h2, ?_⟩
  linear_combination ht

/-- Linear axis, point in the hull, any dimension: the interpolant is the blend
`(1 - t)·(lower slice) + t·(upper slice)` of the interpolants of the remaining axes on the two
surrounding node slices, `t` the relative position in the cell.  Together with
`peraxis_nearest_axis` and `perAxisInterp [] v [] = v []` this characterises the per-axis
mixed interpolant as the multilinear blend of the surrounding nodes. -/
theorem C15.linear_blend (a : Axis K) (ha : a.Good) (hs : a.scheme = .linear)
    (as : List (Axis K)) (v : List Nat → V) (x : K) (xs : List K)
    (hlo : a.c 0 ≤ x) (hhi : x ≤ a.c (a.n - 1)) :
    ∃ i t, i + 1 < a.n ∧ a.c i ≤ x ∧ x ≤ a.c (i + 1) ∧ 0 ≤ t ∧ t ≤ 1 ∧
      x = (1 - t) * a.c i + t * a.c (i + 1) ∧
      perAxisInterp (a :: as) v (x :: xs) =
        (1 - t) • perAxisInterp as (fun idx => v (i :: idx)) xs +
        t • perAxisInterp as (fun idx => v ((i + 1) :: idx)) xs := by
  obtain ⟨i, t, hi, h1, h2, ht0, ht1, ht, _, he⟩ := linear_edge_inside a ha hs x hlo hhi
  refine ⟨i, t, hi, h1, h2, ht0, ht1, by linear_combination -ht, ?_⟩
  rw [perAxisInterp_cons, he]

/-- Node values are reproduced exactly: at the grid point of any valid multi-index both
`_PerAxisInterpolator` (any mix of schemes per axis: `linear_interpolator`,
`per_axis_interpolator`) and `_NearestInterpolator` return the stored value, in every
dimension and for non-uniform coordinates. -/
theorem C15.interp_node_exact (axes : List (Axis K)) (hg : ∀ a ∈ axes, a.Good)
    (idx : List Nat) (hidx : ValidIdx axes idx) :
    (∀ v : List Nat → V, perAxisInterp axes v (gridPoint axes idx) = v idx) ∧
    (∀ (W : Type) (v : List Nat → W), nearestInterp axes v (gridPoint axes idx) = v idx) := by
  constructor
  · induction hidx with
    | nil => intro v; simp [gridPoint, perAxisInterp_nil]
    | @cons a i as is hi _ ih =>
      intro v
      have ih' := ih (fun b hb => hg b (by simp [hb]))
      simp only [gridPoint, List.zipWith_cons_cons] at ih' ⊢
      rw [perAxisInterp_cons]
      have := axis_node a (hg a (by simp)) i hi
        (fun k => perAxisInterp as (fun idx => v (k :: idx)) (List.zipWith (fun a i => a.c i) as is))
      rw [this, ih']
  · intro W v
    have : List.zipWith (fun a x => nearestIndex a.c a.n x) axes (gridPoint axes idx) = idx := by
      induction hidx with
      | nil => simp [gridPoint]
      | @cons a i as is hi _ ih =>
        have ha := hg a (by simp)
        simp only [gridPoint, List.zipWith_cons_cons] at ih ⊢
        rw [nearestIndex_node a.c a.n ha.incr ha.two i hi, ih (fun b hb => hg b (by simp [hb]))]
    simp only [nearestInterp, this]

/-- Non-vacuity: a 2-d grid (3 × 2 nodes, first axis non-uniform 0,1,4, second 0,1), mixed
schemes (linear, nearest); the node (2,1) is valid and reproduced. -/
example : let ax : List (Axis ℚ) := [⟨3, fun i => ((i * i : Nat) : ℚ), .linear⟩, ⟨2, fun i => (i : ℚ), .nearest⟩]
    (∀ a ∈ ax, a.Good) ∧ ValidIdx ax [2, 1] ∧ gridPoint ax [2, 1] = [4, 1] := by
  intro ax
  refine ⟨?_, ?_, ?_⟩
  · intro a ha
    simp only [ax, List.mem_cons, List.mem_nil_iff, or_false] at ha
    rcases ha with rfl | rfl
    · exact ⟨by simp, incr_sq 3⟩
    · exact ⟨by simp, incr_id 2⟩
  · exact .cons (by simp) (.cons (by simp) .nil)
  · norm_num [ax, gridPoint]

/-- Linear interpolation is exact for affine functions anywhere inside the grid: if the stored
values are `a0 + Σ_j c_j(idx_j) • b_j` at every valid multi-index, then at every point `p` of
the hull `linear_interpolator` returns `a0 + Σ_j p_j • b_j` — any dimension, any strictly
increasing (non-uniform) coordinate vectors, real or complex values. -/
theorem C15.linear_affine_exact (axes : List (Axis K))
    (hg : ∀ a ∈ axes, a.Good ∧ a.scheme = .linear) (a0 : V) (bs : List V)
    (hb : bs.length = axes.length) (v : List Nat → V)
    (hv : ∀ idx, ValidIdx axes idx → v idx = affineAt a0 (gridPoint axes idx) bs)
    (p : List K) (hp : InHull axes p) :
    perAxisInterp axes v p = affineAt a0 p bs := by
  have affineAt_add : ∀ (y a0 : V) (xs : List K) (bs : List V),
      y + affineAt a0 xs bs = affineAt (y + a0) xs bs := by
    intro y a0 xs
    induction xs with
    | nil => intro bs; simp [affineAt]
    | cons x xs ih =>
      intro bs
      cases bs with
      | nil => simp [affineAt]
      | cons b bs => simp only [affineAt, ← ih]; exact add_left_comm _ _ _
  induction hp generalizing v a0 bs with
  | nil =>
    rw [perAxisInterp_nil, hv [] .nil]
    simp [gridPoint, affineAt]
  | @cons a x as xs hx _ ih =>
    obtain ⟨ha, hs⟩ := hg a (by simp)
    cases bs with
    | nil => simp at hb
    | cons b bs =>
      obtain ⟨i, t, hi, _, _, _, _, hxe, hstep⟩ :=
        C15.linear_blend a ha hs as v x xs hx.1 hx.2
      have slice : ∀ k, k < a.n →
          perAxisInterp as (fun idx => v (k :: idx)) xs = a.c k • b + affineAt a0 xs bs := by
        intro k hk
        rw [affineAt_add]
        apply ih (fun c hc => hg c (by simp [hc])) _ _ (by simpa using hb)
        intro idx hidx
        rw [hv (k :: idx) (.cons hk hidx), ← affineAt_add]
        simp [gridPoint, affineAt]
      rw [hstep, slice i (by omega), slice (i + 1) hi]
      simp only [affineAt]
      rw [hxe]
      module

/-- Non-vacuity for `linear_affine_exact`: the hypotheses are met by a 2-d non-uniform grid
with the values of `1 + 2x - 3y`, and an interior non-node point. -/
example : let ax : List (Axis ℚ) := [⟨3, fun i => ((i * i : Nat) : ℚ), .linear⟩, ⟨2, fun i => (i : ℚ), .linear⟩]
    InHull ax [5 / 2, 1 / 3] ∧ affineAt (1 : ℚ) [5 / 2, 1 / 3] [(2 : ℚ), -3] = 5 := by
  intro ax
  refine ⟨.cons (by norm_num) (.cons (by norm_num) .nil), ?_⟩
  norm_num [affineAt]

/-- Outside behaviour as coded (the documented zero extension): below the first node of a
linear axis the interpolant is the first-node slice scaled by `1 - dist/h₀`, above the last
node the last-node slice scaled by `1 - dist/h_last` (`h` the width of the adjacent cell): a
linear decay that reaches `0` one cell outside (and, as coded, continues with negative
weights beyond). -/
theorem C15.outside_zero_extension (a : Axis K) (ha : a.Good) (hs : a.scheme = .linear)
    (as : List (Axis K)) (v : List Nat → V) (x : K) (xs : List K) :
    (x < a.c 0 → perAxisInterp (a :: as) v (x :: xs) =
        (1 - (a.c 0 - x) / (a.c 1 - a.c 0)) • perAxisInterp as (fun idx => v (0 :: idx)) xs) ∧
    (a.c (a.n - 1) < x → perAxisInterp (a :: as) v (x :: xs) =
        (1 - (x - a.c (a.n - 1)) / (a.c (a.n - 1) - a.c (a.n - 2))) •
          perAxisInterp as (fun idx => v ((a.n - 1) :: idx)) xs) := by
  constructor
  · intro hx
    rw [perAxisInterp_cons, linear_edge_low a ha hs x hx]
    simp only [zero_smul, zero_add]
    congr 1; ring
  · intro hx
    have hn := ha.two
    have hd : a.c (a.n - 1) - a.c (a.n - 2) ≠ 0 := by
      have := ha.incr (a.n - 2) (a.n - 1) (by omega) (by omega)
      intro h; linarith
    rw [perAxisInterp_cons, linear_edge_high a ha hs x hx]
    simp only [zero_smul, add_zero]
    congr 1; field_simp; ring

/-- Outside a nearest axis the per-axis interpolator clamps to the end node (special case of
`peraxis_nearest_axis` and `nearest_is_closest`): stated for the record on the index. -/
theorem C15.nearest_outside_clamps (c : Nat → K) (n : Nat) (p : K) (h : Incr c n) (hn : 2 ≤ n) :
    (p ≤ c 0 → nearestIndex c n p = 0) ∧ (c (n - 1) ≤ p → nearestIndex c n p = n - 1) := by
  obtain ⟨hj, hcl⟩ := nearestIndex_closest c n p h hn
  constructor
  · intro hp
    by_contra hne
    have h0 := (hcl 0 (by omega)).1
    have hc := h 0 _ (Nat.pos_of_ne_zero hne) hj
    rw [abs_of_nonpos (by linarith), abs_of_nonpos (by linarith)] at h0
    linarith
  · intro hp
    by_contra hne
    have h0 := (hcl (n - 1) (by omega)).1
    have hc := h (nearestIndex c n p) (n - 1) (by omega) (by omega)
    rw [abs_of_nonneg (by linarith), abs_of_nonneg (by linarith)] at h0
    linarith

/-- The corner loop of `_PerAxisInterpolator._evaluate` as executed (`perAxisEval`: a left fold
over the `2^d` corners in `itertools.product` order, each weight built up from `1` by left
multiplication, `out += values[edge] * weight`) is the tensor product of the per-axis two-point
rules, for every dimension `d` and every edge list: the order of the `2^d` summands and of the
weight factors does not matter. -/
theorem C15.corner_loop_is_tensor_product (e : Edge K) (es : List (Edge K)) (v : List Nat → V) :
    perAxisEval ([] : List (Edge K)) v = v [] ∧
    perAxisEval (e :: es) v =
      e.wlo • perAxisEval es (fun idx => v (e.elo :: idx)) +
      e.whi • perAxisEval es (fun idx => v (e.ehi :: idx)) :=
  ⟨perAxisEval_nil v, perAxisEval_cons e es v⟩

/-- Non-vacuity: in two dimensions the loop visits the four corners in the order
(l,l), (l,h), (h,l), (h,h) with the weights `(1·w₀)·w₁`. -/
example (v : List Nat → ℚ) :
    cornerTerms [(⟨1 / 4, 3 / 4, 0, 1⟩ : Edge ℚ), ⟨1 / 2, 1 / 2, 2, 3⟩] 1 v =
      [(1 * (1 / 4) * (1 / 2), v [0, 2]), (1 * (1 / 4) * (1 / 2), v [0, 3]),
       (1 * (3 / 4) * (1 / 2), v [1, 2]), (1 * (3 / 4) * (1 / 2), v [1, 3])] := rfl

/-- Interpolation is linear in the value array — for every per-axis scheme mix, every
dimension, every evaluation point (inside or outside the grid) and without any hypothesis on
the coordinate vectors: `I(c•v + w)(p) = c•I(v)(p) + I(w)(p)`.  This is the linearity
`Resampling` declares (`linear=True`) and `linear_deform` has in its template argument. -/
theorem C15.interp_linear_in_values (axes : List (Axis K)) (c : K) (v w : List Nat → V)
    (p : List K) :
    perAxisInterp axes (fun idx => c • v idx + w idx) p =
      c • perAxisInterp axes v p + perAxisInterp axes w p := by
  unfold perAxisInterp
  exact perAxisEval_linear _ c v w

/-- Non-vacuity: an instance on a 2-d mixed-scheme grid over ℚ. -/
example (v w : List Nat → ℚ) :=
  C15.interp_linear_in_values
    [(⟨3, fun i => ((i * i : Nat) : ℚ), .linear⟩ : Axis ℚ), ⟨2, fun i => (i : ℚ), .nearest⟩]
    (-3) v w [5 / 2, 1 / 3]

/-- No overshoot (discrete maximum principle): inside the hull the interpolant of real data
stays between the smallest and the largest stored value — for every mix of linear and nearest
axes, every dimension, non-uniform coordinates.  (Linear weights are barycentric, nearest
weights select one node.)  Outside the hull it is false for the code as it is: the coded
zero extension of a linear axis leaves the range of the values. -/
theorem C15.interp_within_value_bounds {K : Type} [Field K] [LinearOrder K]
    [IsStrictOrderedRing K] (axes : List (Axis K)) (hg : ∀ a ∈ axes, a.Good)
    (v : List Nat → K) (m M : K)
    (hv : ∀ idx, ValidIdx axes idx → m ≤ v idx ∧ v idx ≤ M)
    (p : List K) (hp : InHull axes p) :
    m ≤ perAxisInterp axes v p ∧ perAxisInterp axes v p ≤ M := by
  induction hp generalizing v with
  | nil =>
    rw [perAxisInterp_nil]
    exact hv [] .nil
  | @cons a x as xs hx _ ih =>
    have ha := hg a (by simp)
    have hrest : ∀ b ∈ as, b.Good := fun b hb => hg b (by simp [hb])
    have slice : ∀ k, k < a.n →
        m ≤ perAxisInterp as (fun idx => v (k :: idx)) xs ∧
          perAxisInterp as (fun idx => v (k :: idx)) xs ≤ M :=
      fun k hk => ih hrest _ (fun idx hidx => hv (k :: idx) (.cons hk hidx))
    cases hs : a.scheme with
    | linear =>
      obtain ⟨i, t, hi, _, _, ht0, ht1, _, hstep⟩ := C15.linear_blend a ha hs as v x xs hx.1 hx.2
      obtain ⟨hA1, hA2⟩ := slice i (by omega)
      obtain ⟨hB1, hB2⟩ := slice (i + 1) hi
      rw [hstep]
      simp only [smul_eq_mul]
      have h1t : 0 ≤ 1 - t := by linarith
      constructor
      · nlinarith [mul_le_mul_of_nonneg_left hA1 h1t, mul_le_mul_of_nonneg_left hB1 ht0]
      · nlinarith [mul_le_mul_of_nonneg_left hA2 h1t, mul_le_mul_of_nonneg_left hB2 ht0]
    | nearest =>
      rw [C15.peraxis_nearest_axis a ha hs]
      exact slice _ (C15.nearest_is_closest a.c a.n x ha.incr ha.two).1

/-- Non-vacuity: the hypotheses hold on a 2-d non-uniform grid with mixed schemes, bounded data
and an interior non-node point. -/
example : let ax : List (Axis ℚ) := [⟨3, fun i => ((i * i : Nat) : ℚ), .linear⟩, ⟨2, fun i => (i : ℚ), .nearest⟩]
    (∀ a ∈ ax, a.Good) ∧ InHull ax [5 / 2, 1 / 3] ∧
    (∀ idx, ValidIdx ax idx →
      (0 : ℚ) ≤ (if idx.headD 0 % 2 = 0 then 0 else 1) ∧ (if idx.headD 0 % 2 = 0 then (0 : ℚ) else 1) ≤ 1) := by
  intro ax
  refine ⟨?_, .cons (by norm_num) (.cons (by norm_num) .nil), ?_⟩
  · intro a ha
    simp only [ax, List.mem_cons, List.mem_nil_iff, or_false] at ha
    rcases ha with rfl | rfl
    · exact ⟨by simp, incr_sq 3⟩
    · exact ⟨by simp, incr_id 2⟩
  · intro idx _
    split_ifs <;> norm_num

/-- Calling conventions — a statement about the MODEL's combination logic only: the model
evaluates the per-axis stage on each coordinate row and then combines the per-axis results
position-wise (`columns`, point array) resp. over the cartesian product (`cartesian`, mesh
grid); this theorem says that this equals mapping the single-point interpolant over the columns
resp. the product points (map commutes with the combinators).  That NumPy's fancy indexing
`values[edge]` with broadcast index arrays, `weight[vslice]`, `out_shape_from_meshgrid` and
`x.reshape([ndim, -1])` realise exactly these two combinations is NOT proved: it is part of the
trusted base and tested on every run (correspondence in all three conventions and the oracle
"calling conventions differ" on the real code). -/
theorem C15.call_convention_invariant (axes : List (Axis K)) (v : List Nat → V)
    (W : Type) (w : List Nat → W) (xs : List (List K)) (h : xs.length = axes.length) :
    perAxisArray axes v xs = (columns xs).map (perAxisInterp axes v) ∧
    perAxisMesh axes v xs = (cartesian xs).map (perAxisInterp axes v) ∧
    nearestArray axes w xs = (columns xs).map (nearestInterp axes w) ∧
    nearestMesh axes w xs = (cartesian xs).map (nearestInterp axes w) := by
  refine ⟨?_, ?_, ?_, ?_⟩
  · simp only [perAxisArray, columns_zipWith_map Axis.edge axes xs h, List.map_map]
    rfl
  · simp only [perAxisMesh, cartesian_zipWith_map Axis.edge axes xs h, List.map_map]
    rfl
  · simp only [nearestArray, columns_zipWith_map (fun a x => nearestIndex a.c a.n x) axes xs h,
      List.map_map]
    rfl
  · simp only [nearestMesh, cartesian_zipWith_map (fun a x => nearestIndex a.c a.n x) axes xs h,
      List.map_map]
    rfl

/-- Non-vacuity: two axes, a 2 x 3 mesh has 6 points in C order, three columns as points. -/
example : cartesian [[(1 : ℚ), 2], [3, 4, 5]] = [[1, 3], [1, 4], [1, 5], [2, 3], [2, 4], [2, 5]] ∧
    columns [[(1 : ℚ), 2, 3], [4, 5, 6]] = [[1, 4], [2, 5], [3, 6]] := by
  constructor <;> simp [cartesian, columns]

/-- The cast of the evaluation points in `_find_indices`, with the numeric guard and the
`casting=` rule EXTRACTED from the source and the hand-written NumPy tables `castSafe`,
`castSameKind`, `isNumeric`, `castLossless`, `arithmeticOk` (each compared with NumPy on every
run): whenever `float64` points take the value dtype they stay numeric and keep their value
exactly, so the node search never raises and never sees rounded points.  (Complete finite
table; breaks when the guard is dropped — wide strings, finding C15-F3 — or the rule becomes
`'same_kind'` — float32 / complex64 data, seeded change C15-1.) -/
theorem C15.point_cast_harmless (vk : VKind)
    (h : pointsTakeValueDtype castGuardNumeric castingRule vk = true) :
    arithmeticOk vk = true ∧ castLossless vk = true ∧
      findIndicesOutcome castGuardNumeric castingRule vk = .ok := by
  cases vk <;> revert h <;> decide

/-- Consequently the node search on `float64` points succeeds for every value-dtype class. -/
theorem C15.value_dtypes_ok (vk : VKind) :
    findIndicesOutcome castGuardNumeric castingRule vk = .ok := by
  cases vk <;> decide

/-- Sensitivity of the two previous statements to the extracted constants: without the guard
wide strings raise (the code before the repair of C15-F3); with `casting='same_kind'` the points
are cast to single precision for float32 data (lossy). -/
theorem C15.point_cast_sensitivity :
    findIndicesOutcome false .safe .strWide = .typeError ∧
    (pointsTakeValueDtype true .sameKind .float32 = true ∧ castLossless .float32 = false) := by
  decide

/-- Translator tie: the statement list extracted from `_compute_linear_weights_edge` in the live
source computes exactly the `linearEdge` every theorem above speaks about.  The statement
language has no aliasing: every weight must be a fresh array (`1 - ndist`, `np.copy(ndist)`,
`np.where`), a bare `w = ndist` is rejected by the translator; within that language a changed
constant, mask, comparison operator, target or index breaks this theorem (a reordering of
assignments with disjoint masks does not, correctly). -/
theorem C15.extracted_linear_edge (n i : Nat) (nd : K) :
    runEdge linearProg n i nd = linearEdge n i nd := by
  by_cases h0 : nd < 0 <;> by_cases h1 : 1 < nd
  · exfalso; linarith
  all_goals
    simp [runEdge, linearProg, EStmt.exec, Mask.eval, WExpr.eval, linearEdge, pyIndex, h0, h1]

/-- Translator tie: the statement list extracted from `_compute_nearest_weights_edge` computes
`nearestEdge`. -/
theorem C15.extracted_nearest_edge (n i : Nat) (nd : K) :
    runEdge nearestProg n i nd = nearestEdge n i nd := by
  by_cases h0 : nd < 0 <;> by_cases h1 : 1 < nd
  · exfalso; linarith
  all_goals
    simp [runEdge, nearestProg, EStmt.exec, Mask.eval, WExpr.eval, nearestEdge, pyIndex, h0, h1]
  split_ifs <;> rfl

/-- Translator tie: the extracted `np.where(yi < .5, i, i + 1)` of
`_NearestInterpolator._evaluate` is the rule of `nearestIndex`. -/
theorem C15.extracted_nearest_rule (c : Nat → K) (n : Nat) (p : K) :
    nearestPickWith pickMask pickThen pickElse (findIndex c n p)
      (normDist c (findIndex c n p) p) = nearestIndex c n p := by
  simp [nearestPickWith, pickMask, pickThen, pickElse, Mask.eval, nearestIndex]

/-- Translator tie: the extracted node search of `_find_indices` (left `searchsorted`, offset,
both clipping statements with their constants) is `findIndex` for every axis with at least two
nodes. -/
theorem C15.extracted_find_indices (c : Nat → K) (n : Nat) (p : K) (hn : 2 ≤ n) :
    searchSideLeft = true ∧
    findIndexWith idxOffset clipLowBound clipLowValue clipHighBound clipHighValue c n p =
      findIndex c n p := by
  refine ⟨rfl, ?_⟩
  simp only [findIndexWith, idxOffset, clipLowBound, clipLowValue, clipHighBound, clipHighValue,
    findIndex]
  split_ifs <;> omega

/-- Input conventions of the interpolators for array-like (non-mesh) input: evaluations of the
hand-written table `classifyArrayInput` (compared with the three real interpolators on 14
shapes per dimension on every run) for every dimension `d ≥ 1`: a point array `(d, N)` is `N`
points with an array result, a single point (`()` in 1d, `(d,)` otherwise) gives a scalar, a
flat `(N,)` array in 1d is `N` points, a first dimension other than `d` and every rank ≥ 3 is
rejected.  (In the code the mesh-grid test `is_valid_input_meshgrid` runs first; it only
accepts tuples of `d` arrays of rank `d` and is not part of this table.) -/
theorem C15.input_classification (d N : Nat) (hd : 1 ≤ d) :
    classifyArrayInput d [d, N] = some (false, N) ∧
    classifyArrayInput 1 [] = some (true, 1) ∧
    classifyArrayInput 1 [N] = some (false, N) ∧
    (2 ≤ d → classifyArrayInput d [d] = some (true, 1)) ∧
    (∀ m, m ≠ d → classifyArrayInput d [m, N] = none) ∧
    (∀ m, 2 ≤ d → m ≠ d → classifyArrayInput d [m] = none) ∧
    (∀ a b c rest, classifyArrayInput d (a :: b :: c :: rest) = none) := by
  refine ⟨?_, rfl, rfl, ?_, ?_, ?_, ?_⟩
  · by_cases h : d = 1 <;> simp [classifyArrayInput, h]
  · intro h2
    have : d ≠ 1 := by omega
    simp [classifyArrayInput, this]
  · intro m hm
    by_cases h : d = 1
    · subst h; simp [classifyArrayInput, hm]
    · simp [classifyArrayInput, h, hm]
  · intro m h2 hm
    have : d ≠ 1 := by omega
    simp [classifyArrayInput, this, hm]
  · intro a b c rest
    by_cases h : d = 1 <;> simp [classifyArrayInput, h]

/-- Sampling (`sampling_function` / `dual_use_func` / `point_collocation`, scalar-valued
callables, mesh-grid or point-array input): whichever of the shapes NumPy broadcasting can give
it the user's code returns — the full output shape, a shape with unit axes (function of only
some coordinates), `()` (constant) or `(1, n)` (1d function of `x` itself) — and whichever path
runs (callable out-of-place only / dual use / in-place only, `out` given or not:
`_default_ip`'s reshape-or-assign, `_default_oop`, the squeeze/reshape/broadcast
post-processing), the wrapper delivers an array of exactly the output shape `s` whose entry at
every valid index is the value the returned array carries for that index (`view`).  So if the
callable's array holds `f(gridPoint idx)` in NumPy's sense, every path yields
`fun idx => f (gridPoint idx)`.  About the EXECUTED definition `Sampling.sample` (compared with
the real wrapper on every run); NumPy's `broadcast_to` / C-order `reshape` / assignment are the
concrete functions of `Model/Sampling.lean`; all axis lengths positive. -/
theorem C15.sampling_paths_collocate {W : Type} (k : Sampling.CallKind) (outGiven : Bool)
    (d : Nat) (inp : Sampling.InputKind) (hinp : inp ≠ .point) (s : List Nat) (hne : s ≠ [])
    (hp : ∀ n ∈ s, 0 < n) (r : Sampling.Arr W) (hf : Sampling.RetForm d s r.shape)
    (tgt : List Nat → W) (hv : ∀ idx, Sampling.Valid s idx → Sampling.view s r idx = tgt idx) :
    Sampling.Delivers s tgt (Sampling.sample k outGiven d inp s r) := by
  unfold Sampling.sample
  cases outGiven
  · -- out-of-place
    cases k
    · simp only [Bool.false_eq_true, if_false, Option.bind_some, hinp]
      obtain ⟨a, ha, h1, h2⟩ := Sampling.oopPost_delivers hne hinp hf hv
      exact ⟨a, by rw [ha]; rfl, h1, h2⟩
    · simp only [Bool.false_eq_true, if_false, Option.bind_some, hinp]
      obtain ⟨a, ha, h1, h2⟩ := Sampling.oopPost_delivers hne hinp hf hv
      exact ⟨a, by rw [ha]; rfl, h1, h2⟩
    · simp only [Bool.false_eq_true, if_false, hinp, Sampling.defaultOop]
      obtain ⟨a, ha, h1, h2⟩ := Sampling.assignTo_delivers hf hv
      refine ⟨a, ?_, h1, h2⟩
      rw [ha, Option.bind_some, Sampling.oopPost_id hinp a h1]; rfl
  · -- in place
    cases k
    · simp only [if_true, hinp, if_false]
      exact Sampling.defaultIp_delivers hp hne hf hv
    · simp only [if_true, hinp, if_false]
      exact Sampling.assignTo_delivers hf hv
    · simp only [if_true, hinp, if_false]
      exact Sampling.assignTo_delivers hf hv

/-- Non-vacuity: a function of the first coordinate only on a 2 x 3 mesh returns shape `(2, 1)`;
through `_default_ip` (out-of-place-only callable, `out` given) entry `(1, 2)` of the result is
the value for the first-axis index 1. -/
example : Sampling.RetForm 2 [2, 3] [2, 1] ∧
    (∃ a, Sampling.sample .oopOnly true 2 .mesh [2, 3] ⟨[2, 1], fun idx => (idx.headD 0 + 10 : Nat)⟩
        = some a ∧ a.shape = [2, 3] ∧ a.get [1, 2] = 11) := by
  refine ⟨.bcast (.cons (Or.inr rfl) (.cons (Or.inl rfl) .nil)), ?_⟩
  simp [Sampling.sample, Sampling.defaultIp, Sampling.reshapeC, Sampling.size, Sampling.assignTo,
    Sampling.leadDrop, Sampling.broadcastTo, Sampling.broadcastable, Sampling.bcastIndex]

/-- Sampling at a SINGLE point (`scalar_in`: `np.squeeze`, then `out.ravel()[0].item()`), for
every kind of callable (out-of-place only / dual use / in-place only — the last one through
`_default_oop` with an allocated `(1,)` array) and every dimension: whichever of the shapes the
callable's code returns for one point — `()` (constant), `(1,)` (function of `x[0]`, …) or
`(1, 1)` (1d function of `x` itself) — the wrapper delivers a scalar holding that single entry.
About the executed `Sampling.sample` (compared with the real wrapper on every run). -/
theorem C15.sampling_single_point {W : Type} (k : Sampling.CallKind) (d : Nat)
    (r : Sampling.Arr W) (h : r.shape = [] ∨ r.shape = [1] ∨ r.shape = [1, 1]) :
    ∃ a, Sampling.sample k false d .point [1] r = some a ∧ a.shape = [] ∧
      a.get [] = r.get (List.replicate r.shape.length 0) := by
  obtain ⟨sh, g⟩ := r
  simp only at h
  rcases h with rfl | rfl | rfl <;> cases k <;>
    simp [Sampling.sample, Sampling.oopPost, Sampling.squeeze, Sampling.scalarOut,
      Sampling.unsqueezeIdx, Sampling.defaultOop, Sampling.assignTo, Sampling.leadDrop,
      Sampling.broadcastTo, Sampling.broadcastable, Sampling.bcastIndex]

/-- Non-vacuity: an in-place-only callable whose code produces shape `(1, 1)`; the scalar
delivered is the entry `(0, 0)`. -/
example : ∃ a, Sampling.sample .ipOnly false 1 .point [1]
      (⟨[1, 1], fun idx => idx.length + 40⟩ : Sampling.Arr Nat) = some a ∧ a.shape = [] ∧
      a.get [] = 42 := by
  obtain ⟨a, h1, h2, h3⟩ := C15.sampling_single_point .ipOnly 1
    (⟨[1, 1], fun idx => idx.length + 40⟩ : Sampling.Arr Nat) (Or.inr (Or.inr rfl))
  exact ⟨a, h1, h2, by rw [h3]; rfl⟩

/-! ## Round 4: cell formula / continuity, uniform grids, `Resampling` and `linear_deform` end to end

`uniformNode`, `resampling`, `linearDeform`, `deformedPoints`, `gridPoints` are executed by the
driver (ops `grid`, `resample`, `deform`) and compared exactly with `uniform_discr(...).grid`,
`Resampling(...)(x)` and `linear_deform(...)` on every run (streams `e2e/grid`, `e2e/resample`,
`e2e/deform`): there the model receives only interval, shape, schemes, values and displacement
and computes grids and evaluation points itself. -/

/-- Linear axis, ANY cell `[c i, c (i+1)]` that contains `x` (not only the one `_find_indices`
happens to select): the interpolant is the affine blend of the two node slices of THAT cell with
`t = (x - c i) / (c (i+1) - c i)`.  At an interior node two cells qualify and both formulas hold,
so the piecewise-affine interpolant is continuous across cell boundaries on non-uniform grids, in
every dimension and for every scheme mix on the other axes, whichever side `searchsorted` assigns
the node to. -/
theorem C15.linear_cell_formula (a : Axis K) (ha : a.Good) (hs : a.scheme = .linear)
    (as : List (Axis K)) (v : List Nat → V) (x : K) (xs : List K)
    (i : Nat) (hi : i + 1 < a.n) (h1 : a.c i ≤ x) (h2 : x ≤ a.c (i + 1)) :
    perAxisInterp (a :: as) v (x :: xs) =
      (1 - (x - a.c i) / (a.c (i + 1) - a.c i)) • perAxisInterp as (fun idx => v (i :: idx)) xs +
      ((x - a.c i) / (a.c (i + 1) - a.c i)) • perAxisInterp as (fun idx => v ((i + 1) :: idx)) xs := by
  have hinc := ha.incr
  have hlo : a.c 0 ≤ x := le_trans (hinc.mono (Nat.zero_le i) (by omega)) h1
  have hhi : x ≤ a.c (a.n - 1) := le_trans h2 (hinc.mono (by omega) (by omega))
  obtain ⟨j, t, hj, g1, g2, _, _, hxe, hstep⟩ := C15.linear_blend a ha hs as v x xs hlo hhi
  have hdi : 0 < a.c (i + 1) - a.c i := by linarith [hinc i (i + 1) (by omega) hi]
  have hdj : 0 < a.c (j + 1) - a.c j := by linarith [hinc j (j + 1) (by omega) hj]
  have ht : t = (x - a.c j) / (a.c (j + 1) - a.c j) := by
    rw [eq_div_iff (ne_of_gt hdj)]; linear_combination -hxe
  rw [hstep, ht]
  rcases Nat.lt_trichotomy j i with hlt | heq | hgt
  · -- the cell found lies to the left: `x` is the shared node `c (j+1) = c i`
    have hle : a.c (j + 1) ≤ a.c i := hinc.mono (by omega) (by omega)
    have hx1 : x = a.c (j + 1) := le_antisymm g2 (le_trans hle h1)
    have hx2 : x = a.c i := le_antisymm (by rw [hx1]; exact hle) h1
    have hji : j + 1 = i := by
      by_contra hne
      have := hinc (j + 1) i (by omega) (by omega)
      rw [← hx1, ← hx2] at this
      exact lt_irrefl _ this
    subst hji
    rw [← hx1, div_self (ne_of_gt (by rw [hx1]; exact hdj))]
    simp
  · subst heq; rfl
  · have hle : a.c (i + 1) ≤ a.c j := hinc.mono (by omega) (by omega)
    have hx1 : x = a.c (i + 1) := le_antisymm h2 (le_trans hle g1)
    have hx2 : x = a.c j := le_antisymm (by rw [hx1]; exact hle) g1
    have hji : i + 1 = j := by
      by_contra hne
      have := hinc (i + 1) j (by omega) (by omega)
      rw [← hx1, ← hx2] at this
      exact lt_irrefl _ this
    subst hji
    rw [← hx1, div_self (ne_of_gt (by rw [hx1]; exact hdi))]
    simp

/-- Non-vacuity: nodes 0, 1, 4, 9; the node `x = 4` lies in cell 1 (`[1, 4]`, `t = 1`) and in
cell 2 (`[4, 9]`, `t = 0`); the axis is well formed. -/
example : (⟨4, fun i => ((i * i : Nat) : ℚ), .linear⟩ : Axis ℚ).Good ∧
    ((4 : ℚ) - ((1 * 1 : Nat) : ℚ)) / (((2 * 2 : Nat) : ℚ) - ((1 * 1 : Nat) : ℚ)) = 1 ∧
    ((4 : ℚ) - ((2 * 2 : Nat) : ℚ)) / (((3 * 3 : Nat) : ℚ) - ((2 * 2 : Nat) : ℚ)) = 0 :=
  ⟨⟨by simp, incr_sq 4⟩, by norm_num, by norm_num⟩

/-- The nodes `uniform_discr(lo, hi, n)` computes (`uniform_grid_fromintv`: `gmin`, `gmax` half a
cell inside, then `np.linspace` with its `arange * step + start` and the overwritten last entry —
`uniformNode`, executed and compared with the real grid) are the cell midpoints
`lo + (2 i + 1) (hi - lo) / (2 n)`; for `lo < hi` they are strictly increasing (so every theorem
with `Axis.Good` applies to uniform grids with `n ≥ 2`) and lie strictly inside `(lo, hi)`. -/
theorem C15.uniform_grid_nodes (lo hi : K) (n : Nat) (s : Scheme) (hn : 1 ≤ n) :
    (∀ i, i < n → (uniformAxis lo hi n s).c i = lo + (2 * (i : K) + 1) * ((hi - lo) / (2 * (n : K)))) ∧
    (lo < hi → 2 ≤ n → (uniformAxis lo hi n s).Good) ∧
    (lo < hi → ∀ x ∈ (uniformAxis lo hi n s).nodes, lo < x ∧ x < hi) := by
  refine ⟨fun i hi' => uniformNode_eq lo hi n i hn hi', uniformAxis_good lo hi n s, ?_⟩
  intro h x hx
  simp only [Axis.nodes, List.mem_map, List.mem_range] at hx
  obtain ⟨i, hi', rfl⟩ := hx
  have hi' : i < n := hi'
  show lo < uniformNode lo hi n i ∧ uniformNode lo hi n i < hi
  rw [uniformNode_eq lo hi n i hn hi']
  have hnK : (0 : K) < (n : K) := by exact_mod_cast hn
  have hpos : 0 < (hi - lo) / (2 * (n : K)) := by apply div_pos <;> linarith
  have hiK : (i : K) + 1 ≤ (n : K) := by exact_mod_cast hi'
  have h0 : (0 : K) ≤ (i : K) := by exact_mod_cast Nat.zero_le i
  have hfull : (2 * (n : K)) * ((hi - lo) / (2 * (n : K))) = hi - lo := by field_simp
  constructor
  · nlinarith
  · nlinarith

/-- Non-vacuity: `uniform_discr(0, 1, 4)` has the nodes 1/8, 3/8, 5/8, 7/8. -/
example : (uniformAxis (0 : ℚ) 1 4 .linear).nodes = [1 / 8, 3 / 8, 5 / 8, 7 / 8] := by
  decide +kernel

/-- The other `nodes_on_bdry` branches of `uniform_grid_fromintv` (`uniformNodeBdry`, executed and
compared with `uniform_discr(..., nodes_on_bdry=(bl, br))` in all four combinations): the nodes are
equispaced with the stride for which `n - 1` strides plus half a stride at every end WITHOUT a
boundary node fill `[lo, hi]`; the first node is `lo` resp. half a stride inside, the last one `hi`
resp. half a stride inside; strictly increasing for `lo < hi` (so `Axis.Good`, and every theorem
above applies); without boundary nodes this is `uniformNode`. -/
theorem C15.uniform_grid_bdry_nodes (bl br : Bool) (lo hi : K) (n : Nat) (s : Scheme) (hn : 2 ≤ n) :
    (∀ i, i < n → (uniformAxisBdry bl br lo hi n s).c i =
      lo + ((i : K) + (if bl then 0 else 1 / 2)) * bdryStride bl br lo hi n) ∧
    (lo < hi → (uniformAxisBdry bl br lo hi n s).Good) ∧
    (bl = true → (uniformAxisBdry bl br lo hi n s).c 0 = lo) ∧
    (br = true → (uniformAxisBdry bl br lo hi n s).c (n - 1) = hi) ∧
    (∀ i, uniformNodeBdry false false lo hi n i = uniformNode lo hi n i) := by
  refine ⟨fun i hi' => uniformNodeBdry_eq bl br lo hi n i hn hi',
    fun h => uniformAxisBdry_good bl br lo hi n s h hn, ?_, ?_, ?_⟩
  · intro hb
    show uniformNodeBdry bl br lo hi n 0 = lo
    rw [uniformNodeBdry_eq bl br lo hi n 0 hn (by omega), hb]
    simp
  · intro hb
    show uniformNodeBdry bl br lo hi n (n - 1) = hi
    have : n - 1 + 1 = n ∧ 1 < n := ⟨by omega, by omega⟩
    simp [uniformNodeBdry, this, hb]
  · intro i
    simp [uniformNodeBdry, uniformNode]

/-- Non-vacuity: `[0, 5]` with 3 nodes and a node on the left / right end only; `[0, 1]` with both. -/
example : (uniformAxisBdry true false (0 : ℚ) 5 3 .linear).nodes = [0, 2, 4] ∧
    (uniformAxisBdry false true (0 : ℚ) 5 3 .linear).nodes = [1, 3, 5] ∧
    (uniformAxisBdry true true (0 : ℚ) 1 3 .linear).nodes = [0, 1 / 2, 1] := by decide +kernel

/-- `Resampling(domain, range, interp)(x)` as executed (`resampling`: dispatch of
`per_axis_interpolator`, mesh-grid convention on `range.meshgrid`) is the sampling of the
single-point interpolant of the domain data at every point of the RANGE grid, in C order — for
every dimension, scheme mix, non-uniform domain and range grids.  (Dispatch and the model's
mesh combinator; NumPy's broadcasting is tied by the streams `e2e/resample` and `interp/mesh`.) -/
theorem C15.resampling_samples_interpolant (dom ran : List (Axis K)) (hg : ∀ a ∈ dom, a.Good)
    (hl : ran.length = dom.length) (v : List Nat → V) :
    resampling dom ran v = (gridPoints ran).map (perAxisInterp dom v) := by
  unfold resampling gridPoints
  exact perAxisInterpolatorMesh_eq dom hg v _ (by simpa using hl)

/-- Resampling onto a grid with the same nodes is the identity (the flat array of the stored
values in C order), for every scheme mix, dimension and non-uniform grid; the range may carry
different schemes. -/
theorem C15.resampling_same_grid_identity (dom ran : List (Axis K)) (hg : ∀ a ∈ dom, a.Good)
    (hr : ran.map Axis.nodes = dom.map Axis.nodes) (v : List Nat → V) :
    resampling dom ran v = (allIdx dom).map v := by
  have hl : ran.length = dom.length := by simpa using congrArg List.length hr
  rw [C15.resampling_samples_interpolant dom ran hg hl, gridPoints, hr, ← gridPoints,
    gridPoints_eq, List.map_map, allIdx]
  apply List.map_congr_left
  intro idx hidx
  have hv : ValidIdx dom idx := mem_allIdx_lt dom idx hidx
  exact (C15.interp_node_exact dom hg idx hv).1 v

/-- Non-vacuity: a 2-d domain (uniform 3 cells on [0, 1] × non-uniform 0, 1, 4) with mixed
schemes; the range has the same nodes and other schemes; nine indices in C order. -/
example : let ax : List (Axis ℚ) := [uniformAxis 0 1 3 .linear, ⟨3, fun i => ((i * i : Nat) : ℚ), .nearest⟩]
    let rn : List (Axis ℚ) := [uniformAxis 0 1 3 .nearest, ⟨3, fun i => ((i * i : Nat) : ℚ), .linear⟩]
    (∀ a ∈ ax, a.Good) ∧ rn.map Axis.nodes = ax.map Axis.nodes ∧
    allIdx ax = [[0, 0], [0, 1], [0, 2], [1, 0], [1, 1], [1, 2], [2, 0], [2, 1], [2, 2]] := by
  intro ax rn
  refine ⟨?_, rfl, by decide⟩
  intro a ha
  simp only [ax, List.mem_cons, List.mem_nil_iff, or_false] at ha
  rcases ha with rfl | rfl
  · exact uniformAxis_good 0 1 3 .linear (by norm_num) (by norm_num)
  · exact ⟨by simp, incr_sq 3⟩

/-- Linear `Resampling` is exact for affine data whenever the range nodes lie in the hull of the
domain nodes: the result is the affine function on the range grid (any dimension, non-uniform
grids, real or complex values). -/
theorem C15.resampling_affine_exact (dom ran : List (Axis K))
    (hg : ∀ a ∈ dom, a.Good ∧ a.scheme = .linear)
    (hin : List.Forall₂ (fun a r => ∀ x ∈ Axis.nodes r, a.c 0 ≤ x ∧ x ≤ a.c (a.n - 1)) dom ran)
    (a0 : V) (bs : List V) (hb : bs.length = dom.length) (v : List Nat → V)
    (hv : ∀ idx, ValidIdx dom idx → v idx = affineAt a0 (gridPoint dom idx) bs) :
    resampling dom ran v = (gridPoints ran).map (fun p => affineAt a0 p bs) := by
  rw [C15.resampling_samples_interpolant dom ran (fun a ha => (hg a ha).1) hin.length_eq.symm]
  apply List.map_congr_left
  intro p hp
  apply C15.linear_affine_exact dom hg a0 bs hb v hv
  refine cartesian_forall₂ (fun a x => a.c 0 ≤ x ∧ x ≤ a.c (a.n - 1)) dom _ ?_ p hp
  exact List.forall₂_map_right_iff.mpr hin

/-- For two uniform discretisations of the same interval, the nodes of the one with FEWER (or
equally many) cells lie in the hull of the other one's nodes.  So linear `Resampling` to a coarser
or equal uniform grid is exact for affine data (`resampling_affine_exact`); to a finer grid it is
not (example below): the outermost range nodes fall outside the hull, where the code extends
towards zero. -/
theorem C15.resampling_uniform_coarsen_in_hull (lo hi : K) (n m : Nat) (s s' : Scheme)
    (h : lo < hi) (hm : 1 ≤ m) (hmn : m ≤ n) :
    ∀ x ∈ (uniformAxis lo hi m s').nodes,
      (uniformAxis lo hi n s).c 0 ≤ x ∧ x ≤ (uniformAxis lo hi n s).c ((uniformAxis lo hi n s).n - 1) := by
  intro x hx
  simp only [Axis.nodes, List.mem_map, List.mem_range] at hx
  obtain ⟨i, hi', rfl⟩ := hx
  have hi' : i < m := hi'
  show uniformNode lo hi n 0 ≤ uniformNode lo hi m i ∧ uniformNode lo hi m i ≤ uniformNode lo hi n (n - 1)
  rw [uniformNode_eq lo hi n 0 (by omega) (by omega), uniformNode_eq lo hi m i hm hi',
    uniformNode_eq lo hi n (n - 1) (by omega) (by omega)]
  have hmK : (0 : K) < (m : K) := by exact_mod_cast hm
  have hnK : (0 : K) < (n : K) := by exact_mod_cast (by omega : 0 < n)
  have hmnK : (m : K) ≤ (n : K) := by exact_mod_cast hmn
  have hiK : (i : K) + 1 ≤ (m : K) := by exact_mod_cast hi'
  have h0 : (0 : K) ≤ (i : K) := by exact_mod_cast Nat.zero_le i
  have hn1 : ((n - 1 : Nat) : K) = (n : K) - 1 := by
    have : 1 ≤ n := by omega
    push_cast [this]; ring
  rw [hn1]
  have hd : 0 < hi - lo := by linarith
  constructor
  · rw [← sub_nonneg]
    have : lo + (2 * (i : K) + 1) * ((hi - lo) / (2 * (m : K))) - (lo + (2 * ((0 : Nat) : K) + 1) * ((hi - lo) / (2 * (n : K))))
        = (hi - lo) * ((2 * (i : K) + 1) * n - m) / (2 * m * n) := by
      field_simp; push_cast; ring
    rw [this]
    apply div_nonneg
    · apply mul_nonneg hd.le; nlinarith
    · positivity
  · rw [← sub_nonneg]
    have : lo + (2 * ((n : K) - 1) + 1) * ((hi - lo) / (2 * (n : K))) - (lo + (2 * (i : K) + 1) * ((hi - lo) / (2 * (m : K))))
        = (hi - lo) * ((2 * (n : K) - 1) * m - (2 * (i : K) + 1) * n) / (2 * m * n) := by
      field_simp; ring
    rw [this]
    apply div_nonneg
    · apply mul_nonneg hd.le; nlinarith
    · positivity

/-- Non-vacuity of `resampling_affine_exact` through `resampling_uniform_coarsen_in_hull`
(4 → 2 cells on [0, 1]), and the failure in the other direction: sampling `f(x) = x` on 2 cells
and resampling linearly to 4 cells gives 3/16 and 9/16 at the outer nodes 1/8 and 7/8. -/
example : List.Forall₂ (fun (a r : Axis ℚ) => ∀ x ∈ Axis.nodes r, a.c 0 ≤ x ∧ x ≤ a.c (a.n - 1))
      [uniformAxis 0 1 4 .linear] [uniformAxis 0 1 2 .linear] ∧
    resampling [uniformAxis (0 : ℚ) 1 2 .linear] [uniformAxis (0 : ℚ) 1 4 .linear]
      (fun idx => uniformNode (0 : ℚ) 1 2 (idx.headD 0)) = [3 / 16, 3 / 8, 5 / 8, 9 / 16] ∧
    gridPoints [uniformAxis (0 : ℚ) 1 4 .linear] = [[1 / 8], [3 / 8], [5 / 8], [7 / 8]] :=
  ⟨.cons (C15.resampling_uniform_coarsen_in_hull 0 1 4 2 .linear .linear (by norm_num)
      (by norm_num) (by norm_num)) .nil, by decide +kernel, by decide +kernel⟩

/-- No overshoot through `Resampling`: when the range nodes lie in the hull of the domain nodes
(e.g. a coarser-or-equal uniform grid of the same interval, `resampling_uniform_coarsen_in_hull`;
a `nodes_on_bdry=True` domain and any range grid of the same interval), every entry of the
resampled real array lies between the smallest and the largest stored value — every mix of linear
and nearest axes, every dimension, non-uniform grids. -/
theorem C15.resampling_within_value_bounds {K : Type} [Field K] [LinearOrder K]
    [IsStrictOrderedRing K] (dom ran : List (Axis K)) (hg : ∀ a ∈ dom, a.Good)
    (hin : List.Forall₂ (fun a r => ∀ x ∈ Axis.nodes r, a.c 0 ≤ x ∧ x ≤ a.c (a.n - 1)) dom ran)
    (v : List Nat → K) (m M : K) (hv : ∀ idx, ValidIdx dom idx → m ≤ v idx ∧ v idx ≤ M) :
    ∀ y ∈ resampling dom ran v, m ≤ y ∧ y ≤ M := by
  rw [C15.resampling_samples_interpolant dom ran hg hin.length_eq.symm]
  intro y hy
  obtain ⟨p, hp, rfl⟩ := List.mem_map.mp hy
  apply C15.interp_within_value_bounds dom hg v m M hv
  refine cartesian_forall₂ (fun a x => a.c 0 ≤ x ∧ x ≤ a.c (a.n - 1)) dom _ ?_ p hp
  exact List.forall₂_map_right_iff.mpr hin

/-- Non-vacuity: a `nodes_on_bdry=True` domain of [0, 1] with 3 nodes contains every node of the
4-cell default grid of [0, 1]. -/
example : List.Forall₂ (fun (a r : Axis ℚ) => ∀ x ∈ Axis.nodes r, a.c 0 ≤ x ∧ x ≤ a.c (a.n - 1))
    [uniformAxisBdry true true 0 1 3 .linear] [uniformAxis 0 1 4 .nearest] := by
  decide +kernel

/-- `Resampling` is linear in its argument (what `linear=True` declares), as executed, for every
scheme mix and dimension: `R(c•v + w) = c•R(v) + R(w)` entry by entry. -/
theorem C15.resampling_linear (dom ran : List (Axis K)) (hg : ∀ a ∈ dom, a.Good)
    (hl : ran.length = dom.length) (c : K) (v w : List Nat → V) :
    resampling dom ran (fun idx => c • v idx + w idx) =
      List.zipWith (fun a b => c • a + b) (resampling dom ran v) (resampling dom ran w) := by
  simp only [C15.resampling_samples_interpolant dom ran hg hl, List.zipWith_map, List.zipWith_self]
  apply List.map_congr_left
  intro p _
  exact C15.interp_linear_in_values dom c v w p

/-- Non-vacuity: an instance with a 2 → 3 cell resampling over ℚ. -/
example (v w : List Nat → ℚ) :=
  C15.resampling_linear [uniformAxis (0 : ℚ) 1 2 .linear] [uniformAxis (0 : ℚ) 1 3 .nearest]
    (fun a ha => by
      simp only [List.mem_cons, List.mem_nil_iff, or_false] at ha
      subst ha
      exact uniformAxis_good 0 1 2 .linear (by norm_num) (by norm_num)) rfl (-3) v w

/-- Nearest-neighbour resampling from `n` to `k·n` cells of the same interval, one axis, on the
index rule as executed: fine node `j` takes the value of coarse node `j / k` — the coarse cell that
contains it (piecewise-constant prolongation; the docstring example `[0, 1, 0] ↦ [0, 0, 1, 1, 0, 0]`
for every `n ≥ 2`, `k ≥ 1`, interval).  Uses the coded node formulas of both grids and the
closest-node/ties-right characterisation. -/
theorem C15.nearest_refine_is_prolongation (lo hi : K) (n k j : Nat) (h : lo < hi) (hn : 2 ≤ n)
    (hk : 1 ≤ k) (hj : j < k * n) :
    nearestIndex (uniformNode lo hi n) n (uniformNode lo hi (k * n) j) = j / k := by
  have hkn : 1 ≤ k * n := Nat.mul_pos hk (by omega)
  set x := uniformNode lo hi (k * n) j with hx
  obtain ⟨hm, hcl⟩ := C15.nearest_is_closest (uniformNode lo hi n) n x
    (uniformAxis_good lo hi n .nearest h hn).incr hn
  set m := nearestIndex (uniformNode lo hi n) n x with hmdef
  have hi_lt : j / k < n := Nat.div_lt_of_lt_mul hj
  have hle := (hcl (j / k) hi_lt).1
  -- the fine half cell
  have hkK : (0 : K) < (k : K) := by exact_mod_cast hk
  have hnK : (0 : K) < (n : K) := by exact_mod_cast (by omega : 0 < n)
  set H := (hi - lo) / (2 * ((k * n : Nat) : K)) with hH
  have hHpos : 0 < H := by
    apply div_pos (by linarith)
    push_cast; positivity
  have hcoarse : (hi - lo) / (2 * (n : K)) = (k : K) * H := by
    rw [hH]; push_cast; field_simp
  have hxe : x = lo + (2 * (j : K) + 1) * H := uniformNode_eq lo hi (k * n) j hkn hj
  have hX : ∀ q, q < n → uniformNode lo hi n q = lo + (2 * (q : K) + 1) * ((k : K) * H) := by
    intro q hq
    rw [uniformNode_eq lo hi n q (by omega) hq, hcoarse]
  rw [hX m hm, hX (j / k) hi_lt, hxe] at hle
  -- integer facts about i = j / k
  have h1 : (j / k) * k ≤ j := Nat.div_mul_le_self j k
  have h2 : j < (j / k + 1) * k := by
    have := Nat.lt_succ_iff.mpr (Nat.le_refl (j / k))
    exact (Nat.div_lt_iff_lt_mul (by omega)).mp this
  have h1K : ((j / k : Nat) : K) * (k : K) ≤ (j : K) := by exact_mod_cast h1
  have h2K : (j : K) + 1 ≤ (((j / k : Nat) : K) + 1) * (k : K) := by exact_mod_cast h2
  set i := j / k with hidef
  have hbound : |lo + (2 * (j : K) + 1) * H - (lo + (2 * (i : K) + 1) * ((k : K) * H))| ≤ ((k : K) - 1) * H := by
    rw [abs_le]
    constructor <;> nlinarith
  by_contra hne
  rcases Nat.lt_or_gt_of_ne hne with hlt | hgt
  · have hc : (m : K) + 1 ≤ (i : K) := by exact_mod_cast hlt
    have : ((k : K) + 1) * H ≤ lo + (2 * (j : K) + 1) * H - (lo + (2 * (m : K) + 1) * ((k : K) * H)) := by
      nlinarith [mul_le_mul_of_nonneg_right hc (le_of_lt (mul_pos hkK hHpos))]
    have h3 := le_trans (le_trans this (le_abs_self _)) (le_trans hle hbound)
    nlinarith
  · have hc : (i : K) + 1 ≤ (m : K) := by exact_mod_cast hgt
    have : ((k : K) + 1) * H ≤ -(lo + (2 * (j : K) + 1) * H - (lo + (2 * (m : K) + 1) * ((k : K) * H))) := by
      nlinarith [mul_le_mul_of_nonneg_right hc (le_of_lt (mul_pos hkK hHpos))]
    have h3 := le_trans (le_trans this (neg_le_abs _)) (le_trans hle hbound)
    nlinarith

/-- `Resampling(uniform_discr(lo, hi, n), uniform_discr(lo, hi, k·n), 'nearest')` in every dimension
(per axis its own interval, `n_j ≥ 2`, `k_j ≥ 1`), as executed: output entry `idx` is input entry
`(idx_j / k_j)_j`. -/
theorem C15.resampling_nearest_refine (specs : List (K × K × Nat × Nat))
    (hs : ∀ s ∈ specs, s.1 < s.2.1 ∧ 2 ≤ s.2.2.1 ∧ 1 ≤ s.2.2.2) (v : List Nat → V) :
    resampling (refineDom specs) (refineRan specs) v =
      (allIdx (refineRan specs)).map (fun idx => v (List.zipWith (fun i s => i / s.2.2.2) idx specs)) := by
  have hg : ∀ a ∈ refineDom specs, a.Good ∧ a.scheme = .nearest := by
    intro a ha
    obtain ⟨s, hsm, rfl⟩ := List.mem_map.mp ha
    obtain ⟨h1, h2, _⟩ := hs s hsm
    exact ⟨uniformAxis_good _ _ _ _ h1 h2, rfl⟩
  rw [C15.resampling_samples_interpolant _ _ (fun a ha => (hg a ha).1) (by simp [refineDom, refineRan]),
    gridPoints_eq, List.map_map, allIdx]
  apply List.map_congr_left
  intro idx hidx
  have hv := mem_allIdx_lt (refineRan specs) idx hidx
  simp only [Function.comp]
  rw [C15.nearest_paths_agree _ hg]
  unfold nearestInterp
  congr 1
  clear hidx hg
  induction specs generalizing idx with
  | nil => simp [refineDom, refineRan]
  | cons s ss ih =>
    cases hv with
    | @cons _ i _ is hi hrest =>
      obtain ⟨h1, h2, h3⟩ := hs s (by simp)
      have ih' := ih (fun t ht => hs t (by simp [ht])) is hrest
      simp only [refineDom, refineRan, List.map_cons, List.zipWith_cons_cons] at ih' ⊢
      rw [ih']
      congr 1
      exact C15.nearest_refine_is_prolongation s.1 s.2.1 s.2.2.1 s.2.2.2 i h1 h2 h3 hi

/-- Non-vacuity: the docstring example of `Resampling` (3 → 6 cells on [0, 1]). -/
example : resampling (refineDom [((0 : ℚ), (1 : ℚ), 3, 2)]) (refineRan [((0 : ℚ), (1 : ℚ), 3, 2)])
    (fun idx => if idx = [1] then (1 : ℚ) else 0) = [0, 0, 1, 1, 0, 0] := by decide +kernel

/-- The way back, one axis: the fine node that nearest-neighbour interpolation on the `k·n`-cell grid
selects for coarse node `i` lies in coarse cell `i` (index `/ k = i`) — for odd `k` the coarse node
IS a fine node, for even `k` it falls on a fine cell boundary and the tie goes to the right
neighbour, which is still in cell `i`. -/
theorem C15.nearest_coarsen_hits_own_cell (lo hi : K) (n k i : Nat) (h : lo < hi) (hn : 2 ≤ n)
    (hk : 1 ≤ k) (hi' : i < n) :
    nearestIndex (uniformNode lo hi (k * n)) (k * n) (uniformNode lo hi n i) / k = i := by
  have hkn : 2 ≤ k * n := le_trans hn (Nat.le_mul_of_pos_left n hk)
  set x := uniformNode lo hi n i with hx
  obtain ⟨hm, hcl⟩ := C15.nearest_is_closest (uniformNode lo hi (k * n)) (k * n) x
    (uniformAxis_good lo hi (k * n) .nearest h hkn).incr hkn
  set m := nearestIndex (uniformNode lo hi (k * n)) (k * n) x with hmdef
  -- a fine node of cell `i` at distance at most one fine half cell: index `i * k + k / 2`
  have hj : i * k + k / 2 < k * n := by
    have h1 : k / 2 < k := Nat.div_lt_self (by omega) (by omega)
    have h2 : (i + 1) * k ≤ n * k := Nat.mul_le_mul_right k (by omega)
    have h3 : (i + 1) * k = i * k + k := by ring
    have h4 : n * k = k * n := Nat.mul_comm n k
    omega
  have hle := (hcl (i * k + k / 2) hj).1
  have hkK : (0 : K) < (k : K) := by exact_mod_cast hk
  set H := (hi - lo) / (2 * ((k * n : Nat) : K)) with hH
  have hHpos : 0 < H := by
    apply div_pos (by linarith)
    have : (0 : K) < ((k * n : Nat) : K) := by exact_mod_cast (by omega : 0 < k * n)
    linarith
  have hnK : (0 : K) < (n : K) := by exact_mod_cast (by omega : 0 < n)
  have hcoarse : (hi - lo) / (2 * (n : K)) = (k : K) * H := by
    rw [hH]; push_cast; field_simp
  have hxe : x = lo + (2 * (i : K) + 1) * ((k : K) * H) := by
    rw [hx, uniformNode_eq lo hi n i (by omega) hi', hcoarse]
  have hF : ∀ q, q < k * n → uniformNode lo hi (k * n) q = lo + (2 * (q : K) + 1) * H :=
    fun q hq => uniformNode_eq lo hi (k * n) q (by omega) hq
  rw [hF m hm, hF _ hj, hxe] at hle
  -- the comparison node is within one fine half cell
  have hhalf : 2 * (k / 2) = k ∨ 2 * (k / 2) + 1 = k := by omega
  have hjK : ((i * k + k / 2 : Nat) : K) = (i : K) * (k : K) + ((k / 2 : Nat) : K) := by push_cast; ring
  have hbound : |lo + (2 * (i : K) + 1) * ((k : K) * H) - (lo + (2 * ((i * k + k / 2 : Nat) : K) + 1) * H)| ≤ H := by
    rw [hjK, abs_le]
    rcases hhalf with he | ho
    · have : (k : K) = 2 * ((k / 2 : Nat) : K) := by exact_mod_cast he.symm
      constructor <;> nlinarith
    · have : (k : K) = 2 * ((k / 2 : Nat) : K) + 1 := by exact_mod_cast ho.symm
      constructor <;> nlinarith
  have hm_le := le_trans hle hbound
  rw [abs_le] at hm_le
  obtain ⟨hlo', hhi'⟩ := hm_le
  -- back to integers: |(2 i + 1) k - (2 m + 1)| ≤ 1
  have e1 : (2 * (i : K) + 1) * (k : K) - (2 * (m : K) + 1) ≤ 1 := by
    by_contra hc
    rw [not_le] at hc
    nlinarith
  have e2 : -1 ≤ (2 * (i : K) + 1) * (k : K) - (2 * (m : K) + 1) := by
    by_contra hc
    rw [not_le] at hc
    nlinarith
  have e1' : (2 * (i : ℤ) + 1) * (k : ℤ) - (2 * (m : ℤ) + 1) ≤ 1 := by exact_mod_cast e1
  have e2' : -1 ≤ (2 * (i : ℤ) + 1) * (k : ℤ) - (2 * (m : ℤ) + 1) := by exact_mod_cast e2
  have hP : (2 * (i : ℤ) + 1) * (k : ℤ) = 2 * ((i * k : Nat) : ℤ) + (k : ℤ) := by push_cast; ring
  rw [hP] at e1' e2'
  have hlow : i * k ≤ m := by omega
  have hup : m < (i + 1) * k := by
    have : (i + 1) * k = i * k + k := by ring
    omega
  rw [Nat.div_eq_iff (by omega)]
  constructor
  · exact hlow
  · have : (i + 1) * k = i * k + k := by ring
    omega

/-- `Resampling(coarse, fine, 'nearest').inverse` (= `Resampling(fine, coarse, 'nearest')`, as
executed by `resampling` with the roles swapped) applied to the refined array returns the original
array: `inverse ∘ op = id` for nearest-neighbour refinement by integer factors, every dimension.
The refined array is given by its index function, which `resampling_nearest_refine` shows to be
exactly what `op` produces. -/
theorem C15.resampling_nearest_refine_inverse (specs : List (K × K × Nat × Nat))
    (hs : ∀ s ∈ specs, s.1 < s.2.1 ∧ 2 ≤ s.2.2.1 ∧ 1 ≤ s.2.2.2) (v : List Nat → V) :
    resampling (refineRan specs) (refineDom specs)
        (fun idx => v (List.zipWith (fun i s => i / s.2.2.2) idx specs)) =
      (allIdx (refineDom specs)).map v := by
  have hg : ∀ a ∈ refineRan specs, a.Good ∧ a.scheme = .nearest := by
    intro a ha
    obtain ⟨s, hsm, rfl⟩ := List.mem_map.mp ha
    obtain ⟨h1, h2, h3⟩ := hs s hsm
    exact ⟨uniformAxis_good _ _ _ _ h1 (le_trans h2 (Nat.le_mul_of_pos_left _ h3)), rfl⟩
  rw [C15.resampling_samples_interpolant _ _ (fun a ha => (hg a ha).1) (by simp [refineDom, refineRan]),
    gridPoints_eq, List.map_map, allIdx]
  apply List.map_congr_left
  intro idx hidx
  have hv := mem_allIdx_lt (refineDom specs) idx hidx
  simp only [Function.comp]
  rw [C15.nearest_paths_agree _ hg]
  unfold nearestInterp
  beta_reduce
  congr 1
  clear hidx hg
  induction specs generalizing idx with
  | nil =>
    cases hv
    simp [refineDom, refineRan]
  | cons s ss ih =>
    cases hv with
    | @cons _ i _ is hi hrest =>
      obtain ⟨h1, h2, h3⟩ := hs s (by simp)
      have ih' := ih (fun t ht => hs t (by simp [ht])) is hrest
      simp only [refineDom, refineRan, List.map_cons, List.zipWith_cons_cons] at ih' ⊢
      rw [ih']
      congr 1
      exact C15.nearest_coarsen_hits_own_cell s.1 s.2.1 s.2.2.1 s.2.2.2 i h1 h2 h3 hi

/-- Non-vacuity: 3 → 6 → 3 cells on [0, 1] returns the data. -/
example : resampling (refineRan [((0 : ℚ), (1 : ℚ), 3, 2)]) (refineDom [((0 : ℚ), (1 : ℚ), 3, 2)])
    (fun idx => ([5, 7, 11] : List ℚ).getD (idx.headD 0 / 2) 0) = [5, 7, 11] := by decide +kernel

/-- `linear_deform(template, displacement, interp)` as executed (`linearDeform`: displaced points
`space.points() + displacement`, transposition, dispatch of `per_axis_interpolator`, `(d, N)`
point-array convention) is the single-point interpolant of the template at every displaced grid
point `x + v(x)`, in C order — every dimension `d ≥ 1`, scheme mix, non-uniform grid; the
displacement has one entry per axis at every point. -/
theorem C15.deform_samples_interpolant (axes : List (Axis K)) (hg : ∀ a ∈ axes, a.Good)
    (hne : axes ≠ []) (v : List Nat → V) (disp : List (List K))
    (hlen : ∀ p ∈ deformedPoints axes disp, p.length = axes.length) :
    linearDeform axes v disp = (deformedPoints axes disp).map (perAxisInterp axes v) := by
  unfold linearDeform
  rw [perAxisInterpolatorArray_eq axes hg v _ (transposePts_length _ _),
    columns_transposePts axes.length (List.length_pos_iff.mpr hne) _ hlen]

/-- Non-vacuity: a 2-d grid, the displacement matrix has one row per axis and one entry per grid
point; every displaced point has two coordinates. -/
example : let ax : List (Axis ℚ) := [uniformAxis 0 1 2 .linear, uniformAxis 0 1 2 .nearest]
    ∀ p ∈ deformedPoints ax [[1 / 8, 0, 0, -1 / 8], [0, 1 / 4, 0, 0]], p.length = ax.length := by
  decide +kernel

/-- `linear_deform` with a zero displacement field returns the template (flat, C order), for
every scheme mix, dimension and non-uniform grid: the displaced points `space.points() + 0` are
the grid points and every interpolator reproduces node values. -/
theorem C15.deform_zero_identity (axes : List (Axis K)) (hg : ∀ a ∈ axes, a.Good) (hne : axes ≠ [])
    (v : List Nat → V) (disp : List (List K))
    (hd : columns disp = (gridPoints axes).map (fun p => p.map (fun _ => (0 : K)))) :
    linearDeform axes v disp = (allIdx axes).map v := by
  have hpts : deformedPoints axes disp = gridPoints axes := by
    unfold deformedPoints
    rw [hd, zipWith_add_zero]
  rw [C15.deform_samples_interpolant axes hg hne v disp (by rw [hpts]; exact gridPoints_length axes),
    hpts, gridPoints_eq, List.map_map, allIdx]
  apply List.map_congr_left
  intro idx hidx
  have hv : ValidIdx axes idx := mem_allIdx_lt axes idx hidx
  exact (C15.interp_node_exact axes hg idx hv).1 v

/-- Non-vacuity: the zero field on `uniform_discr(0, 1, 3)` (one component, three entries). -/
example : columns [[(0 : ℚ), 0, 0]] =
    (gridPoints [uniformAxis (0 : ℚ) 1 3 .linear]).map (fun p => p.map (fun _ => (0 : ℚ))) := by
  decide +kernel

/-- `linear_deform` with a displacement that moves every grid point onto a grid point (e.g. whole
strides of a uniform grid, the docstring example "the value is taken from one cell to the left"):
the result is the template re-indexed, `out[idx] = template[σ idx]`, for every scheme mix, dimension
and non-uniform grid (`σ` any map of valid multi-indices to valid multi-indices). -/
theorem C15.deform_onto_nodes (axes : List (Axis K)) (hg : ∀ a ∈ axes, a.Good) (hne : axes ≠ [])
    (v : List Nat → V) (disp : List (List K)) (σ : List Nat → List Nat)
    (hσ : ∀ idx, ValidIdx axes idx → ValidIdx axes (σ idx))
    (hd : deformedPoints axes disp = (allIdx axes).map (fun idx => gridPoint axes (σ idx))) :
    linearDeform axes v disp = (allIdx axes).map (fun idx => v (σ idx)) := by
  have hlen : ∀ p ∈ deformedPoints axes disp, p.length = axes.length := by
    rw [hd]
    intro p hp
    obtain ⟨idx, hidx, rfl⟩ := List.mem_map.mp hp
    have hv := hσ idx (mem_allIdx_lt axes idx hidx)
    simp only [gridPoint, List.length_zipWith, hv.length_eq, Nat.min_self]
  rw [C15.deform_samples_interpolant axes hg hne v disp hlen, hd, List.map_map]
  apply List.map_congr_left
  intro idx hidx
  exact (C15.interp_node_exact axes hg (σ idx) (hσ idx (mem_allIdx_lt axes idx hidx))).1 v

/-- Non-vacuity: the docstring example of `linear_deform`: on `uniform_discr(0, 1, 5)` the
displacement (0, 0, 0, -1/5, 0) moves node 3 onto node 2. -/
example : deformedPoints [uniformAxis (0 : ℚ) 1 5 .linear] [[0, 0, 0, -1 / 5, 0]] =
    (allIdx [uniformAxis (0 : ℚ) 1 5 .linear]).map
      (fun idx => gridPoint [uniformAxis (0 : ℚ) 1 5 .linear] (if idx = [3] then [2] else idx)) := by
  decide +kernel

/-- `linear_deform` of an affine template with linear interpolation is the affine function at the
displaced points `x + v(x)`, whenever these stay in the hull of the grid nodes (any dimension,
non-uniform grids). -/
theorem C15.deform_affine_exact (axes : List (Axis K))
    (hg : ∀ a ∈ axes, a.Good ∧ a.scheme = .linear) (hne : axes ≠ []) (disp : List (List K))
    (hin : ∀ p ∈ deformedPoints axes disp, InHull axes p)
    (a0 : V) (bs : List V) (hb : bs.length = axes.length) (v : List Nat → V)
    (hv : ∀ idx, ValidIdx axes idx → v idx = affineAt a0 (gridPoint axes idx) bs) :
    linearDeform axes v disp = (deformedPoints axes disp).map (fun p => affineAt a0 p bs) := by
  rw [C15.deform_samples_interpolant axes (fun a ha => (hg a ha).1) hne v disp
    (fun p hp => (hin p hp).length_eq.symm)]
  apply List.map_congr_left
  intro p hp
  exact C15.linear_affine_exact axes hg a0 bs hb v hv p (hin p hp)

/-- Non-vacuity: on `uniform_discr(0, 1, 4)` the displacement (1/8, 0, -1/8, -1/4) moves the nodes
to 1/4, 3/8, 1/2, 5/8, all inside the hull [1/8, 7/8]. -/
example : deformedPoints [uniformAxis (0 : ℚ) 1 4 .linear] [[1 / 8, 0, -1 / 8, -1 / 4]] =
      [[1 / 4], [3 / 8], [1 / 2], [5 / 8]] ∧
    InHull [uniformAxis (0 : ℚ) 1 4 .linear] [1 / 4] := by
  refine ⟨by decide +kernel, .cons ?_ .nil⟩
  norm_num [uniformAxis, uniformNode]
end
