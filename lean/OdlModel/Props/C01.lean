/-
C01 — vector arithmetic is entry-wise exact under every aliasing pattern.
Property theorems only.  The dispatch program, thresholds and the fallback-axpy form are
the GENERATED ones (`Gen/LincombTree.lean`), so these theorems are re-checked against
what `/repo/odl/space/npy_tensors.py` says on every run.
-/
import OdlModel.Model.Lincomb
import OdlModel.Gen.LincombTree
import Mathlib.Tactic.Ring
import Mathlib.Tactic.LinearCombination
import Mathlib.Tactic.FieldSimp
import OdlModel.Model.ElemOps
import OdlModel.Lemmas.CRat
import OdlModel.Gen.LincombFront
import OdlModel.Gen.Broadcast
import OdlModel.Gen.OpFront
import OdlModel.Lemmas.OpFront

namespace OdlModel.C01
open OdlModel.Lincomb OdlModel.Gen.Lincomb

/-- The specification: `out` holds `a*x1 + b*x2` entry-wise (computed from the PRE-state),
every buffer other than `out` is untouched. -/
def Spec {K : Type} [CommRing K] (A : Args) (a b : K) (m m' : Mem K) : Prop :=
  (∀ i, m' A.out i = a * m A.x1 i + b * m A.x2 i) ∧ (∀ buf, buf ≠ A.out → m' buf = m buf)

/-- What the element layer assumes about a space's `_lincomb`: it satisfies `Spec` for
every aliasing pattern. For tensor spaces this is `C01.lincomb_correct` (see
`C01.tensor_lincomb_spec`), so the element-layer theorems below are closed for tensor (and
discretized, which delegate) spaces. For product spaces the component-wise `_lincomb` is
treated separately (`C01.plincomb_correct`, over lists of part buffers); the element layer
is NOT instantiated for them by a theorem — there it is tied by correspondence only. -/
def LCSpec {K : Type} [CommRing K] (lc : OdlModel.ElemOps.LC K) : Prop :=
  ∀ A a b m, ∃ m', lc A a b m = some m' ∧ Spec A a b m m'

/-- Descriptor of three C- and F-contiguous float arrays (used by the `example`s). -/
abbrev contigD : Desc := ⟨⟨true, true⟩, ⟨true, true⟩, ⟨true, true⟩, false, false, false⟩

end OdlModel.C01

open OdlModel.Lincomb OdlModel.Gen.Lincomb OdlModel.C01 OdlModel.ElemOps

/-! ## `_blas_is_applicable` (extracted) guarantees that BLAS writes reach `out` -/

/-- The extracted predicate implies what its docstring promises: equal BLAS dtypes, sizes
within int32, and all three arrays contiguous in one common order. -/
theorem C01.blas_applicable_sound (d : Desc) (h : blasTree.eval d = true) :
    d.dtypesDiffer = false ∧ d.dtypeNotBlas = false ∧ d.tooBig = false ∧
      (d.allF = true ∨ d.allC = true) := by
  simp only [blasTree, BTree.eval, BCond.eval] at h
  cases h1 : d.dtypesDiffer <;> cases h2 : d.dtypeNotBlas <;> cases h3 : d.tooBig <;>
    cases h4 : d.allF <;> cases h5 : d.allC <;> simp_all

/-- Whenever the BLAS regime is entered, `out.data.ravel(ravel_order)` is a view of
`out.data` (so the in-place BLAS routines write into `out`), whatever the layouts of the
operands: this is the reason for the contiguity clause of `_blas_is_applicable`. -/
theorem C01.blas_writes_through (d : Desc) (h : blasTree.eval d = true) :
    outRavelIsView d = true := by
  obtain ⟨_, _, _, hc⟩ := C01.blas_applicable_sound d h
  unfold outRavelIsView
  rcases hc with hf | hc
  · simp only [Desc.allF, Bool.and_eq_true] at hf; simp [hf.2]
  · simp only [Desc.allC, Bool.and_eq_true] at hc
    cases hlf : d.lo.fContig <;> simp [hc.2]

/-- The contiguity clause is needed: a descriptor that passes every other test but has a
strided `out` would lose the result (sensitivity; non-vacuity of the layout model). -/
example : ∃ d : Desc, d.dtypesDiffer = false ∧ d.dtypeNotBlas = false ∧ d.tooBig = false ∧
    outRavelIsView d = false ∧ blasTree.eval d = false :=
  ⟨⟨⟨true, true⟩, ⟨true, true⟩, ⟨false, false⟩, false, false, false⟩, by decide⟩

/-! ## The dispatch program and the whole function -/

/-- The extracted dispatch program is correct for either axpy form (guarded or BLAS), all
alias patterns, all scalars, all contents, provided the recursive call — which the program
makes only when `x1 is x2` and `b ≠ 0`, and then with second scalar `0` — is correct. -/
theorem C01.dispatch_correct {K : Type} [CommRing K] [DecidableEq K]
    (g : Bool) (self : Args → K → K → Mem K → Option (Mem K))
    (A : Args) (a b : K) (m : Mem K)
    (hself : A.x1 = A.x2 → b ≠ 0 →
      ∃ m', self { A with x2 := A.x1 } (a + b) 0 m = some m' ∧
        Spec { A with x2 := A.x1 } (a + b) 0 m m') :
    ∃ m', exec g self prog A a b m = some m' ∧ Spec A a b m m' := by
  obtain ⟨x1, x2, out⟩ := A
  by_cases hrec : x1 = x2 ∧ b ≠ 0
  · obtain ⟨h12, hb⟩ := hrec
    subst h12
    obtain ⟨m', e, s1, s2⟩ := hself rfl hb
    refine ⟨m', ?_, ?_, s2⟩
    · simp only [prog, exec, Cond.eval]; simp [hb, e]
    · intro i; rw [s1 i]; simp only []; ring
  · simp only [prog, exec, Cond.eval, Coef.val, Src.buf, Spec]
    by_cases h12 : x1 = x2 <;> by_cases ho1 : out = x1 <;> by_cases ho2 : out = x2 <;>
    simp [h12, ho1, ho2] <;>
    split_ifs <;> simp_all [Mem.write, scalPrim, axpyPrim] <;> grind

/-- The extracted small-size branch (direct NumPy expressions, the right-hand side evaluated
before the assignment) is correct for all alias patterns, scalars and contents; it never
recurses. Terms the code omits (`b == 0`: `out = a * x1`) are omitted in the model too. -/
theorem C01.small_correct {K : Type} [CommRing K] [DecidableEq K]
    (g : Bool) (self : Args → K → K → Mem K → Option (Mem K))
    (A : Args) (a b : K) (m : Mem K) :
    ∃ m', exec g self progSmall A a b m = some m' ∧ Spec A a b m m' := by
  obtain ⟨x1, x2, out⟩ := A
  simp only [progSmall, exec, Cond.eval, Spec]
  split_ifs <;> simp_all [Mem.write] <;> grind

theorem C01.regime_blas (s : Nat) (bo : Bool)
    (h : regime thrSmall thrMedium s bo = .blas) : bo = true := by
  unfold regime at h
  split_ifs at h with h1 h2
  cases bo <;> simp_all

/-- One level of `_lincomb_impl` is correct if (when `b ≠ 0`, the only case that recurses)
the level below is correct for second scalar `0`. -/
theorem C01.implF_step {K : Type} [CommRing K] [DecidableEq K]
    (size : Nat) (d : Desc) (f : Nat) (A : Args) (a b : K) (m : Mem K)
    (hrec : b ≠ 0 → ∀ A (a : K) m,
      ∃ m', lincombImplF params size d f A a 0 m = some m' ∧ Spec A a 0 m m') :
    ∃ m', lincombImplF params size d (f + 1) A a b m = some m' ∧ Spec A a b m m' := by
  simp only [lincombImplF]
  by_cases hz : (params.zeroGuard && decide (a = 0) && decide (b = 0)) = true
  · rw [if_pos hz]
    simp only [Bool.and_eq_true, decide_eq_true_eq] at hz
    refine ⟨_, rfl, ?_, ?_⟩
    · intro i; simp [Mem.write, hz.1.2, hz.2]
    · intro buf h; simp [Mem.write, h]
  · rw [if_neg hz]
    cases hreg : regime params.thrSmall params.thrMedium size (params.blasTree.eval d)
    · exact C01.small_correct false _ A a b m
    · exact C01.dispatch_correct _ _ A a b m (fun _ hb => hrec hb _ _ m)
    · have hb : blasTree.eval d = true := C01.regime_blas size _ hreg
      obtain ⟨m', e, hs⟩ := C01.dispatch_correct false (lincombImplF params size d f) A a b m
        (fun _ hb => hrec hb _ _ m)
      refine ⟨m', ?_, hs⟩
      simp only [params] at e ⊢
      rw [e]; simp [C01.blas_writes_through d hb]

/-- Main theorem: for every commutative ring (ℤ, ℚ, ℝ, ℂ, …), every size and every array
descriptor (dtypes, contiguity flags: hence every regime selected by the extracted
thresholds and the extracted `_blas_is_applicable`), every identity-aliasing pattern of
`(x1, x2, out)` (arbitrary buffer ids), all scalars and all buffer contents,
`_lincomb_impl` — including its recursive re-entry and the zero guard — terminates and
establishes the specification: `out = a*x1 + b*x2` entry-wise from the pre-state, nothing
else modified. -/
theorem C01.lincomb_correct {K : Type} [CommRing K] [DecidableEq K]
    (size : Nat) (d : Desc) (A : Args) (a b : K) (m : Mem K) :
    ∃ m', lincombImpl params size d A a b m = some m' ∧ Spec A a b m m' := by
  unfold lincombImpl
  exact C01.implF_step size d 2 A a b m
    (fun _ A a m => C01.implF_step size d 1 A a 0 m (fun h => absurd rfl h))

/-- Operands that are not the output are never modified. -/
theorem C01.lincomb_frame {K : Type} [CommRing K] [DecidableEq K]
    (size : Nat) (d : Desc) (A : Args) (a b : K) (m m' : Mem K)
    (h : lincombImpl params size d A a b m = some m') :
    (A.x1 ≠ A.out → m' A.x1 = m A.x1) ∧ (A.x2 ≠ A.out → m' A.x2 = m A.x2) := by
  obtain ⟨m'', h1, _, h3⟩ := C01.lincomb_correct size d A a b m
  rw [h] at h1; cases h1
  exact ⟨fun h => h3 _ h, fun h => h3 _ h⟩

/-- The previous contents of a non-aliased output never influence the result: two
pre-states that agree on the operand buffers give the same output. -/
theorem C01.lincomb_out_independent {K : Type} [CommRing K] [DecidableEq K]
    (size : Nat) (d : Desc) (A : Args) (a b : K) (m₁ m₂ m₁' m₂' : Mem K)
    (hx1 : m₁ A.x1 = m₂ A.x1) (hx2 : m₁ A.x2 = m₂ A.x2)
    (h₁ : lincombImpl params size d A a b m₁ = some m₁')
    (h₂ : lincombImpl params size d A a b m₂ = some m₂') :
    m₁' A.out = m₂' A.out := by
  obtain ⟨n₁, e₁, s₁, _⟩ := C01.lincomb_correct size d A a b m₁
  obtain ⟨n₂, e₂, s₂, _⟩ := C01.lincomb_correct size d A a b m₂
  rw [h₁] at e₁; rw [h₂] at e₂; cases e₁; cases e₂
  funext i; rw [s₁ i, s₂ i, hx1, hx2]

/-- Every regime is reachable at the extracted thresholds (non-vacuity). -/
theorem C01.regimes_reachable :
    regime thrSmall thrMedium (thrSmall - 1) true = .small ∧
    regime thrSmall thrMedium thrSmall true = .fallback ∧
    regime thrSmall thrMedium thrMedium false = .fallback ∧
    regime thrSmall thrMedium thrMedium true = .blas := by
  decide

/-- Non-vacuity: a concrete fully aliased integer state in the fallback regime. -/
example : ∃ m', lincombImpl params 100 ⟨⟨true, true⟩, ⟨true, true⟩, ⟨true, true⟩, false, true, false⟩
    ⟨0, 0, 0⟩ (2 : Int) (-2) (fun _ i => (i : Int)) = some m' ∧ m' 0 5 = 0 := by
  obtain ⟨m', h, s, _⟩ := C01.lincomb_correct (K := Int) 100
    ⟨⟨true, true⟩, ⟨true, true⟩, ⟨true, true⟩, false, true, false⟩ ⟨0, 0, 0⟩ 2 (-2)
    (fun _ i => (i : Int))
  exact ⟨m', h, by rw [s]; simp⟩

/-! ## Element-level arithmetic (`odl/set/space.py`) on top of a correct `_lincomb` -/

/-- The tensor-space `_lincomb` (extracted program, any size/regime) satisfies `LCSpec`. -/
theorem C01.tensor_lincomb_spec {K : Type} [CommRing K] [DecidableEq K] (size : Nat) (d : Desc) :
    LCSpec (K := K) (fun A a b m => lincombImpl params size d A a b m) :=
  fun A a b m => C01.lincomb_correct size d A a b m

section
variable {K : Type} [Field K] [DecidableEq K]

/-- `space.lincomb(a, x, out=out)` (the `b is None` form) yields `a*x`. -/
theorem C01.lincomb1_ok (lc : LC K) (h : LCSpec lc) (a : K) (x out : Nat) (m : Mem K) :
    ∃ m', lincomb1 lc a x out m = some m' ∧ (∀ i, m' out i = a * m x i) ∧
      ∀ buf, buf ≠ out → m' buf = m buf := by
  obtain ⟨m', e, s1, s2⟩ := h ⟨x, x, out⟩ a 0 m
  exact ⟨m', e, fun i => by rw [s1 i]; simp, s2⟩

/-- Where exact arithmetic defines the quotient: a scalar divisor is non-zero (Python raises
`ZeroDivisionError` otherwise, see `C01.div_by_zero_scalar_raises`), an element divisor has no
zero entry (NumPy would produce inf/nan, outside exact arithmetic). -/
def DivOK (op : Op) (c : K) (u v : Vec K) : Prop :=
  match op with
  | .divS | .idivS => c ≠ 0
  | .divE | .idivE => ∀ i, v i ≠ 0
  | .rdivS | .rdivE => ∀ i, u i ≠ 0
  | _ => True

/-- Every `LinearSpaceElement` operator (modelled from the selected branch on, with the
temporaries the code allocates), over any space whose `_lincomb` meets its specification:
the call succeeds, returns the documented object (`self` for in-place forms, a fresh
element otherwise), that object holds the entry-wise formula `Op.spec` computed from the
PRE-state — also when `other is self` (`y = x`) — and no other existing buffer is
modified. Division is claimed only where `DivOK` holds. -/
theorem C01.elem_op_correct (lc : LC K) (h : LCSpec lc) (op : Op) (x y t : Nat) (c : K) (m : Mem K)
    (hx : t ≠ x) (hy : t ≠ y) (hdiv : DivOK op c (m x) (m y)) :
    ∃ m' r, op.exec lc x y t c m = some (m', r) ∧ r = (if op.inPlace then x else t) ∧
      (∀ i, m' r i = op.spec c (m x i) (m y i)) ∧
      (∀ buf, buf ≠ r → buf ≠ t → m' buf = m buf) := by
  have hx' : x ≠ t := Ne.symm hx
  have hy' : y ≠ t := Ne.symm hy
  cases op
  case addE =>
    obtain ⟨m', e, s1, s2⟩ := h ⟨x, y, t⟩ 1 1 m
    exact ⟨m', t, by simp [Op.exec, e], by simp [Op.inPlace], by simpa [Op.spec] using s1, fun b hb _ => s2 b hb⟩
  case subE =>
    obtain ⟨m', e, s1, s2⟩ := h ⟨x, y, t⟩ 1 (-1) m
    exact ⟨m', t, by simp [Op.exec, e], by simp [Op.inPlace], by simpa [Op.spec] using s1, fun b hb _ => s2 b hb⟩
  case mulE =>
    exact ⟨_, t, rfl, by simp [Op.inPlace], by simp [Op.spec, multiply, Mem.write], fun b hb _ => by simp [multiply, Mem.write, hb]⟩
  case divE =>
    exact ⟨_, t, rfl, by simp [Op.inPlace], by simp [Op.spec, divide, Mem.write], fun b hb _ => by simp [divide, Mem.write, hb]⟩
  case rsubE =>
    obtain ⟨m', e, s1, s2⟩ := h ⟨y, x, t⟩ 1 (-1) m
    exact ⟨m', t, by simp [Op.exec, e], by simp [Op.inPlace], by simpa [Op.spec] using s1, fun b hb _ => s2 b hb⟩
  case rdivE =>
    exact ⟨_, t, rfl, by simp [Op.inPlace], by simp [Op.spec, divide, Mem.write], fun b hb _ => by simp [divide, Mem.write, hb]⟩
  case addS =>
    obtain ⟨m', e, s1, s2⟩ := h ⟨x, t, t⟩ 1 c (one t m)
    refine ⟨m', t, by simp [Op.exec, e], by simp [Op.inPlace], ?_, ?_⟩
    · intro i; have := s1 i; simp [one, Mem.write, hx'] at this; simp [Op.spec, this]
    · intro b hb _; have := s2 b hb; simp [one, Mem.write, hb] at this; exact this
  case subS =>
    obtain ⟨m', e, s1, s2⟩ := h ⟨x, t, t⟩ 1 (-c) (one t m)
    refine ⟨m', t, by simp [Op.exec, e], by simp [Op.inPlace], ?_, ?_⟩
    · intro i; have := s1 i; simp [one, Mem.write, hx'] at this; simp [Op.spec, this]
    · intro b hb _; have := s2 b hb; simp [one, Mem.write, hb] at this; exact this
  case rsubS =>
    obtain ⟨m1, e1, s1, f1⟩ := C01.lincomb1_ok lc h c t t (one t m)
    obtain ⟨m', e, s2, f2⟩ := h ⟨t, x, t⟩ 1 (-1) m1
    refine ⟨m', t, by simp [Op.exec, e1, e], by simp [Op.inPlace], ?_, ?_⟩
    · intro i; have := s2 i; simp only [] at this
      rw [this, s1 i, f1 x hx']; simp [one, Mem.write, hx', Op.spec]
    · intro b hb _; rw [f2 b hb, f1 b hb]; simp [one, Mem.write, hb]
  case mulS =>
    obtain ⟨m', e, s1, f1⟩ := C01.lincomb1_ok lc h c x t m
    exact ⟨m', t, by simp [Op.exec, e], by simp [Op.inPlace], by simpa [Op.spec] using s1, fun b hb _ => f1 b hb⟩
  case divS =>
    have hc : c ≠ 0 := hdiv
    obtain ⟨m', e, s1, f1⟩ := C01.lincomb1_ok lc h (1 / c) x t m
    exact ⟨m', t, by simp only [Op.exec, if_neg hc, e, Option.map_some], by simp [Op.inPlace], by simpa [Op.spec] using s1, fun b hb _ => f1 b hb⟩
  case rdivS =>
    obtain ⟨m1, e1, s1, f1⟩ := C01.lincomb1_ok lc h c t t (one t m)
    refine ⟨divide t x t m1, t, by simp [Op.exec, e1], by simp [Op.inPlace], ?_, ?_⟩
    · intro i; simp [divide, Mem.write, s1 i, f1 x hx', one, hx', Op.spec]
    · intro b hb _; simp [divide, Mem.write, hb, f1 b hb, one]
  case iaddE =>
    obtain ⟨m', e, s1, s2⟩ := h ⟨x, y, x⟩ 1 1 m
    exact ⟨m', x, by simp [Op.exec, e], by simp [Op.inPlace], by simpa [Op.spec] using s1, fun b hb _ => s2 b hb⟩
  case isubE =>
    obtain ⟨m', e, s1, s2⟩ := h ⟨x, y, x⟩ 1 (-1) m
    exact ⟨m', x, by simp [Op.exec, e], by simp [Op.inPlace], by simpa [Op.spec] using s1, fun b hb _ => s2 b hb⟩
  case imulE =>
    exact ⟨_, x, rfl, by simp [Op.inPlace], by simp [Op.spec, multiply, Mem.write], fun b hb _ => by simp [multiply, Mem.write, hb]⟩
  case idivE =>
    exact ⟨_, x, rfl, by simp [Op.inPlace], by simp [Op.spec, divide, Mem.write], fun b hb _ => by simp [divide, Mem.write, hb]⟩
  case iaddS =>
    obtain ⟨m', e, s1, s2⟩ := h ⟨x, t, x⟩ 1 c (one t m)
    refine ⟨m', x, by simp [Op.exec, e], by simp [Op.inPlace], ?_, ?_⟩
    · intro i; have := s1 i; simp [one, Mem.write, hx'] at this; simp [Op.spec, this]
    · intro b hb hbt; have := s2 b hb; simp [one, Mem.write, hbt] at this; exact this
  case isubS =>
    obtain ⟨m', e, s1, s2⟩ := h ⟨x, t, x⟩ 1 (-c) (one t m)
    refine ⟨m', x, by simp [Op.exec, e], by simp [Op.inPlace], ?_, ?_⟩
    · intro i; have := s1 i; simp [one, Mem.write, hx'] at this; simp [Op.spec, this]
    · intro b hb hbt; have := s2 b hb; simp [one, Mem.write, hbt] at this; exact this
  case imulS =>
    obtain ⟨m', e, s1, f1⟩ := C01.lincomb1_ok lc h c x x m
    exact ⟨m', x, by simp [Op.exec, e], by simp [Op.inPlace], by simpa [Op.spec] using s1, fun b hb _ => f1 b hb⟩
  case idivS =>
    have hc : c ≠ 0 := hdiv
    obtain ⟨m', e, s1, f1⟩ := C01.lincomb1_ok lc h (1 / c) x x m
    exact ⟨m', x, by simp only [Op.exec, if_neg hc, e, Option.map_some], by simp [Op.inPlace], by simpa [Op.spec] using s1, fun b hb _ => f1 b hb⟩
  case neg =>
    obtain ⟨m', e, s1, f1⟩ := C01.lincomb1_ok lc h (-1) x t m
    exact ⟨m', t, by simp [Op.exec, e], by simp [Op.inPlace], by simpa [Op.spec] using s1, fun b hb _ => f1 b hb⟩
  case pos =>
    obtain ⟨m', e, s1, f1⟩ := C01.lincomb1_ok lc h 1 x t m
    exact ⟨m', t, by simp [Op.exec, e], by simp [Op.inPlace], by simpa [Op.spec] using s1, fun b hb _ => f1 b hb⟩
  case setZero =>
    obtain ⟨m', e, s1, s2⟩ := h ⟨x, x, x⟩ 0 0 m
    exact ⟨m', x, by simp [Op.exec, e], by simp [Op.inPlace], by simpa [Op.spec] using s1, fun b hb _ => s2 b hb⟩
  case assign =>
    obtain ⟨m', e, s1, f1⟩ := C01.lincomb1_ok lc h 1 y x m
    exact ⟨m', x, by simp [Op.exec, e], by simp [Op.inPlace], by simpa [Op.spec] using s1, fun b hb _ => f1 b hb⟩

/-- ARRAY-LIKE operands (`x + [1, 2, 3]`, `[..] - x`, `x *= arr`): the coercion branch
`other = self.space.element(other)` followed by re-entry at the element branch gives the same
entry-wise formula with the values `v` of the array-like, returns `self` / a fresh element as
for an element operand, and modifies no pre-existing buffer except the returned one (`t2` is
the buffer `space.element` wraps; for an `ndarray` operand that is the caller's array, and it
is only read: its contents are `v` before and after). Meaningful for the element-operand
operators (`…E`); follows from `C01.elem_op_correct` on the memory after the coercion. -/
theorem C01.elem_op_coerced_correct (lc : LC K) (h : LCSpec lc) (op : Op) (x t2 t : Nat)
    (v : Vec K) (m : Mem K) (hx : t ≠ x) (h2x : t2 ≠ x) (h2t : t ≠ t2)
    (hdiv : DivOK op 0 (m x) v) :
    ∃ m' r, Op.execCoerced lc op x t2 t v m = some (m', r) ∧
      r = (if op.inPlace then x else t) ∧
      (∀ i, m' r i = op.spec 0 (m x i) (v i)) ∧
      (∀ buf, buf ≠ r → buf ≠ t → buf ≠ t2 → m' buf = m buf) := by
  have e1 : (m.write t2 v) x = m x := by simp [Mem.write, Ne.symm h2x]
  have e2 : (m.write t2 v) t2 = v := by simp [Mem.write]
  obtain ⟨m', r, e, hr, s, f⟩ := C01.elem_op_correct lc h op x t2 t 0 (m.write t2 v) hx h2t
    (by rw [e1, e2]; exact hdiv)
  refine ⟨m', r, e, hr, fun i => ?_, fun b hb hbt hb2 => ?_⟩
  · rw [s i, e1, e2]
  · rw [f b hb hbt]; simp [Mem.write, hb2]

/-- Non-vacuity: `[8, 8, 8] / x` (→ `rdivE` after coercion) through the extracted `_lincomb`. -/
example : ∃ m' r, Op.execCoerced (K := Rat) (fun A a b m => lincombImpl params 3 contigD A a b m)
      .rdivE 0 1 2 (fun _ => 8) (fun _ i => (i : Rat) + 2) = some (m', r) ∧ m' r 2 = 2 := by
  obtain ⟨m', r, e, _, s, _⟩ := C01.elem_op_coerced_correct (K := Rat) _
    (C01.tensor_lincomb_spec 3 contigD) .rdivE 0 1 2 (fun _ => 8) (fun _ i => (i : Rat) + 2)
    (by decide) (by decide) (by decide)
    (by intro i; show ((i : ℕ) : ℚ) + 2 ≠ 0; exact_mod_cast (by omega : i + 2 ≠ 0))
  exact ⟨m', r, e, by rw [s 2]; norm_num [Op.spec]⟩

/-- `x / 0` and `x /= 0` with a scalar zero raise (Python's `1.0 / other`). -/
theorem C01.div_by_zero_scalar_raises (lc : LC K) (x y t : Nat) (m : Mem K) :
    Op.exec lc .divS x y t 0 m = none ∧ Op.exec lc .idivS x y t 0 m = none := by
  simp [Op.exec]

/-- The loop `for _ in range(k): tmp *= self` multiplies `tmp` by `self^k` and touches
nothing else. -/
theorem C01.mulLoop_ok (x t : Nat) (hx : t ≠ x) (k : Nat) (m : Mem K) :
    (∀ i, mulLoop x t k m t i = m t i * (m x i) ^ k) ∧
    (∀ buf, buf ≠ t → mulLoop x t k m buf = m buf) := by
  induction k generalizing m with
  | zero => simp [mulLoop]
  | succ k ih =>
    obtain ⟨h1, h2⟩ := ih (multiply x t t m)
    refine ⟨fun i => ?_, fun b hb => ?_⟩
    · simp only [mulLoop]; rw [h1 i]; simp [multiply, Mem.write, Ne.symm hx]; ring
    · simp only [mulLoop]; rw [h2 b hb]; simp [multiply, Mem.write, hb]

/-- `x **= p` for every natural exponent, following the code's recursion (`p = 0`: assign
one; `p = 1`: nothing; even: square then recurse on `p // 2`; odd: copy, loop, multiply):
`x` holds the entry-wise `p`-th power, nothing but `x` and the temporary is modified. By
strong induction on `p`. -/
theorem C01.ipow_correct (lc : LC K) (h : LCSpec lc) (x t : Nat) (hx : t ≠ x) (p : Nat) (m : Mem K) :
    ∃ m', ipow lc x t p m = some m' ∧ (∀ i, m' x i = (m x i) ^ p) ∧
      (∀ buf, buf ≠ x → buf ≠ t → m' buf = m buf) := by
  induction p using Nat.strong_induction_on generalizing m with
  | _ p ih =>
    unfold ipow
    split_ifs with h0 h1 h2
    · obtain ⟨m', e, s1, f1⟩ := C01.lincomb1_ok lc h 1 t x (one t m)
      refine ⟨m', e, fun i => ?_, fun b hb hbt => ?_⟩
      · rw [s1 i, h0]; simp [one, Mem.write]
      · rw [f1 b hb]; simp [one, Mem.write, hbt]
    · exact ⟨m, rfl, fun i => by simp [h1], fun _ _ _ => rfl⟩
    · obtain ⟨m', e, s1, f1⟩ := ih (p / 2) (by omega) (multiply x x x m)
      refine ⟨m', e, fun i => ?_, fun b hb hbt => ?_⟩
      · rw [s1 i]; simp only [multiply, Mem.write, if_true]
        rw [← pow_two, ← pow_mul]; congr 1; omega
      · rw [f1 b hb hbt]; simp [multiply, Mem.write, hb]
    · obtain ⟨m1, e1, s1, f1⟩ := C01.lincomb1_ok lc h 1 x t m
      obtain ⟨l1, l2⟩ := C01.mulLoop_ok (K := K) x t hx (p - 2) m1
      refine ⟨multiply t x x (mulLoop x t (p - 2) m1), by simp [e1], fun i => ?_, fun b hb hbt => ?_⟩
      · simp only [multiply, Mem.write, if_true]
        rw [l1 i, l2 x (Ne.symm hx), s1 i, f1 x (Ne.symm hx)]
        have : p = (p - 2) + 2 := by omega
        conv_rhs => rw [this]
        ring
      · simp only [multiply, Mem.write, hb, if_false]
        rw [l2 b hbt, f1 b hbt]

/-- `x **= p` for every INTEGER exponent: for `p < 0` the code computes `x **= -p` and then
`divide(one(), x, out=x)`; if no entry of `x` is zero, `x` ends up holding the entry-wise
`x^p` (integer power in the field). -/
theorem C01.ipow_int_correct (lc : LC K) (h : LCSpec lc) (x t : Nat) (hx : t ≠ x) (p : Int)
    (m : Mem K) (hnz : p < 0 → ∀ i, m x i ≠ 0) :
    ∃ m', ipowInt lc x t p m = some m' ∧ (∀ i, m' x i = (m x i) ^ p) ∧
      (∀ buf, buf ≠ x → buf ≠ t → m' buf = m buf) := by
  unfold ipowInt
  by_cases hp : p < 0
  · rw [if_pos hp]
    obtain ⟨m1, e, s1, f1⟩ := C01.ipow_correct lc h x t hx (-p).toNat m
    refine ⟨_, by rw [e], fun i => ?_, fun b hb hbt => ?_⟩
    · simp only [divide, one, Mem.write, if_true]
      rw [if_neg (Ne.symm hx), s1 i]
      have hpn : p = -((-p).toNat : Int) := by omega
      conv_rhs => rw [hpn, zpow_neg, zpow_natCast]
      simp
    · simp only [divide, one, Mem.write, hb, hbt, if_false]
      exact f1 b hb hbt
  · rw [if_neg hp]
    obtain ⟨m1, e, s1, f1⟩ := C01.ipow_correct lc h x t hx p.toNat m
    refine ⟨m1, e, fun i => ?_, f1⟩
    rw [s1 i]
    have hpn : p = (p.toNat : Int) := by omega
    conv_rhs => rw [hpn, zpow_natCast]

end

/-! ## Product spaces: `ProductSpace._lincomb` is component-wise -/

section
variable {K : Type} [CommRing K]

/-- For product-space elements given by the buffer ids of their leaf parts: if no part
object occurs twice in `out` and part `i` of `out` is not part `j ≠ i` of an operand
("no part object occurs twice or crosswise" — this holds when `x`, `y`, `out` are each
either the same element or elements with disjoint parts; it EXCLUDES elements built from
shared part objects such as `P.element([a, a])` or `x = P.element([a, b])`,
`out = P.element([b, a])`, which the public API can construct and for which the
component-by-component loop does give a different result), then `ProductSpace._lincomb`
yields `a*x + b*y` on every part and touches nothing else. By induction over the component
list, so for any number of leaf components (nesting is flattened to leaves by the harness).
One `lc` is used for all components: it must satisfy the specification at every component
size (the tensor `_lincomb` does, for every size, by `C01.lincomb_correct`). -/
theorem C01.plincomb_correct (lc : LC K) (h : LCSpec lc) (a b : K) :
    ∀ (xs ys os : List Nat) (m : Mem K), xs.length = os.length → ys.length = os.length →
      os.Nodup →
      (∀ i j (hi : i < os.length) (_hj : j < os.length), i ≠ j →
          os[i] ≠ xs[j]! ∧ os[i] ≠ ys[j]!) →
      ∃ m', plincomb lc xs ys os a b m = some m' ∧
        (∀ k (hk : k < os.length) i, m' os[k] i = a * m xs[k]! i + b * m ys[k]! i) ∧
        (∀ buf, buf ∉ os → m' buf = m buf) := by
  intro xs ys os
  induction os generalizing xs ys with
  | nil =>
    intro m hx hy _ _
    have : xs = [] := List.length_eq_zero_iff.mp hx
    have : ys = [] := List.length_eq_zero_iff.mp hy
    subst_vars
    exact ⟨m, rfl, fun k hk => absurd hk (by simp), fun _ _ => rfl⟩
  | cons o os ih =>
    intro m hx hy hnd hdis
    match xs, ys, hx, hy with
    | x :: xs, y :: ys, hx, hy =>
      obtain ⟨m1, e1, s1, f1⟩ := h ⟨x, y, o⟩ a b m
      have hnd' := List.nodup_cons.mp hnd
      obtain ⟨m', e, s, f⟩ := ih xs ys m1 (by simpa using hx) (by simpa using hy) hnd'.2
        (fun i j hi hj hij => by
          have := hdis (i+1) (j+1) (by simpa using hi) (by simpa using hj) (by omega)
          simpa using this)
      refine ⟨m', by simp [plincomb, e1, e], ?_, ?_⟩
      · intro k hk i
        cases k with
        | zero =>
          simp only [List.getElem_cons_zero, List.getElem!_cons_zero] 
          rw [f o hnd'.1]; exact s1 i
        | succ k =>
          have hk' : k < os.length := by simpa using hk
          simp only [List.getElem_cons_succ, List.getElem!_cons_succ]
          rw [s k hk' i]
          have hd := hdis 0 (k+1) (by simp) hk (by omega)
          simp only [List.getElem_cons_zero, List.getElem!_cons_succ] at hd
          rw [f1 _ (Ne.symm hd.1), f1 _ (Ne.symm hd.2)]
      · intro buf hb
        have hb' : buf ≠ o ∧ buf ∉ os := by simpa [List.mem_cons, not_or] using hb
        rw [f buf hb'.2, f1 buf hb'.1]

end

/-! ## In-place power-space broadcasting (`x *= x[0]`, `x += other` …) -/

section
variable {K : Type} [Field K] [DecidableEq K]

/-- What one loop step `xi op= other` has to do: the part gets `g part other` computed from
the PRE-state (also when `xi is other`), nothing else but the scratch slot `t'` may change.
`ok` is the condition on the operand under which exact arithmetic defines the result. -/
def BStepOK (step : BStep K) (g : K → K → K) (ok : Vec K → Prop) (t' : Nat) : Prop :=
  ∀ p o m, t' ≠ p → t' ≠ o → ok (m o) →
    ∃ m', step p o m = some m' ∧ (∀ i, m' p i = g (m p i) (m o i)) ∧
      ∀ b, b ≠ p → b ≠ t' → m' b = m b

/-- The loop over the parts with an operand that is NOT one of the parts. -/
theorem C01.bcastLoop_ok (step : BStep K) (g : K → K → K) (ok : Vec K → Prop) (t' o : Nat)
    (hs : BStepOK step g ok t') :
    ∀ (ps : List Nat) (m : Mem K), ps.Nodup → o ∉ ps → t' ∉ ps → t' ≠ o → ok (m o) →
      ∃ m', bcastLoop step o ps m = some m' ∧ (∀ p ∈ ps, ∀ i, m' p i = g (m p i) (m o i)) ∧
        ∀ b, b ∉ ps → b ≠ t' → m' b = m b := by
  intro ps
  induction ps with
  | nil => intro m _ _ _ _ _; exact ⟨m, rfl, by simp, fun _ _ _ => rfl⟩
  | cons p ps ih =>
    intro m hnd ho ht' hto hok
    have hpo : o ≠ p := fun h => ho (by simp [h])
    have hops : o ∉ ps := fun h => ho (by simp [h])
    have htp : t' ≠ p := fun h => ht' (by simp [h])
    have htps : t' ∉ ps := fun h => ht' (by simp [h])
    have hpps : p ∉ ps := (List.nodup_cons.mp hnd).1
    obtain ⟨m1, e1, v1, f1⟩ := hs p o m htp hto hok
    have hm1o : m1 o = m o := f1 o hpo (Ne.symm hto)
    obtain ⟨m', e, v, f⟩ := ih m1 (List.nodup_cons.mp hnd).2 hops htps hto (by rw [hm1o]; exact hok)
    refine ⟨m', by simp [bcastLoop, e1, e], ?_, ?_⟩
    · intro q hq i
      rcases List.mem_cons.mp hq with rfl | hq
      · rw [f q hpps (Ne.symm htp), v1 i]
      · have hqp : q ≠ p := fun h => hpps (h ▸ hq)
        have hqt : q ≠ t' := fun h => htps (h ▸ hq)
        rw [v q hq i, f1 q hqp hqt, hm1o]
    · intro b hb hbt
      have hbp : b ≠ p := fun h => hb (by simp [h])
      have hbps : b ∉ ps := fun h => hb (by simp [h])
      rw [f b hbps hbt, f1 b hbp hbt]

/-- `x op= other` in a power space, with the copy guard AS EXTRACTED from
`_broadcast_arithmetic_impl` (`Gen.Broadcast.copyGuard`): for pairwise distinct part buffers
`ps`, any operand buffer `o` — one of the parts or not — and fresh buffers `t`, `t'`, every
part ends up holding `g part other` computed from the ORIGINAL contents of `other`, and no
buffer outside the parts and the two scratch slots changes (so an external operand is never
modified). Re-checked against the source on every run: without the guard the statement is
false (`C01.bcast_without_copy_fails`). -/
theorem C01.bcast_inplace_correct (lc : LC K) (h : LCSpec lc) (step : BStep K) (g : K → K → K)
    (ok : Vec K → Prop) (t' : Nat) (hs : BStepOK step g ok t')
    (ps : List Nat) (o t : Nat) (m : Mem K) (hnd : ps.Nodup) (ht : t ∉ ps) (hto : t ≠ o)
    (ht' : t' ∉ ps) (hto' : t' ≠ o) (htt : t' ≠ t) (hok : ok (m o)) :
    ∃ m', bcastInPlace lc step OdlModel.Gen.Broadcast.copyGuard ps o t m = some m' ∧
      (∀ p ∈ ps, ∀ i, m' p i = g (m p i) (m o i)) ∧
      ∀ b, b ∉ ps → b ≠ t → b ≠ t' → m' b = m b := by
  have hg : OdlModel.Gen.Broadcast.copyGuard = true := rfl
  unfold bcastInPlace
  by_cases hmem : o ∈ ps
  · have hc : (OdlModel.Gen.Broadcast.copyGuard && ps.contains o) = true := by
      simp [hg, hmem]
    rw [if_pos hc]
    obtain ⟨m1, e1, v1, f1⟩ := C01.lincomb1_ok lc h 1 o t m
    have hm1t : m1 t = m o := by funext i; rw [v1 i]; simp
    obtain ⟨m', e, v, f⟩ := C01.bcastLoop_ok step g ok t' t hs ps m1 hnd ht ht' htt
      (by rw [hm1t]; exact hok)
    refine ⟨m', by simp [e1, e], ?_, ?_⟩
    · intro p hp i
      have hpt : p ≠ t := fun h => ht (h ▸ hp)
      rw [v p hp i, f1 p hpt, hm1t]
    · intro b hb hbt hbt'
      rw [f b hb hbt', f1 b hbt]
  · have hc : ¬ ((OdlModel.Gen.Broadcast.copyGuard && ps.contains o) = true) := by
      simp [hmem]
    rw [if_neg hc]
    obtain ⟨m', e, v, f⟩ := C01.bcastLoop_ok step g ok t' o hs ps m hnd hmem ht' hto' hok
    exact ⟨m', e, v, fun b hb _ hbt' => f b hb hbt'⟩

/-- The four in-place element operators used by the broadcasting loop meet `BStepOK`
(from `C01.elem_op_correct`), division where the operand has no zero entry. -/
theorem C01.opStep_ok (lc : LC K) (h : LCSpec lc) (op : Op)
    (hop : op = .iaddE ∨ op = .isubE ∨ op = .imulE ∨ op = .idivE) (t' : Nat) :
    BStepOK (opStep lc op t') (fun u v => op.spec 0 u v)
      (fun v => op = .idivE → ∀ i, v i ≠ 0) t' := by
  intro p o m htp hto hok
  have hdiv : DivOK op 0 (m p) (m o) := by
    rcases hop with rfl | rfl | rfl | rfl <;> simp [DivOK] <;> exact hok rfl
  obtain ⟨m', r, e, hr, v, f⟩ := C01.elem_op_correct lc h op p o t' 0 m htp hto hdiv
  have hrp : r = p := by
    rcases hop with rfl | rfl | rfl | rfl <;> simpa [Op.inPlace] using hr
  subst hrp
  exact ⟨m', by simp [opStep, e], v, fun b hb hbt => f b hb hbt⟩

end

/-! ## Out-of-place power-space broadcasting (`x * other`, `other - x`, `x / x[0]` …) -/

section
variable {K : Type} [Field K] [DecidableEq K]

/-- What one out-of-place loop step `res = xi op other` has to do: the fresh buffer `t` gets
`g part other`, nothing else changes (in particular neither the part nor `other`). -/
def BStepOutOK (step : BStepOut K) (g : K → K → K) (ok : Vec K → Vec K → Prop) : Prop :=
  ∀ p o t m, t ≠ p → t ≠ o → ok (m p) (m o) →
    ∃ m', step p o t m = some m' ∧ (∀ i, m' t i = g (m p i) (m o i)) ∧
      ∀ b, b ≠ t → m' b = m b

/-- The out-of-place loop over the parts: for ANY list of part buffers (a part object may
occur several times, and `other` may be one of the parts), result buffers `ts` that are
pairwise distinct and fresh, the `k`-th result holds `g part_k other` and no buffer outside
`ts` changes. By induction over the parts. -/
theorem C01.bcastOutLoop_ok (step : BStepOut K) (g : K → K → K) (ok : Vec K → Vec K → Prop)
    (o : Nat) (hs : BStepOutOK step g ok) :
    ∀ (ps ts : List Nat) (m : Mem K), ps.length = ts.length → ts.Nodup →
      (∀ t ∈ ts, t ∉ ps ∧ t ≠ o) → (∀ p ∈ ps, ok (m p) (m o)) →
      ∃ m', bcastOutLoop step o ps ts m = some m' ∧
        (∀ pt ∈ ps.zip ts, ∀ i, m' pt.2 i = g (m pt.1 i) (m o i)) ∧
        ∀ b, b ∉ ts → m' b = m b := by
  intro ps
  induction ps with
  | nil =>
    intro ts m hl _ _ _
    have : ts = [] := List.length_eq_zero_iff.mp hl.symm
    subst this
    exact ⟨m, rfl, by simp, fun _ _ => rfl⟩
  | cons p ps ih =>
    intro ts m hl hnd hfr hok
    match ts, hl with
    | t :: ts, hl =>
      have hnd' := List.nodup_cons.mp hnd
      have htp : t ≠ p := fun h => (hfr t (by simp)).1 (by simp [h])
      have hto : t ≠ o := (hfr t (by simp)).2
      have htps : t ∉ ps := fun h => (hfr t (by simp)).1 (by simp [h])
      obtain ⟨m1, e1, v1, f1⟩ := hs p o t m htp hto (hok p (by simp))
      have hm1o : m1 o = m o := f1 o (Ne.symm hto)
      obtain ⟨m', e, v, f⟩ := ih ts m1 (by simpa using hl) hnd'.2
        (fun t' ht' => ⟨fun h => (hfr t' (by simp [ht'])).1 (by simp [h]),
          (hfr t' (by simp [ht'])).2⟩)
        (fun q hq => by
          have hqt : q ≠ t := fun h => htps (h ▸ hq)
          rw [f1 q hqt, hm1o]; exact hok q (by simp [hq]))
      refine ⟨m', by simp [bcastOutLoop, e1, e], ?_, ?_⟩
      · intro pt hpt i
        rw [List.zip_cons_cons, List.mem_cons] at hpt
        rcases hpt with rfl | hpt
        · simp only []; rw [f t hnd'.1, v1 i]
        · have hq : pt.1 ∈ ps := (List.of_mem_zip hpt).1
          have hqt : pt.1 ≠ t := fun h => htps (h ▸ hq)
          rw [v pt hpt i, f1 _ hqt, hm1o]
      · intro b hb
        have hbt : b ≠ t := fun h => hb (by simp [h])
        have hbts : b ∉ ts := fun h => hb (by simp [h])
        rw [f b hbts, f1 b hbt]

/-- The six out-of-place element operators the broadcasting loop can call (`__add__` /
`__radd__` → `addE`, `__sub__` → `subE`, `__rsub__` → `rsubE`, `__mul__` / `__rmul__` →
`mulE`, `__truediv__` → `divE`, `__rtruediv__` → `rdivE`) meet `BStepOutOK` (from
`C01.elem_op_correct`), division where the divisor has no zero entry. -/
theorem C01.opStepOut_ok (lc : LC K) (h : LCSpec lc) (op : Op)
    (hop : op = .addE ∨ op = .subE ∨ op = .mulE ∨ op = .divE ∨ op = .rsubE ∨ op = .rdivE) :
    BStepOutOK (opStepOut lc op) (fun u v => op.spec 0 u v) (fun u v => DivOK op 0 u v) := by
  intro p o t m htp hto hok
  obtain ⟨m', r, e, hr, v, f⟩ := C01.elem_op_correct lc h op p o t 0 m htp hto hok
  have hrt : r = t := by
    rcases hop with rfl | rfl | rfl | rfl | rfl | rfl <;> simpa [Op.inPlace] using hr
  subst hrt
  exact ⟨m', by simp [opStepOut, e], v, fun b hb => f b hb hb⟩

/-- OUT-OF-PLACE power-space broadcasting `x op other` / `other op x`
(`_broadcast_arithmetic_impl` for the non-`__i…__` operators), whether or not the source
copies `other` first (`guardAlways`; the driver runs it with the extracted
`Gen.Broadcast.copyGuardAlways`): for ANY part buffers `ps` (shared part objects allowed),
any operand buffer `o` — one of the parts or not —, pairwise distinct fresh result buffers
`ts` and a fresh `t0`, the `k`-th part of the result holds `op.spec part_k other` computed
from the ORIGINAL contents, and nothing but the fresh buffers changes: neither `x` nor
`other` is modified. -/
theorem C01.bcast_out_correct (lc : LC K) (h : LCSpec lc) (op : Op)
    (hop : op = .addE ∨ op = .subE ∨ op = .mulE ∨ op = .divE ∨ op = .rsubE ∨ op = .rdivE)
    (guardAlways : Bool) (ps ts : List Nat) (o t0 : Nat) (m : Mem K)
    (hl : ps.length = ts.length) (hnd : ts.Nodup) (hfr : ∀ t ∈ ts, t ∉ ps ∧ t ≠ o)
    (ht0 : t0 ∉ ps ∧ t0 ∉ ts ∧ t0 ≠ o) (hok : ∀ p ∈ ps, DivOK op 0 (m p) (m o)) :
    ∃ m', bcastOut lc (opStepOut lc op) guardAlways ps ts o t0 m = some m' ∧
      (∀ pt ∈ ps.zip ts, ∀ i, m' pt.2 i = op.spec 0 (m pt.1 i) (m o i)) ∧
      ∀ b, b ∉ ts → b ≠ t0 → m' b = m b := by
  have hs := C01.opStepOut_ok lc h op hop
  unfold bcastOut
  by_cases hc : (guardAlways && ps.contains o) = true
  · rw [if_pos hc]
    obtain ⟨m1, e1, v1, f1⟩ := C01.lincomb1_ok lc h 1 o t0 m
    have hm1t : m1 t0 = m o := by funext i; rw [v1 i]; simp
    have hps : ∀ p ∈ ps, m1 p = m p := fun p hp => f1 p (fun h => ht0.1 (h ▸ hp))
    obtain ⟨m', e, v, f⟩ := C01.bcastOutLoop_ok _ _ _ t0 hs ps ts m1 hl hnd
      (fun t ht => ⟨(hfr t ht).1, fun h => ht0.2.1 (h ▸ ht)⟩)
      (fun p hp => by rw [hps p hp, hm1t]; exact hok p hp)
    refine ⟨m', by simp [e1, e], ?_, ?_⟩
    · intro pt hpt i
      rw [v pt hpt i, hps _ (List.of_mem_zip hpt).1, hm1t]
    · intro b hb hbt; rw [f b hb, f1 b hbt]
  · rw [if_neg hc]
    obtain ⟨m', e, v, f⟩ := C01.bcastOutLoop_ok _ _ _ o hs ps ts m hl hnd hfr hok
    exact ⟨m', e, v, fun b hb _ => f b hb⟩

/-- Non-vacuity: `x / x[0]` on a three-part element whose first two parts are the SAME
object, through the extracted tensor `_lincomb`; every hypothesis is discharged. -/
example : ∃ m', bcastOut (K := Rat) (fun A a b m => lincombImpl params 2 contigD A a b m)
      (opStepOut (fun A a b m => lincombImpl params 2 contigD A a b m) .divE)
      OdlModel.Gen.Broadcast.copyGuardAlways [0, 0, 1] [2, 3, 4] 0 5
      (fun b i => (b : Rat) + i + 2) = some m' ∧ m' 4 1 = 4 / 3 := by
  obtain ⟨m', e, v, _⟩ := C01.bcast_out_correct (K := Rat) _ (C01.tensor_lincomb_spec 2 contigD)
    .divE (by simp) OdlModel.Gen.Broadcast.copyGuardAlways [0, 0, 1] [2, 3, 4] 0 5
    (fun b i => (b : Rat) + i + 2) rfl (by decide) (by decide) (by decide)
    (by intro p _ i; show ((0 : ℕ) : ℚ) + (i : ℚ) + 2 ≠ 0
        exact_mod_cast (by omega : 0 + i + 2 ≠ 0))
  exact ⟨m', e, by rw [v (1, 4) (by simp) 1]; norm_num [Op.spec]⟩

/-! ## `ProductSpace._multiply` / `_divide`: the component loop -/

/-- The component loop of `ProductSpace._lincomb/_multiply/_divide` for any leaf primitive
that writes `g x y` (from the pre-state) into its `out` and touches nothing else, under any
identity aliasing: if no part object occurs twice in `out` and part `i` of `out` is not part
`j ≠ i` of an operand (so `out is x1`, `out is x2`, `x1 is x2`, all three, or disjoint
elements — NOT elements built from shared part objects), every part of `out` holds
`g x_k y_k` and nothing else is modified. `ok` restricts the operand contents for which the
leaf is exact (divisor without zero entry). -/
theorem C01.ploop_correct (prim : Args → Mem K → Option (Mem K)) (g : K → K → K)
    (ok : Vec K → Prop)
    (hp : ∀ A m, ok (m A.x2) → ∃ m', prim A m = some m' ∧
      (∀ i, m' A.out i = g (m A.x1 i) (m A.x2 i)) ∧ ∀ buf, buf ≠ A.out → m' buf = m buf) :
    ∀ (xs ys os : List Nat) (m : Mem K), xs.length = os.length → ys.length = os.length →
      os.Nodup →
      (∀ i j (hi : i < os.length) (_hj : j < os.length), i ≠ j →
          os[i] ≠ xs[j]! ∧ os[i] ≠ ys[j]!) →
      (∀ y ∈ ys, ok (m y)) →
      ∃ m', ploop prim xs ys os m = some m' ∧
        (∀ k (hk : k < os.length) i, m' os[k] i = g (m xs[k]! i) (m ys[k]! i)) ∧
        (∀ buf, buf ∉ os → m' buf = m buf) := by
  intro xs ys os
  induction os generalizing xs ys with
  | nil =>
    intro m hx hy _ _ _
    have : xs = [] := List.length_eq_zero_iff.mp hx
    have : ys = [] := List.length_eq_zero_iff.mp hy
    subst_vars
    exact ⟨m, rfl, fun k hk => absurd hk (by simp), fun _ _ => rfl⟩
  | cons o os ih =>
    intro m hx hy hnd hdis hok
    match xs, ys, hx, hy with
    | x :: xs, y :: ys, hx, hy =>
      obtain ⟨m1, e1, s1, f1⟩ := hp ⟨x, y, o⟩ m (hok y (by simp))
      have hnd' := List.nodup_cons.mp hnd
      have hys : ∀ k (hk : k < ys.length), o ≠ ys[k] := by
        intro k hk
        have hk' : k + 1 < (o :: os).length := by
          have : ys.length = os.length := by simpa using hy
          simp; omega
        have hd := hdis 0 (k+1) (by simp) hk' (by omega)
        simp only [List.getElem_cons_zero, List.getElem!_cons_succ] at hd
        have : ys[k]! = ys[k] := by simp [hk]
        rw [this] at hd; exact hd.2
      obtain ⟨m', e, s, f⟩ := ih xs ys m1 (by simpa using hx) (by simpa using hy) hnd'.2
        (fun i j hi hj hij => by
          have := hdis (i+1) (j+1) (by simpa using hi) (by simpa using hj) (by omega)
          simpa using this)
        (fun y' hy' => by
          obtain ⟨k, hk, rfl⟩ := List.getElem_of_mem hy'
          rw [f1 _ (Ne.symm (hys k hk))]; exact hok _ (by simp))
      refine ⟨m', by simp [ploop, e1, e], ?_, ?_⟩
      · intro k hk i
        cases k with
        | zero =>
          simp only [List.getElem_cons_zero, List.getElem!_cons_zero]
          rw [f o hnd'.1]; exact s1 i
        | succ k =>
          have hk' : k < os.length := by simpa using hk
          simp only [List.getElem_cons_succ, List.getElem!_cons_succ]
          rw [s k hk' i]
          have hd := hdis 0 (k+1) (by simp) hk (by omega)
          simp only [List.getElem_cons_zero, List.getElem!_cons_succ] at hd
          rw [f1 _ (Ne.symm hd.1), f1 _ (Ne.symm hd.2)]
      · intro buf hb
        have hb' : buf ≠ o ∧ buf ∉ os := by simpa [List.mem_cons, not_or] using hb
        rw [f buf hb'.2, f1 buf hb'.1]

/-- `space.multiply(x1, x2, out)` on a (nested) product space — `ProductSpace._multiply` over
the tensor leaf `np.multiply(x1.data, x2.data, out=out.data)` — under every identity alias
pattern of `(x1, x2, out)`: part `k` of `out` holds `x1_k * x2_k` from the pre-state, nothing
else is modified. The leaf's own correctness under aliasing holds by construction of
`multiply` (NumPy's ufunc with `out=` an operand is modelled as an exact entry-wise map); the
content of the theorem is the loop. -/
theorem C01.pmultiply_correct (xs ys os : List Nat) (m : Mem K)
    (hx : xs.length = os.length) (hy : ys.length = os.length) (hnd : os.Nodup)
    (hdis : ∀ i j (hi : i < os.length) (_hj : j < os.length), i ≠ j →
      os[i] ≠ xs[j]! ∧ os[i] ≠ ys[j]!) :
    ∃ m', pmultiply xs ys os m = some m' ∧
      (∀ k (hk : k < os.length) i, m' os[k] i = m xs[k]! i * m ys[k]! i) ∧
      (∀ buf, buf ∉ os → m' buf = m buf) :=
  C01.ploop_correct _ (fun u v => u * v) (fun _ => True)
    (fun A m _ => ⟨_, rfl, fun i => by simp [multiply, Mem.write],
      fun b hb => by simp [multiply, Mem.write, hb]⟩) xs ys os m hx hy hnd hdis (fun _ _ => trivial)

/-- `space.divide(x1, x2, out)` on a (nested) product space, likewise (`x1_k / x2_k`; the
quotient is the field's, so the statement says something about the code only where no entry
of `x2` is zero — NumPy gives inf/nan there, the field gives 0). -/
theorem C01.pdivide_correct (xs ys os : List Nat) (m : Mem K)
    (hx : xs.length = os.length) (hy : ys.length = os.length) (hnd : os.Nodup)
    (hdis : ∀ i j (hi : i < os.length) (_hj : j < os.length), i ≠ j →
      os[i] ≠ xs[j]! ∧ os[i] ≠ ys[j]!) :
    ∃ m', pdivide xs ys os m = some m' ∧
      (∀ k (hk : k < os.length) i, m' os[k] i = m xs[k]! i / m ys[k]! i) ∧
      (∀ buf, buf ∉ os → m' buf = m buf) :=
  C01.ploop_correct _ (fun u v => u / v) (fun _ => True)
    (fun A m _ => ⟨_, rfl, fun i => by simp [divide, Mem.write],
      fun b hb => by simp [divide, Mem.write, hb]⟩) xs ys os m hx hy hnd hdis (fun _ _ => trivial)

/-- The loop is sensitive to shared part objects (why the hypothesis is there): with
`out = (a, b)`, `x1 = (b, a)` the second component reads the already overwritten `a`. -/
theorem C01.pmultiply_crosswise_fails :
    let m : Mem ℚ := fun b _ => if b = 0 then 2 else 3
    (pmultiply [1, 0] [1, 0] [0, 1] m).map (fun m' => m' 1 0) = some 81 ∧ (2 : ℚ) * 2 = 4 := by
  simp [pmultiply, ploop, multiply, Mem.write]; norm_num

/-- Non-vacuity of `C01.pmultiply_correct`: `out is x1`, two parts. -/
example : ∃ m', pmultiply (K := Rat) [0, 1] [2, 3] [0, 1] (fun b i => (b : Rat) + i) = some m' ∧
    m' 1 2 = 15 := by
  obtain ⟨m', e, s, _⟩ := C01.pmultiply_correct (K := Rat) [0, 1] [2, 3] [0, 1]
    (fun b i => (b : Rat) + i) rfl rfl (by decide)
    (by
      intro i j hi hj hij
      have hi' : i = 0 ∨ i = 1 := by simp at hi; omega
      have hj' : j = 0 ∨ j = 1 := by simp at hj; omega
      rcases hi' with rfl | rfl <;> rcases hj' with rfl | rfl <;> simp_all)
  have h1 := s 1 (by simp) 2
  simp at h1
  exact ⟨m', e, by rw [h1]; norm_num⟩

end

/-! ## Element operators on product spaces (lift of `C01.elem_op_correct`) -/

namespace OdlModel.C01
/-- An operand of a component loop is compatible with the output element `os` if it IS that
element (same part list) or shares no part object with it. -/
def PCompat (os xs : List Nat) : Prop := xs = os ∨ ∀ o ∈ os, o ∉ xs

/-- Where exact arithmetic defines the quotient on a product space (cf. `DivOK`). -/
def PDivOK {K : Type} [Field K] (op : Op) (c : K) (m : Mem K) (xs ys : List Nat) : Prop :=
  match op with
  | .divS | .idivS => c ≠ 0
  | .divE | .idivE => ∀ y ∈ ys, ∀ i, m y i ≠ 0
  | .rdivS | .rdivE => ∀ x ∈ xs, ∀ i, m x i ≠ 0
  | _ => True
end OdlModel.C01

section
variable {K : Type} [Field K] [DecidableEq K]

/-- (helper) A compatible operand never has a part of the output at a different position. -/
theorem C01.pcompat_cross (os xs : List Nat) (hnd : os.Nodup) (hl : xs.length = os.length)
    (hc : PCompat os xs) :
    ∀ i j (hi : i < os.length) (_ : j < os.length), i ≠ j → os[i] ≠ xs[j]! := by
  intro i j hi hj hij
  have hj' : j < xs.length := by omega
  have e : xs[j]! = xs[j] := by simp [hj']
  rw [e]
  rcases hc with rfl | hd
  · exact fun h => hij ((List.getElem_inj hnd).mp h)
  · exact fun h => hd _ (List.getElem_mem hi) (h ▸ List.getElem_mem hj')

/-- (helper) `C01.plincomb_correct` with the aliasing hypothesis in the form `PCompat`. -/
theorem C01.plc_ok (lc : LC K) (h : LCSpec lc) (a b : K) (xs ys os : List Nat) (m : Mem K)
    (hx : xs.length = os.length) (hy : ys.length = os.length) (hnd : os.Nodup)
    (hcx : PCompat os xs) (hcy : PCompat os ys) :
    ∃ m', plincomb lc xs ys os a b m = some m' ∧
      (∀ k (hk : k < os.length) i, m' os[k] i = a * m xs[k]! i + b * m ys[k]! i) ∧
      ∀ buf, buf ∉ os → m' buf = m buf :=
  C01.plincomb_correct lc h a b xs ys os m hx hy hnd (fun i j hi hj hij =>
    ⟨C01.pcompat_cross os xs hnd hx hcx i j hi hj hij,
     C01.pcompat_cross os ys hnd hy hcy i j hi hj hij⟩)

/-- (helper) `C01.pmultiply_correct` with `PCompat`. -/
theorem C01.pmul_ok (xs ys os : List Nat) (m : Mem K)
    (hx : xs.length = os.length) (hy : ys.length = os.length) (hnd : os.Nodup)
    (hcx : PCompat os xs) (hcy : PCompat os ys) :
    ∃ m', pmultiply xs ys os m = some m' ∧
      (∀ k (hk : k < os.length) i, m' os[k] i = m xs[k]! i * m ys[k]! i) ∧
      ∀ buf, buf ∉ os → m' buf = m buf :=
  C01.pmultiply_correct xs ys os m hx hy hnd (fun i j hi hj hij =>
    ⟨C01.pcompat_cross os xs hnd hx hcx i j hi hj hij,
     C01.pcompat_cross os ys hnd hy hcy i j hi hj hij⟩)

/-- (helper) `C01.pdivide_correct` with `PCompat`. -/
theorem C01.pdiv_ok (xs ys os : List Nat) (m : Mem K)
    (hx : xs.length = os.length) (hy : ys.length = os.length) (hnd : os.Nodup)
    (hcx : PCompat os xs) (hcy : PCompat os ys) :
    ∃ m', pdivide xs ys os m = some m' ∧
      (∀ k (hk : k < os.length) i, m' os[k] i = m xs[k]! i / m ys[k]! i) ∧
      ∀ buf, buf ∉ os → m' buf = m buf :=
  C01.pdivide_correct xs ys os m hx hy hnd (fun i j hi hj hij =>
    ⟨C01.pcompat_cross os xs hnd hx hcx i j hi hj hij,
     C01.pcompat_cross os ys hnd hy hcy i j hi hj hij⟩)

/-- (helper) `ProductSpace.one()` fills exactly the fresh part buffers with ones. -/
theorem C01.pone_eq (ts : List Nat) (m : Mem K) (b : Nat) :
    pone ts m b = if b ∈ ts then (fun _ => 1) else m b := by
  induction ts generalizing m with
  | nil => simp [pone]
  | cons t ts ih =>
    have : pone (t :: ts) m = pone ts (one t m) := rfl
    rw [this, ih]
    by_cases h1 : b ∈ ts <;> by_cases h2 : b = t <;> simp [h1, h2, one, Mem.write]

/-- (helper) -/
theorem C01.getElem!_mem (l : List Nat) (k : Nat) (hk : k < l.length) : l[k]! ∈ l := by
  have : l[k]! = l[k] := by simp [hk]
  rw [this]; exact List.getElem_mem hk

/-- (helper) -/
theorem C01.getElem!_eq (l : List Nat) (k : Nat) (hk : k < l.length) : l[k]! = l[k] := by
  simp [hk]

/-- EVERY `LinearSpaceElement` operator on a (nested) PRODUCT space — `ProductSpaceElement`
inherits them, and `space.lincomb / multiply / divide / one() / element()` are the component
loops of `ProductSpace` (`Op.execP`, same statements as `Op.exec`) —, over leaf spaces whose
`_lincomb` meets its specification (tensor leaves: `C01.lincomb_correct`): for `self` with
pairwise distinct part objects `xs`, `other` either `self` itself or an element sharing no
part object with it (`PCompat`; elements built from shared part objects are excluded, see
`C01.pmultiply_crosswise_fails`), and fresh pairwise distinct result parts `ts`, the call
succeeds, returns `self` (in-place forms) or the fresh element, every part `k` of which holds
`Op.spec` of the `k`-th parts from the PRE-state, and no other existing buffer is modified.
Division is claimed only where `PDivOK` holds. This lifts `C01.elem_op_correct` to product
spaces of any number of leaf components. -/
theorem C01.pelem_op_correct (lc : LC K) (h : LCSpec lc) (op : Op) (xs ys ts : List Nat) (c : K)
    (m : Mem K) (hxl : xs.length = ts.length) (hyl : ys.length = ts.length)
    (hxn : xs.Nodup) (htn : ts.Nodup) (hxy : PCompat xs ys)
    (htx : ∀ t ∈ ts, t ∉ xs ∧ t ∉ ys) (hdiv : PDivOK op c m xs ys) :
    ∃ m' r, op.execP lc xs ys ts c m = some (m', r) ∧ r = (if op.inPlace then xs else ts) ∧
      (∀ k (hk : k < r.length) i, m' r[k] i = op.spec c (m xs[k]! i) (m ys[k]! i)) ∧
      (∀ buf, buf ∉ r → buf ∉ ts → m' buf = m buf) := by
  have cTx : PCompat ts xs := Or.inr (fun o ho => (htx o ho).1)
  have cTy : PCompat ts ys := Or.inr (fun o ho => (htx o ho).2)
  have cTT : PCompat ts ts := Or.inl rfl
  have cXX : PCompat xs xs := Or.inl rfl
  have cXT : PCompat xs ts := Or.inr (fun o ho hot => (htx o hot).1 ho)
  have hyx : ys.length = xs.length := by omega
  have htxl : ts.length = xs.length := hxl.symm
  -- the memory after `one()` into the fresh parts
  have m0x : ∀ k, k < ts.length → pone ts m xs[k]! = m xs[k]! := fun k hk => by
    rw [C01.pone_eq, if_neg]
    exact fun hh => (htx _ hh).1 (C01.getElem!_mem xs k (by omega))
  have m0t : ∀ k, k < ts.length → ∀ i, pone ts m ts[k]! i = 1 := fun k hk i => by
    rw [C01.pone_eq, if_pos (C01.getElem!_mem ts k hk)]
  have m0f : ∀ b, b ∉ ts → pone ts m b = m b := fun b hb => by rw [C01.pone_eq, if_neg hb]
  cases op
  case addE =>
    obtain ⟨m', e, s, f⟩ := C01.plc_ok lc h 1 1 xs ys ts m hxl hyl htn cTx cTy
    exact ⟨m', ts, by simp [Op.execP, e], by simp [Op.inPlace],
      fun k hk i => by simpa [Op.spec] using s k hk i, fun b hb _ => f b hb⟩
  case subE =>
    obtain ⟨m', e, s, f⟩ := C01.plc_ok lc h 1 (-1) xs ys ts m hxl hyl htn cTx cTy
    exact ⟨m', ts, by simp [Op.execP, e], by simp [Op.inPlace],
      fun k hk i => by simpa [Op.spec] using s k hk i, fun b hb _ => f b hb⟩
  case mulE =>
    obtain ⟨m', e, s, f⟩ := C01.pmul_ok ys xs ts m hyl hxl htn cTy cTx
    exact ⟨m', ts, by simp [Op.execP, e], by simp [Op.inPlace],
      fun k hk i => by simpa [Op.spec] using s k hk i, fun b hb _ => f b hb⟩
  case divE =>
    obtain ⟨m', e, s, f⟩ := C01.pdiv_ok xs ys ts m hxl hyl htn cTx cTy
    exact ⟨m', ts, by simp [Op.execP, e], by simp [Op.inPlace],
      fun k hk i => by simpa [Op.spec] using s k hk i, fun b hb _ => f b hb⟩
  case rsubE =>
    obtain ⟨m', e, s, f⟩ := C01.plc_ok lc h 1 (-1) ys xs ts m hyl hxl htn cTy cTx
    exact ⟨m', ts, by simp [Op.execP, e], by simp [Op.inPlace],
      fun k hk i => by simpa [Op.spec] using s k hk i, fun b hb _ => f b hb⟩
  case rdivE =>
    obtain ⟨m', e, s, f⟩ := C01.pdiv_ok ys xs ts m hyl hxl htn cTy cTx
    exact ⟨m', ts, by simp [Op.execP, e], by simp [Op.inPlace],
      fun k hk i => by simpa [Op.spec] using s k hk i, fun b hb _ => f b hb⟩
  case addS =>
    obtain ⟨m', e, s, f⟩ := C01.plc_ok lc h 1 c xs ts ts (pone ts m) hxl rfl htn cTx cTT
    refine ⟨m', ts, by simp [Op.execP, e], by simp [Op.inPlace], fun k hk i => ?_, fun b hb _ => ?_⟩
    · rw [s k hk i, m0x k hk, m0t k hk i]; simp [Op.spec]
    · rw [f b hb, m0f b hb]
  case subS =>
    obtain ⟨m', e, s, f⟩ := C01.plc_ok lc h 1 (-c) xs ts ts (pone ts m) hxl rfl htn cTx cTT
    refine ⟨m', ts, by simp [Op.execP, e], by simp [Op.inPlace], fun k hk i => ?_, fun b hb _ => ?_⟩
    · rw [s k hk i, m0x k hk, m0t k hk i]; simp [Op.spec]
    · rw [f b hb, m0f b hb]
  case rsubS =>
    obtain ⟨m1, e1, s1, f1⟩ := C01.plc_ok lc h c 0 ts ts ts (pone ts m) rfl rfl htn cTT cTT
    obtain ⟨m', e, s, f⟩ := C01.plc_ok lc h 1 (-1) ts xs ts m1 rfl hxl htn cTT cTx
    refine ⟨m', ts, by simp [Op.execP, plincomb1, e1, e], by simp [Op.inPlace],
      fun k hk i => ?_, fun b hb _ => ?_⟩
    · have hxk : xs[k]! ∉ ts := fun hh => (htx _ hh).1 (C01.getElem!_mem xs k (by omega))
      rw [s k hk i, f1 _ hxk, m0f _ hxk, C01.getElem!_eq ts k hk, s1 k hk i, m0t k hk i]
      simp [Op.spec]
    · rw [f b hb, f1 b hb, m0f b hb]
  case mulS =>
    obtain ⟨m', e, s, f⟩ := C01.plc_ok lc h c 0 xs xs ts m hxl hxl htn cTx cTx
    exact ⟨m', ts, by simp [Op.execP, plincomb1, e], by simp [Op.inPlace],
      fun k hk i => by simpa [Op.spec] using s k hk i, fun b hb _ => f b hb⟩
  case divS =>
    have hc : c ≠ 0 := hdiv
    obtain ⟨m', e, s, f⟩ := C01.plc_ok lc h (1 / c) 0 xs xs ts m hxl hxl htn cTx cTx
    exact ⟨m', ts, by simp only [Op.execP, plincomb1, if_neg hc, e, Option.map_some],
      by simp [Op.inPlace], fun k hk i => by simpa [Op.spec] using s k hk i, fun b hb _ => f b hb⟩
  case rdivS =>
    obtain ⟨m1, e1, s1, f1⟩ := C01.plc_ok lc h c 0 ts ts ts (pone ts m) rfl rfl htn cTT cTT
    obtain ⟨m', e, s, f⟩ := C01.pdiv_ok ts xs ts m1 rfl hxl htn cTT cTx
    refine ⟨m', ts, by simp [Op.execP, plincomb1, e1, e], by simp [Op.inPlace],
      fun k hk i => ?_, fun b hb _ => ?_⟩
    · have hxk : xs[k]! ∉ ts := fun hh => (htx _ hh).1 (C01.getElem!_mem xs k (by omega))
      rw [s k hk i, f1 _ hxk, m0f _ hxk, C01.getElem!_eq ts k hk, s1 k hk i, m0t k hk i]
      simp [Op.spec]
    · rw [f b hb, f1 b hb, m0f b hb]
  case iaddE =>
    obtain ⟨m', e, s, f⟩ := C01.plc_ok lc h 1 1 xs ys xs m rfl hyx hxn cXX hxy
    exact ⟨m', xs, by simp [Op.execP, e], by simp [Op.inPlace],
      fun k hk i => by simpa [Op.spec, C01.getElem!_eq xs k hk] using s k hk i, fun b hb _ => f b hb⟩
  case isubE =>
    obtain ⟨m', e, s, f⟩ := C01.plc_ok lc h 1 (-1) xs ys xs m rfl hyx hxn cXX hxy
    exact ⟨m', xs, by simp [Op.execP, e], by simp [Op.inPlace],
      fun k hk i => by simpa [Op.spec, C01.getElem!_eq xs k hk] using s k hk i, fun b hb _ => f b hb⟩
  case imulE =>
    obtain ⟨m', e, s, f⟩ := C01.pmul_ok ys xs xs m hyx rfl hxn hxy cXX
    exact ⟨m', xs, by simp [Op.execP, e], by simp [Op.inPlace],
      fun k hk i => by simpa [Op.spec, C01.getElem!_eq xs k hk] using s k hk i, fun b hb _ => f b hb⟩
  case idivE =>
    obtain ⟨m', e, s, f⟩ := C01.pdiv_ok xs ys xs m rfl hyx hxn cXX hxy
    exact ⟨m', xs, by simp [Op.execP, e], by simp [Op.inPlace],
      fun k hk i => by simpa [Op.spec, C01.getElem!_eq xs k hk] using s k hk i, fun b hb _ => f b hb⟩
  case iaddS =>
    obtain ⟨m', e, s, f⟩ := C01.plc_ok lc h 1 c xs ts xs (pone ts m) rfl htxl hxn cXX cXT
    refine ⟨m', xs, by simp [Op.execP, e], by simp [Op.inPlace], fun k hk i => ?_, fun b hb hbt => ?_⟩
    · rw [s k hk i, m0x k (by omega), m0t k (by omega) i]; simp [Op.spec]
    · rw [f b hb, m0f b hbt]
  case isubS =>
    obtain ⟨m', e, s, f⟩ := C01.plc_ok lc h 1 (-c) xs ts xs (pone ts m) rfl htxl hxn cXX cXT
    refine ⟨m', xs, by simp [Op.execP, e], by simp [Op.inPlace], fun k hk i => ?_, fun b hb hbt => ?_⟩
    · rw [s k hk i, m0x k (by omega), m0t k (by omega) i]; simp [Op.spec]
    · rw [f b hb, m0f b hbt]
  case imulS =>
    obtain ⟨m', e, s, f⟩ := C01.plc_ok lc h c 0 xs xs xs m rfl rfl hxn cXX cXX
    exact ⟨m', xs, by simp [Op.execP, plincomb1, e], by simp [Op.inPlace],
      fun k hk i => by simpa [Op.spec] using s k hk i, fun b hb _ => f b hb⟩
  case idivS =>
    have hc : c ≠ 0 := hdiv
    obtain ⟨m', e, s, f⟩ := C01.plc_ok lc h (1 / c) 0 xs xs xs m rfl rfl hxn cXX cXX
    exact ⟨m', xs, by simp only [Op.execP, plincomb1, if_neg hc, e, Option.map_some],
      by simp [Op.inPlace], fun k hk i => by simpa [Op.spec] using s k hk i, fun b hb _ => f b hb⟩
  case neg =>
    obtain ⟨m', e, s, f⟩ := C01.plc_ok lc h (-1) 0 xs xs ts m hxl hxl htn cTx cTx
    exact ⟨m', ts, by simp [Op.execP, plincomb1, e], by simp [Op.inPlace],
      fun k hk i => by simpa [Op.spec] using s k hk i, fun b hb _ => f b hb⟩
  case pos =>
    obtain ⟨m', e, s, f⟩ := C01.plc_ok lc h 1 0 xs xs ts m hxl hxl htn cTx cTx
    exact ⟨m', ts, by simp [Op.execP, plincomb1, e], by simp [Op.inPlace],
      fun k hk i => by simpa [Op.spec] using s k hk i, fun b hb _ => f b hb⟩
  case setZero =>
    obtain ⟨m', e, s, f⟩ := C01.plc_ok lc h 0 0 xs xs xs m rfl rfl hxn cXX cXX
    exact ⟨m', xs, by simp [Op.execP, e], by simp [Op.inPlace],
      fun k hk i => by simpa [Op.spec] using s k hk i, fun b hb _ => f b hb⟩
  case assign =>
    obtain ⟨m', e, s, f⟩ := C01.plc_ok lc h 1 0 ys ys xs m hyx hyx hxn hxy hxy
    exact ⟨m', xs, by simp [Op.execP, plincomb1, e], by simp [Op.inPlace],
      fun k hk i => by simpa [Op.spec] using s k hk i, fun b hb _ => f b hb⟩


/-- Non-vacuity of `C01.pelem_op_correct`: `5 - x` on a two-part element with `other is self`
slots, through the extracted tensor `_lincomb`; every hypothesis is discharged. -/
example : ∃ m' r, Op.execP (K := Rat) (fun A a b m => lincombImpl params 2 contigD A a b m)
      .rsubS [0, 1] [0, 1] [2, 3] 5 (fun b i => (b : Rat) + i) = some (m', r) ∧ r = [2, 3] ∧
      m' 3 1 = 3 := by
  obtain ⟨m', r, e, hr, v, _⟩ := C01.pelem_op_correct (K := Rat) _
    (C01.tensor_lincomb_spec 2 contigD) .rsubS [0, 1] [0, 1] [2, 3] 5
    (fun b i => (b : Rat) + i) rfl rfl (by decide) (by decide) (Or.inl rfl) (by decide) trivial
  simp [Op.inPlace] at hr
  subst hr
  have h1 := v 1 (by simp) 1
  simp [Op.spec] at h1
  exact ⟨m', _, e, rfl, by rw [h1]; norm_num⟩

end

/-! ## Tensor-element overrides: `copy`, `conj(out=)`, `real` / `imag` setters, `__ipow__` -/

section
variable {K : Type}

/-- `x.copy()` (`NumpyTensor.copy`, `DiscretizedSpaceElement.copy`): the returned element is
the fresh buffer, holds the contents of `x`, and nothing else changes (so for `t ≠ x` the
original is untouched and shares nothing with the copy). By construction of `tcopy` (NumPy's
`ndarray.copy` is modelled as an exact entry-wise map). -/
theorem C01.tcopy_correct (x t : Nat) (m : Mem K) :
    (tcopy x t m).2 = t ∧ (tcopy x t m).1 t = m x ∧ ∀ b, b ≠ t → (tcopy x t m).1 b = m b :=
  ⟨rfl, by simp [tcopy, Mem.write], fun b hb => by simp [tcopy, Mem.write, hb]⟩

/-- `x.conj(out)` in each of its four branches (`space.is_real` × `out is None`): the returned
element is `out` when given, `self` on a real space without `out`, a fresh element otherwise;
it holds the entry-wise conjugate of the PRE-state of `self` — also for `out is self` — and
no other buffer changes. `hreal`: on a real space conjugation fixes the data. A case split over
the branches of `tconj`; each branch holds by construction. -/
theorem C01.tconj_correct (cj : K → K) (isReal : Bool) (x : Nat) (out : Option Nat) (t : Nat)
    (m : Mem K) (hreal : isReal = true → ∀ i, cj (m x i) = m x i) :
    (tconj cj isReal x out t m).2 = (match out with
        | some o => o
        | none => if isReal then x else t) ∧
    (∀ i, (tconj cj isReal x out t m).1 (tconj cj isReal x out t m).2 i = cj (m x i)) ∧
    ∀ b, b ≠ (tconj cj isReal x out t m).2 → (tconj cj isReal x out t m).1 b = m b := by
  cases isReal <;> cases out <;> simp_all [tconj, Mem.write]

/-- In-place conjugation twice (`x.conj(out=x)`; `x.conj(out=x)`) restores `x` exactly and
leaves the whole memory as it was, for an involutive scalar conjugation. -/
theorem C01.tconj_inplace_involutive (cj : K → K) (hcj : ∀ z, cj (cj z) = z) (isReal : Bool)
    (x t : Nat) (m : Mem K) :
    (tconj cj isReal x (some x) t (tconj cj isReal x (some x) t m).1).1 = m := by
  funext b
  cases isReal <;> by_cases hb : b = x <;> simp [tconj, Mem.write, hb, hcj]

/-- The `real` / `imag` setters on Gaussian-rational data. Complex space: `x.real = v` sets the
real parts and keeps the imaginary parts, `x.imag = w` the converse, both touch nothing but
`x`, and after both `x` is `v + i w` whatever it held before. Real space: `x.real = v` assigns,
`x.imag = w` raises. By construction of `setReal` / `setImag` (the write through the NumPy
view `data.real` / `data.imag` is what the model asserts; the correspondence checks it). -/
theorem C01.setReal_setImag_correct (x : Nat) (v w : Vec OdlModel.CRat) (m : Mem OdlModel.CRat) :
    (∀ i, setReal false x v m x i = ⟨(v i).re, (m x i).im⟩) ∧
    (∀ b, b ≠ x → setReal false x v m b = m b) ∧
    (∃ m', setImag false x w m = some m' ∧ (∀ i, m' x i = ⟨(m x i).re, (w i).re⟩) ∧
      ∀ b, b ≠ x → m' b = m b) ∧
    (∃ m', setImag false x w (setReal false x v m) = some m' ∧
      ∀ i, m' x i = ⟨(v i).re, (w i).re⟩) ∧
    (∀ i, setReal true x v m x i = ⟨(v i).re, 0⟩) ∧ setImag true x w m = none := by
  refine ⟨fun i => by simp [setReal, Mem.write], fun b hb => by simp [setReal, Mem.write, hb],
    ⟨_, rfl, fun i => by simp [Mem.write], fun b hb => by simp [Mem.write, hb]⟩,
    ⟨_, rfl, fun i => by simp [setReal, Mem.write]⟩, fun i => by simp [setReal, Mem.write], rfl⟩

/-- `x **= p` with an exponent that is an integer VALUE (`2`, `2.0`, `-3.0`) takes the generic
recursion of `LinearSpaceElement.__ipow__` in every class (so `C01.ipow_int_correct` applies
to `NumpyTensor` and `DiscretizedSpaceElement` too), and a non-integer exponent never does:
it reaches `np.power` (tensor override) or raises. -/
theorem C01.ipow_route_integer (tensorOverride : Bool) (p : Int) (q : Rat) (hq : q.den ≠ 1) :
    ipowRoute tensorOverride (p : Rat) = .generic p ∧
    ipowRoute tensorOverride q = (if tensorOverride then .npPower else .raises) := by
  simp [ipowRoute, hq]

/-- Non-vacuity: conjugating `(1 + 2i, 3)` into itself on the executed scalar type. -/
example : (tconj OdlModel.CRat.conj false 0 (some 0) 1
    (fun _ i => if i = 0 then (⟨1, 2⟩ : OdlModel.CRat) else ⟨3, 0⟩)).1 0 0 = ⟨1, -2⟩ := by
  have h := (C01.tconj_correct OdlModel.CRat.conj false 0 (some 0) 1
    (fun _ i => if i = 0 then (⟨1, 2⟩ : OdlModel.CRat) else ⟨3, 0⟩) (by simp)).2.1 0
  simpa [tconj, OdlModel.CRat.conj] using h

end

/-- Sensitivity (the behaviour before the repair 60d322b): without the copy, `x *= x[0]` on
the two-part element `([2], [3])` leaves `12` in the second part instead of `6`. -/
theorem C01.bcast_without_copy_fails :
    let step : BStep ℤ := fun p o m => some (m.write p (fun i => m p i * m o i))
    let m : Mem ℤ := fun b _ => if b = 0 then 2 else 3
    (bcastLoop step 0 [0, 1] m).map (fun m' => m' 1 0) = some 12 ∧ (3 : ℤ) * 2 = 6 := by
  decide

/-- Non-vacuity of the element layer: `x **= 5` on a concrete rational buffer, through the
extracted tensor `_lincomb`. -/
example : ∃ m', ipow (K := Rat) (fun A a b m => lincombImpl params 3
      ⟨⟨true, true⟩, ⟨true, true⟩, ⟨true, true⟩, false, false, false⟩ A a b m)
    0 1 5 (fun _ i => (i : Rat) + 2) = some m' ∧ m' 0 1 = 243 := by
  obtain ⟨m', e, s, _⟩ := C01.ipow_correct (K := Rat) _ (C01.tensor_lincomb_spec 3
    ⟨⟨true, true⟩, ⟨true, true⟩, ⟨true, true⟩, false, false, false⟩) 0 1 (by decide) 5
    (fun _ i => (i : Rat) + 2)
  exact ⟨m', e, by rw [s]; norm_num⟩

/-! ## Front end of `LinearSpace.lincomb`: malformed calls are rejected before any write -/

/-- The body of `LinearSpace.lincomb` as EXTRACTED from `odl/set/space.py` on this run
decides exactly like the model's `lincombFront`: same first decisive event (which error,
or which of the two `_lincomb` calls) for every combination of the nine facts the checks
look at. -/
theorem C01.extracted_front_is_model (hasField outGiven outIn aIn x1In bGiven x2Given bIn x2In : Bool) :
    OdlModel.Gen.LincombFront.frontProg.eval
        ⟨hasField, outGiven, outIn, aIn, x1In, bGiven, x2Given, bIn, x2In⟩ =
      some (lincombFront hasField outGiven outIn aIn x1In bGiven x2Given bIn x2In) := by
  cases hasField <;> cases outGiven <;> cases outIn <;> cases aIn <;> cases x1In <;>
    cases bGiven <;> cases x2Given <;> cases bIn <;> cases x2In <;> rfl

/-- `_lincomb` (the only writer) is reached iff every given argument is well-formed: `out`
(if given) and `x1` in the space, `a` in the field (if the space has one), and either the
one-element form with no `x2`, or `b` in the field and `x2` in the space. In every other
case the first decisive event of the extracted program is a raise, i.e. the call returns
before anything is written. -/
theorem C01.lincomb_front_rejects (hasField outGiven outIn aIn x1In bGiven x2Given bIn x2In : Bool) :
    (∃ o, OdlModel.Gen.LincombFront.frontProg.eval
        ⟨hasField, outGiven, outIn, aIn, x1In, bGiven, x2Given, bIn, x2In⟩ = some o ∧
        o.isError = false) ↔
      ((outGiven = true → outIn = true) ∧ (hasField = true → aIn = true) ∧ x1In = true ∧
        ((bGiven = false ∧ x2Given = false) ∨
         (bGiven = true ∧ (hasField = true → bIn = true) ∧ x2In = true))) := by
  rw [C01.extracted_front_is_model]
  cases hasField <;> cases outGiven <;> cases outIn <;> cases aIn <;> cases x1In <;>
    cases bGiven <;> cases x2Given <;> cases bIn <;> cases x2In <;>
    simp [lincombFront, FrontOutcome.isError]

/-! ## The tests in front of the operators -/

section
open OdlModel.Gen.OpFront

/-- The decision chain in front of each of the twelve operator methods of `LinearSpaceElement`,
as EXTRACTED from `odl/set/space.py` on this run (`Gen.OpFront.progOf`, with the re-entries
`__radd__ → __add__`, coercion → same method), routes every operand exactly as the
specification `opFront` says: delegation to a higher `__array_priority__` (out-of-place and
reflected forms only), `NotImplemented` without a field, the writing branch for an element of
the space, a scalar (unless `one()` is needed and missing) or a coercible array-like, and a
refusal (`NotImplemented`; in place `TypeError`) for foreign elements and anything else.
`hwf`: an element of the space is a `LinearSpaceElement`, and no `LinearSpaceElement` is a
scalar. By evaluation over all 12 x 2^7 cases (carried out in `Lemmas/OpFront.lean`). -/
theorem C01.extracted_opfront_is_model (m : Meth) (f : OFacts)
    (hwf : (f.inSpace = true → f.isElem = true) ∧ (f.isElem = true → f.inField = false)) :
    (progOf m).eval progOf 40 f = some (opFront m f) :=
  OdlModel.Lemmas.OpFront.eval_eq_opFront m f hwf

/-- No operator writes for an operand it cannot combine: the extracted chain reaches a branch
that calls `space.lincomb / multiply / divide` ONLY if the space has a field and `other` is an
element of this very space, a field scalar or a coercible array-like — never for an element of
another space, never when a higher-priority operand should have been given the call. Together
with `C01.elem_op_correct` (what the writing branches do) this closes the operators from their
first line. -/
theorem C01.opfront_write_only_if (m : Meth) (f : OFacts)
    (hwf : (f.inSpace = true → f.isElem = true) ∧ (f.isElem = true → f.inField = false))
    (h : (progOf m).eval progOf 40 f = some .write) :
    f.noField = false ∧ (f.inSpace = true ∨ f.inField = true ∨ f.coercible = true) ∧
      (f.isElem = true → f.inSpace = true) ∧ (m.inPlace = false → f.prio = false) := by
  rw [C01.extracted_opfront_is_model m f hwf] at h
  exact OdlModel.Lemmas.OpFront.opFront_write_only_if m f hwf (Option.some.inj h)

/-- Non-vacuity: a foreign element in place, a list on the reflected side, a high-priority operand. -/
example : (progOf .isub).eval progOf 40 ⟨false, false, false, true, false, false, false⟩ = some .typeerror ∧
    (progOf .rsub).eval progOf 40 ⟨false, false, false, false, false, false, true⟩ = some .write ∧
    (progOf .mul).eval progOf 40 ⟨true, false, false, false, false, false, false⟩ = some (.delegate .rmul) := by
  refine ⟨?_, ?_, ?_⟩ <;> rw [C01.extracted_opfront_is_model _ _ (by decide)] <;> rfl

end

/-! ## The instance the driver executes -/

/-- `C01.lincomb_correct` applied to the Gaussian rationals with exactly the
`Add`/`Mul`/`OfNat`/`DecidableEq` instances of `Model/CRat.lean` that `Drivers/C01.lean`
computes with (they form a commutative ring: `Lemmas/CRat.lean`). -/
theorem C01.lincomb_correct_executed_instance (size : Nat) (d : Desc) (A : Args) (a b : OdlModel.CRat)
    (m : Mem OdlModel.CRat) :
    ∃ m', @lincombImpl OdlModel.CRat OdlModel.CRat.instAdd OdlModel.CRat.instMul
        OdlModel.CRat.instOfNat OdlModel.CRat.instOfNat OdlModel.instDecidableEqCRat
        params size d A a b m = some m' ∧
      ∀ i, m' A.out i = a * m A.x1 i + b * m A.x2 i := by
  obtain ⟨m', e, s, _⟩ := C01.lincomb_correct (K := OdlModel.CRat) size d A a b m
  exact ⟨m', e, s⟩
