/-
C01 — vector arithmetic is entry-wise exact under every aliasing pattern.
Property theorems only.  The dispatch program, thresholds and the fallback-axpy form are
the GENERATED ones (`Gen/LincombTree.lean`), so these theorems are re-checked against
what `/repo/odl/space/npy_tensors.py` says on every run.
-/
import OdlModel.Model.Lincomb
import OdlModel.Gen.LincombTree
import Mathlib.Tactic.Ring
import Mathlib.Tactic.LinearCombination

namespace OdlModel.C01
open OdlModel.Lincomb OdlModel.Gen.Lincomb

/-- The specification: `out` holds `a*x1 + b*x2` entry-wise (computed from the PRE-state),
every buffer other than `out` is untouched. -/
def Spec {K : Type} [CommRing K] (A : Args) (a b : K) (m m' : Mem K) : Prop :=
  (∀ i, m' A.out i = a * m A.x1 i + b * m A.x2 i) ∧ (∀ buf, buf ≠ A.out → m' buf = m buf)

end OdlModel.C01

open OdlModel.Lincomb OdlModel.Gen.Lincomb OdlModel.C01

/-- The extracted dispatch program is correct for either axpy form (guarded or BLAS),
all alias patterns, all scalars, all contents; recursion depth 3 suffices. -/
theorem C01.dispatch_correct {K : Type} [CommRing K] [DecidableEq K]
    (g : Bool) (A : Args) (a b : K) (m : Mem K) :
    ∃ m', run g prog 3 A a b m = some m' ∧ Spec A a b m m' := by
  obtain ⟨x1, x2, out⟩ := A
  simp only [run, prog, exec, Cond.eval, Coef.val, Src.buf, Spec]
  by_cases h12 : x1 = x2 <;> by_cases ho1 : out = x1 <;> by_cases ho2 : out = x2 <;>
  simp [h12, ho1, ho2] <;>
  split_ifs <;> simp_all [Mem.write, scalPrim, axpyPrim] <;> grind

/-- Main theorem: for every commutative ring (ℤ, ℚ, ℝ, ℂ, …), every size and BLAS
applicability (hence every regime selected by the extracted thresholds), every
identity-aliasing pattern of `(x1, x2, out)` (arbitrary buffer ids), all scalars and all
buffer contents, `_lincomb_impl` terminates and establishes the specification:
`out = a*x1 + b*x2` entry-wise from the pre-state, nothing else modified. -/
theorem C01.lincomb_correct {K : Type} [CommRing K] [DecidableEq K]
    (size : Nat) (blasOk : Bool) (A : Args) (a b : K) (m : Mem K) :
    ∃ m', lincombImpl thrSmall thrMedium fbGuard prog size blasOk A a b m = some m' ∧
      Spec A a b m m' := by
  unfold lincombImpl
  cases regime thrSmall thrMedium size blasOk
  · refine ⟨_, rfl, ?_, ?_⟩
    · intro i; simp [direct, Mem.write]
    · intro buf h; simp [direct, Mem.write, h]
  · exact C01.dispatch_correct _ A a b m
  · exact C01.dispatch_correct _ A a b m

/-- Operands that are not the output are never modified. -/
theorem C01.lincomb_frame {K : Type} [CommRing K] [DecidableEq K]
    (size : Nat) (blasOk : Bool) (A : Args) (a b : K) (m m' : Mem K)
    (h : lincombImpl thrSmall thrMedium fbGuard prog size blasOk A a b m = some m') :
    (A.x1 ≠ A.out → m' A.x1 = m A.x1) ∧ (A.x2 ≠ A.out → m' A.x2 = m A.x2) := by
  obtain ⟨m'', h1, _, h3⟩ := C01.lincomb_correct size blasOk A a b m
  rw [h] at h1; cases h1
  exact ⟨fun h => h3 _ h, fun h => h3 _ h⟩

/-- The previous contents of a non-aliased output never influence the result: two
pre-states that agree on the operand buffers give the same output. -/
theorem C01.lincomb_out_independent {K : Type} [CommRing K] [DecidableEq K]
    (size : Nat) (blasOk : Bool) (A : Args) (a b : K) (m₁ m₂ m₁' m₂' : Mem K)
    (hx1 : m₁ A.x1 = m₂ A.x1) (hx2 : m₁ A.x2 = m₂ A.x2)
    (h₁ : lincombImpl thrSmall thrMedium fbGuard prog size blasOk A a b m₁ = some m₁')
    (h₂ : lincombImpl thrSmall thrMedium fbGuard prog size blasOk A a b m₂ = some m₂') :
    m₁' A.out = m₂' A.out := by
  obtain ⟨n₁, e₁, s₁, _⟩ := C01.lincomb_correct size blasOk A a b m₁
  obtain ⟨n₂, e₂, s₂, _⟩ := C01.lincomb_correct size blasOk A a b m₂
  rw [h₁] at e₁; rw [h₂] at e₂; cases e₁; cases e₂
  funext i; rw [s₁ i, s₂ i, hx1, hx2]

/-- The regime function covers the three cases at the extracted thresholds
(non-vacuity: each regime is reachable). -/
theorem C01.regimes_reachable :
    regime thrSmall thrMedium (thrSmall - 1) true = .small ∧
    regime thrSmall thrMedium thrSmall true = .fallback ∧
    regime thrSmall thrMedium thrMedium false = .fallback ∧
    regime thrSmall thrMedium thrMedium true = .blas := by
  decide

/-- Non-vacuity: a concrete fully aliased integer state in the fallback regime. -/
example : ∃ m', lincombImpl thrSmall thrMedium fbGuard prog 100 false ⟨0, 0, 0⟩ (2 : Int) (-2)
    (fun _ i => (i : Int)) = some m' ∧ m' 0 5 = 0 := by
  obtain ⟨m', h, s, _⟩ := C01.lincomb_correct (K := Int) 100 false ⟨0, 0, 0⟩ 2 (-2) (fun _ i => (i : Int))
  exact ⟨m', h, by rw [s]; simp⟩
