/-
C01 — vector arithmetic is entry-wise exact under every aliasing pattern.
Property theorems only.  The dispatch program, thresholds and the fallback-axpy form are
the GENERATED ones (`Gen/LincombTree.lean`), so these theorems are re-checked against
what `/repo/odl/space/npy_tensors.py` says on every run.
-/
import OdlModel.Model.Lincomb
import OdlModel.Gen.LincombTree
import Mathlib.Tactic.Ring
import Mathlib.Tactic.LinearCombination
import Mathlib.Tactic.FieldSimp
import OdlModel.Model.ElemOps

namespace OdlModel.C01
open OdlModel.Lincomb OdlModel.Gen.Lincomb

/-- The specification: `out` holds `a*x1 + b*x2` entry-wise (computed from the PRE-state),
every buffer other than `out` is untouched. -/
def Spec {K : Type} [CommRing K] (A : Args) (a b : K) (m m' : Mem K) : Prop :=
  (∀ i, m' A.out i = a * m A.x1 i + b * m A.x2 i) ∧ (∀ buf, buf ≠ A.out → m' buf = m buf)

/-- What the element layer assumes about a space's `_lincomb`: it satisfies `Spec` for
every aliasing pattern. For tensor spaces this is `C01.lincomb_correct` (see
`C01.tensor_lincomb_spec`); product spaces inherit it component-wise
(`C01.plincomb_correct`). -/
def LCSpec {K : Type} [CommRing K] (lc : OdlModel.ElemOps.LC K) : Prop :=
  ∀ A a b m, ∃ m', lc A a b m = some m' ∧ Spec A a b m m'

end OdlModel.C01

open OdlModel.Lincomb OdlModel.Gen.Lincomb OdlModel.C01 OdlModel.ElemOps

/-- The extracted dispatch program is correct for either axpy form (guarded or BLAS),
all alias patterns, all scalars, all contents; recursion depth 3 suffices. -/
theorem C01.dispatch_correct {K : Type} [CommRing K] [DecidableEq K]
    (g : Bool) (A : Args) (a b : K) (m : Mem K) :
    ∃ m', run g prog 3 A a b m = some m' ∧ Spec A a b m m' := by
  obtain ⟨x1, x2, out⟩ := A
  simp only [run, prog, exec, Cond.eval, Coef.val, Src.buf, Spec]
  by_cases h12 : x1 = x2 <;> by_cases ho1 : out = x1 <;> by_cases ho2 : out = x2 <;>
  simp [h12, ho1, ho2] <;>
  split_ifs <;> simp_all [Mem.write, scalPrim, axpyPrim] <;> grind

/-- Main theorem: for every commutative ring (ℤ, ℚ, ℝ, ℂ, …), every size and BLAS
applicability (hence every regime selected by the extracted thresholds), every
identity-aliasing pattern of `(x1, x2, out)` (arbitrary buffer ids), all scalars and all
buffer contents, `_lincomb_impl` terminates and establishes the specification:
`out = a*x1 + b*x2` entry-wise from the pre-state, nothing else modified. -/
theorem C01.lincomb_correct {K : Type} [CommRing K] [DecidableEq K]
    (size : Nat) (blasOk : Bool) (A : Args) (a b : K) (m : Mem K) :
    ∃ m', lincombImpl thrSmall thrMedium fbGuard zeroGuard prog size blasOk A a b m = some m' ∧
      Spec A a b m m' := by
  unfold lincombImpl
  split_ifs with hz
  · simp only [Bool.and_eq_true, decide_eq_true_eq] at hz
    refine ⟨_, rfl, ?_, ?_⟩
    · intro i; simp [Mem.write, hz.1.2, hz.2]
    · intro buf h; simp [Mem.write, h]
  · cases regime thrSmall thrMedium size blasOk
    · refine ⟨_, rfl, ?_, ?_⟩
      · intro i; simp [direct, Mem.write]
      · intro buf h; simp [direct, Mem.write, h]
    · exact C01.dispatch_correct _ A a b m
    · exact C01.dispatch_correct _ A a b m

/-- Operands that are not the output are never modified. -/
theorem C01.lincomb_frame {K : Type} [CommRing K] [DecidableEq K]
    (size : Nat) (blasOk : Bool) (A : Args) (a b : K) (m m' : Mem K)
    (h : lincombImpl thrSmall thrMedium fbGuard zeroGuard prog size blasOk A a b m = some m') :
    (A.x1 ≠ A.out → m' A.x1 = m A.x1) ∧ (A.x2 ≠ A.out → m' A.x2 = m A.x2) := by
  obtain ⟨m'', h1, _, h3⟩ := C01.lincomb_correct size blasOk A a b m
  rw [h] at h1; cases h1
  exact ⟨fun h => h3 _ h, fun h => h3 _ h⟩

/-- The previous contents of a non-aliased output never influence the result: two
pre-states that agree on the operand buffers give the same output. -/
theorem C01.lincomb_out_independent {K : Type} [CommRing K] [DecidableEq K]
    (size : Nat) (blasOk : Bool) (A : Args) (a b : K) (m₁ m₂ m₁' m₂' : Mem K)
    (hx1 : m₁ A.x1 = m₂ A.x1) (hx2 : m₁ A.x2 = m₂ A.x2)
    (h₁ : lincombImpl thrSmall thrMedium fbGuard zeroGuard prog size blasOk A a b m₁ = some m₁')
    (h₂ : lincombImpl thrSmall thrMedium fbGuard zeroGuard prog size blasOk A a b m₂ = some m₂') :
    m₁' A.out = m₂' A.out := by
  obtain ⟨n₁, e₁, s₁, _⟩ := C01.lincomb_correct size blasOk A a b m₁
  obtain ⟨n₂, e₂, s₂, _⟩ := C01.lincomb_correct size blasOk A a b m₂
  rw [h₁] at e₁; rw [h₂] at e₂; cases e₁; cases e₂
  funext i; rw [s₁ i, s₂ i, hx1, hx2]

/-- The regime function covers the three cases at the extracted thresholds
(non-vacuity: each regime is reachable). -/
theorem C01.regimes_reachable :
    regime thrSmall thrMedium (thrSmall - 1) true = .small ∧
    regime thrSmall thrMedium thrSmall true = .fallback ∧
    regime thrSmall thrMedium thrMedium false = .fallback ∧
    regime thrSmall thrMedium thrMedium true = .blas := by
  decide

/-- Non-vacuity: a concrete fully aliased integer state in the fallback regime. -/
example : ∃ m', lincombImpl thrSmall thrMedium fbGuard zeroGuard prog 100 false ⟨0, 0, 0⟩ (2 : Int) (-2)
    (fun _ i => (i : Int)) = some m' ∧ m' 0 5 = 0 := by
  obtain ⟨m', h, s, _⟩ := C01.lincomb_correct (K := Int) 100 false ⟨0, 0, 0⟩ 2 (-2) (fun _ i => (i : Int))
  exact ⟨m', h, by rw [s]; simp⟩

/-! ## Element-level arithmetic (`odl/set/space.py`) on top of a correct `_lincomb` -/

/-- The tensor-space `_lincomb` (extracted program, any size/regime) satisfies `LCSpec`. -/
theorem C01.tensor_lincomb_spec {K : Type} [CommRing K] [DecidableEq K] (size : Nat) (blasOk : Bool) :
    LCSpec (K := K) (fun A a b m => lincombImpl thrSmall thrMedium fbGuard zeroGuard prog size blasOk A a b m) :=
  fun A a b m => C01.lincomb_correct size blasOk A a b m

section
variable {K : Type} [Field K]

/-- `space.lincomb(a, x, out=out)` (the `b is None` form) yields `a*x`. -/
theorem C01.lincomb1_ok (lc : LC K) (h : LCSpec lc) (a : K) (x out : Nat) (m : Mem K) :
    ∃ m', lincomb1 lc a x out m = some m' ∧ (∀ i, m' out i = a * m x i) ∧
      ∀ buf, buf ≠ out → m' buf = m buf := by
  obtain ⟨m', e, s1, s2⟩ := h ⟨x, x, out⟩ a 0 m
  exact ⟨m', e, fun i => by rw [s1 i]; simp, s2⟩

theorem C01.elem_op_correct (lc : LC K) (h : LCSpec lc) (op : Op) (x y t : Nat) (c : K) (m : Mem K)
    (hx : t ≠ x) (hy : t ≠ y) :
    ∃ m' r, op.exec lc x y t c m = some (m', r) ∧ r = (if op.inPlace then x else t) ∧
      (∀ i, m' r i = op.spec c (m x i) (m y i)) ∧
      (∀ buf, buf ≠ r → buf ≠ t → m' buf = m buf) := by
  have hx' : x ≠ t := Ne.symm hx
  have hy' : y ≠ t := Ne.symm hy
  cases op
  case addE =>
    obtain ⟨m', e, s1, s2⟩ := h ⟨x, y, t⟩ 1 1 m
    exact ⟨m', t, by simp [Op.exec, e], by simp [Op.inPlace], by simpa [Op.spec] using s1, fun b hb _ => s2 b hb⟩
  case subE =>
    obtain ⟨m', e, s1, s2⟩ := h ⟨x, y, t⟩ 1 (-1) m
    exact ⟨m', t, by simp [Op.exec, e], by simp [Op.inPlace], by simpa [Op.spec] using s1, fun b hb _ => s2 b hb⟩
  case mulE =>
    exact ⟨_, t, rfl, by simp [Op.inPlace], by simp [Op.spec, multiply, Mem.write], fun b hb _ => by simp [multiply, Mem.write, hb]⟩
  case divE =>
    exact ⟨_, t, rfl, by simp [Op.inPlace], by simp [Op.spec, divide, Mem.write], fun b hb _ => by simp [divide, Mem.write, hb]⟩
  case rsubE =>
    obtain ⟨m', e, s1, s2⟩ := h ⟨y, x, t⟩ 1 (-1) m
    exact ⟨m', t, by simp [Op.exec, e], by simp [Op.inPlace], by simpa [Op.spec] using s1, fun b hb _ => s2 b hb⟩
  case rdivE =>
    exact ⟨_, t, rfl, by simp [Op.inPlace], by simp [Op.spec, divide, Mem.write], fun b hb _ => by simp [divide, Mem.write, hb]⟩
  case addS =>
    obtain ⟨m', e, s1, s2⟩ := h ⟨x, t, t⟩ 1 c (one t m)
    refine ⟨m', t, by simp [Op.exec, e], by simp [Op.inPlace], ?_, ?_⟩
    · intro i; have := s1 i; simp [one, Mem.write, hx'] at this; simp [Op.spec, this]
    · intro b hb _; have := s2 b hb; simp [one, Mem.write, hb] at this; exact this
  case subS =>
    obtain ⟨m', e, s1, s2⟩ := h ⟨x, t, t⟩ 1 (-c) (one t m)
    refine ⟨m', t, by simp [Op.exec, e], by simp [Op.inPlace], ?_, ?_⟩
    · intro i; have := s1 i; simp [one, Mem.write, hx'] at this; simp [Op.spec, this]
    · intro b hb _; have := s2 b hb; simp [one, Mem.write, hb] at this; exact this
  case rsubS =>
    obtain ⟨m1, e1, s1, f1⟩ := C01.lincomb1_ok lc h c t t (one t m)
    obtain ⟨m', e, s2, f2⟩ := h ⟨t, x, t⟩ 1 (-1) m1
    refine ⟨m', t, by simp [Op.exec, e1, e], by simp [Op.inPlace], ?_, ?_⟩
    · intro i; have := s2 i; simp only [] at this
      rw [this, s1 i, f1 x hx']; simp [one, Mem.write, hx', Op.spec]
    · intro b hb _; rw [f2 b hb, f1 b hb]; simp [one, Mem.write, hb]
  case mulS =>
    obtain ⟨m', e, s1, f1⟩ := C01.lincomb1_ok lc h c x t m
    exact ⟨m', t, by simp [Op.exec, e], by simp [Op.inPlace], by simpa [Op.spec] using s1, fun b hb _ => f1 b hb⟩
  case divS =>
    obtain ⟨m', e, s1, f1⟩ := C01.lincomb1_ok lc h (1 / c) x t m
    exact ⟨m', t, by simp only [Op.exec, e, Option.map_some], by simp [Op.inPlace], by simpa [Op.spec] using s1, fun b hb _ => f1 b hb⟩
  case rdivS =>
    obtain ⟨m1, e1, s1, f1⟩ := C01.lincomb1_ok lc h c t t (one t m)
    refine ⟨divide t x t m1, t, by simp [Op.exec, e1], by simp [Op.inPlace], ?_, ?_⟩
    · intro i; simp [divide, Mem.write, s1 i, f1 x hx', one, hx', Op.spec]
    · intro b hb _; simp [divide, Mem.write, hb, f1 b hb, one]
  case iaddE =>
    obtain ⟨m', e, s1, s2⟩ := h ⟨x, y, x⟩ 1 1 m
    exact ⟨m', x, by simp [Op.exec, e], by simp [Op.inPlace], by simpa [Op.spec] using s1, fun b hb _ => s2 b hb⟩
  case isubE =>
    obtain ⟨m', e, s1, s2⟩ := h ⟨x, y, x⟩ 1 (-1) m
    exact ⟨m', x, by simp [Op.exec, e], by simp [Op.inPlace], by simpa [Op.spec] using s1, fun b hb _ => s2 b hb⟩
  case imulE =>
    exact ⟨_, x, rfl, by simp [Op.inPlace], by simp [Op.spec, multiply, Mem.write], fun b hb _ => by simp [multiply, Mem.write, hb]⟩
  case idivE =>
    exact ⟨_, x, rfl, by simp [Op.inPlace], by simp [Op.spec, divide, Mem.write], fun b hb _ => by simp [divide, Mem.write, hb]⟩
  case iaddS =>
    obtain ⟨m', e, s1, s2⟩ := h ⟨x, t, x⟩ 1 c (one t m)
    refine ⟨m', x, by simp [Op.exec, e], by simp [Op.inPlace], ?_, ?_⟩
    · intro i; have := s1 i; simp [one, Mem.write, hx'] at this; simp [Op.spec, this]
    · intro b hb hbt; have := s2 b hb; simp [one, Mem.write, hbt] at this; exact this
  case isubS =>
    obtain ⟨m', e, s1, s2⟩ := h ⟨x, t, x⟩ 1 (-c) (one t m)
    refine ⟨m', x, by simp [Op.exec, e], by simp [Op.inPlace], ?_, ?_⟩
    · intro i; have := s1 i; simp [one, Mem.write, hx'] at this; simp [Op.spec, this]
    · intro b hb hbt; have := s2 b hb; simp [one, Mem.write, hbt] at this; exact this
  case imulS =>
    obtain ⟨m', e, s1, f1⟩ := C01.lincomb1_ok lc h c x x m
    exact ⟨m', x, by simp [Op.exec, e], by simp [Op.inPlace], by simpa [Op.spec] using s1, fun b hb _ => f1 b hb⟩
  case idivS =>
    obtain ⟨m', e, s1, f1⟩ := C01.lincomb1_ok lc h (1 / c) x x m
    exact ⟨m', x, by simp only [Op.exec, e, Option.map_some], by simp [Op.inPlace], by simpa [Op.spec] using s1, fun b hb _ => f1 b hb⟩
  case neg =>
    obtain ⟨m', e, s1, f1⟩ := C01.lincomb1_ok lc h (-1) x t m
    exact ⟨m', t, by simp [Op.exec, e], by simp [Op.inPlace], by simpa [Op.spec] using s1, fun b hb _ => f1 b hb⟩
  case pos =>
    obtain ⟨m', e, s1, f1⟩ := C01.lincomb1_ok lc h 1 x t m
    exact ⟨m', t, by simp [Op.exec, e], by simp [Op.inPlace], by simpa [Op.spec] using s1, fun b hb _ => f1 b hb⟩
  case setZero =>
    obtain ⟨m', e, s1, s2⟩ := h ⟨x, x, x⟩ 0 0 m
    exact ⟨m', x, by simp [Op.exec, e], by simp [Op.inPlace], by simpa [Op.spec] using s1, fun b hb _ => s2 b hb⟩
  case assign =>
    obtain ⟨m', e, s1, f1⟩ := C01.lincomb1_ok lc h 1 y x m
    exact ⟨m', x, by simp [Op.exec, e], by simp [Op.inPlace], by simpa [Op.spec] using s1, fun b hb _ => f1 b hb⟩

theorem C01.mulLoop_ok (x t : Nat) (hx : t ≠ x) (k : Nat) (m : Mem K) :
    (∀ i, mulLoop x t k m t i = m t i * (m x i) ^ k) ∧
    (∀ buf, buf ≠ t → mulLoop x t k m buf = m buf) := by
  induction k generalizing m with
  | zero => simp [mulLoop]
  | succ k ih =>
    obtain ⟨h1, h2⟩ := ih (multiply x t t m)
    refine ⟨fun i => ?_, fun b hb => ?_⟩
    · simp only [mulLoop]; rw [h1 i]; simp [multiply, Mem.write, Ne.symm hx]; ring
    · simp only [mulLoop]; rw [h2 b hb]; simp [multiply, Mem.write, hb]

theorem C01.ipow_correct (lc : LC K) (h : LCSpec lc) (x t : Nat) (hx : t ≠ x) (p : Nat) (m : Mem K) :
    ∃ m', ipow lc x t p m = some m' ∧ (∀ i, m' x i = (m x i) ^ p) ∧
      (∀ buf, buf ≠ x → buf ≠ t → m' buf = m buf) := by
  induction p using Nat.strong_induction_on generalizing m with
  | _ p ih =>
    unfold ipow
    split_ifs with h0 h1 h2
    · obtain ⟨m', e, s1, f1⟩ := C01.lincomb1_ok lc h 1 t x (one t m)
      refine ⟨m', e, fun i => ?_, fun b hb hbt => ?_⟩
      · rw [s1 i, h0]; simp [one, Mem.write]
      · rw [f1 b hb]; simp [one, Mem.write, hbt]
    · exact ⟨m, rfl, fun i => by simp [h1], fun _ _ _ => rfl⟩
    · obtain ⟨m', e, s1, f1⟩ := ih (p / 2) (by omega) (multiply x x x m)
      refine ⟨m', e, fun i => ?_, fun b hb hbt => ?_⟩
      · rw [s1 i]; simp only [multiply, Mem.write, if_true]
        rw [← pow_two, ← pow_mul]; congr 1; omega
      · rw [f1 b hb hbt]; simp [multiply, Mem.write, hb]
    · obtain ⟨m1, e1, s1, f1⟩ := C01.lincomb1_ok lc h 1 x t m
      obtain ⟨l1, l2⟩ := C01.mulLoop_ok (K := K) x t hx (p - 2) m1
      refine ⟨multiply t x x (mulLoop x t (p - 2) m1), by simp [e1], fun i => ?_, fun b hb hbt => ?_⟩
      · simp only [multiply, Mem.write, if_true]
        rw [l1 i, l2 x (Ne.symm hx), s1 i, f1 x (Ne.symm hx)]
        have : p = (p - 2) + 2 := by omega
        conv_rhs => rw [this]
        ring
      · simp only [multiply, Mem.write, hb, if_false]
        rw [l2 b hbt, f1 b hbt]

end

/-! ## Product spaces: `ProductSpace._lincomb` is component-wise -/

section
variable {K : Type} [CommRing K]

/-- For product-space elements given by the buffer ids of their leaf parts: if the parts of
`out` are pairwise distinct objects and part `i` of `out` is not part `j ≠ i` of an operand
(true for identity aliasing, where aliased elements have equal part lists), then
`ProductSpace._lincomb` yields `a*x + b*y` on every part and touches nothing else —
whatever the aliasing between `x`, `y` and `out`. By induction over the component list,
so for any number of components and any nesting (flattened to leaves). -/
theorem C01.plincomb_correct (lc : LC K) (h : LCSpec lc) (a b : K) :
    ∀ (xs ys os : List Nat) (m : Mem K), xs.length = os.length → ys.length = os.length →
      os.Nodup →
      (∀ i j (hi : i < os.length) (_hj : j < os.length), i ≠ j →
          os[i] ≠ xs[j]! ∧ os[i] ≠ ys[j]!) →
      ∃ m', plincomb lc xs ys os a b m = some m' ∧
        (∀ k (hk : k < os.length) i, m' os[k] i = a * m xs[k]! i + b * m ys[k]! i) ∧
        (∀ buf, buf ∉ os → m' buf = m buf) := by
  intro xs ys os
  induction os generalizing xs ys with
  | nil =>
    intro m hx hy _ _
    have : xs = [] := List.length_eq_zero_iff.mp hx
    have : ys = [] := List.length_eq_zero_iff.mp hy
    subst_vars
    exact ⟨m, rfl, fun k hk => absurd hk (by simp), fun _ _ => rfl⟩
  | cons o os ih =>
    intro m hx hy hnd hdis
    match xs, ys, hx, hy with
    | x :: xs, y :: ys, hx, hy =>
      obtain ⟨m1, e1, s1, f1⟩ := h ⟨x, y, o⟩ a b m
      have hnd' := List.nodup_cons.mp hnd
      obtain ⟨m', e, s, f⟩ := ih xs ys m1 (by simpa using hx) (by simpa using hy) hnd'.2
        (fun i j hi hj hij => by
          have := hdis (i+1) (j+1) (by simpa using hi) (by simpa using hj) (by omega)
          simpa using this)
      refine ⟨m', by simp [plincomb, e1, e], ?_, ?_⟩
      · intro k hk i
        cases k with
        | zero =>
          simp only [List.getElem_cons_zero, List.getElem!_cons_zero] 
          rw [f o hnd'.1]; exact s1 i
        | succ k =>
          have hk' : k < os.length := by simpa using hk
          simp only [List.getElem_cons_succ, List.getElem!_cons_succ]
          rw [s k hk' i]
          have hd := hdis 0 (k+1) (by simp) hk (by omega)
          simp only [List.getElem_cons_zero, List.getElem!_cons_succ] at hd
          rw [f1 _ (Ne.symm hd.1), f1 _ (Ne.symm hd.2)]
      · intro buf hb
        have hb' : buf ≠ o ∧ buf ∉ os := by simpa [List.mem_cons, not_or] using hb
        rw [f buf hb'.2, f1 buf hb'.1]

end

/-- Non-vacuity of the element layer: `x **= 5` on a concrete rational buffer, through the
extracted tensor `_lincomb`. -/
example : ∃ m', ipow (K := Rat) (fun A a b m => lincombImpl thrSmall thrMedium fbGuard zeroGuard prog 3 false A a b m)
    0 1 5 (fun _ i => (i : Rat) + 2) = some m' ∧ m' 0 1 = 243 := by
  obtain ⟨m', e, s, _⟩ := C01.ipow_correct (K := Rat) _ (C01.tensor_lincomb_spec 3 false) 0 1 (by decide) 5
    (fun _ i => (i : Rat) + 2)
  exact ⟨m', e, by rw [s]; norm_num⟩

/-! ## Front end of `LinearSpace.lincomb`: malformed calls are rejected before any write -/

/-- `_lincomb` is reached iff every given argument is well-formed: `out` (if given) and `x1`
in the space, `a` in the field (if the space has one), and either the one-element form with
no `x2`, or `b` in the field and `x2` in the space. In every other case the outcome is an
error constructor, i.e. the call returns before `_lincomb` (the only writer) runs. -/
theorem C01.lincomb_front_rejects (hasField outGiven outIn aIn x1In bGiven x2Given bIn x2In : Bool) :
    (lincombFront hasField outGiven outIn aIn x1In bGiven x2Given bIn x2In).isError = false ↔
      ((outGiven = true → outIn = true) ∧ (hasField = true → aIn = true) ∧ x1In = true ∧
        ((bGiven = false ∧ x2Given = false) ∨
         (bGiven = true ∧ (hasField = true → bIn = true) ∧ x2In = true))) := by
  cases hasField <;> cases outGiven <;> cases outIn <;> cases aIn <;> cases x1In <;>
    cases bGiven <;> cases x2Given <;> cases bIn <;> cases x2In <;>
    simp [lincombFront, FrontOutcome.isError]
