/-
C14 — partitions tile their domain: cells, nodes, indices and slices stay consistent.
Property theorems only.  The model (`Model/Partition.lean`) follows
`odl/discr/partition.py`, `grid.py`, `set/domain.py`, `util/normalize.py` and is tied to
/repo on every run by the correspondence check (`tools/harness/c14.py`).
`Valid P` (Lemmas/Partition.lean) = what the real constructors accept: `n ≥ 1`, nodes strictly
increasing, `lo ≤ c 0`, `c (n-1) ≤ hi`.  `Nondegenerate P` = `n ≥ 2 ∨ lo < hi`.
-/
import OdlModel.Lemmas.Partition

open OdlModel.Partition

/-- The cell boundary vector starts at `min_pt` and ends at `max_pt` exactly. -/
theorem C14.bdry_ends (P : Part1) (h : 1 ≤ P.n) : P.bdry 0 = P.lo ∧ P.bdry P.n = P.hi :=
  ⟨bdry_zero P h, bdry_last P⟩

/-- Cell boundaries are strictly increasing, for every number of nodes, every non-uniform
coordinate vector and every placement of the limits (excluding only the one-point partition
of a one-point set, whose single cell is a point). -/
theorem C14.bdry_strict_mono (P : Part1) (hv : Valid P) (hn : Nondegenerate P) (k : Nat)
    (hk : k < P.n) : P.bdry k < P.bdry (k + 1) := by
  rcases Nat.eq_zero_or_pos k with rfl | hk0
  · rw [bdry_zero P hv.pos]
    rcases Nat.lt_or_ge 1 P.n with h | h
    · rw [bdry_succ_mid P 0 h]
      have := hv.mono 0 h
      have := hv.lo_le
      linarith
    · rw [bdry_ge P 1 h]
      rcases hn with h2 | h2
      · omega
      · exact h2
  · rw [bdry_mid P k hk0 hk]
    have e : k - 1 + 1 = k := by omega
    have h1 := hv.mono (k - 1) (by omega)
    rw [e] at h1
    rcases Nat.lt_or_ge (k + 1) P.n with h | h
    · rw [bdry_succ_mid P k h]
      have := hv.mono k h
      linarith
    · rw [bdry_ge P (k + 1) h]
      have : k = P.n - 1 := by omega
      have := hv.le_hi
      subst k
      linarith

/-- Every grid point lies in its own cell: `bdry[i] ≤ c[i] ≤ bdry[i+1]`, all sizes. -/
theorem C14.node_in_own_cell (P : Part1) (hv : Valid P) (i : Nat) (hi : i < P.n) :
    P.bdry i ≤ P.c i ∧ P.c i ≤ P.bdry (i + 1) := by
  constructor
  · rcases Nat.eq_zero_or_pos i with rfl | h0
    · rw [bdry_zero P hv.pos]; exact hv.lo_le
    · rw [bdry_mid P i h0 hi]
      have e : i - 1 + 1 = i := by omega
      have h1 := hv.mono (i - 1) (by omega)
      rw [e] at h1
      linarith
  · rcases Nat.lt_or_ge (i + 1) P.n with h | h
    · rw [bdry_succ_mid P i h]
      have := hv.mono i h
      linarith
    · rw [bdry_ge P (i + 1) h]
      have : i = P.n - 1 := by omega
      subst this; exact hv.le_hi

/-- Non-vacuity: a non-uniform 3-point partition of `[-1, 4]` is a valid state. -/
example : Valid ⟨3, fun i => i * i, -1, 4⟩ ∧ Nondegenerate ⟨3, fun i => i * i, -1, 4⟩ := by
  refine ⟨⟨by decide, ?_, by norm_num, by norm_num⟩, Or.inl (by decide)⟩
  intro i hi
  have hi' : i + 1 < 3 := hi
  have : i = 0 ∨ i = 1 := by omega
  rcases this with rfl | rfl <;> norm_num
