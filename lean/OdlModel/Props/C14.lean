/-
C14 — partitions tile their domain: cells, nodes, indices and slices stay consistent.
Property theorems only.  The model (`Model/Partition.lean`) follows
`odl/discr/partition.py`, `grid.py`, `set/domain.py`, `util/normalize.py` statement by
statement and is tied to /repo on every run by the correspondence check
(`tools/harness/c14.py`).

Vocabulary (Lemmas/Partition.lean):
`Valid P`         what the real constructors accept: `n ≥ 1`, nodes strictly increasing,
                  `lo ≤ c 0`, `c (n-1) ≤ hi`  (`P.wf = true ↔ Valid P`);
`Nondegenerate P` `n ≥ 2 ∨ lo < hi` (excludes only the one-point partition of a one-point set);
`subPart P s e st` nodes `c s, c (s+st), …` below `e`, limits `bdry s`, `bdry e`;
`sumTo f n`       `f 0 + … + f (n-1)`.
All statements are for every number of nodes `n`, every coordinate vector and all rationals
(hence every finite float); nothing is bounded.  Tolerances of the code (`np.allclose` in
`is_uniform`, the relative boundary test `1e-5` of `nodes_on_bdry`, `np.isclose` / `1e-5` in the
parameter completion) are universally quantified parameters with the stated side conditions, which
the values used by the code and by the driver satisfy.

Sections: (1) 1-d tiling, (2) uniform / non-uniform constructors, (3) point location,
(4) 1-d indexing, (5) n-d: the two code paths (grid / set) stay aligned, (6) n-d model structure
(statements about the aligned view `Part := List Part1`; what they say about /repo rests on (5) and
on the correspondence run), (7) sensitivity: the OLD model variants of repaired defects.
-/
import OdlModel.Lemmas.Partition
import OdlModel.Gen.UniformGrid

open OdlModel.Partition

/-- The executable constructor check accepts exactly the `Valid` states (so the hypotheses of
the theorems below are the states the code can be in). -/
theorem C14.wf_iff_valid (P : Part1) : P.wf = true ↔ Valid P :=
  ⟨valid_of_wf P, wf_of_valid P⟩

/-- The cell boundary vector starts at `min_pt` and ends at `max_pt` exactly. -/
theorem C14.bdry_ends (P : Part1) (h : 1 ≤ P.n) : P.bdry 0 = P.lo ∧ P.bdry P.n = P.hi :=
  ⟨bdry_zero P h, bdry_last P⟩

/-- Cell boundaries are strictly increasing, for every number of nodes, every non-uniform
coordinate vector and every placement of the limits (excluding only the one-point partition
of a one-point set, whose single cell is a point). -/
theorem C14.bdry_strict_mono (P : Part1) (hv : Valid P) (hn : Nondegenerate P) (k : Nat)
    (hk : k < P.n) : P.bdry k < P.bdry (k + 1) :=
  bdry_lt_succ P hv hn k hk

/-- Every grid point lies in its own cell: `bdry[i] ≤ c[i] ≤ bdry[i+1]`, all sizes. -/
theorem C14.node_in_own_cell (P : Part1) (hv : Valid P) (i : Nat) (hi : i < P.n) :
    P.bdry i ≤ P.c i ∧ P.c i ≤ P.bdry (i + 1) :=
  ⟨node_ge_bdry P hv i hi, node_le_bdry P hv i hi⟩

/-- Non-vacuity: a non-uniform 3-point partition of `[-1, 4]` is a valid state. -/
example : Valid ⟨3, fun i => i * i, -1, 4⟩ ∧ Nondegenerate ⟨3, fun i => i * i, -1, 4⟩ := by
  refine ⟨⟨by decide, ?_, by norm_num, by norm_num⟩, Or.inl (by decide)⟩
  intro i hi
  have hi' : i + 1 < 3 := hi
  have : i = 0 ∨ i = 1 := by omega
  rcases this with rfl | rfl <;> norm_num

/-- `cell_sizes_vecs[i]` is the width of cell `i` (difference of its boundaries), for every
number of nodes including the single-node axis.  (No validity needed: pure index arithmetic.) -/
theorem C14.cell_size_is_width (P : Part1) (hn : 1 ≤ P.n) (i : Nat) (hi : i < P.n) :
    P.cellSize i = P.bdry (i + 1) - P.bdry i :=
  cell_size_eq_bdry_diff P hn i hi

/-- Cell sizes sum to the extent `max_pt - min_pt` (telescoping), for every `n ≥ 1`. -/
theorem C14.cell_sizes_sum (P : Part1) (hn : 1 ≤ P.n) :
    sumTo P.cellSize P.n = P.hi - P.lo :=
  cell_sizes_sum_all P hn

example : sumTo (Part1.ofList [0, 1, 3] (-1/2) 4).cellSize 3 = 4 - (-1/2) :=
  C14.cell_sizes_sum (Part1.ofList [0, 1, 3] (-1/2) 4) (by decide)

/-- Boundary cell fractions: the part of the first/last "natural" cell (centred at the node,
as wide as the neighbouring stride) that lies inside the set is `1/2 + distance / stride`:
`1/2` when the node is on the boundary, `1` when the limit is half a stride away. -/
theorem C14.bdry_fraction_formula (P : Part1) (hv : Valid P) (hn : 2 ≤ P.n) :
    (P.bdryFrac.1 - 1 / 2) * (P.c 1 - P.c 0) = P.c 0 - P.lo ∧
    (P.bdryFrac.2 - 1 / 2) * (P.c (P.n - 1) - P.c (P.n - 2)) = P.hi - P.c (P.n - 1) ∧
    (P.c 0 = P.lo → P.bdryFrac.1 = 1 / 2) ∧ (P.c (P.n - 1) = P.hi → P.bdryFrac.2 = 1 / 2) := by
  have h1 := hv.mono 0 (by omega)
  have h2 := hv.mono (P.n - 2) (by omega)
  have e : P.n - 2 + 1 = P.n - 1 := by omega
  rw [e] at h2
  have d1 : P.c 1 - P.c 0 ≠ 0 := by simp at h1 ⊢; linarith
  have d2 : P.c (P.n - 1) - P.c (P.n - 2) ≠ 0 := by linarith
  unfold Part1.bdryFrac
  rw [if_neg (by omega)]
  refine ⟨?_, ?_, ?_, ?_⟩
  · simp only []; field_simp; ring
  · simp only []; field_simp; ring
  · intro h; simp only [h, sub_self, zero_div, add_zero]
  · intro h; simp only [h, sub_self, zero_div, add_zero]

/-- Translator tie: the node-placement table read from the SOURCE of `uniform_grid_fromintv`
(`Gen/UniformGrid.lean`, regenerated on every run) is the table of the model, for all four flag
combinations and all `lo, hi, n`.  A changed coefficient or swapped branch in the source makes
this theorem fail. -/
theorem C14.extracted_table_is_model (lo hi : Rat) (n : Nat) (bl br : Bool) :
    (OdlModel.Gen.UniformGrid.gmin bl br).eval lo hi n = gminOf lo hi n bl br ∧
    (OdlModel.Gen.UniformGrid.gmax bl br).eval lo hi n = gmaxOf lo hi n bl br := by
  constructor <;> cases bl <;> cases br <;>
  simp [OdlModel.Gen.UniformGrid.gmin, OdlModel.Gen.UniformGrid.gmax, Off.eval, gminOf, gmaxOf] <;>
  ring

/-- `uniform_partition_fromintv` / `uniform_grid_fromintv` place node `i` at
`lo + (i + [¬bdry_l]/2) * h` with `h = (hi - lo) / (n - (bl + br)/2)`, for all four flag
combinations and every `n ≥ 2`. -/
theorem C14.uniform_node_placement (lo hi : Rat) (n : Nat) (hn : 2 ≤ n) (bl br : Bool) (i : Nat) :
    (uniformAxis lo hi n bl br).c i =
      lo + ((i : Rat) + (if bl then 0 else 1 / 2)) * ((hi - lo) / ((n : Rat) - halfCount bl br)) :=
  uniform_nodes lo hi n hn bl br i

/-- Uniform partitions: `cell_sides * (n - (bl + br)/2) = max_pt - min_pt` for all four
nodes-on-boundary combinations and every `n ≥ 2`; the partition is a valid state, and the
flags detected by `nodes_on_bdry_byaxis` are the requested ones.  Holds for EVERY tolerance
`t` of `np.allclose` with non-negative entries and EVERY relative boundary tolerance
`rtol < 1/2` — in particular for the values the code uses (`Tol.numpy`, `1e-5`), see the
corollary below. -/
theorem C14.uniform_side_times_count (t : Tol) (ht1 : 0 ≤ t.atol) (ht2 : 0 ≤ t.rtol) (rtol : Rat)
    (hr : rtol < 1 / 2) (lo hi : Rat) (hlh : lo < hi) (n : Nat) (hn : 2 ≤ n) (bl br : Bool) :
    Valid (uniformAxis lo hi n bl br) ∧
    ∃ h, (uniformAxis lo hi n bl br).cellSide t = some h ∧
      h * ((n : Rat) - halfCount bl br) = hi - lo ∧
      (uniformAxis lo hi n bl br).nodesOnBdry rtol = (bl, br) := by
  refine ⟨OdlModel.Partition.uniform_valid lo hi hlh n (by omega) bl br, _,
    uniform_cellSide t ht1 ht2 lo hi hlh n hn bl br, ?_,
    uniform_nodesOnBdry rtol hr lo hi hlh n hn bl br⟩
  have := halfCount_lt bl br n hn
  field_simp

/-- The instance the code and the driver execute: `is_uniform` with `rtol = 1e-5` plus the coordinate
rounding allowance `4 * 2^-52 * max |v|` (`Part1.uniTol`), boundary tolerance `1e-5`. -/
theorem C14.uniform_side_times_count_code (lo hi : Rat) (hlh : lo < hi) (n : Nat) (hn : 2 ≤ n)
    (bl br : Bool) :
    ∃ h, (uniformAxis lo hi n bl br).cellSide
        ((uniformAxis lo hi n bl br).uniTol (1 / 4503599627370496) (1 / 100000)) = some h ∧
      h * ((n : Rat) - halfCount bl br) = hi - lo ∧
      (uniformAxis lo hi n bl br).nodesOnBdry (1 / 100000) = (bl, br) := by
  have hr : ∀ x : Rat, 0 ≤ rabs x := by intro x; unfold rabs; split_ifs <;> linarith
  refine (C14.uniform_side_times_count _ ?_ (by norm_num [Part1.uniTol])
    (1 / 100000) (by norm_num) lo hi hlh n hn bl br).2
  simp only [Part1.uniTol]
  split_ifs
  · have := hr ((uniformAxis lo hi n bl br).c ((uniformAxis lo hi n bl br).n - 1)); positivity
  · have := hr ((uniformAxis lo hi n bl br).c 0); positivity

/-- One-node uniform axes are valid for every flag combination too: the node sits at `lo` (left flag),
`hi` (right flag only) or the midpoint.  The request "one node on BOTH ends" of a proper interval is
unsatisfiable; the code accepts it, puts the node at `lo` and reports the flags `(True, False)`. -/
theorem C14.uniform_valid (lo hi : Rat) (hlh : lo < hi) (n : Nat) (hn : 1 ≤ n) (bl br : Bool) :
    Valid (uniformAxis lo hi n bl br) ∧
    (n = 1 → (uniformAxis lo hi n bl br).c 0 =
        (if bl then lo else if br then hi else (lo + hi) / 2)) ∧
    (n = 1 → ∀ rtol, rtol < 1 / 2 → (uniformAxis lo hi n true true).nodesOnBdry rtol = (true, false)) := by
  refine ⟨OdlModel.Partition.uniform_valid lo hi hlh n hn bl br, ?_, ?_⟩
  · rintro rfl
    cases bl <;> cases br <;> simp [uniformAxis, gminOf] <;> ring
  · rintro rfl rtol hr
    have h2 : ¬ (hi - lo ≤ rtol * (hi - lo)) := by intro h; nlinarith
    have h3 : ¬ (hi - lo = 0) := by intro h; linarith
    simp [Part1.nodesOnBdry, uniformAxis, gminOf, onBdry, h2, h3]

example : (uniformAxis 64 (64 + 1 / 1024) 4 false false).cellSide
      ((uniformAxis 64 (64 + 1 / 1024) 4 false false).uniTol (1 / 4503599627370496) (1 / 100000)) =
      some (1 / 4096) ∧
    (uniformAxis 64 (64 + 1 / 1024) 4 false false).nodesOnBdry (1 / 100000) = (false, false) := by
  obtain ⟨h, h1, h2, h3⟩ := C14.uniform_side_times_count_code 64 (64 + 1 / 1024) (by norm_num) 4
    (by decide) false false
  refine ⟨?_, h3⟩
  rw [h1]; congr 1
  norm_num [halfCount] at h2
  linarith

/-- `index(p)`: for every valid non-degenerate partition and every point of the set the
returned cell `k` contains `p` (`bdry k ≤ p < bdry (k+1)`, the last cell closed on the right),
and the floating index is `k + (p - bdry k) / (bdry (k+1) - bdry k)`.
`np.searchsorted` enters through its specification `searchLeft`. -/
theorem C14.index_correct (P : Part1) (hv : Valid P) (hn : Nondegenerate P) (v : Rat)
    (h1 : P.lo ≤ v) (h2 : v ≤ P.hi) :
    ∃ k : Nat, P.index v = some (k : Int) ∧ k < P.n ∧ P.bdry k ≤ v ∧
      (v < P.bdry (k + 1) ∨ (k + 1 = P.n ∧ v = P.hi)) ∧
      P.indexFloat v = some ((k : Rat) + (v - P.bdry k) / (P.bdry (k + 1) - P.bdry k)) :=
  index_spec P hv (bdry_lt_succ P hv hn) v h1 h2

/-- Points outside the set are rejected (the first test of `index`; holds by unfolding). -/
theorem C14.index_outside (P : Part1) (v : Rat) (h : v < P.lo ∨ P.hi < v) :
    P.index v = none ∧ P.indexFloat v = none := by
  unfold Part1.index Part1.indexFloat
  rw [if_pos h, if_pos h]; exact ⟨rfl, rfl⟩

/-- `partition[s:e:st]` (`0 ≤ s < e ≤ n`, step `st ≥ 1`, also `st` omitted): the result is a
valid partition with the selected nodes `c s, c (s+st), …` whose limits are the outer
boundaries `bdry s`, `bdry e` of the unit-step range (the documented behaviour: the step
thins the nodes, not the hull). -/
theorem C14.getitem_slice (P : Part1) (hv : Valid P) (s e st : Nat) (hse : s < e) (hen : e ≤ P.n)
    (hst : 1 ≤ st) :
    P.getSlice (some (s : Int)) (some (e : Int)) (some (st : Int)) = some (subPart P s e st) ∧
    (st = 1 → P.getSlice (some (s : Int)) (some (e : Int)) none = some (subPart P s e 1)) ∧
    Valid (subPart P s e st) :=
  ⟨getSlice_core P hv s e st hse hen hst _ rfl,
   fun _ => getSlice_core P hv s e 1 hse hen (le_refl _) none rfl,
   sub_valid P hv s e st hse hen hst⟩

/-- `partition[start:stop:step]` for ARBITRARY bounds — `None`, negative (counted from the end),
beyond the ends (clamped) — and every step `≥ 1` or omitted.  With `s, e` the clamped bounds
(`clampBound`: `None ↦ 0 / n`, `k ≥ 0 ↦ min k n`, `k < 0 ↦ max (k + n) 0`, Python's
`slice.indices`), the result is `subPart P s e step` if `s < e` and the expression is rejected
otherwise; `C14.getitem_slice` / `C14.getitem_cells` then describe `subPart`. -/
theorem C14.getitem_slice_general (P : Part1) (hv : Valid P) (start stop step : Option Int)
    (st : Nat) (hst : 1 ≤ st) (hstep : step.getD 1 = (st : Int)) :
    (sliceIndices start stop st P.n = (clampBound P.n 0 start, clampBound P.n P.n stop)) ∧
    (0 ≤ clampBound P.n 0 start ∧ clampBound P.n 0 start ≤ P.n) ∧
    (0 ≤ clampBound P.n P.n stop ∧ clampBound P.n P.n stop ≤ P.n) ∧
    P.getSlice start stop step =
      if clampBound P.n 0 start < clampBound P.n P.n stop then
        some (subPart P (clampBound P.n 0 start).toNat (clampBound P.n P.n stop).toNat st)
      else none :=
  ⟨sliceIndices_pos_spec start stop st (by omega) P.n,
   clampBound_range P.n 0 ⟨le_refl _, by omega⟩ start,
   clampBound_range P.n P.n ⟨by omega, le_refl _⟩ stop,
   getSlice_general P hv start stop step st hst hstep⟩

/-- `p[-3:-1]` on 5 cells is cells 2..3, `p[2:]` with step 2 keeps the hull up to `hi`. -/
example : (⟨5, fun i => i * i, -1/2, 20⟩ : Part1).getSlice (some (-3)) (some (-1)) none =
    some (subPart ⟨5, fun i => i * i, -1/2, 20⟩ 2 4 1) := by
  have hv : Valid ⟨5, fun i => i * i, -1/2, 20⟩ := by
    refine ⟨by decide, ?_, by norm_num, by norm_num⟩
    intro i hi
    have hi' : i + 1 < 5 := hi
    have : i = 0 ∨ i = 1 ∨ i = 2 ∨ i = 3 := by omega
    rcases this with rfl | rfl | rfl | rfl <;> norm_num
  have := (C14.getitem_slice_general _ hv (some (-3)) (some (-1)) none 1 (le_refl _) rfl).2.2.2
  simpa [clampBound] using this

/-- Unit-step slices: the cells of `partition[s:e]` are exactly the cells `s … e-1` of the
original — same number, same nodes, same boundaries (all of them, inner and outer). -/
theorem C14.getitem_cells (P : Part1) (hv : Valid P) (s e : Nat) (hse : s < e) (hen : e ≤ P.n) :
    ∃ Q, P.getSlice (some (s : Int)) (some (e : Int)) none = some Q ∧ Valid Q ∧ Q.n = e - s ∧
      (∀ i, Q.c i = P.c (s + i)) ∧ ∀ k, k ≤ e - s → Q.bdry k = P.bdry (s + k) := by
  refine ⟨subPart P s e 1, getSlice_core P hv s e 1 hse hen (le_refl _) none rfl,
    sub_valid P hv s e 1 hse hen (le_refl _), ?_, ?_, sub_bdry P s e hse hen⟩
  · simp [subPart]; omega
  · intro i; simp [subPart]

/-- Integer indices: `partition[k]` is cell `k` (`[bdry k, bdry (k+1)]` with node `c k`),
`partition[k - n] = partition[k]` for `0 ≤ k < n` (negative indices count from the end), and every
integer outside `-n ≤ k < n` is rejected. -/
theorem C14.getitem_int (P : Part1) (hv : Valid P) (k : Nat) (hk : k < P.n) :
    P.getInt (k : Int) = some (subPart P k (k + 1) 1) ∧
    P.getInt ((k : Int) - P.n) = P.getInt (k : Int) ∧
    (subPart P k (k + 1) 1).n = 1 ∧ (subPart P k (k + 1) 1).c 0 = P.c k ∧
    (subPart P k (k + 1) 1).lo = P.bdry k ∧ (subPart P k (k + 1) 1).hi = P.bdry (k + 1) ∧
    ∀ j : Int, j < -(P.n : Int) ∨ (P.n : Int) ≤ j → P.getInt j = none := by
  refine ⟨getInt_nat P hv k hk, getInt_neg P k hk, ?_, ?_, rfl, rfl, getInt_out_of_range P⟩ <;>
    simp [subPart]

example : ∃ Q, (⟨4, fun i => i * i, -1/2, 10⟩ : Part1).getSlice (some 1) (some 3) none = some Q ∧
    Q.n = 2 ∧ Q.bdry 0 = 1 / 2 ∧ Q.bdry 2 = 13 / 2 := by
  have hv : Valid ⟨4, fun i => i * i, -1/2, 10⟩ := by
    refine ⟨by decide, ?_, by norm_num, by norm_num⟩
    intro i hi
    have hi' : i + 1 < 4 := hi
    have : i = 0 ∨ i = 1 ∨ i = 2 := by omega
    rcases this with rfl | rfl | rfl <;> norm_num
  obtain ⟨Q, h, _, hn, _, hb⟩ := C14.getitem_cells _ hv 1 3 (by decide) (by decide)
  refine ⟨Q, h, hn, ?_, ?_⟩
  · rw [hb 0 (by decide)]; norm_num [Part1.bdry]
  · rw [hb 2 (by decide)]; norm_num [Part1.bdry]

/-- `partition[:]`, `partition[...]` (every axis gets `slice(None)`): the axis is returned
unchanged. -/
theorem C14.getitem_full (P : Part1) (hv : Valid P) : P.getSlice none none none = some P :=
  getSlice_full P hv

/-- The excluded degenerate state (one node, `lo = hi`) is handled too: its only point has
index `0` (floating `0.0`). -/
theorem C14.index_degenerate (P : Part1) (hv : Valid P) (hn : P.n = 1) (hd : P.lo = P.hi) :
    P.index P.lo = some 0 ∧ P.indexFloat P.lo = some 0 :=
  OdlModel.Partition.index_degenerate P hv hn hd

/-- (n-d model structure, aligned view) `squeeze()` keeps exactly the axes with more than one node,
in order.  About /repo this says something only together with `C14.squeeze_two_paths_aligned`. -/
theorem C14.squeeze_cells (P : Part) :
    squeeze P none = some (P.filter fun p => decide (1 < p.n)) :=
  squeeze_all P

/-- `nonuniform_partition(coords, nodes_on_bdry=(bl, br))` without explicit limits, any strictly
increasing coordinate vector with `n ≥ 2`: the result is valid, has the given nodes, each
requested side has its node on the boundary (fraction `1/2`), each other side gets the natural
half-stride margin (fraction `1`); for every boundary tolerance `rtol < 1/2` (the code: `1e-5`). -/
theorem C14.nonuniform_limits (rtol : Rat) (hr : rtol < 1 / 2) (n : Nat) (c : Nat → Rat) (hn : 2 ≤ n)
    (hm : ∀ i, i + 1 < n → c i < c (i + 1)) (bl br : Bool) :
    ∃ P, nonuniformAxis n c none none bl br = some P ∧ Valid P ∧ P.n = n ∧ P.c = c ∧
      P.bdryFrac = (if bl then 1 / 2 else 1, if br then 1 / 2 else 1) ∧
      P.nodesOnBdry rtol = (bl, br) :=
  nonuniform_default rtol hr n c hn hm bl br

/-- `partition[[i0, …, ik]]` (list index on an axis; also a list inside a tuple index) for every list
of integers, negative entries included: if the entries wrap (`wrapIndex`: `k ↦ k` for `0 ≤ k < n`,
`k ↦ k + n` for `-n ≤ k < 0`, anything else raises) to a strictly increasing list of cell numbers,
the nodes are the selected nodes, the limits are the left boundary of the first and the right
boundary of the last selected cell, and the result is a valid partition. -/
theorem C14.getitem_list (P : Part1) (hv : Valid P) (l : List Int) (first : Nat) (rest : List Nat)
    (hw : l.mapM (wrapIndex P.n) = some (first :: rest))
    (hinc : (first :: rest).Pairwise (· < ·)) :
    ∃ Q, P.getList l = some Q ∧ Valid Q ∧
      Q.n = rest.length + 1 ∧ (∀ i, Q.c i = P.c ((first :: rest).getD i 0)) ∧
      Q.lo = P.bdry first ∧ Q.hi = P.bdry ((first :: rest).getLast (by simp) + 1) :=
  getList_general P hv l first rest hw hinc

/-- Specification of the wrap-around of list entries. -/
theorem C14.wrap_index_spec (n : Nat) (k : Int) (j : Nat) :
    wrapIndex n k = some j ↔
      (0 ≤ k ∧ k < n ∧ (j : Int) = k) ∨ (-(n : Int) ≤ k ∧ k < 0 ∧ (j : Int) = k + n) :=
  wrapIndex_spec n k j

/-- (n-d model structure, aligned view; `byaxis` is built from `getItem`, `squeeze`, `append` of the
aligned view — the alignment of grid and set inside it is covered by the correspondence run only)
`byaxis`: for a partition whose axes are valid states,
* `byaxis[int or slice]` (any set `sel` of selected axes) returns exactly the selected axes, in
  their original order, each unchanged (the code indexes the other axes with `0` and squeezes
  them away);
* `byaxis[k]` and `byaxis[k - ndim]` return axis `k`;
* `byaxis[[k0, k1, …]]` stacks the named axes in the given order (repetitions allowed). -/
theorem C14.byaxis_cells (P : Part) (hv : ∀ p ∈ P, Valid p) :
    (∀ sel : List Nat, byaxisSel P sel =
      some (((List.range P.length).filter (fun j => sel.contains j)).filterMap (fun j => P[j]?))) ∧
    (∀ k (hk : k < P.length), byaxisInt P (k : Int) = some [P[k]] ∧
      byaxisInt P ((k : Int) - P.length) = some [P[k]]) ∧
    (∀ l : List Nat, (∀ k ∈ l, k < P.length) →
      byaxisList P (l.map fun (k : Nat) => (k : Int)) = some (l.filterMap fun k => P[k]?)) :=
  ⟨byaxisSel_spec P hv, byaxisInt_spec P hv, byaxisList_spec P hv⟩

/-- `uniform_partition_fromgrid(grid)` without limits (`n ≥ 2`) is `nonuniform_partition(coords)`
with default flags (so `C14.nonuniform_limits` applies: natural half-stride margins, fractions
`(1, 1)`); with both limits given the result is the partition with exactly these limits, accepted
iff the grid lies inside them. -/
theorem C14.fromgrid_limits (n : Nat) (c : Nat → Rat) :
    (2 ≤ n → fromGridAxis n c none none = nonuniformAxis n c none none false false) ∧
    ∀ a b, fromGridAxis n c (some a) (some b) = Part1.mk? ⟨n, c, a, b⟩ :=
  ⟨fromGrid_default n c, fromGrid_explicit n c⟩

/-- (n-d model structure, aligned view) n-d indexing `partition[i0, i1, …]` reduces to the 1-d
1-d statements, for every number of axes (the first item holds by unfolding after a no-op
normalisation):
* with one entry per axis (no ellipsis) every axis is indexed independently with its own entry
  (`getAxis`: `C14.getitem_int` / `C14.getitem_slice` / `C14.getitem_full` apply per axis);
* fewer entries than axes are filled up with `slice(None)` from the right;
* one ellipsis stands for exactly the missing number of `slice(None)`. -/
theorem C14.getitem_nd (P : Part) :
    (∀ idx : List Idx, idx.length = P.length → Idx.ellipsis ∉ idx →
      getItem P idx = (List.zip P idx).mapM (fun x => getAxis x.1 x.2)) ∧
    (∀ idx : List Idx, idx.length < P.length → Idx.ellipsis ∉ idx →
      normIdx idx P.length =
        some (idx ++ List.replicate (P.length - idx.length) (Idx.slice none none none))) ∧
    (∀ pre post : List Idx, pre.length + post.length ≤ P.length → Idx.ellipsis ∉ pre →
      Idx.ellipsis ∉ post →
      normIdx (pre ++ Idx.ellipsis :: post) P.length =
        some (pre ++ List.replicate (P.length - pre.length - post.length) (Idx.slice none none none)
          ++ post)) :=
  ⟨getItem_axiswise P, fun idx => normIdx_short idx P.length,
   fun pre post => normIdx_ellipsis pre post P.length⟩

/-- (n-d model structure, aligned view; see `C14.insert_two_paths_aligned` for the code's two paths)
`insert(index, p1, …, pk)` puts the axes of the inserted partitions, in order, as one block
before axis `index` and leaves all axes (their cells) unchanged; negative `index` counts from
`ndim`; `append` inserts at the end. -/
theorem C14.insert_append_cells (P : Part) (parts : List Part) (i : Nat) (hi : i ≤ P.length) :
    OdlModel.Partition.insert P (i : Int) parts = some (P.take i ++ parts.flatten ++ P.drop i) ∧
        OdlModel.Partition.insert P ((i : Int) - P.length) parts =
      (if i = P.length then some (parts.flatten ++ P) else some (P.take i ++ parts.flatten ++ P.drop i)) ∧
    OdlModel.Partition.append P parts = some (P ++ parts.flatten) := by
  refine ⟨?_, ?_, ?_⟩
  · unfold OdlModel.Partition.insert
    simp only []
    rw [if_neg (by omega), if_neg (by omega), Int.toNat_natCast, insertAt_block P i hi]
  · unfold OdlModel.Partition.insert
    simp only []
    rw [if_neg (by omega)]
    split_ifs with h1 h2 h2
    · omega
    · have : ((i : Int) - P.length + P.length).toNat = i := by omega
      rw [this, insertAt_block P i hi]
    · have : ((i : Int) - P.length).toNat = 0 := by omega
      rw [this, insertAt_block P 0 (by omega)]; simp
    · omega
  · unfold OdlModel.Partition.append OdlModel.Partition.insert
    simp only []
    rw [if_neg (by omega), if_neg (by omega), Int.toNat_natCast, insertAt_block P _ (le_refl _)]
    simp

/-- The different ways of specifying a uniform axis agree: whenever `min`, `max`, `n`,
`cell_sides` and the per-side flags are consistent (`(n - (bl+br)/2) * side = max - min`),
giving any three of them — or all four — completes to the same `(min, max, n)`, hence (the
same `uniform_partition_fromintv` call follows) to the same partition.  Holds for the NumPy
tolerances and for exact comparison alike. -/
theorem C14.uniform_spec_agree (t : Tol) (eps : Rat) (ht1 : 0 ≤ t.atol) (ht2 : 0 ≤ t.rtol)
    (he : 0 ≤ eps) (lo hi d : Rat) (n : Int) (bl br : Bool) (hd : d ≠ 0)
    (hcons : ((n : Rat) - halfCount bl br) * d = hi - lo) :
    completeAxis t eps (some lo) (some hi) (some n) none bl br = some (lo, hi, n) ∧
    completeAxis t eps (some lo) none (some n) (some d) bl br = some (lo, hi, n) ∧
    completeAxis t eps none (some hi) (some n) (some d) bl br = some (lo, hi, n) ∧
    completeAxis t eps (some lo) (some hi) none (some d) bl br = some (lo, hi, n) ∧
    completeAxis t eps (some lo) (some hi) (some n) (some d) bl br = some (lo, hi, n) :=
  completeAxis_agree t eps ht1 ht2 he lo hi d n bl br hd hcons

example : completeAxis Tol.numpy (1/100000) (some 0) none (some 4) (some (1/2)) true false =
    some (0, 7/4, 4) :=
  (C14.uniform_spec_agree Tol.numpy (1/100000) (by norm_num [Tol.numpy]) (by norm_num [Tol.numpy])
    (by norm_num) 0 (7/4) (1/2) 4 true false (by norm_num) (by norm_num [halfCount])).2.1

/-- The code normalises `nodes_on_bdry` twice, with two differently written routines:
`normalized_nodes_on_bdry` (normalize.py; used by the completion loop of `uniform_partition` and by
`nonuniform_partition`) and the block at the top of `uniform_grid_fromintv` (grid.py).  For every raw
value (bool, sequence of bools and/or pairs, any `ndim`):
* whatever the first accepts, the second reads as the SAME per-side flags — so a direct call of
  `uniform_partition_fromintv` and the completion loop never disagree;
* the accepted result has one pair per axis;
* the second routine applied to the already normalised list (what `uniform_partition` hands on) is
  the identity.
Together with `C14.uniform_spec_agree` (applied axis by axis): all consistent ways of specifying a
uniform partition give the same partition. -/
theorem C14.flags_two_normalisations_agree (f : Flags) (ndim : Nat) (fl : List (Bool × Bool))
    (h : f.loopFlags ndim = some fl) :
    f.gridFlags ndim = some fl ∧ fl.length = ndim ∧
    (Flags.ofNormalized fl).gridFlags ndim = some fl :=
  ⟨gridFlags_of_loopFlags f ndim fl h, loopFlags_length f ndim fl h,
   gridFlags_ofNormalized fl ndim (loopFlags_length f ndim fl h)⟩

/-- the 1-d flat pair `(True, False)` and the mixed per-axis form `[True, (False, True)]` -/
example : (Flags.seq [.b true, .b false]).loopFlags 1 = some [(true, false)] ∧
    (Flags.seq [.b true, .pair false true]).gridFlags 2 = some [(true, true), (false, true)] :=
  ⟨rfl, (C14.flags_two_normalisations_agree (Flags.seq [.b true, .pair false true]) 2 _ rfl).1⟩

/-! ### (5) n-d: the two code paths stay aligned -/

/-- `RectPartition.insert` / `append` update the grid through `RectGrid.insert` (grid.py) and the set
through `IntervalProd.insert` (domain.py) — two separately written recursions, each advancing by the
number of axes of ITS OWN first block — and re-assemble with `RectPartition(newset, newgrid)`.  For
partitions whose axes are valid states the two paths cannot get out of step: the re-assembled
result is exactly the aligned insertion (`C14.insert_append_cells`), for every index (also negative /
out of range) and every number of inserted partitions of any dimensions. -/
theorem C14.insert_two_paths_aligned (P : Part) (index : Int) (parts : List Part)
    (hP : ∀ p ∈ P, Valid p) (hQ : ∀ Q ∈ parts, ∀ p ∈ Q, Valid p) :
    insert2 P index parts = OdlModel.Partition.insert P index parts ∧
    append2 P parts = OdlModel.Partition.append P parts :=
  ⟨insert2_eq P index parts hP hQ, insert2_eq P P.length parts hP hQ⟩

/-- `RectPartition.squeeze(axis)` selects the set axes by `self.set[new_indcs]` (domain.py) and lets
`self.grid.squeeze(axis)` (grid.py) recompute its own selection; for valid axes both select the same
axes and the re-assembled partition is the aligned one (`C14.squeeze_cells` for `axis=None`), for
every `axis` argument. -/
theorem C14.squeeze_two_paths_aligned (P : Part) (axis : Option (List Int))
    (hP : ∀ p ∈ P, Valid p) : squeeze2 P axis = squeeze P axis :=
  squeeze2_eq P axis hP

/-! ### (8) laws of executed definitions that had no theorem before the final round -/

/-- Soundness of the parameter completion of `uniform_partition` (`completeAxis`, executed by the
driver's `uniform` operation), for EVERY request with `cell_sides` given and every tolerance:
whatever `(min, max, n)` it returns is consistent —
* if `min_pt` or `max_pt` was computed, `(n - (bl + br)/2) * side = max - min` holds exactly;
* if the shape was computed, `side ≠ 0` and the computed `n` is within `eps` of
  `(max - min)/side + (bl + br)/2` (the integrality test);
* if all four were given, `max` is within the `np.isclose` tolerance of `min + (n - (bl+br)/2) * side`.
So an inconsistent request is never completed silently beyond the code's stated tolerances. -/
theorem C14.complete_axis_sound (t : Tol) (eps : Rat) (xmin xmax : Option Rat) (n : Option Int)
    (bl br : Bool) (lo hi : Rat) (m : Int) (d : Rat)
    (h : completeAxis t eps xmin xmax n (some d) bl br = some (lo, hi, m)) :
    (xmin = none ∨ xmax = none → ((m : Rat) - halfCount bl br) * d = hi - lo) ∧
    (n = none → d ≠ 0 ∧ -eps ≤ (hi - lo) / d + halfCount bl br - m ∧
      (hi - lo) / d + halfCount bl br - m ≤ eps) ∧
    (xmin.isSome → xmax.isSome → n.isSome →
      rabs (hi - (lo + ((m : Rat) - halfCount bl br) * d)) ≤
        t.atol + t.rtol * rabs (lo + ((m : Rat) - halfCount bl br) * d)) :=
  completeAxis_sound t eps xmin xmax n (some d) bl br lo hi m d rfl h

/-- the request `min=0, max=7/4, cell_sides=1/2, flags (True, False)` completes to `n = 4` -/
example : completeAxis Tol.numpy (1 / 100000) (some 0) (some (7 / 4)) none (some (1 / 2)) true false =
    some (0, 7 / 4, 4) :=
  (C14.uniform_spec_agree Tol.numpy (1 / 100000) (by norm_num [Tol.numpy]) (by norm_num [Tol.numpy])
    (by norm_num) 0 (7 / 4) (1 / 2) 4 true false (by norm_num) (by norm_num [halfCount])).2.2.2.1

/-- Negative steps (`partition[a:b:-k]`, every `a`, `b`, `k ≥ 1`, every valid partition): the result
never has two or more cells — the selected nodes would be decreasing, which `RectGrid` rejects;
only a single-cell selection can survive. -/
theorem C14.getitem_negative_step (P : Part1) (hv : Valid P) (start stop : Option Int) (st : Int)
    (hst : st < 0) (Q : Part1) (h : P.getSlice start stop (some st) = some Q) : Q.n ≤ 1 :=
  getSlice_neg_step P hv start stop st hst Q h

/-- `byaxis[start:stop:step]` for arbitrary bounds (`None`, negative, clamped) and every step `≥ 1`
or omitted, any number of axes: the result consists of exactly the axes `s, s + step, …` below `e`
(`s, e` the clamped bounds), in this order, each unchanged. -/
theorem C14.byaxis_slice (P : Part) (hv : ∀ p ∈ P, Valid p) (start stop step : Option Int) (st : Nat)
    (hst : 1 ≤ st) (hstep : step.getD 1 = (st : Int)) :
    byaxisSlice P start stop step =
      some ((List.range (sliceLen (clampBound P.length 0 start) (clampBound P.length P.length stop) st)).filterMap
        fun i => P[(clampBound P.length 0 start).toNat + i * st]?) :=
  byaxisSlice_spec P hv start stop step st hst hstep

/-- `byaxis[1:]` of three axes is axes 1 and 2 -/
example (a b c : Part1) (hv : ∀ p ∈ [a, b, c], Valid p) :
    byaxisSlice [a, b, c] (some 1) none none = some [b, c] := by
  have := C14.byaxis_slice [a, b, c] hv (some 1) none none 1 (le_refl _) rfl
  simpa [clampBound, sliceLen, List.range_succ] using this

/-- `squeeze()` is idempotent and its result has no length-1 axis left, for every partition. -/
theorem C14.squeeze_idempotent (P : Part) :
    (squeeze P none).bind (fun Q => squeeze Q none) = squeeze P none ∧
    ∀ Q, squeeze P none = some Q → ∀ p ∈ Q, 1 < p.n :=
  squeeze_idem P

/-! ### (7) sensitivity: OLD model variants of defects that were repaired in /repo
(these three are about code that no longer exists; they document that the statements above are
sensitive to exactly these defects) -/

/-- Sensitivity (defect C14-F2, repaired in /repo `56dfd19`): with the OLD `cell_sizes_vecs`
(`[0.0]` on a single-node axis) a valid one-node partition of `[0, 1]` has cell sizes that do
not sum to the extent. -/
theorem C14.cell_sizes_old_sum_fails_len1 :
    ∃ P : Part1, Valid P ∧ P.n = 1 ∧ sumTo P.cellSizeOld P.n ≠ P.hi - P.lo :=
  OdlModel.Partition.cell_sizes_old_sum_fails_len1


/-- Sensitivity (defect C14-F1, repaired in /repo `e9629b2`): with the OLD normalisation of the 1-d
flat form `nodes_on_bdry=(l, r)`, `l ≠ r`, the completion loop used `(l, l)` while the grid was
built with `(l, r)`; the completed upper limit then differs from the consistent one by half a
cell for every `n` and every side `d ≠ 0`. -/
theorem C14.uniform_flat_flags_old_fails (l r : Bool) (hlr : l ≠ r) (lo d : Rat) (n : Int) (hd : d ≠ 0) :
    (Flags.seq [.b l, .b r]).loopFlagsOld 1 = some [(l, l)] ∧
    (Flags.seq [.b l, .b r]).gridFlags 1 = some [(l, r)] ∧
    ∀ t eps, completeAxis t eps (some lo) none (some n) (some d) l l ≠
             completeAxis t eps (some lo) none (some n) (some d) l r := by
  refine ⟨rfl, rfl, ?_⟩
  intro t eps h
  simp only [completeAxis, Option.some.injEq, Prod.mk.injEq, true_and, and_true] at h
  have : halfCount l l * d = halfCount l r * d := by linarith
  have h2 : halfCount l l = halfCount l r := mul_right_cancel₀ hd this
  cases l <;> cases r <;> simp [halfCount] at h2 hlr

/-- Sensitivity (defect C14-F3, repaired in /repo `2deca8c`): with the OLD boundary test
(`np.isclose` on the coordinates, NumPy tolerances) the all-dyadic `uniform_partition(64, 64 + 1/1024, 4)`
is reported with nodes on both boundaries although they are half a cell inside; the repaired test
reports `(False, False)`. -/
theorem C14.nodes_on_bdry_old_detection_fails :
    (uniformAxis 64 (64 + 1 / 1024) 4 false false).nodesOnBdryOld Tol.numpy = (true, true) ∧
    (uniformAxis 64 (64 + 1 / 1024) 4 false false).nodesOnBdry (1 / 100000) = (false, false) :=
  nodesOnBdryOld_fails

/-- Sensitivity (defect C14-F4, repaired in /repo `0a773a6`): the OLD integer handling wrapped a
still-negative index a second time — `p[-6]` on 4 cells returned cell 2. -/
theorem C14.getitem_int_old_double_wrap (P : Part1) (hv : Valid P) (hn : P.n = 4) :
    P.getIntOld (-6) = some (subPart P 2 3 1) ∧ P.getInt (-6) = none := by
  constructor
  · have h := (getSlice_general P hv (some (-2)) (some (-1)) none 1 (le_refl _) rfl)
    simp only [clampBound, hn] at h
    unfold Part1.getIntOld
    simp only [hn]
    norm_num at h ⊢
    exact h
  · exact getInt_out_of_range P (-6) (by omega)

/-! ## (8) round 4: grid points index to themselves (1-d and n-d `points()` / `index()`), cell volume and
isotropy of uniform n-d partitions, the documented equivalences between the constructors.
The definitions (`ndPoints`, `ndIndex`, `ndSize`, `ndCellVolume`, `ndIsotropic`, `reNonuniform`,
`reFromGrid`) are executed by the driver (`nd`, `equiv`) and compared with `points()`, `index()`,
`size`, `cell_volume`, `has_isotropic_cells`, `nonuniform_partition(*p.coord_vectors)` and
`uniform_partition_fromgrid(p.grid)` of /repo on every run. -/

/-- `index(c[i]) == i` for EVERY valid 1-d partition, every node: each grid point is located in its own
cell by the code's point location (`searchsorted` on the boundary vector plus the two corrections),
including a node ON the left limit, a node ON the right limit (closed last cell) and the one-point
partition of a one-point set.  (Stronger than `node_in_own_cell`, which only bounds the node by the
boundary vector.) -/
theorem C14.index_of_node (P : Part1) (hv : Valid P) (i : Nat) (hi : i < P.n) :
    P.index (P.c i) = some (i : Int) :=
  index_node P hv i hi

example : (⟨3, fun i => i * i, 0, 4⟩ : Part1).index 4 = some 2 := by
  have hv : Valid ⟨3, fun i => i * i, 0, 4⟩ := by
    refine ⟨by decide, ?_, by norm_num, by norm_num⟩
    intro i hi
    have hi' : i + 1 < 3 := hi
    have : i = 0 ∨ i = 1 := by omega
    rcases this with rfl | rfl <;> norm_num
  have := C14.index_of_node _ hv 2 (by decide)
  norm_num at this
  exact this

/-- n-d `points()` and `index()`, every number of axes, every shape: `points()` (C order) has `size`
rows, its rows are exactly the points `(c_0[i_0], …, c_{d-1}[i_{d-1}])` with every `i_j` in range, and
`index` of such a point is its multi-index `(i_0, …, i_{d-1})`. -/
theorem C14.points_index_nd (P : Part) (hv : ∀ p ∈ P, Valid p) :
    (ndPoints P).length = ndSize P ∧
    (∀ v, v ∈ ndPoints P ↔ ∃ mi, InRange P mi ∧ v = pointAt P mi) ∧
    (∀ mi, InRange P mi → ndIndex P (pointAt P mi) = some (mi.map fun (i : Nat) => (i : Int))) :=
  ⟨ndPoints_length P, ndPoints_spec P, ndIndex_pointAt P hv⟩

example : InRange [⟨3, fun i => i * i, 0, 4⟩, ⟨2, fun i => i, -1, 1⟩] [2, 1] ∧
    pointAt [⟨3, fun i => i * i, 0, 4⟩, ⟨2, fun i => i, -1, 1⟩] [2, 1] = [4, 1] := by
  refine ⟨⟨by decide, by decide, trivial⟩, ?_⟩
  simp [pointAt]; norm_num

/-- `uniform_partition_fromintv` in any number of dimensions (all four flag combinations per axis,
every `n_j ≥ 2`): the n-d constructor returns the axis-wise uniform partition, it `is_uniform`,
`cell_volume` is defined (not NaN) and

  `cell_volume * ∏ (n_j - (bl_j + br_j)/2) = ∏ (max_j - min_j)`;

for the default `nodes_on_bdry=False` this is "cell volume times number of cells is the volume of the
domain" (second statement, with `size`).  For every family of non-negative `is_uniform` tolerances,
in particular the one the code derives per axis (`Part1.uniTol`). -/
theorem C14.cell_volume_uniform (tol : Part1 → Tol) (ht : ∀ p, 0 ≤ (tol p).atol ∧ 0 ≤ (tol p).rtol)
    (A : List UAxis) (h : ∀ a ∈ A, a.lo < a.hi ∧ 2 ≤ a.n) :
    fromIntv (A.map (·.lo)) (A.map (·.hi)) (A.map (·.n)) (A.map fun a => (a.bl, a.br)) =
      some (A.map UAxis.part) ∧
    ndIsUniform tol (A.map UAxis.part) = true ∧
    ∃ V, ndCellVolume tol (A.map UAxis.part) = some V ∧
      V * prodList (A.map fun a => (a.n : Rat) - halfCount a.bl a.br) =
        prodList (A.map fun a => a.hi - a.lo) ∧
      ((∀ a ∈ A, a.bl = false ∧ a.br = false) →
        V * (ndSize (A.map UAxis.part) : Rat) = prodList (A.map fun a => a.hi - a.lo)) := by
  refine ⟨fromIntv_axes A (fun a ha => ⟨(h a ha).1, by have := (h a ha).2; omega⟩),
    ndIsUniform_uniform tol ht A h, prodList (A.map UAxis.side), ?_, prod_sides A h, ?_⟩
  · unfold ndCellVolume
    rw [ndCellSides_uniform tol ht A h]; rfl
  · intro hf
    rw [← prod_sides A h]
    congr 1
    clear h
    induction A with
    | nil => simp [ndSize, prodList]
    | cons a A ih =>
      obtain ⟨h1, h2⟩ := hf a (by simp)
      simp only [List.map_cons, ndSize, prodList, Nat.cast_mul]
      rw [ih (fun b hb => hf b (by simp [hb])), h1, h2]
      simp [halfCount, UAxis.part, uniformAxis]

example : ∃ V, ndCellVolume (fun _ => Tol.numpy)
      ([⟨0, 3, 4, true, false⟩, ⟨-1, 1, 2, false, false⟩].map UAxis.part) = some V ∧
    V * ((4 - 1 / 2) * (2 * 1)) = 3 * (2 * 1) := by
  obtain ⟨_, _, V, h1, h2, _⟩ := C14.cell_volume_uniform (fun _ => Tol.numpy)
    (fun _ => by norm_num [Tol.numpy]) [⟨0, 3, 4, true, false⟩, ⟨-1, 1, 2, false, false⟩]
    (by intro a ha; simp at ha; rcases ha with rfl | rfl <;> norm_num)
  refine ⟨V, h1, ?_⟩
  norm_num [prodList, halfCount] at h2 ⊢
  linarith

/-- `has_isotropic_cells`: (a) a uniform n-d partition whose axes all have the same cell side
`(max_j - min_j) / (n_j - (bl_j + br_j)/2) = s` is reported isotropic, for every non-negative
`np.allclose` tolerance; (b) with exact comparison the flag implies that ALL cell sides are equal (the
code only compares neighbours `sides[:-1]` with `sides[1:]`; with a tolerance that chain is not
transitive, so (b) is stated for `Tol.exact`). -/
theorem C14.isotropic_cells (tol : Part1 → Tol) (ht : ∀ p, 0 ≤ (tol p).atol ∧ 0 ≤ (tol p).rtol) :
    (∀ (t : Tol), 0 ≤ t.atol → 0 ≤ t.rtol → ∀ (A : List UAxis), (∀ a ∈ A, a.lo < a.hi ∧ 2 ≤ a.n) →
      ∀ s, (∀ a ∈ A, a.side = s) → ndIsotropic tol t (A.map UAxis.part) = true) ∧
    (∀ (P : Part), ndIsotropic tol Tol.exact P = true →
      ∃ sides, ndCellSides tol P = some sides ∧ ∀ x ∈ sides, ∀ y ∈ sides, x = y) := by
  refine ⟨fun t h1 h2 A h s hs => ndIsotropic_uniform tol ht t h1 h2 A h s hs, ?_⟩
  intro P hP
  unfold ndIsotropic at hP
  cases hs : ndCellSides tol P with
  | none => simp [hs] at hP
  | some sides =>
    rw [hs] at hP
    simp only [Bool.and_eq_true] at hP
    exact ⟨sides, rfl, allClose_exact_chain sides hP.2⟩

example : (⟨0, 1, 5, false, false⟩ : UAxis).side = 1 / 5 ∧ (⟨-1, 1, 10, false, false⟩ : UAxis).side = 1 / 5 := by
  constructor <;> norm_num [UAxis.side, halfCount]

/-- The documented equivalences between the constructors, on the executed model, all four flag
combinations, every `n ≥ 2`, every `lo < hi`: building the uniform partition and feeding its coordinate
vector (a) to `nonuniform_partition(…, nodes_on_bdry=(bl, br))`, or (b) to
`uniform_partition_fromgrid` with the limits that carry a node given explicitly and the others left
out, returns the SAME partition (same nodes, and the recomputed limits `c[0] - (c[1]-c[0])/2`,
`c[-1] + (c[-1]-c[-2])/2` are exactly `lo`, `hi`).  (`n = 1` is excluded: there
`nonuniform_partition` collapses the set to the node and `uniform_partition_fromgrid` raises.) -/
theorem C14.constructors_agree (lo hi : Rat) (hlh : lo < hi) (n : Nat) (hn : 2 ≤ n) (bl br : Bool) :
    reNonuniform (uniformAxis lo hi n bl br) bl br = some (uniformAxis lo hi n bl br) ∧
    reFromGrid (uniformAxis lo hi n bl br) bl br = some (uniformAxis lo hi n bl br) :=
  ⟨reNonuniform_uniform lo hi hlh n hn bl br, reFromGrid_uniform lo hi hlh n hn bl br⟩

/-- Sharpness of `n ≥ 2` above: one node in the middle of `[0, 3]`. -/
example : (reNonuniform (uniformAxis 0 3 1 false false) false false).map (fun p => (p.lo, p.hi)) =
    some (3 / 2, 3 / 2) ∧ reFromGrid (uniformAxis 0 3 1 false false) false false = none := by
  constructor
  · simp [reNonuniform, nonuniformAxis, uniformAxis, gminOf, Part1.mk?, Part1.wf]
  · simp [reFromGrid, fromGridAxis, uniformAxis]

/-! ## (9) round 4, second part: n-d point location for arbitrary points, list indices (converse),
the n-d `uniform_partition` front end -/

/-- n-d `index(p)` (the function the driver runs for the `index` and `nd` operations), every number of
axes: for valid non-degenerate axes and every point of the box the returned multi-index names the
cell that contains the point in every axis (half-open cells, the last one closed on the right); a
point outside the box in some axis, or with the wrong number of coordinates, is rejected. -/
theorem C14.index_nd_correct (P : Part) (hv : ∀ p ∈ P, Valid p ∧ Nondegenerate p) (v : List Rat) :
    (InBox P v → ∃ ks : List Nat, ndIndex P v = some (ks.map fun (k : Nat) => (k : Int)) ∧ InCells P v ks) ∧
    (¬ InBox P v → ndIndex P v = none) :=
  ⟨ndIndex_correct P hv v, ndIndex_outside P v⟩

example : InBox [⟨3, fun i => i * i, 0, 4⟩, ⟨2, fun i => i, -1, 1⟩] [3, 1] ∧
    InCells [⟨3, fun i => i * i, 0, 4⟩, ⟨2, fun i => i, -1, 1⟩] [3, 1] [2, 1] := by
  refine ⟨⟨by norm_num, by norm_num, trivial⟩, ⟨by decide, ?_, ?_⟩, ⟨by decide, ?_, ?_⟩, trivial⟩ <;>
    norm_num [Part1.bdry]

/-- List indices, the converse of `C14.getitem_list`: `partition[[i0, …, ik]]` returns a partition ONLY
IF the list is non-empty, every entry is in `[-n, n)` and the wrapped cell numbers are strictly
increasing.  So unsorted and repeated lists are always rejected (the selected nodes would not be
strictly increasing, which `RectGrid` refuses), for every valid partition; together with
`C14.getitem_list` this characterises the accepted lists completely. -/
theorem C14.getitem_list_only_sorted (P : Part1) (hv : Valid P) (l : List Int) (Q : Part1)
    (h : P.getList l = some Q) :
    ∃ first rest, l.mapM (wrapIndex P.n) = some (first :: rest) ∧ (first :: rest).Pairwise (· < ·) :=
  getList_some_sorted P hv l Q h

/-- a repeated entry is rejected: `p[[1, 1]]` on three cells -/
example : (⟨3, fun i => i * i, 0, 4⟩ : Part1).getList [1, 1] = none := by
  have hv : Valid ⟨3, fun i => i * i, 0, 4⟩ := by
    refine ⟨by decide, ?_, by norm_num, by norm_num⟩
    intro i hi
    have hi' : i + 1 < 3 := hi
    have : i = 0 ∨ i = 1 := by omega
    rcases this with rfl | rfl <;> norm_num
  cases hq : (⟨3, fun i => i * i, 0, 4⟩ : Part1).getList [1, 1] with
  | none => rfl
  | some Q =>
    obtain ⟨first, rest, h1, h2⟩ := C14.getitem_list_only_sorted _ hv [1, 1] Q hq
    have : first :: rest = [1, 1] := by
      have h3 : ([1, 1] : List Int).mapM (wrapIndex 3) = some [1, 1] := by decide
      rw [show (⟨3, fun i => (i : Rat) * i, 0, 4⟩ : Part1).n = 3 from rfl, h3] at h1
      exact (Option.some.inj h1).symm
    rw [this] at h2
    simp at h2

/-- The n-d front end `uniform_partition(min_pt, max_pt, shape, cell_sides, nodes_on_bdry)` as the driver
runs it (`uniformPartition`: length checks, `normalized_nodes_on_bdry`, the completion loop, the second
normalisation inside `uniform_grid_fromintv`, the shape check, `uniform_partition_fromintv`), any
number of axes: if the raw `nodes_on_bdry` value is read as the per-axis flags `(bl_j, br_j)` and the
request of every axis completes to `(lo_j, hi_j, n_j)` (by `C14.uniform_spec_agree` every consistent
choice of three or four of the parameters does), the result is the partition whose axes are the 1-d
uniform partitions `uniformAxis lo_j hi_j n_j bl_j br_j` — the object `C14.cell_volume_uniform`,
`C14.uniform_side_times_count` and `C14.constructors_agree` speak about. -/
theorem C14.uniform_partition_nd (t : Tol) (eps : Rat) (AR : List (UAxis × Req)) (f : Flags)
    (hf : f.loopFlags AR.length = some (AR.map fun x => (x.1.bl, x.1.br)))
    (hreq : ∀ x ∈ AR, completeAxis t eps x.2.xmin x.2.xmax x.2.n x.2.dx x.1.bl x.1.br =
      some (x.1.lo, x.1.hi, (x.1.n : Int)))
    (h : ∀ x ∈ AR, x.1.lo < x.1.hi ∧ 1 ≤ x.1.n) :
    uniformPartition t eps (AR.map (·.2.xmin)) (AR.map (·.2.xmax)) (AR.map (·.2.n)) (AR.map (·.2.dx)) f =
      some (AR.map fun x => x.1.part) :=
  uniformPartition_axes t eps AR f hf hreq h

/-- two axes, one given by `(min, n, side)`, one by `(min, max, side)`; flags `[True, (False, True)]` -/
example : uniformPartition Tol.numpy (1 / 100000) [some 0, some (-1)] [none, some (7 / 4)] [some 4, none]
      [some (1 / 2), some (1 / 2)] (Flags.seq [.b true, .pair false true]) =
    some [uniformAxis 0 (3 / 2) 4 true true, uniformAxis (-1) (7 / 4) 6 false true] := by
  have := C14.uniform_partition_nd Tol.numpy (1 / 100000)
    [(⟨0, 3 / 2, 4, true, true⟩, ⟨some 0, none, some 4, some (1 / 2)⟩),
     (⟨-1, 7 / 4, 6, false, true⟩, ⟨some (-1), some (7 / 4), none, some (1 / 2)⟩)]
    (Flags.seq [.b true, .pair false true]) rfl
    (by
      intro x hx
      simp only [List.mem_cons, List.not_mem_nil, or_false] at hx
      rcases hx with rfl | rfl
      · exact (C14.uniform_spec_agree Tol.numpy (1 / 100000) (by norm_num [Tol.numpy])
          (by norm_num [Tol.numpy]) (by norm_num) 0 (3 / 2) (1 / 2) 4 true true (by norm_num)
          (by norm_num [halfCount])).2.1
      · exact (C14.uniform_spec_agree Tol.numpy (1 / 100000) (by norm_num [Tol.numpy])
          (by norm_num [Tol.numpy]) (by norm_num) (-1) (7 / 4) (1 / 2) 6 false true (by norm_num)
          (by norm_num [halfCount])).2.2.2.1)
    (by
      intro x hx
      simp only [List.mem_cons, List.not_mem_nil, or_false] at hx
      rcases hx with rfl | rfl <;> norm_num)
  simpa [UAxis.part] using this

/-- `is_uniform_byaxis` (`np.allclose(diff, diff[0], rtol, atol)`; the driver runs it with the code's
tolerance `Part1.uniTol`), every number of nodes:
* coordinates with exactly equal strides are uniform for EVERY non-negative tolerance;
* with exact comparison the predicate holds iff the nodes are the affine grid `c 0 + i * (c 1 - c 0)`;
* for an arbitrary tolerance `t` (in particular the code's) a vector accepted as uniform deviates from
  that affine grid by at most `i * (atol + rtol * |c 1 - c 0|)` at node `i` — the tolerance bounds the
  stride, so the positional error of treating the axis as uniform grows at most linearly. -/
theorem C14.is_uniform_spec (P : Part1) :
    (∀ t : Tol, 0 ≤ t.atol → 0 ≤ t.rtol →
      (∀ i, i + 1 < P.n → P.c (i + 1) - P.c i = P.c 1 - P.c 0) → P.isUniform t = true) ∧
    (P.isUniform Tol.exact = true ↔ ∀ i, i < P.n → P.c i = P.c 0 + (i : Rat) * (P.c 1 - P.c 0)) ∧
    (∀ t : Tol, P.isUniform t = true → ∀ i, i < P.n →
      rabs (P.c i - (P.c 0 + (i : Rat) * (P.c 1 - P.c 0))) ≤
        (i : Rat) * (t.atol + t.rtol * rabs (P.c 1 - P.c 0))) :=
  ⟨fun t h1 h2 h => isUniform_of_equal_diffs t h1 h2 P h, isUniform_exact_iff P,
   fun t h i hi => isUniform_drift t P h i hi⟩

example : (⟨3, fun i => 2 * i + 1, 0, 6⟩ : Part1).isUniform Tol.numpy = true :=
  (C14.is_uniform_spec _).1 Tol.numpy (by norm_num [Tol.numpy]) (by norm_num [Tol.numpy])
    (by intro i _; push_cast; ring)

/-- OPEN FINDING C14-F5 (model counterpart; the model follows the code as it is).  A negative-step slice
that starts at cell 0, `partition[0::-k]` (every `k ≥ 1`, every valid partition with at least two
cells): NumPy selects the single node `c 0`; the code takes the limits from the FORWARD unit-step range
`slice(0, None)` = the whole axis, so it returns a one-cell partition with node `c 0` and limits
`[min_pt, max_pt]` — a cell strictly larger than the selected cell 0 (`bdry 1 < max_pt`), although
"the cells of `partition[idx]` are the selected cells of the original".  Negative steps are otherwise
rejected (`C14.getitem_negative_step`). -/
theorem C14.getitem_negative_step_hull_fails (P : Part1) (hv : Valid P) (hn : 2 ≤ P.n) (st : Int)
    (hst : st < 0) :
    ∃ Q, P.getSlice (some 0) none (some st) = some Q ∧ Q.n = 1 ∧ Q.c 0 = P.c 0 ∧
      Q.lo = P.lo ∧ Q.hi = P.hi ∧ P.bdry 1 < Q.hi :=
  getSlice_neg_from_zero P hv hn st hst

/-- `uniform_partition(0, 4, 4)[0::-1]`: node `1/2`, limits `[0, 4]` (the real code prints
`uniform_partition(0.0, 4.0, 1)`). -/
example : ∃ Q, (uniformAxis 0 4 4 false false).getSlice (some 0) none (some (-1)) = some Q ∧
    Q.n = 1 ∧ Q.c 0 = 1 / 2 ∧ Q.lo = 0 ∧ Q.hi = 4 := by
  obtain ⟨Q, h1, h2, h3, h4, h5, _⟩ := C14.getitem_negative_step_hull_fails (uniformAxis 0 4 4 false false)
    (C14.uniform_valid 0 4 (by norm_num) 4 (by decide) false false).1 (by decide) (-1) (by decide)
  refine ⟨Q, h1, h2, ?_, h4, h5⟩
  rw [h3]
  norm_num [uniformAxis, gminOf]

/-! ## (10) round 5: the set below the partition (`IntervalProd.volume`, `IntervalProd.corners`; driver
operation `sets`, stream `sets/corners`) -/

/-- The corners of the partitioned set lie in the extreme cells, any number of axes: for every row `v` of
`set.corners()` (`(min, max)` per non-degenerate axis, the single value on a degenerate one, C order)
`index(v)` succeeds and, axis by axis, returns cell `0` where `v` is the lower limit and the LAST cell
`n - 1` where it is the upper limit (the last cell is closed on the right) — for every valid partition,
whatever the distance of the outermost nodes from the limits. -/
theorem C14.set_corners_index (P : Part) (hv : ∀ p ∈ P, Valid p) (v : List Rat) (h : v ∈ setCorners P) :
    ∃ ks : List Nat, ndIndex P v = some (ks.map fun (k : Nat) => (k : Int)) ∧ CornerCells P v ks :=
  setCorners_index P hv v h

example : ([3, 1] : List Rat) ∈ setCorners [⟨3, fun i => i * i, -1, 3⟩, ⟨1, fun _ => 1, 1, 1⟩] ∧
    CornerCells [⟨3, fun i => i * i, -1, 3⟩, ⟨1, fun _ => 1, 1, 1⟩] [3, 1] [2, 0] := by
  refine ⟨?_, Or.inr ⟨rfl, rfl⟩, Or.inl ⟨rfl, rfl⟩, trivial⟩
  simp [setCorners]; norm_num

/-- The n-d cells tile the set: the volumes of all `size` cells (outer product of the `cell_sizes_vecs`,
C order) sum to `set.volume` = the product of the extents, for every number of axes, every shape
(single-node axes included) and arbitrary non-uniform nodes.  (No validity needed beyond `n ≥ 1`:
pure index arithmetic on the boundary vectors, lifted from `C14.cell_sizes_sum` to n dimensions.) -/
theorem C14.cell_volumes_tile (P : Part) (h : ∀ p ∈ P, 1 ≤ p.n) :
    (ndCellVolumes P).length = ndSize P ∧ sumList (ndCellVolumes P) = setVolume P :=
  ⟨ndCellVolumes_length P, ndCellVolumes_sum P h⟩

example : sumList (ndCellVolumes [⟨2, fun i => i, 0, 3⟩, ⟨1, fun _ => 1, 0, 2⟩]) = 3 * 2 := by
  rw [(C14.cell_volumes_tile _ (by intro p hp; simp at hp; rcases hp with rfl | rfl <;> decide)).2]
  norm_num [setVolume, prodList]
