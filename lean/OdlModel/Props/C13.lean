/-
C13 — finite differences equal reference stencils; adjoints are transposes.
Property theorems only.  All tables (`tbl`, `adjMethod`, `adjPad`, `guards`, `methods`,
`pads`, `den`) are the GENERATED ones (`Gen/FiniteDiff.lean`), so these theorems are
re-checked against what `/repo/odl/discr/diff_ops.py` says on every run.
-/
import OdlModel.Model.FiniteDiff
import OdlModel.Gen.FiniteDiff
import OdlModel.Lemmas.FiniteDiff
import Mathlib.Tactic.FieldSimp
import Mathlib.Algebra.CharZero.Defs
import Mathlib.Algebra.Field.Basic
import Mathlib.Algebra.Ring.Hom.Defs
import Mathlib.Algebra.GroupWithZero.Units.Lemmas

open OdlModel.FiniteDiff OdlModel.Gen.FiniteDiff Finset

/-! ### Reference definitions (the specification side) -/

namespace OdlModel.C13

/-- smallest admissible axis length of a pad mode -/
def nMin : Pad → Nat
  | .order2 => 3 | .order2Adj => 3 | _ => 2

/-- Textbook one-cell extension rules, defined WITHOUT reference to the code (for a one-cell
extension: `replicate` = `numpy.pad` modes 'edge' and 'symmetric'; `reflect` = 'reflect';
`wrap` = 'wrap'; `linear`/`quadratic` = polynomial extrapolation through 2/3 edge values). -/
inductive Ext | const | replicate | reflect | wrap | linear | quadratic
  deriving DecidableEq, Repr

section
variable {K : Type} [Field K]

/-- the value the rule puts in front of `f[0]` -/
def Ext.ghostL (e : Ext) (n : Nat) (c : K) (f : Nat → K) : K :=
  match e with
  | .const => c
  | .replicate => f 0
  | .reflect => f 1
  | .wrap => f (n - 1)
  | .linear => 2 * f 0 - f 1
  | .quadratic => 3 * f 0 - 3 * f 1 + f 2
/-- the value the rule puts behind `f[n-1]` -/
def Ext.ghostR (e : Ext) (n : Nat) (c : K) (f : Nat → K) : K :=
  match e with
  | .const => c
  | .replicate => f (n - 1)
  | .reflect => f (n - 2)
  | .wrap => f 0
  | .linear => 2 * f (n - 1) - f (n - 2)
  | .quadratic => 3 * f (n - 1) - 3 * f (n - 2) + f (n - 3)
/-- `f` extended by one ghost cell on each side (`np.pad(f, 1, rule)`); entry `k+1` is `f[k]`. -/
def extend (e : Ext) (n : Nat) (c : K) (f : Nat → K) : Nat → K := fun k =>
  if k = 0 then e.ghostL n c f else if k = n + 1 then e.ghostR n c f else f (k - 1)
end

/-- The CLAIM about the code that `fd_eq_stencil_ext` proves: which textbook rule each
non-adjoint pad mode realises.  `symmetric` realises `replicate` (mirror about the edge,
repeating the outmost value: `numpy.pad` 'symmetric'), NOT `reflect`
(`C13.symmetric_is_replicate_not_reflect`), and therefore coincides with `order0`. -/
def ruleOf : Pad → Option Ext
  | .constant => some .const
  | .symmetric => some .replicate
  | .periodic => some .wrap
  | .order0 => some .replicate
  | .order1 => some .linear
  | .order2 => some .quadratic
  | _ => none

section
variable {K : Type} [Field K]
/-- the array extended by the rule the pad mode is claimed to realise -/
def padded (p : Pad) (n : Nat) (c : K) (f : Nat → K) : Nat → K :=
  match ruleOf p with
  | some e => extend e n c f
  | none => fun _ => 0
/-- textbook difference stencils, row `i` of the padded array `E` (shifted by one) -/
def stencil (m : Method) (E : Nat → K) (i : Nat) : K :=
  match m with
  | .forward => E (i + 2) - E (i + 1)
  | .backward => E (i + 1) - E i
  | .central => (E (i + 2) - E i) / 2
end

def stencilCase (m : Method) (p : Pad) : Bool :=
  match p with
  | .constant | .symmetric | .periodic | .order0 | .order1 => true
  | .order2 => m == .central
  | _ => false

end OdlModel.C13
open OdlModel.C13

/-! ### Tables -/

/-- `_ADJ_METHOD` and `_ADJ_PADDING` are involutions, and every method / pad mode is in the
supported lists (so the adjoint of an adjoint is the operator's own configuration). -/
theorem C13.adj_involutive :
    (∀ m : Method, adjMethod (adjMethod m) = m) ∧ (∀ p : Pad, adjPad (adjPad p) = p) ∧
    (∀ m : Method, m ∈ methods) ∧ (∀ p : Pad, p ∈ pads) := by
  refine ⟨?_, ?_, ?_, ?_⟩ <;> intro x <;> cases x <;> decide

/-- Smallest admissible axis length: `finite_diff` runs without raising (neither its own
`ValueError` guards nor an `IndexError` from a boundary statement) exactly for `n ≥ 2`, and
`n ≥ 3` for `order2` / `order2_adjoint`.  All theorems below hold down to that size. -/
theorem C13.size_ok_iff (m : Method) (p : Pad) (n : Nat) :
    sizeCheck guards (tbl m p) p n = none ↔ nMin p ≤ n := by
  cases m <;> cases p <;>
    simp [sizeCheck, guards, tbl, Table.need, Table.corners, Corner.need, nMin] <;>
    split_ifs <;> simp <;> omega


/-! ### Stencils -/

/-- For every method and every non-adjoint pad mode whose rule is an extension of the array
(`constant` with any `pad_const`, `symmetric`, `periodic`, `order0`, `order1`; `order2` with
`central`), every axis length `n ≥ n_min`, every input, every `dx`: row `i` of what
`finite_diff` computes (interior band, boundary statements in program order, `/= dx`) is the
textbook stencil of the method applied to the array extended by one ghost cell per side
according to the independently defined rule `ruleOf p` (`symmetric ↦ replicate`, see
`symmetric_is_replicate_not_reflect`).  Small print: `dx` is an arbitrary field element here
(the code's `dx <= 0 → ValueError` lives in the driver; for `dx = 0` both sides are `0`). -/
theorem C13.fd_eq_stencil_ext {K : Type} [Field K] [CharZero K] (m : Method) (p : Pad)
    (hp : stencilCase m p = true) (n : Nat) (hn : nMin p ≤ n) (c dx : K) (f : Nat → K)
    (i : Nat) (hi : i < n) :
    fd den (tbl m p) n c dx f i = stencil m (padded p n c f) i / dx := by
  have h2 : 2 ≤ n := by cases p <;> simp [nMin] at hn <;> omega
  have h2K : (2 : K) ≠ 0 := by
    have := (Nat.cast_injective (R := K)).ne (show (2 : ℕ) ≠ 0 by decide)
    exact_mod_cast this
  unfold fd
  rw [fdNum_closed _ n h2 c f i]
  obtain ⟨k, rfl⟩ : ∃ k, n = k + 2 := ⟨n - 2, by omega⟩
  by_cases hdx : dx = 0
  · simp [hdx]
  rcases (show i = 0 ∨ i = k + 1 ∨ (1 ≤ i ∧ i ≤ k) by omega) with rfl | rfl | ⟨ha, hb⟩
  · cases m <;> cases p <;> simp [stencilCase] at hp <;>
      simp [tbl, accSum, evalTerms, evalTerm, interior, padded, ruleOf, extend, Ext.ghostL, Ext.ghostR, stencil, den,
        Corner.pos] <;> field_simp <;> ring
  · cases m <;> cases p <;> simp [stencilCase] at hp <;>
      simp [tbl, accSum, evalTerms, evalTerm, interior, padded, ruleOf, extend, Ext.ghostL, Ext.ghostR, stencil, den,
        Corner.pos] <;> field_simp <;> ring
  · have e1 : i ≠ 0 := by omega
    have e2 : i ≠ k + 1 := by omega
    have e3 : i + 2 ≤ k + 2 := by omega
    have e4 : ¬ (i + 1 = k + 2) := by omega
    have e5 : ¬ (i = k + 3) := by omega
    have e6 : ¬ (i = k + 2 + 1) := by omega
    have e7 : ¬ (i = k + 2) := by omega
    cases m <;> cases p <;> simp [stencilCase] at hp <;>
      simp [tbl, accSum, evalTerms, evalTerm, interior, padded, ruleOf, extend, Ext.ghostL, Ext.ghostR, stencil, den,
        Corner.pos, e1, e2, e3, e4, e5, e6, e7, ha] <;> field_simp <;> ring

example : fd den (tbl .central .order1) 2 0 (1 : ℚ) (fun i => (i : ℚ) * 3) 1
    = stencil .central (padded .order1 2 0 (fun i => (i : ℚ) * 3)) 1 / 1 :=
  C13.fd_eq_stencil_ext .central .order1 rfl 2 (by decide) 0 1 _ 1 (by decide)

/-- Which rule `symmetric` is.  (a) In the generated tables `symmetric` and `order0` (and their
adjoint modes) are the same leaves, for every method.  (b) The reading "reflect, not doubling
the outmost values" (`numpy.pad` 'reflect', the wording the docstrings had until the `fix:`
commit recorded in known_findings.json) does NOT hold: for every method the code differs from
the method's stencil on the reflect-extended array already for `n = 3`, `f = (0,1,0)`
(central row 0: 1/2 vs 0; forward row 2: 0 vs 1; backward row 0: 0 vs −1). -/
theorem C13.symmetric_is_replicate_not_reflect :
    (∀ m : Method, tbl m .symmetric = tbl m .order0 ∧ tbl m .symmetricAdj = tbl m .order0Adj) ∧
    (∀ m : Method, ∃ i < 3,
      fd den (tbl m .symmetric) 3 0 (1 : ℚ) (fun k => if k = 1 then 1 else 0) i
        ≠ stencil m (extend .reflect 3 0 (fun k => if k = 1 then (1 : ℚ) else 0)) i / 1) := by
  refine ⟨fun m => by cases m <;> decide, fun m => ?_⟩
  cases m
  · exact ⟨0, by decide, by
      norm_num [fd, fdNum, tbl, interior, assign, accStep, evalTerms, evalTerm, Corner.pos, den,
        stencil, extend, Ext.ghostL, Ext.ghostR]⟩
  · exact ⟨2, by decide, by
      norm_num [fd, fdNum, tbl, interior, assign, accStep, evalTerms, evalTerm, Corner.pos, den,
        stencil, extend, Ext.ghostL, Ext.ghostR]⟩
  · exact ⟨0, by decide, by
      norm_num [fd, fdNum, tbl, interior, assign, accStep, evalTerms, evalTerm, Corner.pos, den,
        stencil, extend, Ext.ghostL, Ext.ghostR]⟩

/-! ### Adjoints -/

/-- For each of the 30 `(method, pad_mode)` leaves, the leaf the code selects for the adjoint
(`_ADJ_METHOD`, `_ADJ_PADDING`) passes the verified corner checker: bands are minus-reversed
and the bilinear corner form left by summation by parts cancels formally. -/
theorem C13.adj_tables_transposed (m : Method) (p : Pad) :
    adjOK (tbl m p) (tbl (adjMethod m) (adjPad p)) = true := by
  cases m <;> cases p <;> decide


/-- The operator the code returns as adjoint is exactly minus the transpose, for every
method, every pad mode (adjoint modes included), EVERY axis length on which both run, all
inputs: `Σᵢ gᵢ·(D f)ᵢ = − Σⱼ fⱼ·(D' g)ⱼ` with `D' = finite_diff(_ADJ_METHOD[m],
_ADJ_PADDING[p])`; the sign is the `-` in `PartialDerivative.adjoint`. -/
theorem C13.fd_adjoint_transpose {K : Type} [Field K] (m : Method) (p : Pad) (n : Nat)
    (h : sizeCheck guards (tbl m p) p n = none)
    (h' : sizeCheck guards (tbl (adjMethod m) (adjPad p)) (adjPad p) n = none)
    (dx : K) (f g : Nat → K) :
    ∑ i ∈ range n, g i * fd den (tbl m p) n 0 dx f i
      = - ∑ j ∈ range n, f j * fd den (tbl (adjMethod m) (adjPad p)) n 0 dx g j := by
  have hn := sizeCheck_none h
  have hn' := sizeCheck_none h'
  obtain ⟨k, rfl⟩ : ∃ k, n = k + 2 := ⟨n - 2, by have := (tbl m p).two_le_need; omega⟩
  have key := pair_adjoint (K := K) _ _ (C13.adj_tables_transposed m p) k f g
    ((tbl m p).accs_fit hn) ((tbl _ _).accs_fit hn')
  simp only [fd, div_eq_mul_inv, ← mul_assoc, ← Finset.sum_mul]
  rw [eq_neg_iff_add_eq_zero, ← add_mul, key, zero_mul]


/-- `order2` for ALL three methods (documented edge-order rule, code comment "2nd order
edges"): rows 0 and n-1 are the second-order one-sided difference — i.e. the CENTRAL stencil
on the quadratically extrapolated array — whatever `method` is; the other rows are the
method's stencil.  For `central` this is `fd_eq_stencil_ext`; for `forward`/`backward` the
boundary rows are deliberately not the method's stencil (next theorem). -/
theorem C13.order2_edge_rule {K : Type} [Field K] [CharZero K] (m : Method)
    (n : Nat) (hn : 3 ≤ n) (c dx : K) (f : Nat → K) (i : Nat) (hi : i < n) :
    fd den (tbl m .order2) n c dx f i =
      (if i = 0 ∨ i = n - 1 then stencil .central (padded .order2 n c f) i
       else stencil m (padded .order2 n c f) i) / dx := by
  have h2K : (2 : K) ≠ 0 := by
    have := (Nat.cast_injective (R := K)).ne (show (2 : ℕ) ≠ 0 by decide)
    exact_mod_cast this
  unfold fd
  rw [fdNum_closed _ n (by omega) c f i]
  obtain ⟨k, rfl⟩ : ∃ k, n = k + 2 := ⟨n - 2, by omega⟩
  by_cases hdx : dx = 0
  · simp [hdx]
  rcases (show i = 0 ∨ i = k + 1 ∨ (1 ≤ i ∧ i ≤ k) by omega) with rfl | rfl | ⟨ha, hb⟩
  · cases m <;>
      simp [tbl, accSum, evalTerms, evalTerm, interior, padded, ruleOf, extend, Ext.ghostL, Ext.ghostR, stencil, den,
        Corner.pos] <;> field_simp <;> ring
  · cases m <;>
      simp [tbl, accSum, evalTerms, evalTerm, interior, padded, ruleOf, extend, Ext.ghostL, Ext.ghostR, stencil, den,
        Corner.pos] <;> field_simp <;> ring
  · have e1 : i ≠ 0 := by omega
    have e2 : i ≠ k + 1 := by omega
    have e3 : i + 2 ≤ k + 2 := by omega
    have e4 : ¬ (i + 1 = k + 2) := by omega
    have e5 : ¬ (i = k + 3) := by omega
    have e6 : ¬ (i = k + 2 + 1) := by omega
    have e7 : ¬ (i = k + 2) := by omega
    cases m <;>
      simp [tbl, accSum, evalTerms, evalTerm, interior, padded, ruleOf, extend, Ext.ghostL, Ext.ghostR, stencil, den,
        Corner.pos, e1, e2, e3, e4, e5, e6, e7, ha] <;> field_simp <;> ring

/-- Recorded deviation from the literal reading "every method x every pad mode is the
method's stencil on the extended array": for `(forward, order2)`, `n = 3`, `f = (0,0,1)`,
row 0 is `-1/2` (one-sided second-order formula), while the forward stencil gives `0`. -/
theorem C13.order2_forward_edge_differs :
    fd den (tbl .forward .order2) 3 0 (1 : ℚ) (fun i => if i = 2 then 1 else 0) 0
      ≠ stencil .forward (padded .order2 3 0 (fun i => if i = 2 then (1 : ℚ) else 0)) 0 / 1 := by
  norm_num [fd, fdNum, tbl, interior, assign, accStep, evalTerms, evalTerm, Corner.pos, den,
    stencil, padded, ruleOf, extend, Ext.ghostL, Ext.ghostR]

/-- unit vector -/
def OdlModel.C13.unit {K : Type} [Field K] (j : Nat) : Nat → K := fun i => if i = j then 1 else 0

/-- Matrix form: entry `(i,j)` of the operator with configuration `(m,p)` is minus entry
`(j,i)` of the operator the code returns as adjoint.  In particular every adjoint pad mode is
completely determined by (is minus the transpose of) its non-adjoint partner. -/
theorem C13.fd_adjoint_entry {K : Type} [Field K] (m : Method) (p : Pad) (n : Nat)
    (h : sizeCheck guards (tbl m p) p n = none)
    (h' : sizeCheck guards (tbl (adjMethod m) (adjPad p)) (adjPad p) n = none)
    (dx : K) (i j : Nat) (hi : i < n) (hj : j < n) :
    fd den (tbl m p) n 0 dx (unit j) i
      = - fd den (tbl (adjMethod m) (adjPad p)) n 0 dx (unit i) j := by
  have key := C13.fd_adjoint_transpose m p n h h' dx (unit j) (unit i)
  simpa [unit, Finset.sum_ite_eq', hi, hj] using key

/-- `derivative`: for any leaf and any `pad_const = c`, `D_c(f + h) − D_c(f) = D_0(h)`: the
operator is affine and its derivative (at every point) is the zero-padding operator. -/
theorem C13.fd_affine {K : Type} [Field K] (t : Table) (n : Nat) (hn : 2 ≤ n) (c dx : K)
    (f h : Nat → K) (i : Nat) :
    fd den t n c dx (fun k => f k + h k) i - fd den t n c dx f i = fd den t n 0 dx h i := by
  have lin : ∀ ts : List Term, evalTerms n c (fun k => f k + h k) ts
      = evalTerms n c f ts + evalTerms n 0 h ts := by
    intro ts
    induction ts with
    | nil => simp [evalTerms]
    | cons a as ih =>
      obtain ⟨q, src⟩ := a
      cases src <;> simp [evalTerms, evalTerm, ih] <;> ring
  have lacc : ∀ accs : List Acc, accSum n c (fun k => f k + h k) accs i
      = accSum n c f accs i + accSum n 0 h accs i := by
    intro accs
    induction accs with
    | nil => simp [accSum]
    | cons a as ih => simp only [accSum, ih, lin]; split_ifs <;> ring
  simp only [fd, fdNum_closed _ n hn, lin, lacc, interior]
  split_ifs <;> ring


/-! ### N-d operators (ndim ≤ 3): PartialDerivative, Gradient, Divergence, Laplacian -/

/-- `PartialDerivative.adjoint` on an N-d array (any shape, axis `a`): for the PLAIN sum over
the whole index box, `Σ G·∂ₐF = −Σ F·∂ₐ'G` with `∂ₐ'` built from `_ADJ_METHOD`,
`_ADJ_PADDING` and the same `dx` — i.e. the returned operator is minus the matrix transpose.
Small print: the model has no spaces; that the transpose IS the adjoint for the spaces' inner
products needs one and the same constant weight on domain and range (`uniform_discr` without
`nodes_on_bdry`; `PointwiseTensorFieldOperator` forces range ≅ domain).  That step is not a
Lean statement here; on `nodes_on_bdry` / array-weighted spaces the transpose is NOT the
adjoint (open findings F60, F56 of C05) and C13 does not claim it. -/
theorem C13.pd_adjoint {K : Type} [Field K] (m : Method) (p : Pad) (shape : Nat → Nat)
    (a : Nat) (ha : a < 3)
    (h : sizeCheck guards (tbl m p) p (shape a) = none)
    (h' : sizeCheck guards (tbl (adjMethod m) (adjPad p)) (adjPad p) (shape a) = none)
    (dx : K) (F G : Idx → K) :
    boxSum shape (fun x => G x * fdAxis den (tbl m p) shape a 0 dx F x)
      = - boxSum shape
          (fun x => F x * fdAxis den (tbl (adjMethod m) (adjPad p)) shape a 0 dx G x) := by
  have key := boxSum_lift_pair shape a ha (fd den (tbl m p) (shape a) 0 dx)
    (fd den (tbl (adjMethod m) (adjPad p)) (shape a) 0 dx)
    (fun f g => by
      rw [sum_add_distrib, C13.fd_adjoint_transpose m p (shape a) h h' dx f g]; ring) F G
  rw [boxSum_add] at key
  exact eq_neg_of_add_eq_zero_left key

/-- `Gradient.adjoint = −Divergence(_ADJ_METHOD[m], _ADJ_PADDING[p])`: for every shape and
`ndim = d ≤ 3`, `Σₐ ⟨Hₐ, (∇F)ₐ⟩ = −⟨F, div' H⟩`, with `divergence` the in-order
accumulation of `Divergence._call`. -/
theorem C13.grad_div_adjoint {K : Type} [Field K] (m : Method) (p : Pad) (shape : Nat → Nat)
    (d : Nat) (hd : d ≤ 3)
    (h : ∀ a < d, sizeCheck guards (tbl m p) p (shape a) = none)
    (h' : ∀ a < d, sizeCheck guards (tbl (adjMethod m) (adjPad p)) (adjPad p) (shape a) = none)
    (dx : Nat → K) (F : Idx → K) (H : Nat → Idx → K) :
    ∑ a ∈ range d, boxSum shape (fun x => H a x * gradient den (tbl m p) shape 0 dx F a x)
      = - boxSum shape (fun x => F x *
            divergence den (tbl (adjMethod m) (adjPad p)) shape d 0 dx H x) := by
  have e : ∀ a < d, boxSum shape (fun x => H a x * gradient den (tbl m p) shape 0 dx F a x)
      = - boxSum shape (fun x => F x *
            fdAxis den (tbl (adjMethod m) (adjPad p)) shape a 0 (dx a) (H a) x) :=
    fun a ha => C13.pd_adjoint m p shape a (by omega) (h a ha) (h' a ha) (dx a) F (H a)
  rcases (show d = 0 ∨ d = 1 ∨ d = 2 ∨ d = 3 by omega) with rfl | rfl | rfl | rfl
  · simp [divergence, boxSum]
  · simp only [sum_range_succ, sum_range_zero, zero_add, e 0 (by omega)]
    simp [divergence, List.range_succ]
  · simp only [sum_range_succ, sum_range_zero, zero_add, e 0 (by omega), e 1 (by omega)]
    simp [divergence, List.range_succ, mul_add, boxSum_add]; ring
  · simp only [sum_range_succ, sum_range_zero, zero_add, e 0 (by omega), e 1 (by omega),
      e 2 (by omega)]
    simp [divergence, List.range_succ, mul_add, boxSum_add]; ring

/-- `Divergence.adjoint = −Gradient(_ADJ_METHOD[m], _ADJ_PADDING[p])`, i.e. divergence is
minus the adjoint of the gradient with the partner configuration. -/
theorem C13.div_grad_adjoint {K : Type} [Field K] (m : Method) (p : Pad) (shape : Nat → Nat)
    (d : Nat) (hd : d ≤ 3)
    (h : ∀ a < d, sizeCheck guards (tbl m p) p (shape a) = none)
    (h' : ∀ a < d, sizeCheck guards (tbl (adjMethod m) (adjPad p)) (adjPad p) (shape a) = none)
    (dx : Nat → K) (G : Idx → K) (H : Nat → Idx → K) :
    boxSum shape (fun x => G x * divergence den (tbl m p) shape d 0 dx H x)
      = - ∑ a ∈ range d, boxSum shape
          (fun x => H a x * gradient den (tbl (adjMethod m) (adjPad p)) shape 0 dx G a x) := by
  have e : ∀ a < d, boxSum shape (fun x => G x * fdAxis den (tbl m p) shape a 0 (dx a) (H a) x)
      = - boxSum shape (fun x => H a x *
            gradient den (tbl (adjMethod m) (adjPad p)) shape 0 dx G a x) :=
    fun a ha => C13.pd_adjoint m p shape a (by omega) (h a ha) (h' a ha) (dx a) (H a) G
  rcases (show d = 0 ∨ d = 1 ∨ d = 2 ∨ d = 3 by omega) with rfl | rfl | rfl | rfl
  · simp [divergence, boxSum]
  · simp only [sum_range_succ, sum_range_zero, zero_add, ← e 0 (by omega)]
    simp [divergence, List.range_succ]
  · simp only [sum_range_succ, sum_range_zero, zero_add]
    simp only [divergence, List.range_succ, List.range_zero, List.nil_append, List.cons_append,
      List.foldl_cons, List.foldl_nil, zero_add, mul_add, boxSum_add]
    rw [e 0 (by omega), e 1 (by omega)]; ring
  · simp only [sum_range_succ, sum_range_zero, zero_add]
    simp only [divergence, List.range_succ, List.range_zero, List.nil_append, List.cons_append,
      List.foldl_cons, List.foldl_nil, zero_add, mul_add, boxSum_add]
    rw [e 0 (by omega), e 1 (by omega), e 2 (by omega)]; ring

/-- 1-d: forward minus backward has the same rows for a pad mode and its adjoint partner,
for the pad modes `Laplacian` accepts (so returning the same pad mode in
`Laplacian.adjoint` is right although `_ADJ_PADDING` is not applied there). -/
theorem C13.laplacian_rows_adj_invariant {K : Type} [Field K] (p : Pad) (hp : p ∉ lapRejected)
    (n : Nat) (hn : 2 ≤ n) (dx : K) (f : Nat → K) (i : Nat) :
    fd den (tbl .forward p) n 0 dx f i - fd den (tbl .backward p) n 0 dx f i
      = fd den (tbl .forward (adjPad p)) n 0 dx f i
        - fd den (tbl .backward (adjPad p)) n 0 dx f i := by
  simp only [fd, fdNum_closed _ n hn]
  cases p <;> simp [lapRejected] at hp <;>
    simp [tbl, adjPad, accSum, evalTerms, evalTerm, interior] <;> split_ifs <;> ring


/-- 1-d Laplacian (forward minus backward, same pad mode) is symmetric for every axis
length `n ≥ 2` and every pad mode `Laplacian` accepts. -/
theorem C13.laplacian1_selfadjoint {K : Type} [Field K] (p : Pad) (hp : p ∉ lapRejected)
    (n : Nat) (hn : 2 ≤ n) (dx : K) (f g : Nat → K) :
    ∑ i ∈ range n, g i * (fd den (tbl .forward p) n 0 dx f i - fd den (tbl .backward p) n 0 dx f i)
      = ∑ i ∈ range n,
          f i * (fd den (tbl .forward p) n 0 dx g i - fd den (tbl .backward p) n 0 dx g i) := by
  have hmin : nMin p ≤ n ∧ nMin (adjPad p) ≤ n := by
    cases p <;> simp [lapRejected] at hp <;> simp [nMin, adjPad] <;> omega
  have s1 := (C13.size_ok_iff .forward p n).2 hmin.1
  have s2 := (C13.size_ok_iff .backward p n).2 hmin.1
  have s3 := (C13.size_ok_iff .backward (adjPad p) n).2 hmin.2
  have s4 := (C13.size_ok_iff .forward (adjPad p) n).2 hmin.2
  have a1 := C13.fd_adjoint_transpose .forward p n s1 s3 dx f g
  have a2 := C13.fd_adjoint_transpose .backward p n s2 s4 dx f g
  have inv := fun i => C13.laplacian_rows_adj_invariant p hp n hn dx g i
  simp only [adjMethod] at a1 a2
  simp only [mul_sub, sum_sub_distrib] at *
  rw [a1, a2]
  have : ∑ i ∈ range n, f i * fd den (tbl .forward p) n 0 dx g i
       - ∑ i ∈ range n, f i * fd den (tbl .backward p) n 0 dx g i
       = ∑ i ∈ range n, f i * fd den (tbl .forward (adjPad p)) n 0 dx g i
       - ∑ i ∈ range n, f i * fd den (tbl .backward (adjPad p)) n 0 dx g i := by
    rw [← sum_sub_distrib, ← sum_sub_distrib]
    exact sum_congr rfl (fun i _ => by rw [← mul_sub, ← mul_sub, inv i])
  rw [this]; ring

/-- `Laplacian.adjoint` returns the Laplacian with the SAME pad mode and `pad_const = 0`:
that is the transpose, for every shape, `ndim ≤ 3`, every accepted pad mode
(`Laplacian._call` accumulation order `out += fwd; out -= bwd` per axis, `dx²`). -/
theorem C13.laplacian_selfadjoint {K : Type} [Field K] (p : Pad) (hp : p ∉ lapRejected)
    (shape : Nat → Nat) (d : Nat) (hd : d ≤ 3) (hs : ∀ a < d, 2 ≤ shape a)
    (dx : Nat → K) (F G : Idx → K) :
    boxSum shape (fun x => G x *
        laplacian den (tbl .forward p) (tbl .backward p) shape d 0 dx F x)
      = boxSum shape (fun x => F x *
        laplacian den (tbl .forward p) (tbl .backward p) shape d 0 dx G x) := by
  have e : ∀ a < d, boxSum shape (fun x => G x *
        (fdAxis den (tbl .forward p) shape a 0 (dx a * dx a) F x
          - fdAxis den (tbl .backward p) shape a 0 (dx a * dx a) F x))
      = boxSum shape (fun x => F x *
        (fdAxis den (tbl .forward p) shape a 0 (dx a * dx a) G x
          - fdAxis den (tbl .backward p) shape a 0 (dx a * dx a) G x)) := by
    intro a ha
    have key := boxSum_lift_pair shape a (by omega)
      (fun f i => fd den (tbl .forward p) (shape a) 0 (dx a * dx a) f i
        - fd den (tbl .backward p) (shape a) 0 (dx a * dx a) f i)
      (fun f i => -(fd den (tbl .forward p) (shape a) 0 (dx a * dx a) f i
        - fd den (tbl .backward p) (shape a) 0 (dx a * dx a) f i))
      (fun f g => by
        have := C13.laplacian1_selfadjoint p hp (shape a) (hs a ha) (dx a * dx a) f g
        simp only [mul_neg, ← sub_eq_add_neg, sum_sub_distrib]
        rw [this]; ring) F G
    simp only [lift, mul_neg, ← sub_eq_add_neg] at key
    have key' : boxSum shape (fun x => G x *
        (fdAxis den (tbl .forward p) shape a 0 (dx a * dx a) F x
          - fdAxis den (tbl .backward p) shape a 0 (dx a * dx a) F x)
        + - (F x * (fdAxis den (tbl .forward p) shape a 0 (dx a * dx a) G x
          - fdAxis den (tbl .backward p) shape a 0 (dx a * dx a) G x))) = 0 := by
      simpa [fdAxis, sub_eq_add_neg] using key
    rw [boxSum_add, boxSum_neg] at key'
    exact eq_of_sub_eq_zero (by rw [sub_eq_add_neg]; exact key')
  rcases (show d = 0 ∨ d = 1 ∨ d = 2 ∨ d = 3 by omega) with rfl | rfl | rfl | rfl
  · simp [laplacian, boxSum]
  · have e0 := e 0 (by omega)
    simpa [laplacian, List.range_succ] using e0
  · have e0 := e 0 (by omega)
    have e1 := e 1 (by omega)
    simp only [laplacian, List.range_succ, List.range_zero, List.nil_append, List.cons_append,
      List.foldl_cons, List.foldl_nil, zero_add, add_sub_assoc, mul_add, boxSum_add]
    rw [e0, e1]
  · have e0 := e 0 (by omega)
    have e1 := e 1 (by omega)
    have e2 := e 2 (by omega)
    simp only [laplacian, List.range_succ, List.range_zero, List.nil_append, List.cons_append,
      List.foldl_cons, List.foldl_nil, zero_add, add_sub_assoc, mul_add, boxSum_add]
    rw [e0, e1, e2]


/-- N-d form of `fd_eq_stencil_ext`: `PartialDerivative` / each `Gradient` component at
multi-index `x` is the stencil on the padded LINE through `x` along the axis. -/
theorem C13.pd_eq_stencil_ext {K : Type} [Field K] [CharZero K] (m : Method) (p : Pad)
    (hp : stencilCase m p = true) (shape : Nat → Nat) (a : Nat) (hn : nMin p ≤ shape a)
    (c dx : K) (F : Idx → K) (x : Idx) (hx : x.get a < shape a) :
    fdAxis den (tbl m p) shape a c dx F x
      = stencil m (padded p (shape a) c (fun q => F (x.set a q))) (x.get a) / dx :=
  C13.fd_eq_stencil_ext m p hp (shape a) hn c dx _ _ hx

/-- `Laplacian` equals the sum over the axes of the textbook second difference
`(E[i+1] − 2E[i] + E[i−1]) / dxₐ²` of the padded line (extension pad modes, any `pad_const`). -/
theorem C13.laplacian_eq_second_difference {K : Type} [Field K] [CharZero K] (p : Pad)
    (hp : p = .constant ∨ p = .symmetric ∨ p = .periodic ∨ p = .order0)
    (shape : Nat → Nat) (d : Nat) (hd : d ≤ 3) (hs : ∀ a < d, 2 ≤ shape a)
    (c : K) (dx : Nat → K) (F : Idx → K) (x : Idx) (hx : ∀ a < d, x.get a < shape a) :
    laplacian den (tbl .forward p) (tbl .backward p) shape d c dx F x
      = ∑ a ∈ range d,
          (padded p (shape a) c (fun q => F (x.set a q)) (x.get a + 2)
            - 2 * padded p (shape a) c (fun q => F (x.set a q)) (x.get a + 1)
            + padded p (shape a) c (fun q => F (x.set a q)) (x.get a)) / (dx a * dx a) := by
  have e : ∀ a < d, fdAxis den (tbl .forward p) shape a c (dx a * dx a) F x
        - fdAxis den (tbl .backward p) shape a c (dx a * dx a) F x
      = (padded p (shape a) c (fun q => F (x.set a q)) (x.get a + 2)
            - 2 * padded p (shape a) c (fun q => F (x.set a q)) (x.get a + 1)
            + padded p (shape a) c (fun q => F (x.set a q)) (x.get a)) / (dx a * dx a) := by
    intro a ha
    have hn : nMin p ≤ shape a := by
      have := hs a ha
      rcases hp with rfl | rfl | rfl | rfl <;> simpa [nMin] using this
    have hf : stencilCase .forward p = true := by rcases hp with rfl | rfl | rfl | rfl <;> rfl
    have hb : stencilCase .backward p = true := by rcases hp with rfl | rfl | rfl | rfl <;> rfl
    rw [C13.pd_eq_stencil_ext .forward p hf shape a hn c _ F x (hx a ha),
      C13.pd_eq_stencil_ext .backward p hb shape a hn c _ F x (hx a ha)]
    simp only [stencil]; ring
  rcases (show d = 0 ∨ d = 1 ∨ d = 2 ∨ d = 3 by omega) with rfl | rfl | rfl | rfl
  · simp [laplacian]
  · simp only [laplacian, List.range_succ, List.range_zero, List.nil_append, List.cons_append,
      List.foldl_cons, List.foldl_nil, zero_add, add_sub_assoc, sum_range_succ, sum_range_zero,
      e 0 (by omega)]
  · simp only [laplacian, List.range_succ, List.range_zero, List.nil_append, List.cons_append,
      List.foldl_cons, List.foldl_nil, zero_add, add_sub_assoc, sum_range_succ, sum_range_zero,
      e 0 (by omega), e 1 (by omega)]
  · simp only [laplacian, List.range_succ, List.range_zero, List.nil_append, List.cons_append,
      List.foldl_cons, List.foldl_nil, zero_add, add_sub_assoc, sum_range_succ, sum_range_zero,
      e 0 (by omega), e 1 (by omega), e 2 (by omega)]

/-- N-d form of `fd_affine` (`PartialDerivative.derivative`; Gradient/Divergence/Laplacian
are component-wise / sums of it). -/
theorem C13.pd_affine {K : Type} [Field K] (t : Table) (shape : Nat → Nat) (a : Nat)
    (hn : 2 ≤ shape a) (c dx : K) (F H : Idx → K) (x : Idx) :
    fdAxis den t shape a c dx (fun y => F y + H y) x - fdAxis den t shape a c dx F x
      = fdAxis den t shape a 0 dx H x :=
  C13.fd_affine t (shape a) hn c dx _ _ _

example : ∑ i ∈ range 3, (fun i => (i : ℚ) + 1) i *
      fd den (tbl .forward .order2Adj) 3 0 (1/2 : ℚ) (fun i => (i : ℚ) * i) i
    = - ∑ j ∈ range 3, (fun i => (i : ℚ) * i) j *
      fd den (tbl .backward .order2) 3 0 (1/2 : ℚ) (fun i => (i : ℚ) + 1) j :=
  C13.fd_adjoint_transpose .forward .order2Adj 3 (by decide) (by decide) _ _ _

example (F G : Idx → ℚ) :
    boxSum (fun a => if a = 0 then 2 else if a = 1 then 3 else 1) (fun x => G x *
      laplacian den (tbl .forward .symmetric) (tbl .backward .symmetric)
        (fun a => if a = 0 then 2 else if a = 1 then 3 else 1) 2 0 (fun _ => 1) F x)
    = boxSum (fun a => if a = 0 then 2 else if a = 1 then 3 else 1) (fun x => F x *
      laplacian den (tbl .forward .symmetric) (tbl .backward .symmetric)
        (fun a => if a = 0 then 2 else if a = 1 then 3 else 1) 2 0 (fun _ => 1) G x) :=
  C13.laplacian_selfadjoint .symmetric (by decide) _ 2 (by decide)
    (by intro a ha; rcases (show a = 0 ∨ a = 1 by omega) with rfl | rfl <;> simp) _ F G


/-! ### Complex scalars -/

/-- All coefficients are rational, so `finite_diff` commutes with every ring endomorphism
that fixes `dx` (complex conjugation for a real `dx`). -/
theorem C13.fd_map {K : Type} [Field K] (σ : K →+* K) (t : Table) (n : Nat) (hn : 2 ≤ n)
    (dx : K) (hdx : σ dx = dx) (f : Nat → K) (i : Nat) :
    fd den t n 0 dx (fun k => σ (f k)) i = σ (fd den t n 0 dx f i) := by
  have lin : ∀ ts : List Term, evalTerms n 0 (fun k => σ (f k)) ts = σ (evalTerms n 0 f ts) := by
    intro ts
    induction ts with
    | nil => simp [evalTerms]
    | cons a as ih =>
      obtain ⟨q, src⟩ := a
      cases src <;> simp [evalTerms, evalTerm, ih]
  have lacc : ∀ accs : List Acc, accSum n 0 (fun k => σ (f k)) accs i
      = σ (accSum n 0 f accs i) := by
    intro accs
    induction accs with
    | nil => simp [accSum]
    | cons a as ih => simp only [accSum, ih, lin]; split_ifs <;> simp
  simp only [fd, fdNum_closed _ n hn, lin, lacc, interior, map_div₀, map_mul, map_natCast, hdx]
  split_ifs <;> simp

/-- Hermitian form of `fd_adjoint_transpose` (complex dtype: `σ` = conjugation, `dx` real):
`⟨D f, g⟩ = ⟨f, −D' g⟩` for the sesquilinear pairing `Σ uᵢ·σ(vᵢ)`, all `n`. -/
theorem C13.fd_adjoint_hermitian {K : Type} [Field K] (σ : K →+* K) (m : Method) (p : Pad)
    (n : Nat) (h : sizeCheck guards (tbl m p) p n = none)
    (h' : sizeCheck guards (tbl (adjMethod m) (adjPad p)) (adjPad p) n = none)
    (dx : K) (hdx : σ dx = dx) (f g : Nat → K) :
    ∑ i ∈ range n, fd den (tbl m p) n 0 dx f i * σ (g i)
      = - ∑ j ∈ range n, f j * σ (fd den (tbl (adjMethod m) (adjPad p)) n 0 dx g j) := by
  have hn : 2 ≤ n := le_trans (tbl _ _).two_le_need (sizeCheck_none h')
  have key := C13.fd_adjoint_transpose m p n h h' dx f (fun k => σ (g k))
  simp only [C13.fd_map σ _ n hn dx hdx g] at key
  rw [← key]
  exact sum_congr rfl (fun i _ => mul_comm _ _)


/-! ### Which instance `.adjoint` returns (flags `affineAware`, `adjGuarded` are generated) -/

/-- (Round 5: stated for the EXECUTED `Op.adjointBy` on the generated `adjSpec`.)
On linear instances (`pad_const = 0`) of all four classes, `.adjoint.adjoint` is the
instance itself: same class (Gradient ↔ Divergence swapped twice), method, pad mode, sign.
(Stated for `pad_const = 0` only: `Divergence.adjoint` does not pass `pad_const` on.) -/
theorem C13.op_adjoint_involutive {K : Type} [Field K] [DecidableEq K] (k : Kind) (m : Method)
    (p : Pad) (neg : Bool) :
    ((⟨k, m, p, (0 : K), neg⟩ : Op K).adjointBy affineAware adjGuarded adjSpec adjMethod
        adjPad).bind (fun o => o.adjointBy affineAware adjGuarded adjSpec adjMethod adjPad)
      = some ⟨k, m, p, 0, neg⟩ := by
  obtain ⟨h1, h2, -, -⟩ := C13.adj_involutive
  cases k <;> simp [Op.adjointBy, Op.isLinear, affineAware, adjGuarded, adjSpec, h1 m, h2 p]

/-- (Round 5: stated for the EXECUTED `Op.adjointBy` on the generated `adjSpec`.)
Every one of the four classes flags the constant-padding variant with `pad_const ≠ 0` as
non-linear and refuses to return an adjoint for it (`ValueError`); every other instance is
flagged linear and has an adjoint.  Breaks if an `__init__` passes `linear=True` or an
`.adjoint` loses its guard. -/
theorem C13.affine_instances_have_no_adjoint {K : Type} [Field K] [DecidableEq K] (k : Kind)
    (m : Method) (p : Pad) (c : K) (neg : Bool) :
    let o : Op K := ⟨k, m, p, c, neg⟩
    (o.isLinear affineAware = !(p == .constant && c != 0)) ∧
    ((o.adjointBy affineAware adjGuarded adjSpec adjMethod adjPad).isSome
      = o.isLinear affineAware) := by
  cases k <;> by_cases hp : p = .constant <;> by_cases hc : c = 0 <;>
    simp [Op.adjointBy, Op.isLinear, affineAware, adjGuarded, hp, hc]

example : ((⟨.lap, .forward, .constant, (1 : ℚ), false⟩ : Op ℚ).adjointBy
    affineAware adjGuarded adjSpec adjMethod adjPad).isSome = false := by
  have h := (C13.affine_instances_have_no_adjoint .lap .forward .constant (1 : ℚ) false).2
  simp only [Op.isLinear, affineAware] at h
  rw [h]; simp


/-! ### pad_const, linearity flag and `.derivative` of the instances -/

/-- evalTerms does not depend on `c` when no term reads `pad_const` -/
private lemma evalTerms_const_free {K : Type} [Field K] (n : Nat) (c c' : K) (f : Nat → K)
    (ts : List Term) (h : ∀ t ∈ ts, t.src ≠ none) :
    evalTerms n c f ts = evalTerms n c' f ts := by
  induction ts with
  | nil => rfl
  | cons t ts ih =>
    obtain ⟨q, src⟩ := t
    cases src with
    | none => exact absurd rfl (h ⟨q, none⟩ (by simp))
    | some s =>
      simp only [evalTerms, evalTerm]
      rw [ih (fun t ht => h t (by simp [ht]))]

/-- In the generated tables only the `constant` leaves read `pad_const`: for every method,
every other pad mode, EVERY axis length, input and `pad_const`, `finite_diff` returns what it
returns for `pad_const = 0`.  (So `linear = not (pad_mode == 'constant' and pad_const != 0)`
does not overlook an affine case; breaks if a boundary row of another mode reads
`pad_const`.) -/
theorem C13.pad_const_ignored_unless_constant {K : Type} [Field K] (m : Method) (p : Pad)
    (hp : p ≠ .constant) (n : Nat) (c dx : K) (f : Nat → K) (i : Nat) :
    fd den (tbl m p) n c dx f i = fd den (tbl m p) n 0 dx f i := by
  have key : ∀ ts ∈ (tbl m p).row0 :: (tbl m p).rowN :: (tbl m p).accs.map (·.terms),
      ∀ t ∈ ts, t.src ≠ none := by
    cases m <;> cases p <;> first | exact absurd rfl hp | decide
  have h0 := evalTerms_const_free n c 0 f _ (key (tbl m p).row0 (by simp))
  have hN := evalTerms_const_free n c 0 f _ (key (tbl m p).rowN (by simp))
  have hacc : ∀ accs : List Acc, (∀ a ∈ accs, ∀ t ∈ a.terms, t.src ≠ none) →
      accSum n c f accs i = accSum n 0 f accs i := by
    intro accs
    induction accs with
    | nil => intro _; rfl
    | cons a as ih =>
      intro h
      simp only [accSum]
      rw [ih (fun b hb => h b (by simp [hb])),
        evalTerms_const_free n c 0 f a.terms (h a (by simp))]
  have hA := hacc (tbl m p).accs (fun a ha => key a.terms (by
    simp only [List.mem_cons, List.mem_map]; exact Or.inr (Or.inr ⟨a, ha, rfl⟩)))
  simp only [fd, fdNum, foldl_accStep, assign, h0, hN, hA]

/-- REFERENCE TWIN since round 5 (used as a lemma by `op_derivativeBy_is_derivative`, which is
the theorem about the executed, generated definition; `Op.derivative` itself is only reachable
through the driver op `cfgh`).
The instance `Op.derivative` returns (until round 4 executed by the driver's `cfg act=derivative`, compared
with `op.derivative(x)` of the real classes) IS the derivative of the instance's 1-d action:
for every instance (any class, method, pad mode, `pad_const`), every `n ≥ 2`, all `f, h`:
`D_o(f+h) − D_o(f) = D_{o.derivative}(h)`; the returned instance is flagged linear and is its
own derivative. -/
theorem C13.op_derivative_is_derivative {K : Type} [Field K] [DecidableEq K] (o : Op K)
    (n : Nat) (hn : 2 ≤ n) (dx : K) (f h : Nat → K) (i : Nat) :
    (fd den (tbl o.method o.pad) n o.c dx (fun k => f k + h k) i
        - fd den (tbl o.method o.pad) n o.c dx f i
      = fd den (tbl o.derivative.method o.derivative.pad) n o.derivative.c dx h i) ∧
    o.derivative.isLinear affineAware = true ∧ o.derivative.derivative = o.derivative := by
  have aff := C13.fd_affine (tbl o.method o.pad) n hn o.c dx f h i
  obtain ⟨k, m, p, c, neg⟩ := o
  by_cases hp : p = .constant <;> by_cases hc : c = 0
  · subst hp; subst hc
    refine ⟨by simpa [Op.derivative] using aff, ?_, ?_⟩ <;>
      cases k <;> simp [Op.derivative, Op.isLinear, affineAware]
  · subst hp
    refine ⟨by simpa [Op.derivative, hc] using aff, ?_, ?_⟩ <;>
      cases k <;> simp [Op.derivative, Op.isLinear, affineAware, hc]
  · subst hc
    refine ⟨by simpa [Op.derivative, hp] using aff, ?_, ?_⟩ <;>
      cases k <;> simp [Op.derivative, Op.isLinear, affineAware, hp]
  · have e := C13.pad_const_ignored_unless_constant m p hp n c dx h i
    have hd : (⟨k, m, p, c, neg⟩ : Op K).derivative = ⟨k, m, p, c, neg⟩ := by
      simp [Op.derivative, hp]
    refine ⟨by rw [hd]; simpa [e] using aff, ?_, ?_⟩ <;>
      cases k <;> simp [Op.derivative, Op.isLinear, affineAware, hp]

example : fd den (tbl .backward .constant) 4 (3 : ℚ) 2 (fun k => (k : ℚ) + 1) 0
    - fd den (tbl .backward .constant) 4 (3 : ℚ) 2 (fun _ => 0) 0
    = fd den (tbl .backward .constant) 4 0 2 (fun k => (k : ℚ) + 1) 0 := by
  have h := (C13.op_derivative_is_derivative (⟨.pd, .backward, .constant, (3 : ℚ), false⟩ : Op ℚ)
    4 (by decide) 2 (fun _ => 0) (fun k => (k : ℚ) + 1) 0).1
  simpa [Op.derivative] using h


/-- Which error the size checks produce (the executed `sizeCheck`, printed by the driver and
compared with the exception class of the real call): `ValueError` exactly for `n < 2` or
(`order2`, `n < 3`); `IndexError` exactly for `order2_adjoint` with `n = 2` (its explicit guard
names only 'order2'); for every method and every `n`.  Complements `size_ok_iff`. -/
theorem C13.size_error_kind (m : Method) (p : Pad) (n : Nat) :
    (sizeCheck guards (tbl m p) p n = some .value ↔ n < 2 ∨ (p = .order2 ∧ n < 3)) ∧
    (sizeCheck guards (tbl m p) p n = some .index ↔ p = .order2Adj ∧ n = 2) := by
  refine ⟨?_, ?_⟩ <;> cases m <;> cases p <;>
    simp [sizeCheck, guards, tbl, Table.need, Table.corners, Corner.need] <;>
    (try split_ifs) <;> (try simp_all) <;> (try omega)

/-- The executed `Op.isLinear` (generated rule flags; compared with `op.is_linear`) is exact:
for every instance, every `n ≥ 2`, `dx ≠ 0`: the flag is `true` iff the instance's 1-d action
maps the zero array to zero.  Together with `fd_affine` this makes flagged-linear instances
additive, and shows every flagged-affine instance really is not linear. -/
theorem C13.is_linear_iff_zero_to_zero {K : Type} [Field K] [CharZero K] [DecidableEq K]
    (o : Op K) (n : Nat) (hn : 2 ≤ n) (dx : K) (hdx : dx ≠ 0) :
    o.isLinear affineAware = true ↔
      ∀ i < n, fd den (tbl o.method o.pad) n o.c dx (fun _ => 0) i = 0 := by
  have h2K : (2 : K) ≠ 0 := by
    have := (Nat.cast_injective (R := K)).ne (show (2 : ℕ) ≠ 0 by decide)
    exact_mod_cast this
  obtain ⟨k, m, p, c, neg⟩ := o
  have z0 : ∀ i, fd den (tbl m p) n 0 dx (fun _ => (0 : K)) i = 0 := by
    intro i
    have := C13.fd_affine (tbl m p) n hn 0 dx (fun _ => 0) (fun _ => 0) i
    simpa using this.symm
  have hlin : (⟨k, m, p, c, neg⟩ : Op K).isLinear affineAware = !(p == .constant && c != 0) := by
    cases k <;> simp [Op.isLinear, affineAware]
  rw [hlin]
  by_cases hp : p = .constant
  · by_cases hc : c = 0
    · subst hc; simpa [hp] using fun i _ => z0 i
    · subst hp
      have hf : (!((Pad.constant == Pad.constant) && c != 0)) = false := by simp [hc]
      rw [hf]
      refine ⟨fun h => absurd h (by simp), fun h => ?_⟩
      exfalso
      obtain ⟨j, rfl⟩ : ∃ j, n = j + 2 := ⟨n - 2, by omega⟩
      cases m
      · refine absurd (h 0 (by omega)) ?_
        simp [fd, fdNum_closed _ _ hn, tbl, evalTerms, evalTerm, accSum, den, hc, hdx, h2K]
      · refine absurd (h (j + 1) (by omega)) ?_
        simp [fd, fdNum_closed _ _ hn, tbl, evalTerms, evalTerm, accSum, den, hc, hdx, h2K]
      · refine absurd (h 0 (by omega)) ?_
        simp [fd, fdNum_closed _ _ hn, tbl, evalTerms, evalTerm, accSum, den, hc, hdx, h2K]
  · have ht : (!((p == Pad.constant) && c != 0)) = true := by simp [hp]
    rw [ht]
    refine ⟨fun _ i _ => ?_, fun _ => rfl⟩
    rw [C13.pad_const_ignored_unless_constant m p hp]; exact z0 i


/-- REFERENCE TWIN since round 5: `Op.adjoint` is the hand-written statement of which instance
SHOULD be returned; it is no longer executed in the correspondence stream (driver op `cfgh`
only) - the theorem about the executed, generated definition is `op_adjointBy_is_transpose`.
The instance `Op.adjoint` builds (until round 4 executed by `cfg act=adjoint`, compared with the object
`op.adjoint` of PartialDerivative / Gradient / Divergence) IS minus the transpose of the
instance's 1-d action, for EVERY linear instance - also with a `pad_const ≠ 0` that a
non-constant pad mode carries along or that `Divergence.adjoint` drops - every `n` on which both
run: the returned instance has the flipped sign flag and `Σ g·D_o f = −Σ f·D_a g`. -/
theorem C13.op_adjoint_is_transpose {K : Type} [Field K] [DecidableEq K] (o : Op K)
    (hk : o.kind ≠ .lap) (hl : o.isLinear affineAware = true) (n : Nat)
    (h : sizeCheck guards (tbl o.method o.pad) o.pad n = none)
    (h' : sizeCheck guards (tbl (adjMethod o.method) (adjPad o.pad)) (adjPad o.pad) n = none)
    (dx : K) (f g : Nat → K) :
    ∃ a, o.adjoint affineAware adjGuarded adjMethod adjPad = some a ∧ a.neg = !o.neg ∧
      ∑ i ∈ range n, g i * fd den (tbl o.method o.pad) n o.c dx f i
        = - ∑ j ∈ range n, f j * fd den (tbl a.method a.pad) n a.c dx g j := by
  obtain ⟨k, m, p, c, neg⟩ := o
  have key := C13.fd_adjoint_transpose m p n h h' dx f g
  have hcp : adjPad p = .constant ↔ p = .constant := by cases p <;> decide
  -- both sides do not depend on c
  have e1 : ∀ i, fd den (tbl m p) n c dx f i = fd den (tbl m p) n 0 dx f i := by
    intro i
    by_cases hp : p = .constant
    · have hc : c = 0 := by
        cases k <;> simp_all [Op.isLinear, affineAware]
      rw [hc]
    · exact C13.pad_const_ignored_unless_constant m p hp n c dx f i
  have e2 : ∀ c' : K, (c' = c ∨ c' = 0) → ∀ j, fd den (tbl (adjMethod m) (adjPad p)) n c' dx g j
      = fd den (tbl (adjMethod m) (adjPad p)) n 0 dx g j := by
    intro c' hc' j
    by_cases hp : p = .constant
    · have hc : c = 0 := by
        cases k <;> simp_all [Op.isLinear, affineAware]
      rcases hc' with rfl | rfl <;> simp [hc]
    · exact C13.pad_const_ignored_unless_constant _ _ (fun hh => hp (hcp.1 hh)) n c' dx g j
  simp only [e1, key]
  cases k
  · exact ⟨⟨.pd, adjMethod m, adjPad p, c, !neg⟩, by simp_all [Op.adjoint, adjGuarded], rfl,
      by simp only [e2 c (Or.inl rfl)]⟩
  · exact ⟨⟨.div, adjMethod m, adjPad p, c, !neg⟩, by simp_all [Op.adjoint, adjGuarded], rfl,
      by simp only [e2 c (Or.inl rfl)]⟩
  · exact ⟨⟨.grad, adjMethod m, adjPad p, 0, !neg⟩, by simp_all [Op.adjoint, adjGuarded], rfl,
      by rfl⟩
  · exact absurd rfl hk

example : (sizeCheck guards (tbl .central .order2Adj) .order2Adj 2 = some .index) :=
  (C13.size_error_kind .central .order2Adj 2).2.2 ⟨rfl, rfl⟩

example : ∃ i < 3, fd den (tbl .forward .constant) 3 (2 : ℚ) 1 (fun _ => 0) i ≠ 0 := by
  have h := (C13.is_linear_iff_zero_to_zero (⟨.grad, .forward, .constant, (2 : ℚ), false⟩ : Op ℚ)
    3 (by decide) 1 one_ne_zero)
  have hf : (⟨.grad, .forward, .constant, (2 : ℚ), false⟩ : Op ℚ).isLinear affineAware = false := by
    simp [Op.isLinear, affineAware]
  by_contra hcon
  push_neg at hcon
  have := h.2 hcon
  simp [hf] at this

example (f g : Nat → ℚ) : ∃ a, (⟨.div, .forward, .order1, (3 : ℚ), false⟩ : Op ℚ).adjoint
      affineAware adjGuarded adjMethod adjPad = some a ∧ a.neg = true ∧
    ∑ i ∈ range 4, g i * fd den (tbl .forward .order1) 4 3 (1 / 2) f i
      = - ∑ j ∈ range 4, f j * fd den (tbl a.method a.pad) 4 a.c (1 / 2) g j := by
  simpa using C13.op_adjoint_is_transpose (⟨.div, .forward, .order1, (3 : ℚ), false⟩ : Op ℚ)
    (by decide) (by simp [Op.isLinear, affineAware]) 4 (by decide) (by decide) (1 / 2) f g

/-! ### Divergence as a sum of stencils -/

/-- `Divergence._call` (the executed in-order accumulation `out = tmp₀; out += tmpₐ`) equals the
sum over the axes of the method's textbook stencil on the padded line of component `a`
through `x`, divided by `dxₐ` - for the extension pad modes, any `pad_const`, any shape,
`ndim ≤ 3`.  (Gradient components are `pd_eq_stencil_ext`, the Laplacian is
`laplacian_eq_second_difference`.) -/
theorem C13.divergence_eq_stencil_sum {K : Type} [Field K] [CharZero K] (m : Method) (p : Pad)
    (hp : stencilCase m p = true) (shape : Nat → Nat) (d : Nat) (hd : d ≤ 3)
    (hs : ∀ a < d, nMin p ≤ shape a) (c : K) (dx : Nat → K) (H : Nat → Idx → K) (x : Idx)
    (hx : ∀ a < d, x.get a < shape a) :
    divergence den (tbl m p) shape d c dx H x
      = ∑ a ∈ range d,
          stencil m (padded p (shape a) c (fun q => H a (x.set a q))) (x.get a) / dx a := by
  have e : ∀ a < d, fdAxis den (tbl m p) shape a c (dx a) (H a) x
      = stencil m (padded p (shape a) c (fun q => H a (x.set a q))) (x.get a) / dx a :=
    fun a ha => C13.pd_eq_stencil_ext m p hp shape a (hs a ha) c (dx a) (H a) x (hx a ha)
  rcases (show d = 0 ∨ d = 1 ∨ d = 2 ∨ d = 3 by omega) with rfl | rfl | rfl | rfl
  · simp [divergence]
  · simp only [divergence, List.range_succ, List.range_zero, List.nil_append, List.cons_append,
      List.foldl_cons, List.foldl_nil, zero_add, sum_range_succ, sum_range_zero, e 0 (by omega)]
  · simp only [divergence, List.range_succ, List.range_zero, List.nil_append, List.cons_append,
      List.foldl_cons, List.foldl_nil, zero_add, sum_range_succ, sum_range_zero, e 0 (by omega),
      e 1 (by omega)]
  · simp only [divergence, List.range_succ, List.range_zero, List.nil_append, List.cons_append,
      List.foldl_cons, List.foldl_nil, zero_add, sum_range_succ, sum_range_zero, e 0 (by omega),
      e 1 (by omega), e 2 (by omega)]

/-- `Divergence.derivative`: for any leaf, any `pad_const`, shape, `ndim ≤ 3`:
`div_c(H + L) − div_c(H) = div_0(L)` (N-d, multi-component form of `fd_affine`). -/
theorem C13.divergence_affine {K : Type} [Field K] (t : Table) (shape : Nat → Nat) (d : Nat)
    (hd : d ≤ 3) (hs : ∀ a < d, 2 ≤ shape a) (c : K) (dx : Nat → K) (H L : Nat → Idx → K)
    (x : Idx) :
    divergence den t shape d c dx (fun a y => H a y + L a y) x - divergence den t shape d c dx H x
      = divergence den t shape d 0 dx L x := by
  have e : ∀ a < d, fdAxis den t shape a c (dx a) (fun y => H a y + L a y) x
      = fdAxis den t shape a c (dx a) (H a) x + fdAxis den t shape a 0 (dx a) (L a) x :=
    fun a ha => by rw [← C13.pd_affine t shape a (hs a ha) c (dx a) (H a) (L a) x]; ring
  rcases (show d = 0 ∨ d = 1 ∨ d = 2 ∨ d = 3 by omega) with rfl | rfl | rfl | rfl
  · simp [divergence]
  · simp only [divergence, List.range_succ, List.range_zero, List.nil_append, List.cons_append,
      List.foldl_cons, List.foldl_nil, zero_add, e 0 (by omega)]; ring
  · simp only [divergence, List.range_succ, List.range_zero, List.nil_append, List.cons_append,
      List.foldl_cons, List.foldl_nil, zero_add, e 0 (by omega), e 1 (by omega)]; ring
  · simp only [divergence, List.range_succ, List.range_zero, List.nil_append, List.cons_append,
      List.foldl_cons, List.foldl_nil, zero_add, e 0 (by omega), e 1 (by omega), e 2 (by omega)]
    ring

example (H : Nat → Idx → ℚ) :
    divergence den (tbl .backward .periodic) (fun a => if a = 0 then 2 else if a = 1 then 3 else 1)
        2 0 (fun _ => 1 / 2) H (1, 2, 0)
      = ∑ a ∈ range 2, stencil .backward (padded .periodic
          ((fun a => if a = 0 then 2 else if a = 1 then 3 else 1) a) 0
          (fun q => H a (Idx.set (1, 2, 0) a q))) (Idx.get (1, 2, 0) a) / (1 / 2) :=
  C13.divergence_eq_stencil_sum .backward .periodic rfl _ 2 (by decide)
    (by intro a ha; rcases (show a = 0 ∨ a = 1 by omega) with rfl | rfl <;> simp [nMin]) 0 _ H _
    (by intro a ha; rcases (show a = 0 ∨ a = 1 by omega) with rfl | rfl <;> simp [Idx.get])


/-! ### ROUND 4: arrays of ANY ndim

`finite_diff` reaches the axis by `np.swapaxes(·, 0, axis)` and nothing else in it, nor in the
accumulation loops of the four classes, depends on `ndim`.  The definitions `fdAxisN`,
`gradientN`, `divergenceN`, `laplacianN` (array = function of a multi-index `Nat → Nat`) are
executed by the driver's `ndn` op and compared exactly with `PartialDerivative`, `Gradient`,
`Divergence`, `Laplacian` on `uniform_discr` spaces of ndim 1..5 (stream `opn/…`).  The theorems
below are for every `ndim = d`; `boxSumN shape d` is the plain sum over the `d`-dimensional
index box (iterated `Finset` sums over the axes `0..d-1`). -/

/-- On index triples the any-ndim model IS the 3-d model of the earlier rounds (so both
streams `op/…` and `opn/…` execute the same line-wise action). -/
theorem C13.fdAxisN_agrees_3d {K : Type} [Field K] (t : Table) (shape : Nat → Nat) (a : Nat)
    (ha : a < 3) (c dx : K) (F : Idx → K) (x : Idx) :
    fdAxisN den t shape a c dx (fun y => F (y 0, y 1, y 2)) x.get
      = fdAxis den t shape a c dx F x := by
  rcases (show a = 0 ∨ a = 1 ∨ a = 2 by omega) with rfl | rfl | rfl <;>
    simp [fdAxis, fdAxisN, Idx.set, Idx.get, IdxN.set]

/-- `PartialDerivative.adjoint` on an array of ANY ndim `d`, any axis `a < d`, any shape on
which both leaves run: for the plain sum over the whole box `Σ G·∂ₐF = −Σ F·∂ₐ'G` with `∂ₐ'`
built from `_ADJ_METHOD`, `_ADJ_PADDING` and the same `dx` (fibre-wise lifting of
`fd_adjoint_transpose`; removes the `ndim ≤ 3` of `pd_adjoint`).  Same small print as
`pd_adjoint`: plain sums, i.e. one constant weight on both sides. -/
theorem C13.pdN_adjoint {K : Type} [Field K] (m : Method) (p : Pad) (shape : Nat → Nat)
    (d a : Nat) (ha : a < d)
    (h : sizeCheck guards (tbl m p) p (shape a) = none)
    (h' : sizeCheck guards (tbl (adjMethod m) (adjPad p)) (adjPad p) (shape a) = none)
    (dx : K) (F G : IdxN → K) :
    boxSumN shape d (fun x => G x * fdAxisN den (tbl m p) shape a 0 dx F x)
      = - boxSumN shape d
          (fun x => F x * fdAxisN den (tbl (adjMethod m) (adjPad p)) shape a 0 dx G x) := by
  have key := boxSumN_lift_pair shape d a ha (fd den (tbl m p) (shape a) 0 dx)
    (fd den (tbl (adjMethod m) (adjPad p)) (shape a) 0 dx)
    (fun f g => by
      rw [sum_add_distrib, C13.fd_adjoint_transpose m p (shape a) h h' dx f g]; ring) F G
  rw [boxSumN_add] at key
  exact eq_neg_of_add_eq_zero_left key

example (F G : IdxN → ℚ) :
    boxSumN (fun a => a + 2) 5 (fun x => G x *
        fdAxisN den (tbl .forward .order2Adj) (fun a => a + 2) 3 0 (1 / 2) F x)
      = - boxSumN (fun a => a + 2) 5 (fun x => F x *
        fdAxisN den (tbl .backward .order2) (fun a => a + 2) 3 0 (1 / 2) G x) :=
  C13.pdN_adjoint .forward .order2Adj _ 5 3 (by omega) (by decide) (by decide) _ F G

/-- `Divergence._call` for any ndim: the executed in-order accumulation (`out = tmp₀;
out += tmpₐ`) is the sum over the axes of `finite_diff` of component `a` along axis `a`. -/
theorem C13.divergenceN_eq_sum {K : Type} [Field K] (t : Table) (shape : Nat → Nat) (d : Nat)
    (c : K) (dx : Nat → K) (H : Nat → IdxN → K) (x : IdxN) :
    divergenceN den t shape d c dx H x
      = ∑ a ∈ range d, fdAxisN den t shape a c (dx a) (H a) x :=
  foldl_add_eq_sum _ d

/-- `Gradient.adjoint = −Divergence(_ADJ_METHOD[m], _ADJ_PADDING[p])` for EVERY ndim `d`
(no `d ≤ 3`): `Σₐ ⟨Hₐ, (∇F)ₐ⟩ = −⟨F, div' H⟩` over the `d`-dimensional box, with
`divergenceN` the in-order accumulation of `Divergence._call`. -/
theorem C13.gradN_divN_adjoint {K : Type} [Field K] (m : Method) (p : Pad) (shape : Nat → Nat)
    (d : Nat)
    (h : ∀ a < d, sizeCheck guards (tbl m p) p (shape a) = none)
    (h' : ∀ a < d, sizeCheck guards (tbl (adjMethod m) (adjPad p)) (adjPad p) (shape a) = none)
    (dx : Nat → K) (F : IdxN → K) (H : Nat → IdxN → K) :
    ∑ a ∈ range d, boxSumN shape d (fun x => H a x * gradientN den (tbl m p) shape 0 dx F a x)
      = - boxSumN shape d (fun x => F x *
            divergenceN den (tbl (adjMethod m) (adjPad p)) shape d 0 dx H x) := by
  simp only [C13.divergenceN_eq_sum, mul_sum, boxSumN_sum, ← sum_neg_distrib]
  refine sum_congr rfl (fun a ha => ?_)
  have ha := mem_range.1 ha
  exact C13.pdN_adjoint m p shape d a ha (h a ha) (h' a ha) (dx a) F (H a)

example (F : IdxN → ℚ) (H : Nat → IdxN → ℚ) :
    ∑ a ∈ range 4, boxSumN (fun _ => 3) 4 (fun x => H a x *
        gradientN den (tbl .central .order1) (fun _ => 3) 0 (fun a => (a : ℚ) + 1) F a x)
      = - boxSumN (fun _ => 3) 4 (fun x => F x *
        divergenceN den (tbl .central .order1Adj) (fun _ => 3) 4 0 (fun a => (a : ℚ) + 1) H x) :=
  C13.gradN_divN_adjoint .central .order1 _ 4 (fun _ _ => by decide) (fun _ _ => by decide) _ F H

/-- `Divergence.adjoint = −Gradient(_ADJ_METHOD[m], _ADJ_PADDING[p])` for EVERY ndim `d`. -/
theorem C13.divN_gradN_adjoint {K : Type} [Field K] (m : Method) (p : Pad) (shape : Nat → Nat)
    (d : Nat)
    (h : ∀ a < d, sizeCheck guards (tbl m p) p (shape a) = none)
    (h' : ∀ a < d, sizeCheck guards (tbl (adjMethod m) (adjPad p)) (adjPad p) (shape a) = none)
    (dx : Nat → K) (G : IdxN → K) (H : Nat → IdxN → K) :
    boxSumN shape d (fun x => G x * divergenceN den (tbl m p) shape d 0 dx H x)
      = - ∑ a ∈ range d, boxSumN shape d
          (fun x => H a x * gradientN den (tbl (adjMethod m) (adjPad p)) shape 0 dx G a x) := by
  simp only [C13.divergenceN_eq_sum, mul_sum, boxSumN_sum, ← sum_neg_distrib]
  refine sum_congr rfl (fun a ha => ?_)
  have ha := mem_range.1 ha
  exact C13.pdN_adjoint m p shape d a ha (h a ha) (h' a ha) (dx a) (H a) G

example (G : IdxN → ℚ) (H : Nat → IdxN → ℚ) :
    boxSumN (fun _ => 2) 6 (fun x => G x *
        divergenceN den (tbl .backward .symmetricAdj) (fun _ => 2) 6 0 (fun _ => 1 / 2) H x)
      = - ∑ a ∈ range 6, boxSumN (fun _ => 2) 6 (fun x => H a x *
        gradientN den (tbl .forward .symmetric) (fun _ => 2) 0 (fun _ => 1 / 2) G a x) :=
  C13.divN_gradN_adjoint .backward .symmetricAdj _ 6 (fun _ _ => by decide)
    (fun _ _ => by decide) _ G H

/-- `Laplacian.adjoint` (same pad mode, `pad_const = 0`) is the transpose for EVERY ndim `d`,
every shape with all axes `≥ 2`, every accepted pad mode; `laplacianN` is the executed
accumulation `out += fwd; out -= bwd` per axis with `dx²`. -/
theorem C13.laplacianN_selfadjoint {K : Type} [Field K] (p : Pad) (hp : p ∉ lapRejected)
    (shape : Nat → Nat) (d : Nat) (hs : ∀ a < d, 2 ≤ shape a)
    (dx : Nat → K) (F G : IdxN → K) :
    boxSumN shape d (fun x => G x *
        laplacianN den (tbl .forward p) (tbl .backward p) shape d 0 dx F x)
      = boxSumN shape d (fun x => F x *
        laplacianN den (tbl .forward p) (tbl .backward p) shape d 0 dx G x) := by
  have e : ∀ a < d, boxSumN shape d (fun x => G x *
        (fdAxisN den (tbl .forward p) shape a 0 (dx a * dx a) F x
          - fdAxisN den (tbl .backward p) shape a 0 (dx a * dx a) F x))
      = boxSumN shape d (fun x => F x *
        (fdAxisN den (tbl .forward p) shape a 0 (dx a * dx a) G x
          - fdAxisN den (tbl .backward p) shape a 0 (dx a * dx a) G x)) := by
    intro a ha
    have key := boxSumN_lift_pair shape d a ha
      (fun f i => fd den (tbl .forward p) (shape a) 0 (dx a * dx a) f i
        - fd den (tbl .backward p) (shape a) 0 (dx a * dx a) f i)
      (fun f i => -(fd den (tbl .forward p) (shape a) 0 (dx a * dx a) f i
        - fd den (tbl .backward p) (shape a) 0 (dx a * dx a) f i))
      (fun f g => by
        have := C13.laplacian1_selfadjoint p hp (shape a) (hs a ha) (dx a * dx a) f g
        simp only [mul_neg, ← sub_eq_add_neg, sum_sub_distrib]
        rw [this]; ring) F G
    simp only [mul_neg] at key
    rw [boxSumN_add, boxSumN_neg] at key
    exact eq_of_sub_eq_zero (by rw [sub_eq_add_neg]; exact key)
  simp only [laplacianN, foldl_add_sub_eq_sum, mul_sum, boxSumN_sum]
  exact sum_congr rfl (fun a ha => e a (mem_range.1 ha))

example (F G : IdxN → ℚ) :
    boxSumN (fun a => a + 2) 4 (fun x => G x *
        laplacianN den (tbl .forward .order0Adj) (tbl .backward .order0Adj) (fun a => a + 2) 4 0
          (fun _ => 2) F x)
      = boxSumN (fun a => a + 2) 4 (fun x => F x *
        laplacianN den (tbl .forward .order0Adj) (tbl .backward .order0Adj) (fun a => a + 2) 4 0
          (fun _ => 2) G x) :=
  C13.laplacianN_selfadjoint .order0Adj (by decide) _ 4 (fun a _ => by omega) _ F G

/-- Any-ndim form of `fd_eq_stencil_ext`: `PartialDerivative` / each `Gradient` component at
multi-index `x` is the textbook stencil on the padded LINE through `x` along the axis. -/
theorem C13.pdN_eq_stencil_ext {K : Type} [Field K] [CharZero K] (m : Method) (p : Pad)
    (hp : stencilCase m p = true) (shape : Nat → Nat) (a : Nat) (hn : nMin p ≤ shape a)
    (c dx : K) (F : IdxN → K) (x : IdxN) (hx : x a < shape a) :
    fdAxisN den (tbl m p) shape a c dx F x
      = stencil m (padded p (shape a) c (fun q => F (x.set a q))) (x a) / dx :=
  C13.fd_eq_stencil_ext m p hp (shape a) hn c dx _ _ hx

/-- `Laplacian` on an array of ANY ndim `d` equals the sum over the `d` axes of the textbook
second difference `(E[i+1] − 2E[i] + E[i−1]) / dxₐ²` of the padded line (extension pad modes,
any `pad_const`). -/
theorem C13.laplacianN_eq_second_difference {K : Type} [Field K] [CharZero K] (p : Pad)
    (hp : p = .constant ∨ p = .symmetric ∨ p = .periodic ∨ p = .order0)
    (shape : Nat → Nat) (d : Nat) (hs : ∀ a < d, 2 ≤ shape a)
    (c : K) (dx : Nat → K) (F : IdxN → K) (x : IdxN) (hx : ∀ a < d, x a < shape a) :
    laplacianN den (tbl .forward p) (tbl .backward p) shape d c dx F x
      = ∑ a ∈ range d,
          (padded p (shape a) c (fun q => F (x.set a q)) (x a + 2)
            - 2 * padded p (shape a) c (fun q => F (x.set a q)) (x a + 1)
            + padded p (shape a) c (fun q => F (x.set a q)) (x a)) / (dx a * dx a) := by
  simp only [laplacianN, foldl_add_sub_eq_sum]
  refine sum_congr rfl (fun a ha => ?_)
  have ha := mem_range.1 ha
  have hn : nMin p ≤ shape a := by
    have := hs a ha
    rcases hp with rfl | rfl | rfl | rfl <;> simpa [nMin] using this
  have hf : stencilCase .forward p = true := by rcases hp with rfl | rfl | rfl | rfl <;> rfl
  have hb : stencilCase .backward p = true := by rcases hp with rfl | rfl | rfl | rfl <;> rfl
  rw [C13.pdN_eq_stencil_ext .forward p hf shape a hn c _ F x (hx a ha),
    C13.pdN_eq_stencil_ext .backward p hb shape a hn c _ F x (hx a ha)]
  simp only [stencil]; ring

example (F : IdxN → ℚ) :
    laplacianN den (tbl .forward .constant) (tbl .backward .constant) (fun _ => 3) 5 7
        (fun _ => 1 / 2) F (fun _ => 1)
      = ∑ a ∈ range 5,
          (padded .constant 3 7 (fun q => F (IdxN.set (fun _ => 1) a q)) (1 + 2)
            - 2 * padded .constant 3 7 (fun q => F (IdxN.set (fun _ => 1) a q)) (1 + 1)
            + padded .constant 3 7 (fun q => F (IdxN.set (fun _ => 1) a q)) 1)
              / ((1 / 2 : ℚ) * (1 / 2)) :=
  C13.laplacianN_eq_second_difference .constant (Or.inl rfl) _ 5 (fun _ _ => by omega) 7 _ F _
    (fun _ _ => by omega)


/-! ### ROUND 4: `.adjoint` / `.derivative` read from the source (`adjSpec`, `derivSpec`)

Until round 3 the four `return [-]Cls(…)` expressions of `.adjoint` and the four bodies of
`.derivative` were hand-written in `Op.adjoint` / `Op.derivative` and pinned as text.  Now the
translator reads them into `Gen.adjSpec` / `Gen.derivSpec`; `Op.adjointBy` / `Op.derivativeBy`
interpret the data, are executed by the driver's `cfgg` op and compared with the objects
`op.adjoint` / `op.derivative(x)` of the real classes (branches `cfgg/…`).  The theorems below
are about THAT executed definition and use of the spec only what they need (`_ADJ_METHOD`,
`_ADJ_PADDING`, the minus sign): an edit that, say, passes `pad_const` on in
`Divergence.adjoint` is re-proved, one that drops the sign or a table lookup is refuted. -/

/-- the class an adjoint must be of (textbook pairing, written down independently) -/
def OdlModel.C13.partner : Kind → Kind
  | .pd => .pd | .grad => .div | .div => .grad | .lap => .lap

/-- The instance `Op.adjointBy` builds from the GENERATED `adjSpec` (executed by `cfgg
act=adjoint`) IS minus the transpose of the instance's 1-d action, for EVERY linear
PartialDerivative / Gradient / Divergence instance (any carried `pad_const`), every `n` on which
both leaves run; it has the flipped sign flag and the partner class (pd ↦ pd, grad ↦ div,
div ↦ grad). -/
theorem C13.op_adjointBy_is_transpose {K : Type} [Field K] [DecidableEq K] (o : Op K)
    (hk : o.kind ≠ .lap) (hl : o.isLinear affineAware = true) (n : Nat)
    (h : sizeCheck guards (tbl o.method o.pad) o.pad n = none)
    (h' : sizeCheck guards (tbl (adjMethod o.method) (adjPad o.pad)) (adjPad o.pad) n = none)
    (dx : K) (f g : Nat → K) :
    ∃ a, o.adjointBy affineAware adjGuarded adjSpec adjMethod adjPad = some a ∧
      a.neg = !o.neg ∧
      a.kind = partner o.kind ∧
      ∑ i ∈ range n, g i * fd den (tbl o.method o.pad) n o.c dx f i
        = - ∑ j ∈ range n, f j * fd den (tbl a.method a.pad) n a.c dx g j := by
  obtain ⟨k, m, p, c, neg⟩ := o
  have key := C13.fd_adjoint_transpose m p n h h' dx f g
  have hcp : adjPad p = .constant ↔ p = .constant := by cases p <;> decide
  have hc0 : p = .constant → c = 0 := by
    intro hp; cases k <;> simp_all [Op.isLinear, affineAware]
  have e1 : ∀ i, fd den (tbl m p) n c dx f i = fd den (tbl m p) n 0 dx f i := by
    intro i
    by_cases hp : p = .constant
    · rw [hc0 hp]
    · exact C13.pad_const_ignored_unless_constant m p hp n c dx f i
  have e2 : ∀ c' : K, (c' = c ∨ c' = 0) → ∀ j, fd den (tbl (adjMethod m) (adjPad p)) n c' dx g j
      = fd den (tbl (adjMethod m) (adjPad p)) n 0 dx g j := by
    intro c' hc' j
    by_cases hp : p = .constant
    · rcases hc' with rfl | rfl <;> simp [hc0 hp]
    · exact C13.pad_const_ignored_unless_constant _ _ (fun hh => hp (hcp.1 hh)) n c' dx g j
  -- what is used of the generated spec: both table lookups and the sign (decided on Gen)
  have hs : (adjSpec k).adjM = true ∧ (adjSpec k).adjP = true ∧ (adjSpec k).neg = true ∧
      (adjSpec k).kind = partner k := by
    cases k <;> first | exact absurd rfl hk | decide
  have hg : (adjGuarded k && !(Op.isLinear affineAware (⟨k, m, p, c, neg⟩ : Op K))) = false := by
    simp only [hl]; simp
  refine ⟨⟨(adjSpec k).kind, adjMethod m, adjPad p, if (adjSpec k).keepC then c else 0, !neg⟩,
    ?_, rfl, hs.2.2.2, ?_⟩
  · simp only [Op.adjointBy, hg, hs.1, hs.2.1, hs.2.2.1]; simp
  · simp only [e1, key]
    by_cases hkc : (adjSpec k).keepC = true
    · simp only [hkc, if_true, e2 c (Or.inl rfl)]
    · simp only [hkc]; simp

example (f g : Nat → ℚ) : ∃ a, (⟨.div, .forward, .order1, (3 : ℚ), false⟩ : Op ℚ).adjointBy
      affineAware adjGuarded adjSpec adjMethod adjPad = some a ∧ a.neg = true ∧ a.kind = .grad ∧
    ∑ i ∈ range 4, g i * fd den (tbl .forward .order1) 4 3 (1 / 2) f i
      = - ∑ j ∈ range 4, f j * fd den (tbl a.method a.pad) 4 a.c (1 / 2) g j := by
  simpa [partner] using C13.op_adjointBy_is_transpose (⟨.div, .forward, .order1, (3 : ℚ), false⟩ : Op ℚ)
    (by decide) (by simp [Op.isLinear, affineAware]) 4 (by decide) (by decide) (1 / 2) f g

/-- `Laplacian.adjoint` as READ from the source (`adjSpec .lap`: same class, same pad mode,
no `_ADJ_PADDING`, no sign, `pad_const` reset): the instance `Op.adjointBy` builds is the
transpose of the 1-d Laplacian action `fwd − bwd`, for every linear instance with an accepted
pad mode and every `n ≥ 2`. -/
theorem C13.lap_adjointBy_is_transpose {K : Type} [Field K] [DecidableEq K] (o : Op K)
    (hk : o.kind = .lap) (hl : o.isLinear affineAware = true) (hp : o.pad ∉ lapRejected)
    (n : Nat) (hn : 2 ≤ n) (dx : K) (f g : Nat → K) :
    ∃ a, o.adjointBy affineAware adjGuarded adjSpec adjMethod adjPad = some a ∧
      a.neg = o.neg ∧ a.kind = .lap ∧ a.isLinear affineAware = true ∧
      ∑ i ∈ range n, g i * (fd den (tbl .forward o.pad) n o.c dx f i
          - fd den (tbl .backward o.pad) n o.c dx f i)
        = ∑ j ∈ range n, f j * (fd den (tbl .forward a.pad) n a.c dx g j
          - fd den (tbl .backward a.pad) n a.c dx g j) := by
  obtain ⟨k, m, p, c, neg⟩ := o
  simp only at hk hp; subst hk
  have hc0 : p = .constant → c = 0 := by
    intro hp'; simp_all [Op.isLinear, affineAware]
  have e1 : ∀ (mm : Method) i, fd den (tbl mm p) n c dx f i = fd den (tbl mm p) n 0 dx f i := by
    intro mm i
    by_cases hp' : p = .constant
    · rw [hc0 hp']
    · exact C13.pad_const_ignored_unless_constant mm p hp' n c dx f i
  have hg : (adjGuarded .lap && !(Op.isLinear affineAware (⟨.lap, m, p, c, neg⟩ : Op K)))
      = false := by simp only [hl]; simp
  refine ⟨⟨.lap, m, p, 0, neg⟩, ?_, rfl, rfl, by simp [Op.isLinear, affineAware], ?_⟩
  · simp only [Op.adjointBy, hg]; simp [adjSpec]
  · simp only [e1]
    exact C13.laplacian1_selfadjoint p hp n hn dx f g

example (f g : Nat → ℚ) : ∃ a, (⟨.lap, .forward, .symmetric, (5 : ℚ), false⟩ : Op ℚ).adjointBy
      affineAware adjGuarded adjSpec adjMethod adjPad = some a ∧ a.neg = false ∧ a.kind = .lap ∧
      a.isLinear affineAware = true ∧
    ∑ i ∈ range 3, g i * (fd den (tbl .forward .symmetric) 3 5 2 f i
          - fd den (tbl .backward .symmetric) 3 5 2 f i)
      = ∑ j ∈ range 3, f j * (fd den (tbl .forward a.pad) 3 a.c 2 g j
          - fd den (tbl .backward a.pad) 3 a.c 2 g j) := by
  simpa using C13.lap_adjointBy_is_transpose (⟨.lap, .forward, .symmetric, (5 : ℚ), false⟩ : Op ℚ)
    rfl (by simp [Op.isLinear, affineAware]) (by decide) 3 (by decide) 2 f g

/-- The instance `Op.derivativeBy` builds from the GENERATED `derivSpec` (executed by `cfgg
act=derivative`, compared with `op.derivative(x)`) IS the derivative of the instance's 1-d
action, for every instance of every class: `D_o(f+h) − D_o(f) = D_{o'}(h)`; `o'` is of the
same class, flagged linear, and its own derivative. -/
theorem C13.op_derivativeBy_is_derivative {K : Type} [Field K] [DecidableEq K] (o : Op K)
    (n : Nat) (hn : 2 ≤ n) (dx : K) (f h : Nat → K) (i : Nat) :
    let o' := o.derivativeBy derivSpec
    (fd den (tbl o.method o.pad) n o.c dx (fun k => f k + h k) i
        - fd den (tbl o.method o.pad) n o.c dx f i
      = fd den (tbl o'.method o'.pad) n o'.c dx h i) ∧
    o'.kind = o.kind ∧ o'.isLinear affineAware = true ∧ o'.derivativeBy derivSpec = o' := by
  have base := C13.op_derivative_is_derivative o n hn dx f h i
  have e0 : ∀ o : Op K, o.derivativeBy derivSpec = o.derivative := by
    rintro ⟨k, m, p, c, neg⟩
    cases k <;> simp [Op.derivativeBy, Op.derivative, derivSpec]
  have e := e0 o
  have e' := e0 o.derivative
  have hkind : o.derivative.kind = o.kind := by
    obtain ⟨k, m, p, c, neg⟩ := o
    simp only [Op.derivative]; split_ifs <;> rfl
  simp only [e, e']
  exact ⟨base.1, hkind, base.2.1, base.2.2⟩

example : (⟨.grad, .backward, .constant, (3 : ℚ), false⟩ : Op ℚ).derivativeBy derivSpec
    = ⟨.grad, .backward, .constant, 0, false⟩ := by
  simp [Op.derivativeBy, derivSpec]


/-! ### ROUND 4: from plain sums to the inner product of the space

`innerN` is the executed model of `DiscretizedSpace.inner` on `uniform_discr` (driver op
`inner`, compared exactly with `x.inner(y)`, real and complex, with and without
`nodes_on_bdry`, stream `inner/…`): `Σ weight·x·conj(y)`, weight = product of the cell sizes
of the point, `axisWeight bdry` halving the first and last cell of an axis for
`nodes_on_bdry=True`.  Until round 3 the step "transpose for plain sums ⇒ adjoint for the space
inner product" was an argument in prose. -/

/-- On a uniformly weighted space (`uniform_discr` without `nodes_on_bdry`, any cell sides `ω`,
any ndim `d`, real or complex: `σ` = conjugation fixing the real `dx`) the operator
`PartialDerivative.adjoint` returns IS the adjoint for the space's inner product:
`⟨∂ₐF, G⟩ = ⟨F, −∂ₐ'G⟩` with `innerN` the executed inner product. -/
theorem C13.pdN_adjoint_inner {K : Type} [Field K] (σ : K →+* K) (m : Method) (p : Pad)
    (shape : Nat → Nat) (d a : Nat) (ha : a < d)
    (h : sizeCheck guards (tbl m p) p (shape a) = none)
    (h' : sizeCheck guards (tbl (adjMethod m) (adjPad p)) (adjPad p) (shape a) = none)
    (dx : K) (hdx : σ dx = dx) (ω : Nat → K) (F G : IdxN → K) :
    innerN (axisWeight false shape ω) shape d σ (fdAxisN den (tbl m p) shape a 0 dx F) G
      = - innerN (axisWeight false shape ω) shape d σ F
          (fdAxisN den (tbl (adjMethod m) (adjPad p)) shape a 0 dx G) := by
  have hn : 2 ≤ shape a := le_trans (tbl _ _).two_le_need (sizeCheck_none h')
  rw [innerN_uniform, innerN_uniform, ← mul_neg]
  congr 1
  have key := C13.pdN_adjoint m p shape d a ha h h' dx F (fun y => σ (G y))
  have e : ∀ x, fdAxisN den (tbl (adjMethod m) (adjPad p)) shape a 0 dx (fun y => σ (G y)) x
      = σ (fdAxisN den (tbl (adjMethod m) (adjPad p)) shape a 0 dx G x) := fun x =>
    C13.fd_map σ _ (shape a) hn dx hdx (fun k => G (x.set a k)) (x a)
  simp only [e] at key
  rw [← key]
  unfold boxSumN
  congr 1
  funext x
  exact mul_comm _ _

example (F G : IdxN → ℚ) :
    innerN (axisWeight false (fun _ => 3) (fun a => (a : ℚ) + 1 / 2)) (fun _ => 3) 4
        (RingHom.id ℚ) (fdAxisN den (tbl .backward .order1Adj) (fun _ => 3) 2 0 (5 / 2) F) G
      = - innerN (axisWeight false (fun _ => 3) (fun a => (a : ℚ) + 1 / 2)) (fun _ => 3) 4
        (RingHom.id ℚ) F (fdAxisN den (tbl .forward .order1) (fun _ => 3) 2 0 (5 / 2) G) :=
  C13.pdN_adjoint_inner (RingHom.id ℚ) .backward .order1Adj _ 4 2 (by omega) (by decide)
    (by decide) _ rfl _ F G

/-- `Gradient.adjoint = −Divergence(…)` for the inner products of the spaces (domain
`uniform_discr` without `nodes_on_bdry`, range its unweighted power space, whose inner product
is the sum of the component inner products), every ndim. -/
theorem C13.gradN_divN_adjoint_inner {K : Type} [Field K] (σ : K →+* K) (m : Method) (p : Pad)
    (shape : Nat → Nat) (d : Nat)
    (h : ∀ a < d, sizeCheck guards (tbl m p) p (shape a) = none)
    (h' : ∀ a < d, sizeCheck guards (tbl (adjMethod m) (adjPad p)) (adjPad p) (shape a) = none)
    (dx : Nat → K) (hdx : ∀ a < d, σ (dx a) = dx a) (ω : Nat → K) (F : IdxN → K)
    (H : Nat → IdxN → K) :
    ∑ a ∈ range d, innerN (axisWeight false shape ω) shape d σ
        (gradientN den (tbl m p) shape 0 dx F a) (H a)
      = - innerN (axisWeight false shape ω) shape d σ F
          (divergenceN den (tbl (adjMethod m) (adjPad p)) shape d 0 dx H) := by
  have e : ∀ a ∈ range d, innerN (axisWeight false shape ω) shape d σ
        (gradientN den (tbl m p) shape 0 dx F a) (H a)
      = - innerN (axisWeight false shape ω) shape d σ F
          (fdAxisN den (tbl (adjMethod m) (adjPad p)) shape a 0 (dx a) (H a)) := fun a ha =>
    C13.pdN_adjoint_inner σ m p shape d a (mem_range.1 ha) (h a (mem_range.1 ha))
      (h' a (mem_range.1 ha)) (dx a) (hdx a (mem_range.1 ha)) ω F (H a)
  rw [sum_congr rfl e, sum_neg_distrib]
  congr 1
  simp only [innerN_uniform, C13.divergenceN_eq_sum, map_sum, mul_sum, boxSumN_sum]

example (F : IdxN → ℚ) (H : Nat → IdxN → ℚ) :
    ∑ a ∈ range 3, innerN (axisWeight false (fun _ => 2) (fun _ => (1 / 2 : ℚ))) (fun _ => 2) 3
        (RingHom.id ℚ) (gradientN den (tbl .forward .symmetric) (fun _ => 2) 0 (fun _ => 1 / 2)
          F a) (H a)
      = - innerN (axisWeight false (fun _ => 2) (fun _ => (1 / 2 : ℚ))) (fun _ => 2) 3
        (RingHom.id ℚ) F (divergenceN den (tbl .backward .symmetricAdj) (fun _ => 2) 3 0
          (fun _ => 1 / 2) H) :=
  C13.gradN_divN_adjoint_inner (RingHom.id ℚ) .forward .symmetric _ 3 (fun _ _ => by decide)
    (fun _ _ => by decide) _ (fun _ _ => rfl) _ F H

/-- Counterexample (open finding F60 of C05, here as a theorem about the executed model): on
`uniform_discr(0, 3, 4, nodes_on_bdry=True)` (cell sizes 1/2, 1, 1, 1/2) with
`PartialDerivative(method='central', pad_mode='constant')`, `⟨A e₀, e₁⟩ = −1/2` but
`⟨e₀, A* e₁⟩ = −1/4` for the operator `A* = −PartialDerivative(_ADJ_METHOD, _ADJ_PADDING)`
the code returns: the returned operator is the transpose, NOT the adjoint for that space's
inner product.  `pdN_adjoint_inner` cannot be extended to `axisWeight true`. -/
theorem C13.pd_adjoint_inner_fails_nodes_on_bdry :
    innerN (axisWeight true (fun _ => 4) (fun _ => (1 : ℚ))) (fun _ => 4) 1 id
        (fdAxisN den (tbl .central .constant) (fun _ => 4) 0 0 1
          (fun x => if x 0 = 0 then 1 else 0))
        (fun x => if x 0 = 1 then 1 else 0) = -1 / 2 ∧
    - innerN (axisWeight true (fun _ => 4) (fun _ => (1 : ℚ))) (fun _ => 4) 1 id
        (fun x => if x 0 = 0 then 1 else 0)
        (fdAxisN den (tbl (adjMethod .central) (adjPad .constant)) (fun _ => 4) 0 0 1
          (fun x => if x 0 = 1 then 1 else 0)) = -1 / 4 := by
  constructor <;>
  · simp [innerN, sumAxesL, cellWeight, axisWeight, fdAxisN, fd, fdNum, interior, assign, tbl,
      adjMethod, adjPad, evalTerms, evalTerm, den, IdxN.set, List.range_succ, Corner.pos]
    try norm_num


/-! ### ROUND 5: the loops over the axes read from the source (`accProg`) -/

/-- `Gradient._call`: the loop over the axes READ from the source (`accProg .grad`: per pass one
`finite_diff(x_arr, axis, dx[axis], self.method, …)` written into component `axis`), as executed
by the driver's `ndn op=grad` (`loopCompN`), is `gradientN` - by construction, decided on the
generated program - so every `…N` theorem about `gradientN` is about the executed loop. -/
theorem C13.gradient_loop_is_model {K : Type} [Field K] (m : Method) (p : Pad)
    (shape : Nat → Nat) (c : K) (dx : Nat → K) (f : IdxN → K) (a : Nat) (x : IdxN) :
    (accProg .grad).perAxis = true ∧
    loopCompN den (fun mm => tbl mm p) m shape c dx f (accProg .grad).steps a x
      = gradientN den (tbl m p) shape c dx f a x := by
  simp [accProg, loopCompN, bodyN, stepValN, gradientN]

/-- `Divergence._call`: the generated loop program (`finite_diff(x[axis], …, out=tmp)`;
`out_arr[:] = tmp` on the first axis, `out_arr += tmp` after) interpreted by `loopAccN`
(executed by `ndn op=div`) is `divergenceN`; by construction on the generated program. -/
theorem C13.divergence_loop_is_model {K : Type} [Field K] (m : Method) (p : Pad)
    (shape : Nat → Nat) (d : Nat) (c : K) (dx : Nat → K) (H : Nat → IdxN → K) (x : IdxN) :
    (accProg .div).perAxis = false ∧
    loopAccN den (fun mm => tbl mm p) m shape d c dx H (accProg .div).steps x
      = divergenceN den (tbl m p) shape d c dx H x := by
  refine ⟨rfl, ?_⟩
  unfold loopAccN divergenceN
  congr 1

/-- `Laplacian._call`: the generated loop program (forward with `dx²`, `+=`; backward with
`dx²`, `-=`; `out` zeroed) interpreted by `loopAccN` (executed by `ndn op=lap`) is
`laplacianN`; by construction on the generated program. -/
theorem C13.laplacian_loop_is_model {K : Type} [Field K] (m : Method) (p : Pad)
    (shape : Nat → Nat) (d : Nat) (c : K) (dx : Nat → K) (f : IdxN → K) (x : IdxN) :
    (accProg .lap).perAxis = false ∧
    loopAccN den (fun mm => tbl mm p) m shape d c dx (fun _ => f) (accProg .lap).steps x
      = laplacianN den (tbl .forward p) (tbl .backward p) shape d c dx f x := by
  refine ⟨rfl, ?_⟩
  unfold loopAccN laplacianN
  congr 1

/-- `Gradient.adjoint = −Divergence(…)` stated directly on the two EXECUTED, generated loops,
every ndim: a semantic edit of either loop that keeps this identity is re-proved, one that
breaks it is refuted (here or in the `…_loop_is_model` steps). -/
theorem C13.loops_grad_div_adjoint {K : Type} [Field K] (m : Method) (p : Pad)
    (shape : Nat → Nat) (d : Nat)
    (h : ∀ a < d, sizeCheck guards (tbl m p) p (shape a) = none)
    (h' : ∀ a < d, sizeCheck guards (tbl (adjMethod m) (adjPad p)) (adjPad p) (shape a) = none)
    (dx : Nat → K) (F : IdxN → K) (H : Nat → IdxN → K) :
    ∑ a ∈ range d, boxSumN shape d (fun x => H a x *
        loopCompN den (fun mm => tbl mm p) m shape 0 dx F (accProg .grad).steps a x)
      = - boxSumN shape d (fun x => F x *
          loopAccN den (fun mm => tbl mm (adjPad p)) (adjMethod m) shape d 0 dx H
            (accProg .div).steps x) := by
  simp only [(C13.gradient_loop_is_model m p shape 0 dx F _ _).2,
    (C13.divergence_loop_is_model (adjMethod m) (adjPad p) shape d 0 dx H _).2]
  exact C13.gradN_divN_adjoint m p shape d h h' dx F H

example (F : IdxN → ℚ) (H : Nat → IdxN → ℚ) :
    ∑ a ∈ range 4, boxSumN (fun _ => 3) 4 (fun x => H a x *
        loopCompN den (fun mm => tbl mm .order2) .central (fun _ => 3) 0 (fun _ => 2) F
          (accProg .grad).steps a x)
      = - boxSumN (fun _ => 3) 4 (fun x => F x *
          loopAccN den (fun mm => tbl mm .order2Adj) .central (fun _ => 3) 4 0 (fun _ => 2) H
            (accProg .div).steps x) :=
  C13.loops_grad_div_adjoint .central .order2 _ 4 (fun _ _ => by decide) (fun _ _ => by decide)
    _ F H


/-! ### ROUND 6: the epilogue `out /= dx` of `finite_diff` read from the source (`dxScale`) -/

/-- The epilogue of `finite_diff` as READ by the translator (`Gen.dxScale`; grammar `out /= E` /
`out *= E`, `E` a power of `dx` or `1 / dx`) divides by `dx` once, and `fdBy dxScale` - the
definition the driver's `fd` / `mat` ops execute against the real `finite_diff` (streams
`fd/…`, `fdvec`, `fdgen`) - is the `fd` all other theorems are about.  By construction, decided
on the generated value: `out *= dx` or `out /= dx ** 2` in the source refute it. -/
theorem C13.fd_epilogue_is_model {K : Type} [Field K] (t : Table) (n : Nat) (c dx : K)
    (f : Nat → K) (i : Nat) :
    dxScale = (true, 1) ∧ fdBy dxScale den t n c dx f i = fd den t n c dx f i := by
  refine ⟨by decide, ?_⟩
  simp [fdBy, dxScale, fd, powN, div_div]

example : fdBy dxScale den (tbl .central .order1) 2 0 (1 / 2 : ℚ) (fun i => (i : ℚ) * 3) 1
    = stencil .central (padded .order1 2 0 (fun i => (i : ℚ) * 3)) 1 / (1 / 2) := by
  rw [(C13.fd_epilogue_is_model _ _ _ _ _ _).2]
  exact C13.fd_eq_stencil_ext .central .order1 rfl 2 (by decide) 0 _ _ 1 (by decide)
