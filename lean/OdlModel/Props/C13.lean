/-
C13 — finite differences equal reference stencils; adjoints are transposes.
Property theorems only.  All tables (`tbl`, `adjMethod`, `adjPad`, `guards`, `methods`,
`pads`, `den`) are the GENERATED ones (`Gen/FiniteDiff.lean`), so these theorems are
re-checked against what `/repo/odl/discr/diff_ops.py` says on every run.
-/
import OdlModel.Model.FiniteDiff
import OdlModel.Gen.FiniteDiff
import OdlModel.Lemmas.FiniteDiff
import Mathlib.Tactic.FieldSimp
import Mathlib.Algebra.CharZero.Defs

open OdlModel.FiniteDiff OdlModel.Gen.FiniteDiff Finset

/-! ### Reference definitions (the specification side) -/

namespace OdlModel.C13

/-- smallest admissible axis length of a pad mode -/
def nMin : Pad → Nat
  | .order2 => 3 | .order2Adj => 3 | _ => 2

section
variable {K : Type} [Field K]

/-- the value the named boundary rule puts in front of `f[0]` -/
def ghostL (p : Pad) (c : K) (f : Nat → K) : K :=
  match p with
  | .constant => c
  | .symmetric => f 0
  | .order0 => f 0
  | .order1 => 2 * f 0 - f 1
  | .order2 => 3 * f 0 - 3 * f 1 + f 2
  | _ => 0
/-- the value the named boundary rule puts behind `f[n-1]` -/
def ghostR (p : Pad) (n : Nat) (c : K) (f : Nat → K) : K :=
  match p with
  | .constant => c
  | .symmetric => f (n - 1)
  | .order0 => f (n - 1)
  | .order1 => 2 * f (n - 1) - f (n - 2)
  | .order2 => 3 * f (n - 1) - 3 * f (n - 2) + f (n - 3)
  | _ => 0
/-- `f` extended by one ghost cell on each side (`np.pad(f, 1, mode)`); entry `k+1` is `f[k]`.
Periodic is stated separately (its ghosts are `f[n-1]`, `f[0]`). -/
def padded (p : Pad) (n : Nat) (c : K) (f : Nat → K) : Nat → K := fun k =>
  if k = 0 then (if p = .periodic then f (n - 1) else ghostL p c f)
  else if k = n + 1 then (if p = .periodic then f 0 else ghostR p n c f)
  else f (k - 1)
/-- textbook difference stencils, row `i` of the padded array `E` (shifted by one) -/
def stencil (m : Method) (E : Nat → K) (i : Nat) : K :=
  match m with
  | .forward => E (i + 2) - E (i + 1)
  | .backward => E (i + 1) - E i
  | .central => (E (i + 2) - E i) / 2
end

def stencilCase (m : Method) (p : Pad) : Bool :=
  match p with
  | .constant | .symmetric | .periodic | .order0 | .order1 => true
  | .order2 => m == .central
  | _ => false

end OdlModel.C13
open OdlModel.C13

/-! ### Tables -/

/-- `_ADJ_METHOD` and `_ADJ_PADDING` are involutions, and every method / pad mode is in the
supported lists (so the adjoint of an adjoint is the operator's own configuration). -/
theorem C13.adj_involutive :
    (∀ m : Method, adjMethod (adjMethod m) = m) ∧ (∀ p : Pad, adjPad (adjPad p) = p) ∧
    (∀ m : Method, m ∈ methods) ∧ (∀ p : Pad, p ∈ pads) := by
  refine ⟨?_, ?_, ?_, ?_⟩ <;> intro x <;> cases x <;> decide

/-- Smallest admissible axis length: `finite_diff` runs without raising (neither its own
`ValueError` guards nor an `IndexError` from a boundary statement) exactly for `n ≥ 2`, and
`n ≥ 3` for `order2` / `order2_adjoint`.  All theorems below hold down to that size. -/
theorem C13.size_ok_iff (m : Method) (p : Pad) (n : Nat) :
    sizeCheck guards (tbl m p) p n = none ↔ nMin p ≤ n := by
  cases m <;> cases p <;>
    simp [sizeCheck, guards, tbl, Table.need, Table.corners, Corner.need, nMin] <;>
    split_ifs <;> simp <;> omega


/-! ### Stencils -/

/-- For every method and every non-adjoint pad mode whose rule is an extension of the array
(`constant` with any `pad_const`, `symmetric`, `periodic`, `order0`, `order1`; `order2` with
`central`), every axis length `n ≥ n_min`, every input, every `dx`: row `i` of what
`finite_diff` computes (interior band, boundary statements in program order, `/= dx`) is the
textbook stencil of the method applied to the array extended by one ghost cell per side. -/
theorem C13.fd_eq_stencil_ext {K : Type} [Field K] [CharZero K] (m : Method) (p : Pad)
    (hp : stencilCase m p = true) (n : Nat) (hn : nMin p ≤ n) (c dx : K) (f : Nat → K)
    (i : Nat) (hi : i < n) :
    fd den (tbl m p) n c dx f i = stencil m (padded p n c f) i / dx := by
  have h2 : 2 ≤ n := by cases p <;> simp [nMin] at hn <;> omega
  have h2K : (2 : K) ≠ 0 := by
    have := (Nat.cast_injective (R := K)).ne (show (2 : ℕ) ≠ 0 by decide)
    exact_mod_cast this
  unfold fd
  rw [fdNum_closed _ n h2 c f i]
  obtain ⟨k, rfl⟩ : ∃ k, n = k + 2 := ⟨n - 2, by omega⟩
  by_cases hdx : dx = 0
  · simp [hdx]
  rcases (show i = 0 ∨ i = k + 1 ∨ (1 ≤ i ∧ i ≤ k) by omega) with rfl | rfl | ⟨ha, hb⟩
  · cases m <;> cases p <;> simp [stencilCase] at hp <;>
      simp [tbl, accSum, evalTerms, evalTerm, interior, padded, stencil, ghostL, ghostR, den,
        Corner.pos] <;> field_simp <;> ring
  · cases m <;> cases p <;> simp [stencilCase] at hp <;>
      simp [tbl, accSum, evalTerms, evalTerm, interior, padded, stencil, ghostL, ghostR, den,
        Corner.pos] <;> field_simp <;> ring
  · have e1 : i ≠ 0 := by omega
    have e2 : i ≠ k + 1 := by omega
    have e3 : i + 2 ≤ k + 2 := by omega
    have e4 : ¬ (i + 1 = k + 2) := by omega
    have e5 : ¬ (i = k + 3) := by omega
    have e6 : ¬ (i = k + 2 + 1) := by omega
    have e7 : ¬ (i = k + 2) := by omega
    cases m <;> cases p <;> simp [stencilCase] at hp <;>
      simp [tbl, accSum, evalTerms, evalTerm, interior, padded, stencil, ghostL, ghostR, den,
        Corner.pos, e1, e2, e3, e4, e5, e6, e7, ha] <;> field_simp <;> ring

example : fd den (tbl .central .order1) 2 0 (1 : ℚ) (fun i => (i : ℚ) * 3) 1
    = stencil .central (padded .order1 2 0 (fun i => (i : ℚ) * 3)) 1 / 1 :=
  C13.fd_eq_stencil_ext .central .order1 rfl 2 (by decide) 0 1 _ 1 (by decide)

/-! ### Adjoints -/

/-- For each of the 30 `(method, pad_mode)` leaves, the leaf the code selects for the adjoint
(`_ADJ_METHOD`, `_ADJ_PADDING`) passes the verified corner checker: bands are minus-reversed
and the bilinear corner form left by summation by parts cancels formally. -/
theorem C13.adj_tables_transposed (m : Method) (p : Pad) :
    adjOK (tbl m p) (tbl (adjMethod m) (adjPad p)) = true := by
  cases m <;> cases p <;> decide


/-- The operator the code returns as adjoint is exactly minus the transpose, for every
method, every pad mode (adjoint modes included), EVERY axis length on which both run, all
inputs: `Σᵢ gᵢ·(D f)ᵢ = − Σⱼ fⱼ·(D' g)ⱼ` with `D' = finite_diff(_ADJ_METHOD[m],
_ADJ_PADDING[p])`; the sign is the `-` in `PartialDerivative.adjoint`. -/
theorem C13.fd_adjoint_transpose {K : Type} [Field K] (m : Method) (p : Pad) (n : Nat)
    (h : sizeCheck guards (tbl m p) p n = none)
    (h' : sizeCheck guards (tbl (adjMethod m) (adjPad p)) (adjPad p) n = none)
    (dx : K) (f g : Nat → K) :
    ∑ i ∈ range n, g i * fd den (tbl m p) n 0 dx f i
      = - ∑ j ∈ range n, f j * fd den (tbl (adjMethod m) (adjPad p)) n 0 dx g j := by
  have hn := sizeCheck_none h
  have hn' := sizeCheck_none h'
  obtain ⟨k, rfl⟩ : ∃ k, n = k + 2 := ⟨n - 2, by have := (tbl m p).two_le_need; omega⟩
  have key := pair_adjoint (K := K) _ _ (C13.adj_tables_transposed m p) k f g
    ((tbl m p).accs_fit hn) ((tbl _ _).accs_fit hn')
  simp only [fd, div_eq_mul_inv, ← mul_assoc, ← Finset.sum_mul]
  rw [eq_neg_iff_add_eq_zero, ← add_mul, key, zero_mul]
