/-
C13 — finite differences equal reference stencils; adjoints are transposes.
Property theorems only.  All tables (`tbl`, `adjMethod`, `adjPad`, `guards`, `methods`,
`pads`, `den`) are the GENERATED ones (`Gen/FiniteDiff.lean`), so these theorems are
re-checked against what `/repo/odl/discr/diff_ops.py` says on every run.
-/
import OdlModel.Model.FiniteDiff
import OdlModel.Gen.FiniteDiff

open OdlModel.FiniteDiff OdlModel.Gen.FiniteDiff

/-- `_ADJ_METHOD` and `_ADJ_PADDING` are involutions, and every method / pad mode is in the
supported lists (so the adjoint of an adjoint is the operator's own configuration). -/
theorem C13.adj_involutive :
    (∀ m : Method, adjMethod (adjMethod m) = m) ∧ (∀ p : Pad, adjPad (adjPad p) = p) ∧
    (∀ m : Method, m ∈ methods) ∧ (∀ p : Pad, p ∈ pads) := by
  refine ⟨?_, ?_, ?_, ?_⟩ <;> intro x <;> cases x <;> decide
