/-
C05 — every exposed adjoint satisfies ⟨Ax, y⟩_ran = ⟨x, A*y⟩_dom in the spaces' own
(weighted, sesquilinear) inner products.  Property theorems only.

Setting of all theorems: `K` an arbitrary field with a ring involution `cj` (conjugation;
`cj = id` for real scalars), `I : K` the imaginary unit where one is needed.  Spaces have
arbitrary sizes and arbitrary per-entry weights; trees have arbitrary depth.  The contract
`Pair cj re d r f g` says: `f` maps the carrier of `d` into that of `r`, `g` back, and
`φ ⟨f x, y⟩_r = φ ⟨x, g y⟩_d` for all `x, y` and EVERY additive `φ` (so `φ = id`: the full
complex identity) — only for conjugation-invariant `φ` (`φ = Re`) when `re` holds (operators
between a real and a complex space).
-/
import OdlModel.Model.Adjoint
import OdlModel.Lemmas.Adjoint

open OdlModel.Adjoint Finset

section
variable {K : Type} [Field K] [DecidableEq K]

/-- Leaf soundness as a hypothesis of the tree theorem (discharged by `C05.leaf_sound`). -/
def OdlModel.Adjoint.LeafSound (cj : K →+* K) (I : K) : Prop :=
  ∀ (l : Leaf K) (t' : Impl K), l.WT cj I → l.adj cj I = some t' →
    Pair cj l.needRe l.dom l.ran (l.run cj I) (t'.run cj I)

/-- `adj_sound`, tree part: if every leaf satisfies its adjoint contract then so does every
expression tree built from OperatorSum, OperatorComp (order reversal), Left/RightScalarMult
(conjugated scalar), Left/RightVectorMult (conjugated vector in complex spaces),
FunctionalLeftVectorMult and the block operators of pspace_ops.py (COO transposition) —
structural induction, unbounded depth and sizes. -/
theorem C05.adj_sound_tree (cj : K →+* K) (hcj : ∀ a, cj (cj a) = a) (I : K)
    (hl : LeafSound cj I) (t : Impl K) :
    ∀ t', t.WT cj I → t.adj cj I = some t' →
      Pair cj t.needRe t.dom t.ran (t.run cj I) (t'.run cj I) := by
  induction t with
  | leaf l => intro t' hw ha; exact hl l t' hw ha
  | sum a b iha ihb =>
    intro t' hw ha
    obtain ⟨wa, wb, hd, hr⟩ := hw
    cases ea : a.adj cj I with
    | none => simp [Impl.adj, ea] at ha
    | some a' =>
      cases eb : b.adj cj I with
      | none => simp [Impl.adj, ea, eb] at ha
      | some b' =>
        simp [Impl.adj, ea, eb] at ha; subst ha
        have pa := iha a' wa ea
        have pb := ihb b' wb eb
        simp only [Impl.dom, Impl.ran, Impl.run, Impl.needRe]
        rw [hd, hr] at pb
        refine ⟨fun x hx => mem_add cj (pa.maps x hx) (pb.maps x hx),
          fun y hy => mem_add cj (pa.amaps y hy) (pb.amaps y hy), ?_⟩
        intro φ hφ x y hx hy
        rw [dot_add_left, dot_add_right, map_add, map_add,
          pa.adj φ (fun h => hφ (Or.inl h)) x y hx hy, pb.adj φ (fun h => hφ (Or.inr h)) x y hx hy]
  | comp a b iha ihb =>
    intro t' hw ha
    obtain ⟨wa, wb, hm⟩ := hw
    cases ea : a.adj cj I with
    | none => simp [Impl.adj, ea] at ha
    | some a' =>
      cases eb : b.adj cj I with
      | none => simp [Impl.adj, ea, eb] at ha
      | some b' =>
        simp [Impl.adj, ea, eb] at ha; subst ha
        have pa := iha a' wa ea
        have pb := ihb b' wb eb
        simp only [Impl.dom, Impl.ran, Impl.run, Impl.needRe]
        rw [hm] at pb
        refine ⟨fun x hx => pa.maps _ (pb.maps x hx), fun y hy => pb.amaps _ (pa.amaps y hy), ?_⟩
        intro φ hφ x y hx hy
        rw [pa.adj φ (fun h => hφ (Or.inl h)) _ y (pb.maps x hx) hy,
          pb.adj φ (fun h => hφ (Or.inr h)) x _ hx (pa.amaps y hy)]
  | lscal a s iha =>
    intro t' hw ha
    obtain ⟨wa, hs⟩ := hw
    cases ea : a.adj cj I with
    | none => simp [Impl.adj, ea] at ha
    | some a' =>
      simp [Impl.adj, ea] at ha; subst ha
      have pa := iha a' wa ea
      simp only [Impl.dom, Impl.ran, Impl.run, Impl.needRe]
      refine ⟨fun x hx => mem_smul cj (pa.maps x hx) (fun h => hs (Or.inr (Or.inl h))),
        fun y hy => mem_smul cj (pa.amaps y hy)
          (fun h => by rw [hs (Or.inr (Or.inr h))]; exact hs (Or.inr (Or.inr h))), ?_⟩
      intro φ hφ x y hx hy
      rw [dot_smul_left, dot_smul_right cj hcj]
      have := pa.adj (φ.comp (AddMonoidHom.mulLeft s)) (fun h b => by
        show φ (s * cj b) = φ (s * b)
        have e : s * cj b = cj (s * b) := by rw [map_mul, hs (Or.inl h)]
        rw [e, hφ h]) x y hx hy
      simpa using this
  | rscal a s iha =>
    intro t' hw ha
    obtain ⟨wa, hs⟩ := hw
    cases ea : a.adj cj I with
    | none => simp [Impl.adj, ea] at ha
    | some a' =>
      simp [Impl.adj, ea] at ha; subst ha
      have pa := iha a' wa ea
      simp only [Impl.dom, Impl.ran, Impl.run, Impl.needRe]
      have hsx : ∀ x, mem cj a.dom x → mem cj a.dom (fun j i => s * x j i) :=
        fun x hx => mem_smul cj hx (fun h => hs (Or.inr (Or.inr h)))
      refine ⟨fun x hx => pa.maps _ (hsx x hx),
        fun y hy => mem_smul cj (pa.amaps y hy)
          (fun h => by rw [hs (Or.inr (Or.inr h))]; exact hs (Or.inr (Or.inr h))), ?_⟩
      intro φ hφ x y hx hy
      rw [pa.adj φ hφ _ y (hsx x hx) hy, dot_smul_left, dot_smul_right cj hcj]
  | lvec a v iha =>
    intro t' hw ha
    obtain ⟨wa, hv⟩ := hw
    cases ea : a.adj cj I with
    | none => simp [Impl.adj, ea] at ha
    | some a' =>
      simp [Impl.adj, ea] at ha; subst ha
      have pa := iha a' wa ea
      simp only [Impl.dom, Impl.ran, Impl.run, Impl.needRe]
      have key : ∀ y : El K, (fun j i => y j i * (if a.ran.real = true then v else
          fun j i => cj (v j i)) j i) = fun j i => y j i * cj (v j i) := by
        intro y; funext j i
        by_cases h : a.ran.real = true
        · simp [h, hv h j i]
        · simp [h]
      refine ⟨fun x hx => mem_mul cj (pa.maps x hx) hv,
        fun y hy => pa.amaps _ (by rw [key]; exact mem_mul cj hy (mem_conj cj hv)), ?_⟩
      intro φ hφ x y hx hy
      rw [key, dot_mul_left cj hcj]
      exact pa.adj φ hφ x _ hx (mem_mul cj hy (mem_conj cj hv))
  | rvec a v iha =>
    intro t' hw ha
    obtain ⟨wa, hv⟩ := hw
    cases ea : a.adj cj I with
    | none => simp [Impl.adj, ea] at ha
    | some a' =>
      simp [Impl.adj, ea] at ha; subst ha
      have pa := iha a' wa ea
      simp only [Impl.dom, Impl.ran, Impl.run, Impl.needRe]
      have key : ∀ z : El K, (fun j i => z j i * (if a.dom.real = true then v else
          fun j i => cj (v j i)) j i) = fun j i => z j i * cj (v j i) := by
        intro z; funext j i
        by_cases h : a.dom.real = true
        · simp [h, hv h j i]
        · simp [h]
      refine ⟨fun x hx => pa.maps _ (mem_mul cj hx hv),
        fun y hy => by rw [key]; exact mem_mul cj (pa.amaps y hy) (mem_conj cj hv), ?_⟩
      intro φ hφ x y hx hy
      rw [key, pa.adj φ hφ _ y (mem_mul cj hx hv) hy, dot_mul_left cj hcj]
  | flvec f V F v ihf =>
    intro t' hw ha
    obtain ⟨wf, hF, hFV, hv, hW⟩ := hw
    cases ea : f.adj cj I with
    | none => simp [Impl.adj, ea] at ha
    | some f' =>
      simp [Impl.adj, ea] at ha; subst ha
      have pf := ihf f' wf ea
      simp only [Impl.dom, Impl.ran, Impl.run, Impl.needRe, Leaf.run]
      rw [hF] at pf
      have hip : ∀ y, mem cj V y → mem cj F (fun _ _ => dot cj V y v) := by
        intro y hy h j i
        rw [hFV] at h
        simp only [fieldSpace] at h
        simp only [dot_eq, map_sum, map_mul, hcj, hW _ _, hy h _ _, hv h _ _]
      refine ⟨fun x hx => ?_, fun y hy => pf.amaps _ (hip y hy), ?_⟩
      · intro h j i
        have := pf.maps x hx (by rw [hFV]; exact h) 0 0
        simp [this, hv h j i]
      intro φ hφ x y hx hy
      rw [← pf.adj φ hφ x _ hx (hip y hy)]
      congr 1
      subst hFV
      simp only [dot_eq, fieldSpace, sum_range_one, map_sum, map_mul, hcj, hW _ _, mul_sum, one_mul]
      exact sum_congr rfl fun j _ => sum_congr rfl fun i _ => by ring
  | pnil k d r =>
    intro t' _ ha
    simp [Impl.adj] at ha; subst ha
    simp only [Impl.dom, Impl.ran, Impl.run]
    exact ⟨fun _ _ => mem_zero cj, fun _ _ => mem_zero cj,
      fun φ _ x y _ _ => by rw [dot_zero_left, dot_zero_right]⟩
  | pcons r c a rest iha ihr =>
    intro t' hw ha
    obtain ⟨wa, wr, _, hr, hc, hd, hrn⟩ := hw
    cases ea : a.adj cj I with
    | none => simp [Impl.adj, ea] at ha
    | some a' =>
      cases er : rest.adj cj I with
      | none => simp [Impl.adj, ea, er] at ha
      | some rest' =>
        simp [Impl.adj, ea, er] at ha; subst ha
        have pa := iha a' wa ea
        have pr := ihr rest' wr er
        rw [hd, hrn] at pa
        simp only [Impl.dom, Impl.ran, Impl.run, Impl.needRe]
        have hxc : ∀ x, mem cj rest.dom x → mem cj (rest.dom.comp c) (fun _ i' => x c i') :=
          fun x hx h _ i => hx h c i
        have hyr : ∀ y, mem cj rest.ran y → mem cj (rest.ran.comp r) (fun _ i' => y r i') :=
          fun y hy h _ i => hy h r i
        refine ⟨?_, ?_, ?_⟩
        · intro x hx h j i
          have h1 := pr.maps x hx h j i
          have h2 := pa.maps _ (hxc x hx) h 0 i
          by_cases e : j = r <;> simp [e, h1, h2]
          · subst e; simp [h1]
        · intro y hy h j i
          have h1 := pr.amaps y hy h j i
          have h2 := pa.amaps _ (hyr y hy) h 0 i
          by_cases e : j = c <;> simp [e, h1, h2]
          · subst e; simp [h1]
        · intro φ hφ x y hx hy
          rw [dot_embed_left cj _ r hr, dot_embed_right cj _ c hc, map_add, map_add,
            pr.adj φ (fun h => hφ (Or.inr h)) x y hx hy]
          congr 1
          have := pa.adj φ (fun h => hφ (Or.inl h)) _ _ (hxc x hx) (hyr y hy)
          simp only [dot_comp_eq] at this ⊢
          exact this

end
