/-
C05 — every exposed adjoint satisfies ⟨Ax, y⟩_ran = ⟨x, A*y⟩_dom in the spaces' own
(weighted, sesquilinear) inner products.  Property theorems only.

Setting of all theorems: `K` an arbitrary field with a ring involution `cj` (conjugation;
`cj = id` for real scalars), `I : K` the imaginary unit where one is needed.  Spaces have
arbitrary sizes and arbitrary per-entry weights; trees have arbitrary depth.  The contract
`Pair cj re d r f g` says: `f` maps the carrier of `d` into that of `r`, `g` back, and
`φ ⟨f x, y⟩_r = φ ⟨x, g y⟩_d` for all `x, y` and EVERY additive `φ` (so `φ = id`: the full
complex identity) — only for conjugation-invariant `φ` (`φ = Re`) when `re` holds (operators
between a real and a complex space).
-/
import OdlModel.Model.Adjoint
import OdlModel.Lemmas.Adjoint
import OdlModel.Model.AdjointFD
import OdlModel.Lemmas.AdjointFD
import Mathlib.Algebra.Field.Rat
import Mathlib.Tactic.NormNum.Basic
import Mathlib.Data.Complex.Basic

open OdlModel.Adjoint Finset

section
variable {K : Type} [Field K] [DecidableEq K]

/-- The adjoint contract of one leaf: under the leaf's conditions `WT`, whatever the coded
`.adjoint` returns satisfies `Pair` with the leaf. -/
def OdlModel.Adjoint.LeafOK (cj : K →+* K) (I : K) (l : Leaf K) : Prop :=
  ∀ t' : Impl K, l.WT cj I → l.adj cj I = some t' →
    Pair cj l.needRe l.dom l.ran (l.run cj I) (t'.run cj I)

/-- Leaf soundness as a hypothesis of the tree theorem (discharged by `C05.leaf_sound`). -/
def OdlModel.Adjoint.LeafSound (cj : K →+* K) (I : K) : Prop := ∀ l : Leaf K, LeafOK cj I l

/-- `adj_sound`, tree part: if every leaf satisfies its adjoint contract then so does every
expression tree built from OperatorSum, OperatorComp (order reversal), Left/RightScalarMult
(conjugated scalar), Left/RightVectorMult (conjugated vector in complex spaces),
FunctionalLeftVectorMult and the block operators of pspace_ops.py (COO transposition) —
structural induction, unbounded depth and sizes. -/
theorem C05.adj_sound_tree (cj : K →+* K) (hcj : ∀ a, cj (cj a) = a) (I : K)
    (hl : LeafSound cj I) (t : Impl K) :
    ∀ t', t.WT cj I → t.adj cj I = some t' →
      Pair cj t.needRe t.dom t.ran (t.run cj I) (t'.run cj I) := by
  induction t with
  | leaf l => intro t' hw ha; exact hl l t' hw ha
  | sum a b iha ihb =>
    intro t' hw ha
    obtain ⟨wa, wb, hd, hr⟩ := hw
    cases ea : a.adj cj I with
    | none => simp [Impl.adj, ea] at ha
    | some a' =>
      cases eb : b.adj cj I with
      | none => simp [Impl.adj, ea, eb] at ha
      | some b' =>
        simp [Impl.adj, ea, eb] at ha; subst ha
        have pa := iha a' wa ea
        have pb := ihb b' wb eb
        simp only [Impl.dom, Impl.ran, Impl.run, Impl.needRe]
        rw [hd, hr] at pb
        refine ⟨fun x hx => mem_add cj (pa.maps x hx) (pb.maps x hx),
          fun y hy => mem_add cj (pa.amaps y hy) (pb.amaps y hy), ?_⟩
        intro φ hφ x y hx hy
        rw [dot_add_left, dot_add_right, map_add, map_add,
          pa.adj φ (fun h => hφ (Or.inl h)) x y hx hy, pb.adj φ (fun h => hφ (Or.inr h)) x y hx hy]
  | comp a b iha ihb =>
    intro t' hw ha
    obtain ⟨wa, wb, hm⟩ := hw
    cases ea : a.adj cj I with
    | none => simp [Impl.adj, ea] at ha
    | some a' =>
      cases eb : b.adj cj I with
      | none => simp [Impl.adj, ea, eb] at ha
      | some b' =>
        simp [Impl.adj, ea, eb] at ha; subst ha
        have pa := iha a' wa ea
        have pb := ihb b' wb eb
        simp only [Impl.dom, Impl.ran, Impl.run, Impl.needRe]
        rw [hm] at pb
        refine ⟨fun x hx => pa.maps _ (pb.maps x hx), fun y hy => pb.amaps _ (pa.amaps y hy), ?_⟩
        intro φ hφ x y hx hy
        rw [pa.adj φ (fun h => hφ (Or.inl h)) _ y (pb.maps x hx) hy,
          pb.adj φ (fun h => hφ (Or.inr h)) x _ hx (pa.amaps y hy)]
  | lscal a s iha =>
    intro t' hw ha
    obtain ⟨wa, hs, him⟩ := hw
    cases ea : a.adj cj I with
    | none => simp [Impl.adj, ea] at ha
    | some a' =>
      have pa := iha a' wa ea
      by_cases hi : imK cj I (cj s) = 0
      · -- real scalar: `conj(s) * op.adjoint`
        have hsr : cj s = s := him hi
        simp [Impl.adj, ea, hi] at ha; subst ha
        simp only [Impl.dom, Impl.ran, Impl.run, Impl.needRe]
        refine ⟨fun x hx => mem_smul cj (pa.maps x hx) hs,
          fun y hy => mem_smul cj (pa.amaps y hy) (fun _ => by rw [hsr]; exact hsr), ?_⟩
        intro φ hφ x y hx hy
        rw [dot_smul_left, dot_smul_right cj hcj]
        have := pa.adj (φ.comp (AddMonoidHom.mulLeft s)) (fun h b => by
          show φ (s * cj b) = φ (s * b)
          have e : s * cj b = cj (s * b) := by rw [map_mul, hsr]
          rw [e, hφ h]) x y hx hy
        simpa using this
      · -- genuinely complex scalar: `OperatorRightScalarMult(op.adjoint, conj(s))`
        simp [Impl.adj, ea, hi] at ha; subst ha
        simp only [Impl.dom, Impl.ran, Impl.run, Impl.needRe]
        have hsy : ∀ y, mem cj a.ran y → mem cj a.ran (fun j i => cj s * y j i) :=
          fun y hy => mem_smul cj hy (fun h => by rw [hs h]; exact hs h)
        refine ⟨fun x hx => mem_smul cj (pa.maps x hx) hs,
          fun y hy => pa.amaps _ (hsy y hy), ?_⟩
        intro φ hφ x y hx hy
        rw [← pa.adj φ hφ x _ hx (hsy y hy), dot_smul_left, dot_smul_right cj hcj]
  | rscal a s iha =>
    intro t' hw ha
    obtain ⟨wa, hs⟩ := hw
    cases ea : a.adj cj I with
    | none => simp [Impl.adj, ea] at ha
    | some a' =>
      simp [Impl.adj, ea] at ha; subst ha
      have pa := iha a' wa ea
      simp only [Impl.dom, Impl.ran, Impl.run, Impl.needRe]
      have hsx : ∀ x, mem cj a.dom x → mem cj a.dom (fun j i => s * x j i) :=
        fun x hx => mem_smul cj hx hs
      refine ⟨fun x hx => pa.maps _ (hsx x hx),
        fun y hy => mem_smul cj (pa.amaps y hy) (fun h => by rw [hs h]; exact hs h), ?_⟩
      intro φ hφ x y hx hy
      rw [pa.adj φ hφ _ y (hsx x hx) hy, dot_smul_left, dot_smul_right cj hcj]
  | lvec a v iha =>
    intro t' hw ha
    obtain ⟨wa, hv⟩ := hw
    cases ea : a.adj cj I with
    | none => simp [Impl.adj, ea] at ha
    | some a' =>
      simp [Impl.adj, ea] at ha; subst ha
      have pa := iha a' wa ea
      simp only [Impl.dom, Impl.ran, Impl.run, Impl.needRe]
      have key : ∀ y : El K, (fun j i => y j i * (if a.ran.real = true then v else
          fun j i => cj (v j i)) j i) = fun j i => y j i * cj (v j i) := by
        intro y; funext j i
        by_cases h : a.ran.real = true
        · simp [h, hv h j i]
        · simp [h]
      refine ⟨fun x hx => mem_mul cj (pa.maps x hx) hv,
        fun y hy => pa.amaps _ (by rw [key]; exact mem_mul cj hy (mem_conj cj hv)), ?_⟩
      intro φ hφ x y hx hy
      rw [key, dot_mul_left cj hcj]
      exact pa.adj φ hφ x _ hx (mem_mul cj hy (mem_conj cj hv))
  | rvec a v iha =>
    intro t' hw ha
    obtain ⟨wa, hv⟩ := hw
    cases ea : a.adj cj I with
    | none => simp [Impl.adj, ea] at ha
    | some a' =>
      simp [Impl.adj, ea] at ha; subst ha
      have pa := iha a' wa ea
      simp only [Impl.dom, Impl.ran, Impl.run, Impl.needRe]
      have key : ∀ z : El K, (fun j i => z j i * (if a.dom.real = true then v else
          fun j i => cj (v j i)) j i) = fun j i => z j i * cj (v j i) := by
        intro z; funext j i
        by_cases h : a.dom.real = true
        · simp [h, hv h j i]
        · simp [h]
      refine ⟨fun x hx => pa.maps _ (mem_mul cj hx hv),
        fun y hy => by rw [key]; exact mem_mul cj (pa.amaps y hy) (mem_conj cj hv), ?_⟩
      intro φ hφ x y hx hy
      rw [key, pa.adj φ hφ _ y (mem_mul cj hx hv) hy, dot_mul_left cj hcj]
  | flvec f V F v ihf =>
    intro t' hw ha
    obtain ⟨wf, hF, hFV, hv, hW⟩ := hw
    cases ea : f.adj cj I with
    | none => simp [Impl.adj, ea] at ha
    | some f' =>
      simp [Impl.adj, ea] at ha; subst ha
      have pf := ihf f' wf ea
      simp only [Impl.dom, Impl.ran, Impl.run, Impl.needRe, Leaf.run]
      rw [hF] at pf
      have hip : ∀ y, mem cj V y → mem cj F (fun _ _ => dot cj V y v) := by
        intro y hy h j i
        rw [hFV] at h
        simp only [fieldSpace] at h
        simp only [dot_eq, map_sum, map_mul, hcj, hW _ _, hy h _ _, hv h _ _]
      refine ⟨fun x hx => ?_, fun y hy => pf.amaps _ (hip y hy), ?_⟩
      · intro h j i
        have := pf.maps x hx (by rw [hFV]; exact h) 0 0
        simp [this, hv h j i]
      intro φ hφ x y hx hy
      rw [← pf.adj φ hφ x _ hx (hip y hy)]
      congr 1
      subst hFV
      simp only [dot_eq, fieldSpace, sum_range_one, map_sum, map_mul, hcj, hW _ _, mul_sum, one_mul]
      exact sum_congr rfl fun j _ => sum_congr rfl fun i _ => by ring
  | pnil k d r =>
    intro t' _ ha
    simp [Impl.adj] at ha; subst ha
    simp only [Impl.dom, Impl.ran, Impl.run]
    exact ⟨fun _ _ => mem_zero cj, fun _ _ => mem_zero cj,
      fun φ _ x y _ _ => by rw [dot_zero_left, dot_zero_right]⟩
  | pcons r c a rest iha ihr =>
    intro t' hw ha
    obtain ⟨wa, wr, _, hr, hc, hd, hrn⟩ := hw
    cases ea : a.adj cj I with
    | none => simp [Impl.adj, ea] at ha
    | some a' =>
      cases er : rest.adj cj I with
      | none => simp [Impl.adj, ea, er] at ha
      | some rest' =>
        simp [Impl.adj, ea, er] at ha; subst ha
        have pa := iha a' wa ea
        have pr := ihr rest' wr er
        rw [hd, hrn] at pa
        simp only [Impl.dom, Impl.ran, Impl.run, Impl.needRe]
        have hxc : ∀ x, mem cj rest.dom x → mem cj (rest.dom.comp c) (fun _ i' => x c i') :=
          fun x hx h _ i => hx h c i
        have hyr : ∀ y, mem cj rest.ran y → mem cj (rest.ran.comp r) (fun _ i' => y r i') :=
          fun y hy h _ i => hy h r i
        refine ⟨?_, ?_, ?_⟩
        · intro x hx h j i
          have h1 := pr.maps x hx h j i
          have h2 := pa.maps _ (hxc x hx) h 0 i
          by_cases e : j = r <;> simp [e, h1, h2]
          · subst e; simp [h1]
        · intro y hy h j i
          have h1 := pr.amaps y hy h j i
          have h2 := pa.amaps _ (hyr y hy) h 0 i
          by_cases e : j = c <;> simp [e, h1, h2]
          · subst e; simp [h1]
        · intro φ hφ x y hx hy
          rw [dot_embed_left cj _ r hr, dot_embed_right cj _ c hc, map_add, map_add,
            pr.adj φ (fun h => hφ (Or.inr h)) x y hx hy]
          congr 1
          have := pa.adj φ (fun h => hφ (Or.inl h)) _ _ (hxc x hx) (hyr y hy)
          simp only [dot_comp_eq] at this ⊢
          exact this


/-! ### leaf lemmas: all sizes, all weights allowed by `Leaf.WT` -/

/-- ScalingOperator / IdentityOperator: the adjoint scales by the conjugate (or returns
`self` when the imaginary part of the scalar is zero). -/
theorem C05.scaling_adj (cj : K →+* K) (hcj : ∀ a, cj (cj a) = a) (I : K) (S : Space K) (s : K) :
    LeafOK cj I (.scaling S s) := by
  intro t' hw ha
  obtain ⟨h1, h2⟩ := hw
  by_cases h : imK cj I s = 0
  · simp [Leaf.adj, h] at ha; subst ha
    have hs := h2 h
    simp only [Leaf.dom, Leaf.ran, Impl.run, Leaf.run, Leaf.needRe]
    refine ⟨fun x hx => mem_smul cj hx h1, fun y hy => mem_smul cj hy h1, ?_⟩
    intro φ _ x y _ _
    have := dot_smul_right cj hcj S s x y
    rw [hs] at this
    rw [dot_smul_left, this]
  · simp [Leaf.adj, h] at ha; subst ha
    simp only [Leaf.dom, Leaf.ran, Impl.run, Leaf.run, Leaf.needRe]
    refine ⟨fun x hx => mem_smul cj hx h1,
      fun y hy => mem_smul cj hy (fun hr => by rw [h1 hr]; exact h1 hr), ?_⟩
    intro φ _ x y _ _
    rw [dot_smul_left, dot_smul_right cj hcj]

/-- ZeroOperator(domain, range) ↦ ZeroOperator(range, domain). -/
theorem C05.zero_adj (cj : K →+* K) (I : K) (d r : Space K) : LeafOK cj I (.zero d r) := by
  intro t' _ ha
  simp [Leaf.adj] at ha; subst ha
  simp only [Leaf.dom, Leaf.ran, Impl.run, Leaf.run]
  exact ⟨fun _ _ => mem_zero cj, fun _ _ => mem_zero cj,
    fun φ _ x y _ _ => by rw [dot_zero_left, dot_zero_right]⟩

/-- MultiplyOperator(v) on a space: adjoint multiplies by `conj v` on complex spaces and by
`v` itself on real spaces. -/
theorem C05.multiply_adj (cj : K →+* K) (hcj : ∀ a, cj (cj a) = a) (I : K) (d r : Space K)
    (v : El K) : LeafOK cj I (.multiply d r v) := by
  intro t' hw ha
  obtain ⟨rfl, hv⟩ := hw
  by_cases h : r.real = true
  · simp [Leaf.adj, h] at ha; subst ha
    simp only [Leaf.dom, Leaf.ran, Impl.run, Leaf.run, Leaf.needRe]
    refine ⟨fun x hx => mem_mul cj hx hv, fun y hy => mem_mul cj hy hv, ?_⟩
    intro φ _ x y _ _
    rw [dot_mul_left cj hcj]
    simp only [hv h _ _]
  · simp [Leaf.adj, h] at ha; subst ha
    simp only [Leaf.dom, Leaf.ran, Impl.run, Leaf.run, Leaf.needRe]
    refine ⟨fun x hx => mem_mul cj hx hv, fun y hy => mem_mul cj hy (mem_conj cj hv), ?_⟩
    intro φ _ x y _ _
    rw [dot_mul_left cj hcj]

/-- InnerProductOperator(v): x ↦ ⟨x, v⟩ has adjoint c ↦ c·v (MultiplyOperator(v, field)),
for every positive (real) weighting. -/
theorem C05.innerprod_adj (cj : K →+* K) (hcj : ∀ a, cj (cj a) = a) (I : K) (S F : Space K)
    (v : El K) : LeafOK cj I (.inner S F v) := by
  intro t' hw ha
  obtain ⟨rfl, hv, hW⟩ := hw
  simp [Leaf.adj] at ha; subst ha
  simp only [Leaf.dom, Leaf.ran, Impl.run, Leaf.run, Leaf.needRe]
  refine ⟨?_, ?_, ?_⟩
  · intro x hx h j i
    simp only [fieldSpace] at h
    simp only [dot_eq, map_sum, map_mul, hcj, hW _ _, hx h _ _, hv h _ _]
  · intro y hy h j i
    have := hy (by simpa [fieldSpace] using h) 0 0
    simp [this, hv h j i]
  · intro φ _ x y _ _
    congr 1
    simp only [dot_eq, fieldSpace, sum_range_one, map_mul, one_mul, sum_mul, mul_sum]
    exact sum_congr rfl fun j _ => sum_congr rfl fun i _ => by ring

/-- MultiplyOperator(v, domain=field), real or complex field: c ↦ c·v has adjoint
y ↦ ⟨y, v⟩ (InnerProductOperator(v), no conjugation of `v`). -/
theorem C05.multfield_adj (cj : K →+* K) (hcj : ∀ a, cj (cj a) = a) (I : K) (S F : Space K)
    (v : El K) : LeafOK cj I (.multField S F v) := by
  intro t' hw ha
  obtain ⟨rfl, hv, hW⟩ := hw
  simp [Leaf.adj] at ha; subst ha
  simp only [Leaf.dom, Leaf.ran, Impl.run, Leaf.run, Leaf.needRe]
  refine ⟨?_, ?_, ?_⟩
  · intro x hx h' j i
    have := hx (by simpa [fieldSpace] using h') 0 0
    simp [this, hv h' j i]
  · intro y hy h' j i
    have h : S.real = true := by simpa [fieldSpace] using h'
    simp only [dot_eq, map_sum, map_mul, hcj, hW _ _, hy h _ _, hv h _ _]
  · intro φ _ x y _ _
    congr 1
    simp only [dot_eq, fieldSpace, sum_range_one, map_mul, map_sum, hcj, hW _ _, one_mul,
      sum_mul, mul_sum]
    exact sum_congr rfl fun j _ => sum_congr rfl fun i _ => by ring

/-- MatrixOperator (1-d): `W_dom⁻¹ Mᴴ W_ran` IS the adjoint for ARBITRARY non-zero real
weights on domain and range (constant or per entry), any sizes, any real/complex matrix. -/
theorem C05.matrix_adj (cj : K →+* K) (hcj : ∀ a, cj (cj a) = a) (I : K)
    (d r : Space K) (M : Nat → Nat → K) : LeafOK cj I (.matrix d r M) := by
  intro t' hw ha
  obtain ⟨hd, hr, hd0, hWd, hWr, hdr, hM⟩ := hw
  simp [Leaf.adj] at ha; subst ha
  simp only [Leaf.dom, Leaf.ran, Impl.run, Leaf.run, Leaf.needRe]
  refine ⟨?_, ?_, ?_⟩
  · intro x hx h j i
    have hxr : d.real = true → ∀ j i, cj (x j i) = x j i := hx
    simp only [sumTo_eq, map_sum, map_mul, hM (hdr ▸ h), hxr (hdr ▸ h)]
  · intro y hy h j i
    have hyr : r.real = true → ∀ j i, cj (y j i) = y j i := hy
    simp only [sumTo_eq, map_sum, map_mul, map_div₀, hcj, hM h, hyr (hdr ▸ h), hWd _ _, hWr _ _]
  · intro φ _ x y _ _
    congr 1
    simp only [dot_eq, hd, hr, sum_range_one, sumTo_eq, map_sum, map_mul, map_div₀, hcj,
      hWd _ _, hWr _ _, mul_sum, sum_mul]
    rw [sum_comm]
    refine sum_congr rfl fun k _ => sum_congr rfl fun i _ => ?_
    have := hd0 k
    field_simp

/-- PointwiseInner / PointwiseSum on a power space `V = X^d` with ARBITRARY non-zero real
product weights `v` and ARBITRARY operator weights `w`: the adjoint is
`h ↦ (w_j / v_j) · G_j · h` (PointwiseInnerAdjoint), for all sizes and all `d`. -/
theorem C05.pointwise_inner_adj (cj : K →+* K) (hcj : ∀ a, cj (cj a) = a) (I : K)
    (V X : Space K) (G : El K) (w v : Nat → K) : LeafOK cj I (.pwInner V X G w v) := by
  intro t' hw ha
  obtain ⟨hX, hVW, hVn, hv0, hreal, hG, hwv⟩ := hw
  simp [Leaf.adj] at ha; subst ha
  simp only [Leaf.dom, Leaf.ran, Impl.run, Leaf.run, Leaf.needRe]
  have hGc : ∀ j i, (if V.real = true then G j i else cj (G j i)) = cj (G j i) := by
    intro j i; by_cases h : V.real = true
    · simp [h, hG h j i]
    · simp [h]
  refine ⟨?_, ?_, ?_⟩
  · intro x hx h j i
    have hV : V.real = true := by rw [hreal]; exact h
    simp only [sumTo_eq, map_sum, map_mul, (hwv _).1, hx hV _ _, hG hV _ _, hV, if_true]
  · intro y hy h j i
    have hXr : X.real = true := by rw [← hreal]; exact h
    by_cases e : v j = w j
    · simp [e, hG h j i, hy hXr 0 i]
    · simp [e, hG h j i, hy hXr 0 i, (hwv j).1, (hwv j).2]
  · intro φ _ x y _ _
    congr 1
    simp only [dot_eq, hX, sum_range_one, sumTo_eq, hGc, sum_mul, mul_sum, hVW]
    rw [sum_comm]
    refine sum_congr rfl fun j hj => ?_
    rw [hVn j (mem_range.mp hj)]
    refine sum_congr rfl fun i _ => ?_
    have hv := hv0 j (mem_range.mp hj)
    by_cases e : v j = w j
    · simp only [e, if_true, map_mul]; ring
    · simp only [e, if_false, map_mul, map_div₀, (hwv j).1, (hwv j).2]
      field_simp

/-- PointwiseInnerAdjoint ↦ PointwiseInner (same weights): the reverse direction. -/
theorem C05.pointwise_inner_adjoint_adj (cj : K →+* K) (hcj : ∀ a, cj (cj a) = a) (I : K)
    (X V : Space K) (G : El K) (w v : Nat → K) : LeafOK cj I (.pwInnerAdj X V G w v) := by
  intro t' hw ha
  obtain ⟨hX, hVW, hVn, hv0, hreal, hG, hwv⟩ := hw
  simp [Leaf.adj] at ha; subst ha
  simp only [Leaf.dom, Leaf.ran, Impl.run, Leaf.run, Leaf.needRe]
  have hGc : ∀ j i, (if V.real = true then G j i else cj (G j i)) = cj (G j i) := by
    intro j i; by_cases h : V.real = true
    · simp [h, hG h j i]
    · simp [h]
  refine ⟨?_, ?_, ?_⟩
  · intro y hy h j i
    have hXr : X.real = true := by rw [← hreal]; exact h
    by_cases e : v j = w j
    · simp [e, hG h j i, hy hXr 0 i]
    · simp [e, hG h j i, hy hXr 0 i, (hwv j).1, (hwv j).2]
  · intro x hx h j i
    have hV : V.real = true := by rw [hreal]; exact h
    simp only [sumTo_eq, map_sum, map_mul, (hwv _).1, hx hV _ _, hG hV _ _, hV, if_true]
  · intro φ _ y x _ _
    congr 1
    simp only [dot_eq, hX, sum_range_one, sumTo_eq, hGc, sum_mul, mul_sum, hVW, map_sum, map_mul,
      hcj]
    rw [sum_comm]
    refine sum_congr rfl fun i hi => ?_
    rw [hVn i (mem_range.mp hi)]
    refine sum_congr rfl fun k _ => ?_
    have hv := hv0 i (mem_range.mp hi)
    by_cases e : v i = w i
    · simp only [e, if_true, (hwv i).1]; ring
    · simp only [e, if_false, (hwv i).1]
      field_simp

/-- SamplingOperator on a space with ARBITRARY non-zero real weights `W` (constant, array,
cell volume or not): the adjoint is `(cv / W) · WeightedSumSamplingOperator`
(`point_eval ↦ dirac`, `integrate ↦ char_fun`); duplicate sampling indices allowed
(`np.bincount` sums).  All sizes, any number of points, real and complex. -/
theorem C05.sampling_adj (cj : K →+* K) (I : K) (S R : Space K) (idx : Nat → Nat)
    (integrate : Bool) (cv : K) : LeafOK cj I (.sampling S R idx integrate cv) := by
  intro t' hw ha
  obtain ⟨hS, hR, hW0, hWr, hRW, hcv, hcvr, hidx, hreal⟩ := hw
  simp [Leaf.adj] at ha; subst ha
  simp only [Leaf.dom, Leaf.ran, Impl.run, Leaf.run, Impl.needRe, Leaf.needRe]
  refine ⟨?_, ?_, ?_⟩
  · intro x hx h j i
    have := hx (by rw [← hreal]; exact h) 0 (idx i)
    cases integrate <;> simp [this, hcvr]
  · intro y hy h j i
    have hyr := hy (by rw [hreal]; exact h)
    cases integrate <;> simp [sumTo_eq, map_sum, apply_ite cj, hyr, hcvr, hWr _ _]
  · intro φ _ x y _ _
    congr 1
    simp only [dot_eq, hS, hR, sum_range_one, sumTo_eq, hRW, one_mul]
    have key : ∀ i ∈ range (S.n 0), S.W 0 i * x 0 i * cj ((∑ k ∈ range (R.n 0),
        if idx k = i then y 0 k else 0) / (if (!integrate) = true then cv else 1) *
        (cv / S.W 0 i)) =
        ∑ k ∈ range (R.n 0), if idx k = i then
          x 0 i * (if integrate = true then cv else 1) * cj (y 0 k) else 0 := by
      intro i _
      have hWi := hW0 i
      rw [map_mul, map_div₀, map_div₀, map_sum, hcvr, hWr 0 i, sum_div, sum_mul, mul_sum]
      refine sum_congr rfl fun k _ => ?_
      by_cases e : idx k = i
      · simp only [e, if_true]
        cases integrate <;> simp [hcvr] <;> field_simp
      · simp [e]
    symm
    rw [sum_congr rfl key, sum_comm]
    refine sum_congr rfl fun k hk => ?_
    rw [sum_ite_eq (range (S.n 0)) (idx k)]
    simp [hidx k (mem_range.mp hk)]

/-- WeightedSumSamplingOperator into a space with arbitrary non-zero real weights `W`:
the adjoint is `SamplingOperator ∘ (W / cv)·` (`dirac ↦ point_eval`, `char_fun ↦ integrate`),
duplicates allowed. -/
theorem C05.wsum_sampling_adj (cj : K →+* K) (I : K) (R S : Space K) (idx : Nat → Nat)
    (dirac : Bool) (cv : K) : LeafOK cj I (.wsum R S idx dirac cv) := by
  intro t' hw ha
  obtain ⟨hS, hR, hW0, hWr, hRW, hcv, hcvr, hidx, hreal⟩ := hw
  simp [Leaf.adj] at ha; subst ha
  simp only [Leaf.dom, Leaf.ran, Impl.run, Leaf.run, Impl.needRe, Leaf.needRe]
  refine ⟨?_, ?_, ?_⟩
  · intro y hy h j i
    have hyr := hy (by rw [hreal]; exact h)
    cases dirac <;> simp [sumTo_eq, map_sum, apply_ite cj, hyr, hcvr]
  · intro x hx h j i
    have := hx (by rw [← hreal]; exact h) 0 (idx i)
    cases dirac <;> simp [this, hcvr, hWr _ _]
  · intro φ _ y x _ _
    congr 1
    simp only [dot_eq, hS, hR, sum_range_one, sumTo_eq, hRW, one_mul]
    have key : ∀ i ∈ range (S.n 0), S.W 0 i * ((∑ k ∈ range (R.n 0),
        if idx k = i then y 0 k else 0) / (if dirac = true then cv else 1)) * cj (x 0 i) =
        ∑ k ∈ range (R.n 0), if idx k = i then
          y 0 k * cj (x 0 i * (S.W 0 i / cv) * (if (!dirac) = true then cv else 1)) else 0 := by
      intro i _
      rw [sum_div, mul_sum, sum_mul]
      refine sum_congr rfl fun k _ => ?_
      by_cases e : idx k = i
      · simp only [e, if_true, map_mul, map_div₀, hcvr, hWr 0 i]
        cases dirac <;> simp [hcvr] <;> field_simp
      · simp [e]
    rw [sum_congr rfl key, sum_comm]
    refine sum_congr rfl fun k hk => ?_
    rw [sum_ite_eq (range (S.n 0)) (idx k)]
    simp [hidx k (mem_range.mp hk)]

/-- FlatteningOperator (C order) on a space with arbitrary non-zero real weights `W`:
adjoint = `(1 / W) · inverse`. -/
theorem C05.flatten_adj (cj : K →+* K) (I : K) (S R : Space K) :
    LeafOK cj I (.flatten S R) := by
  intro t' hw ha
  obtain ⟨hS, hR, hn, hW0, hWr, hRW, hreal⟩ := hw
  simp [Leaf.adj] at ha; subst ha
  simp only [Leaf.dom, Leaf.ran, Impl.run, Leaf.run, Impl.needRe, Leaf.needRe]
  refine ⟨?_, ?_, ?_⟩
  · intro x hx h j i
    exact hx (by rw [← hreal]; exact h) 0 i
  · intro y hy h j i
    have := hy (by rw [hreal]; exact h) 0 i
    simp [this, hWr _ _]
  · intro φ _ x y _ _
    congr 1
    simp only [dot_eq, hS, hR, sum_range_one, hRW, hn, map_mul]
    refine sum_congr rfl fun i _ => ?_
    have := hW0 i
    rw [map_inv₀, hWr 0 i]
    field_simp

/-- The inverse of the flattening: adjoint = `FlatteningOperator ∘ (W ·)`. -/
theorem C05.flatten_inverse_adj (cj : K →+* K) (I : K) (R S : Space K) :
    LeafOK cj I (.flattenInv R S) := by
  intro t' hw ha
  obtain ⟨hS, hR, hn, hW0, hWr, hRW, hreal⟩ := hw
  simp [Leaf.adj] at ha; subst ha
  simp only [Leaf.dom, Leaf.ran, Impl.run, Leaf.run, Impl.needRe, Leaf.needRe]
  refine ⟨?_, ?_, ?_⟩
  · intro y hy h j i
    exact hy (by rw [hreal]; exact h) 0 i
  · intro x hx h j i
    have := hx (by rw [← hreal]; exact h) 0 i
    simp [this, hWr _ _]
  · intro φ _ y x _ _
    congr 1
    simp only [dot_eq, hS, hR, sum_range_one, hRW, hn, map_mul, hWr _ _]
    refine sum_congr rfl fun i _ => ?_
    ring

/-- RealPart(S): on a real space it is its own adjoint; on a complex space the adjoint is
ComplexEmbedding(S.real_space, 1) and the REAL-PART identity Re⟨Re x, y⟩ = Re⟨x, y⟩ holds
(every additive conjugation-invariant `φ`), for all sizes and real weights. -/
theorem C05.realpart_adj (cj : K →+* K) (hcj : ∀ a, cj (cj a) = a) (I : K) (S R : Space K) :
    LeafOK cj I (.realPart S R) := by
  intro t' hw ha
  obtain ⟨rfl, hW, h2⟩ := hw
  by_cases hr : S.real = true
  · simp [Leaf.adj, hr] at ha; subst ha
    simp only [Leaf.dom, Leaf.ran, Impl.run, Leaf.run, Leaf.needRe]
    refine ⟨fun x _ _ j i => cj_reK cj hcj _, fun y _ _ j i => cj_reK cj hcj _, ?_⟩
    intro φ _ x y hx hy
    have ex : (fun j i => reK cj (x j i)) = x := by
      funext j i; exact reK_of_real cj (hx hr j i) h2
    have ey : (fun j i => reK cj (y j i)) = y := by
      funext j i; exact reK_of_real cj (hy rfl j i) h2
    rw [ex, ey]; rfl
  · simp [Leaf.adj, hr] at ha; subst ha
    simp only [Leaf.dom, Leaf.ran, Impl.run, Leaf.run, Leaf.needRe, if_true]
    have h1 : reK cj (1 : K) = 1 := reK_of_real cj (map_one cj) h2
    have h0 : imK cj I (1 : K) = 0 := imK_of_real cj I (map_one cj)
    simp only [h1, h0, one_mul, zero_mul, mul_zero, add_zero]
    refine ⟨fun x _ _ j i => cj_reK cj hcj _, fun y _ h => by simp [hr] at h, ?_⟩
    intro φ hφ x y _ hy
    have hyr : ∀ j i, cj (y j i) = y j i := hy rfl
    have key : dot cj { S with real := true } (fun j i => reK cj (x j i)) y =
        (dot cj S x y + cj (dot cj S x y)) / 2 := by
      simp only [dot_eq, map_sum, map_mul, hcj, hW _ _, hyr _ _, ← sum_add_distrib, sum_div]
      refine sum_congr rfl fun j _ => sum_congr rfl fun i _ => ?_
      simp only [reK]; ring
    rw [key]
    exact phi_re cj φ (hφ (by simpa using hr)) h2 _

/-- ImagPart(S): zero adjoint on a real space; on a complex space the adjoint is
ComplexEmbedding(S.real_space, i) and Re⟨Im x, y⟩ = Re⟨x, i·y⟩. -/
theorem C05.imagpart_adj (cj : K →+* K) (hcj : ∀ a, cj (cj a) = a) (I : K) (S R : Space K) :
    LeafOK cj I (.imagPart S R) := by
  intro t' hw ha
  obtain ⟨rfl, hW, h2, hcx⟩ := hw
  by_cases hr : S.real = true
  · simp [Leaf.adj, hr] at ha; subst ha
    simp only [Leaf.dom, Leaf.ran, Impl.run, Leaf.run, Leaf.needRe]
    refine ⟨fun x hx _ j i => by rw [imK_of_real cj I (hx hr j i)]; simp,
      fun y _ => mem_zero cj, ?_⟩
    intro φ _ x y hx _
    have ex : (fun j i => imK cj I (x j i)) = fun _ _ => 0 := by
      funext j i; exact imK_of_real cj I (hx hr j i)
    rw [ex, dot_zero_left, dot_zero_right]
  · have hcx := hcx (by simpa using hr)
    simp [Leaf.adj, hr] at ha; subst ha
    simp only [Leaf.dom, Leaf.ran, Impl.run, Leaf.run, Leaf.needRe, if_true]
    have h1 : reK cj I = 0 := by simp [reK, hcx.cjI]
    have h0 : imK cj I I = 1 := by
      simp only [imK, hcx.cjI]
      have : (-I - I) * I = 2 := by
        have := hcx.II
        linear_combination (-2 : K) * this
      rw [this]; exact div_self h2
    simp only [h1, h0, one_mul, zero_mul, zero_add]
    refine ⟨fun x _ _ j i => cj_imK cj hcj hcx.cjI _, fun y _ h => by simp [hr] at h, ?_⟩
    intro φ hφ x y _ hy
    have hyr : ∀ j i, cj (y j i) = y j i := hy rfl
    have key : dot cj { S with real := true } (fun j i => imK cj I (x j i)) y =
        (dot cj S x (fun j i => I * y j i) + cj (dot cj S x (fun j i => I * y j i))) / 2 := by
      simp only [dot_eq, map_sum, map_mul, hcj, hW _ _, hyr _ _, hcx.cjI, map_neg,
        ← sum_add_distrib, sum_div]
      refine sum_congr rfl fun j _ => sum_congr rfl fun i _ => ?_
      simp only [imK]; ring
    rw [key]
    exact phi_re cj φ (hφ (by simpa using hr)) h2 _

/-- ComplexEmbedding(S, s): on a complex space it is the scaling by `s` (adjoint: conj s); on
a real space the adjoint is `Re(s)·RealPart + Im(s)·ImagPart` (with the two shortcuts of the
code for real and purely imaginary `s`) and Re⟨s·x, y⟩ = ⟨x, Re(s) Re y + Im(s) Im y⟩. -/
theorem C05.cembed_adj (cj : K →+* K) (hcj : ∀ a, cj (cj a) = a) (I : K) (S C : Space K) (s : K) :
    LeafOK cj I (.cembed S C s) := by
  intro t' hw ha
  obtain ⟨rfl, hreal⟩ := hw
  by_cases hr : S.real = true
  · obtain ⟨hW, h2, hcx⟩ := hreal hr
    have cq := cj_imK cj hcj hcx.cjI s
    simp only [Leaf.adj, hr, if_true] at ha
    simp only [Leaf.dom, Leaf.ran, Leaf.run, Leaf.needRe, hr, if_true]
    split_ifs at ha with e1 e2
    · simp at ha; subst ha
      have hs : cj s = s := by
        have h := e1
        rw [reK, div_eq_iff h2] at h
        linear_combination h
      have hq : imK cj I s = 0 := imK_of_real cj I hs
      refine cembed_pair cj hcj I S s hr hW h2 hcx _ trivial _ (fun y => ?_)
      funext j i; simp [Impl.run, Leaf.run, hq]
    · simp at ha; subst ha
      have hs : cj s = -s :=
        calc cj s = cj (I * imK cj I s) := by rw [e2]
          _ = -I * imK cj I s := by rw [map_mul, hcx.cjI, cq]
          _ = -s := by rw [neg_mul, e2]
      have hp : reK cj s = 0 := by simp [reK, hs]
      refine cembed_pair cj hcj I S s hr hW h2 hcx _ trivial _ (fun y => ?_)
      funext j i; simp [Impl.run, Leaf.run, hp]
    · simp at ha; subst ha
      refine cembed_pair cj hcj I S s hr hW h2 hcx _ trivial _ (fun y => ?_)
      funext j i; simp [Impl.run, Leaf.run]
  · have hS : ({ S with real := false } : Space K) = S := by
      cases S; simp_all
    rw [hS] at ha ⊢
    simp [Leaf.adj, hr] at ha; subst ha
    simp only [Leaf.dom, Leaf.ran, Impl.run, Leaf.run, Leaf.needRe, hr]
    simp only [Bool.false_eq_true, if_false]
    refine ⟨fun x _ h => absurd h hr, fun y _ h => absurd h hr, ?_⟩
    intro φ _ x y _ _
    rw [dot_smul_left, dot_smul_right cj hcj]

/-- ComponentProjection(P, index) for an int / slice / list index with distinct entries, with
ARBITRARY non-zero real weights on the product space and on the sub-space: the adjoint is
ComponentProjectionAdjoint (`out = 0; out[index] = y`) after scaling component `k` by the
weight ratio `v_k / w_index[k]`; any number and sizes of components. -/
theorem C05.proj_adj (cj : K →+* K) (I : K) (P Q : Space K) (idx : Nat → Nat) :
    LeafOK cj I (.proj P Q idx) := by
  intro t' hw ha
  obtain ⟨hreal, hk, hWP, hWQ, hinj⟩ := hw
  simp [Leaf.adj] at ha; subst ha
  simp only [Leaf.dom, Leaf.ran, Impl.run, Leaf.run, Leaf.needRe]
  refine ⟨?_, ?_, ?_⟩
  · intro x hx h j i; exact hx (by rw [← hreal]; exact h) _ _
  · intro y hy h j i
    show cj (assignTo idx _ j i Q.m) = assignTo idx _ j i Q.m
    rw [assignTo_eq_sum idx _ j i Q.m hinj, map_sum]
    refine sum_congr rfl fun k _ => ?_
    rw [apply_ite cj, map_zero, map_mul, map_div₀, hWP _ _, hWQ _ _,
      hy (by rw [hreal]; exact h)]
  · intro φ _ x y _ _
    congr 1
    let Q' : Space K := { Q with W := fun k i => P.W (idx k) i }
    have h1 : dot cj Q (fun j i => x (idx j) i) y =
        dot cj Q' (fun j i => x (idx j) i)
          (fun k i => y k i * (Q.W k i / P.W (idx k) i)) := by
      simp only [dot_eq, Q', map_mul, map_div₀, hWP _ _, hWQ _ _]
      refine sum_congr rfl fun k hk' => sum_congr rfl fun i _ => ?_
      have := ((hk k (mem_range.mp hk')).2.2 i).1
      field_simp
    rw [h1, proj_dot cj P Q' idx (fun k hk' => ⟨(hk k hk').1, (hk k hk').2.1, fun _ => rfl⟩) hinj]

/-- ComponentProjectionAdjoint ↦ (weight ratios) ∘ ComponentProjection: the reverse direction. -/
theorem C05.proj_adjoint_adj (cj : K →+* K) (I : K)
    (Q P : Space K) (idx : Nat → Nat) : LeafOK cj I (.projAdj Q P idx) := by
  intro t' hw ha
  obtain ⟨hreal, hk, hWP, hWQ, hinj⟩ := hw
  simp [Leaf.adj] at ha; subst ha
  simp only [Leaf.dom, Leaf.ran, Impl.run, Leaf.run, Leaf.needRe]
  refine ⟨?_, ?_, ?_⟩
  · intro y hy h j i
    show cj (assignTo idx y j i Q.m) = assignTo idx y j i Q.m
    rw [assignTo_eq_sum idx y j i Q.m hinj, map_sum]
    refine sum_congr rfl fun k _ => ?_
    rw [apply_ite cj, map_zero, hy (by rw [hreal]; exact h)]
  · intro x hx h j i
    have := hx (by rw [← hreal]; exact h) (idx j) i
    simp [this, hWP _ _, hWQ _ _]
  · intro φ _ y x _ _
    congr 1
    let Q' : Space K := { Q with W := fun k i => P.W (idx k) i }
    have h1 : dot cj Q' y (fun j i => x (idx j) i) =
        dot cj Q y (fun k i => x (idx k) i * (P.W (idx k) i / Q.W k i)) := by
      simp only [dot_eq, Q', map_mul, map_div₀, hWP _ _, hWQ _ _]
      refine sum_congr rfl fun k hk' => sum_congr rfl fun i _ => ?_
      have := ((hk k (mem_range.mp hk')).2.2 i).2
      field_simp
    rw [← h1]
    exact proj_dot' cj P Q' idx (fun k hk' => ⟨(hk k hk').1, (hk k hk').2.1, fun _ => rfl⟩) hinj y x

/-- Every modelled leaf satisfies its adjoint contract under its conditions `Leaf.WT`; only
for `opaque` leaves (operators without an executable model: finite differences, resizing,
Fourier, wavelets, …) the contract itself is the condition — those are decided by the matrix
oracle on small spaces. -/
theorem C05.leaf_sound (cj : K →+* K) (hcj : ∀ a, cj (cj a) = a) (I : K) : LeafSound cj I := by
  intro l
  cases l with
  | «opaque» re d r f g =>
    intro t' hw ha
    simp [Leaf.adj] at ha; subst ha
    simp only [Leaf.dom, Leaf.ran, Impl.run, Leaf.run, Leaf.needRe]
    exact hw
  | nonlin d r f => intro t' _ ha; simp [Leaf.adj] at ha
  | scaling S s => exact C05.scaling_adj cj hcj I S s
  | zero d r => exact C05.zero_adj cj I d r
  | multiply d r v => exact C05.multiply_adj cj hcj I d r v
  | multField S F v => exact C05.multfield_adj cj hcj I S F v
  | inner S F v => exact C05.innerprod_adj cj hcj I S F v
  | realPart S R => exact C05.realpart_adj cj hcj I S R
  | imagPart S R => exact C05.imagpart_adj cj hcj I S R
  | cembed S C s => exact C05.cembed_adj cj hcj I S C s
  | matrix d r M => exact C05.matrix_adj cj hcj I d r M
  | pwInner V X G w v => exact C05.pointwise_inner_adj cj hcj I V X G w v
  | pwInnerAdj X V G w v => exact C05.pointwise_inner_adjoint_adj cj hcj I X V G w v
  | sampling S R idx b cv => exact C05.sampling_adj cj I S R idx b cv
  | wsum R S idx b cv => exact C05.wsum_sampling_adj cj I R S idx b cv
  | flatten S R => exact C05.flatten_adj cj I S R
  | flattenInv R S => exact C05.flatten_inverse_adj cj I R S
  | proj P Q idx => exact C05.proj_adj cj I P Q idx
  | projAdj Q P idx => exact C05.proj_adjoint_adj cj I Q P idx

/-- MAIN THEOREM.  For every expression tree `t` (unbounded depth, all sizes, all weights)
that is well formed (`Impl.WT`: exactly the checks of the ODL constructors, block operators on
UNWEIGHTED product spaces, and the leaf conditions `Leaf.WT` — see their docstrings for what
is excluded) and whose `.adjoint` the code returns (`adj t = some t'`): `t` maps its domain
into its range, `t'` maps the range back into the domain, and
`φ ⟨t x, y⟩_ran = φ ⟨x, t' y⟩_dom` for all `x, y` and every additive `φ`
(conjugation-invariant `φ` if the tree contains an operator between a real and a complex
space: then only the real-part identity holds, also for complex → complex trees that pass
through a real space).  With `φ = id`: ⟨Ax, y⟩ = ⟨x, A*y⟩.  Scalars of Left/RightScalarMult
are arbitrary elements of the field of the range/domain (no extra condition).  For `opaque`
leaves the statement is conditional on their contract. -/
theorem C05.adj_sound (cj : K →+* K) (hcj : ∀ a, cj (cj a) = a) (I : K) (t t' : Impl K)
    (hw : t.WT cj I) (ha : t.adj cj I = some t') :
    Pair cj t.needRe t.dom t.ran (t.run cj I) (t'.run cj I) :=
  C05.adj_sound_tree cj hcj I (C05.leaf_sound cj hcj I) t t' hw ha

/-- The plain statement for trees without real/complex-mixing leaves: ⟨Ax,y⟩ = ⟨x,A*y⟩. -/
theorem C05.adj_identity (cj : K →+* K) (hcj : ∀ a, cj (cj a) = a) (I : K) (t t' : Impl K)
    (hw : t.WT cj I) (ha : t.adj cj I = some t') (hre : ¬ t.needRe) (x y : El K)
    (hx : mem cj t.dom x) (hy : mem cj t.ran y) :
    dot cj t.ran (t.run cj I x) y = dot cj t.dom x (t'.run cj I y) :=
  (C05.adj_sound cj hcj I t t' hw ha).adj (AddMonoidHom.id K) (fun h => absurd h hre) x y hx hy


/-! ### adjoint maps range → domain -/

/-- every leaf of the tree has an adjoint of the transposed type -/
def OdlModel.Adjoint.Impl.leavesTyped (cj : K → K) (I : K) : Impl K → Prop
  | .leaf l => ∀ t', l.adj cj I = some t' → t'.dom = l.ran ∧ t'.ran = l.dom
  | .sum a b => a.leavesTyped cj I ∧ b.leavesTyped cj I
  | .comp a b => a.leavesTyped cj I ∧ b.leavesTyped cj I
  | .lscal a _ => a.leavesTyped cj I
  | .rscal a _ => a.leavesTyped cj I
  | .lvec a _ => a.leavesTyped cj I
  | .rvec a _ => a.leavesTyped cj I
  | .flvec f _ _ _ => f.leavesTyped cj I
  | .pnil _ _ _ => True
  | .pcons _ _ a rest => a.leavesTyped cj I ∧ rest.leavesTyped cj I

/-- `adj_type`: the adjoint of every expression tree maps range → domain, provided the leaf
adjoints do (`C05.leaf_typed`: every modelled leaf). -/
theorem C05.adj_type_tree (cj : K → K) (I : K) (t : Impl K) :
    ∀ t', t.leavesTyped cj I → t.adj cj I = some t' → t'.dom = t.ran ∧ t'.ran = t.dom := by
  induction t with
  | leaf l => intro t' hl ha; exact hl t' ha
  | sum a b iha ihb =>
    intro t' hl ha
    cases ea : a.adj cj I with
    | none => simp [Impl.adj, ea] at ha
    | some a' =>
      cases eb : b.adj cj I with
      | none => simp [Impl.adj, ea, eb] at ha
      | some b' =>
        simp [Impl.adj, ea, eb] at ha; subst ha
        exact iha a' hl.1 ea
  | comp a b iha ihb =>
    intro t' hl ha
    cases ea : a.adj cj I with
    | none => simp [Impl.adj, ea] at ha
    | some a' =>
      cases eb : b.adj cj I with
      | none => simp [Impl.adj, ea, eb] at ha
      | some b' =>
        simp [Impl.adj, ea, eb] at ha; subst ha
        exact ⟨(iha a' hl.1 ea).1, (ihb b' hl.2 eb).2⟩
  | lscal a s iha =>
    intro t' hl ha
    cases ea : a.adj cj I with
    | none => simp [Impl.adj, ea] at ha
    | some a' =>
      simp [Impl.adj, ea] at ha; subst ha
      by_cases hi : imK cj I (cj s) = 0 <;> simp only [hi, if_true, if_false] <;>
        exact iha a' hl ea
  | rscal a s iha =>
    intro t' hl ha
    cases ea : a.adj cj I with
    | none => simp [Impl.adj, ea] at ha
    | some a' => simp [Impl.adj, ea] at ha; subst ha; exact iha a' hl ea
  | lvec a v iha =>
    intro t' hl ha
    cases ea : a.adj cj I with
    | none => simp [Impl.adj, ea] at ha
    | some a' => simp [Impl.adj, ea] at ha; subst ha; exact iha a' hl ea
  | rvec a v iha =>
    intro t' hl ha
    cases ea : a.adj cj I with
    | none => simp [Impl.adj, ea] at ha
    | some a' => simp [Impl.adj, ea] at ha; subst ha; exact iha a' hl ea
  | flvec f V F v ihf =>
    intro t' hl ha
    cases ea : f.adj cj I with
    | none => simp [Impl.adj, ea] at ha
    | some f' =>
      simp [Impl.adj, ea] at ha; subst ha
      exact ⟨rfl, (ihf f' hl ea).2⟩
  | pnil k d r => intro t' _ ha; simp [Impl.adj] at ha; subst ha; exact ⟨rfl, rfl⟩
  | pcons r c a rest iha ihr =>
    intro t' hl ha
    cases ea : a.adj cj I with
    | none => simp [Impl.adj, ea] at ha
    | some a' =>
      cases er : rest.adj cj I with
      | none => simp [Impl.adj, ea, er] at ha
      | some rest' =>
        simp [Impl.adj, ea, er] at ha; subst ha
        exact ihr rest' hl.2 er

/-- Every modelled leaf's coded adjoint has the transposed type (range → domain), all sizes;
the side conditions only say that `real_space` / `complex_space` of a space that already is
real / complex is the space itself. -/
theorem C05.leaf_typed (cj : K → K) (I : K) (l : Leaf K)
    (h : match l with
      | .realPart S R => S.real = true → R = S
      | .imagPart S R => S.real = true → R = S
      | .cembed S C _ => S.real = false → C = S
      | _ => True) :
    (Impl.leaf l).leavesTyped cj I := by
  intro t' ha
  cases l with
  | scaling S s =>
    simp [Leaf.adj] at ha; subst ha
    by_cases e : imK cj I s = 0 <;> simp [e, Impl.dom, Impl.ran, Leaf.dom, Leaf.ran]
  | multiply d r v =>
    simp [Leaf.adj] at ha; subst ha
    by_cases e : d.real = true <;> simp [e, Impl.dom, Impl.ran, Leaf.dom, Leaf.ran]
  | multField S F v =>
    simp [Leaf.adj] at ha; obtain ⟨_, rfl⟩ := ha
    simp [Impl.dom, Impl.ran, Leaf.dom, Leaf.ran]
  | realPart S R =>
    by_cases hr : S.real = true
    · have e := h hr; subst e
      simp [Leaf.adj, hr] at ha; subst ha; simp [Impl.dom, Impl.ran, Leaf.dom, Leaf.ran]
    · simp [Leaf.adj, hr] at ha; subst ha; simp [Impl.dom, Impl.ran, Leaf.dom, Leaf.ran]
  | imagPart S R =>
    by_cases hr : S.real = true
    · have e := h hr; subst e
      simp [Leaf.adj, hr] at ha; subst ha; simp [Impl.dom, Impl.ran, Leaf.dom, Leaf.ran]
    · simp [Leaf.adj, hr] at ha; subst ha; simp [Impl.dom, Impl.ran, Leaf.dom, Leaf.ran]
  | cembed S C s =>
    by_cases e : S.real = true
    · simp only [Leaf.adj, e, if_true] at ha
      split_ifs at ha <;>
        (simp at ha; subst ha; simp [Impl.dom, Impl.ran, Leaf.dom, Leaf.ran])
    · have hC := h (by simpa using e)
      subst hC
      simp [Leaf.adj, e] at ha; subst ha; simp [Impl.dom, Impl.ran, Leaf.dom, Leaf.ran]
  | _ => simp [Leaf.adj] at ha <;> (subst ha; simp [Impl.dom, Impl.ran, Leaf.dom, Leaf.ran])

end

/-! ### when is an adjoint exposed -/

section
variable {K : Type} [Field K] [DecidableEq K]

/-- the tree contains no non-linear leaf -/
def OdlModel.Adjoint.Impl.linearTree : Impl K → Prop
  | .leaf (.nonlin _ _ _) => False
  | .leaf _ => True
  | .sum a b => a.linearTree ∧ b.linearTree
  | .comp a b => a.linearTree ∧ b.linearTree
  | .lscal a _ => a.linearTree
  | .rscal a _ => a.linearTree
  | .lvec a _ => a.linearTree
  | .rvec a _ => a.linearTree
  | .flvec f _ _ _ => f.linearTree
  | .pnil _ _ _ => True
  | .pcons _ _ a rest => a.linearTree ∧ rest.linearTree

/-- `adj_exposed`: the model's `.adjoint` is defined (the code returns an operator) EXACTLY for
the trees without a non-linear operand, for every expression class and every depth; with one
non-linear leaf anywhere it is `none` (the code raises `OpNotImplementedError`).  The `noadj`
answers of the driver are this function; the harness compares them with the exception of the
real code (non-linear operands in every expression class and in random trees). -/
theorem C05.adj_exposed (cj : K → K) (I : K) (t : Impl K) :
    (t.adj cj I).isSome = true ↔ t.linearTree := by
  induction t with
  | leaf l => cases l <;> simp [Impl.adj, Leaf.adj, Impl.linearTree] <;> split_ifs <;> simp
  | sum a b iha ihb =>
    simp only [Impl.adj, Impl.linearTree, ← iha, ← ihb]
    cases a.adj cj I <;> cases b.adj cj I <;> simp
  | comp a b iha ihb =>
    simp only [Impl.adj, Impl.linearTree, ← iha, ← ihb]
    cases a.adj cj I <;> cases b.adj cj I <;> simp
  | lscal a s iha =>
    simp only [Impl.adj, Impl.linearTree, ← iha]
    cases a.adj cj I <;> simp
  | rscal a s iha =>
    simp only [Impl.adj, Impl.linearTree, ← iha]
    cases a.adj cj I <;> simp
  | lvec a v iha =>
    simp only [Impl.adj, Impl.linearTree, ← iha]
    cases a.adj cj I <;> simp
  | rvec a v iha =>
    simp only [Impl.adj, Impl.linearTree, ← iha]
    cases a.adj cj I <;> simp
  | flvec f V F v ihf =>
    simp only [Impl.adj, Impl.linearTree, ← ihf]
    cases f.adj cj I <;> simp
  | pnil k d r => simp [Impl.adj, Impl.linearTree]
  | pcons r c a rest iha ihr =>
    simp only [Impl.adj, Impl.linearTree, ← iha, ← ihr]
    cases a.adj cj I <;> cases rest.adj cj I <;> simp

/-- Non-vacuity of both directions on concrete trees over ℚ: a tree with a non-linear operand
deep inside has no adjoint, the same tree without it has one. -/
example :
    let S : Space ℚ := ⟨1, fun _ => 2, fun _ _ => 1, true⟩
    let lin : Impl ℚ := .sum (.lscal (.leaf (.scaling S 2)) 3) (.leaf (.zero S S))
    let bad : Impl ℚ := .sum (.lscal (.comp (.leaf (.scaling S 2)) (.leaf (.nonlin S S id))) 3)
      (.leaf (.zero S S))
    (lin.adj (RingHom.id ℚ) 0).isSome = true ∧ bad.adj (RingHom.id ℚ) 0 = none := by
  intro S lin bad
  refine ⟨(C05.adj_exposed _ 0 lin).mpr (by simp [lin, Impl.linearTree]), ?_⟩
  have h := (C05.adj_exposed (RingHom.id ℚ) 0 bad).not.mpr (by simp [bad, Impl.linearTree])
  simpa using h

end

/-! ### linearity of the executed operator action -/

section
variable {K : Type} [Field K] [DecidableEq K]

/-- every leaf of the tree acts additively -/
def OdlModel.Adjoint.Impl.leavesAdditive (cj : K → K) (I : K) : Impl K → Prop
  | .leaf l => ∀ x y : El K, l.run cj I (fun j i => x j i + y j i) =
      fun j i => l.run cj I x j i + l.run cj I y j i
  | .sum a b => a.leavesAdditive cj I ∧ b.leavesAdditive cj I
  | .comp a b => a.leavesAdditive cj I ∧ b.leavesAdditive cj I
  | .lscal a _ => a.leavesAdditive cj I
  | .rscal a _ => a.leavesAdditive cj I
  | .lvec a _ => a.leavesAdditive cj I
  | .rvec a _ => a.leavesAdditive cj I
  | .flvec f _ _ _ => f.leavesAdditive cj I
  | .pnil _ _ _ => True
  | .pcons _ _ a rest => a.leavesAdditive cj I ∧ rest.leavesAdditive cj I

/-- `run_add`: the executed action `run t` of every expression tree (all classes, unbounded
depth) is ADDITIVE whenever its leaves are — the model of "`is_linear` of an expression is the
conjunction of `is_linear` of its operands".  The unit-vector matrix extraction that ties the
model to the code relies on exactly this. -/
theorem C05.run_add (cj : K → K) (I : K) (t : Impl K) (h : t.leavesAdditive cj I) (x y : El K) :
    t.run cj I (fun j i => x j i + y j i) = fun j i => t.run cj I x j i + t.run cj I y j i := by
  induction t generalizing x y with
  | leaf l => exact h x y
  | sum a b iha ihb =>
    funext j i; simp only [Impl.run, iha h.1, ihb h.2]; ring
  | comp a b iha ihb =>
    simp only [Impl.run, ihb h.2, iha h.1]
  | lscal a s iha => funext j i; simp only [Impl.run, iha h]; ring
  | rscal a s iha =>
    simp only [Impl.run]
    rw [← iha h]; congr 1; funext j i; ring
  | lvec a v iha => funext j i; simp only [Impl.run, iha h]; ring
  | rvec a v iha =>
    simp only [Impl.run]
    rw [← iha h]; congr 1; funext j i; ring
  | flvec f V F v ihf => funext j i; simp only [Impl.run, ihf h]; ring
  | pnil k d r => funext j i; simp [Impl.run]
  | pcons r c a rest iha ihr =>
    funext j i
    simp only [Impl.run, ihr h.2]
    have := congrFun (congrFun (iha h.1 (fun _ i' => x c i') (fun _ i' => y c i')) 0) i
    by_cases e : j = r
    · simp only [e, if_true]; rw [this]; ring
    · simp only [e, if_false]

/-- Every modelled leaf except `opaque` / `nonlin` acts additively (for all sizes, weights,
parameters): Scaling, Zero, Multiply (space and field domain), InnerProduct, Real/ImagPart,
ComplexEmbedding, MatrixOperator, PointwiseInner(Adjoint), Sampling, WeightedSumSampling,
Flattening and its inverse, ComponentProjection. -/
theorem C05.leaf_run_add (cj : K →+* K) (I : K) (l : Leaf K)
    (h : match l with
      | .opaque _ _ _ _ _ | .nonlin _ _ _ | .projAdj _ _ _ => False
      | _ => True) :
    (Impl.leaf l).leavesAdditive cj I := by
  intro x y
  funext j i
  cases l with
  | «opaque» re d r f g => exact absurd h (by simp)
  | nonlin d r f => exact absurd h (by simp)
  | projAdj Q P idx => exact absurd h (by simp)
  | scaling S s => simp only [Leaf.run]; ring
  | zero d r => simp [Leaf.run]
  | multiply d r v => simp only [Leaf.run]; ring
  | multField S F v => simp only [Leaf.run]; ring
  | inner S F v =>
    simp only [Leaf.run, dot_eq, ← Finset.sum_add_distrib]
    exact Finset.sum_congr rfl fun a _ => Finset.sum_congr rfl fun b _ => by ring
  | realPart S R => simp only [Leaf.run, reK, map_add]; ring
  | imagPart S R => simp only [Leaf.run, imK, map_add]; ring
  | cembed S C s => simp only [Leaf.run]; split_ifs <;> ring
  | matrix d r M =>
    simp only [Leaf.run, sumTo_eq, ← Finset.sum_add_distrib]
    exact Finset.sum_congr rfl fun k _ => by ring
  | pwInner V X G w v =>
    simp only [Leaf.run, sumTo_eq, ← Finset.sum_add_distrib]
    exact Finset.sum_congr rfl fun k _ => by ring
  | pwInnerAdj X V G w v => simp only [Leaf.run]; split_ifs <;> ring
  | sampling S R idx b cv => simp only [Leaf.run]; ring
  | wsum R S idx b cv =>
    simp only [Leaf.run, sumTo_eq]
    have e : (∑ k ∈ Finset.range (R.n 0), if idx k = i then x 0 k + y 0 k else 0) =
        (∑ k ∈ Finset.range (R.n 0), if idx k = i then x 0 k else 0) +
        ∑ k ∈ Finset.range (R.n 0), if idx k = i then y 0 k else 0 := by
      rw [← Finset.sum_add_distrib]
      exact Finset.sum_congr rfl fun k _ => by split_ifs <;> simp
    rw [e]; ring
  | flatten S R => simp [Leaf.run]
  | flattenInv R S => simp [Leaf.run]
  | proj P Q idx => simp [Leaf.run]

end

/-! ### adjoint of the adjoint -/

section
variable {K : Type} [Field K] [DecidableEq K]

/-- trees built from leaves, sums, compositions, left scalar multiples and block operators -/
def OdlModel.Adjoint.Impl.simpleShape : Impl K → Prop
  | .leaf _ => True
  | .sum a b => a.simpleShape ∧ b.simpleShape
  | .comp a b => a.simpleShape ∧ b.simpleShape
  | .lscal a _ => a.simpleShape
  | .pnil _ _ _ => True
  | .pcons _ _ a rest => a.simpleShape ∧ rest.simpleShape
  | _ => False

/-- every leaf's adjoint has an adjoint acting like the leaf -/
def OdlModel.Adjoint.Impl.leavesAA (cj : K → K) (I : K) : Impl K → Prop
  | .leaf l => ∀ t', l.adj cj I = some t' →
      ∃ t'', t'.adj cj I = some t'' ∧ t''.run cj I = l.run cj I
  | .sum a b => a.leavesAA cj I ∧ b.leavesAA cj I
  | .comp a b => a.leavesAA cj I ∧ b.leavesAA cj I
  | .lscal a _ => a.leavesAA cj I
  | .rscal a _ => a.leavesAA cj I
  | .lvec a _ => a.leavesAA cj I
  | .rvec a _ => a.leavesAA cj I
  | .flvec f _ _ _ => f.leavesAA cj I
  | .pnil _ _ _ => True
  | .pcons _ _ a rest => a.leavesAA cj I ∧ rest.leavesAA cj I

/-- `adj_adj` (partial): for trees built from leaves, OperatorSum, OperatorComp,
OperatorLeftScalarMult and block operators, `A.adjoint.adjoint` exists and ACTS LIKE `A`
(equal as functions, unbounded depth) whenever this holds for the leaves.
Missing for the full statement: Right scalar / Left / Right vector multiples and
FunctionalLeftVectorMult (their double adjoint is a different expression class whose equality
with `A` needs linearity of the operand, resp. the typing of the intermediate adjoint); these
are covered by the matrix comparison of `A.adjoint.adjoint` with `A` in the harness. -/
theorem C05.adj_adj_partial (cj : K →+* K) (hcj : ∀ a, cj (cj a) = a) (I : K)
    (him : ∀ s, imK cj I (cj s) = 0 → cj s = s) (t : Impl K) :
    ∀ t', t.simpleShape → t.leavesAA cj I → t.adj cj I = some t' →
      ∃ t'', t'.adj cj I = some t'' ∧ t''.run cj I = t.run cj I := by
  induction t with
  | leaf l => intro t' _ hl ha; exact hl t' ha
  | sum a b iha ihb =>
    intro t' hs hl ha
    cases ea : a.adj cj I with
    | none => simp [Impl.adj, ea] at ha
    | some a' =>
      cases eb : b.adj cj I with
      | none => simp [Impl.adj, ea, eb] at ha
      | some b' =>
        simp [Impl.adj, ea, eb] at ha; subst ha
        obtain ⟨a'', ha2, ra⟩ := iha a' hs.1 hl.1 ea
        obtain ⟨b'', hb2, rb⟩ := ihb b' hs.2 hl.2 eb
        exact ⟨.sum a'' b'', by simp [Impl.adj, ha2, hb2], by simp [Impl.run, ra, rb]⟩
  | comp a b iha ihb =>
    intro t' hs hl ha
    cases ea : a.adj cj I with
    | none => simp [Impl.adj, ea] at ha
    | some a' =>
      cases eb : b.adj cj I with
      | none => simp [Impl.adj, ea, eb] at ha
      | some b' =>
        simp [Impl.adj, ea, eb] at ha; subst ha
        obtain ⟨a'', ha2, ra⟩ := iha a' hs.1 hl.1 ea
        obtain ⟨b'', hb2, rb⟩ := ihb b' hs.2 hl.2 eb
        exact ⟨.comp a'' b'', by simp [Impl.adj, ha2, hb2], by simp [Impl.run, ra, rb]⟩
  | lscal a s iha =>
    intro t' hs hl ha
    cases ea : a.adj cj I with
    | none => simp [Impl.adj, ea] at ha
    | some a' =>
      simp [Impl.adj, ea] at ha; subst ha
      obtain ⟨a'', ha2, ra⟩ := iha a' hs hl ea
      by_cases hi : imK cj I (cj s) = 0
      · simp only [hi, if_true]
        by_cases hi2 : imK cj I (cj (cj s)) = 0
        · exact ⟨.lscal a'' (cj (cj s)), by simp [Impl.adj, ha2, hi2], by simp [Impl.run, ra, hcj]⟩
        · exact absurd (by rw [him s hi]; exact hi) hi2
      · simp only [hi, if_false]
        exact ⟨.lscal a'' (cj (cj s)), by simp [Impl.adj, ha2], by simp [Impl.run, ra, hcj]⟩
  | rscal a s _ => intro t' hs; exact absurd hs (by simp [Impl.simpleShape])
  | lvec a v _ => intro t' hs; exact absurd hs (by simp [Impl.simpleShape])
  | rvec a v _ => intro t' hs; exact absurd hs (by simp [Impl.simpleShape])
  | flvec f V F v _ => intro t' hs; exact absurd hs (by simp [Impl.simpleShape])
  | pnil k d r =>
    intro t' _ _ ha
    simp [Impl.adj] at ha; subst ha
    exact ⟨.pnil k.adj.adj d r, by simp [Impl.adj], by simp [Impl.run]⟩
  | pcons r c a rest iha ihr =>
    intro t' hs hl ha
    cases ea : a.adj cj I with
    | none => simp [Impl.adj, ea] at ha
    | some a' =>
      cases er : rest.adj cj I with
      | none => simp [Impl.adj, ea, er] at ha
      | some rest' =>
        simp [Impl.adj, ea, er] at ha; subst ha
        obtain ⟨a'', ha2, ra⟩ := iha a' hs.1 hl.1 ea
        obtain ⟨r'', hr2, rr⟩ := ihr rest' hs.2 hl.2 er
        exact ⟨.pcons r c a'' r'', by simp [Impl.adj, ha2, hr2], by simp [Impl.run, ra, rr]⟩

/-- shapes covered by `C05.adj_adj`: every expression class; a RIGHT scalar multiple only with a
scalar that is not real (for a real scalar the double adjoint is a left multiple, equal to the
right multiple only for a homogeneous operand) -/
def OdlModel.Adjoint.Impl.aaShape (cj : K → K) (I : K) : Impl K → Prop
  | .leaf _ => True
  | .sum a b => a.aaShape cj I ∧ b.aaShape cj I
  | .comp a b => a.aaShape cj I ∧ b.aaShape cj I
  | .lscal a _ => a.aaShape cj I
  | .rscal a s => a.aaShape cj I ∧ imK cj I (cj (cj s)) ≠ 0
  | .lvec a _ => a.aaShape cj I
  | .rvec a _ => a.aaShape cj I
  | .flvec f _ _ _ => f.aaShape cj I
  | .pnil _ _ _ => True
  | .pcons _ _ a rest => a.aaShape cj I ∧ rest.aaShape cj I

/-- `adj_adj`: for EVERY expression class (sums, compositions, left scalar multiples, right
scalar multiples with a non-real scalar, left/right vector multiples with the conjugation
rule of the code, FunctionalLeftVectorMult, block operators), unbounded depth:
`A.adjoint.adjoint` exists and acts like `A` (equal as functions), provided this holds for the
leaves (`leavesAA`, discharged by `leaf_adj_adj`) and the leaf adjoints have the transposed
type (`leavesTyped`, discharged by `leaf_typed`; needed for the real/complex flag that decides
the conjugation of the vector in the second adjoint). -/
theorem C05.adj_adj (cj : K →+* K) (hcj : ∀ a, cj (cj a) = a) (I : K)
    (him : ∀ s, imK cj I (cj s) = 0 → cj s = s) (t : Impl K) :
    ∀ t', t.aaShape cj I → t.leavesAA cj I → t.leavesTyped cj I → t.adj cj I = some t' →
      ∃ t'', t'.adj cj I = some t'' ∧ t''.run cj I = t.run cj I := by
  induction t with
  | leaf l => intro t' _ hl _ ha; exact hl t' ha
  | sum a b iha ihb =>
    intro t' hs hl ht ha
    cases ea : a.adj cj I with
    | none => simp [Impl.adj, ea] at ha
    | some a' =>
      cases eb : b.adj cj I with
      | none => simp [Impl.adj, ea, eb] at ha
      | some b' =>
        simp [Impl.adj, ea, eb] at ha; subst ha
        obtain ⟨a'', ha2, ra⟩ := iha a' hs.1 hl.1 ht.1 ea
        obtain ⟨b'', hb2, rb⟩ := ihb b' hs.2 hl.2 ht.2 eb
        exact ⟨.sum a'' b'', by simp [Impl.adj, ha2, hb2], by simp [Impl.run, ra, rb]⟩
  | comp a b iha ihb =>
    intro t' hs hl ht ha
    cases ea : a.adj cj I with
    | none => simp [Impl.adj, ea] at ha
    | some a' =>
      cases eb : b.adj cj I with
      | none => simp [Impl.adj, ea, eb] at ha
      | some b' =>
        simp [Impl.adj, ea, eb] at ha; subst ha
        obtain ⟨a'', ha2, ra⟩ := iha a' hs.1 hl.1 ht.1 ea
        obtain ⟨b'', hb2, rb⟩ := ihb b' hs.2 hl.2 ht.2 eb
        exact ⟨.comp a'' b'', by simp [Impl.adj, ha2, hb2], by simp [Impl.run, ra, rb]⟩
  | lscal a s iha =>
    intro t' hs hl ht ha
    cases ea : a.adj cj I with
    | none => simp [Impl.adj, ea] at ha
    | some a' =>
      simp [Impl.adj, ea] at ha; subst ha
      obtain ⟨a'', ha2, ra⟩ := iha a' hs hl ht ea
      by_cases hi : imK cj I (cj s) = 0
      · simp only [hi, if_true]
        by_cases hi2 : imK cj I (cj (cj s)) = 0
        · exact ⟨.lscal a'' (cj (cj s)), by simp [Impl.adj, ha2, hi2], by simp [Impl.run, ra, hcj]⟩
        · exact absurd (by rw [him s hi]; exact hi) hi2
      · simp only [hi, if_false]
        exact ⟨.lscal a'' (cj (cj s)), by simp [Impl.adj, ha2], by simp [Impl.run, ra, hcj]⟩
  | rscal a s iha =>
    intro t' hs hl ht ha
    cases ea : a.adj cj I with
    | none => simp [Impl.adj, ea] at ha
    | some a' =>
      simp [Impl.adj, ea] at ha; subst ha
      obtain ⟨a'', ha2, ra⟩ := iha a' hs.1 hl ht ea
      exact ⟨.rscal a'' (cj (cj s)), by simp [Impl.adj, ha2, hs.2], by simp [Impl.run, ra, hcj]⟩
  | lvec a v iha =>
    intro t' hs hl ht ha
    cases ea : a.adj cj I with
    | none => simp [Impl.adj, ea] at ha
    | some a' =>
      simp [Impl.adj, ea] at ha; subst ha
      obtain ⟨a'', ha2, ra⟩ := iha a' hs hl ht ea
      have hty := (C05.adj_type_tree cj I a a' ht ea).1
      refine ⟨_, by simp only [Impl.adj, ha2, Option.bind_eq_bind, Option.bind_some,
        Option.pure_def]; rfl, ?_⟩
      funext x j i
      by_cases hr : a.ran.real = true <;> simp [Impl.run, ra, hty, hr, hcj]
  | rvec a v iha =>
    intro t' hs hl ht ha
    cases ea : a.adj cj I with
    | none => simp [Impl.adj, ea] at ha
    | some a' =>
      simp [Impl.adj, ea] at ha; subst ha
      obtain ⟨a'', ha2, ra⟩ := iha a' hs hl ht ea
      have hty := (C05.adj_type_tree cj I a a' ht ea).2
      refine ⟨_, by simp only [Impl.adj, ha2, Option.bind_eq_bind, Option.bind_some,
        Option.pure_def]; rfl, ?_⟩
      funext x
      by_cases hr : a.dom.real = true <;> simp [Impl.run, ra, hty, hr, hcj]
  | flvec f V F v ihf =>
    intro t' hs hl ht ha
    cases ea : f.adj cj I with
    | none => simp [Impl.adj, ea] at ha
    | some f' =>
      simp [Impl.adj, ea] at ha; subst ha
      obtain ⟨f'', hf2, rf⟩ := ihf f' hs hl ht ea
      refine ⟨.comp (.leaf (.multField V F v)) f'', by simp [Impl.adj, Leaf.adj, hf2], ?_⟩
      funext x j i
      simp [Impl.run, Leaf.run, rf, mul_comm]
  | pnil k d r =>
    intro t' _ _ _ ha
    simp [Impl.adj] at ha; subst ha
    exact ⟨.pnil k.adj.adj d r, by simp [Impl.adj], by simp [Impl.run]⟩
  | pcons r c a rest iha ihr =>
    intro t' hs hl ht ha
    cases ea : a.adj cj I with
    | none => simp [Impl.adj, ea] at ha
    | some a' =>
      cases er : rest.adj cj I with
      | none => simp [Impl.adj, ea, er] at ha
      | some rest' =>
        simp [Impl.adj, ea, er] at ha; subst ha
        obtain ⟨a'', ha2, ra⟩ := iha a' hs.1 hl.1 ht.1 ea
        obtain ⟨r'', hr2, rr⟩ := ihr rest' hs.2 hl.2 ht.2 er
        exact ⟨.pcons r c a'' r'', by simp [Impl.adj, ha2, hr2], by simp [Impl.run, ra, rr]⟩

/-- `leavesAA` (the leaf hypothesis of `adj_adj_partial`) holds for: Zero, Scaling/Identity,
Multiply (space and field domain), InnerProduct, MatrixOperator (non-zero real weights),
PointwiseInner(Adjoint), RealPart (real space, or complex space with real range),
Flattening, ComplexEmbedding on a complex space, SamplingOperator (non-zero real weights).  Not covered (tested through the `AA=` matrix comparison only): the inverse of
the flattening, ImagPart, ComplexEmbedding, Sampling/WeightedSumSampling, ComponentProjection(Adjoint). -/
theorem C05.leaf_adj_adj (cj : K →+* K) (hcj : ∀ a, cj (cj a) = a) (I : K)
    (him : ∀ s, imK cj I (cj s) = 0 → cj s = s) (l : Leaf K)
    (h : match l with
      | .zero _ _ | .pwInner _ _ _ _ _ | .pwInnerAdj _ _ _ _ _ | .inner _ _ _
      | .multField _ _ _ | .scaling _ _ => True
      | .multiply d r v => r.real = d.real ∧ mem cj d v
      | .matrix d r _ => (∀ i, d.W 0 i ≠ 0) ∧ (∀ i, r.W 0 i ≠ 0) ∧ realW cj d ∧ realW cj r
      | .realPart S R => S.real = true ∨ (R.real = true ∧ (2 : K) ≠ 0)
      | .flatten S _ => (∀ i, S.W 0 i ≠ 0) ∧ realW cj S
      | .cembed S C _ => S.real = false ∧ C.real = false
      | .sampling S _ _ _ cv => (∀ i, S.W 0 i ≠ 0) ∧ realW cj S ∧ cv ≠ 0 ∧ cj cv = cv
      | _ => False) :
    (Impl.leaf l).leavesAA cj I := by
  intro t' ha
  cases l with
  | scaling S s =>
    simp only [Leaf.adj, Option.some.injEq] at ha; subst ha
    by_cases h1 : imK cj I s = 0
    · exact ⟨.leaf (.scaling S s), by simp [Impl.adj, Leaf.adj, h1], by simp [Impl.run, h1]⟩
    · by_cases h2 : imK cj I (cj s) = 0
      · refine ⟨.leaf (.scaling S (cj s)), by simp [Impl.adj, Leaf.adj, h1, h2], ?_⟩
        simp [Impl.run, Leaf.run, h1, him s h2]
      · exact ⟨.leaf (.scaling S (cj (cj s))), by simp [Impl.adj, Leaf.adj, h1, h2],
          by simp [Impl.run, Leaf.run, h1, hcj]⟩
  | multiply d r v =>
    obtain ⟨hr, hv⟩ := h
    simp only [Leaf.adj, Option.some.injEq] at ha; subst ha
    by_cases hd : d.real = true
    · have hr' : r.real = true := by rw [hr]; exact hd
      exact ⟨.leaf (.multiply d r v), by simp [Impl.adj, Leaf.adj, hd, hr'], by simp [Impl.run, hd]⟩
    · have hr' : ¬ r.real = true := by rw [hr]; exact hd
      exact ⟨.leaf (.multiply d r fun j i => cj (cj (v j i))),
        by simp [Impl.adj, Leaf.adj, hd, hr'], by simp [Impl.run, Leaf.run, hd, hcj]⟩
  | matrix d r M =>
    obtain ⟨hd0, hr0, hWd, hWr⟩ := h
    simp only [Leaf.adj, Option.some.injEq] at ha; subst ha
    refine ⟨_, by simp only [Impl.adj, Leaf.adj]; rfl, ?_⟩
    funext x j i
    simp only [Impl.run, Leaf.run, map_mul, map_div₀, hcj, hWd _ _, hWr _ _]
    congr 1; funext k
    have := hd0 k; have := hr0 i
    field_simp
  | realPart S R =>
    simp only [Leaf.adj, Option.some.injEq] at ha; subst ha
    by_cases hs : S.real = true
    · exact ⟨.leaf (.realPart S R), by simp [Impl.adj, Leaf.adj, hs], by simp [Impl.run, hs]⟩
    · obtain ⟨hR, h2⟩ := h.resolve_left hs
      have e1 : reK cj (1 : K) = 1 := reK_of_real cj (map_one cj) h2
      refine ⟨.lscal (.leaf (.realPart S R)) (reK cj 1),
        by simp [Impl.adj, Leaf.adj, hs, hR, e1], ?_⟩
      funext x j i
      simp [Impl.run, Leaf.run, hs, e1]
  | flatten S R =>
    obtain ⟨h0, hW⟩ := h
    simp only [Leaf.adj, Option.some.injEq] at ha; subst ha
    refine ⟨_, by simp only [Impl.adj, Leaf.adj, Option.bind_eq_bind, Option.bind_some,
      Option.pure_def]; rfl, ?_⟩
    funext x j i
    have := h0 i
    by_cases hr : S.real = true <;>
      simp [Impl.run, Leaf.run, Impl.ran, Impl.dom, Leaf.ran, Leaf.dom, hr, map_div₀, hW _ _] <;>
      field_simp
  | cembed S C s =>
    obtain ⟨hS, hC⟩ := h
    simp [Leaf.adj, hS] at ha; subst ha
    exact ⟨.leaf (.cembed C C (cj (cj s))), by simp [Impl.adj, Leaf.adj, hC],
      by simp [Impl.run, Leaf.run, hS, hC, hcj]⟩
  | sampling S R idx b cv =>
    obtain ⟨h0, hW, hcv, hcvr⟩ := h
    simp only [Leaf.adj, Option.some.injEq] at ha; subst ha
    refine ⟨_, by simp only [Impl.adj, Leaf.adj, Option.bind_eq_bind, Option.bind_some,
      Option.pure_def]; rfl, ?_⟩
    funext x j k
    have := h0 (idx k)
    by_cases hr : S.real = true <;>
      simp [Impl.run, Leaf.run, Impl.ran, Impl.dom, Leaf.ran, Leaf.dom, hr, map_div₀, hW _ _,
        hcvr] <;>
      field_simp
  | zero d r => simp [Leaf.adj] at ha; subst ha; simp [Impl.adj, Leaf.adj, Impl.run, Leaf.run]
  | pwInner V X G w v =>
    simp [Leaf.adj] at ha; subst ha; simp [Impl.adj, Leaf.adj, Impl.run, Leaf.run]
  | pwInnerAdj X V G w v =>
    simp [Leaf.adj] at ha; subst ha; simp [Impl.adj, Leaf.adj, Impl.run, Leaf.run]
  | inner S F v => simp [Leaf.adj] at ha; subst ha; simp [Impl.adj, Leaf.adj, Impl.run, Leaf.run]
  | multField S F v =>
    simp [Leaf.adj] at ha; subst ha; simp [Impl.adj, Leaf.adj, Impl.run, Leaf.run]
  | _ => exact absurd h (by simp)

end

/-! ### sharp negative results (the recorded findings, on the model) and non-vacuity -/

section
open OdlModel.Adjoint

/-- Sensitivity (the repaired finding F7): the OLD `MatrixOperator.adjoint` — the bare conjugate
transpose, weightings ignored — is NOT the adjoint on a domain with array weights (2,1,1)
and an unweighted range: ⟨A e₀, f₀⟩_ran = 1 but ⟨e₀, Mᵀ f₀⟩_dom = 2.  So the weight factors
in `matrix_adj` cannot be dropped. -/
theorem C05.old_matrix_adj_fails :
    ∃ (d r : Space ℚ) (M : Nat → Nat → ℚ) (x y : El ℚ),
      d.m = 1 ∧ r.m = 1 ∧ d.n 0 = 3 ∧ r.n 0 = 2 ∧ (∀ i, r.W 0 i = 1) ∧ (∀ i, 0 < d.W 0 i) ∧
      dot (RingHom.id ℚ) r ((Leaf.matrix d r M).run (RingHom.id ℚ) 0 x) y ≠
        dot (RingHom.id ℚ) d x
          ((Leaf.matrix r d fun i k => M k i).run (RingHom.id ℚ) 0 y) := by
  refine ⟨⟨1, fun _ => 3, fun _ i => if i = 0 then 2 else 1, true⟩, ⟨1, fun _ => 2, fun _ _ => 1, true⟩,
    fun i k => if i = 0 ∧ k = 0 then 1 else 0, fun _ i => if i = 0 then 1 else 0,
    fun _ i => if i = 0 then 1 else 0, rfl, rfl, rfl, rfl, fun _ => rfl, ?_, ?_⟩
  · intro i; by_cases h : i = 0 <;> simp [h]
  · simp [dot, sumTo, Leaf.run]

/-- Non-vacuity of `adj_sound`: a concrete weighted tree
`3·(2·Id) + MultiplyOperator(v)` composed with a 2×2 matrix on `rn(2, weighting=1/2)`
is well formed and has an adjoint. -/
example :
    let S : Space ℚ := ⟨1, fun _ => 2, fun _ _ => 1 / 2, true⟩
    let t : Impl ℚ := .comp (.sum (.lscal (.leaf (.scaling S 2)) 3)
      (.leaf (.multiply S S fun _ i => (i : ℚ) + 1)))
      (.leaf (.matrix S S fun i k => (i : ℚ) - 2 * k))
    t.WT (RingHom.id ℚ) 0 ∧ (t.adj (RingHom.id ℚ) 0).isSome = true ∧ ¬ t.needRe := by
  intro S t
  refine ⟨?_, rfl, ?_⟩
  · simp only [t, Impl.WT, Leaf.WT, Impl.dom, Impl.ran, Leaf.dom, Leaf.ran]
    refine ⟨⟨⟨⟨by simp, by simp⟩, by simp⟩, ⟨trivial, by intro _ j i; simp⟩, trivial, trivial⟩,
      ⟨rfl, rfl, fun _ => by norm_num, fun _ _ => rfl, fun _ _ => rfl, trivial, by simp⟩, trivial⟩
  · simp [t, Impl.needRe, Leaf.needRe]

/-- Non-vacuity of `adj_adj_partial` + `leaf_adj_adj`: for the concrete weighted tree
`3·MatrixOperator(M) + 2·Id` on `rn(2, weighting=1/2)` the second adjoint exists and acts
like the tree. -/
example :
    let S : Space ℚ := ⟨1, fun _ => 2, fun _ _ => 1 / 2, true⟩
    let t : Impl ℚ := .sum (.lscal (.leaf (.matrix S S fun i k => (i : ℚ) - 2 * k)) 3)
      (.leaf (.scaling S 2))
    ∀ t', t.adj (RingHom.id ℚ) 0 = some t' →
      ∃ t'', t'.adj (RingHom.id ℚ) 0 = some t'' ∧
        t''.run (RingHom.id ℚ) 0 = t.run (RingHom.id ℚ) 0 := by
  intro S t t' h
  have him : ∀ s : ℚ, imK (RingHom.id ℚ) 0 ((RingHom.id ℚ) s) = 0 → (RingHom.id ℚ) s = s :=
    fun _ _ => rfl
  exact C05.adj_adj_partial (RingHom.id ℚ) (fun _ => rfl) 0 him t t' ⟨trivial, trivial⟩
    ⟨C05.leaf_adj_adj (RingHom.id ℚ) (fun _ => rfl) 0 him (.matrix S S _)
        ⟨fun _ => by norm_num, fun _ => by norm_num, fun _ _ => rfl, fun _ _ => rfl⟩,
      C05.leaf_adj_adj (RingHom.id ℚ) (fun _ => rfl) 0 him (.scaling S 2) trivial⟩ h

/-- Non-vacuity of `adj_adj` on vector multiples and FunctionalLeftVectorMult: for
`w·(M(v·x)) + z·⟨x, u⟩` on `rn(2, weighting=1/2)` all hypotheses hold (`leaf_adj_adj`,
`leaf_typed`), so the second adjoint exists and acts like the tree. -/
example :
    let S : Space ℚ := ⟨1, fun _ => 2, fun _ _ => 1 / 2, true⟩
    let F : Space ℚ := fieldSpace true
    let t : Impl ℚ := .sum
      (.lvec (.rvec (.leaf (.matrix S S fun i k => (i : ℚ) - 2 * k)) fun _ i => (i : ℚ) + 1)
        fun _ i => 3 - (i : ℚ))
      (.flvec (.leaf (.inner S F fun _ i => (i : ℚ) + 2)) S F fun _ i => 5 * (i : ℚ) - 1)
    ∀ t', t.adj (RingHom.id ℚ) 0 = some t' →
      ∃ t'', t'.adj (RingHom.id ℚ) 0 = some t'' ∧
        t''.run (RingHom.id ℚ) 0 = t.run (RingHom.id ℚ) 0 := by
  intro S F t t' h
  have him : ∀ s : ℚ, imK (RingHom.id ℚ) 0 ((RingHom.id ℚ) s) = 0 → (RingHom.id ℚ) s = s :=
    fun _ _ => rfl
  exact C05.adj_adj (RingHom.id ℚ) (fun _ => rfl) 0 him t t' ⟨trivial, trivial⟩
    ⟨C05.leaf_adj_adj (RingHom.id ℚ) (fun _ => rfl) 0 him (.matrix S S _)
        ⟨fun _ => by norm_num, fun _ => by norm_num, fun _ _ => rfl, fun _ _ => rfl⟩,
      C05.leaf_adj_adj (RingHom.id ℚ) (fun _ => rfl) 0 him (.inner S F _) trivial⟩
    ⟨C05.leaf_typed _ 0 (.matrix S S _) trivial, C05.leaf_typed _ 0 (.inner S F _) trivial⟩ h

/-- Non-vacuity of `run_add` + `leaf_run_add`: the action of the concrete tree
`3·M(v·x) + 2·x` is additive. -/
example (x y : El ℚ) :
    let S : Space ℚ := ⟨1, fun _ => 2, fun _ _ => 1 / 2, true⟩
    let t : Impl ℚ := .sum
      (.lscal (.rvec (.leaf (.matrix S S fun i k => (i : ℚ) - 2 * k)) fun _ i => (i : ℚ) + 1) 3)
      (.leaf (.scaling S 2))
    t.run (RingHom.id ℚ) 0 (fun j i => x j i + y j i) =
      fun j i => t.run (RingHom.id ℚ) 0 x j i + t.run (RingHom.id ℚ) 0 y j i := by
  intro S t
  exact C05.run_add _ 0 t ⟨C05.leaf_run_add (RingHom.id ℚ) 0 (.matrix S S _) trivial,
    C05.leaf_run_add (RingHom.id ℚ) 0 (.scaling S 2) trivial⟩ x y

end

/-! ### ROUND 4: n-d leaves (n-d sampling indices, Fortran-order flattening, MatrixOperator
along an axis).  The new leaves are `opaque` leaves whose two actions are EXECUTABLE model
functions (`flatFRun`, `flatFInvRun`, `matAxisRun`, `matAxisAdjM`; driver tokens `flatf`,
`flatfinv`, `mataxis`, `sampnd`, `wsumnd`, compared with the real code on the stream
`model/…-nd`), and the theorems below PROVE the contract `Leaf.WT` (= `Pair`) that
`adj_sound` needs for an opaque leaf — so trees over them are covered unconditionally. -/

section
variable {K : Type} [Field K] [DecidableEq K]

/-- `np.ravel_multi_index(mi, shape)` as modelled by `ravelC` lands inside the raveled array
whenever every index is inside its axis (all ranks, all shapes). -/
theorem C05.ravel_lt (sh mi : List Nat) (h : List.Forall₂ (· < ·) mi sh) :
    ravelC sh mi < shProd sh := ravelC_lt sh mi h

example : ravelC [2, 4] [1, 3] = 7 ∧ ravelC [2, 4] [1, 3] < shProd [2, 4] :=
  ⟨rfl, C05.ravel_lt _ _ (by simp)⟩

omit [DecidableEq K] in
/-- SamplingOperator / WeightedSumSamplingOperator on an n-d space (any rank): the flat index
the code computes with `np.ravel_multi_index` (model: `sampIdx shape pts`) satisfies the
conditions of `sampling_adj` / `wsum_sampling_adj` as soon as every sampling index lies inside
its axis — so those two theorems (arbitrary non-zero real weights, duplicates allowed) hold for
the n-d operators.  What is new here is the index bound; the contracts are the 1-d theorems. -/
theorem C05.sampling_nd_wt (cj : K →+* K) (I : K) (S R : Space K) (sh : List Nat)
    (pts : List (List Nat)) (integrate : Bool) (cv : K)
    (hS : S.m = 1) (hR : R.m = 1) (hSn : S.n 0 = shProd sh)
    (hW0 : ∀ i, S.W 0 i ≠ 0) (hWr : realW cj S) (hRW : ∀ k, R.W 0 k = 1)
    (hcv : cv ≠ 0) (hcvr : cj cv = cv) (hreal : R.real = S.real)
    (hpts : ∀ k, k < R.n 0 → List.Forall₂ (· < ·) (pts.map fun a => a.getD k 0) sh) :
    (Leaf.sampling S R (sampIdx sh pts) integrate cv).WT cj I ∧
    (Leaf.wsum R S (sampIdx sh pts) integrate cv).WT cj I := by
  have hidx : ∀ k, k < R.n 0 → sampIdx sh pts k < S.n 0 := fun k hk => by
    rw [hSn]; exact ravelC_lt sh _ (hpts k hk)
  exact ⟨⟨hS, hR, hW0, hWr, hRW, hcv, hcvr, hidx, hreal⟩,
    ⟨hS, hR, hW0, hWr, hRW, hcv, hcvr, hidx, hreal⟩⟩

/-- n-d SamplingOperator: `⟨Ax, y⟩ = ⟨x, A*y⟩` with `A* = (cv / W) · WeightedSumSampling`
(corollary of `sampling_nd_wt` and `sampling_adj`). -/
theorem C05.sampling_nd_adj (cj : K →+* K) (I : K) (S R : Space K) (sh : List Nat)
    (pts : List (List Nat)) (integrate : Bool) (cv : K)
    (hS : S.m = 1) (hR : R.m = 1) (hSn : S.n 0 = shProd sh)
    (hW0 : ∀ i, S.W 0 i ≠ 0) (hWr : realW cj S) (hRW : ∀ k, R.W 0 k = 1)
    (hcv : cv ≠ 0) (hcvr : cj cv = cv) (hreal : R.real = S.real)
    (hpts : ∀ k, k < R.n 0 → List.Forall₂ (· < ·) (pts.map fun a => a.getD k 0) sh) :
    ∀ t', (Leaf.sampling S R (sampIdx sh pts) integrate cv).adj cj I = some t' →
      Pair cj False S R ((Leaf.sampling S R (sampIdx sh pts) integrate cv).run cj I)
        (t'.run cj I) := fun t' h =>
  C05.sampling_adj cj I S R _ integrate cv t'
    (C05.sampling_nd_wt cj I S R sh pts integrate cv hS hR hSn hW0 hWr hRW hcv hcvr hreal hpts).1 h

/-- Non-vacuity: the 2-d sampling of the harness (`uniform_discr([0,0],[1,2],(2,4))`, points
(0,0),(1,3),(1,3),(0,2) — a duplicate) satisfies every hypothesis. -/
example :
    let S : Space ℚ := ⟨1, fun _ => 8, fun _ _ => 1 / 4, true⟩
    let R : Space ℚ := ⟨1, fun _ => 4, fun _ _ => 1, true⟩
    (Leaf.sampling S R (sampIdx [2, 4] [[0, 1, 1, 0], [0, 3, 3, 2]]) true (1 / 4)).WT
      (RingHom.id ℚ) 0 ∧ sampIdx [2, 4] [[0, 1, 1, 0], [0, 3, 3, 2]] 1 = 7 := by
  intro S R
  refine ⟨(C05.sampling_nd_wt (RingHom.id ℚ) 0 S R [2, 4] [[0, 1, 1, 0], [0, 3, 3, 2]] true (1 / 4)
    rfl rfl rfl (fun _ => by norm_num) (fun _ _ => rfl) (fun _ => rfl) (by norm_num) rfl rfl ?_).1,
    rfl⟩
  intro k hk
  have hk' : k < 4 := hk
  rcases k with _ | _ | _ | _ | k
  · simp
  · simp
  · simp
  · simp
  · omega

/-- FlatteningOperator(S, order='F') on an n-d space of ANY shape with ARBITRARY non-zero real
weights: `(1 / W) · inverse` (the coded adjoint, `inverse = np.reshape(·, shape, order='F')`)
satisfies `⟨Ax, y⟩ = ⟨x, A*y⟩`.  The Fortran-order permutation is the executable `cOfF`
(mixed-radix digit reversal), proved bijective on `range (prod shape)` for every shape. -/
theorem C05.flatten_F_adj (cj : K →+* K) (I : K) (S R : Space K) (sh : List Nat)
    (hS : S.m = 1) (hR : R.m = 1) (hSn : S.n 0 = shProd sh) (hRn : R.n 0 = shProd sh)
    (hW0 : ∀ i, S.W 0 i ≠ 0) (hWr : realW cj S) (hRW : ∀ k, R.W 0 k = 1)
    (hreal : R.real = S.real) :
    (Leaf.flattenF S R sh).WT cj I := by
  show Pair cj (false = true) S R _ _
  refine ⟨?_, ?_, ?_⟩
  · intro x hx h j i
    exact hx (by rw [← hreal]; exact h) 0 _
  · intro y hy h j k
    have := hy (by rw [hreal]; exact h) 0 (fOfC sh k)
    simp [flatFInvRun, this, hWr _ _]
  · intro φ _ x y _ _
    congr 1
    simp only [dot_eq, hS, hR, sum_range_one, hSn, hRn, hRW, one_mul, flatFRun, flatFInvRun]
    conv_rhs => rw [← sum_cOfF sh]
    refine sum_congr rfl fun i hi => ?_
    rw [fOfC_cOfF sh i (mem_range.mp hi), map_mul, map_div₀, map_one, hWr 0 _]
    have := hW0 (cOfF sh i)
    field_simp

/-- FlatteningOperator(S, order='F').inverse: the coded adjoint `op ∘ (W ·)` is the adjoint,
for any shape and arbitrary real weights. -/
theorem C05.flatten_F_inverse_adj (cj : K →+* K) (I : K) (R S : Space K) (sh : List Nat)
    (hS : S.m = 1) (hR : R.m = 1) (hSn : S.n 0 = shProd sh) (hRn : R.n 0 = shProd sh)
    (hWr : realW cj S) (hRW : ∀ k, R.W 0 k = 1)
    (hreal : R.real = S.real) :
    (Leaf.flattenFInv R S sh).WT cj I := by
  show Pair cj (false = true) R S _ _
  refine ⟨?_, ?_, ?_⟩
  · intro y hy h j k
    exact hy (by rw [hreal]; exact h) 0 _
  · intro x hx h j i
    have := hx (by rw [← hreal]; exact h) 0 (cOfF sh i)
    simp [flatFRun, this, hWr _ _]
  · intro φ _ y x _ _
    congr 1
    simp only [dot_eq, hS, hR, sum_range_one, hSn, hRn, hRW, one_mul, flatFRun, flatFInvRun]
    conv_lhs => rw [← sum_cOfF sh]
    refine sum_congr rfl fun i hi => ?_
    rw [fOfC_cOfF sh i (mem_range.mp hi), map_mul, hWr 0 _]
    ring

/-- Non-vacuity and use: on `uniform_discr([0,0],[1,1.5],(2,3))` (cell volume 1/4) the F-order
flattening leaf satisfies its contract, hence so does the tree `3 · Flatten_F` by `adj_sound`
(no leaf hypothesis left); and the permutation is not the identity. -/
example :
    let S : Space ℚ := ⟨1, fun _ => 6, fun _ _ => 1 / 4, true⟩
    let R : Space ℚ := ⟨1, fun _ => 6, fun _ _ => 1, true⟩
    let t : Impl ℚ := .lscal (.leaf (Leaf.flattenF S R [2, 3])) 3
    t.WT (RingHom.id ℚ) 0 ∧ (t.adj (RingHom.id ℚ) 0).isSome = true ∧ cOfF [2, 3] 1 = 3 := by
  intro S R t
  exact ⟨⟨C05.flatten_F_adj (RingHom.id ℚ) 0 S R [2, 3] rfl rfl rfl rfl (fun _ => by norm_num)
    (fun _ _ => rfl) (fun _ => rfl) rfl, fun _ => rfl, fun _ => rfl⟩, rfl, rfl⟩

example :
    let S : Space ℚ := ⟨1, fun _ => 6, fun _ _ => 1 / 4, true⟩
    let R : Space ℚ := ⟨1, fun _ => 6, fun _ _ => 1, true⟩
    (Leaf.flattenFInv R S [2, 3]).WT (RingHom.id ℚ) 0 :=
  C05.flatten_F_inverse_adj (RingHom.id ℚ) 0 _ _ [2, 3] rfl rfl rfl rfl (fun _ _ => rfl)
    (fun _ => rfl) rfl

/-- MatrixOperator(M, domain=d, range=r, axis=a) on n-d tensors of shape `(p, n, q)` →
`(p, m, q)` (`p`, `q` = products of the axes before / after `a`; any rank, any sizes) with
CONSTANT real weightings `wd ≠ 0`, `wr` (this includes cell volumes): the coded adjoint
`MatrixOperator(Mᴴ · (wr / wd), domain=r, range=d, axis=a)` (factor omitted by the code when
`wd = wr`) satisfies `⟨Ax, y⟩_r = ⟨x, A*y⟩_d`; real or complex. -/
theorem C05.matrix_axis_adj (cj : K →+* K) (hcj : ∀ a, cj (cj a) = a) (I : K) (d r : Space K)
    (p n m q : Nat) (wd wr : K) (M : Nat → Nat → K)
    (hd : d.m = 1) (hr : r.m = 1) (hdn : d.n 0 = p * (n * q)) (hrn : r.n 0 = p * (m * q))
    (hWd : ∀ i, d.W 0 i = wd) (hWr : ∀ o, r.W 0 o = wr) (hwd0 : wd ≠ 0)
    (hwdr : cj wd = wd) (hwrr : cj wr = wr) (hdr : d.real = r.real)
    (hM : d.real = true → ∀ i k, cj (M i k) = M i k) :
    (Leaf.matrixAxis cj d r n m q (some (wd, wr)) M).WT cj I := by
  show Pair cj (false = true) d r _ _
  refine ⟨?_, ?_, ?_⟩
  · intro x hx h j o
    have hxr : ∀ j i, cj (x j i) = x j i := hx (hdr ▸ h)
    simp only [matAxisRun, sumTo_eq, map_sum, map_mul, hM (hdr ▸ h), hxr]
  · intro y hy h j o
    have hyr : ∀ j i, cj (y j i) = y j i := hy (hdr ▸ h)
    simp only [matAxisRun, matAxisAdjM, sumTo_eq, map_sum, map_mul, hyr]
    refine sum_congr rfl fun k _ => ?_
    by_cases e : wd = wr
    · simp [e, hM h]
    · simp [e, hM h, map_div₀, hwdr, hwrr]
  · intro φ _ x y _ _
    congr 1
    simp only [dot_eq, hd, hr, sum_range_one, hdn, hrn, hWd, hWr]
    refine matAxis_dot cj p n m q M _ wr wd ?_ x y
    intro k i
    simp only [matAxisAdjM]
    by_cases e : wd = wr
    · simp [e, hcj]
    · simp only [e, if_false, map_mul, map_div₀, hcj, hwdr, hwrr]
      field_simp

/-- Non-vacuity: `MatrixOperator(M, domain=rn((2,3), weighting=1/2), range=rn((2,3),
weighting=2), axis=0)` (p = 1, n = m = 2, q = 3). -/
example :
    let d : Space ℚ := ⟨1, fun _ => 6, fun _ _ => 1 / 2, true⟩
    let r : Space ℚ := ⟨1, fun _ => 6, fun _ _ => 2, true⟩
    (Leaf.matrixAxis (RingHom.id ℚ) d r 2 2 3 (some (1 / 2, 2)) fun i k => (i : ℚ) - 2 * k).WT
      (RingHom.id ℚ) 0 :=
  C05.matrix_axis_adj (RingHom.id ℚ) (fun _ => rfl) 0 _ _ 1 2 2 3 (1 / 2) 2 _ rfl rfl rfl rfl
    (fun _ => rfl) (fun _ => rfl) (by norm_num) rfl rfl rfl (fun _ _ _ => rfl)

end

section
open OdlModel.Adjoint

/-- Open finding F7 on the model: on an n-d domain with an ARRAY weighting the code returns the
bare conjugate transpose (`matAxisAdjM … none`), which is NOT the adjoint:
`MatrixOperator([[0,1],[0,0]], domain=rn((2,1), weighting=[[1],[2]]), axis=0)` has
`⟨A e₁, f₀⟩ = 1` but `⟨e₁, A* f₀⟩ = 2`.  So `matrix_axis_adj` cannot be extended to
`cw = none` with non-constant weights. -/
theorem C05.matrix_axis_array_fails :
    ∃ (d : Space ℚ) (M : Nat → Nat → ℚ) (x y : El ℚ),
      d.m = 1 ∧ d.n 0 = 2 ∧ (∀ i, 0 < d.W 0 i) ∧
      dot (RingHom.id ℚ) d (matAxisRun 2 2 1 M x) y ≠
        dot (RingHom.id ℚ) d x (matAxisRun 2 2 1 (matAxisAdjM (RingHom.id ℚ) none M) y) := by
  refine ⟨⟨1, fun _ => 2, fun _ i => if i = 0 then 1 else 2, true⟩,
    fun i k => if i = 0 ∧ k = 1 then 1 else 0, fun _ i => if i = 1 then 1 else 0,
    fun _ i => if i = 0 then 1 else 0, rfl, rfl, ?_, ?_⟩
  · intro i; by_cases h : i = 0 <;> simp [h]
  · simp [dot, sumTo, matAxisRun, matAxisAdjM]

end

/-! ### ROUND 4: finite-difference leaves.  `PartialDerivative` on a space of any ndim is the
C13 model of `finite_diff` (tables GENERATED from odl/discr/diff_ops.py into Gen/FiniteDiff)
applied along one axis (`Leaf.partialDeriv`, driver token `pderiv`, stream `model/partialderiv`
in the operator zoo and in the random trees). -/

section
open OdlModel.FiniteDiff OdlModel.Gen.FiniteDiff
variable {K : Type} [Field K] [DecidableEq K]

/-- For each of the 30 generated `(method, pad_mode)` leaves the leaf selected by `_ADJ_METHOD`,
`_ADJ_PADDING` passes the verified corner checker (same statement as C13's
`adj_tables_transposed`, re-decided here on the same generated tables so that this file does
not depend on C13's property file). -/
theorem C05.fd_tables_transposed (m : Method) (p : Pad) :
    adjOK (tbl m p) (tbl (adjMethod m) (adjPad p)) = true := by
  cases m <;> cases p <;> decide

omit [DecidableEq K] in
/-- 1-d core (C13's `fd_adjoint_transpose` in the form C05 needs): `Σ gᵢ (D f)ᵢ = Σ fⱼ (−D' g)ⱼ`
for every method, pad mode and axis length on which both leaves run. -/
theorem C05.fd_transpose (m : Method) (p : Pad) (n : Nat)
    (h : sizeCheck guards (tbl m p) p n = none)
    (h' : sizeCheck guards (tbl (adjMethod m) (adjPad p)) (adjPad p) n = none)
    (dx : K) (f g : Nat → K) :
    ∑ i ∈ range n, g i * fd den (tbl m p) n 0 dx f i
      = ∑ j ∈ range n, f j * -(fd den (tbl (adjMethod m) (adjPad p)) n 0 dx g j) := by
  have hn := sizeCheck_none h
  have hn' := sizeCheck_none h'
  obtain ⟨k, rfl⟩ : ∃ k, n = k + 2 := ⟨n - 2, by have := (tbl m p).two_le_need; omega⟩
  have key := pair_adjoint (K := K) _ _ (C05.fd_tables_transposed m p) k f g
    ((tbl m p).accs_fit hn) ((tbl _ _).accs_fit hn')
  rw [sum_congr rfl (fun j _ => mul_neg _ _), sum_neg_distrib]
  simp only [fd, div_eq_mul_inv, ← mul_assoc, ← Finset.sum_mul]
  rw [eq_neg_iff_add_eq_zero, ← add_mul, key, zero_mul]

/-- PartialDerivative(S, axis, method, pad_mode) (linear case `pad_const = 0`) on a space of
ANY ndim and shape `(p, n, q)` around `axis`, real or complex, whose inner product has a
CONSTANT weight `w` (uniformly discretized spaces: the cell volume): the coded adjoint
`-PartialDerivative(S, axis, _ADJ_METHOD[method], _ADJ_PADDING[pad_mode])` satisfies
`⟨Ax, y⟩ = ⟨x, A*y⟩` in the space's own weighted, sesquilinear inner product, for every
method, every pad mode and every axis length the code accepts (`sizeCheck = none`).
NOT covered: `nodes_on_bdry` discretizations (non-constant weights: open finding F60). -/
theorem C05.partial_deriv_adj (cj : K →+* K) (I : K) (D R : Space K)
    (p n q : Nat) (me : Method) (pa : Pad) (dx w : K)
    (hD : D.m = 1) (hR : R.m = 1) (hDn : D.n 0 = p * (n * q)) (hRn : R.n 0 = p * (n * q))
    (hDW : ∀ i, D.W 0 i = w) (hRW : ∀ i, R.W 0 i = w) (hreal : R.real = D.real)
    (hdx : cj dx = dx)
    (h : sizeCheck guards (tbl me pa) pa n = none)
    (h' : sizeCheck guards (tbl (adjMethod me) (adjPad pa)) (adjPad pa) n = none) :
    (Leaf.partialDeriv D R n q me pa dx).WT cj I := by
  have hn : 2 ≤ n := le_trans (tbl me pa).two_le_need (sizeCheck_none h)
  have hc : ∀ (t : Table) (y : El K) (j o : Nat), cj (axisRun n n q (fd den t n 0 dx) y j o) =
      axisRun n n q (fd den t n 0 dx) (fun j i => cj (y j i)) j o := by
    intro t y j o
    simp only [axisRun, fd_conj cj t n hn, hdx]
  show Pair cj (false = true) D R _ _
  refine ⟨?_, ?_, ?_⟩
  · intro x hx hr j o
    rw [hc]; congr 1; funext j i; exact hx (hreal ▸ hr) j i
  · intro y hy hr j o
    rw [map_neg, hc]; congr 2; funext j i; exact hy (hreal ▸ hr) j i
  · intro φ _ x y _ _
    congr 1
    simp only [dot_eq, hD, hR, sum_range_one, hDn, hRn, hDW, hRW, map_neg, hc]
    exact axis_dot p n n q _ (fun g k => -(fd den (tbl (adjMethod me) (adjPad pa)) n 0 dx g k))
      (fun f g => C05.fd_transpose me pa n h h' dx f g) w x (fun j i => cj (y j i))

/-- Non-vacuity and use: `PartialDerivative(uniform_discr([0,0],[1.5,2],(3,4)), axis=0,
method='central', pad_mode='order2_adjoint')` (p = 1, n = 3, q = 4, cell volume 1/4) satisfies
its contract, hence the tree `3·∂₀ + ∂₀` is covered by `adj_sound` with no leaf hypothesis. -/
example :
    let S : Space ℚ := ⟨1, fun _ => 12, fun _ _ => 1 / 4, true⟩
    let l : Leaf ℚ := Leaf.partialDeriv S S 3 4 .central .order2Adj (1 / 2)
    let t : Impl ℚ := .sum (.lscal (.leaf l) 3) (.leaf l)
    t.WT (RingHom.id ℚ) 0 ∧ (t.adj (RingHom.id ℚ) 0).isSome = true := by
  intro S l t
  have hl : l.WT (RingHom.id ℚ) 0 :=
    C05.partial_deriv_adj (RingHom.id ℚ) 0 S S 1 3 4 .central .order2Adj (1 / 2) (1 / 4)
      rfl rfl rfl rfl (fun _ => rfl) (fun _ => rfl) rfl rfl (by decide) (by decide)
  exact ⟨⟨⟨hl, fun _ => rfl, fun _ => rfl⟩, hl, rfl, rfl⟩, rfl⟩


/-- Gradient(S, method, pad_mode) : S → V = S^d and Divergence(V → S, method, pad_mode) on a
uniformly discretized space of ANY ndim `d` and shape, range / domain the UNWEIGHTED power space
(every block carries the constant weight `w` of `S`): the block column / block row of the `d`
partial derivatives (`gradTree`, `divTree` — executed by the driver and compared exactly with
`Gradient` / `Divergence` of the real code on the streams `model/gradient`, `model/divergence`)
is a well-formed tree ALL of whose leaf contracts are proved; so by `adj_sound` its model
adjoint (block transposition of `-∂ₐ'`, acting like the coded `-Divergence(_ADJ_METHOD,
_ADJ_PADDING)` resp. `-Gradient(…)`) satisfies `⟨Ax, y⟩ = ⟨x, A*y⟩`, for every method, pad mode
and admissible shape.  NOT covered: weighted power spaces (open finding F56), `nodes_on_bdry`
(F60). -/
theorem C05.gradient_adj (cj : K →+* K) (I : K) (S V : Space K) (sh : List Nat)
    (me : Method) (pa : Pad) (dx : Nat → K) (w : K) (d : Nat)
    (hd : d ≤ V.m) (hSm : 0 < S.m) (hlen : d ≤ sh.length)
    (hSn : S.n 0 = shProd sh) (hVn : ∀ a < d, V.n a = shProd sh)
    (hSW : ∀ i, S.W 0 i = w) (hVW : ∀ a < d, ∀ i, V.W a i = w) (hreal : V.real = S.real)
    (hdx : ∀ a < d, cj (dx a) = dx a)
    (h : ∀ a < d, sizeCheck guards (tbl me pa) pa (sh.getD a 0) = none)
    (h' : ∀ a < d, sizeCheck guards (tbl (adjMethod me) (adjPad pa)) (adjPad pa) (sh.getD a 0) = none) :
    (gradTree S V sh me pa dx d).WT cj I ∧ (divTree V S sh me pa dx d).WT cj I := by
  induction d with
  | zero => exact ⟨trivial, trivial⟩
  | succ a ih =>
    have ih' := ih (by omega) (by omega) (fun b hb => hVn b (by omega))
      (fun b hb => hVW b (by omega)) (fun b hb => hdx b (by omega))
      (fun b hb => h b (by omega)) (fun b hb => h' b (by omega))
    have hs := shProd_split sh a (by omega)
    obtain ⟨g1, g2, g3⟩ := gradTree_shape S V sh me pa dx a
    obtain ⟨d1, d2, d3⟩ := divTree_shape V S sh me pa dx a
    refine ⟨⟨?_, ih'.1, g3, by rw [g2]; omega, by rw [g1]; exact hSm, by rw [g1]; rfl, by rw [g2]; rfl⟩,
      ⟨?_, ih'.2, d3, by rw [d2]; exact hSm, by rw [d1]; omega, by rw [d1]; rfl, by rw [d2]; rfl⟩⟩
    · exact C05.partial_deriv_adj cj I (S.comp 0) (V.comp a) (shProd (sh.take a)) _ _ me pa (dx a) w
        rfl rfl (by simp only [Space.comp]; rw [hSn, hs]) (by simp only [Space.comp]; rw [hVn a (by omega), hs])
        (fun i => hSW i) (fun i => hVW a (by omega) i) hreal (hdx a (by omega))
        (h a (by omega)) (h' a (by omega))
    · exact C05.partial_deriv_adj cj I (V.comp a) (S.comp 0) (shProd (sh.take a)) _ _ me pa (dx a) w
        rfl rfl (by simp only [Space.comp]; rw [hVn a (by omega), hs]) (by simp only [Space.comp]; rw [hSn, hs])
        (fun i => hVW a (by omega) i) (fun i => hSW i) hreal.symm (hdx a (by omega))
        (h a (by omega)) (h' a (by omega))

/-- Non-vacuity and use: Gradient / Divergence on `uniform_discr([0,0],[1.5,2],(3,4))` (cell
volume 1/4), method `forward`, pad mode `symmetric`: both trees are well formed, so
`adj_identity` applies to them with no hypothesis left. -/
example :
    let S : Space ℚ := ⟨1, fun _ => 12, fun _ _ => 1 / 4, true⟩
    let V : Space ℚ := ⟨2, fun _ => 12, fun _ _ => 1 / 4, true⟩
    (gradTree S V [3, 4] .forward .symmetric (fun _ => 1 / 2) 2).WT (RingHom.id ℚ) 0 ∧
      (divTree V S [3, 4] .forward .symmetric (fun _ => 1 / 2) 2).WT (RingHom.id ℚ) 0 ∧
      ((gradTree S V [3, 4] .forward .symmetric (fun _ => (1 / 2 : ℚ)) 2).adj
        (RingHom.id ℚ) 0).isSome = true := by
  intro S V
  have h := C05.gradient_adj (RingHom.id ℚ) 0 S V [3, 4] .forward .symmetric (fun _ => 1 / 2)
    (1 / 4) 2 (le_refl 2) (by decide) (le_refl 2) rfl (fun _ _ => rfl) (fun _ => rfl)
    (fun _ _ _ => rfl) rfl (fun _ _ => rfl)
    (fun a ha => match a, ha with | 0, _ => by decide | 1, _ => by decide)
    (fun a ha => match a, ha with | 0, _ => by decide | 1, _ => by decide)
  exact ⟨h.1, h.2, rfl⟩


omit [DecidableEq K] in
/-- 1-d: forward minus backward difference has the same rows for a pad mode and its
`_ADJ_PADDING` partner, for the pad modes `Laplacian` accepts — this is why returning the SAME
pad mode in `Laplacian.adjoint` is right (same statement as C13's `laplacian_rows_adj_invariant`,
re-proved here on the generated tables). -/
theorem C05.lap_rows_adj_invariant (p : Pad) (hp : p ∉ lapRejected)
    (n : Nat) (hn : 2 ≤ n) (dx : K) (f : Nat → K) (i : Nat) :
    lap1 n p dx f i = lap1 n (adjPad p) dx f i := by
  simp only [lap1, fd, fdNum_closed _ n hn]
  cases p <;> simp [lapRejected] at hp <;>
    simp [tbl, adjPad, accSum, evalTerms, evalTerm, interior] <;> split_ifs <;> ring

omit [DecidableEq K] in
/-- 1-d core: one axis of the Laplacian (`forward − backward`, spacing `dx²`, same pad mode) is
self-transposed, for every accepted pad mode and every axis length on which the four leaves run. -/
theorem C05.lap1_selfadjoint (p : Pad) (hp : p ∉ lapRejected) (n : Nat)
    (h1 : sizeCheck guards (tbl .forward p) p n = none)
    (h2 : sizeCheck guards (tbl .backward p) p n = none)
    (h3 : sizeCheck guards (tbl .forward (adjPad p)) (adjPad p) n = none)
    (h4 : sizeCheck guards (tbl .backward (adjPad p)) (adjPad p) n = none)
    (dx : K) (f g : Nat → K) :
    ∑ i ∈ range n, g i * lap1 n p dx f i = ∑ k ∈ range n, f k * lap1 n p dx g k := by
  have hn : 2 ≤ n := le_trans (tbl .forward p).two_le_need (sizeCheck_none h1)
  have a1 := C05.fd_transpose .forward p n h1 h4 dx f g
  have a2 := C05.fd_transpose .backward p n h2 h3 dx f g
  simp only [adjMethod] at a1 a2
  have e : ∑ k ∈ range n, f k * lap1 n p dx g k = ∑ k ∈ range n, f k * lap1 n (adjPad p) dx g k :=
    sum_congr rfl fun k _ => by rw [C05.lap_rows_adj_invariant p hp n hn dx g k]
  rw [e]
  simp only [lap1, mul_sub, sum_sub_distrib, mul_neg, sum_neg_distrib] at *
  rw [a1, a2]; ring

/-- Laplacian(S, pad_mode) (linear case `pad_const = 0`) on a uniformly discretized space of ANY
ndim and shape with constant weight `w` (cell volume), real or complex: the sum over the axes
as executed by `Laplacian._call` (`lapTree`, driver token `lap`, compared exactly with the real
`Laplacian` on the stream `model/laplacian`) is a well-formed tree whose leaf contracts are all
proved, and its model adjoint is the same sum — what `Laplacian.adjoint` returns
(`Laplacian(range, domain, pad_mode=self.pad_mode)`); so `adj_sound` gives
`⟨Lx, y⟩ = ⟨x, L*y⟩` for every pad mode the class accepts.  NOT covered: `nodes_on_bdry`
discretizations (F60). -/
theorem C05.laplacian_adj (cj : K →+* K) (I : K) (S : Space K) (sh : List Nat) (pa : Pad)
    (dx : Nat → K) (w : K) (d : Nat) (hp : pa ∉ lapRejected)
    (hS : S.m = 1) (hlen : d ≤ sh.length) (hSn : S.n 0 = shProd sh) (hSW : ∀ i, S.W 0 i = w)
    (hdx : ∀ a < d, cj (dx a) = dx a)
    (h1 : ∀ a < d, sizeCheck guards (tbl .forward pa) pa (sh.getD a 0) = none)
    (h2 : ∀ a < d, sizeCheck guards (tbl .backward pa) pa (sh.getD a 0) = none)
    (h3 : ∀ a < d, sizeCheck guards (tbl .forward (adjPad pa)) (adjPad pa) (sh.getD a 0) = none)
    (h4 : ∀ a < d, sizeCheck guards (tbl .backward (adjPad pa)) (adjPad pa) (sh.getD a 0) = none) :
    (lapTree S sh pa dx d).WT cj I ∧ (lapTree S sh pa dx d).dom = S ∧
      (lapTree S sh pa dx d).ran = S := by
  induction d with
  | zero => exact ⟨trivial, rfl, rfl⟩
  | succ a ih =>
    obtain ⟨w1, d1, r1⟩ := ih (by omega) (fun b hb => hdx b (by omega)) (fun b hb => h1 b (by omega))
      (fun b hb => h2 b (by omega)) (fun b hb => h3 b (by omega)) (fun b hb => h4 b (by omega))
    refine ⟨⟨w1, ?_, by rw [d1]; rfl, by rw [r1]; rfl⟩, d1, r1⟩
    set n := sh.getD a 0
    set q := shProd (sh.drop (a + 1))
    have hs := shProd_split sh a (by omega)
    have hn : 2 ≤ n := le_trans (tbl .forward pa).two_le_need (sizeCheck_none (h1 a (by omega)))
    have hdxa : cj (dx a * dx a) = dx a * dx a := by rw [map_mul, hdx a (by omega)]
    have hc : ∀ (y : El K) (j o : Nat), cj (axisRun n n q (lap1 n pa (dx a * dx a)) y j o) =
        axisRun n n q (lap1 n pa (dx a * dx a)) (fun j i => cj (y j i)) j o := by
      intro y j o
      simp only [axisRun, lap1, map_sub, fd_conj cj _ n hn, hdxa]
    show Pair cj (false = true) S S _ _
    refine ⟨?_, ?_, ?_⟩
    · intro x hx hr j o
      rw [hc]; congr 1; funext j i; exact hx hr j i
    · intro y hy hr j o
      rw [hc]; congr 1; funext j i; exact hy hr j i
    · intro φ _ x y _ _
      congr 1
      simp only [dot_eq, hS, sum_range_one, hSn, hs, hSW, hc]
      exact axis_dot (shProd (sh.take a)) n n q _ _
        (fun f g => C05.lap1_selfadjoint pa hp n (h1 a (by omega)) (h2 a (by omega))
          (h3 a (by omega)) (h4 a (by omega)) (dx a * dx a) f g) w x (fun j i => cj (y j i))

/-- Non-vacuity: Laplacian on `uniform_discr([0,0],[1.5,2],(3,4))`, pad mode `symmetric`. -/
example :
    let S : Space ℚ := ⟨1, fun _ => 12, fun _ _ => 1 / 4, true⟩
    (lapTree S [3, 4] .symmetric (fun _ => 1 / 2) 2).WT (RingHom.id ℚ) 0 ∧
      ((lapTree S [3, 4] .symmetric (fun _ => (1 / 2 : ℚ)) 2).adj (RingHom.id ℚ) 0).isSome = true := by
  intro S
  exact ⟨(C05.laplacian_adj (RingHom.id ℚ) 0 S [3, 4] .symmetric (fun _ => 1 / 2) (1 / 4) 2
    (by decide) rfl (le_refl 2) rfl (fun _ => rfl) (fun _ _ => rfl)
    (fun a ha => match a, ha with | 0, _ => by decide | 1, _ => by decide)
    (fun a ha => match a, ha with | 0, _ => by decide | 1, _ => by decide)
    (fun a ha => match a, ha with | 0, _ => by decide | 1, _ => by decide)
    (fun a ha => match a, ha with | 0, _ => by decide | 1, _ => by decide)).1, rfl⟩

end

/-! ### non-vacuity over ℂ: a tree mixing real and complex spaces under a complex scalar -/

noncomputable section
open OdlModel.Adjoint Classical

/-- `WT` is satisfiable for a `needRe` tree with a genuinely complex scalar node over ℂ with
complex conjugation: `2i · (ComplexEmbedding(rn(2)) ∘ RealPart(cn(2)))` on spaces weighted
by 1/2 — the operator of the repaired defect 8305fd0.  `adj_sound` therefore applies to it. -/
example :
    let cjC : ℂ →+* ℂ := starRingEnd ℂ
    let R : Space ℂ := ⟨1, fun _ => 2, fun _ _ => 1 / 2, true⟩
    let C : Space ℂ := ⟨1, fun _ => 2, fun _ _ => 1 / 2, false⟩
    let t : Impl ℂ := .lscal (.comp (.leaf (.cembed R C 1)) (.leaf (.realPart C R))) (2 * Complex.I)
    t.WT cjC Complex.I ∧ t.needRe ∧ (t.adj cjC Complex.I).isSome = true := by
  intro cjC R C t
  have h2 : (2 : ℂ) ≠ 0 := by norm_num
  have hW : ∀ S : Space ℂ, (∀ j i, S.W j i = 1 / 2) → realW cjC S := by
    intro S h j i; rw [h]; simp [cjC, map_ofNat]
  refine ⟨⟨⟨⟨rfl, fun _ => ⟨hW R (fun _ _ => rfl), h2, ⟨Complex.I_mul_I, Complex.conj_I⟩⟩⟩,
    ⟨rfl, hW C (fun _ _ => rfl), h2⟩, rfl⟩, fun h => by simp [Impl.ran, Leaf.ran, C] at h, ?_⟩,
    ?_, ?_⟩
  · intro h
    exfalso
    simp only [imK, cjC, map_mul, Complex.conj_I, map_ofNat] at h
    rw [map_neg, Complex.conj_I, neg_neg] at h
    have e : (2 * Complex.I - 2 * -Complex.I) * Complex.I / 2 = -2 := by
      have : (2 * Complex.I - 2 * -Complex.I) * Complex.I = 4 * (Complex.I * Complex.I) := by ring
      rw [this, Complex.I_mul_I]; norm_num
    rw [e] at h; norm_num at h
  · simp [t, Impl.needRe, Leaf.needRe, R, C]
  · simp only [t, Impl.adj, Leaf.adj, R, C]
    have e1 : reK (⇑cjC) (1 : ℂ) = 1 := by simp [reK, cjC]
    simp [e1, Option.bind]

/-- Sensitivity (the repaired defect 8305fd0, on the model over ℂ): the OLD rule
`OperatorLeftScalarMult(A, s).adjoint = conj(s)·A*` violates even the real-part identity when
`A*` is only real-linear: for `A = ComplexEmbedding ∘ RealPart` on one complex entry, `s = i`,
`x = 1`, `y = i`:  Re⟨i·A x, y⟩ = 1 but Re⟨x, conj(i)·A* y⟩ = 0.  (The rule now coded,
`A*(conj(s)·y)`, is covered by `adj_sound`.) -/
theorem C05.old_lscal_adj_fails :
    let cjC : ℂ →+* ℂ := starRingEnd ℂ
    let R : Space ℂ := ⟨1, fun _ => 1, fun _ _ => 1, true⟩
    let C : Space ℂ := ⟨1, fun _ => 1, fun _ _ => 1, false⟩
    -- a = ComplexEmbedding(R) ∘ RealPart(C): x ↦ Re x, with the adjoint a' the code returns
    let a : Impl ℂ := .comp (.leaf (.cembed R C 1)) (.leaf (.realPart C R))
    ∃ a', a.adj cjC Complex.I = some a' ∧
      (dot cjC C ((Impl.lscal a Complex.I).run cjC Complex.I fun _ _ => 1)
        (fun _ _ => Complex.I)).re ≠
      (dot cjC C (fun _ _ => 1)
        ((Impl.lscal a' (cjC Complex.I)).run cjC Complex.I fun _ _ => Complex.I)).re := by
  intro cjC R C a
  have e1 : reK (⇑cjC) (1 : ℂ) = 1 := by simp [reK, cjC]
  have e0 : imK (⇑cjC) Complex.I (1 : ℂ) = 0 := by simp [imK, cjC]
  refine ⟨_, by simp [a, Impl.adj, Leaf.adj, R, C, e1]; rfl, ?_⟩
  simp [dot, sumTo, Impl.run, Leaf.run, R, C, e1, e0, reK, cjC]
  simp [a, Impl.run, Leaf.run, R, C, reK, imK]

end
