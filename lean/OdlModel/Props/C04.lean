/-
C04 — operator arithmetic means what the algebra table says, for arbitrary expressions.
Property theorems only.  Model: `Model/OpAlgebra.lean` (surface `Expr`/`den` = the documented
table; `build` = the overload dispatch of `odl/operator/operator.py` and the `Functional`
overrides as coded; `run`/`runIn` = the `_call` of the expression classes).
All statements are for every field `K` (ℚ, ℝ, ℂ, …), every expression (no depth bound),
every scalar (0 included), every vector, every evaluation point and arbitrary (nonlinear)
leaf operators.
-/
import OdlModel.Lemmas.OpAlgebra

open OdlModel.OpAlgebra

/-- Work-horse (soundness together with the invariant that makes it inductive).
If the Python expression `e` builds an operator object `i` (does not raise), then
`i(x)` is the documented-table value of `e` at every point `x`, AND `i` satisfies the
invariant: a result that is a `Functional` returns scalars, a result whose `is_linear`
flag is set is a linear map.  Assumption on the opaque leaves (`EnvOK`): a leaf flagged
linear is linear, a `Functional` leaf returns a scalar; unflagged leaves are arbitrary. -/
theorem C04.build_sound_inv {K : Type} [Field K] [DecidableEq K]
    (env : Nat → Vec K → Vec K) (e : Expr K) (henv : EnvOK env e) :
    ∀ i, build env e = some i → (∀ x, run env i x = den env e x) ∧ Inv env i := by
  induction e with
  | leaf l =>
    intro i h
    simp only [build, Option.some.injEq] at h
    subst h
    exact ⟨fun x => rfl, ⟨fun hf => henv.2 hf, fun hl => henv.1 hl⟩⟩
  | neg a ih =>
    intro i h
    simp only [build, Option.map_eq_some_iff] at h
    obtain ⟨a', ha', rfl⟩ := h
    obtain ⟨hs, hinv⟩ := ih henv a' ha'
    refine ⟨fun x => ?_, inv_opRMulScal env _ hinv⟩
    rw [run_opRMulScal, hs x]
    funext j; simp [den]
  | pow a n ih =>
    intro i h
    simp only [build, Option.bind_eq_some_iff] at h
    obtain ⟨a', ha', h⟩ := h
    obtain ⟨hs, hinv⟩ := ih henv a' ha'
    have hfun : run env a' = den env a := funext hs
    match n, h with
    | 1, h =>
      simp only [opPow, Option.some.injEq] at h
      subst h
      exact ⟨fun x => by simp [den, iter, hs x], hinv⟩
    | k + 2, h =>
      simp only [opPow] at h
      split_ifs at h
      cases h
      refine ⟨fun x => ?_, inv_powAux env hinv k⟩
      rw [run_powAux, hfun]; rfl
  | bin o a b iha ihb =>
    intro i h
    cases ha : build env a with
    | none => simp [build, ha] at h
    | some a' =>
      cases hb : build env b with
      | none => simp [build, ha, hb] at h
      | some b' =>
        obtain ⟨hsa, hia⟩ := iha henv.1 a' ha
        obtain ⟨hsb, hib⟩ := ihb henv.2 b' hb
        simp only [build, ha, hb] at h
        cases o with
        | add =>
          simp only at h
          refine ⟨fun x => ?_, inv_opAdd env h hia hib⟩
          rw [run_opAdd env h, hsa x, hsb x]; rfl
        | sub =>
          simp only at h
          refine ⟨fun x => ?_, inv_opAdd env h hia (inv_opRMulScal env _ hib)⟩
          rw [run_opAdd env h, run_opRMulScal, hsa x, hsb x]
          funext j; simp only [den]; ring
        | mul =>
          simp only at h
          refine ⟨fun x => ?_, inv_opMul env h hia hib⟩
          unfold opMul at h; split_ifs at h; cases h
          simp only [run, den, hsb x, hsa]
        | pprod =>
          simp only at h
          refine ⟨fun x => ?_, inv_mkPProd env h hia hib⟩
          unfold mkPProd at h; split_ifs at h; cases h
          simp only [run, den, hsb x, hsa x]
        | quot =>
          simp only at h
          refine ⟨fun x => ?_, inv_mkQuot env h hia hib⟩
          unfold mkQuot at h; split_ifs at h; cases h
          simp only [run, den, hsb x, hsa x]
  | sc o a s ih =>
    intro i h
    cases ha : build env a with
    | none => simp [build, ha] at h
    | some a' =>
      obtain ⟨hs, hinv⟩ := ih henv a' ha
      simp only [build, ha] at h
      cases o with
      | lmul =>
        simp only [Option.some.injEq] at h; subst h
        refine ⟨fun x => ?_, inv_opRMulScal env _ hinv⟩
        rw [run_opRMulScal, hs x]; rfl
      | rmul =>
        simp only [Option.some.injEq] at h; subst h
        refine ⟨fun x => ?_, inv_opMulScal env _ hinv⟩
        rw [run_opMulScal env _ hinv, hs]; rfl
      | div =>
        simp only at h
        split_ifs at h with h0
        simp only [Option.some.injEq] at h; subst h
        refine ⟨fun x => ?_, inv_opMulScal env _ hinv⟩
        rw [run_opMulScal env _ hinv, hs]
        simp only [den]
        congr 1; funext j; field_simp
      | add =>
        simp only at h
        refine ⟨fun x => ?_, inv_opAddScal env h hinv⟩
        rw [run_opAddScal env h, hs x]; rfl
      | radd =>
        simp only at h
        refine ⟨fun x => ?_, inv_opAddScal env h hinv⟩
        rw [run_opAddScal env h, hs x]
        funext j; simp only [den]; ring
      | sub =>
        simp only at h
        refine ⟨fun x => ?_, inv_opAddScal env h hinv⟩
        rw [run_opAddScal env h, hs x]
        funext j; simp only [den]; ring
      | rsub =>
        simp only at h
        refine ⟨fun x => ?_, inv_opAddScal env h (inv_opRMulScal env _ hinv)⟩
        rw [run_opAddScal env h, run_opRMulScal, hs x]
        funext j; simp only [den]; ring
  | vc o a v ih =>
    intro i h
    cases ha : build env a with
    | none => simp [build, ha] at h
    | some a' =>
      obtain ⟨hs, hinv⟩ := ih henv a' ha
      simp only [build, ha] at h
      cases o with
      | lmul =>
        simp only at h
        refine ⟨fun x => ?_, inv_opRMulVec env h hinv⟩
        rw [run_opRMulVec env h, hs x]; rfl
      | rmul =>
        simp only at h
        refine ⟨fun x => ?_, inv_opMulVec env h hinv⟩
        rw [run_opMulVec env h, hs]
        simp only [den]
        congr 1; funext j; ring
      | add =>
        simp only at h
        refine ⟨fun x => ?_, inv_opAddVec env h⟩
        rw [run_opAddVec env h, hs x]; rfl
      | radd =>
        simp only at h
        refine ⟨fun x => ?_, inv_opAddVec env h⟩
        rw [run_opAddVec env h, hs x]
        funext j; simp only [den]; ring
      | sub =>
        simp only at h
        refine ⟨fun x => ?_, inv_opAddVec env h⟩
        rw [run_opAddVec env h, hs x]
        funext j; simp only [den]; ring
      | rsub =>
        simp only at h
        refine ⟨fun x => ?_, inv_opAddVec env h⟩
        rw [run_opAddVec env h, run_opRMulScal, hs x]
        funext j; simp only [den]; ring

/-- `build_sound`: for every expression `e` that Python accepts, the object it builds
evaluates, at every point, to the value given by the documented table applied recursively
(`(A+B)(x)=A(x)+B(x)`, `(A*B)(x)=A(B(x))`, `(a*A)(x)=a*A(x)`, `(A*a)(x)=A(a*x)`,
`(v*A)(x)=v*A(x)`, `(A*v)(x)=A(v*x)`, `(A+v)(x)=A(x)+v`, `A**n` iterated, `(A/a)(x)=A(x/a)`),
however the scalar factors were merged and whichever shortcut (`f*0`, `0*f`, linear
`A*a ↦ a*A`, reflected `+`) the dispatch took. -/
theorem C04.build_sound {K : Type} [Field K] [DecidableEq K]
    (env : Nat → Vec K → Vec K) (e : Expr K) (henv : EnvOK env e) (i : Impl K)
    (h : build env e = some i) (x : Vec K) : run env i x = den env e x :=
  (C04.build_sound_inv env e henv i h).1 x

/-- The `is_linear` flag of a built object is sound: when it is `True`, the documented-table
meaning of the expression is a linear map (homogeneous and additive). -/
theorem C04.linear_flag_sound {K : Type} [Field K] [DecidableEq K]
    (env : Nat → Vec K → Vec K) (e : Expr K) (henv : EnvOK env e) (i : Impl K)
    (h : build env e = some i) (hl : i.lin = true) : IsLin (den env e) := by
  obtain ⟨hs, hinv⟩ := C04.build_sound_inv env e henv i h
  have : den env e = run env i := funext fun x => (hs x).symm
  rw [this]; exact hinv.2 hl

/-- In-place evaluation (`op(x, out=y)`, the `else` branches of every `_call`, in their
statement order) gives the same value as out-of-place evaluation, for every tree of
expression-class instances (built by the overloads or by hand). -/
theorem C04.inplace_eq_outofplace {K : Type} [Field K] [DecidableEq K]
    (env : Nat → Vec K → Vec K) (i : Impl K) : ∀ x, runIn env i x = run env i x := by
  induction i with
  | leaf l => intro x; rfl
  | sum fn l r ihl ihr => intro x; funext j; simp only [runIn, run, ihl x, ihr x]; ring
  | scalSum f c ih => intro x; rfl
  | vecSum a v ih => intro x; simp only [runIn, run, ih x]
  | comp fn l r ihl ihr => intro x; simp only [runIn, run, ihr x, ihl]
  | pprod fn l r ihl ihr => intro x; funext j; simp only [runIn, run, ihl x, ihr x]; ring
  | quot l r ihl ihr => intro x; rfl
  | lscal fn a s ih => intro x; funext j; simp only [runIn, run, ih x]; ring
  | rscal fn a s ih => intro x; simp only [runIn, run, ih]
  | lvec a v ih => intro x; simp only [runIn, run, ih x]
  | rvec fn a v ih => intro x; simp only [runIn, run, ih]
  | flvec a v ih => intro x; funext j; simp only [runIn, run]; ring
  | const d c => intro x; rfl
  | zero d => intro x; rfl

/-- In-place evaluation of a built expression is the documented-table value as well. -/
theorem C04.build_sound_inplace {K : Type} [Field K] [DecidableEq K]
    (env : Nat → Vec K → Vec K) (e : Expr K) (henv : EnvOK env e) (i : Impl K)
    (h : build env e = some i) (x : Vec K) : runIn env i x = den env e x := by
  rw [C04.inplace_eq_outofplace, C04.build_sound env e henv i h]
