/-
C04 — operator arithmetic means what the algebra table says, for arbitrary expressions.
Property theorems only.  Model: `Model/OpAlgebra.lean` (surface `Expr`/`den` = the documented
table; `build` = the overload dispatch of `odl/operator/operator.py` and the `Functional`
overrides as coded; `run`/`runIn` = the `_call` of the expression classes).
All statements are for every field `K` (ℚ, ℝ, ℂ, …), every expression (no depth bound),
every scalar (0 included), every vector, every evaluation point and arbitrary (nonlinear)
leaf operators.
-/
import OdlModel.Lemmas.OpAlgebra
import OdlModel.Lemmas.OpDispatch
import OdlModel.Lemmas.OpLeaves
import Mathlib.Algebra.Field.Rat
import Mathlib.Data.Complex.Basic

open OdlModel.OpAlgebra OdlModel.Gen.AlgebraDispatch

/-- Work-horse (soundness together with the invariant that makes it inductive).
If the Python expression `e` builds an operator object `i` (does not raise), then
`i(x)` is the documented-table value of `e` at every point `x`, AND `i` satisfies the
invariant: a result that is a `Functional` returns scalars, a result whose `is_linear`
flag is set is a linear map.  Assumption on the opaque leaves (`EnvOK`): a leaf flagged
linear is linear, a `Functional` leaf returns a scalar; unflagged leaves are arbitrary. -/
theorem C04.build_sound_inv {K : Type} [Field K] [DecidableEq K] (R : K → Prop)
    (env : Nat → Vec K → Vec K) (e : Expr K) (henv : EnvOK R env e) :
    ∀ i, build env e = some i → (∀ x, run env i x = den env e x) ∧ Inv R env i := by
  induction e with
  | leaf l =>
    intro i h
    simp only [build, Option.some.injEq] at h
    subst h
    exact ⟨fun x => rfl, ⟨fun hf => henv.2 hf, fun hl => henv.1 hl⟩⟩
  | neg a ih =>
    intro i h
    simp only [build, Option.map_eq_some_iff] at h
    obtain ⟨a', ha', rfl⟩ := h
    obtain ⟨hs, hinv⟩ := ih henv a' ha'
    refine ⟨fun x => ?_, inv_opRMulScal env _ hinv⟩
    rw [run_opRMulScal, hs x]
    funext j; simp [den]
  | pow a n ih =>
    intro i h
    simp only [build, Option.bind_eq_some_iff] at h
    obtain ⟨a', ha', h⟩ := h
    obtain ⟨hs, hinv⟩ := ih henv a' ha'
    have hfun : run env a' = den env a := funext hs
    match n, h with
    | 1, h =>
      simp only [opPow, Option.some.injEq] at h
      subst h
      exact ⟨fun x => by simp [den, iter, hs x], hinv⟩
    | k + 2, h =>
      simp only [opPow] at h
      split_ifs at h
      cases h
      refine ⟨fun x => ?_, inv_powAux env hinv k⟩
      rw [run_powAux, hfun]; rfl
  | bin o a b iha ihb =>
    intro i h
    cases ha : build env a with
    | none => simp [build, ha] at h
    | some a' =>
      cases hb : build env b with
      | none => simp [build, ha, hb] at h
      | some b' =>
        obtain ⟨hsa, hia⟩ := iha henv.1 a' ha
        obtain ⟨hsb, hib⟩ := ihb henv.2 b' hb
        simp only [build, ha, hb] at h
        cases o with
        | add =>
          simp only at h
          refine ⟨fun x => ?_, inv_opAdd env h hia hib⟩
          rw [run_opAdd env h, hsa x, hsb x]; rfl
        | sub =>
          simp only at h
          refine ⟨fun x => ?_, inv_opAdd env h hia (inv_opRMulScal env _ hib)⟩
          rw [run_opAdd env h, run_opRMulScal, hsa x, hsb x]
          funext j; simp only [den]; ring
        | mul =>
          simp only at h
          refine ⟨fun x => ?_, inv_opMul env h hia hib⟩
          unfold opMul at h; split_ifs at h; cases h
          simp only [run, den, hsb x, hsa]
        | pprod =>
          simp only at h
          refine ⟨fun x => ?_, inv_mkPProd env h hia hib⟩
          unfold mkPProd at h; split_ifs at h; cases h
          simp only [run, den, hsb x, hsa x]
        | quot =>
          simp only at h
          refine ⟨fun x => ?_, inv_mkQuot env h hia hib⟩
          unfold mkQuot at h; split_ifs at h; cases h
          simp only [run, den, hsb x, hsa x]
  | sc o a s re ih =>
    intro i h
    cases ha : build env a with
    | none => simp [build, ha] at h
    | some a' =>
      obtain ⟨hs, hinv⟩ := ih henv.1 a' ha
      have hre := henv.2
      simp only [build, ha] at h
      cases o with
      | lmul =>
        simp only [Option.some.injEq] at h; subst h
        refine ⟨fun x => ?_, inv_opRMulScal env _ hinv⟩
        rw [run_opRMulScal, hs x]; rfl
      | rmul =>
        simp only [Option.some.injEq] at h; subst h
        refine ⟨fun x => ?_, inv_opMulScal env _ re (fun h => (hre h).1) hinv⟩
        rw [run_opMulScal env _ re (fun h => (hre h).1) hinv, hs]; rfl
      | div =>
        simp only at h
        split_ifs at h with h0
        simp only [Option.some.injEq] at h; subst h
        refine ⟨fun x => ?_, inv_opMulScal env _ re (fun h => (hre h).2) hinv⟩
        rw [run_opMulScal env _ re (fun h => (hre h).2) hinv, hs]
        simp only [den]
        congr 1; funext j; field_simp
      | add =>
        simp only at h
        refine ⟨fun x => ?_, inv_opAddScal env h hinv⟩
        rw [run_opAddScal env h, hs x]; rfl
      | radd =>
        simp only at h
        refine ⟨fun x => ?_, inv_opAddScal env h hinv⟩
        rw [run_opAddScal env h, hs x]
        funext j; simp only [den]; ring
      | sub =>
        simp only at h
        refine ⟨fun x => ?_, inv_opAddScal env h hinv⟩
        rw [run_opAddScal env h, hs x]
        funext j; simp only [den]; ring
      | rsub =>
        simp only at h
        refine ⟨fun x => ?_, inv_opAddScal env h (inv_opRMulScal env _ hinv)⟩
        rw [run_opAddScal env h, run_opRMulScal, hs x]
        funext j; simp only [den]; ring
  | vc o a v ih =>
    intro i h
    cases ha : build env a with
    | none => simp [build, ha] at h
    | some a' =>
      obtain ⟨hs, hinv⟩ := ih henv a' ha
      simp only [build, ha] at h
      cases o with
      | lmul =>
        simp only at h
        refine ⟨fun x => ?_, inv_opRMulVec env h hinv⟩
        rw [run_opRMulVec env h, hs x]; rfl
      | rmul =>
        simp only at h
        refine ⟨fun x => ?_, inv_opMulVec env h hinv⟩
        rw [run_opMulVec env h, hs]
        simp only [den]
        congr 1; funext j; ring
      | add =>
        simp only at h
        refine ⟨fun x => ?_, inv_opAddVec env h⟩
        rw [run_opAddVec env h, hs x]; rfl
      | radd =>
        simp only at h
        refine ⟨fun x => ?_, inv_opAddVec env h⟩
        rw [run_opAddVec env h, hs x]
        funext j; simp only [den]; ring
      | sub =>
        simp only at h
        refine ⟨fun x => ?_, inv_opAddVec env h⟩
        rw [run_opAddVec env h, hs x]
        funext j; simp only [den]; ring
      | rsub =>
        simp only at h
        refine ⟨fun x => ?_, inv_opAddVec env h⟩
        rw [run_opAddVec env h, run_opRMulScal, hs x]
        funext j; simp only [den]; ring

/-- `build_sound`: for every expression `e` that Python accepts, the object it builds
evaluates, at every point, to the value given by the documented table applied recursively
(`(A+B)(x)=A(x)+B(x)`, `(A*B)(x)=A(B(x))`, `(a*A)(x)=a*A(x)`, `(A*a)(x)=A(a*x)`,
`(v*A)(x)=v*A(x)`, `(A*v)(x)=A(v*x)`, `(A+v)(x)=A(x)+v`, `A**n` iterated, `(A/a)(x)=A(x/a)`),
however the scalar factors were merged and whichever shortcut (`f*0`, `0*f`, linear
`A*a ↦ a*A` for real `a`, reflected `+`) the dispatch took.
CONDITIONAL on the leaf hypotheses `EnvOK R env e` (flagged-linear leaves are `R`-linear,
`Functional` leaves return scalars, scalars marked `Real` lie in `R`); one field `K` per tree.
Division is Lean's total division (`x / 0 = 0`): at points where a `FunctionalQuotient`
divisor vanishes the code raises / gives inf and the statement says nothing about the code;
`A / 0` is not an expression (`build` rejects it, `typeOf` too). -/
theorem C04.build_sound {K : Type} [Field K] [DecidableEq K] (R : K → Prop)
    (env : Nat → Vec K → Vec K) (e : Expr K) (henv : EnvOK R env e) (i : Impl K)
    (h : build env e = some i) (x : Vec K) : run env i x = den env e x :=
  (C04.build_sound_inv R env e henv i h).1 x

/-- The `is_linear` flag of a built object is sound: when it is `True`, the documented-table
meaning of the expression is a linear map (homogeneous and additive). -/
theorem C04.linear_flag_sound {K : Type} [Field K] [DecidableEq K] (R : K → Prop)
    (env : Nat → Vec K → Vec K) (e : Expr K) (henv : EnvOK R env e) (i : Impl K)
    (h : build env e = some i) (hl : i.lin = true) : IsLin R (den env e) := by
  obtain ⟨hs, hinv⟩ := C04.build_sound_inv R env e henv i h
  have : den env e = run env i := funext fun x => (hs x).symm
  rw [this]; exact hinv.2 hl

/-- `inplace_operand_order`: `runIn` is `run` with the operands of each class combined in the
ORDER in which the in-place (`out=`) branch of its `_call` combines them (`right(x) + left(x)`,
`op(x) * s`, `functional(x) * vector`, …).  It is a pure function: this theorem says that the
operand order of the in-place branches does not change the value (commutativity), nothing
more.  Buffers, temporaries, `out` aliasing and "result independent of the previous contents of
`out`" are NOT modelled here (they are property C03/C10); for C04 they are only tested (every
case is also evaluated with a NaN-prefilled `out`). -/
theorem C04.inplace_operand_order {K : Type} [Field K] [DecidableEq K]
    (env : Nat → Vec K → Vec K) (i : Impl K) : ∀ x, runIn env i x = run env i x := by
  induction i with
  | leaf l => intro x; rfl
  | sum fn l r ihl ihr => intro x; funext j; simp only [runIn, run, ihl x, ihr x]; ring
  | scalSum f c ih => intro x; rfl
  | vecSum a v ih => intro x; simp only [runIn, run, ih x]
  | comp fn l r ihl ihr => intro x; simp only [runIn, run, ihr x, ihl]
  | pprod fn l r ihl ihr => intro x; funext j; simp only [runIn, run, ihl x, ihr x]; ring
  | quot l r ihl ihr => intro x; rfl
  | lscal fn a s ih => intro x; funext j; simp only [runIn, run, ih x]; ring
  | rscal fn a s ih => intro x; simp only [runIn, run, ih]
  | lvec a v ih => intro x; simp only [runIn, run, ih x]
  | rvec fn a v ih => intro x; simp only [runIn, run, ih]
  | flvec a v ih => intro x; funext j; simp only [runIn, run]; ring
  | const d c => intro x; rfl
  | zero d => intro x; rfl

/-- The value with the operand order of the in-place branches is the table value as well
(see `inplace_operand_order` for what `runIn` is and is not). -/
theorem C04.build_sound_inplace {K : Type} [Field K] [DecidableEq K] (R : K → Prop)
    (env : Nat → Vec K → Vec K) (e : Expr K) (henv : EnvOK R env e) (i : Impl K)
    (h : build env e = some i) (x : Vec K) : runIn env i x = den env e x := by
  rw [C04.inplace_operand_order, C04.build_sound R env e henv i h]

/-- `build_type`: the object built for `e` has exactly the domain, range and
`Functional`-ness that the typing rules of the documented table (`typeOf`, defined on the
surface expression without looking at the dispatch) give, and the dispatch raises exactly
when those rules reject the expression: `(build e).map ty = typeOf e`.  The second
component is the invariant used in the induction (a built `Functional` has the field as
range).  `LeavesWf`: leaf `Functional`s have the field as range. -/
theorem C04.build_type {K : Type} [Field K] [DecidableEq K] (env : Nat → Vec K → Vec K) (e : Expr K) (hwf : LeavesWf e) :
    (build env e).map Impl.ty = typeOf e ∧ ∀ i, build env e = some i → FnRan i := by
  induction e with
  | leaf l =>
    refine ⟨rfl, fun i h => ?_⟩
    simp only [build, Option.some.injEq] at h; subst h
    exact hwf
  | neg a ih =>
    obtain ⟨ht, hf⟩ := ih hwf
    cases ha : build env a with
    | none => simp_all [build, typeOf]
    | some a' =>
      have := hf a' ha
      refine ⟨?_, fun i h => ?_⟩
      · simp only [build, ha, typeOf, ← ht, Option.map_some, ty_opRMulScal a' _ this]
      · simp only [build, ha, Option.map_some, Option.some.injEq] at h; subst h
        exact fnRan_of_ty (ty_opRMulScal a' _ this) this
  | pow a n ih =>
    obtain ⟨ht, hf⟩ := ih hwf
    cases ha : build env a with
    | none =>
      rw [ha] at ht
      refine ⟨?_, fun i h => by simp [build, ha] at h⟩
      simp only [build, ha, typeOf, ← ht, Option.map_none, Option.bind_none]
    | some a' =>
      have hfa := hf a' ha
      rw [ha] at ht
      match n with
      | 0 =>
        refine ⟨?_, fun i h => by simp [build, ha, opPow] at h⟩
        simp [build, ha, typeOf, ← ht, opPow]
      | 1 =>
        refine ⟨?_, fun i h => ?_⟩
        · simp [build, ha, typeOf, ← ht, opPow]
        · simp only [build, ha, opPow, Option.bind_some, Option.some.injEq] at h; subst h; exact hfa
      | k + 2 =>
        refine ⟨?_, fun i h => ?_⟩
        · simp only [build, ha, typeOf, ← ht, opPow, Option.bind_some, Option.map_some, Impl.ty]
          split_ifs <;> simp [Impl.ty, powAux, dom_powAux]
        · simp only [build, ha, opPow, Option.bind_some] at h
          split_ifs at h; cases h
          intro hfn; simp [powAux] at hfn
  | bin o a b iha ihb =>
    obtain ⟨hta, hfa⟩ := iha hwf.1
    obtain ⟨htb, hfb⟩ := ihb hwf.2
    cases ha : build env a with
    | none =>
      rw [ha] at hta
      refine ⟨?_, fun i h => by simp [build, ha] at h⟩
      simp [build, ha, typeOf, ← hta]
    | some a' =>
      cases hb : build env b with
      | none =>
        rw [ha] at hta; rw [hb] at htb
        refine ⟨?_, fun i h => by simp [build, ha, hb] at h⟩
        simp [build, ha, hb, typeOf, ← hta, ← htb]
      | some b' =>
        have h1 := hfa a' ha
        have h2 := hfb b' hb
        rw [ha] at hta; rw [hb] at htb
        simp only [Option.map_some] at hta htb
        simp only [build, ha, hb, typeOf, ← hta, ← htb]
        cases o with
        | add => exact ⟨ty_opAdd a' b', fun i h => fnRan_opAdd h h1 h2⟩
        | sub =>
          have h3 : FnRan (opRMulScal (-1) b') := fnRan_of_ty (ty_opRMulScal b' _ h2) h2
          refine ⟨?_, fun i h => fnRan_opAdd h h1 h3⟩
          simp only [ty_opAdd, ty_opRMulScal b' _ h2]; rfl
        | mul =>
          simp only [opMul]
          refine ⟨?_, fun i h => ?_⟩
          · split_ifs <;> simp_all [Impl.ty]
          · split_ifs at h; cases h; intro hfn
            simp only [Impl.isFn_comp] at hfn; simp [h1 hfn]
        | pprod =>
          simp only [mkPProd]
          refine ⟨?_, fun i h => ?_⟩
          · split_ifs <;> simp_all [Impl.ty]
          · split_ifs at h; cases h; intro hfn
            simp only [Impl.isFn_pprod, Bool.and_eq_true] at hfn; simp [h1 hfn.1]
        | quot =>
          simp only [mkQuot]
          refine ⟨?_, fun i h => ?_⟩
          · split_ifs <;> simp_all [Impl.ty]
          · split_ifs at h; cases h; intro _; rfl
  | sc o a s re ih =>
    obtain ⟨ht, hf⟩ := ih hwf
    cases ha : build env a with
    | none =>
      rw [ha] at ht
      refine ⟨?_, fun i h => by simp [build, ha] at h⟩
      simp [build, ha, typeOf, ← ht]
    | some a' =>
      have h1 := hf a' ha
      rw [ha] at ht
      simp only [Option.map_some] at ht
      simp only [build, ha, typeOf, ← ht]
      have hneg := ty_opRMulScal a' (-1) h1
      have hnegf : FnRan (opRMulScal (-1) a') := fnRan_of_ty hneg h1
      cases o with
      | lmul =>
        refine ⟨by simp [ty_opRMulScal a' _ h1], fun i h => ?_⟩
        simp only [Option.some.injEq] at h; subst h
        exact fnRan_of_ty (ty_opRMulScal a' _ h1) h1
      | rmul =>
        refine ⟨by simp [ty_opMulScal env a' _ re h1], fun i h => ?_⟩
        simp only [Option.some.injEq] at h; subst h
        exact fnRan_of_ty (ty_opMulScal env a' _ re h1) h1
      | div =>
        refine ⟨?_, fun i h => ?_⟩
        · split_ifs <;> simp [ty_opMulScal env a' _ re h1]
        · split_ifs at h
          simp only [Option.some.injEq] at h; subst h
          exact fnRan_of_ty (ty_opMulScal env a' _ re h1) h1
      | add => exact ⟨ty_opAddScal a' s, fun i h => fnRan_opAddScal h h1⟩
      | radd => exact ⟨ty_opAddScal a' s, fun i h => fnRan_opAddScal h h1⟩
      | sub => exact ⟨ty_opAddScal a' _, fun i h => fnRan_opAddScal h h1⟩
      | rsub =>
        refine ⟨?_, fun i h => fnRan_opAddScal h hnegf⟩
        rw [ty_opAddScal, hneg]; rfl
  | vc o a v ih =>
    obtain ⟨ht, hf⟩ := ih hwf
    cases ha : build env a with
    | none =>
      rw [ha] at ht
      refine ⟨?_, fun i h => by simp [build, ha] at h⟩
      simp [build, ha, typeOf, ← ht]
    | some a' =>
      have h1 := hf a' ha
      rw [ha] at ht
      simp only [Option.map_some] at ht
      simp only [build, ha, typeOf, ← ht]
      have hneg := ty_opRMulScal a' (-1) h1
      cases o with
      | lmul =>
        simp only [opRMulVec]
        refine ⟨?_, fun i h => ?_⟩
        · split_ifs <;> simp_all [Impl.ty]
        · split_ifs at h <;> cases h <;> intro hfn <;> simp at hfn
      | rmul =>
        simp only [opMulVec]
        refine ⟨?_, fun i h => ?_⟩
        · split_ifs <;> simp_all [Impl.ty]
        · split_ifs at h; cases h; intro hfn
          simp only [Impl.isFn_rvec] at hfn; simp [h1 hfn]
      | add => exact ⟨ty_opAddVec a' _ _, fun i h => fnRan_opAddVec h⟩
      | radd => exact ⟨ty_opAddVec a' _ _, fun i h => fnRan_opAddVec h⟩
      | sub => exact ⟨ty_opAddVec a' _ _, fun i h => fnRan_opAddVec h⟩
      | rsub =>
        refine ⟨?_, fun i h => fnRan_opAddVec h⟩
        rw [ty_opAddVec, hneg]; rfl

/-- `build_total`: a well-typed expression never raises, and the result has the implied
domain and range. -/
theorem C04.build_total {K : Type} [Field K] [DecidableEq K]
    (env : Nat → Vec K → Vec K) (e : Expr K) (hwf : LeavesWf e) (t : Ty)
    (ht : typeOf e = some t) :
    ∃ i, build env e = some i ∧ i.dom = t.dom ∧ i.ran = t.ran ∧ i.isFn = t.fn := by
  have h := (C04.build_type env e hwf).1
  rw [ht] at h
  cases hb : build env e with
  | none => rw [hb] at h; simp at h
  | some i =>
    rw [hb] at h
    simp only [Option.map_some, Option.some.injEq] at h
    exact ⟨i, rfl, by rw [← h]; rfl, by rw [← h]; rfl, by rw [← h]; rfl⟩

/-- Conversely an ill-typed expression is rejected (the Python expression raises). -/
theorem C04.build_rejects {K : Type} [Field K] [DecidableEq K]
    (env : Nat → Vec K → Vec K) (e : Expr K) (hwf : LeavesWf e) (ht : typeOf e = none) :
    build env e = none := by
  have h := (C04.build_type env e hwf).1
  rw [ht] at h
  cases hb : build env e with
  | none => rfl
  | some i => rw [hb] at h; simp at h

/-- `linear_flag_complete`: the `is_linear` flag implied by the expression (`linOf`: sums,
compositions, scalar/vector multiples and powers of linear operands) IS set on the built
object, for every expression.  (Full statement since the repair of C04-F1 in /repo:
`FunctionalRightVectorMult` now passes `linear=func.is_linear` on; before, the case `f * v`
with `f` a linear `Functional` was a counterexample.) -/
theorem C04.linear_flag_complete {K : Type} [Field K] [DecidableEq K] (R : K → Prop)
    (env : Nat → Vec K → Vec K) (e : Expr K) (henv : EnvOK R env e) :
    ∀ i, build env e = some i → linOf e = true → i.lin = true := by
  induction e with
  | leaf l =>
    intro i h hl
    simp only [build, Option.some.injEq] at h; subst h; exact hl
  | neg a ih =>
    intro i h hl
    simp only [build, Option.map_eq_some_iff] at h
    obtain ⟨a', ha', rfl⟩ := h
    exact lin_opRMulScal_of a' _ (ih henv a' ha' hl)
  | pow a n ih =>
    intro i h hl
    simp only [build, Option.bind_eq_some_iff] at h
    obtain ⟨a', ha', h⟩ := h
    rw [lin_opPow h]; exact ih henv a' ha' hl
  | bin o a b iha ihb =>
    intro i h hl
    cases ha : build env a with
    | none => simp [build, ha] at h
    | some a' =>
      cases hb : build env b with
      | none => simp [build, ha, hb] at h
      | some b' =>
        simp only [build, ha, hb] at h
        cases o with
        | add =>
          simp only [linOf, Bool.and_eq_true] at hl
          simp only at h
          rw [lin_opAdd h, iha henv.1 a' ha hl.1, ihb henv.2 b' hb hl.2]; rfl
        | sub =>
          simp only [linOf, Bool.and_eq_true] at hl
          simp only at h
          rw [lin_opAdd h, iha henv.1 a' ha hl.1,
            lin_opRMulScal_of b' _ (ihb henv.2 b' hb hl.2)]; rfl
        | mul =>
          simp only [linOf, Bool.and_eq_true] at hl
          simp only at h
          rw [lin_opMul h, iha henv.1 a' ha hl.1, ihb henv.2 b' hb hl.2]; rfl
        | pprod => simp [linOf] at hl
        | quot => simp [linOf] at hl
  | sc o a s re ih =>
    intro i h hl
    cases ha : build env a with
    | none => simp [build, ha] at h
    | some a' =>
      simp only [build, ha] at h
      have hinv := (C04.build_sound_inv R env a henv.1 a' ha).2
      cases o with
      | lmul =>
        simp only [Option.some.injEq] at h; subst h
        exact lin_opRMulScal_of a' _ (ih henv.1 a' ha hl)
      | rmul =>
        simp only [Option.some.injEq] at h; subst h
        exact lin_opMulScal_of env _ re hinv (ih henv.1 a' ha hl)
      | div =>
        simp only at h
        split_ifs at h
        simp only [Option.some.injEq] at h; subst h
        exact lin_opMulScal_of env _ re hinv (ih henv.1 a' ha hl)
      | add => simp [linOf] at hl
      | radd => simp [linOf] at hl
      | sub => simp [linOf] at hl
      | rsub => simp [linOf] at hl
  | vc o a v ih =>
    intro i h hl
    cases ha : build env a with
    | none => simp [build, ha] at h
    | some a' =>
      simp only [build, ha] at h
      cases o with
      | lmul =>
        simp only at h
        rw [lin_opRMulVec h]; exact ih henv a' ha hl
      | rmul =>
        simp only at h
        rw [lin_opMulVec h]; exact ih henv a' ha hl
      | add => simp [linOf] at hl
      | radd => simp [linOf] at hl
      | sub => simp [linOf] at hl
      | rsub => simp [linOf] at hl

/-- `build_merged`: every object the dispatch builds — for every expression, every depth,
every scalar — is in MERGED NORMAL FORM: nowhere in its class tree is an
`Operator/FunctionalLeftScalarMult` applied directly to a left scalar multiplication, nor a
right one to a right one (`Impl.merged`, an executable check the driver runs on every case
and the harness compares with the real class tree).  This is what the
`isinstance(operator, OwnClass)` shortcut of the two constructors, `OperatorRightScalarMult.
__mul__`, the zero shortcuts and the linear `A*a ↦ a*A` rewriting achieve together;
unconditional (no leaf hypotheses). -/
theorem C04.build_merged {K : Type} [Field K] [DecidableEq K]
    (env : Nat → Vec K → Vec K) (e : Expr K) :
    ∀ i, build env e = some i → i.merged = true := by
  induction e with
  | leaf l => intro i h; simp only [build, Option.some.injEq] at h; subst h; rfl
  | neg a ih =>
    intro i h
    simp only [build, Option.map_eq_some_iff] at h
    obtain ⟨a', ha', rfl⟩ := h
    exact merged_opRMulScal _ _ (ih a' ha')
  | pow a n ih =>
    intro i h
    simp only [build, Option.bind_eq_some_iff] at h
    obtain ⟨a', ha', h⟩ := h
    have := ih a' ha'
    match n, h with
    | 1, h => simp only [opPow, Option.some.injEq] at h; subst h; exact this
    | k + 2, h =>
      simp only [opPow] at h
      split_ifs at h; cases h
      exact merged_powAux _ _ this
  | bin o a b iha ihb =>
    intro i h
    cases ha : build env a with
    | none => simp [build, ha] at h
    | some a' =>
      cases hb : build env b with
      | none => simp [build, ha, hb] at h
      | some b' =>
        have h1 := iha a' ha
        have h2 := ihb b' hb
        simp only [build, ha, hb] at h
        cases o with
        | add =>
          simp only [opAdd, mkSum] at h
          split_ifs at h <;> cases h <;> simp [Impl.merged, h1, h2]
        | sub =>
          have h3 := merged_opRMulScal b' (-1) h2
          simp only [opAdd, mkSum] at h
          split_ifs at h <;> cases h <;> simp [Impl.merged, h1, h3]
        | mul =>
          simp only [opMul] at h
          split_ifs at h; cases h; simp [Impl.merged, h1, h2]
        | pprod =>
          simp only [mkPProd] at h
          split_ifs at h; cases h; simp [Impl.merged, h1, h2]
        | quot =>
          simp only [mkQuot] at h
          split_ifs at h; cases h; simp [Impl.merged, h1, h2]
  | sc o a s re ih =>
    intro i h
    cases ha : build env a with
    | none => simp [build, ha] at h
    | some a' =>
      have h1 := ih a' ha
      have h3 := merged_opRMulScal a' (-1) h1
      simp only [build, ha] at h
      cases o with
      | lmul => simp only [Option.some.injEq] at h; subst h; exact merged_opRMulScal _ _ h1
      | rmul => simp only [Option.some.injEq] at h; subst h; exact merged_opMulScal _ _ _ _ h1
      | div =>
        simp only at h
        split_ifs at h
        simp only [Option.some.injEq] at h; subst h; exact merged_opMulScal _ _ _ _ h1
      | add => exact merged_opAddScal h h1
      | radd => exact merged_opAddScal h h1
      | sub => exact merged_opAddScal h h1
      | rsub => exact merged_opAddScal h h3
  | vc o a v ih =>
    intro i h
    cases ha : build env a with
    | none => simp [build, ha] at h
    | some a' =>
      have h1 := ih a' ha
      have h3 := merged_opRMulScal a' (-1) h1
      simp only [build, ha] at h
      cases o with
      | lmul =>
        simp only [opRMulVec] at h
        split_ifs at h <;> cases h <;> simp [Impl.merged, h1]
      | rmul =>
        simp only [opMulVec] at h
        split_ifs at h; cases h; simp [Impl.merged, h1]
      | add => simp only [opAddVec] at h; split_ifs at h; cases h; simp [Impl.merged, h1]
      | radd => simp only [opAddVec] at h; split_ifs at h; cases h; simp [Impl.merged, h1]
      | sub => simp only [opAddVec] at h; split_ifs at h; cases h; simp [Impl.merged, h1]
      | rsub => simp only [opAddVec] at h; split_ifs at h; cases h; simp [Impl.merged, h3]

/-! ### The leaf hypotheses discharged for the executable leaf zoo -/

/-- `zoo_leaves_ok`: each concrete leaf map the driver executes (`LeafSpec.map`:
ScalingOperator, IdentityOperator, PowerOperator, ShiftPower, MatrixOperator of any shape and
entries, ConstantFunctional, ZeroFunctional; every size `n`, exponent `p`, scalar `c`) satisfies
what `EnvOK` asks of a leaf with the flags the library gives it (`LeafSpec.info`): if flagged
`is_linear` it is additive and homogeneous for ALL scalars, if a `Functional` it returns a
scalar. -/
theorem C04.zoo_leaves_ok {K : Type} [Field K] [DecidableEq K] (id : Nat) (s : LeafSpec K) :
    ((s.info id).lin = true → IsLin allK s.map) ∧ ((s.info id).fn = true → ConstFam s.map) :=
  leafSpec_ok id s

/-- `build_sound_zoo`: UNCONDITIONAL soundness over the leaf zoo.  For every assignment of
concrete leaves (`specs`), every expression over them (any depth, any scalars and vectors),
if Python builds an object then its out-of-place value and its value in in-place operand
order are the documented-table value at every point — no leaf hypothesis left. -/
theorem C04.build_sound_zoo {K : Type} [Field K] [DecidableEq K]
    (specs : Nat → LeafSpec K) (e : Expr K) (hz : ZooExpr specs e) (i : Impl K)
    (h : build (zooEnv specs) e = some i) (x : Vec K) :
    run (zooEnv specs) i x = den (zooEnv specs) e x ∧
    runIn (zooEnv specs) i x = den (zooEnv specs) e x :=
  ⟨C04.build_sound allK _ e (zoo_envOK specs e hz) i h x,
   C04.build_sound_inplace allK _ e (zoo_envOK specs e hz) i h x⟩

/-- `linear_flag_sound_zoo`: over the leaf zoo a set `is_linear` flag means the expression IS
a linear map (additive, homogeneous for all scalars), unconditionally. -/
theorem C04.linear_flag_sound_zoo {K : Type} [Field K] [DecidableEq K]
    (specs : Nat → LeafSpec K) (e : Expr K) (hz : ZooExpr specs e) (i : Impl K)
    (h : build (zooEnv specs) e = some i) (hl : i.lin = true) :
    IsLin allK (den (zooEnv specs) e) :=
  C04.linear_flag_sound allK _ e (zoo_envOK specs e hz) i h hl

/-! ### Translator tie: the dispatch EXTRACTED from the source is the modelled dispatch -/

/-- Induction behind `buildT_eq_build` (the invariant "built Functionals have field range"
is passed in; it is the second component of `C04.build_type`). -/
theorem C04.buildT_eq_build_aux {K : Type} [Field K] [DecidableEq K]
    (env : Nat → Vec K → Vec K) (e : Expr K)
    (hfr : ∀ (e' : Expr K) (i : Impl K), LeavesWf e' → build env e' = some i → FnRan i)
    (hwf : LeavesWf e) :
    buildT tables env e = build env e := by
  have hNeg : (tables).operatorNeg = Deleg.negOneTimesSelf := rfl
  have hRSub : (tables).operatorRSub = Deleg.negOneTimesSelfPlusOther := rfl
  have hTd : (tables).operatorTruediv = Deleg.selfTimesRecipOther := rfl
  have hRAdd : (tables).operatorRAdd = Deleg.selfPlusOther := rfl
  have hPow : (tables).powIsCompLoop = true := rfl
  induction e with
  | leaf l => rfl
  | neg a ih =>
    simp only [buildT, build, ih hwf]
    cases ha : build env a with
    | none => rfl
    | some a' =>
      have h1 := hfr a a' hwf ha
      simp only [Option.bind_some, Option.map_some, hNeg, Deleg.eval]
      exact dRMul_scal env a' _ _ h1
  | pow a n ih =>
    simp only [buildT, build, ih hwf]
    cases ha : build env a <;> simp [hPow]
  | bin o a b iha ihb =>
    simp only [buildT, build, iha hwf.1, ihb hwf.2]
    cases ha : build env a with
    | none => rfl
    | some a' =>
      cases hb : build env b with
      | none => rfl
      | some b' =>
        have h1 := hfr a a' hwf.1 ha
        have h2 := hfr b b' hwf.2 hb
        cases o with
        | add => exact pyAdd_op env a' b'
        | sub =>
          have : subOf tables a' = Deleg.selfPlusNegOneTimesOther := by
            unfold subOf; split_ifs <;> rfl
          simp only [this, Deleg.eval, negOneTimes, dRMul_scal env b' _ _ h2, Option.map_some,
            Option.bind_some]
          exact pyAdd_op env a' _
        | mul => exact pyMul_op env a' b' h1 h2
        | pprod => rfl
        | quot => rfl
  | sc o a s re ih =>
    simp only [buildT, build, ih hwf]
    cases ha : build env a with
    | none => rfl
    | some a' =>
      have h1 := hfr a a' hwf ha
      have h3 := fnRan_opRMulScal a' (-1) h1
      have hsub : subOf tables a' = Deleg.selfPlusNegOneTimesOther := by
        unfold subOf; split_ifs <;> rfl
      cases o with
      | lmul => exact dRMul_scal env a' s re h1
      | rmul => exact dMul_scal env a' s re h1
      | div =>
        simp only [hTd, Deleg.eval]
        split_ifs
        · rfl
        · exact dMul_scal env a' _ re h1
      | add => simp only [pyAdd]; exact dAdd_scal env a' s re h1
      | radd =>
        simp only [reflectedAdd]
        split_ifs
        · exact dAdd_scal env a' s re h1
        · simp only [hRAdd, Deleg.eval, pyAdd]; exact dAdd_scal env a' s re h1
      | sub =>
        simp only [hsub, Deleg.eval, negOneTimes, Option.bind_some, pyAdd]
        exact dAdd_scal env a' _ re h1
      | rsub =>
        simp only [hRSub, Deleg.eval, dRMul_scal env a' _ _ h1, Option.bind_some, pyAdd]
        exact dAdd_scal env _ s re h3
  | vc o a v ih =>
    simp only [buildT, build, ih hwf]
    cases ha : build env a with
    | none => rfl
    | some a' =>
      have h1 := hfr a a' hwf ha
      have h3 := fnRan_opRMulScal a' (-1) h1
      have hsub : subOf tables a' = Deleg.selfPlusNegOneTimesOther := by
        unfold subOf; split_ifs <;> rfl
      have hp : tables.operatorPriorityHigher = true := rfl
      cases o with
      | lmul => simp only [hp, if_true]; exact dRMul_vec env a' v h1
      | rmul => exact dMul_vec env a' v h1
      | add => simp only [pyAdd]; exact dAdd_vec env a' v h1
      | radd =>
        simp only [hp, if_true, reflectedAdd]
        split_ifs
        · exact dAdd_vec env a' v h1
        · simp only [hRAdd, Deleg.eval, pyAdd]; exact dAdd_vec env a' v h1
      | sub =>
        simp only [hsub, Deleg.eval, negOneTimes, Option.bind_some, pyAdd]
        exact dAdd_vec env a' ⟨v.n, fun j => -1 * v.val j⟩ h1
      | rsub =>
        simp only [hp, if_true, hRSub, Deleg.eval, dRMul_scal env a' _ _ h1, Option.bind_some, pyAdd]
        exact dAdd_vec env _ v h3

/-- `buildT_eq_build`: the overload dispatch as EXTRACTED on this run from
`odl/operator/operator.py` and `odl/solvers/functional/functional.py`
(`Gen/AlgebraDispatch.lean`: ordered guard lists of `Operator.__add__/__mul__/__rmul__`,
`OperatorRightScalarMult.__mul__`, `Functional.__add__/__mul__/__rmul__`, the one-line
overloads `__radd__/__sub__/__rsub__/__neg__/__truediv__`, `Functional.__sub__`, the `__pow__`
loop, the `__array_priority__` order), run by the interpreter `buildT`, builds exactly the
object the hand-written `build` builds — for every expression.  Hence every theorem above is
a theorem about the dispatch the source contains today; a changed guard, guard order,
constructed class, argument order or delegation makes this theorem fail. -/
theorem C04.buildT_eq_build {K : Type} [Field K] [DecidableEq K]
    (env : Nat → Vec K → Vec K) (e : Expr K) (hwf : LeavesWf e) :
    buildT tables env e = build env e :=
  C04.buildT_eq_build_aux env e (fun e' i h hb => (C04.build_type env e' h).2 i hb) hwf

/-- Soundness stated directly for the extracted dispatch. -/
theorem C04.extracted_dispatch_sound {K : Type} [Field K] [DecidableEq K] (R : K → Prop)
    (env : Nat → Vec K → Vec K) (e : Expr K) (hwf : LeavesWf e) (henv : EnvOK R env e)
    (i : Impl K) (h : buildT tables env e = some i) (x : Vec K) :
    run env i x = den env e x ∧ runIn env i x = den env e x := by
  rw [C04.buildT_eq_build env e hwf] at h
  exact ⟨C04.build_sound R env e henv i h x, C04.build_sound_inplace R env e henv i h x⟩

/-- `flag_table_matches`: the `is_linear` rule of each of the 19 expression classes as
extracted from their `__init__` (the last base initialiser in source order wins) is the
rule `Impl.lin` uses — for every tree of expression objects. -/
theorem C04.flag_table_matches {K : Type} [Field K] [DecidableEq K] (i : Impl K) :
    i.linBy flagOf = i.lin :=
  linBy_eq_lin i

/-- `call_table_matches`: the out-of-place `_call` body of each of the 19 expression classes
as EXTRACTED from the source (`return <expression over self.left(…), self.operator(…),
self.scalar, self.vector, x>`, inherited bodies resolved along the MRO), evaluated by the
interpreter `runBy`, is the map `run` that all value theorems are about — for every tree of
expression objects.  (The in-place branches are not interpreted: their statement lists are
only compared with the modelled ones by the translator, see `runIn`.) -/
theorem C04.call_table_matches {K : Type} [Field K] [DecidableEq K]
    (env : Nat → Vec K → Vec K) (i : Impl K) (x : Vec K) :
    runBy callOf env i x = run env i x :=
  runBy_eq_run env i x

/-- `inplace_programs_sound`: the in-place (`out=` given) branch of the `_call` of every
expression class, as EXTRACTED statement by statement from the source on this run
(`Gen.AlgebraDispatch.inplaceOf`: `tmp = …element()`, `self.left(x, out=tmp)`, `out += tmp`,
`tmp.lincomb(self.scalar, x)`, `x.multiply(self.vector, out=tmp)`, `scalar = self.functional(x)`,
`out.lincomb(scalar, self.vector)`, the `self.right.is_functional` split of `OperatorComp`, …)
and run by the interpreter `runInBy` through the whole tree of expression objects, leaves `out`
holding exactly the out-of-place value `run` — whatever `out` contained before (`o`) and whatever
a fresh or cached temporary contains (`junk`).  Replaces the source-text pins of the in-place
branches: a changed statement, order, operand or target buffer changes `inplaceOf` and this
proof (or the `inplace-prog` correspondence) fails.  Registers are values: aliasing between
`x`, `out` and cached temporaries is NOT modelled here (C03/C10). -/
theorem C04.inplace_programs_sound {K : Type} [Field K] [DecidableEq K]
    (env : Nat → Vec K → Vec K) (junk : Vec K) (i : Impl K) (x o : Vec K) :
    runInBy inplaceOf callOf env junk i x o = run env i x :=
  runInBy_eq_run env junk i x o

/-- `build_sound_inplace_extracted`: for every expression Python accepts, evaluating the built
object IN PLACE through the extracted statement lists gives the documented-table value, for any
previous contents of `out` and of the temporaries (conditional on `EnvOK` like `build_sound`;
unconditional over the pool by `zooC_envOK`). -/
theorem C04.build_sound_inplace_extracted {K : Type} [Field K] [DecidableEq K] (R : K → Prop)
    (env : Nat → Vec K → Vec K) (e : Expr K) (henv : EnvOK R env e) (i : Impl K)
    (h : build env e = some i) (junk x o : Vec K) :
    runInBy inplaceOf callOf env junk i x o = den env e x := by
  rw [C04.inplace_programs_sound, C04.build_sound R env e henv i h]

/-! ### Non-vacuity: concrete instances -/

namespace OdlModel.C04
/-- leaf 0: entry-wise square on `rn(3)` (nonlinear); leaf 1: `x ↦ 2x` (linear);
leaf 2: a functional `x ↦ x₀²` (nonlinear `Functional`). -/
def envQ : Nat → Vec ℚ → Vec ℚ
  | 0 => fun x j => x j * x j
  | 1 => fun x j => 2 * x j
  | _ => fun x _ => x 0 * x 0

def P : Expr ℚ := .leaf ⟨0, .vec 3, .vec 3, false, false⟩
def M : Expr ℚ := .leaf ⟨1, .vec 3, .vec 3, true, false⟩
def F : Expr ℚ := .leaf ⟨2, .vec 3, .fld, false, true⟩
/-- `(P * 2) * M` — the expression of the repaired defect b971211 -/
def eQ : Expr ℚ := .bin .mul (.sc .rmul P 2 true) M
/-- `3 * ((2 * F) * 5) - F * 0` — merging, both `Functional` scalar forms, the zero shortcut -/
def fQ : Expr ℚ :=
  .bin .sub (.sc .lmul (.sc .rmul (.sc .lmul F 2 true) 5 true) 3 true) (.sc .rmul F 0 true)

/-- every rational is "real": the leaves of the ℚ examples are linear over the whole field -/
def allQ : ℚ → Prop := fun _ => True

/-- A complex tree with an only REAL-linear leaf flagged linear: `ComplexEmbedding ∘ RealPart`
on `cn(3)` (every entry is replaced by its real part). -/
noncomputable def envC : Nat → Vec ℂ → Vec ℂ := fun _ x j => ((x j).re : ℂ)
def ReC : Expr ℂ := .leaf ⟨0, .vec 3, .vec 3, true, false⟩
/-- the scalars such a leaf commutes with -/
def isRealC : ℂ → Prop := fun s => s.im = 0

end OdlModel.C04

open OdlModel.C04 in
/-- `(P*2)*M` is accepted, builds `OperatorComp(OperatorRightScalarMult(P, 2), M)` and
evaluates to `P(2*M(x))`: at `x = 1` the value is `16` (the pre-b971211 dispatch built
`M ∘ (P*2)`, value `8`). -/
example : ∃ i, build envQ eQ = some i ∧ typeOf eQ = some ⟨.vec 3, .vec 3, false⟩ ∧
    run envQ i (fun _ => 1) 0 = 16 := by
  obtain ⟨i, hi, _⟩ := C04.build_total envQ eQ
    (by exact ⟨fun h => by simp at h, fun h => by simp at h⟩) ⟨.vec 3, .vec 3, false⟩ rfl
  refine ⟨i, hi, rfl, ?_⟩
  have envOK_eQ : EnvOK allQ envQ eQ := by
    refine ⟨⟨⟨fun h => by simp at h, fun h => by simp at h⟩, fun _ => ⟨trivial, trivial⟩⟩,
      fun _ => ⟨fun s _ x => ?_, fun x y => ?_⟩, fun h => by simp at h⟩
    · funext j; simp only [envQ]; ring
    · funext j; simp only [envQ]; ring
  rw [C04.build_sound allQ envQ eQ envOK_eQ i hi]
  simp only [den, eQ, P, M, envQ]; norm_num

open OdlModel.C04 in
/-- A functional expression with merged scalars and the `f * 0` shortcut: the hypotheses of
`build_sound` are satisfiable and the value is the table value `3*(2*F(5x)) - F(0)`. -/
example : ∃ i, build envQ fQ = some i ∧ run envQ i (fun _ => 1) 0 = 150 := by
  obtain ⟨i, hi, _⟩ := C04.build_total envQ fQ
    (by exact ⟨fun _ => rfl, fun _ => rfl⟩) ⟨.vec 3, .fld, true⟩ rfl
  refine ⟨i, hi, ?_⟩
  have envOK_fQ : EnvOK allQ envQ fQ :=
    ⟨⟨⟨⟨⟨fun h => by simp at h, fun _ x j => rfl⟩, fun _ => ⟨trivial, trivial⟩⟩,
        fun _ => ⟨trivial, trivial⟩⟩, fun _ => ⟨trivial, trivial⟩⟩,
      ⟨⟨fun h => by simp at h, fun _ x j => rfl⟩, fun _ => ⟨trivial, trivial⟩⟩⟩
  rw [C04.build_sound allQ envQ fQ envOK_fQ i hi]
  simp only [den, fQ, F, envQ]; norm_num

open OdlModel.C04 in
/-- `linear_flag_sound` / `linear_flag_complete` are not vacuous: `(3 * M) * 2 - M`
is flagged linear. -/
example : ∃ i, build envQ (.bin .sub (.sc .rmul (.sc .lmul M 3 true) 2 true) M) = some i ∧
    i.lin = true :=
  ⟨_, rfl, rfl⟩

open OdlModel.C04 in
/-- The hypotheses are satisfiable with an only real-linear leaf flagged linear
(`A = ComplexEmbedding ∘ RealPart` on `cn(3)`, `R` = the real scalars), and `build_sound`
then covers a NON-real scalar: `A * 1j` (Python `complex`, `real = false`) builds an object
whose value at `x = 1` is the table value `A(1j * x) = Re(1j) = 0`. -/
example : ∃ i, build envC (.sc .rmul ReC Complex.I false) = some i ∧
    run envC i (fun _ => 1) 0 = 0 := by
  have hwf : LeavesWf (Expr.sc SOp.rmul ReC Complex.I false) := fun h => by simp [ReC] at h
  obtain ⟨i, hi, _⟩ := C04.build_total envC _ hwf ⟨.vec 3, .vec 3, false⟩ rfl
  refine ⟨i, hi, ?_⟩
  have henv : EnvOK isRealC envC (Expr.sc SOp.rmul ReC Complex.I false) := by
    refine ⟨⟨fun _ => ⟨fun s hs x => ?_, fun x y => ?_⟩, fun h => by simp at h⟩,
      fun h => by simp at h⟩
    · funext j; simp only [envC, isRealC] at *; apply Complex.ext <;> simp [hs]
    · funext j; simp only [envC]; apply Complex.ext <;> simp
  rw [C04.build_sound isRealC envC _ henv i hi]
  simp [den, ReC, envC]

open OdlModel.C04 in
/-- Sensitivity (the dispatch before the repair of C04-F2 moved EVERY scalar of a flagged
operator to the left): for the same leaf, `1j * A(x)` is not the table value `A(1j * x)`. -/
example : run envC (opRMulScal Complex.I (Impl.leaf ⟨0, .vec 3, .vec 3, true, false⟩))
      (fun _ => 1) 0 ≠
    den envC (.sc .rmul ReC Complex.I false) (fun _ => 1) 0 := by
  rw [run_opRMulScal]
  simp [den, ReC, envC, run]

open OdlModel.C04 in
/-- non-vacuity: `2 * (3 * ((P * 5) * 7))` builds, the result is merged, and it is NOT the
unmerged tree the expression spells out (one left and one right factor remain). -/
example : ∃ i, build envQ (.sc .lmul (.sc .lmul (.sc .rmul (.sc .rmul P 5 true) 7 true) 3 true) 2 true)
      = some i ∧ i.merged = true ∧
      i = .lscal false (.rscal false (.leaf ⟨0, .vec 3, .vec 3, false, false⟩) (5 * 7)) (2 * 3) :=
  ⟨_, rfl, rfl, rfl⟩

namespace OdlModel.C04
/-- leaf 0: the matrix `[[1,2],[0,1],[3,0]]` (rn(2) → rn(3)), leaf 1: PowerOperator(rn(3), 2),
leaf 2: ShiftPower(rn(3), 1) -/
def specsQ : Nat → LeafSpec ℚ
  | 0 => .mat 2 3 [[1, 2], [0, 1], [3, 0]]
  | 1 => .pow 3 2
  | _ => .shift 3 1
def zQ : Expr ℚ :=
  .sc .lmul (.bin .mul (.sc .rmul (.leaf ((specsQ 1).info 1)) 2 true)
    (.bin .mul (.leaf ((specsQ 2).info 2)) (.leaf ((specsQ 0).info 0)))) 3 true
end OdlModel.C04

open OdlModel.C04 in
/-- non-vacuity of the zoo theorems: `3 * ((Pow2 * 2) * (Shift * Mat))` is a zoo expression,
builds, and at `x = (1, 1)` its first entry is `3 * (2 * 1)^2 = 12`. -/
example : ZooExpr specsQ zQ ∧ ∃ i, build (zooEnv specsQ) zQ = some i ∧
    run (zooEnv specsQ) i (fun _ => 1) 0 = 12 := by
  have hz : ZooExpr specsQ zQ := ⟨rfl, rfl, rfl⟩
  refine ⟨hz, ?_⟩
  obtain ⟨i, hi, _⟩ := C04.build_total (zooEnv specsQ) zQ
    (by simp [zQ, LeavesWf, specsQ, LeafSpec.info]) ⟨.vec 2, .vec 3, false⟩ rfl
  refine ⟨i, hi, ?_⟩
  rw [(C04.build_sound_zoo specsQ zQ hz i hi _).1]
  simp [den, zQ, zooEnv, specsQ, LeafSpec.map, LeafSpec.info, dotFrom, powK]
  norm_num

/-! ### Round 4: the leaf hypotheses discharged for the FULL executable pool -/

/-- `leaf_class_sound`: the linearity class the model assigns to each executable leaf map of the
correspondence pool (`LeafSpecC.cls`, printed by the driver on the `leafclass` stream and
compared there with the behaviour of the real operator) is correct, for every size, vector `y`,
scalar `c`, exponent `p`: class `all` (InnerProductOperator, the linear functional `<·, y>`,
ScalingOperator on the field, PowerOperator with exponent 1, the linear leaves of the old zoo)
means additive and homogeneous for EVERY scalar of the field; class `realOnly`
(ComplexEmbedding ∘ RealPart / ImagPart) means additive and homogeneous for the scalars that
commute with `re` and `im` (the real ones).  `cs` is any conjugation / real part / imaginary
part with additive `re`, `im`; nothing is asked of `conj`. -/
theorem C04.leaf_class_sound {K : Type} [Field K] [DecidableEq K] (cs : CStruct K)
    (hadd : cs.AddOK) (s : LeafSpecC K) :
    (s.cls = .all → IsLin allK (s.map cs)) ∧
    (s.cls = .realOnly → IsLin cs.commutes (s.map cs)) :=
  leafSpecC_class cs hadd s

/-- `zoo_full_leaves_ok`: every leaf map the driver executes — the old zoo plus inner / linf /
l2sq / repart / impart / scalef / powf — satisfies what `EnvOK` asks of a leaf with the flags
the library gives it: flagged `is_linear` ⇒ linear over the scalars commuting with `re`/`im`,
`Functional` ⇒ returns a scalar.  (L2NormSquared and PowerOperator(field, p ≠ 1) are not
flagged and nothing is claimed of them.) -/
theorem C04.zoo_full_leaves_ok {K : Type} [Field K] [DecidableEq K] (cs : CStruct K)
    (hadd : cs.AddOK) (id : Nat) (s : LeafSpecC K) :
    ((s.info id).lin = true → IsLin cs.commutes (s.map cs)) ∧
    ((s.info id).fn = true → ConstFam (s.map cs)) :=
  leafSpecC_ok cs hadd id s

/-- `build_sound_zoo_full`: soundness with NO leaf hypothesis over the full executable pool.
For every assignment of concrete leaves (old zoo, InnerProductOperator, linear functional,
L2NormSquared, Re/Im embeddings, field Scaling / Power), every expression over them (any
depth, scalars, vectors), if Python builds an object then its out-of-place value and its value
in in-place operand order are the documented-table value at every point.  What remains as
hypothesis is about the SCALARS only: those marked `Real` commute with `re`/`im`
(`RealMarks`; true for Python `int`/`float`), and `re`, `im` are additive. -/
theorem C04.build_sound_zoo_full {K : Type} [Field K] [DecidableEq K] (cs : CStruct K)
    (hadd : cs.AddOK) (specs : Nat → LeafSpecC K) (e : Expr K) (hz : ZooExprC specs e)
    (hre : RealMarks cs.commutes e) (i : Impl K)
    (h : build (zooEnvC cs specs) e = some i) (x : Vec K) :
    run (zooEnvC cs specs) i x = den (zooEnvC cs specs) e x ∧
    runIn (zooEnvC cs specs) i x = den (zooEnvC cs specs) e x :=
  ⟨C04.build_sound _ _ e (zooC_envOK cs hadd specs e hz hre) i h x,
   C04.build_sound_inplace _ _ e (zooC_envOK cs hadd specs e hz hre) i h x⟩

/-- `linear_flag_sound_zoo_full`: over the full pool a set `is_linear` flag means the
expression is additive and homogeneous for the scalars commuting with `re`/`im` — real-linear;
this is all that can hold, see `repart_not_complex_linear`. -/
theorem C04.linear_flag_sound_zoo_full {K : Type} [Field K] [DecidableEq K] (cs : CStruct K)
    (hadd : cs.AddOK) (specs : Nat → LeafSpecC K) (e : Expr K) (hz : ZooExprC specs e)
    (hre : RealMarks cs.commutes e) (i : Impl K)
    (h : build (zooEnvC cs specs) e = some i) (hl : i.lin = true) :
    IsLin cs.commutes (den (zooEnvC cs specs) e) :=
  C04.linear_flag_sound _ _ e (zooC_envOK cs hadd specs e hz hre) i h hl

/-- `crat_field_is_driver_arith` (by construction, kernel-checked `rfl`s): the `Field` structure
on the Gaussian rationals under which the C04 theorems are instantiated below has, as its `+`,
`*`, unary `-`, binary `-`, `/`, `0` and `1`, literally the functions of `Model/CRat.lean` that
`Drivers/C04.lean` computes with (no re-definition of subtraction or division in between). -/
theorem C04.crat_field_is_driver_arith :
    OdlModel.CRat.instField.toAdd = OdlModel.CRat.instAdd ∧
    OdlModel.CRat.instField.toMul = OdlModel.CRat.instMul ∧
    OdlModel.CRat.instField.toNeg = OdlModel.CRat.instNeg ∧
    OdlModel.CRat.instField.toSub = OdlModel.CRat.instSub ∧
    OdlModel.CRat.instField.toDiv = OdlModel.CRat.instDiv ∧
    @OfNat.ofNat OdlModel.CRat 0 Zero.toOfNat0 = @OfNat.ofNat OdlModel.CRat 0 OdlModel.CRat.instOfNat ∧
    @OfNat.ofNat OdlModel.CRat 1 One.toOfNat1 = @OfNat.ofNat OdlModel.CRat 1 OdlModel.CRat.instOfNat :=
  ⟨rfl, rfl, rfl, rfl, rfl, rfl, rfl⟩

/-- `build_sound_driver_pool`: the full-pool soundness AT THE TYPE AND STRUCTURE THE DRIVER RUNS
(`K` = Gaussian rationals, `cratStruct` = their `conj`/`re`/`im`; `zooEnvC cratStruct specs` is
the very environment `Drivers/C04.lean` builds from the wire leaves).  The side conditions on
`re`/`im` are discharged; what is left is: every scalar the harness marks `Real` has imaginary
part 0 (`MarksIn`), which the wire format guarantees for Python `int`/`float`. -/
theorem C04.build_sound_driver_pool (specs : Nat → LeafSpecC OdlModel.CRat)
    (e : Expr OdlModel.CRat) (hz : ZooExprC specs e) (hre : MarksIn (fun s => s.im = 0) e)
    (i : Impl OdlModel.CRat) (h : build (zooEnvC cratStruct specs) e = some i)
    (x : Vec OdlModel.CRat) :
    run (zooEnvC cratStruct specs) i x = den (zooEnvC cratStruct specs) e x ∧
    runIn (zooEnvC cratStruct specs) i x = den (zooEnvC cratStruct specs) e x :=
  C04.build_sound_zoo_full cratStruct cratStruct_addOK specs e hz (realMarks_crat e hre) i h x

/-- `linear_flag_sound_driver_pool`: at the driver's instance, a set `is_linear` flag on the
object built for a pool expression means additive and homogeneous for every scalar with
imaginary part 0. -/
theorem C04.linear_flag_sound_driver_pool (specs : Nat → LeafSpecC OdlModel.CRat)
    (e : Expr OdlModel.CRat) (hz : ZooExprC specs e) (hre : MarksIn (fun s => s.im = 0) e)
    (i : Impl OdlModel.CRat) (h : build (zooEnvC cratStruct specs) e = some i)
    (hl : i.lin = true) :
    IsLin (fun s => s.im = 0) (den (zooEnvC cratStruct specs) e) := by
  have := C04.linear_flag_sound_zoo_full cratStruct cratStruct_addOK specs e hz
    (realMarks_crat e hre) i h hl
  exact ⟨fun s hs x => this.1 s (cratStruct_commutes_of_real s hs) x, this.2⟩

namespace OdlModel.C04
/-- leaf 0: `ComplexEmbedding ∘ RealPart` on cn(2); leaf 1: `InnerProductOperator((1j, 1))`;
leaf 2: `L2NormSquared(cn(2))` -/
noncomputable def specsC : Nat → LeafSpecC ℂ
  | 0 => .repart 2
  | 1 => .inner 2 [Complex.I, 1] false
  | _ => .l2sq 2
/-- `2 * (Re * 1j) + v * (3 * Inner)` with `v = (1, 1j)` -/
noncomputable def zC : Expr ℂ :=
  .bin .add (.sc .lmul (.sc .rmul (.leaf ((specsC 0).info 0)) Complex.I false) 2 true)
    (.vc .lmul (.sc .lmul (.leaf ((specsC 1).info 1)) 3 true) ⟨2, fun j => if j = 0 then 1 else Complex.I⟩)
end OdlModel.C04

/-- `repart_not_complex_linear`: class `realOnly` is tight — over `ℂ` the Re-embedding leaf
(flagged `is_linear` by the library) is NOT homogeneous for the scalar `1j`; this is why the
dispatch may move only `Real` scalars through a flagged operator (C04-F2) and why the zoo
theorems speak of the commuting scalars. -/
theorem C04.repart_not_complex_linear :
    ¬ Homog allK ((LeafSpecC.repart 2 : LeafSpecC ℂ).map OdlModel.C04.csC) := by
  intro h
  have := congrFun (h Complex.I trivial (fun _ => Complex.I)) 0
  simp [LeafSpecC.map, OdlModel.C04.csC] at this

/-- `l2sq_powf_not_additive`: class `none` is tight for the two unflagged leaves of the pool:
over `ℚ` (trivial conjugation) `L2NormSquared(rn(1))` and `PowerOperator(field, 2)` are not
additive. -/
theorem C04.l2sq_powf_not_additive :
    ¬ Additive ((LeafSpecC.l2sq 1 : LeafSpecC ℚ).map ⟨id, id, fun _ => 0⟩) ∧
    ¬ Additive ((LeafSpecC.powf 2 : LeafSpecC ℚ).map ⟨id, id, fun _ => 0⟩) := by
  constructor <;> intro h <;>
    have := congrFun (h (fun _ => 1) (fun _ => 1)) 0 <;>
    simp only [LeafSpecC.map, sqSum, powK, id] at this <;>
    grind

open OdlModel.C04 in
/-- non-vacuity of the full-zoo theorems over `ℂ`: the hypotheses hold for
`2 * (Re * 1j) + v * (3 * Inner)` (a real-linear-only leaf under a complex right scalar and a
real left scalar, an inner-product leaf under a left vector), it builds, and its first entry at
`x = (1, 1)` is `2 * Re(1j) + 1 * 3 * (1 * conj(1j) + 1) = 3 - 3j`. -/
example : ZooExprC specsC zC ∧ RealMarks csC.commutes zC ∧
    ∃ i, build (zooEnvC csC specsC) zC = some i ∧
      run (zooEnvC csC specsC) i (fun _ => 1) 0 = 3 - 3 * Complex.I := by
  have hz : ZooExprC specsC zC := ⟨rfl, rfl⟩
  have hre : RealMarks csC.commutes zC := by
    refine ⟨⟨⟨trivial, fun h => by simp at h⟩, fun _ => ⟨csC_commutes_of_real _ (by simp),
      csC_commutes_of_real _ (by simp)⟩⟩, trivial, fun _ => ⟨csC_commutes_of_real _ (by simp),
      csC_commutes_of_real _ (by simp)⟩⟩
  refine ⟨hz, hre, ?_⟩
  obtain ⟨i, hi, _⟩ := C04.build_total (zooEnvC csC specsC) zC
    (by simp [zC, LeavesWf, specsC, LeafSpecC.info]) ⟨.vec 2, .vec 2, false⟩ rfl
  refine ⟨i, hi, ?_⟩
  rw [(C04.build_sound_zoo_full csC csC_addOK specsC zC hz hre i hi _).1]
  simp [den, zC, zooEnvC, specsC, LeafSpecC.map, LeafSpecC.info, dotConj, csC]
  apply Complex.ext <;> simp

namespace OdlModel.C04
/-- leaf 0: Im-embedding on cn(2); leaf 1: the linear functional `<·, (1+1j, 2)>`;
leaf 2: `PowerOperator(field, 2)` -/
def specsD : Nat → LeafSpecC OdlModel.CRat
  | 0 => .impart 2
  | 1 => .inner 2 [⟨1, 1⟩, ⟨2, 0⟩] true
  | _ => .powf 2
/-- `(Pow2f * (Linf * (Im * 1j))) * 2`, the `2` a Python float -/
def zD : Expr OdlModel.CRat :=
  .sc .rmul (.bin .mul (.leaf ((specsD 2).info 2))
    (.bin .mul (.leaf ((specsD 1).info 1)) (.sc .rmul (.leaf ((specsD 0).info 0)) ⟨0, 1⟩ false))) ⟨2, 0⟩ true
end OdlModel.C04

open OdlModel.C04 in
/-- non-vacuity at the driver's instance: the hypotheses of `build_sound_driver_pool` hold for
`(Pow2f * (Linf * (Im * 1j))) * 2`, it builds, and at `x = (1, 1)` the value is
`(<Im(1j * 2x) , y>)^2 = (2(1-1j) + 4)^2 = 32 - 24j`. -/
example : ZooExprC specsD zD ∧ MarksIn (fun s => s.im = 0) zD ∧
    ∃ i, build (zooEnvC cratStruct specsD) zD = some i ∧
      run (zooEnvC cratStruct specsD) i (fun _ => ⟨1, 0⟩) 0 = ⟨32, -24⟩ := by
  have hz : ZooExprC specsD zD := ⟨rfl, rfl, rfl⟩
  have hre : MarksIn (fun s => s.im = 0) zD :=
    ⟨⟨trivial, trivial, trivial, fun h => by simp at h⟩, fun _ => rfl⟩
  refine ⟨hz, hre, ?_⟩
  obtain ⟨i, hi, _⟩ := C04.build_total (zooEnvC cratStruct specsD) zD
    (by simp [zD, LeavesWf, specsD, LeafSpecC.info]) ⟨.vec 2, .fld, false⟩ rfl
  refine ⟨i, hi, ?_⟩
  rw [(C04.build_sound_driver_pool specsD zD hz hre i hi _).1]
  simp only [den, zD, zooEnvC, specsD, LeafSpecC.map, LeafSpecC.info, dotConj, powK, cratStruct,
    OdlModel.CRat.conj]
  ext <;> simp <;> norm_num

/-- the in-place programmes are not vacuous: `OperatorSum` has one with a temporary, and on
`(P * 2) + M` (nonlinear `P`, leaves of `envQ`) the interpreter started with junk `out = -13`,
`tmp = 77` returns `P(2x) + M(x) = 4 + 2 = 6` at `x = 1`. -/
example : inplaceOf .OperatorSum = some (.stmts [.fresh .tmp, .callIn true .x .tmp,
      .callIn false .x .out, .iadd .out (.reg .tmp)]) ∧
    runInBy inplaceOf callOf OdlModel.C04.envQ (fun _ => 77)
      (.sum false (.rscal false (.leaf ⟨0, .vec 3, .vec 3, false, false⟩) 2)
        (.leaf ⟨1, .vec 3, .vec 3, true, false⟩)) (fun _ => 1) (fun _ => -13) 0 = 6 := by
  refine ⟨rfl, ?_⟩
  rw [C04.inplace_programs_sound]
  simp [run, OdlModel.C04.envQ]; norm_num
