/-
C08 — functional, convex conjugate and their proximals are mutually consistent.
Property theorems only.  Abstract layer: Fenchel–Young pairs `(f, f*)` with a subgradient
relation in an arbitrary real inner-product space `E` (the functional's OWN inner product:
covers `rn`, weighted `rn`, `uniform_discr`, product spaces), the conjugation rules exactly
as the derived classes of `functional.py` code them, and the Moreau identity from the
resolvent of the inverse relation.  Concrete layer: the built-in pairs, on `E` or on weighted
lists over any ordered field (all lengths).  The coded rules themselves (`Fn.conj` in
`Model/Functionals.lean`) are tied to /repo by the correspondence run.
-/
import OdlModel.Lemmas.Functionals
import OdlModel.Lemmas.WeightedSpace
import OdlModel.Model.Prox
import OdlModel.Model.FunctionalsProx
import OdlModel.Model.FunctionalsSep
import Mathlib.Analysis.InnerProductSpace.Basic
import Mathlib.Algebra.Order.Field.Basic
import Mathlib.Algebra.Order.Group.MinMax
import Mathlib.Tactic.Ring
import Mathlib.Tactic.Linarith
import Mathlib.Tactic.FieldSimp
import Mathlib.Tactic.Positivity
import Mathlib.Tactic.NormNum

open OdlModel.Functionals OdlModel.FunctionalsR
open scoped RealInnerProductSpace

set_option linter.unusedSectionVars false
variable {E : Type} [NormedAddCommGroup E] [InnerProductSpace ℝ E]

namespace OdlModel.C08
/-- Fenchel–Young inequality for an extended-real pair given by (domain, finite part):
`f(x) + g(y) ≥ ⟨x, y⟩` (trivially true where a value is `+∞`). -/
def FY (df : E → Prop) (f : E → ℝ) (dg : E → Prop) (g : E → ℝ) : Prop :=
  ∀ x y, df x → dg y → ⟪x, y⟫ ≤ f x + g y
/-- Equality on the (sub)gradient relation `T` (`T x y` : "`y` is a subgradient of `f` at `x`"). -/
def FYeq (df : E → Prop) (f : E → ℝ) (dg : E → Prop) (g : E → ℝ) (T : E → E → Prop) : Prop :=
  ∀ x y, T x y → df x ∧ dg y ∧ f x + g y = ⟪x, y⟫
/-- `g` (with domain `dg`) is a conjugate partner of `f` with subgradient relation `T`. -/
def ConjPair (df : E → Prop) (f : E → ℝ) (dg : E → Prop) (g : E → ℝ) (T : E → E → Prop) : Prop :=
  FY df f dg g ∧ FYeq df f dg g T
/-- `p` is the resolvent of the relation `T` at `x` with step `σ`: `(x − p)/σ ∈ T p`
(for `T = ∂f` this characterises `p = prox_{σ f}(x)`, property C07). -/
def IsRes (T : E → E → Prop) (σ : ℝ) (x p : E) : Prop := T p ((1 / σ) • (x - p))
end OdlModel.C08
open OdlModel.C08

/-- `FunctionalLeftScalarMult.convex_conj` (`s > 0`): `(s f)* = s · f*(· / s)`. -/
theorem C08.conj_left_scalar {df dg : E → Prop} {f g : E → ℝ} {T : E → E → Prop} {s : ℝ}
    (hs : 0 < s) (h : ConjPair df f dg g T) :
    ConjPair df (fun x => s * f x) (fun y => dg ((1 / s) • y)) (fun y => s * g ((1 / s) • y))
      (fun x y => T x ((1 / s) • y)) := by
  have hne : s ≠ 0 := ne_of_gt hs
  constructor
  · intro x y hx hy
    have := h.1 x ((1 / s) • y) hx hy
    rw [real_inner_smul_right] at this
    have h2 := mul_le_mul_of_nonneg_left this hs.le
    have : s * (1 / s * ⟪x, y⟫) = ⟪x, y⟫ := by field_simp
    linarith
  · intro x y hT
    obtain ⟨hx, hy, he⟩ := h.2 x _ hT
    refine ⟨hx, hy, ?_⟩
    rw [real_inner_smul_right] at he
    have : s * (f x + g ((1 / s) • y)) = s * (1 / s * ⟪x, y⟫) := by rw [he]
    have h3 : s * (1 / s * ⟪x, y⟫) = ⟪x, y⟫ := by field_simp
    linarith

/-- `FunctionalRightScalarMult.convex_conj` (`s ≠ 0`): `(f(s ·))* = f*(· / s)`. -/
theorem C08.conj_right_scalar {df dg : E → Prop} {f g : E → ℝ} {T : E → E → Prop} {s : ℝ}
    (hs : s ≠ 0) (h : ConjPair df f dg g T) :
    ConjPair (fun x => df (s • x)) (fun x => f (s • x)) (fun y => dg ((1 / s) • y))
      (fun y => g ((1 / s) • y)) (fun x y => T (s • x) ((1 / s) • y)) := by
  have key : ∀ x y : E, ⟪s • x, (1 / s) • y⟫ = ⟪x, y⟫ := by
    intro x y; rw [real_inner_smul_left, real_inner_smul_right]; field_simp
  constructor
  · intro x y hx hy
    have := h.1 _ _ hx hy
    rwa [key] at this
  · intro x y hT
    obtain ⟨hx, hy, he⟩ := h.2 _ _ hT
    exact ⟨hx, hy, by rw [he, key]⟩

/-- `FunctionalScalarSum.convex_conj`: `(f + c)* = f* − c`. -/
theorem C08.conj_scalar_sum {df dg : E → Prop} {f g : E → ℝ} {T : E → E → Prop} (c : ℝ)
    (h : ConjPair df f dg g T) :
    ConjPair df (fun x => f x + c) dg (fun y => g y + -c) T := by
  constructor
  · intro x y hx hy; have := h.1 x y hx hy; linarith
  · intro x y hT; obtain ⟨hx, hy, he⟩ := h.2 x y hT; exact ⟨hx, hy, by linarith⟩

/-- `FunctionalTranslation.convex_conj`: `(f(· − t))* = f* + ⟨·, t⟩`
(coded as `FunctionalQuadraticPerturb(f*, linear_term=t)`). -/
theorem C08.conj_translation {df dg : E → Prop} {f g : E → ℝ} {T : E → E → Prop} (t : E)
    (h : ConjPair df f dg g T) :
    ConjPair (fun x => df (x - t)) (fun x => f (x - t)) dg (fun y => g y + 0 * ⟪y, y⟫ + ⟪y, t⟫ + 0)
      (fun x y => T (x - t) y) := by
  have key : ∀ x y : E, ⟪x - t, y⟫ = ⟪x, y⟫ - ⟪y, t⟫ := by
    intro x y; rw [inner_sub_left, real_inner_comm t y]
  constructor
  · intro x y hx hy
    have := h.1 _ _ hx hy
    rw [key] at this; linarith
  · intro x y hT
    obtain ⟨hx, hy, he⟩ := h.2 _ _ hT
    refine ⟨hx, hy, ?_⟩
    rw [key] at he; linarith

/-- `FunctionalQuadraticPerturb.convex_conj` with `a = 0` (also `BregmanDistance`):
`(f + ⟨·, u⟩ + c)* = f*(· − u) − c` (coded as `f*.translated(u) - c`). -/
theorem C08.conj_linear_perturb {df dg : E → Prop} {f g : E → ℝ} {T : E → E → Prop} (u : E) (c : ℝ)
    (h : ConjPair df f dg g T) :
    ConjPair df (fun x => f x + 0 * ⟪x, x⟫ + ⟪x, u⟫ + c) (fun y => dg (y - u))
      (fun y => g (y - u) + -c) (fun x y => T x (y - u)) := by
  have key : ∀ x y : E, ⟪x, y - u⟫ = ⟪x, y⟫ - ⟪x, u⟫ := by
    intro x y; rw [inner_sub_right]
  constructor
  · intro x y hx hy
    have := h.1 _ _ hx hy
    rw [key] at this; linarith
  · intro x y hT
    obtain ⟨hx, hy, he⟩ := h.2 _ _ hT
    refine ⟨hx, hy, ?_⟩
    rw [key] at he; linarith

/-- `FunctionalRightVectorMult.convex_conj`: `(f(v ·))* = f*(· / v)`, for a symmetric
multiplication operator `M` (`x ↦ v·x`) with inverse `N` (`x ↦ x / v`). -/
theorem C08.conj_right_vector {df dg : E → Prop} {f g : E → ℝ} {T : E → E → Prop}
    (M N : E → E) (hsym : ∀ a b, ⟪M a, b⟫ = ⟪a, M b⟫) (hinv : ∀ a, M (N a) = a)
    (h : ConjPair df f dg g T) :
    ConjPair (fun x => df (M x)) (fun x => f (M x)) (fun y => dg (N y)) (fun y => g (N y))
      (fun x y => T (M x) (N y)) := by
  have key : ∀ x y : E, ⟪M x, N y⟫ = ⟪x, y⟫ := by
    intro x y; rw [hsym, hinv]
  constructor
  · intro x y hx hy
    have := h.1 _ _ hx hy
    rwa [key] at this
  · intro x y hT
    obtain ⟨hx, hy, he⟩ := h.2 _ _ hT
    exact ⟨hx, hy, by rw [he, key]⟩

/-- `SeparableSum.convex_conj`: the conjugate of a separable sum on a product space (whose
inner product is the sum of the parts' inner products) is the separable sum of conjugates. -/
theorem C08.conj_separable {F : Type} [NormedAddCommGroup F] [InnerProductSpace ℝ F]
    {df₁ dg₁ : E → Prop} {f₁ g₁ : E → ℝ} {T₁ : E → E → Prop}
    {df₂ dg₂ : F → Prop} {f₂ g₂ : F → ℝ} {T₂ : F → F → Prop}
    (h₁ : ConjPair df₁ f₁ dg₁ g₁ T₁) (h₂ : ConjPair df₂ f₂ dg₂ g₂ T₂) :
    (∀ x₁ x₂ y₁ y₂, df₁ x₁ → df₂ x₂ → dg₁ y₁ → dg₂ y₂ →
        ⟪x₁, y₁⟫ + ⟪x₂, y₂⟫ ≤ (f₁ x₁ + f₂ x₂) + (g₁ y₁ + g₂ y₂)) ∧
    (∀ x₁ x₂ y₁ y₂, T₁ x₁ y₁ → T₂ x₂ y₂ →
        (f₁ x₁ + f₂ x₂) + (g₁ y₁ + g₂ y₂) = ⟪x₁, y₁⟫ + ⟪x₂, y₂⟫) := by
  constructor
  · intro x₁ x₂ y₁ y₂ a b c d
    have := h₁.1 x₁ y₁ a c; have := h₂.1 x₂ y₂ b d; linarith
  · intro x₁ x₂ y₁ y₂ a b
    have := (h₁.2 x₁ y₁ a).2.2; have := (h₂.2 x₂ y₂ b).2.2; linarith

/-- `InfimalConvolution.convex_conj = f* + g*`: Fenchel–Young for any `h` that dominates every
lower bound of `z ↦ f(x − z) + g(z)` (in particular the infimal convolution itself). -/
theorem C08.conj_infconv_ineq {f g f' g' h : E → ℝ}
    (hf : FY (fun _ => True) f (fun _ => True) f') (hg : FY (fun _ => True) g (fun _ => True) g')
    (hinf : ∀ x c, (∀ z, c ≤ f (x - z) + g z) → c ≤ h x) :
    FY (fun _ => True) h (fun _ => True) (fun y => f' y + g' y) := by
  intro x y _ _
  have : ⟪x, y⟫ - (f' y + g' y) ≤ h x := by
    apply hinf
    intro z
    have h1 := hf (x - z) y trivial trivial
    have h2 := hg z y trivial trivial
    rw [inner_sub_left] at h1
    linarith
  linarith

/-- Bookkeeping lemma (NOT the Moreau decomposition of any coded proximal): the resolvent
condition `(x − p)/σ ∈ T p` IS the resolvent condition of the inverse relation at `x/σ` with
step `1/σ` for the point `(x − p)/σ`, and `p + σ·((x − p)/σ) = x`.  It only re-reads the
hypothesis; the content of the Moreau clause is `C08.resolvent_unique` (uniqueness),
`C07.prox_moreau` (the coded `proximal_convex_conj` is the proximal of the conjugate) and
`C08.moreau_l1_coded` / `C08.moreau_l2sq_coded` (the decomposition for the hand-coded
independent pairs of the model). -/
theorem C08.moreau_inverse_resolvent_bookkeeping (T : E → E → Prop) {σ : ℝ} (hσ : 0 < σ) (x p : E)
    (h : IsRes T σ x p) :
    IsRes (fun y z => T z y) (1 / σ) ((1 / σ) • x) ((1 / σ) • (x - p)) ∧
      p + σ • ((1 / σ) • (x - p)) = x := by
  have hne : σ ≠ 0 := ne_of_gt hσ
  have e1 : (1 / (1 / σ)) • ((1 / σ) • x - (1 / σ) • (x - p)) = p := by
    rw [← smul_sub, smul_smul]
    have : 1 / (1 / σ) * (1 / σ) = 1 := by field_simp
    rw [this, one_smul]; abel
  refine ⟨?_, ?_⟩
  · unfold IsRes
    rw [e1]
    exact h
  · rw [smul_smul]
    have : σ * (1 / σ) = 1 := by field_simp
    rw [this, one_smul]; abel

/-- The resolvent of a monotone relation is unique, so the point produced through the Moreau
identity IS the proximal point of the conjugate. -/
theorem C08.resolvent_unique (T : E → E → Prop)
    (hmono : ∀ a b u v, T a u → T b v → 0 ≤ ⟪a - b, u - v⟫) {σ : ℝ} (hσ : 0 < σ) (x p q : E)
    (hp : IsRes T σ x p) (hq : IsRes T σ x q) : p = q := by
  have := hmono _ _ _ _ hp hq
  have e : (1 / σ) • (x - p) - (1 / σ) • (x - q) = (-(1 / σ)) • (p - q) := by
    rw [← smul_sub, neg_smul, ← smul_neg]; congr 1; abel
  rw [e, real_inner_smul_right, real_inner_self_eq_norm_sq] at this
  have hk : 0 < 1 / σ := by positivity
  have h0 : ‖p - q‖ ^ 2 ≤ 0 := by nlinarith [sq_nonneg ‖p - q‖]
  have : ‖p - q‖ = 0 := by nlinarith [norm_nonneg (p - q)]
  exact sub_eq_zero.mp (norm_eq_zero.mp this)

/-! ### Concrete pairs on an arbitrary real inner-product space -/

/-- `L2NormSquared.convex_conj = (1/4)·L2NormSquared`, subgradient `y = 2x`. -/
theorem C08.l2sq_conj :
    ConjPair (fun _ : E => True) (fun x => ⟪x, x⟫) (fun _ => True) (fun y => 1 / 4 * ⟪y, y⟫)
      (fun x y => y = (2 : ℝ) • x) := by
  constructor
  · intro x y _ _
    have := real_inner_self_nonneg (x := x - (1 / 2 : ℝ) • y)
    rw [inner_sub_left, inner_sub_right, inner_sub_right, real_inner_smul_left, real_inner_smul_right,
      real_inner_smul_left, real_inner_smul_right, real_inner_comm x y] at this
    linarith
  · rintro x y rfl
    refine ⟨trivial, trivial, ?_⟩
    show ⟪x, x⟫ + 1 / 4 * ⟪(2 : ℝ) • x, (2 : ℝ) • x⟫ = ⟪x, (2 : ℝ) • x⟫
    rw [real_inner_smul_left, real_inner_smul_right]; ring

/-- `ConstantFunctional(c).convex_conj = IndicatorZero(-c)` and back. -/
theorem C08.const_indzero_conj (c : ℝ) :
    ConjPair (fun _ : E => True) (fun _ => c) (fun y => y = 0) (fun _ => -c) (fun _ y => y = 0) := by
  constructor
  · rintro x y _ rfl; simp
  · rintro x y rfl; simp

/-- `L2Norm.convex_conj = IndicatorLpUnitBall(2)` (Cauchy–Schwarz), equality at `y = x/‖x‖`. -/
theorem C08.l2_conj :
    ConjPair (fun _ : E => True) (fun x => ‖x‖) (fun y => ‖y‖ ≤ 1) (fun _ => 0)
      (fun x y => x ≠ 0 ∧ y = (1 / ‖x‖) • x) := by
  constructor
  · intro x y _ hy
    have := real_inner_le_norm x y
    have : ‖x‖ * ‖y‖ ≤ ‖x‖ * 1 := mul_le_mul_of_nonneg_left hy (norm_nonneg x)
    linarith
  · rintro x y ⟨hx, rfl⟩
    have hn : ‖x‖ ≠ 0 := norm_ne_zero_iff.mpr hx
    refine ⟨trivial, ?_, ?_⟩
    · show ‖(1 / ‖x‖) • x‖ ≤ 1
      rw [norm_smul, Real.norm_eq_abs, abs_of_nonneg (by positivity)]
      rw [one_div, inv_mul_cancel₀ hn]
    · show ‖x‖ + 0 = ⟪x, (1 / ‖x‖) • x⟫
      rw [real_inner_smul_right, real_inner_self_eq_norm_sq]; field_simp; ring

/-- `QuadraticForm.convex_conj`: for symmetric positive `A` with inverse `Ainv`,
`(⟨x, Ax⟩ + ⟨b, x⟩ + c)*(y) = ¼⟨y − b, A⁻¹(y − b)⟩ − c`, with equality at `y = ∇f(x) = 2Ax + b`
(the factor ¼ was missing before the fix of finding F5, see `quadform_conj_old_fails`;
`C08.conj_sound` ties this formula to the coded construction). -/
theorem C08.quadform_conj (A Ainv : E →ₗ[ℝ] E) (b : E) (c : ℝ)
    (hsym : ∀ u v, ⟪A u, v⟫ = ⟪u, A v⟫) (hpos : ∀ u, 0 ≤ ⟪u, A u⟫) (hinv : ∀ u, A (Ainv u) = u) :
    ConjPair (fun _ : E => True) (fun x => ⟪x, A x⟫ + ⟪b, x⟫ + c) (fun _ => True)
      (fun y => 1 / 4 * ⟪y - b, Ainv (y - b)⟫ - c) (fun x y => y = (2 : ℝ) • A x + b) := by
  have quad_id : ∀ x v : E, (⟪x, A x⟫ + ⟪b, x⟫ + c) + (1 / 4 * ⟪A v, v⟫ - c) - ⟪x, A v + b⟫
      = ⟪x - (1 / 2 : ℝ) • v, A (x - (1 / 2 : ℝ) • v)⟫ := by
    intro x v
    have e1 : ⟪v, A x⟫ = ⟪x, A v⟫ := by rw [← hsym, real_inner_comm]
    have e2 : ⟪v, A v⟫ = ⟪A v, v⟫ := real_inner_comm _ _
    have e3 : ⟪b, x⟫ = ⟪x, b⟫ := real_inner_comm _ _
    simp only [map_sub, map_smul, inner_sub_left, inner_sub_right, inner_add_right,
      real_inner_smul_left, real_inner_smul_right, e1, e2, e3]
    ring
  constructor
  · intro x y _ _
    have hA : A (Ainv (y - b)) = y - b := hinv _
    have hy : y = A (Ainv (y - b)) + b := by rw [hA]; abel
    have h1 := quad_id x (Ainv (y - b))
    have h2 := hpos (x - (1 / 2 : ℝ) • Ainv (y - b))
    rw [← h1, ← hy, hA] at h2
    linarith
  · rintro x y rfl
    refine ⟨trivial, trivial, ?_⟩
    have e0 : (2 : ℝ) • A x + b - b = A ((2 : ℝ) • x) := by rw [map_smul]; abel
    have e : ⟪(2 : ℝ) • A x + b - b, Ainv ((2 : ℝ) • A x + b - b)⟫ = 4 * ⟪x, A x⟫ := by
      rw [e0, hsym, hinv, map_smul, real_inner_smul_left, real_inner_smul_right]; ring
    show ⟪x, A x⟫ + ⟪b, x⟫ + c + (1 / 4 * ⟪(2 : ℝ) • A x + b - b, Ainv ((2 : ℝ) • A x + b - b)⟫ - c)
      = ⟪x, (2 : ℝ) • A x + b⟫
    rw [e, inner_add_right, real_inner_smul_right, real_inner_comm b x]; ring

/-- Non-vacuity of the rules: `2·‖·‖²` on `E = ℝ` with its coded conjugate `2·(¼‖·/2‖²)`. -/
example : ConjPair (fun _ : ℝ => True) (fun x => 2 * ⟪x, x⟫) (fun _ => True)
    (fun y => 2 * (1 / 4 * ⟪(1 / 2 : ℝ) • y, (1 / 2 : ℝ) • y⟫)) (fun x y => (1 / 2 : ℝ) • y = (2 : ℝ) • x) :=
  C08.conj_left_scalar (E := ℝ) (by norm_num : (0 : ℝ) < 2) C08.l2sq_conj

/-- Non-vacuity of the Moreau identity: `f = ‖·‖²` on `ℝ` (`T x y ↔ y = 2x`), `σ = 1`, `x = 3`,
`prox_{σ f}(x) = x/(1+2σ) = 1`. -/
example : IsRes (fun x y : ℝ => y = (2 : ℝ) • x) 1 3 1 := by
  unfold IsRes; simp; norm_num


/-! ### Concrete pairs on weighted lists; the model of the coded rules -/
section lists
variable {K : Type} [Field K] [LinearOrder K] [IsStrictOrderedRing K]

theorem C08.absK_eq (a : K) : absK a = |a| := by
  unfold absK; split_ifs with h
  · rw [abs_of_neg h]
  · rw [abs_of_nonneg (le_of_not_gt h)]

/-- `L1Norm.convex_conj = IndicatorLpUnitBall(inf)` on every weighted list space (all lengths,
non-negative weights — `rn`, weighted `rn`, `uniform_discr` cell volume): Fenchel–Young. -/
theorem C08.l1_linf_conj (w x y : List K) (hw : ∀ a ∈ w, 0 ≤ a) (hy : inLinfBall y = true) :
    (listOps w).inner x y ≤ (listOps w).cval .l1 x + (listOps w).cval .indLinf y := by
  simp only [listOps, add_zero]
  induction w generalizing x y with
  | nil => simp [innerW, l1W]
  | cons a ws ih =>
      cases x with
      | nil => simp [innerW, l1W]
      | cons x0 xs =>
        cases y with
        | nil =>
            simp only [innerW, l1W]
            have ha : 0 ≤ a := hw a (by simp)
            have : ∀ (ws xs : List K), (∀ b ∈ ws, 0 ≤ b) → 0 ≤ l1W ws xs := by
              intro ws
              induction ws with
              | nil => intro xs _; simp [l1W]
              | cons b bs ihb =>
                  intro xs hb
                  cases xs with
                  | nil => simp [l1W]
                  | cons z zs =>
                      simp only [l1W]
                      have := ihb zs (fun c hc => hb c (by simp [hc]))
                      have h1 : 0 ≤ b * absK z := by
                        rw [C08.absK_eq]; exact mul_nonneg (hb b (by simp)) (abs_nonneg _)
                      linarith
            have h2 := this ws xs (fun b hb => hw b (by simp [hb]))
            have h1 : 0 ≤ a * absK x0 := by rw [C08.absK_eq]; exact mul_nonneg ha (abs_nonneg _)
            linarith
        | cons y0 ys =>
            simp only [inLinfBall, Bool.and_eq_true, decide_eq_true_eq] at hy
            have ha : 0 ≤ a := hw a (by simp)
            have hrest := ih xs ys (fun b hb => hw b (by simp [hb])) hy.2
            simp only [innerW, l1W]
            have h1 : x0 * y0 ≤ absK x0 := by
              rw [C08.absK_eq] at hy ⊢
              calc x0 * y0 ≤ |x0 * y0| := le_abs_self _
                _ = |x0| * |y0| := abs_mul _ _
                _ ≤ |x0| * 1 := mul_le_mul_of_nonneg_left hy.1 (abs_nonneg _)
                _ = |x0| := mul_one _
            have : a * x0 * y0 ≤ a * absK x0 := by
              rw [mul_assoc]; exact mul_le_mul_of_nonneg_left h1 ha
            linarith

/-- … with equality at the coded gradient `y = sign(x)`, which lies in the unit ball. -/
theorem C08.l1_linf_conj_eq (w x : List K) :
    inLinfBall ((listOps w).cgrad .l1 x) = true ∧
    (listOps w).cval .l1 x + (listOps w).cval .indLinf ((listOps w).cgrad .l1 x)
      = (listOps w).inner x ((listOps w).cgrad .l1 x) := by
  simp only [listOps, add_zero]
  have hs : ∀ t : K, absK (signK t) ≤ 1 ∧ t * signK t = absK t := by
    intro t
    unfold signK absK
    split_ifs <;> constructor <;> first | linarith | (simp; done) | (norm_num; done) | skip
    all_goals (first | linarith | nlinarith)
  constructor
  · induction x with
    | nil => simp [inLinfBall]
    | cons x0 xs ih => simp [inLinfBall, ih, (hs x0).1]
  · induction w generalizing x with
    | nil => simp [innerW, l1W]
    | cons a ws ih =>
        cases x with
        | nil => simp [innerW, l1W]
        | cons x0 xs =>
            simp only [List.map_cons, innerW, l1W, ih xs]
            rw [mul_assoc, (hs x0).2]
end lists

namespace OdlModel.C08
/-- The conjugate `QuadraticForm.convex_conj` built BEFORE fix 8145920 (no factor 1/4), as a
variant of the model's construction (case without vector): operator `A.inverse`, constant `-c`. -/
def quadConjOld {V K : Type} [Neg K] (o : VecOps V K) (A At Ainv AinvT : V → V) (c : K) : Fn V K :=
  .quad Ainv AinvT A At false o.zero (-c)
end OdlModel.C08

/-- Sensitivity, on the executed model: with the OLD construction `quadConjOld` the
Fenchel–Young equality at `y = ∇f(x)` fails (`rn(1)`, `f(x) = ⟨x, x⟩`, `x = 1`: `1 + 4 ≠ 2`),
while the current `Fn.conj` gives equality there (`1 + 1 = 2`). -/
theorem C08.quadform_conj_old_fails :
    (Fn.quad id id id id false [0] 0 : Fn (List ℚ) ℚ).value (listOps [1]) [1]
      + (quadConjOld (listOps ([1] : List ℚ)) id id id id 0).value (listOps [1])
          ((Fn.quad id id id id false [0] 0 : Fn (List ℚ) ℚ).grad (listOps [1]) [1])
      ≠ (listOps ([1] : List ℚ)).inner [1]
          ((Fn.quad id id id id false [0] 0 : Fn (List ℚ) ℚ).grad (listOps [1]) [1]) ∧
    ∃ g, (Fn.quad id id id id false [0] 0 : Fn (List ℚ) ℚ).conj (listOps [1]) = some g ∧
      (Fn.quad id id id id false [0] 0 : Fn (List ℚ) ℚ).value (listOps [1]) [1]
        + g.value (listOps [1]) ((Fn.quad id id id id false [0] 0 : Fn (List ℚ) ℚ).grad (listOps [1]) [1])
      = (listOps ([1] : List ℚ)).inner [1]
          ((Fn.quad id id id id false [0] 0 : Fn (List ℚ) ℚ).grad (listOps [1]) [1]) := by
  refine ⟨?_, _, rfl, ?_⟩
  · simp [quadConjOld, Fn.value, Fn.grad, listOps, innerW]
    norm_num
  · simp [Fn.value, Fn.grad, listOps, innerW, two]

/-! ### The coded rules on expression trees -/
namespace OdlModel.C08
/-- Side conditions under which the coded conjugate of an expression is meaningful: positive
left scalars, nonzero right scalars, `a = 0` in quadratic perturbations, a symmetric positive
`QuadraticForm` operator with `operator.inverse` its inverse, pointwise multiplication by `v`
symmetric with inverse multiplication by `1/v`.  Classes without an explicit evaluable
conjugate (`FunctionalSum`, products, quotients, compositions, `MoreauEnvelope`, the default
wrapper) and `InfimalConvolution` (no `_call`) are excluded. -/
def Reg (o : VecOps E ℝ) : Fn E ℝ → Prop
  | .coord (.huber γ) => 0 < γ
  | .coord _ => True
  | .l2sq => True
  | .const _ => True
  | .indZero _ => True
  | .lin _ _ => True
  | .quad A At Ainv AinvT _ _ _ =>
      ∃ A' Ai' : E →ₗ[ℝ] E, (∀ v, A v = A' v) ∧ (∀ v, At v = A' v) ∧ (∀ v, Ainv v = Ai' v) ∧
        (∀ v, AinvT v = Ai' v) ∧ (∀ u v, ⟪A' u, v⟫ = ⟪u, A' v⟫) ∧ (∀ u, 0 ≤ ⟪u, A' u⟫) ∧
        (∀ u, A' (Ai' u) = u)
  | .lscal _ f => Reg o f
  | .rscal f s => s ≠ 0 ∧ Reg o f
  | .rvec f v vinv =>
      (∀ a b, ⟪o.mul v a, b⟫ = ⟪a, o.mul v b⟫) ∧ (∀ a, o.mul v (o.mul vinv a) = a) ∧
        (∀ a, o.mul vinv (o.mul v a) = a) ∧ Reg o f
  | .ssum f _ => Reg o f
  | .trans f _ => Reg o f
  | .qp f a _ _ _ => a = 0 ∧ Reg o f
  | .breg f _ _ => Reg o f
  | _ => False

/-- Fenchel–Young inequality between two model expressions (finite parts on the domains). -/
def FYm (o : VecOps E ℝ) (t t' : Fn E ℝ) : Prop :=
  ∀ x y, t.dom o x = true → t'.dom o y = true → o.inner x y ≤ t.value o x + t'.value o y
end OdlModel.C08

namespace OdlModel.C08
/-- No `FunctionalComp` node anywhere in the expression. -/
def noComp : Fn E ℝ → Bool
  | .comp .. => false
  | .lscal _ f | .rscal f _ | .rvec f _ _ | .ssum f _ | .trans f _ | .qp f _ _ _ _
  | .breg f _ _ | .menv f _ _ | .dconj f => noComp f
  | .sum f g | .prod f g | .quot f g | .infconv f g => noComp f && noComp g
  | _ => true
end OdlModel.C08

/-- `FunctionalTranslation`'s merging of nested translations does not change values. -/
theorem C08.translated_value (μ : E → E → E) (cv : Builtin ℝ → E → ℝ) (cd : Builtin ℝ → E → Bool)
    (cg : Builtin ℝ → E → E) (g : Fn E ℝ) (u y : E) :
    (Fn.translated (eOps μ cv cd cg) g u).value (eOps μ cv cd cg) y
      = (Fn.trans g u).value (eOps μ cv cd cg) y := by
  cases g <;> try rfl
  case trans g0 t0 =>
    show g0.value (eOps μ cv cd cg) (y - (t0 + u)) = g0.value (eOps μ cv cd cg) (y - u - t0)
    congr 1; abel

/-- … nor domains. -/
theorem C08.translated_dom (μ : E → E → E) (cv : Builtin ℝ → E → ℝ) (cd : Builtin ℝ → E → Bool)
    (cg : Builtin ℝ → E → E) (g : Fn E ℝ) (u y : E) :
    (Fn.translated (eOps μ cv cd cg) g u).dom (eOps μ cv cd cg) y
      = (Fn.trans g u).dom (eOps μ cv cd cg) y := by
  cases g <;> try rfl
  case trans g0 t0 =>
    show g0.dom (eOps μ cv cd cg) (y - (t0 + u)) = g0.dom (eOps μ cv cd cg) (y - u - t0)
    congr 1; abel

theorem C08.translated_flags (o : VecOps E ℝ) (g : Fn E ℝ) (u : E) :
    (Fn.translated o g u).isLinear = false ∧ noComp (Fn.translated o g u) = noComp g := by
  cases g <;> simp [Fn.translated, Fn.isLinear, noComp]

/-- A functional that the constructors flag `is_linear` (the flag that makes
`Functional.__mul__` build `s * f` instead of `f(s ·)`) is homogeneous and finite everywhere.
True for the flag as computed since the fix of finding C09-F2 (it was false for
`FunctionalQuadraticPerturb` with a nonzero constant before). -/
theorem C08.linear_flag_homogeneous (μ : E → E → E) (cv : Builtin ℝ → E → ℝ)
    (cd : Builtin ℝ → E → Bool) (cg : Builtin ℝ → E → E)
    (hμ : ∀ (v : E) (c : ℝ) (y : E), μ v (c • y) = c • μ v y) (t : Fn E ℝ)
    (hnc : noComp t = true) (h : t.isLinear = true) :
    (∀ (c : ℝ) (y : E), t.value (eOps μ cv cd cg) (c • y) = c * t.value (eOps μ cv cd cg) y) ∧
      ∀ y, t.dom (eOps μ cv cd cg) y = true := by
  have hsm : ∀ (a : ℝ) (z : E), (eOps μ cv cd cg).smul a z = a • z := fun _ _ => rfl
  have hin : ∀ a b : E, (eOps μ cv cd cg).inner a b = ⟪a, b⟫ := fun _ _ => rfl
  induction t with
  | const c =>
      simp [Fn.isLinear] at h; subst h
      exact ⟨fun c y => by simp [Fn.value], fun y => rfl⟩
  | lin b c =>
      simp [Fn.isLinear] at h; subst h
      exact ⟨fun c y => by simp only [Fn.value, hin, real_inner_smul_right]; ring, fun y => rfl⟩
  | lscal s f ih =>
      obtain ⟨h1, h2⟩ := ih (by simpa [noComp] using hnc) (by simpa [Fn.isLinear] using h)
      exact ⟨fun c y => by simp only [Fn.value, h1]; ring, fun y => by simpa [Fn.dom] using h2 y⟩
  | rscal f s ih =>
      obtain ⟨h1, h2⟩ := ih (by simpa [noComp] using hnc) (by simpa [Fn.isLinear] using h)
      refine ⟨fun c y => ?_, fun y => by simpa [Fn.dom] using h2 _⟩
      simp only [Fn.value, hsm]
      rw [smul_comm, h1]
  | sum f g ihf ihg =>
      simp [Fn.isLinear] at h
      simp [noComp] at hnc
      obtain ⟨f1, f2⟩ := ihf hnc.1 h.1
      obtain ⟨g1, g2⟩ := ihg hnc.2 h.2
      exact ⟨fun c y => by simp only [Fn.value, f1, g1]; ring,
        fun y => by simp [Fn.dom, f2 y, g2 y]⟩
  | ssum f c ih =>
      simp [Fn.isLinear] at h
      obtain ⟨h1, h2⟩ := ih (by simpa [noComp] using hnc) h.1
      obtain rfl := h.2
      exact ⟨fun c y => by simp only [Fn.value, h1]; ring, fun y => by simpa [Fn.dom] using h2 y⟩
  | qp f a hasU u c ih =>
      simp [Fn.isLinear] at h
      obtain ⟨⟨hf, rfl⟩, rfl⟩ := h
      obtain ⟨h1, h2⟩ := ih (by simpa [noComp] using hnc) hf
      refine ⟨fun c y => ?_, fun y => by simpa [Fn.dom] using h2 y⟩
      simp only [Fn.value, hin, h1, real_inner_smul_left]; ring
  | coord b => simp [Fn.isLinear] at h
  | l2sq => simp [Fn.isLinear] at h
  | indZero c => simp [Fn.isLinear] at h
  | quad A At Ainv AinvT hasB b c => simp [Fn.isLinear] at h
  | rvec f v vinv ih =>
      obtain ⟨h1, h2⟩ := ih (by simpa [noComp] using hnc) (by simpa [Fn.isLinear] using h)
      refine ⟨fun c y => ?_, fun y => by simpa [Fn.dom] using h2 _⟩
      have hm : ∀ z : E, (eOps μ cv cd cg).mul v z = μ v z := fun _ => rfl
      simp only [Fn.value, hm]
      rw [hμ, h1]
  | trans f t _ => simp [Fn.isLinear] at h
  | prod f g _ _ => simp [Fn.isLinear] at h
  | quot f g _ _ => simp [Fn.isLinear] at h
  | comp f op dAdj opLin _ => simp [noComp] at hnc
  | breg f p q _ => simp [Fn.isLinear] at h
  | infconv f g _ _ => simp [Fn.isLinear] at h
  | menv f P σ _ => simp [Fn.isLinear] at h
  | dconj f _ => exact ⟨fun c y => by simp [Fn.value], fun y => rfl⟩

namespace OdlModel.C08
/-- `f * a` without the constructors' merging of nested scalar multiplications (semantically
equal to the coded `Fn.mulScalar`, see `C08.mulScalar_sem`). -/
noncomputable def plainMul (f : Fn E ℝ) (a : ℝ) : Fn E ℝ :=
  if f.isLinear then .lscal a f else .rscal f a
end OdlModel.C08

/-- Merging nested left scalar multiplications changes neither values, domains nor flags. -/
theorem C08.mkLscal_sem (o : VecOps E ℝ) (a : ℝ) (f : Fn E ℝ) :
    (∀ y, (Fn.mkLscal a f).value o y = (Fn.lscal a f).value o y) ∧
    (∀ y, (Fn.mkLscal a f).dom o y = (Fn.lscal a f).dom o y) ∧
    (Fn.mkLscal a f).isLinear = f.isLinear ∧ noComp (Fn.mkLscal a f) = noComp f := by
  cases f <;> simp [Fn.mkLscal, Fn.value, Fn.dom, Fn.isLinear, noComp, mul_assoc]

/-- … likewise for nested right scalar multiplications. -/
theorem C08.mkRscal_sem (μ : E → E → E) (cv : Builtin ℝ → E → ℝ) (cd : Builtin ℝ → E → Bool)
    (cg : Builtin ℝ → E → E) (a : ℝ) (f : Fn E ℝ) :
    (∀ y, (Fn.mkRscal f a).value (eOps μ cv cd cg) y = (Fn.rscal f a).value (eOps μ cv cd cg) y) ∧
    (∀ y, (Fn.mkRscal f a).dom (eOps μ cv cd cg) y = (Fn.rscal f a).dom (eOps μ cv cd cg) y) ∧
    (Fn.mkRscal f a).isLinear = f.isLinear ∧ noComp (Fn.mkRscal f a) = noComp f := by
  have hsm : ∀ (a : ℝ) (z : E), (eOps μ cv cd cg).smul a z = a • z := fun _ _ => rfl
  cases f <;> simp [Fn.mkRscal, Fn.value, Fn.dom, Fn.isLinear, noComp]
  case rscal g s0 =>
    constructor <;> intro y <;> simp only [hsm, smul_smul, mul_comm a s0]

/-- The coded `f * a` (with merging) and the plain one agree semantically. -/
theorem C08.mulScalar_sem (μ : E → E → E) (cv : Builtin ℝ → E → ℝ) (cd : Builtin ℝ → E → Bool)
    (cg : Builtin ℝ → E → E) (a : ℝ) (f : Fn E ℝ) :
    (∀ y, (Fn.mulScalar f a).value (eOps μ cv cd cg) y = (plainMul f a).value (eOps μ cv cd cg) y) ∧
    (∀ y, (Fn.mulScalar f a).dom (eOps μ cv cd cg) y = (plainMul f a).dom (eOps μ cv cd cg) y) ∧
    noComp (Fn.mulScalar f a) = noComp f := by
  unfold Fn.mulScalar plainMul
  by_cases hl : f.isLinear = true
  · simp only [hl, if_true]
    obtain ⟨l1, l2, _, l4⟩ := C08.mkLscal_sem (eOps μ cv cd cg) a f
    exact ⟨l1, l2, l4⟩
  · simp only [hl]
    exact ⟨(C08.mkRscal_sem μ cv cd cg a f).1, (C08.mkRscal_sem μ cv cd cg a f).2.1,
      (C08.mkRscal_sem μ cv cd cg a f).2.2.2⟩

/-- Merging does not create or remove `FunctionalComp` nodes. -/
theorem C08.mk_noComp (a : ℝ) (f : Fn E ℝ) :
    noComp (Fn.mkLscal a f) = noComp f ∧ noComp (Fn.mkRscal f a) = noComp f ∧
      noComp (Fn.mulScalar f a) = noComp f := by
  have h1 : noComp (Fn.mkLscal a f) = noComp f := by cases f <;> simp [Fn.mkLscal, noComp]
  have h2 : noComp (Fn.mkRscal f a) = noComp f := by cases f <;> simp [Fn.mkRscal, noComp]
  refine ⟨h1, h2, ?_⟩
  unfold Fn.mulScalar
  cases f.isLinear <;> simp [h1, h2]

/-- Semantics of the coded `FunctionalLeftScalarMult.convex_conj = s * f* * (1/s)`. -/
theorem C08.conj_lscal_sem (μ : E → E → E) (cv : Builtin ℝ → E → ℝ) (cd : Builtin ℝ → E → Bool)
    (cg : Builtin ℝ → E → E) (s : ℝ) (f g t' : Fn E ℝ) (hs : ¬ s ≤ 0)
    (hfc : f.conj (eOps μ cv cd cg) = some g)
    (h : (Fn.lscal s f).conj (eOps μ cv cd cg) = some t') :
    (∀ y, t'.value (eOps μ cv cd cg) y = (plainMul (.lscal s g) (1 / s)).value (eOps μ cv cd cg) y) ∧
    (∀ y, t'.dom (eOps μ cv cd cg) y = (plainMul (.lscal s g) (1 / s)).dom (eOps μ cv cd cg) y) ∧
    noComp t' = noComp g := by
  simp only [Fn.conj, hs, if_false, hfc, Option.some.injEq] at h
  subst h
  obtain ⟨h1, h2, h3⟩ := C08.mulScalar_sem μ cv cd cg (1 / s) (Fn.mkLscal s g)
  obtain ⟨l1, l2, l3, l4⟩ := C08.mkLscal_sem (eOps μ cv cd cg) s g
  refine ⟨fun y => ?_, fun y => ?_, by rw [h3, l4]⟩
  · rw [h1]; unfold plainMul; rw [l3]
    cases hl : g.isLinear
    · simp only [Fn.isLinear, hl, Bool.false_eq_true, if_false, Fn.value, l1]
    · simp only [Fn.isLinear, hl, if_true, Fn.value, l1]
  · rw [h2]; unfold plainMul; rw [l3]
    cases hl : g.isLinear
    · simp only [Fn.isLinear, hl, Bool.false_eq_true, if_false, Fn.dom, l2]
    · simp only [Fn.isLinear, hl, if_true, Fn.dom, l2]

/-- Semantics of the coded `FunctionalRightScalarMult.convex_conj = f* * (1/s)`. -/
theorem C08.conj_rscal_sem (μ : E → E → E) (cv : Builtin ℝ → E → ℝ) (cd : Builtin ℝ → E → Bool)
    (cg : Builtin ℝ → E → E) (s : ℝ) (f g t' : Fn E ℝ)
    (hfc : f.conj (eOps μ cv cd cg) = some g)
    (h : (Fn.rscal f s).conj (eOps μ cv cd cg) = some t') :
    (∀ y, t'.value (eOps μ cv cd cg) y = (plainMul g (1 / s)).value (eOps μ cv cd cg) y) ∧
    (∀ y, t'.dom (eOps μ cv cd cg) y = (plainMul g (1 / s)).dom (eOps μ cv cd cg) y) ∧
    noComp t' = noComp g := by
  simp only [Fn.conj, hfc, Option.some.injEq] at h
  subst h
  exact C08.mulScalar_sem μ cv cd cg (1 / s) g

/-- Fenchel–Young only depends on the values and domains of the partner. -/
theorem C08.FYm_congr (o : VecOps E ℝ) (t a b : Fn E ℝ) (hv : ∀ y, a.value o y = b.value o y)
    (hd : ∀ y, a.dom o y = b.dom o y) (hb : FYm o t b) : FYm o t a := by
  intro x y hx hy
  rw [hv]; exact hb x y hx (by rw [← hd]; exact hy)

/-- Transfer lemmas: the merged translation may be replaced by the plain one. -/
theorem C08.FYm_translated (μ : E → E → E) (cv : Builtin ℝ → E → ℝ) (cd : Builtin ℝ → E → Bool)
    (cg : Builtin ℝ → E → E) (t g : Fn E ℝ) (u : E) :
    (FYm (eOps μ cv cd cg) t (.trans g u) → FYm (eOps μ cv cd cg) t (Fn.translated (eOps μ cv cd cg) g u)) ∧
    (∀ c, FYm (eOps μ cv cd cg) t (.ssum (.trans g u) c) →
      FYm (eOps μ cv cd cg) t (.ssum (Fn.translated (eOps μ cv cd cg) g u) c)) := by
  constructor
  · intro hyp x y hx hy
    rw [C08.translated_dom] at hy
    rw [C08.translated_value]
    exact hyp x y hx hy
  · intro c hyp x y hx hy
    have hy' : (Fn.ssum (.trans g u) c).dom (eOps μ cv cd cg) y = true := by
      have e := C08.translated_dom μ cv cd cg g u y
      simp only [Fn.dom] at hy e ⊢
      rw [← e]; exact hy
    have := hyp x y hx hy'
    simp only [Fn.value] at this ⊢
    rw [C08.translated_value]
    simpa [Fn.value] using this

/-- The coded conjugate of an expression in the fragment `Reg` contains no `FunctionalComp`. -/
theorem C08.conj_noComp (o : VecOps E ℝ) (t t' : Fn E ℝ) (hreg : Reg o t)
    (h : t.conj o = some t') : noComp t' = true := by
  induction t generalizing t' with
  | coord b => cases b <;> (simp [Fn.conj] at h; subst h; simp [noComp])
  | l2sq => simp [Fn.conj] at h; subst h; simp [noComp]
  | const c => simp [Fn.conj] at h; subst h; simp [noComp]
  | indZero c => simp [Fn.conj] at h; subst h; simp [noComp]
  | lin b c => simp [Fn.conj, Fn.translated] at h; subst h; simp [noComp]
  | quad A At Ainv AinvT hasB b c =>
      by_cases hb : hasB = true <;> (simp [Fn.conj, hb] at h; subst h; simp [noComp])
  | lscal s f ih =>
      by_cases hs : s ≤ 0
      · simp [Fn.conj, hs] at h
      · cases hfc : f.conj o with
        | none => simp [Fn.conj, hs, hfc] at h
        | some g =>
            have := ih g hreg hfc
            simp only [Fn.conj, hs, if_false, hfc, Option.some.injEq] at h
            subst h
            rw [(C08.mk_noComp _ _).2.2, (C08.mk_noComp _ _).1]; exact this
  | rscal f s ih =>
      cases hfc : f.conj o with
      | none => simp [Fn.conj, hfc] at h
      | some g =>
          have := ih g hreg.2 hfc
          simp only [Fn.conj, hfc, Option.some.injEq] at h
          subst h
          rw [(C08.mk_noComp _ _).2.2]; exact this
  | rvec f v vinv ih =>
      cases hfc : f.conj o with
      | none => simp [Fn.conj, hfc] at h
      | some g =>
          have := ih g hreg.2.2.2 hfc
          simp [Fn.conj, hfc] at h; subst h; simpa [noComp] using this
  | ssum f c ih =>
      cases hfc : f.conj o with
      | none => simp [Fn.conj, hfc] at h
      | some g =>
          have := ih g hreg hfc
          simp [Fn.conj, hfc] at h; subst h; simpa [noComp] using this
  | trans f t ih =>
      cases hfc : f.conj o with
      | none => simp [Fn.conj, hfc] at h
      | some g =>
          have := ih g hreg hfc
          simp [Fn.conj, hfc] at h; subst h; simpa [noComp] using this
  | qp f a hasU u c ih =>
      obtain ⟨ha, hr⟩ := hreg
      subst ha
      cases hfc : f.conj o with
      | none => simp [Fn.conj, hfc] at h
      | some g =>
          have := ih g hr hfc
          by_cases hc : c = 0 <;>
            (simp [Fn.conj, hfc, hc] at h; subst h
             simpa [noComp, (C08.translated_flags o g u).2] using this)
  | breg f p q ih =>
      cases hfc : f.conj o with
      | none => simp [Fn.conj, hfc] at h
      | some g =>
          have := ih g hreg hfc
          by_cases hc : -(f.value o p) + o.inner q p = 0
          · simp only [Fn.conj, hfc, hc, if_true] at h
            simp at h; subst h
            simpa [noComp, (C08.translated_flags o g _).2] using this
          · simp only [Fn.conj, hfc, hc, if_false] at h
            simp at h; subst h
            simpa [noComp, (C08.translated_flags o g _).2] using this
  | sum f g _ _ => exact hreg.elim
  | prod f g _ _ => exact hreg.elim
  | quot f g _ _ => exact hreg.elim
  | comp f op dAdj opLin _ => exact hreg.elim
  | infconv f g _ _ => exact hreg.elim
  | menv f P σ _ => exact hreg.elim
  | dconj f _ => exact hreg.elim

/-- **The conjugation rules as coded are sound for expression trees** (all depths, every real
inner-product space, i.e. every weighting / discretisation / product structure): if
`t.convex_conj` — computed by the coded rules `Fn.conj`, including the `is_linear` dispatch of
`Functional.__mul__` inside `s * f* * (1/s)` and `f* * (1/s)`, the `0.25 * A.inverse`
construction of `QuadraticForm`, `f*.translated(u) - c`, `FunctionalQuadraticPerturb(f*, t)` —
is `t'`, the side conditions `Reg` hold and the coordinate-wise leaf pairs (L1 ↔ indicator of
the L∞ ball, Huber ↔ indicator + γ/2‖·‖²) satisfy Fenchel–Young, then
`⟨x, y⟩ ≤ t(x) + t'(y)` wherever both values are finite.
Covers every class of the model with an explicit evaluable conjugate: L1, IndicatorLpUnitBall(∞),
Huber, L2NormSquared, Constant, IndicatorZero, QuadraticForm (linear and with operator),
LeftScalarMult, RightScalarMult, RightVectorMult, ScalarSum, Translation, QuadraticPerturb
(`a = 0`), BregmanDistance.  Not in this induction: InfimalConvolution (no `_call`; rule
`conj_infconv_ineq`), SeparableSum (not in the executable model; rule `conj_separable`).  The
equality case at `y = ∇f(x)` on trees is `C08.conj_sound_eq`. -/
theorem C08.conj_sound (μ : E → E → E) (cv : Builtin ℝ → E → ℝ)
    (cd : Builtin ℝ → E → Bool) (cg : Builtin ℝ → E → E)
    (hμ : ∀ (v : E) (c : ℝ) (y : E), μ v (c • y) = c • μ v y)
    (hl1 : FYm (eOps μ cv cd cg) (.coord .l1) (.coord .indLinf))
    (hlinf : FYm (eOps μ cv cd cg) (.coord .indLinf) (.coord .l1))
    (hhub : ∀ γ, 0 < γ → FYm (eOps μ cv cd cg) (.coord (.huber γ))
      (.qp (.coord .indLinf) (γ / two) false (eOps μ cv cd cg).zero 0))
    (t t' : Fn E ℝ) (hreg : Reg (eOps μ cv cd cg) t) (h : t.conj (eOps μ cv cd cg) = some t') :
    FYm (eOps μ cv cd cg) t t' := by
  have hsm : ∀ (a : ℝ) (z : E), (eOps μ cv cd cg).smul a z = a • z := fun _ _ => rfl
  have hin : ∀ a b : E, (eOps μ cv cd cg).inner a b = ⟪a, b⟫ := fun _ _ => rfl
  have hsub : ∀ a b : E, (eOps μ cv cd cg).sub a b = a - b := fun _ _ => rfl
  have hadd : ∀ a b : E, (eOps μ cv cd cg).add a b = a + b := fun _ _ => rfl
  -- a pair of model expressions as an abstract conjugate pair (inequality part only)
  have mk : ∀ f g : Fn E ℝ, FYm (eOps μ cv cd cg) f g →
      ConjPair (fun x => f.dom (eOps μ cv cd cg) x = true) (fun x => f.value (eOps μ cv cd cg) x)
        (fun y => g.dom (eOps μ cv cd cg) y = true) (fun y => g.value (eOps μ cv cd cg) y)
        (fun _ _ => False) := fun f g hfg => ⟨hfg, fun _ _ h => h.elim⟩
  induction t generalizing t' with
  | coord b =>
      cases b with
      | l1 => simp [Fn.conj] at h; subst h; exact hl1
      | indLinf => simp [Fn.conj] at h; subst h; exact hlinf
      | huber γ => simp [Fn.conj] at h; subst h; exact hhub γ hreg
  | l2sq =>
      simp [Fn.conj] at h; subst h
      intro x y _ _
      have := (C08.l2sq_conj (E := E)).1 x y trivial trivial
      simp only [Fn.value, eOps, two]
      norm_num at this ⊢
      linarith
  | const c =>
      simp [Fn.conj] at h; subst h
      intro x y _ hy
      simp only [Fn.dom, eOps, decide_eq_true_eq] at hy
      subst hy
      simp [Fn.value, eOps]
  | indZero c =>
      simp [Fn.conj] at h; subst h
      intro x y hx _
      simp only [Fn.dom, eOps, decide_eq_true_eq] at hx
      subst hx
      simp [Fn.value, eOps]
  | lin b c =>
      simp [Fn.conj, Fn.translated] at h; subst h
      intro x y _ hy
      simp only [Fn.dom, eOps, decide_eq_true_eq] at hy
      have : y = b := sub_eq_zero.mp hy
      subst this
      simp [Fn.value, eOps, real_inner_comm]
  | quad A At Ainv AinvT hasB b c =>
      obtain ⟨A', Ai', hA, hAt, hAi, hAit, hsym, hpos, hinv⟩ := hreg
      have hisym : ∀ u v, ⟪Ai' u, v⟫ = ⟪u, Ai' v⟫ := by
        intro u v
        calc ⟪Ai' u, v⟫ = ⟪Ai' u, A' (Ai' v)⟫ := by rw [hinv]
          _ = ⟪A' (Ai' u), Ai' v⟫ := (hsym _ _).symm
          _ = ⟪u, Ai' v⟫ := by rw [hinv]
      intro x y _ _
      by_cases hb : hasB = true
      · simp [Fn.conj, hb] at h; subst h
        have key := (C08.quadform_conj A' Ai' b c hsym hpos hinv).1 x y trivial trivial
        simp only [Fn.value, hb, if_true, hsm, hin, hsub, hadd, hA, hAi, hAit, two]
        have e1 : ⟪b, Ai' y⟫ = ⟪y, Ai' b⟫ := by rw [← hisym, real_inner_comm]
        simp only [inner_sub_left, inner_sub_right, map_sub, inner_add_right,
          real_inner_smul_right, inner_neg_right, neg_smul, one_smul, e1,
          real_inner_comm x b] at key ⊢
        norm_num at key ⊢
        linarith
      · simp [Fn.conj, hb] at h; subst h
        have key := (C08.quadform_conj A' Ai' 0 c hsym hpos hinv).1 x y trivial trivial
        simp only [Fn.value, hb, hsm, hin, hA, hAi, two] at key ⊢
        simp only [sub_zero, inner_zero_left, real_inner_smul_right] at key ⊢
        norm_num at key ⊢
        linarith
  | lscal s f ih =>
      by_cases hs : s ≤ 0
      · simp [Fn.conj, hs] at h
      · cases hfc : f.conj (eOps μ cv cd cg) with
        | none => simp [Fn.conj, hs, hfc] at h
        | some g =>
            have hs' : 0 < s := not_le.mp hs
            have hne : s ≠ 0 := ne_of_gt hs'
            have hfy := ih g hreg hfc
            obtain ⟨sv, sd, _⟩ := C08.conj_lscal_sem μ cv cd cg s f g t' hs hfc h
            refine C08.FYm_congr _ _ _ _ sv sd ?_
            unfold plainMul
            by_cases hlin : g.isLinear = true
            · -- `Functional.__mul__` builds `(1/s) * (s * g)` for a functional flagged linear
              simp only [Fn.isLinear, hlin, if_true]
              obtain ⟨hhom, hdom⟩ := C08.linear_flag_homogeneous μ cv cd cg hμ g
                (C08.conj_noComp _ _ g (by assumption) hfc) hlin
              intro x y hx _
              have h2 := hfy x ((1 / s) • y) (by simpa [Fn.dom] using hx) (hdom _)
              rw [hhom, hin, real_inner_smul_right] at h2
              simp only [Fn.value, hin]
              have h3 := mul_le_mul_of_nonneg_left h2 hs'.le
              have e1 : s * (1 / s * ⟪x, y⟫) = ⟪x, y⟫ := by field_simp
              have e2 : 1 / s * (s * g.value (eOps μ cv cd cg) y) = g.value (eOps μ cv cd cg) y := by
                field_simp
              have e3 : s * (f.value (eOps μ cv cd cg) x + 1 / s * g.value (eOps μ cv cd cg) y)
                  = s * f.value (eOps μ cv cd cg) x + g.value (eOps μ cv cd cg) y := by
                field_simp
              rw [e1, e3] at h3
              rw [e2]
              exact h3
            · have hlin' : g.isLinear = false := by simpa using hlin
              simp only [Fn.isLinear, hlin', Bool.false_eq_true, if_false]
              have := (C08.conj_left_scalar hs' (mk f g hfy)).1
              intro x y hx hy
              have h2 := this x y hx (by simpa [Fn.dom, eOps] using hy)
              simpa [Fn.value, eOps] using h2
  | rscal f s ih =>
      obtain ⟨hs, hr⟩ := hreg
      cases hfc : f.conj (eOps μ cv cd cg) with
      | none => simp [Fn.conj, hfc] at h
      | some g =>
          have hfy := ih g hr hfc
          have := (C08.conj_right_scalar hs (mk f g hfy)).1
          obtain ⟨sv, sd, _⟩ := C08.conj_rscal_sem μ cv cd cg s f g t' hfc h
          refine C08.FYm_congr _ _ _ _ sv sd ?_
          unfold plainMul
          by_cases hlin : g.isLinear = true
          · simp only [hlin, if_true]
            obtain ⟨hhom, hdom⟩ := C08.linear_flag_homogeneous μ cv cd cg hμ g
                (C08.conj_noComp _ _ g (by assumption) hfc) hlin
            intro x y hx _
            have h2 := this x y (by simpa [Fn.dom, eOps] using hx) (hdom _)
            simp only [hhom] at h2
            simpa [Fn.value, eOps] using h2
          · have hlin' : g.isLinear = false := by simpa using hlin
            simp only [hlin', Bool.false_eq_true, if_false]
            intro x y hx hy
            have h2 := this x y (by simpa [Fn.dom, eOps] using hx) (by simpa [Fn.dom, eOps] using hy)
            simpa [Fn.value, eOps] using h2
  | rvec f v vinv ih =>
      obtain ⟨hsym, hinv, _, hr⟩ := hreg
      cases hfc : f.conj (eOps μ cv cd cg) with
      | none => simp [Fn.conj, hfc] at h
      | some g =>
          simp [Fn.conj, hfc] at h
          subst h
          have := (C08.conj_right_vector ((eOps μ cv cd cg).mul v) ((eOps μ cv cd cg).mul vinv)
            hsym hinv (mk f g (ih g hr hfc))).1
          intro x y hx hy
          have h2 := this x y (by simpa [Fn.dom] using hx) (by simpa [Fn.dom] using hy)
          simpa [Fn.value, hin] using h2
  | ssum f c ih =>
      cases hfc : f.conj (eOps μ cv cd cg) with
      | none => simp [Fn.conj, hfc] at h
      | some g =>
          simp [Fn.conj, hfc] at h
          subst h
          intro x y hx hy
          have := ih g hreg hfc x y hx hy
          simp only [Fn.value]
          linarith
  | trans f t ih =>
      cases hfc : f.conj (eOps μ cv cd cg) with
      | none => simp [Fn.conj, hfc] at h
      | some g =>
          simp [Fn.conj, hfc] at h
          subst h
          have := (C08.conj_translation t (mk f g (ih g hreg hfc))).1
          intro x y hx hy
          have h2 := this x y (by simpa [Fn.dom, eOps] using hx) (by simpa [Fn.dom, eOps] using hy)
          simpa [Fn.value, eOps] using h2
  | qp f a hasU u c ih =>
      obtain ⟨ha, hr⟩ := hreg
      subst ha
      cases hfc : f.conj (eOps μ cv cd cg) with
      | none => simp [Fn.conj, hfc] at h
      | some g =>
          have := (C08.conj_linear_perturb u c (mk f g (ih g hr hfc))).1
          by_cases hc : c = 0
          · simp [Fn.conj, hfc, hc] at h
            subst h
            apply (C08.FYm_translated μ cv cd cg _ g u).1
            intro x y hx hy
            have h2 := this x y (by simpa [Fn.dom, eOps] using hx) (by simpa [Fn.dom, eOps] using hy)
            simp [Fn.value, eOps, hc] at h2 ⊢
            linarith
          · simp [Fn.conj, hfc, hc] at h
            subst h
            apply (C08.FYm_translated μ cv cd cg _ g u).2
            intro x y hx hy
            have h2 := this x y (by simpa [Fn.dom, eOps] using hx) (by simpa [Fn.dom, eOps] using hy)
            simp [Fn.value, eOps] at h2 ⊢
            linarith
  | breg f p q ih =>
      cases hfc : f.conj (eOps μ cv cd cg) with
      | none => simp [Fn.conj, hfc] at h
      | some g =>
          have := (C08.conj_linear_perturb ((eOps μ cv cd cg).smul (-1) q)
            (-(f.value (eOps μ cv cd cg) p) + (eOps μ cv cd cg).inner q p)
            (mk f g (ih g hreg hfc))).1
          by_cases hc : -(f.value (eOps μ cv cd cg) p) + (eOps μ cv cd cg).inner q p = 0
          · simp only [Fn.conj, hfc, hc, if_true] at h
            simp at h
            subst h
            apply (C08.FYm_translated μ cv cd cg _ g _).1
            intro x y hx hy
            have h2 := this x y (by simpa [Fn.dom] using hx) (by simpa [Fn.dom, hsub] using hy)
            simp only [Fn.value, hc] at h2 ⊢
            simp only [hsub, hin] at h2 ⊢
            linarith
          · simp only [Fn.conj, hfc, hc, if_false] at h
            simp at h
            subst h
            apply (C08.FYm_translated μ cv cd cg _ g _).2
            intro x y hx hy
            have h2 := this x y (by simpa [Fn.dom] using hx) (by simpa [Fn.dom, hsub] using hy)
            simp only [Fn.value] at h2 ⊢
            simp only [hsub, hin] at h2 ⊢
            linarith
  | sum f g _ _ => exact hreg.elim
  | prod f g _ _ => exact hreg.elim
  | quot f g _ _ => exact hreg.elim
  | comp f op dAdj opLin _ => exact hreg.elim
  | infconv f g _ _ => exact hreg.elim
  | menv f P σ _ => exact hreg.elim
  | dconj f _ => exact hreg.elim

/-- Non-vacuity of the `QuadraticForm` case: `f(x) = ⟨x, 2x⟩ + ⟨1, x⟩ + 3` on `E = ℝ`
(`A = 2·id`, `A⁻¹ = ½·id`) satisfies `Reg`. -/
example : Reg (eOps (· * ·) (fun _ _ => 0) (fun _ _ => false) (fun _ _ => 0))
    (Fn.quad (fun x : ℝ => 2 * x) (fun x => 2 * x) (fun x => 1 / 2 * x) (fun x => 1 / 2 * x)
      true 1 3 : Fn ℝ ℝ) := by
  refine ⟨(2 : ℝ) • LinearMap.id, (1 / 2 : ℝ) • LinearMap.id, ?_, ?_, ?_, ?_, ?_, ?_, ?_⟩
  · intro v; simp
  · intro v; simp
  · intro v; simp
  · intro v; simp
  · intro u v; simp; ring
  · intro u; simp; nlinarith [sq_nonneg u]
  · intro u; simp

/-! ### Huber pair on weighted lists -/
section lists2
variable {K : Type} [Field K] [LinearOrder K] [IsStrictOrderedRing K]

/-- One entry of the Huber pair: for `|y| ≤ 1`, `x·y ≤ h_γ(x) + (γ/2)·y²` (coded `Huber._call`
entry vs the coded conjugate `IndicatorLpUnitBall(∞) + γ/2‖·‖²`). -/
theorem C08.huber_scalar (γ x y : K) (hγ : 0 < γ) (hy : absK y ≤ 1) :
    x * y ≤ huberVal1 γ x + γ / two * (y * y) := by
  rw [C08.absK_eq] at hy
  have hxy : x * y ≤ |x| * |y| := by rw [← abs_mul]; exact le_abs_self _
  have hb0 : 0 ≤ |y| := abs_nonneg _
  have hyy : y * y = |y| * |y| := by rw [← abs_mul, abs_mul_self]
  unfold huberVal1
  simp only [hγ, if_true, C08.absK_eq, two]
  split_ifs with h
  · have h1 : 0 ≤ 1 - |y| := by linarith
    have h2 : 0 ≤ |x| - γ / (1 + 1) * (1 + |y|) := by
      have : γ / (1 + 1) * (1 + |y|) ≤ γ / (1 + 1) * (1 + 1) :=
        mul_le_mul_of_nonneg_left (by linarith) (by positivity)
      have e : γ / (1 + 1) * (1 + 1) = γ := by field_simp
      linarith
    have := mul_nonneg h1 h2
    rw [hyy]
    nlinarith
  · have hx2 : x * x = |x| * |x| := by rw [← abs_mul, abs_mul_self]
    have key : 0 ≤ (|x| - γ * |y|) * (|x| - γ * |y|) / ((1 + 1) * γ) :=
      div_nonneg (mul_self_nonneg _) (by positivity)
    have e : (|x| - γ * |y|) * (|x| - γ * |y|) / ((1 + 1) * γ)
        = |x| * |x| * (1 / ((1 + 1) * γ)) + γ / (1 + 1) * (|y| * |y|) - |x| * |y| := by
      field_simp; ring
    rw [hyy]
    linarith

theorem C08.innerW_zero_right (w y : List K) : innerW w y (w.map fun _ => (0 : K)) = 0 := by
  induction w generalizing y with
  | nil => simp [innerW]
  | cons a ws ih => cases y with
    | nil => simp [innerW]
    | cons y0 ys =>
        simp only [List.map_cons, innerW, mul_zero, zero_add]
        exact ih ys

/-- `Huber.convex_conj` as coded (`FunctionalQuadraticPerturb(IndicatorLpUnitBall(∞), γ/2)`) is a
Fenchel–Young partner of the coded `Huber._call` on every weighted list space (all lengths,
non-negative weights, any ordered field). -/
theorem C08.huber_conj (γ : K) (hγ : 0 < γ) (w x y : List K) (hw : ∀ a ∈ w, 0 ≤ a) :
    ∃ t', (Fn.coord (.huber γ) : Fn (List K) K).conj (listOps w) = some t' ∧
      (t'.dom (listOps w) y = true →
        (listOps w).inner x y ≤ (Fn.coord (.huber γ) : Fn (List K) K).value (listOps w) x
          + t'.value (listOps w) y) := by
  refine ⟨_, rfl, ?_⟩
  intro hy
  simp only [Fn.dom, Fn.value, listOps, C08.innerW_zero_right, zero_add, add_zero] at hy ⊢
  induction w generalizing x y with
  | nil => simp [innerW, huberW]
  | cons a ws ih =>
      cases x with
      | nil =>
          cases y with
          | nil => simp [innerW, huberW]
          | cons y0 ys =>
              simp only [innerW, huberW, zero_add]
              have : ∀ (ws ys : List K), (∀ b ∈ ws, 0 ≤ b) → 0 ≤ innerW ws ys ys := by
                intro ws
                induction ws with
                | nil => intro ys _; simp [innerW]
                | cons b bs ihb =>
                    intro ys hb
                    cases ys with
                    | nil => simp [innerW]
                    | cons z zs =>
                        simp only [innerW]
                        have := ihb zs (fun c hc => hb c (by simp [hc]))
                        have h1 : 0 ≤ b * z * z := by
                          rw [mul_assoc]; exact mul_nonneg (hb b (by simp)) (mul_self_nonneg z)
                        linarith
              have h2 := this (a :: ws) (y0 :: ys) hw
              simp only [innerW] at h2
              have : 0 ≤ γ / two := by unfold two; positivity
              exact mul_nonneg this h2
      | cons x0 xs =>
          cases y with
          | nil => 
              simp only [innerW, huberW, mul_zero, add_zero]
              have : ∀ (ws xs : List K), (∀ b ∈ ws, 0 ≤ b) → 0 ≤ huberW γ ws xs := by
                intro ws
                induction ws with
                | nil => intro xs _; simp [huberW]
                | cons b bs ihb =>
                    intro xs hb
                    cases xs with
                    | nil => simp [huberW]
                    | cons z zs =>
                        simp only [huberW]
                        have := ihb zs (fun c hc => hb c (by simp [hc]))
                        have h0 := C08.huber_scalar γ z 0 hγ (by simp [absK])
                        simp at h0
                        have h1 : 0 ≤ b * huberVal1 γ z := mul_nonneg (hb b (by simp)) h0
                        linarith
              have := this (a :: ws) (x0 :: xs) hw
              simpa [huberW] using this
          | cons y0 ys =>
              simp only [inLinfBall, Bool.and_eq_true, decide_eq_true_eq] at hy
              have ha : 0 ≤ a := hw a (by simp)
              have hrest := ih xs ys (fun b hb => hw b (by simp [hb])) hy.2
              have h0 := C08.huber_scalar γ x0 y0 hγ hy.1
              simp only [innerW, huberW]
              have h1 : a * x0 * y0 ≤ a * huberVal1 γ x0 + γ / two * (a * y0 * y0) := by
                have := mul_le_mul_of_nonneg_left h0 ha
                calc a * x0 * y0 = a * (x0 * y0) := by ring
                  _ ≤ a * (huberVal1 γ x0 + γ / two * (y0 * y0)) := this
                  _ = a * huberVal1 γ x0 + γ / two * (a * y0 * y0) := by ring
              rw [mul_add]
              linarith
end lists2

/-! ### Equality at the gradient, on expression trees -/
namespace OdlModel.C08
/-- Fenchel–Young EQUALITY at the coded gradient: `t'(∇t(x)) < ∞` and
`t(x) + t'(∇t(x)) = ⟨x, ∇t(x)⟩` wherever `t(x)` is finite. -/
def FYeqm (o : VecOps E ℝ) (t t' : Fn E ℝ) : Prop :=
  ∀ x, t.dom o x = true →
    t'.dom o (t.grad o x) = true ∧ t.value o x + t'.value o (t.grad o x) = o.inner x (t.grad o x)
end OdlModel.C08

/-- The equality statement only depends on the values and domains of the partner. -/
theorem C08.FYeqm_congr (o : VecOps E ℝ) (t a b : Fn E ℝ) (hv : ∀ y, a.value o y = b.value o y)
    (hd : ∀ y, a.dom o y = b.dom o y) (hb : FYeqm o t b) : FYeqm o t a := by
  intro x hx
  obtain ⟨h1, h2⟩ := hb x hx
  rw [hv, hd]; exact ⟨h1, h2⟩

theorem C08.FYeqm_translated (μ : E → E → E) (cv : Builtin ℝ → E → ℝ) (cd : Builtin ℝ → E → Bool)
    (cg : Builtin ℝ → E → E) (t g : Fn E ℝ) (u : E) :
    (FYeqm (eOps μ cv cd cg) t (.trans g u) →
      FYeqm (eOps μ cv cd cg) t (Fn.translated (eOps μ cv cd cg) g u)) ∧
    (∀ c, FYeqm (eOps μ cv cd cg) t (.ssum (.trans g u) c) →
      FYeqm (eOps μ cv cd cg) t (.ssum (Fn.translated (eOps μ cv cd cg) g u) c)) := by
  constructor
  · intro hyp x hx
    obtain ⟨h1, h2⟩ := hyp x hx
    rw [C08.translated_dom, C08.translated_value]
    exact ⟨h1, h2⟩
  · intro c hyp x hx
    obtain ⟨h1, h2⟩ := hyp x hx
    simp only [Fn.dom, Fn.value] at h1 h2 ⊢
    rw [C08.translated_dom, C08.translated_value]
    simp only [Fn.dom, Fn.value]
    exact ⟨h1, h2⟩

/-- **Equality case on expression trees**: under the same side conditions as `conj_sound`, for
every expression that implements `gradient`, the coded conjugate evaluated at the coded
gradient attains Fenchel–Young equality: `t(x) + t*(∇t(x)) = ⟨x, ∇t(x)⟩` (all depths, every
real inner-product space), given it for the coordinate-wise leaves L1 and Huber. -/
theorem C08.conj_sound_eq (μ : E → E → E) (cv : Builtin ℝ → E → ℝ)
    (cd : Builtin ℝ → E → Bool) (cg : Builtin ℝ → E → E)
    (hμ : ∀ (v : E) (c : ℝ) (y : E), μ v (c • y) = c • μ v y)
    (hl1 : FYeqm (eOps μ cv cd cg) (.coord .l1) (.coord .indLinf))
    (hhub : ∀ γ, 0 < γ → FYeqm (eOps μ cv cd cg) (.coord (.huber γ))
      (.qp (.coord .indLinf) (γ / two) false (eOps μ cv cd cg).zero 0))
    (t t' : Fn E ℝ) (hreg : Reg (eOps μ cv cd cg) t) (hg : t.hasGrad = true)
    (h : t.conj (eOps μ cv cd cg) = some t') :
    FYeqm (eOps μ cv cd cg) t t' := by
  have hsm : ∀ (a : ℝ) (z : E), (eOps μ cv cd cg).smul a z = a • z := fun _ _ => rfl
  have hin : ∀ a b : E, (eOps μ cv cd cg).inner a b = ⟪a, b⟫ := fun _ _ => rfl
  have hsub : ∀ a b : E, (eOps μ cv cd cg).sub a b = a - b := fun _ _ => rfl
  have hadd : ∀ a b : E, (eOps μ cv cd cg).add a b = a + b := fun _ _ => rfl
  have hzero : (eOps μ cv cd cg).zero = (0 : E) := rfl
  have hisz : ∀ a : E, (eOps μ cv cd cg).isZero a = true ↔ a = 0 := by
    intro a; simp [eOps]
  induction t generalizing t' with
  | coord b =>
      cases b with
      | l1 => simp [Fn.conj] at h; subst h; exact hl1
      | indLinf => simp [Fn.hasGrad] at hg
      | huber γ => simp [Fn.conj] at h; subst h; exact hhub γ hreg
  | l2sq =>
      simp [Fn.conj] at h; subst h
      intro x _
      refine ⟨rfl, ?_⟩
      simp only [Fn.value, Fn.grad, hsm, hin, two, real_inner_smul_left, real_inner_smul_right]
      ring
  | const c =>
      simp [Fn.conj] at h; subst h
      intro x _
      refine ⟨by simp [Fn.dom, Fn.grad, hisz, hzero], ?_⟩
      simp [Fn.value, Fn.grad, hin, hzero]
  | indZero c => simp [Fn.hasGrad] at hg
  | lin b c =>
      simp [Fn.conj, Fn.translated] at h; subst h
      intro x _
      refine ⟨by simp [Fn.dom, Fn.grad, hisz, hsub], ?_⟩
      simp [Fn.value, Fn.grad, hin, real_inner_comm]
  | quad A At Ainv AinvT hasB b c =>
      obtain ⟨A', Ai', hA, hAt, hAi, hAit, hsym, hpos, hinv⟩ := hreg
      have hisym : ∀ u v, ⟪Ai' u, v⟫ = ⟪u, Ai' v⟫ := by
        intro u v
        calc ⟪Ai' u, v⟫ = ⟪Ai' u, A' (Ai' v)⟫ := by rw [hinv]
          _ = ⟪A' (Ai' u), Ai' v⟫ := (hsym _ _).symm
          _ = ⟪u, Ai' v⟫ := by rw [hinv]
      intro x _
      by_cases hb : hasB = true
      · simp [Fn.conj, hb] at h; subst h
        refine ⟨rfl, ?_⟩
        have key := ((C08.quadform_conj A' Ai' b c hsym hpos hinv).2 x ((2 : ℝ) • A' x + b) rfl).2.2
        have hgr : (Fn.quad A At Ainv AinvT true b c).grad (eOps μ cv cd cg) x = (2 : ℝ) • A' x + b := by
          simp only [Fn.grad, if_true, hadd, hA, hAt, two_smul]
        subst hb
        rw [hgr]
        set y := (2 : ℝ) • A' x + b with hy
        simp only [Fn.value, if_true, hsm, hin, hsub, hadd, hA, hAi, hAit, two]
        have e1 : ⟪b, Ai' y⟫ = ⟪y, Ai' b⟫ := by rw [← hisym, real_inner_comm]
        simp only [inner_sub_left, inner_sub_right, map_sub, inner_add_right,
          real_inner_smul_right, inner_neg_right, neg_smul, one_smul, e1,
          real_inner_comm x b] at key ⊢
        norm_num at key ⊢
        linarith
      · simp [Fn.conj, hb] at h; subst h
        refine ⟨rfl, ?_⟩
        have key := ((C08.quadform_conj A' Ai' 0 c hsym hpos hinv).2 x ((2 : ℝ) • A' x + 0) rfl).2.2
        have hgr : (Fn.quad A At Ainv AinvT hasB b c).grad (eOps μ cv cd cg) x = (2 : ℝ) • A' x + 0 := by
          simp only [Fn.grad, hb, hadd, hA, hAt, two_smul, add_zero]
          simp
        rw [hgr]
        set y := (2 : ℝ) • A' x + 0 with hy
        simp only [Fn.value, hb, hsm, hin, hA, hAi, two] at key ⊢
        simp only [sub_zero, inner_zero_left, real_inner_smul_right] at key ⊢
        norm_num at key ⊢
        linarith
  | lscal s f ih =>
      have hgf : f.hasGrad = true := by simpa [Fn.hasGrad] using hg
      by_cases hs : s ≤ 0
      · simp [Fn.conj, hs] at h
      · cases hfc : f.conj (eOps μ cv cd cg) with
        | none => simp [Fn.conj, hs, hfc] at h
        | some g =>
            have hs' : 0 < s := not_le.mp hs
            have hne : s ≠ 0 := ne_of_gt hs'
            have hfe := ih g hreg hgf hfc
            have hk : ∀ z : E, (1 / s) • s • z = z := by
              intro z; rw [smul_smul]; field_simp; exact one_smul _ _
            obtain ⟨sv, sd, _⟩ := C08.conj_lscal_sem μ cv cd cg s f g t' hs hfc h
            refine C08.FYeqm_congr _ _ _ _ sv sd ?_
            unfold plainMul
            by_cases hlin : g.isLinear = true
            · simp only [Fn.isLinear, hlin, if_true]
              obtain ⟨hhom, hdom⟩ := C08.linear_flag_homogeneous μ cv cd cg hμ g
                (C08.conj_noComp _ _ g (by assumption) hfc) hlin
              intro x hx
              obtain ⟨_, he⟩ := hfe x (by simpa [Fn.dom] using hx)
              refine ⟨by simpa [Fn.dom] using hdom _, ?_⟩
              simp only [Fn.value, Fn.grad, hsm, hin, hhom, real_inner_smul_right] at he ⊢
              have : 1 / s * (s * (s * g.value (eOps μ cv cd cg) (f.grad (eOps μ cv cd cg) x)))
                  = s * g.value (eOps μ cv cd cg) (f.grad (eOps μ cv cd cg) x) := by field_simp
              rw [this, ← he]; ring
            · have hlin' : g.isLinear = false := by simpa using hlin
              simp only [Fn.isLinear, hlin', Bool.false_eq_true, if_false]
              intro x hx
              obtain ⟨hd, he⟩ := hfe x (by simpa [Fn.dom] using hx)
              refine ⟨?_, ?_⟩
              · simp only [Fn.dom, Fn.grad, hsm]
                rw [hk]; exact hd
              · have he' : f.value (eOps μ cv cd cg) x + g.value (eOps μ cv cd cg)
                    (f.grad (eOps μ cv cd cg) x) = ⟪x, f.grad (eOps μ cv cd cg) x⟫ := he
                simp only [Fn.value, Fn.grad, hsm, hin, real_inner_smul_right]
                rw [hk, ← he']; ring
  | rscal f s ih =>
      obtain ⟨hs, hr⟩ := hreg
      have hgf : f.hasGrad = true := by simpa [Fn.hasGrad] using hg
      cases hfc : f.conj (eOps μ cv cd cg) with
      | none => simp [Fn.conj, hfc] at h
      | some g =>
          have hfe := ih g hr hgf hfc
          have hk : ∀ z : E, (1 / s) • s • z = z := by
            intro z; rw [smul_smul]; field_simp; exact one_smul _ _
          obtain ⟨sv, sd, _⟩ := C08.conj_rscal_sem μ cv cd cg s f g t' hfc h
          refine C08.FYeqm_congr _ _ _ _ sv sd ?_
          unfold plainMul
          by_cases hlin : g.isLinear = true
          · simp only [hlin, if_true]
            obtain ⟨hhom, hdom⟩ := C08.linear_flag_homogeneous μ cv cd cg hμ g
                (C08.conj_noComp _ _ g (by assumption) hfc) hlin
            intro x hx
            obtain ⟨_, he⟩ := hfe (s • x) (by simpa [Fn.dom, hsm] using hx)
            refine ⟨by simpa [Fn.dom] using hdom _, ?_⟩
            simp only [Fn.value, Fn.grad, hsm, hin, hhom, real_inner_smul_right,
              real_inner_smul_left] at he ⊢
            have : 1 / s * (s * g.value (eOps μ cv cd cg) (f.grad (eOps μ cv cd cg) (s • x)))
                = g.value (eOps μ cv cd cg) (f.grad (eOps μ cv cd cg) (s • x)) := by field_simp
            rw [this]; exact he
          · have hlin' : g.isLinear = false := by simpa using hlin
            simp only [hlin', Bool.false_eq_true, if_false]
            intro x hx
            obtain ⟨hd, he⟩ := hfe (s • x) (by simpa [Fn.dom, hsm] using hx)
            refine ⟨?_, ?_⟩
            · simp only [Fn.dom, Fn.grad, hsm]
              rw [hk]; exact hd
            · simp only [Fn.value, Fn.grad, hsm, hin, real_inner_smul_right,
                real_inner_smul_left] at he ⊢
              rw [hk]; exact he
  | rvec f v vinv ih =>
      obtain ⟨hsym, hinv, hinv', hr⟩ := hreg
      have hgf : f.hasGrad = true := by simpa [Fn.hasGrad] using hg
      cases hfc : f.conj (eOps μ cv cd cg) with
      | none => simp [Fn.conj, hfc] at h
      | some g =>
          simp [Fn.conj, hfc] at h
          subst h
          intro x hx
          obtain ⟨hd, he⟩ := ih g hr hgf hfc _ (by simpa [Fn.dom] using hx)
          refine ⟨?_, ?_⟩
          · simp only [Fn.dom, Fn.grad]; rw [hinv']; exact hd
          · simp only [Fn.value, Fn.grad]
            rw [hinv', he, hin, hin, hsym]
  | ssum f c ih =>
      have hgf : f.hasGrad = true := by simpa [Fn.hasGrad] using hg
      cases hfc : f.conj (eOps μ cv cd cg) with
      | none => simp [Fn.conj, hfc] at h
      | some g =>
          simp [Fn.conj, hfc] at h
          subst h
          intro x hx
          obtain ⟨hd, he⟩ := ih g hreg hgf hfc x (by simpa [Fn.dom] using hx)
          have hgr : (f.ssum c).grad (eOps μ cv cd cg) x = f.grad (eOps μ cv cd cg) x := by
            simp only [Fn.grad, hadd, hzero, add_zero]
          rw [hgr]
          refine ⟨by simpa [Fn.dom] using hd, ?_⟩
          simp only [Fn.value]; linarith
  | trans f t ih =>
      have hgf : f.hasGrad = true := by simpa [Fn.hasGrad] using hg
      cases hfc : f.conj (eOps μ cv cd cg) with
      | none => simp [Fn.conj, hfc] at h
      | some g =>
          simp [Fn.conj, hfc] at h
          subst h
          intro x hx
          obtain ⟨hd, he⟩ := ih g hreg hgf hfc (x - t) (by simpa [Fn.dom, hsub] using hx)
          refine ⟨by simpa [Fn.dom, Fn.grad, hsub] using hd, ?_⟩
          simp only [Fn.value, Fn.grad, hsub, hin] at he ⊢
          rw [inner_sub_left] at he
          have := real_inner_comm (f.grad (eOps μ cv cd cg) (x - t)) t
          linarith
  | qp f a hasU u c ih =>
      obtain ⟨ha, hr⟩ := hreg
      subst ha
      have hgf : f.hasGrad = true := by simpa [Fn.hasGrad] using hg
      cases hfc : f.conj (eOps μ cv cd cg) with
      | none => simp [Fn.conj, hfc] at h
      | some g =>
          have hgr : ∀ x, (f.qp 0 hasU u c).grad (eOps μ cv cd cg) x
              = f.grad (eOps μ cv cd cg) x + u := by
            intro x; simp only [Fn.grad, hadd, hsm, two, mul_zero, zero_smul, add_zero]
          by_cases hc : c = 0
          · simp [Fn.conj, hfc, hc] at h
            subst h
            apply (C08.FYeqm_translated μ cv cd cg _ g u).1
            intro x hx
            obtain ⟨hd, he⟩ := ih g hr hgf hfc x (by simpa [Fn.dom] using hx)
            rw [hgr]
            refine ⟨by simpa [Fn.dom, hsub] using hd, ?_⟩
            simp only [Fn.value, hsub, hin, add_sub_cancel_right, inner_add_right, hc] at he ⊢
            linarith
          · simp [Fn.conj, hfc, hc] at h
            subst h
            apply (C08.FYeqm_translated μ cv cd cg _ g u).2
            intro x hx
            obtain ⟨hd, he⟩ := ih g hr hgf hfc x (by simpa [Fn.dom] using hx)
            rw [hgr]
            refine ⟨by simpa [Fn.dom, hsub] using hd, ?_⟩
            simp only [Fn.value, hsub, hin, add_sub_cancel_right, inner_add_right] at he ⊢
            linarith
  | breg f p q ih =>
      have hgf : f.hasGrad = true := by simpa [Fn.hasGrad] using hg
      cases hfc : f.conj (eOps μ cv cd cg) with
      | none => simp [Fn.conj, hfc] at h
      | some g =>
          have hgr : ∀ x, (f.breg p q).grad (eOps μ cv cd cg) x - (eOps μ cv cd cg).smul (-1) q
              = f.grad (eOps μ cv cd cg) x := by
            intro x; simp only [Fn.grad, hsub, hsm, neg_smul, one_smul, sub_neg_eq_add, sub_add_cancel]
          by_cases hc : -(f.value (eOps μ cv cd cg) p) + (eOps μ cv cd cg).inner q p = 0
          · simp only [Fn.conj, hfc, hc, if_true] at h
            simp at h
            subst h
            apply (C08.FYeqm_translated μ cv cd cg _ g _).1
            intro x hx
            obtain ⟨hd, he⟩ := ih g hreg hgf hfc x (by simpa [Fn.dom] using hx)
            refine ⟨by simp only [Fn.dom, hsub]; rw [hgr]; exact hd, ?_⟩
            simp only [Fn.value, hsub, hc]
            rw [hgr]
            simp only [Fn.grad, hsub, hsm, hin, inner_sub_right, real_inner_smul_right] at he ⊢
            linarith
          · simp only [Fn.conj, hfc, hc, if_false] at h
            simp at h
            subst h
            apply (C08.FYeqm_translated μ cv cd cg _ g _).2
            intro x hx
            obtain ⟨hd, he⟩ := ih g hreg hgf hfc x (by simpa [Fn.dom] using hx)
            refine ⟨by simp only [Fn.dom, hsub]; rw [hgr]; exact hd, ?_⟩
            simp only [Fn.value, hsub]
            rw [hgr]
            simp only [Fn.grad, hsub, hsm, hin, inner_sub_right, real_inner_smul_right] at he ⊢
            linarith
  | sum f g _ _ => exact hreg.elim
  | prod f g _ _ => exact hreg.elim
  | quot f g _ _ => exact hreg.elim
  | comp f op dAdj opLin _ => exact hreg.elim
  | infconv f g _ _ => exact hreg.elim
  | menv f P σ _ => exact hreg.elim
  | dconj f _ => exact hreg.elim


/-! ### Huber equality on weighted lists -/
section lists3
variable {K : Type} [Field K] [LinearOrder K] [IsStrictOrderedRing K]

/-- One entry of the Huber pair, equality case: the coded gradient entry lies in `[-1, 1]` and
attains `h_γ(x) + (γ/2)·g² = x·g`. -/
theorem C08.huber_scalar_eq (γ x : K) (hγ : 0 < γ) :
    absK (huberGrad1 γ x) ≤ 1 ∧
      huberVal1 γ x + γ / two * (huberGrad1 γ x * huberGrad1 γ x) = x * huberGrad1 γ x := by
  have hne : γ ≠ 0 := ne_of_gt hγ
  have hxx : x * x = |x| * |x| := by rw [← abs_mul, abs_mul_self]
  unfold huberVal1 huberGrad1
  simp only [hγ, if_true, C08.absK_eq, two]
  split_ifs with h
  · have hx0 : 0 < |x| := lt_of_lt_of_le hγ h
    have hne' : |x| ≠ 0 := ne_of_gt hx0
    have e1 : x / |x| * (x / |x|) = 1 := by
      rw [div_mul_div_comm, hxx, div_self (mul_ne_zero hne' hne')]
    have e2 : x * (x / |x|) = |x| := by
      rw [← mul_div_assoc, hxx, mul_div_assoc, div_self hne', mul_one]
    refine ⟨?_, ?_⟩
    · rw [abs_div, abs_abs, div_self hne']
    · rw [e1, e2]; ring
  · have hlt : |x| < γ := not_le.mp h
    refine ⟨?_, ?_⟩
    · rw [abs_div, abs_of_pos hγ, div_le_one hγ]; exact hlt.le
    · rw [← hxx]; field_simp

/-- `Huber.convex_conj` as coded attains Fenchel–Young EQUALITY at the coded `Huber.gradient`,
on every weighted list space (all lengths, any ordered field). -/
theorem C08.huber_conj_eq (γ : K) (hγ : 0 < γ) (w x : List K) :
    inLinfBall (x.map (huberGrad1 γ)) = true ∧
      huberW γ w x + γ / two * innerW w (x.map (huberGrad1 γ)) (x.map (huberGrad1 γ))
        = innerW w x (x.map (huberGrad1 γ)) := by
  constructor
  · induction x with
    | nil => simp [inLinfBall]
    | cons x0 xs ih => simp [inLinfBall, ih, (C08.huber_scalar_eq γ x0 hγ).1]
  · induction w generalizing x with
    | nil => simp [innerW, huberW]
    | cons a ws ih =>
        cases x with
        | nil => simp [innerW, huberW]
        | cons x0 xs =>
            simp only [List.map_cons, innerW, huberW]
            have h0 := (C08.huber_scalar_eq γ x0 hγ).2
            have := ih xs
            calc a * huberVal1 γ x0 + huberW γ ws xs +
                  γ / two * (a * huberGrad1 γ x0 * huberGrad1 γ x0 +
                    innerW ws (xs.map (huberGrad1 γ)) (xs.map (huberGrad1 γ)))
                = a * (huberVal1 γ x0 + γ / two * (huberGrad1 γ x0 * huberGrad1 γ x0)) +
                  (huberW γ ws xs + γ / two *
                    innerW ws (xs.map (huberGrad1 γ)) (xs.map (huberGrad1 γ))) := by ring
              _ = a * (x0 * huberGrad1 γ x0) + innerW ws xs (xs.map (huberGrad1 γ)) := by
                  rw [h0, this]
              _ = a * x0 * huberGrad1 γ x0 + innerW ws xs (xs.map (huberGrad1 γ)) := by ring
end lists3

/-! ### The leaf hypotheses DISCHARGED on the weighted spaces `WSp w` (all `n`, all weights `> 0`)
with the coordinate-wise built-ins computed by the list functions the driver executes -/
section weighted
variable {n : ℕ} (w : Fin n → ℝ) [hw : Fact (∀ i, 0 < w i)]

theorem C08.wOps_l1_pair : FYm (wOps w) (.coord .l1) (.coord .indLinf) := by
  intro x y _ hy
  have := C08.l1_linf_conj (List.ofFn w) (List.ofFn x.val) (List.ofFn y.val) (weights_nonneg w) hy
  rw [wOps_inner]
  exact this

theorem C08.wOps_linf_pair : FYm (wOps w) (.coord .indLinf) (.coord .l1) := by
  intro x y hx _
  have := C08.l1_linf_conj (List.ofFn w) (List.ofFn y.val) (List.ofFn x.val) (weights_nonneg w) hx
  have hc : (wOps w).inner x y = (wOps w).inner y x := real_inner_comm _ _
  rw [hc, wOps_inner]
  have e : (Fn.coord Builtin.indLinf : Fn (WSp w) ℝ).value (wOps w) x
      + (Fn.coord Builtin.l1 : Fn (WSp w) ℝ).value (wOps w) y
      = (listOps (List.ofFn w)).cval .l1 (List.ofFn y.val)
        + (listOps (List.ofFn w)).cval .indLinf (List.ofFn x.val) := add_comm _ _
  rw [e]
  exact this

theorem C08.wOps_zero_val : List.ofFn ((wOps w).zero : WSp w).val = (List.ofFn w).map fun _ => (0 : ℝ) := by
  show List.ofFn (fun _ : Fin n => (0 : ℝ)) = _
  rw [List.map_ofFn]; rfl

theorem C08.wOps_huber_pair (γ : ℝ) (hγ : 0 < γ) :
    FYm (wOps w) (.coord (.huber γ)) (.qp (.coord .indLinf) (γ / two) false (wOps w).zero 0) := by
  intro x y _ hy
  obtain ⟨t', ht', hfy⟩ := C08.huber_conj γ hγ (List.ofFn w) (List.ofFn x.val) (List.ofFn y.val)
    (weights_nonneg w)
  simp only [Fn.conj, Option.some.injEq] at ht'
  subst ht'
  have h2 := hfy (by simp only [Fn.dom] at hy ⊢; exact hy)
  simp only [Fn.value] at h2 ⊢
  rw [wOps_inner, wOps_inner, wOps_inner, C08.wOps_zero_val]
  exact h2

theorem C08.wOps_grad_val (b : Builtin ℝ) (φ : ℝ → ℝ)
    (hb : ∀ l, (listOps (List.ofFn w)).cgrad b l = l.map φ) (x : WSp w) :
    List.ofFn ((Fn.coord b : Fn (WSp w) ℝ).grad (wOps w) x).val = (List.ofFn x.val).map φ := by
  show List.ofFn (ofL ((listOps (List.ofFn w)).cgrad b (List.ofFn x.val)) : Fin n → ℝ) = _
  rw [hb, ofL_map_ofFn, List.map_ofFn]; rfl

theorem C08.wOps_l1_eq : FYeqm (wOps w) (.coord .l1) (.coord .indLinf) := by
  intro x _
  have hg := C08.wOps_grad_val w .l1 signK (fun l => rfl) x
  obtain ⟨h1, h2⟩ := C08.l1_linf_conj_eq (List.ofFn w) (List.ofFn x.val)
  refine ⟨?_, ?_⟩
  · show inLinfBall (List.ofFn ((Fn.coord Builtin.l1 : Fn (WSp w) ℝ).grad (wOps w) x).val) = true
    rw [hg]; exact h1
  · rw [wOps_inner, hg]
    show (listOps (List.ofFn w)).cval .l1 (List.ofFn x.val) +
      (listOps (List.ofFn w)).cval .indLinf
        (List.ofFn ((Fn.coord Builtin.l1 : Fn (WSp w) ℝ).grad (wOps w) x).val) = _
    rw [hg]; exact h2

theorem C08.wOps_huber_eq (γ : ℝ) (hγ : 0 < γ) :
    FYeqm (wOps w) (.coord (.huber γ)) (.qp (.coord .indLinf) (γ / two) false (wOps w).zero 0) := by
  intro x _
  have hg := C08.wOps_grad_val w (.huber γ) (huberGrad1 γ) (fun l => rfl) x
  obtain ⟨h1, h2⟩ := C08.huber_conj_eq γ hγ (List.ofFn w) (List.ofFn x.val)
  refine ⟨?_, ?_⟩
  · show inLinfBall (List.ofFn ((Fn.coord (Builtin.huber γ) : Fn (WSp w) ℝ).grad (wOps w) x).val) = true
    rw [hg]; exact h1
  · simp only [Fn.value]
    rw [wOps_inner, wOps_inner, wOps_inner, hg, C08.wOps_zero_val]
    show huberW γ (List.ofFn w) (List.ofFn x.val) + (0 + γ / two * innerW (List.ofFn w) _ _ +
      innerW (List.ofFn w) _ ((List.ofFn w).map fun _ => (0 : ℝ)) + 0) = innerW (List.ofFn w) _ _
    rw [C08.innerW_zero_right, ← h2]; ring

/-- **Fenchel–Young for the coded conjugation rules on the weighted spaces, WITHOUT leaf
hypotheses**: for every `n`, all positive weights `w` (`rn`, weighted `rn`, `uniform_discr`),
every expression `t` satisfying the side conditions `Reg` whose coordinate-wise leaves (L1,
indicator of the L∞ ball, Huber) are evaluated by the list functions the driver executes:
`⟨x, y⟩_w ≤ t(x) + t*(y)` wherever both are finite. -/
theorem C08.conj_sound_weighted (t t' : Fn (WSp w) ℝ) (hreg : Reg (wOps w) t)
    (h : t.conj (wOps w) = some t') : FYm (wOps w) t t' :=
  C08.conj_sound _ _ _ _ (wOps_mul_smul w) (C08.wOps_l1_pair w) (C08.wOps_linf_pair w)
    (C08.wOps_huber_pair w) t t' hreg h

/-- … and EQUALITY at the coded gradient, without leaf hypotheses. -/
theorem C08.conj_sound_eq_weighted (t t' : Fn (WSp w) ℝ) (hreg : Reg (wOps w) t)
    (hg : t.hasGrad = true) (h : t.conj (wOps w) = some t') : FYeqm (wOps w) t t' :=
  C08.conj_sound_eq _ _ _ _ (wOps_mul_smul w) (C08.wOps_l1_eq w) (C08.wOps_huber_eq w) t t' hreg hg h
end weighted

/-! Non-vacuity on a concrete weighted space: `uniform_discr(0, 1/2, 2)` (two cells of volume
1/4), `f(x) = 2·Huber_{1/2}(x − (1, −1))` — a tree WITH a coordinate-wise leaf. -/
section example_weighted
instance exw : Fact (∀ i, 0 < (![1 / 4, 1 / 4] : Fin 2 → ℝ) i) :=
  ⟨by intro i; fin_cases i <;> norm_num⟩

example :
    ((Fn.lscal 2 (.trans (.coord (.huber (1 / 2))) (WSp.of ![1, -1])) :
        Fn (WSp ![1 / 4, 1 / 4]) ℝ).conj (wOps ![1 / 4, 1 / 4])).isSome = true ∧
    ∀ t', (Fn.lscal 2 (.trans (.coord (.huber (1 / 2))) (WSp.of ![1, -1])) :
        Fn (WSp ![1 / 4, 1 / 4]) ℝ).conj (wOps ![1 / 4, 1 / 4]) = some t' →
      FYm (wOps ![1 / 4, 1 / 4]) (.lscal 2 (.trans (.coord (.huber (1 / 2))) (WSp.of ![1, -1]))) t' ∧
      FYeqm (wOps ![1 / 4, 1 / 4]) (.lscal 2 (.trans (.coord (.huber (1 / 2))) (WSp.of ![1, -1]))) t' := by
  have hreg : Reg (wOps ![1 / 4, 1 / 4])
      (Fn.lscal 2 (.trans (.coord (.huber (1 / 2))) (WSp.of ![1, -1])) : Fn (WSp ![1 / 4, 1 / 4]) ℝ) := by
    show (0 : ℝ) < 1 / 2
    norm_num
  constructor
  · have h2 : ¬ ((2 : ℝ) ≤ 0) := by norm_num
    simp [Fn.conj, h2]
  · intro t' h
    exact ⟨C08.conj_sound_weighted _ _ t' hreg h, C08.conj_sound_eq_weighted _ _ t' hreg rfl h⟩
end example_weighted

/-! ### Moreau decomposition for the hand-coded proximal pairs (C07's coded formulas) -/
section moreau_coded
variable {K : Type} [Field K] [LinearOrder K] [IsStrictOrderedRing K]

/-- **Moreau decomposition for the hand-coded L1 pair** (entry-wise; both proximals act entry by
entry, with any weights): `ProximalL1` (`L1Norm.proximal(σ)`, C07's `softCode`) and
`ProximalConvexConjL1` (`IndicatorLpUnitBall(∞).proximal(1/σ)`, C07's `ccL1Code`, step-free)
satisfy `prox_{σ f}(x) + σ·prox_{f*/σ}(x/σ) = x`. -/
theorem C08.moreau_l1_coded (σ x : K) (hσ : 0 < σ) :
    OdlModel.Prox.softCode σ x 0 + σ * OdlModel.Prox.ccL1Code 1 0 (x / σ) = x := by
  have hne : σ ≠ 0 := ne_of_gt hσ
  unfold OdlModel.Prox.softCode OdlModel.Prox.ccL1Code OdlModel.Prox.maxK OdlModel.Prox.absK
  simp only [sub_zero, div_one]
  have hdiv : (x / σ < 0) ↔ x < 0 := by
    constructor
    · intro h; by_contra h'; exact absurd h (not_lt.mpr (div_nonneg (le_of_not_gt h') hσ.le))
    · intro h; exact div_neg_of_neg_of_pos h hσ
  by_cases hx : x < 0
  · have hx' : x / σ < 0 := hdiv.mpr hx
    simp only [hx, hx', if_true]
    have e : -(x / σ) = -x / σ := by ring
    rw [e]
    by_cases h1 : -x / σ ≤ 1
    · simp only [h1, if_true, div_one]; field_simp; ring
    · simp only [h1, if_false]
      have hx0 : x ≠ 0 := ne_of_lt hx
      have hnx : -x ≠ 0 := neg_ne_zero.mpr hx0
      field_simp; ring
  · have hx' : ¬ x / σ < 0 := fun h => hx (hdiv.mp h)
    simp only [hx, hx', if_false]
    by_cases h1 : x / σ ≤ 1
    · simp only [h1, if_true, div_one]; field_simp; ring
    · simp only [h1, if_false]
      have hx0 : x ≠ 0 := by
        intro h0; rw [h0, zero_div] at h1; exact h1 zero_le_one
      field_simp; ring

/-- **Moreau decomposition for the hand-coded L2² pair**: `ProximalL2Squared`
(`L2NormSquared.proximal(σ)`, C07's `l2sqCode`) and the proximal of the coded conjugate
`(1/4)·L2NormSquared` (`FunctionalLeftScalarMult.proximal`: `L2NormSquared.proximal(σ'·1/4)`,
`σ' = 1/σ`). -/
theorem C08.moreau_l2sq_coded (σ x : K) (hσ : 0 < σ) :
    OdlModel.Prox.l2sqCode 1 σ x 0 + σ * OdlModel.Prox.l2sqCode 1 (1 / σ * (1 / 4)) (x / σ) 0 = x := by
  have hne : σ ≠ 0 := ne_of_gt hσ
  unfold OdlModel.Prox.l2sqCode
  simp only [mul_zero, add_zero, mul_one]
  have h1 : (1 : K) + (1 + 1) * σ ≠ 0 := by positivity
  have h2 : (1 : K) + (1 + 1) * (1 / σ * (1 / 4)) ≠ 0 := by positivity
  field_simp
  ring

end moreau_coded

/-! ### Evaluability and round trip of the coded conjugation -/
section final
variable {E : Type} [NormedAddCommGroup E] [InnerProductSpace ℝ E]

/-- Merging constructors keep evaluability. -/
theorem C08.mk_evaluable (a : ℝ) (f : Fn E ℝ) :
    (Fn.mkLscal a f).evaluable = f.evaluable ∧ (Fn.mkRscal f a).evaluable = f.evaluable ∧
      (Fn.mulScalar f a).evaluable = f.evaluable := by
  have h1 : (Fn.mkLscal a f).evaluable = f.evaluable := by cases f <;> simp [Fn.mkLscal, Fn.evaluable]
  have h2 : (Fn.mkRscal f a).evaluable = f.evaluable := by cases f <;> simp [Fn.mkRscal, Fn.evaluable]
  refine ⟨h1, h2, ?_⟩
  unfold Fn.mulScalar
  cases f.isLinear <;> simp [h1, h2]

theorem C08.translated_evaluable (o : VecOps E ℝ) (g : Fn E ℝ) (u : E) :
    (Fn.translated o g u).evaluable = g.evaluable := by
  cases g <;> simp [Fn.translated, Fn.evaluable]

/-- **The coded conjugate of every expression of the fragment `Reg` can be evaluated** (all
depths): `Fn.conj` never answers with the default wrapper `FunctionalDefaultConvexConjugate`
(whose `_call` does not exist) nor with an `InfimalConvolution` / `MoreauEnvelope` there; the
driver prints `noeval` exactly when `evaluable` is false, and the harness compares this with
the live `f.convex_conj(y)` (value vs NotImplementedError). -/
theorem C08.conj_evaluable (o : VecOps E ℝ) (t t' : Fn E ℝ) (hreg : Reg o t)
    (h : t.conj o = some t') : t'.evaluable = true := by
  induction t generalizing t' with
  | coord b => cases b <;> (simp [Fn.conj] at h; subst h; simp [Fn.evaluable])
  | l2sq => simp [Fn.conj] at h; subst h; simp [Fn.evaluable]
  | const c => simp [Fn.conj] at h; subst h; simp [Fn.evaluable]
  | indZero c => simp [Fn.conj] at h; subst h; simp [Fn.evaluable]
  | lin b c => simp [Fn.conj, Fn.translated] at h; subst h; simp [Fn.evaluable]
  | quad A At Ainv AinvT hasB b c =>
      by_cases hb : hasB = true <;> (simp [Fn.conj, hb] at h; subst h; simp [Fn.evaluable])
  | lscal s f ih =>
      by_cases hs : s ≤ 0
      · simp [Fn.conj, hs] at h
      · cases hfc : f.conj o with
        | none => simp [Fn.conj, hs, hfc] at h
        | some g =>
            have := ih g hreg hfc
            simp only [Fn.conj, hs, if_false, hfc, Option.some.injEq] at h
            subst h
            rw [(C08.mk_evaluable _ _).2.2, (C08.mk_evaluable _ _).1]; exact this
  | rscal f s ih =>
      cases hfc : f.conj o with
      | none => simp [Fn.conj, hfc] at h
      | some g =>
          have := ih g hreg.2 hfc
          simp only [Fn.conj, hfc, Option.some.injEq] at h
          subst h
          rw [(C08.mk_evaluable _ _).2.2]; exact this
  | rvec f v vinv ih =>
      cases hfc : f.conj o with
      | none => simp [Fn.conj, hfc] at h
      | some g =>
          have := ih g hreg.2.2.2 hfc
          simp [Fn.conj, hfc] at h; subst h; simpa [Fn.evaluable] using this
  | ssum f c ih =>
      cases hfc : f.conj o with
      | none => simp [Fn.conj, hfc] at h
      | some g =>
          have := ih g hreg hfc
          simp [Fn.conj, hfc] at h; subst h; simpa [Fn.evaluable] using this
  | trans f t ih =>
      cases hfc : f.conj o with
      | none => simp [Fn.conj, hfc] at h
      | some g =>
          have := ih g hreg hfc
          simp [Fn.conj, hfc] at h; subst h; simpa [Fn.evaluable] using this
  | qp f a hasU u c ih =>
      obtain ⟨ha, hr⟩ := hreg
      subst ha
      cases hfc : f.conj o with
      | none => simp [Fn.conj, hfc] at h
      | some g =>
          have := ih g hr hfc
          by_cases hc : c = 0 <;>
            (simp [Fn.conj, hfc, hc] at h; subst h
             simpa [Fn.evaluable, C08.translated_evaluable o g u] using this)
  | breg f p q ih =>
      cases hfc : f.conj o with
      | none => simp [Fn.conj, hfc] at h
      | some g =>
          have := ih g hreg hfc
          by_cases hc : -(f.value o p) + o.inner q p = 0
          · simp only [Fn.conj, hfc, hc, if_true] at h
            simp at h; subst h
            simpa [Fn.evaluable, C08.translated_evaluable o g _] using this
          · simp only [Fn.conj, hfc, hc, if_false] at h
            simp at h; subst h
            simpa [Fn.evaluable, C08.translated_evaluable o g _] using this
  | sum f g _ _ => exact hreg.elim
  | prod f g _ _ => exact hreg.elim
  | quot f g _ _ => exact hreg.elim
  | comp f op dAdj opLin _ => exact hreg.elim
  | infconv f g _ _ => exact hreg.elim
  | menv f P σ _ => exact hreg.elim
  | dconj f _ => exact hreg.elim


/-- **Round trip of the coded conjugation on the built-in pairs** (`f** = f`, every real
inner-product space, every point): for L1, the L∞-ball indicator, Constant and IndicatorZero
`Fn.conj (Fn.conj t)` IS `t` again (the code returns the partner class); for L2NormSquared the
biconjugate is the merged scaling `((1/4)·(1/4)·‖·‖²)(4 ·)` and takes the same value as `‖·‖²`
at every point. -/
theorem C08.biconj_leaves (μ : E → E → E) (cv : Builtin ℝ → E → ℝ) (cd : Builtin ℝ → E → Bool)
    (cg : Builtin ℝ → E → E) (c : ℝ) :
    (∀ t : Fn E ℝ, t = .coord .l1 ∨ t = .coord .indLinf →
      (t.conj (eOps μ cv cd cg)).bind (Fn.conj (eOps μ cv cd cg)) = some t) ∧
    ((Fn.const c : Fn E ℝ).conj (eOps μ cv cd cg)).bind (Fn.conj (eOps μ cv cd cg))
      = some (.const (- -c)) ∧
    ((Fn.indZero c : Fn E ℝ).conj (eOps μ cv cd cg)).bind (Fn.conj (eOps μ cv cd cg))
      = some (.indZero (- -c)) ∧
    ∃ t'', ((Fn.l2sq : Fn E ℝ).conj (eOps μ cv cd cg)).bind (Fn.conj (eOps μ cv cd cg)) = some t'' ∧
      ∀ x, t''.value (eOps μ cv cd cg) x = (Fn.l2sq : Fn E ℝ).value (eOps μ cv cd cg) x ∧
        t''.dom (eOps μ cv cd cg) x = true := by
  refine ⟨?_, rfl, rfl, ?_⟩
  · rintro t (rfl | rfl) <;> rfl
  · have hq : ¬ ((1 : ℝ) / (two * two) ≤ 0) := by unfold two; norm_num
    have h2 : (two : ℝ) ≠ 0 := by unfold two; norm_num
    refine ⟨(Fn.lscal ((two : ℝ)⁻¹ * two⁻¹ * (two⁻¹ * two⁻¹)) Fn.l2sq).rscal (two * two), ?_, ?_⟩
    · simp [Fn.conj, Fn.mulScalar, Fn.mkLscal, Fn.mkRscal, Fn.isLinear, h2]
    intro x
    refine ⟨?_, rfl⟩
    simp only [Fn.value, eOps, two, real_inner_smul_left, real_inner_smul_right]
    norm_num
    ring

/-- Non-vacuity: the fragment contains `2·Huber_{1/2}(· − t)` on the weighted example space and
its coded conjugate is evaluable. -/
example : ∀ t', (Fn.lscal 2 (.trans (.coord (.huber (1 / 2))) (WSp.of ![1, -1])) :
      Fn (WSp ![1 / 4, 1 / 4]) ℝ).conj (wOps ![1 / 4, 1 / 4]) = some t' → t'.evaluable = true :=
  fun t' h => C08.conj_evaluable _ _ t' (by show (0 : ℝ) < 1 / 2; norm_num) h
end final

/-! ### ROUND 4 — Moreau decomposition about the EXECUTED definitions

`moreauPair` (Model/FunctionalsProx.lean) is what the driver runs for the op `moreau`: the
proximal factories chosen by the `proximal` properties (`Fn.toProx`, evaluated by C07's
`Prox.Fn.prox`) for `f` and for the CODED conjugate `Fn.conj f`.  The stream `moreau-model` of
tools/harness/c08.py compares both proximals with the live objects. -/
section moreau_exec
variable {K : Type} [Field K] [LinearOrder K] [IsStrictOrderedRing K]

/-- Helper: `idxMap` with an index-free body is `List.map` (all lengths). -/
theorem C08.idxMap_map (x : List K) (φ : K → K) :
    OdlModel.Prox.idxMap x (fun _ xi => φ xi) = x.map φ := by
  unfold OdlModel.Prox.idxMap
  apply List.ext_getElem <;> simp

/-- Helper: `p1 + σ·p2` entry by entry when both proximals are entry-wise maps and the second is
evaluated at `x/σ` (all lengths). -/
theorem C08.moreauLhs_map (σ : K) (x : List K) (φ ψ : K → K)
    (h : ∀ t, φ t + σ * ψ (t / σ) = t) :
    moreauLhs σ (x.map φ) ((x.map (· / σ)).map ψ) = x := by
  unfold moreauLhs
  induction x with
  | nil => rfl
  | cons a t ih => simp only [List.map_cons, List.zipWith_cons_cons, ih, h a]

/-- Helper: as `moreauLhs_map`, the second map already composed with `·/σ`. -/
theorem C08.moreauLhs_map2 (σ : K) (x : List K) (φ ψ : K → K)
    (h : ∀ t, φ t + σ * ψ t = t) :
    moreauLhs σ (x.map φ) (x.map ψ) = x := by
  unfold moreauLhs
  induction x with
  | nil => rfl
  | cons a t ih => simp only [List.map_cons, List.zipWith_cons_cons, ih, h a]

/-- Helper: `ProximalConvexConjL1._call` with radius 1 and no data term is the clip to `[-1, 1]`. -/
theorem C08.ccL1_one (y : K) :
    OdlModel.Prox.ccL1Code 1 0 y = if 1 < y then 1 else if y < -1 then -1 else y := by
  unfold OdlModel.Prox.ccL1Code OdlModel.Prox.maxK OdlModel.Prox.absK
  simp only [sub_zero, div_one]
  by_cases h0 : y < 0
  · simp only [h0, if_true]
    by_cases h1 : -y ≤ 1
    · have : ¬ (1 < y) := by linarith
      have h2 : ¬ (y < -1) := by linarith
      simp [h1, this, h2]
    · have : ¬ (1 < y) := by linarith
      have h2 : (y < -1) := by linarith
      have hy : -y ≠ 0 := by linarith
      have hy' : y ≠ 0 := by linarith
      simp only [h1, if_false, this, h2, if_true]
      field_simp
  · simp only [h0, if_false]
    by_cases h1 : y ≤ 1
    · have : ¬ (1 < y) := by linarith
      have h2 : ¬ (y < -1) := by linarith
      simp [h1, this, h2]
    · have : (1 < y) := by linarith
      have hy : y ≠ 0 := by linarith
      simp only [h1, if_false, this, if_true]
      field_simp

/-- **Moreau decomposition for the hand-coded Huber pair** (entry-wise): `ProximalHuber`
(`Huber.proximal(σ)`, C07's `huberCode`) and the proximal of the coded conjugate
`FunctionalQuadraticPerturb(IndicatorLpUnitBall(∞), quadratic_coeff = γ/2)`, i.e.
`proximal_quadratic_perturbation` (`c · (1/c) · P(c·(c·y))` with `c = 1/np.sqrt(2σ'a + 1)`,
`σ' = 1/σ`, `a = γ/2`) around `ProximalConvexConjL1` (unfudged radius 1), satisfy
`prox_{σ f}(x) + σ·prox_{f*/σ}(x/σ) = x`.  `c` is any positive number with
`c² (2σ'a + 1) = 1` (an exact square root). -/
theorem C08.moreau_huber_coded (γ σ x c : K) (hγ : 0 < γ) (hσ : 0 < σ) (hc : 0 < c)
    (hcc : c * c * (1 / σ * (1 + 1) * (γ / (1 + 1)) + 1) = 1) :
    OdlModel.Prox.huberCode γ σ x
      + σ * (c * (1 / c * OdlModel.Prox.ccL1Code 1 0 (c * (c * (x / σ))))) = x := by
  have hcne : c ≠ 0 := ne_of_gt hc
  have hσne : σ ≠ 0 := ne_of_gt hσ
  have hgs : 0 < γ + σ := by linarith
  have hcc2 : c * c = σ / (γ + σ) := by
    have : c * c * ((γ + σ) / σ) = 1 := by
      rw [← hcc]; field_simp
    field_simp
    have h2 : c * c * (γ + σ) = σ := by
      field_simp at this; linarith
    linarith
  have harg : c * (c * (x / σ)) = x / (γ + σ) := by
    rw [← mul_assoc, hcc2]; field_simp
  rw [harg, C08.ccL1_one]
  have e1 : c * (1 / c * (if 1 < x / (γ + σ) then (1:K) else if x / (γ + σ) < -1 then -1 else x / (γ + σ)))
      = (if 1 < x / (γ + σ) then (1:K) else if x / (γ + σ) < -1 then -1 else x / (γ + σ)) := by
    field_simp
  rw [e1]
  unfold OdlModel.Prox.huberCode OdlModel.Prox.absK
  have hd1 : (1 < x / (γ + σ)) ↔ γ + σ < x := by rw [lt_div_iff₀ hgs]; simp
  have hd2 : (x / (γ + σ) < -1) ↔ x < -(γ + σ) := by rw [div_lt_iff₀ hgs]; simp
  simp only [hd1, hd2]
  by_cases h0 : x < 0
  · simp only [h0, if_true]
    have n1 : ¬ (γ + σ < x) := by linarith
    by_cases h1 : -x ≤ γ + σ
    · have n2 : ¬ (x < -(γ + σ)) := by linarith
      simp only [h1, n1, n2, if_true, if_false]; field_simp; try ring
    · have n2 : (x < -(γ + σ)) := by linarith
      have hx : -x ≠ 0 := by linarith
      have hx' : x ≠ 0 := by linarith
      simp only [h1, n1, n2, if_true, if_false]; field_simp; try ring
  · simp only [h0, if_false]
    have n2 : ¬ (x < -(γ + σ)) := by linarith
    by_cases h1 : x ≤ γ + σ
    · have n1 : ¬ (γ + σ < x) := by linarith
      simp only [h1, n1, n2, if_true, if_false]; field_simp; try ring
    · have n1 : (γ + σ < x) := by linarith
      have hx' : x ≠ 0 := by linarith
      simp only [h1, n1, n2, if_true, if_false]; field_simp; try ring



/-- Helper: scalar multiplication of C07's `Vec` is the entry-wise map. -/
theorem C08.vec_smul_data (c : K) (v : OdlModel.Prox.Vec K) :
    (c • v).data = v.data.map (c * ·) := rfl

/-- Moreau for the coded pair (IndicatorLpUnitBall(inf), L1Norm), entry-wise. -/
theorem C08.moreau_linf_coded (σ x : K) (hσ : 0 < σ) :
    OdlModel.Prox.ccL1Code 1 0 x + σ * OdlModel.Prox.softCode (1 / σ) (x / σ) 0 = x := by
  have hne : σ ≠ 0 := ne_of_gt hσ
  rw [C08.ccL1_one]
  unfold OdlModel.Prox.softCode OdlModel.Prox.maxK OdlModel.Prox.absK
  simp only [sub_zero]
  have hdiv : (x / σ < 0) ↔ x < 0 := by
    rw [div_lt_iff₀ hσ]; simp
  by_cases h0 : x < 0
  · have h0' : x / σ < 0 := hdiv.mpr h0
    have e : -(x / σ) / (1 / σ) = -x := by field_simp
    simp only [h0', if_true, e]
    have n1 : ¬ (1 < x) := by linarith
    by_cases h1 : -x ≤ 1
    · have n2 : ¬ (x < -1) := by linarith
      simp only [h1, n1, n2, if_true, if_false]; field_simp; try ring
    · have n2 : x < -1 := by linarith
      have hx : -x ≠ 0 := by linarith
      have hx' : x ≠ 0 := by linarith
      simp only [h1, n1, n2, if_true, if_false]; field_simp; try ring
  · have h0' : ¬ x / σ < 0 := fun h => h0 (hdiv.mp h)
    have e : (x / σ) / (1 / σ) = x := by field_simp
    simp only [h0', if_false, e]
    have n2 : ¬ (x < -1) := by linarith
    by_cases h1 : x ≤ 1
    · have n1 : ¬ (1 < x) := by linarith
      simp only [h1, n1, n2, if_true, if_false]; field_simp; try ring
    · have n1 : 1 < x := by linarith
      have hx' : x ≠ 0 := by linarith
      simp only [h1, n1, n2, if_true, if_false]; field_simp; try ring

/-- **Moreau decomposition, executed pair, L1Norm** (all lengths, all weights, all `x`, all
`σ > 0`): what the driver computes for `moreau f=l1` — `L1Norm.proximal(σ)(x)` and
`L1Norm.convex_conj.proximal(1/σ)(x/σ)` through the coded `Fn.conj` and the factories chosen by
`Fn.toProx` — adds up to `x` (with the unfudged radius `lamF = 1`; the code uses
`1 − 10⁻¹⁴`, which the correspondence run passes as `lamf`). -/
theorem C08.moreau_exec_l1 (E : OdlModel.Prox.Env K) (w x : List K) (σ : K) (hσ : 0 < σ) :
    ∃ p1 p2, moreauPair E 1 w (.coord .l1) σ x = .ok p1 p2 x := by
  have key : moreauLhs σ ((OdlModel.Prox.Fn.l1 1 none).prox E w (.sc σ) x)
      ((OdlModel.Prox.Fn.ccl1 1 none).prox E w (.sc (1 / σ)) (x.map (· / σ))) = x := by
    simp only [OdlModel.Prox.Fn.prox, OdlModel.Prox.Sig.at, OdlModel.Prox.gAt]
    rw [C08.idxMap_map, C08.idxMap_map]
    apply C08.moreauLhs_map
    intro t
    simpa [mul_one, mul_zero] using C08.moreau_l1_coded σ t hσ
  simp only [moreauPair, Fn.conj, Fn.toProx]
  rw [key]
  exact ⟨_, _, rfl⟩

/-- **Moreau decomposition, executed pair, IndicatorLpUnitBall(∞)** (conjugate: `L1Norm`). -/
theorem C08.moreau_exec_linf (E : OdlModel.Prox.Env K) (w x : List K) (σ : K) (hσ : 0 < σ) :
    ∃ p1 p2, moreauPair E 1 w (.coord .indLinf) σ x = .ok p1 p2 x := by
  have key : moreauLhs σ ((OdlModel.Prox.Fn.ccl1 1 none).prox E w (.sc σ) x)
      ((OdlModel.Prox.Fn.l1 1 none).prox E w (.sc (1 / σ)) (x.map (· / σ))) = x := by
    simp only [OdlModel.Prox.Fn.prox, OdlModel.Prox.Sig.at, OdlModel.Prox.gAt]
    rw [C08.idxMap_map, C08.idxMap_map]
    apply C08.moreauLhs_map
    intro t
    simpa [mul_one, mul_zero] using C08.moreau_linf_coded σ t hσ
  simp only [moreauPair, Fn.conj, Fn.toProx]
  rw [key]
  exact ⟨_, _, rfl⟩

/-- **Moreau decomposition, executed pair, L2NormSquared** (conjugate: `(1/4)·L2NormSquared`,
proximal through `FunctionalLeftScalarMult.proximal`). -/
theorem C08.moreau_exec_l2sq (E : OdlModel.Prox.Env K) (w x : List K) (σ : K) (hσ : 0 < σ) :
    ∃ p1 p2, moreauPair E 1 w .l2sq σ x = .ok p1 p2 x := by
  have h4 : (1 : K) / ((1 + 1) * (1 + 1)) = 1 / 4 := by norm_num
  have key : moreauLhs σ ((OdlModel.Prox.Fn.l2sq 1 none).prox E w (.sc σ) x)
      ((OdlModel.Prox.Fn.leftScale (.l2sq 1 none) (1 / ((1 + 1) * (1 + 1)))).prox E w (.sc (1 / σ))
        (x.map (· / σ))) = x := by
    simp only [OdlModel.Prox.Fn.prox, OdlModel.Prox.Sig.scale, OdlModel.Prox.gAt]
    rw [C08.idxMap_map, C08.idxMap_map]
    apply C08.moreauLhs_map
    intro t
    rw [h4]
    exact C08.moreau_l2sq_coded σ t hσ
  have n1 : ¬ ((1 : K) / ((1 + 1) * (1 + 1)) < 0) := by rw [h4]; norm_num
  have n2 : ¬ ((1 : K) / ((1 + 1) * (1 + 1)) = 0) := by rw [h4]; norm_num
  simp only [moreauPair, Fn.conj, Fn.toProx, two, n1, n2, if_false, Option.map_some]
  rw [key]
  exact ⟨_, _, rfl⟩

/-- **Moreau decomposition, executed pair, ConstantFunctional** (`proximal_const_func` and the
`ZeroOperator` of `IndicatorZero.proximal`). -/
theorem C08.moreau_exec_const (E : OdlModel.Prox.Env K) (w x : List K) (σ c : K) (_hσ : 0 < σ) :
    ∃ p1 p2, moreauPair E 1 w (.const c) σ x = .ok p1 p2 x := by
  have key : moreauLhs σ ((OdlModel.Prox.Fn.const).prox E w (.sc σ) x)
      ((OdlModel.Prox.Fn.izero).prox E w (.sc (1 / σ)) (x.map (· / σ))) = x := by
    simp only [OdlModel.Prox.Fn.prox]
    have : x = x.map id := by simp
    conv_lhs => rw [this]
    conv_rhs => rw [this]
    rw [List.map_id]
    have := C08.moreauLhs_map σ x id (fun _ => 0) (by intro t; simp)
    simpa using this
  simp only [moreauPair, Fn.conj, Fn.toProx]
  rw [key]
  exact ⟨_, _, rfl⟩

/-- **Moreau decomposition, executed pair, IndicatorZero** (conjugate: a constant). -/
theorem C08.moreau_exec_indzero (E : OdlModel.Prox.Env K) (w x : List K) (σ c : K) (hσ : 0 < σ) :
    ∃ p1 p2, moreauPair E 1 w (.indZero c) σ x = .ok p1 p2 x := by
  have hne : σ ≠ 0 := ne_of_gt hσ
  have key : moreauLhs σ ((OdlModel.Prox.Fn.izero).prox E w (.sc σ) x)
      ((OdlModel.Prox.Fn.const).prox E w (.sc (1 / σ)) (x.map (· / σ))) = x := by
    simp only [OdlModel.Prox.Fn.prox]
    have := C08.moreauLhs_map σ x (fun _ => 0) id (by intro t; simp; field_simp)
    simpa using this
  simp only [moreauPair, Fn.conj, Fn.toProx]
  rw [key]
  exact ⟨_, _, rfl⟩

/-- The hypothesis on the external square root (`np.sqrt`): exact on positive arguments. -/
def OdlModel.C08.SqrtOK (E : OdlModel.Prox.Env K) : Prop :=
  ∀ t, 0 < t → 0 < E.sqrt t ∧ E.sqrt t * E.sqrt t = t

/-- **Moreau decomposition, executed pair, Huber(γ)** (all lengths, `γ > 0`, `σ > 0`): the
driver's `moreau f=huber|γ` — `proximal_huber` against `proximal_quadratic_perturbation` of
`proximal_convex_conj_l1`, reached through the coded `Huber.convex_conj` — adds up to `x`,
provided `np.sqrt` is exact (`SqrtOK`; the driver's `ratSqrt` is exact on rational squares). -/
theorem C08.moreau_exec_huber (E : OdlModel.Prox.Env K) (hE : OdlModel.C08.SqrtOK E) (w x : List K) (σ γ : K)
    (hσ : 0 < σ) (hγ : 0 < γ) :
    ∃ p1 p2, moreauPair E 1 w (.coord (.huber γ)) σ x = .ok p1 p2 x := by
  have hne : σ ≠ 0 := ne_of_gt hσ
  have key : moreauLhs σ ((OdlModel.Prox.Fn.huber γ).prox E w (.sc σ) x)
      ((OdlModel.Prox.Fn.quad (.ccl1 1 none) (γ / (1 + 1)) none).prox E w (.sc (1 / σ))
        (x.map (· / σ))) = x := by
    simp only [OdlModel.Prox.Fn.prox, OdlModel.Prox.Sig.scalar, OdlModel.Prox.proxQuadPerturb,
      OdlModel.Prox.proxArgScaling, Option.map_none, C08.vec_smul_data, OdlModel.Prox.Sig.at,
      OdlModel.Prox.gAt]
    rw [C08.idxMap_map]
    simp only [List.map_map]
    apply C08.moreauLhs_map2
    intro t
    have ht : 0 < 1 / σ * (1 + 1) * (γ / (1 + 1)) + 1 := by positivity
    obtain ⟨hs1, hs2⟩ := hE _ ht
    have hs0 : E.sqrt (1 / σ * (1 + 1) * (γ / (1 + 1)) + 1) ≠ 0 := ne_of_gt hs1
    have hcc : 1 / E.sqrt (1 / σ * (1 + 1) * (γ / (1 + 1)) + 1)
        * (1 / E.sqrt (1 / σ * (1 + 1) * (γ / (1 + 1)) + 1))
        * (1 / σ * (1 + 1) * (γ / (1 + 1)) + 1) = 1 := by
      generalize 1 / σ * (1 + 1) * (γ / (1 + 1)) + 1 = T at *
      generalize E.sqrt T = S at *
      rw [show 1 / S * (1 / S) * T = T / (S * S) by field_simp, hs2]
      exact div_self (ne_of_gt ht)
    have := C08.moreau_huber_coded γ σ t (1 / E.sqrt (1 / σ * (1 + 1) * (γ / (1 + 1)) + 1)) hγ hσ
      (by positivity) hcc
    simpa [Function.comp, mul_zero] using this
  have n1 : ¬ (γ / (1 + 1) < 0) := not_lt.mpr (by positivity)
  simp only [moreauPair, Fn.conj, Fn.toProx, two, n1, if_false, Option.map_some, Bool.false_eq_true]
  rw [key]
  exact ⟨_, _, rfl⟩

/-! #### derived trees -/

/-- `MoreauAt E w n f`: for every `σ > 0` and every `x` of length `n` the driver's `moreau` op on
`f` answers `ok p1 p2 lhs` with `lhs = x` (and both proximals have length `n`). -/
def OdlModel.C08.MoreauAt (E : OdlModel.Prox.Env K) (w : List K) (n : ℕ) (f : Fn (List K) K) : Prop :=
  ∀ σ x, 0 < σ → x.length = n →
    ∃ p1 p2, moreauPair E 1 w f σ x = .ok p1 p2 x ∧ p1.length = n ∧ p2.length = n

/-- The same on the level of the two proximal factories. -/
def OdlModel.C08.MP (E : OdlModel.Prox.Env K) (w : List K) (n : ℕ) (F G : OdlModel.Prox.Fn K) : Prop :=
  ∀ σ x, 0 < σ → x.length = n →
    moreauLhs σ (F.prox E w (.sc σ) x) (G.prox E w (.sc (1 / σ)) (x.map (· / σ))) = x ∧
    (F.prox E w (.sc σ) x).length = n ∧
    (G.prox E w (.sc (1 / σ)) (x.map (· / σ))).length = n

open OdlModel.C08 in
theorem C08.moreauAt_of_MP (E : OdlModel.Prox.Env K) (w : List K) (n : ℕ) (f g : Fn (List K) K)
    (F G : OdlModel.Prox.Fn K) (hg : f.conj (listOps w) = some g) (hF : f.toProx 1 = some F)
    (hG : g.toProx 1 = some G) (h : MP E w n F G) : MoreauAt E w n f := by
  intro σ x hσ hx
  obtain ⟨h1, h2, h3⟩ := h σ x hσ hx
  refine ⟨_, _, ?_, h2, h3⟩
  simp only [moreauPair, hg, hF, hG, h1]

theorem C08.moreauLhs_scale (σ c : K) (A B : List K) :
    moreauLhs σ A (B.map (c * ·)) = moreauLhs (σ * c) A B := by
  unfold moreauLhs
  induction A generalizing B with
  | nil => simp
  | cons a t ih =>
    cases B with
    | nil => simp
    | cons b u => simp only [List.map_cons, List.zipWith_cons_cons, ih, mul_assoc]

theorem C08.moreauLhs_scale2 (σ c d : K) (hc : c ≠ 0) (A B : List K) :
    moreauLhs σ (A.map (c * ·)) (B.map (d * ·)) = (moreauLhs (σ * d / c) A B).map (c * ·) := by
  unfold moreauLhs
  induction A generalizing B with
  | nil => simp
  | cons a t ih =>
    cases B with
    | nil => simp
    | cons b u =>
      simp only [List.map_cons, List.zipWith_cons_cons, ih]
      congr 1
      field_simp

theorem C08.moreauLhs_add (σ : K) (t A B : List K) :
    moreauLhs σ (List.zipWith (· + ·) t A) B = List.zipWith (· + ·) t (moreauLhs σ A B) := by
  unfold moreauLhs
  induction t generalizing A B with
  | nil => simp
  | cons a t ih =>
    cases A with
    | nil => simp
    | cons b u =>
      cases B with
      | nil => simp
      | cons c v => simp only [List.zipWith_cons_cons, ih, add_assoc]

theorem C08.zip_add_sub (x t : List K) (h : x.length = t.length) :
    List.zipWith (· + ·) t (List.zipWith (· - ·) x t) = x := by
  induction x generalizing t with
  | nil => cases t <;> simp_all
  | cons a x ih =>
    cases t with
    | nil => simp at h
    | cons b t =>
      simp only [List.zipWith_cons_cons, List.length_cons, Nat.add_right_cancel_iff] at h ⊢
      rw [ih t h]; congr 1; ring

theorem C08.zip_sub_div (σ : K) (hσ : σ ≠ 0) (x t : List K) :
    List.zipWith (· - ·) (x.map (· / σ)) (t.map ((1 / σ) * ·)) = (List.zipWith (· - ·) x t).map (· / σ) := by
  induction x generalizing t with
  | nil => simp
  | cons a x ih =>
    cases t with
    | nil => simp
    | cons b t =>
      simp only [List.map_cons, List.zipWith_cons_cons, ih]
      congr 1
      field_simp

theorem C08.vec_sub_data (a b : OdlModel.Prox.Vec K) :
    (a - b).data = List.zipWith (· - ·) a.data b.data := rfl

/-- `proximal_arg_scaling` for a non-zero scaling, on lists. -/
theorem C08.argScale_prox (E : OdlModel.Prox.Env K) (w : List K) (G : OdlModel.Prox.Fn K) (c τ : K)
    (hc : c ≠ 0) (y : List K) :
    (OdlModel.Prox.Fn.argScale G c).prox E w (.sc τ) y =
      (G.prox E w (.sc (τ * (c * c))) (y.map (c * ·))).map ((1 / c) * ·) := by
  simp only [OdlModel.Prox.Fn.prox, OdlModel.Prox.proxArgScaling0, OdlModel.Prox.proxArgScaling,
    C08.vec_smul_data]
  rcases lt_trichotomy c 0 with h | h | h
  · simp [h, C08.vec_smul_data]
  · exact absurd h hc
  · simp [h, not_lt.mpr h.le, C08.vec_smul_data]

open OdlModel.C08 in
/-- Step: `FunctionalLeftScalarMult` (`s > 0`): proximal `f.proximal(σ s)`, conjugate
`(s f*)(·/s)` with proximal through `proximal_arg_scaling`. -/
theorem C08.MP_lscal (E : OdlModel.Prox.Env K) (w : List K) (n : ℕ) (F G G' : OdlModel.Prox.Fn K)
    (s : K) (hs : 0 < s) (h : MP E w n F G)
    (hG' : ∀ τ y, G'.prox E w (.sc τ) y = G.prox E w (.sc (τ * s)) y) :
    MP E w n (.leftScale F s) (.argScale G' (1 / s)) := by
  intro σ x hσ hx
  have hsne : s ≠ 0 := ne_of_gt hs
  have hσne : σ ≠ 0 := ne_of_gt hσ
  obtain ⟨h1, h2, h3⟩ := h (σ * s) x (by positivity) hx
  rw [C08.argScale_prox E w G' (1 / s) (1 / σ) (by positivity), hG']
  have e1 : 1 / σ * (1 / s * (1 / s)) * s = 1 / (σ * s) := by field_simp
  have e2 : (x.map (· / σ)).map ((1 / s) * ·) = x.map (· / (σ * s)) := by
    rw [List.map_map]; apply List.map_congr_left; intro a _; simp only [Function.comp]; field_simp
  have e3 : (1 : K) / (1 / s) = s := by field_simp
  have e0 : (OdlModel.Prox.Fn.leftScale F s).prox E w (.sc σ) x = F.prox E w (.sc (σ * s)) x := by
    simp only [OdlModel.Prox.Fn.prox, OdlModel.Prox.Sig.scale]
  rw [e0, e1, e2, e3, C08.moreauLhs_scale]
  exact ⟨h1, h2, by rw [List.length_map]; exact h3⟩

open OdlModel.C08 in
/-- Step: `FunctionalRightScalarMult` (`s ≠ 0`): `proximal_arg_scaling(f.proximal, s)` against the
proximal of the coded conjugate `f*(·/s)`. -/
theorem C08.MP_rscal (E : OdlModel.Prox.Env K) (w : List K) (n : ℕ) (F G G' : OdlModel.Prox.Fn K)
    (s : K) (hs : s ≠ 0) (h : MP E w n F G)
    (hG' : ∀ τ y, G'.prox E w (.sc τ) y = (OdlModel.Prox.Fn.argScale G (1 / s)).prox E w (.sc τ) y) :
    MP E w n (.argScale F s) G' := by
  intro σ x hσ hx
  have hσne : σ ≠ 0 := ne_of_gt hσ
  have hss : 0 < s * s := mul_self_pos.mpr hs
  obtain ⟨h1, h2, h3⟩ := h (σ * (s * s)) (x.map (s * ·)) (by positivity) (by simpa using hx)
  rw [hG', C08.argScale_prox E w G (1 / s) (1 / σ) (by positivity), C08.argScale_prox E w F s σ hs]
  have e1 : 1 / σ * (1 / s * (1 / s)) = 1 / (σ * (s * s)) := by field_simp
  have e2 : (x.map (· / σ)).map ((1 / s) * ·) = (x.map (s * ·)).map (· / (σ * (s * s))) := by
    rw [List.map_map, List.map_map]; apply List.map_congr_left; intro a _
    simp only [Function.comp]; field_simp
  rw [e1, e2, C08.moreauLhs_scale2 σ (1 / s) (1 / (1 / s)) (by positivity)]
  have e3 : σ * (1 / (1 / s)) / (1 / s) = σ * (s * s) := by field_simp
  rw [e3, h1, List.map_map]
  refine ⟨?_, by rw [List.length_map]; exact h2, by rw [List.length_map]; exact h3⟩
  have : x = x.map id := by simp
  conv_rhs => rw [this]
  apply List.map_congr_left; intro a _; simp only [Function.comp, id]; field_simp

theorem C08.sqrt_one (E : OdlModel.Prox.Env K) (hE : OdlModel.C08.SqrtOK E) : E.sqrt 1 = 1 := by
  obtain ⟨h1, h2⟩ := hE 1 one_pos
  have : (E.sqrt 1 - 1) * (E.sqrt 1 + 1) = 0 := by ring_nf; rw [pow_two, h2]; ring
  rcases mul_eq_zero.mp this with h | h
  · linarith
  · linarith

open OdlModel.C08 in
/-- Step: `FunctionalTranslation`: `proximal_translation(f.proximal, t)` against
`proximal_quadratic_perturbation(f*.proximal, a = 0, u = t)` (the coded conjugate
`f* + <·, t>`). -/
theorem C08.MP_trans (E : OdlModel.Prox.Env K) (hE : SqrtOK E) (w : List K) (n : ℕ)
    (F G : OdlModel.Prox.Fn K) (t : List K) (ht : t.length = n) (h : MP E w n F G) :
    MP E w n (.trans F t) (.quad G 0 (some t)) := by
  intro σ x hσ hx
  have hσne : σ ≠ 0 := ne_of_gt hσ
  have hlen : (List.zipWith (· - ·) x t).length = n := by simp [hx, ht]
  obtain ⟨h1, h2, h3⟩ := h σ (List.zipWith (· - ·) x t) hσ hlen
  have e0 : (OdlModel.Prox.Fn.trans F t).prox E w (.sc σ) x
      = List.zipWith (· + ·) t (F.prox E w (.sc σ) (List.zipWith (· - ·) x t)) := by
    simp only [OdlModel.Prox.Fn.prox, OdlModel.Prox.proxTranslation]
    rfl
  have e1 : (OdlModel.Prox.Fn.quad G 0 (some t)).prox E w (.sc (1 / σ)) (x.map (· / σ))
      = G.prox E w (.sc (1 / σ)) ((List.zipWith (· - ·) x t).map (· / σ)) := by
    simp only [OdlModel.Prox.Fn.prox, OdlModel.Prox.proxQuadPerturb, OdlModel.Prox.proxArgScaling,
      OdlModel.Prox.Sig.scalar, Option.map_some, mul_zero, zero_add, C08.sqrt_one E hE, div_one,
      mul_one, one_mul, C08.vec_smul_data, C08.vec_sub_data, List.map_id']
    rw [← C08.zip_sub_div σ hσne]
  rw [e0, e1, C08.moreauLhs_add, h1, C08.zip_add_sub x t (by rw [hx, ht])]
  refine ⟨rfl, ?_, h3⟩
  simp [h2, ht]

/-- The merging constructor of `OperatorLeftScalarMult` keeps the `is_linear` flag. -/
theorem C08.isLinear_mkLscal (s : K) (g : Fn (List K) K) :
    (Fn.mkLscal s g).isLinear = g.isLinear := by
  cases g <;> rfl

theorem C08.isLinear_mkRscal (s : K) (g : Fn (List K) K) :
    (Fn.mkRscal g s).isLinear = g.isLinear := by
  cases g <;> rfl

theorem C08.mkRscal_mkLscal (s c : K) (g : Fn (List K) K) :
    Fn.mkRscal (Fn.mkLscal s g) c = .rscal (Fn.mkLscal s g) c := by
  cases g <;> rfl

/-- Proximal of the MERGED left scalar multiplication `s * g` (`g` possibly itself `s₀ * g₀`):
the factory of `g` at the step `τ s`. -/
theorem C08.toProx_mkLscal (E : OdlModel.Prox.Env K) (w : List K) (s : K) (hs : 0 < s)
    (g : Fn (List K) K) (G : OdlModel.Prox.Fn K) (hG : g.toProx 1 = some G) :
    ∃ G', (Fn.mkLscal s g).toProx 1 = some G' ∧
      ∀ τ y, G'.prox E w (.sc τ) y = G.prox E w (.sc (τ * s)) y := by
  have hsn : ¬ s < 0 := not_lt.mpr hs.le
  have hs0 : s ≠ 0 := ne_of_gt hs
  by_cases hl : ∃ s0 g0, g = .lscal s0 g0
  · obtain ⟨s0, g0, rfl⟩ := hl
    simp only [Fn.mkLscal]
    rcases lt_trichotomy s0 0 with h | h | h
    · simp [Fn.toProx, h] at hG
    · subst h
      simp only [Fn.toProx, lt_irrefl, if_false, if_true, Option.some.injEq, mul_zero] at hG ⊢
      subst hG
      exact ⟨_, rfl, fun τ y => by simp only [OdlModel.Prox.Fn.prox]⟩
    · have h1 : ¬ s0 < 0 := not_lt.mpr h.le
      have h2 : s0 ≠ 0 := ne_of_gt h
      have h3 : ¬ s * s0 < 0 := not_lt.mpr (by positivity)
      have h4 : s * s0 ≠ 0 := by positivity
      simp only [Fn.toProx, h1, h2, h3, h4, if_false] at hG ⊢
      cases hg0 : g0.toProx 1 with
      | none => simp [hg0] at hG
      | some G0 =>
        simp only [hg0, Option.map_some, Option.some.injEq] at hG ⊢
        subst hG
        refine ⟨_, rfl, fun τ y => ?_⟩
        simp only [OdlModel.Prox.Fn.prox, OdlModel.Prox.Sig.scale, mul_assoc]
  · have e : Fn.mkLscal s g = .lscal s g := by
      cases g <;> first | rfl | exact absurd ⟨_, _, rfl⟩ hl
    rw [e]
    simp only [Fn.toProx, hsn, hs0, if_false, hG, Option.map_some]
    exact ⟨_, rfl, fun τ y => by simp only [OdlModel.Prox.Fn.prox, OdlModel.Prox.Sig.scale]⟩

/-- Proximal of the MERGED right scalar multiplication `g(c ·)` (`g` possibly itself
`g₀(s₀ ·)`): the same operator as `proximal_arg_scaling(g.proximal, c)`. -/
theorem C08.toProx_mkRscal (E : OdlModel.Prox.Env K) (w : List K) (c : K) (hc : c ≠ 0)
    (g : Fn (List K) K) (G : OdlModel.Prox.Fn K) (hG : g.toProx 1 = some G) :
    ∃ G', (Fn.mkRscal g c).toProx 1 = some G' ∧
      ∀ τ y, G'.prox E w (.sc τ) y = (OdlModel.Prox.Fn.argScale G c).prox E w (.sc τ) y := by
  by_cases hl : ∃ s0 g0, g = .rscal g0 s0
  · obtain ⟨s0, g0, rfl⟩ := hl
    simp only [Fn.mkRscal, Fn.toProx] at hG ⊢
    cases hg0 : g0.toProx 1 with
    | none => simp [hg0] at hG
    | some G0 =>
      simp only [hg0, Option.map_some, Option.some.injEq] at hG ⊢
      subst hG
      refine ⟨_, rfl, fun τ y => ?_⟩
      by_cases h0 : s0 = 0
      · subst h0
        rw [C08.argScale_prox E w _ c τ hc]
        simp only [OdlModel.Prox.Fn.prox, OdlModel.Prox.proxArgScaling0, mul_zero, lt_irrefl,
          if_false, List.map_map]
        have : y = y.map id := by simp
        conv_lhs => rw [this]
        apply List.map_congr_left; intro a _; simp only [Function.comp, id]; field_simp
      · rw [C08.argScale_prox E w _ c τ hc, C08.argScale_prox E w _ s0 _ h0,
          C08.argScale_prox E w _ (c * s0) τ (mul_ne_zero hc h0)]
        simp only [List.map_map]
        have e1 : τ * (c * s0 * (c * s0)) = τ * (c * c) * (s0 * s0) := by ring
        have e2 : y.map (fun x => c * s0 * x) = y.map ((fun x => s0 * x) ∘ fun x => c * x) := by
          apply List.map_congr_left; intro a _; simp only [Function.comp]; ring
        rw [e1, e2]
        apply List.map_congr_left; intro a _; simp only [Function.comp]; field_simp
  · have e : Fn.mkRscal g c = .rscal g c := by
      cases g <;> first | rfl | exact absurd ⟨_, _, rfl⟩ hl
    rw [e]
    simp only [Fn.toProx, hG, Option.map_some]
    exact ⟨_, rfl, fun τ y => rfl⟩

/-- Helper (all lengths): re-association of entry-wise sums of three lists. -/
theorem C08.zip_add_assoc (t u P : List K) :
    List.zipWith (· + ·) (List.zipWith (· + ·) t u) P
      = List.zipWith (· + ·) u (List.zipWith (· + ·) t P) := by
  induction t generalizing u P with
  | nil => cases u <;> simp
  | cons a t ih =>
    cases u with
    | nil => simp
    | cons b u =>
      cases P with
      | nil => simp
      | cons c P => simp only [List.zipWith_cons_cons, ih]; congr 1; ring

/-- Helper (all lengths): `y − (t + u) = (y − u) − t` entry-wise. -/
theorem C08.zip_sub_assoc (y t u : List K) :
    List.zipWith (· - ·) y (List.zipWith (· + ·) t u)
      = List.zipWith (· - ·) (List.zipWith (· - ·) y u) t := by
  induction y generalizing t u with
  | nil => simp
  | cons a y ih =>
    cases t with
    | nil => cases u <;> simp
    | cons b t =>
      cases u with
      | nil => simp
      | cons c u => simp only [List.zipWith_cons_cons, ih]; congr 1; ring

/-- Helper: `proximal_translation` on lists. -/
theorem C08.trans_prox (E : OdlModel.Prox.Env K) (w : List K) (G : OdlModel.Prox.Fn K) (t : List K)
    (τ : K) (y : List K) :
    (OdlModel.Prox.Fn.trans G t).prox E w (.sc τ) y
      = List.zipWith (· + ·) t (G.prox E w (.sc τ) (List.zipWith (· - ·) y t)) := by
  simp only [OdlModel.Prox.Fn.prox, OdlModel.Prox.proxTranslation]
  rfl

/-- Proximal of the MERGED translation `g.translated(u)` (`g` possibly itself a translation):
the same operator as `proximal_translation(g.proximal, u)` (all lengths). -/
theorem C08.toProx_translated (E : OdlModel.Prox.Env K) (w u : List K)
    (g : Fn (List K) K) (G : OdlModel.Prox.Fn K) (hG : g.toProx 1 = some G) :
    ∃ G', (Fn.translated (listOps w) g u).toProx 1 = some G' ∧
      ∀ τ y, G'.prox E w (.sc τ) y = (OdlModel.Prox.Fn.trans G u).prox E w (.sc τ) y := by
  by_cases hl : ∃ g0 t0, g = .trans g0 t0
  · obtain ⟨g0, t0, rfl⟩ := hl
    simp only [Fn.translated, Fn.toProx] at hG ⊢
    cases hg0 : g0.toProx 1 with
    | none => simp [hg0] at hG
    | some G0 =>
      simp only [hg0, Option.map_some, Option.some.injEq] at hG ⊢
      subst hG
      refine ⟨_, rfl, fun τ y => ?_⟩
      rw [C08.trans_prox, C08.trans_prox, C08.trans_prox]
      show List.zipWith (· + ·) (List.zipWith (· + ·) t0 u) _ = _
      rw [C08.zip_add_assoc]
      exact congrArg (fun z => List.zipWith (· + ·) u (List.zipWith (· + ·) t0
        (OdlModel.Prox.Fn.prox E G0 w (.sc τ) z))) (C08.zip_sub_assoc y t0 u)
  · have e : Fn.translated (listOps w) g u = .trans g u := by
      cases g <;> first | rfl | exact absurd ⟨_, _, rfl⟩ hl
    rw [e]
    simp only [Fn.toProx, hG, Option.map_some]
    exact ⟨_, rfl, fun τ y => rfl⟩

/-- A translation is never flagged linear. -/
theorem C08.isLinear_translated (w u : List K) (g : Fn (List K) K) :
    (Fn.translated (listOps w) g u).isLinear = false := by
  cases g <;> rfl

/-- Helper (all lengths): `p1 + σ(u + p2) = σu + (p1 + σ p2)` entry-wise. -/
theorem C08.moreauLhs_add_right (σ : K) (u A B : List K) :
    moreauLhs σ A (List.zipWith (· + ·) u B)
      = List.zipWith (· + ·) (u.map (σ * ·)) (moreauLhs σ A B) := by
  unfold moreauLhs
  induction u generalizing A B with
  | nil => cases A <;> simp
  | cons a u ih =>
    cases A with
    | nil => simp
    | cons b A =>
      cases B with
      | nil => simp
      | cons c B => simp only [List.map_cons, List.zipWith_cons_cons, ih]; congr 1; ring

/-- Helper (all lengths): `(x − σu)/σ = x/σ − u` entry-wise. -/
theorem C08.zip_sub_div2 (σ : K) (hσ : σ ≠ 0) (x u : List K) :
    (List.zipWith (· - ·) x (u.map (σ * ·))).map (· / σ)
      = List.zipWith (· - ·) (x.map (· / σ)) u := by
  induction x generalizing u with
  | nil => simp
  | cons a x ih =>
    cases u with
    | nil => simp
    | cons b u =>
      simp only [List.map_cons, List.zipWith_cons_cons, ih]
      congr 1
      field_simp

open OdlModel.C08 in
/-- Step: `FunctionalQuadraticPerturb` with `quadratic_coeff = 0` (linear perturbation `<·, u>`):
`proximal_quadratic_perturbation(f.proximal, a = 0, u)` against the proximal of the coded
conjugate `f*.translated(u)`. -/
theorem C08.MP_qp0 (E : OdlModel.Prox.Env K) (hE : SqrtOK E) (w : List K) (n : ℕ)
    (F G G' : OdlModel.Prox.Fn K) (u : List K) (hu : u.length = n) (h : MP E w n F G)
    (hG' : ∀ τ y, G'.prox E w (.sc τ) y = (OdlModel.Prox.Fn.trans G u).prox E w (.sc τ) y) :
    MP E w n (.quad F 0 (some u)) G' := by
  intro σ x hσ hx
  have hσne : σ ≠ 0 := ne_of_gt hσ
  have hlen : (List.zipWith (· - ·) x (u.map (σ * ·))).length = n := by simp [hx, hu]
  obtain ⟨h1, h2, h3⟩ := h σ (List.zipWith (· - ·) x (u.map (σ * ·))) hσ hlen
  have e0 : (OdlModel.Prox.Fn.quad F 0 (some u)).prox E w (.sc σ) x
      = F.prox E w (.sc σ) (List.zipWith (· - ·) x (u.map (σ * ·))) := by
    simp only [OdlModel.Prox.Fn.prox, OdlModel.Prox.proxQuadPerturb, OdlModel.Prox.proxArgScaling,
      OdlModel.Prox.Sig.scalar, Option.map_some, mul_zero, zero_add, C08.sqrt_one E hE, div_one,
      mul_one, one_mul, C08.vec_smul_data, C08.vec_sub_data, List.map_id']
  have hB : G.prox E w (.sc (1 / σ)) (List.zipWith (· - ·) (x.map (· / σ)) u)
      = G.prox E w (.sc (1 / σ)) ((List.zipWith (· - ·) x (u.map (σ * ·))).map (· / σ)) := by
    rw [C08.zip_sub_div2 σ hσne]
  rw [hG', C08.trans_prox, e0, hB, C08.moreauLhs_add_right, h1,
    C08.zip_add_sub x _ (by simp [hx, hu])]
  refine ⟨rfl, h2, ?_⟩
  rw [List.length_zipWith, h3, hu, Nat.min_self]

/-- Convex expressions whose Moreau decomposition is a theorem about the executed definitions:
the six built-in classes with a hand-coded proximal (point indicators `IndicatorZero` only with
a non-zero constant, so that no conjugate is flagged linear) closed under
`FunctionalScalarSum`, `FunctionalLeftScalarMult` (`s > 0`), `FunctionalRightScalarMult`
(`s ≠ 0`), `FunctionalTranslation`, `FunctionalQuadraticPerturb` with quadratic coefficient 0 and a
linear term, and `BregmanDistance` (vectors of the space's length `n`). -/
inductive OdlModel.C08.MReg (n : ℕ) : Fn (List K) K → Prop
  | l1 : MReg n (.coord .l1)
  | indLinf : MReg n (.coord .indLinf)
  | huber (γ : K) (h : 0 < γ) : MReg n (.coord (.huber γ))
  | l2sq : MReg n .l2sq
  | const (c : K) : MReg n (.const c)
  | indZero (c : K) (h : c ≠ 0) : MReg n (.indZero c)
  | ssum (f : Fn (List K) K) (c : K) (h : MReg n f) : MReg n (.ssum f c)
  | lscal (s : K) (f : Fn (List K) K) (hs : 0 < s) (h : MReg n f) : MReg n (.lscal s f)
  | rscal (f : Fn (List K) K) (s : K) (hs : s ≠ 0) (h : MReg n f) : MReg n (.rscal f s)
  | trans (f : Fn (List K) K) (t : List K) (ht : t.length = n) (h : MReg n f) : MReg n (.trans f t)
  | qp (f : Fn (List K) K) (u : List K) (c : K) (hu : u.length = n) (h : MReg n f) :
      MReg n (.qp f 0 true u c)
  | breg (f : Fn (List K) K) (p q : List K) (hq : q.length = n) (h : MReg n f) :
      MReg n (.breg f p q)

theorem C08.ok_inj {p1 p2 l q1 q2 m : List K}
    (h : MoreauOut.ok p1 p2 l = MoreauOut.ok q1 q2 m) : p1 = q1 ∧ p2 = q2 ∧ l = m := by
  injection h with a b c; exact ⟨a, b, c⟩

open OdlModel.C08 in
/-- Leaves: the executed pair satisfies `MP` (lengths included). -/
theorem C08.MP_of_exec (E : OdlModel.Prox.Env K) (w : List K) (n : ℕ) (f g : Fn (List K) K)
    (F G : OdlModel.Prox.Fn K) (hg : f.conj (listOps w) = some g) (hF : f.toProx 1 = some F)
    (hG : g.toProx 1 = some G)
    (hl : ∀ σ x, (F.prox E w (.sc σ) x).length = x.length ∧ (G.prox E w (.sc σ) x).length = x.length)
    (h : ∀ σ x, 0 < σ → ∃ p1 p2, moreauPair E 1 w f σ x = .ok p1 p2 x) : MP E w n F G := by
  intro σ x hσ hx
  obtain ⟨p1, p2, hp⟩ := h σ x hσ
  simp only [moreauPair, hg, hF, hG] at hp
  obtain ⟨-, -, h3⟩ := C08.ok_inj hp
  refine ⟨h3, by rw [(hl σ x).1, hx], by rw [(hl (1 / σ) _).2, List.length_map, hx]⟩

theorem C08.idxMap_length (x : List K) (φ : ℕ → K → K) :
    (OdlModel.Prox.idxMap x φ).length = x.length := by
  simp [OdlModel.Prox.idxMap]

open OdlModel.C08 in
/-- **Moreau decomposition for derived trees, executed definitions** (all lengths `n`, all
weights, all `x`, all `σ > 0`, all depths): for every expression of `MReg` — built-ins with a
hand-coded proximal under scalar sums, positive left scalings, non-zero argument scalings,
translations, linear perturbations and Bregman distances, nested in any order — the coded `convex_conj` exists, is not flagged linear, both
`proximal` properties return a factory, and `f.proximal(σ)(x) + σ·f.convex_conj.proximal(1/σ)(x/σ) = x`
with the proximals as `proximal_operators.py` computes them (including the merging of nested
scalings by the constructors and the `is_linear` dispatch of `Functional.__mul__`).
Hypotheses: exact `np.sqrt`, unfudged radius of `proximal_convex_conj_l1`. -/
theorem C08.moreau_exec_tree_struct (E : OdlModel.Prox.Env K) (hE : SqrtOK E) (w : List K) (n : ℕ)
    (t : Fn (List K) K) (ht : MReg n t) :
    ∃ g F G, t.conj (listOps w) = some g ∧ g.isLinear = false ∧ t.toProx 1 = some F ∧
      g.toProx 1 = some G ∧ MP E w n F G := by
  induction ht with
  | l1 =>
    refine ⟨.coord .indLinf, .l1 1 none, .ccl1 1 none, rfl, rfl, rfl, rfl, ?_⟩
    exact C08.MP_of_exec E w n _ _ _ _ rfl rfl rfl
      (fun σ x => by simp [OdlModel.Prox.Fn.prox, C08.idxMap_length])
      (fun σ x hσ => C08.moreau_exec_l1 E w x σ hσ)
  | indLinf =>
    refine ⟨.coord .l1, .ccl1 1 none, .l1 1 none, rfl, rfl, rfl, rfl, ?_⟩
    exact C08.MP_of_exec E w n _ _ _ _ rfl rfl rfl
      (fun σ x => by simp [OdlModel.Prox.Fn.prox, C08.idxMap_length])
      (fun σ x hσ => C08.moreau_exec_linf E w x σ hσ)
  | huber γ h =>
    have n1 : ¬ (γ / (1 + 1) < 0) := not_lt.mpr (by positivity)
    refine ⟨.qp (.coord .indLinf) (γ / two) false (listOps w).zero 0, .huber γ,
      .quad (.ccl1 1 none) (γ / two) none, rfl, rfl, rfl, ?_, ?_⟩
    · simp [Fn.toProx, two, n1]
    refine C08.MP_of_exec E w n _ _ _ _ rfl rfl (by simp [Fn.toProx, two, n1])
      (fun σ x => ?_) (fun σ x hσ => C08.moreau_exec_huber E hE w x σ γ hσ h)
    simp [OdlModel.Prox.Fn.prox, OdlModel.Prox.proxQuadPerturb, OdlModel.Prox.proxArgScaling,
      C08.vec_smul_data, C08.idxMap_length]
  | l2sq =>
    have h4 : (1 : K) / ((1 + 1) * (1 + 1)) = 1 / 4 := by norm_num
    have n1 : ¬ ((1 : K) / ((1 + 1) * (1 + 1)) < 0) := by rw [h4]; norm_num
    have n2 : ¬ ((1 : K) / ((1 + 1) * (1 + 1)) = 0) := by rw [h4]; norm_num
    refine ⟨.lscal (1 / (two * two)) .l2sq, .l2sq 1 none,
      .leftScale (.l2sq 1 none) (1 / (two * two)), rfl, rfl, rfl, ?_, ?_⟩
    · simp only [Fn.toProx, two, n1, n2, if_false, Option.map_some]
    refine C08.MP_of_exec E w n _ _ _ _ rfl rfl
      (by simp only [Fn.toProx, two, n1, n2, if_false, Option.map_some])
      (fun σ x => ?_) (fun σ x hσ => C08.moreau_exec_l2sq E w x σ hσ)
    simp [OdlModel.Prox.Fn.prox, OdlModel.Prox.Sig.scale, C08.idxMap_length]
  | const c =>
    refine ⟨.indZero (-c), .const, .izero, rfl, rfl, rfl, rfl, ?_⟩
    exact C08.MP_of_exec E w n _ _ _ _ rfl rfl rfl
      (fun σ x => by simp [OdlModel.Prox.Fn.prox])
      (fun σ x hσ => C08.moreau_exec_const E w x σ c hσ)
  | indZero c h =>
    refine ⟨.const (-c), .izero, .const, rfl, ?_, rfl, rfl, ?_⟩
    · simp [Fn.isLinear, h]
    exact C08.MP_of_exec E w n _ _ _ _ rfl rfl rfl
      (fun σ x => by simp [OdlModel.Prox.Fn.prox])
      (fun σ x hσ => C08.moreau_exec_indzero E w x σ c hσ)
  | ssum f c h ih =>
    obtain ⟨g, F, G, hg, hlin, hF, hG, hMP⟩ := ih
    refine ⟨.ssum g (-c), F, G, by simp [Fn.conj, hg], by simp [Fn.isLinear, hlin],
      by simp [Fn.toProx, hF], by simp [Fn.toProx, hG], hMP⟩
  | lscal s f hs h ih =>
    obtain ⟨g, F, G, hg, hlin, hF, hG, hMP⟩ := ih
    obtain ⟨G', hG', hsem⟩ := C08.toProx_mkLscal E w s hs g G hG
    have hsn : ¬ s ≤ 0 := not_le.mpr hs
    have hsn' : ¬ s < 0 := not_lt.mpr hs.le
    have hs0 : s ≠ 0 := ne_of_gt hs
    refine ⟨.rscal (Fn.mkLscal s g) (1 / s), .leftScale F s, .argScale G' (1 / s), ?_, ?_, ?_, ?_,
      C08.MP_lscal E w n F G G' s hs hMP hsem⟩
    · simp only [Fn.conj, hsn, if_false, hg, Fn.mulScalar, C08.isLinear_mkLscal, hlin,
        C08.mkRscal_mkLscal]
      simp
    · simp [Fn.isLinear, C08.isLinear_mkLscal, hlin]
    · simp [Fn.toProx, hsn', hs0, hF]
    · simp [Fn.toProx, hG']
  | rscal f s hs h ih =>
    obtain ⟨g, F, G, hg, hlin, hF, hG, hMP⟩ := ih
    obtain ⟨G', hG', hsem⟩ := C08.toProx_mkRscal E w (1 / s) (by positivity) g G hG
    refine ⟨Fn.mkRscal g (1 / s), .argScale F s, G', ?_, ?_, ?_, hG',
      C08.MP_rscal E w n F G G' s hs hMP hsem⟩
    · simp [Fn.conj, hg, Fn.mulScalar, hlin]
    · rw [C08.isLinear_mkRscal]; exact hlin
    · simp [Fn.toProx, hF]
  | trans f t ht h ih =>
    obtain ⟨g, F, G, hg, hlin, hF, hG, hMP⟩ := ih
    refine ⟨.qp g 0 true t 0, .trans F t, .quad G 0 (some t), ?_, ?_, ?_, ?_,
      C08.MP_trans E hE w n F G t ht hMP⟩
    · simp [Fn.conj, hg]
    · simp [Fn.isLinear, hlin]
    · simp [Fn.toProx, hF]
    · simp [Fn.toProx, hG]
  | qp f u c hu h ih =>
    obtain ⟨g, F, G, hg, hlin, hF, hG, hMP⟩ := ih
    obtain ⟨G', hG', hsem⟩ := C08.toProx_translated E w u g G hG
    have hMP' := C08.MP_qp0 E hE w n F G G' u hu hMP hsem
    by_cases hc : c = 0
    · refine ⟨Fn.translated (listOps w) g u, .quad F 0 (some u), G', ?_,
        C08.isLinear_translated w u g, ?_, hG', hMP'⟩
      · simp [Fn.conj, hg, hc]
      · simp [Fn.toProx, hF]
    · refine ⟨.ssum (Fn.translated (listOps w) g u) (-c), .quad F 0 (some u), G', ?_, ?_, ?_, ?_,
        hMP'⟩
      · simp [Fn.conj, hg, hc]
      · simp [Fn.isLinear, C08.isLinear_translated]
      · simp [Fn.toProx, hF]
      · simp [Fn.toProx, hG']
  | breg f p q hq h ih =>
    obtain ⟨g, F, G, hg, hlin, hF, hG, hMP⟩ := ih
    have hu' : (listOps w).smul (-1) q = q.map ((-1) * ·) := rfl
    obtain ⟨G', hG', hsem⟩ := C08.toProx_translated E w (q.map ((-1) * ·)) g G hG
    have hMP' := C08.MP_qp0 E hE w n F G G' (q.map ((-1) * ·)) (by simp [hq]) hMP hsem
    by_cases hc : -(f.value (listOps w) p) + (listOps w).inner q p = 0
    · refine ⟨Fn.translated (listOps w) g (q.map ((-1) * ·)), .quad F 0 (some (q.map ((-1) * ·))),
        G', ?_, C08.isLinear_translated w _ g, ?_, hG', hMP'⟩
      · simp [Fn.conj, hg, hc, hu']
      · simp [Fn.toProx, hF]
    · refine ⟨.ssum (Fn.translated (listOps w) g (q.map ((-1) * ·)))
          (-(-(f.value (listOps w) p) + (listOps w).inner q p)),
        .quad F 0 (some (q.map ((-1) * ·))), G', ?_, ?_, ?_, ?_, hMP'⟩
      · simp [Fn.conj, hg, hc, hu']
      · simp [Fn.isLinear, C08.isLinear_translated]
      · simp [Fn.toProx, hF]
      · simp only [Fn.toProx, hG']

open OdlModel.C08 in
/-- **Moreau decomposition for derived trees — what the driver's `moreau` op answers**: for every
expression of `MReg n`, every `σ > 0` and every `x` of length `n` the answer is
`ok p1 p2 lhs` with `lhs = p1 + σ·p2 = x` (never `noconj` / `noprox1` / `noprox2`).  The
correspondence stream `moreau-model` compares `p1`, `p2` with `f.proximal(σ)(x)` and
`f.convex_conj.proximal(1/σ)(x/σ)` of the live objects. -/
theorem C08.moreau_exec_tree (E : OdlModel.Prox.Env K) (hE : SqrtOK E) (w : List K) (n : ℕ)
    (t : Fn (List K) K) (ht : MReg n t) : MoreauAt E w n t := by
  obtain ⟨g, F, G, hg, -, hF, hG, hMP⟩ := C08.moreau_exec_tree_struct E hE w n t ht
  exact C08.moreauAt_of_MP E w n t g F G hg hF hG hMP
end moreau_exec

section moreau_exec_examples
open OdlModel.C08

/-- `np.sqrt` read as the real square root. -/
noncomputable def OdlModel.C08.realEnv : OdlModel.Prox.Env ℝ := { sqrt := Real.sqrt, eps := 0 }

/-- The real square root satisfies the hypothesis `SqrtOK` of the Moreau theorems. -/
theorem C08.realEnv_sqrtOK : SqrtOK realEnv :=
  fun _ ht => ⟨Real.sqrt_pos.mpr ht, Real.mul_self_sqrt ht.le⟩

/-- Non-vacuity of `moreau_huber_coded`: `γ = 3`, `σ = 1`, `c = 1/2` (`c²(2σ'a+1) = 4/4`). -/
example : OdlModel.Prox.huberCode (3 : ℝ) 1 8
    + 1 * (1 / 2 * (1 / (1 / 2) * OdlModel.Prox.ccL1Code 1 0 (1 / 2 * (1 / 2 * (8 / 1))))) = 8 :=
  C08.moreau_huber_coded 3 1 8 (1 / 2) (by norm_num) (by norm_num) (by norm_num) (by norm_num)

/-- Non-vacuity of `moreau_exec_huber`: Huber(1/2) on a weighted `R^2`, `σ = 2`. -/
example : ∃ p1 p2, moreauPair realEnv 1 [1 / 4, 1 / 4] (.coord (.huber (1 / 2))) 2 [3, -1]
    = .ok p1 p2 [3, -1] :=
  C08.moreau_exec_huber realEnv C08.realEnv_sqrtOK _ _ _ _ (by norm_num) (by norm_num)

/-- Non-vacuity of `moreau_exec_tree`: `2·Huber_{1/2}(-3(· − t)) + 1` on a weighted `R^2`. -/
example : ∃ p1 p2, moreauPair realEnv 1 [1 / 4, 1 / 4]
      (.ssum (.lscal 2 (.rscal (.trans (.coord (.huber (1 / 2))) [1, -1]) (-3))) 1) 3 [5, -7]
    = .ok p1 p2 [5, -7] ∧ p1.length = 2 ∧ p2.length = 2 :=
  C08.moreau_exec_tree realEnv C08.realEnv_sqrtOK [1 / 4, 1 / 4] 2 _
    (.ssum _ _ (.lscal _ _ (by norm_num) (.rscal _ _ (by norm_num)
      (.trans _ _ rfl (.huber _ (by norm_num)))))) 3 [5, -7] (by norm_num) rfl

/-- The other leaves at a concrete point. -/
example : (∃ p1 p2, moreauPair realEnv 1 [1, 2] (.coord .indLinf) (1 / 2) [3, -1 / 4]
      = .ok p1 p2 [3, -1 / 4]) ∧
    (∃ p1 p2, moreauPair realEnv 1 [1, 2] .l2sq (1 / 2) [3, -1 / 4] = .ok p1 p2 [3, -1 / 4]) ∧
    (∃ p1 p2, moreauPair realEnv 1 [1, 2] (.indZero 2) (1 / 2) [3, -1 / 4]
      = .ok p1 p2 [3, -1 / 4]) :=
  ⟨C08.moreau_exec_linf _ _ _ _ (by norm_num), C08.moreau_exec_l2sq _ _ _ _ (by norm_num),
   C08.moreau_exec_indzero _ _ _ _ _ (by norm_num)⟩
/-- Non-vacuity of the `qp` / `breg` nodes of `moreau_exec_tree`: the Bregman distance of `‖·‖²`
(point `(1,2)`, subgradient `(2,4)`) plus a linear perturbation and a constant. -/
example : ∃ p1 p2, moreauPair realEnv 1 [1, 1]
      (.qp (.breg .l2sq [1, 2] [2, 4]) 0 true [1, -1] 3) 2 [5, -7]
    = .ok p1 p2 [5, -7] ∧ p1.length = 2 ∧ p2.length = 2 :=
  C08.moreau_exec_tree realEnv C08.realEnv_sqrtOK [1, 1] 2 _
    (.qp _ _ _ rfl (.breg _ _ _ rfl .l2sq)) 2 [5, -7] (by norm_num) rfl
end moreau_exec_examples

section moreau_extra
variable {K : Type} [Field K] [LinearOrder K] [IsStrictOrderedRing K]

/-- Helper: `ProximalConvexConjL1._call` with radius `lam > 0` is the clip to `[-lam, lam]`. -/
theorem C08.ccL1_clip (lam y : K) (hl : 0 < lam) :
    OdlModel.Prox.ccL1Code lam 0 y = if lam < y then lam else if y < -lam then -lam else y := by
  have hlne : lam ≠ 0 := ne_of_gt hl
  unfold OdlModel.Prox.ccL1Code OdlModel.Prox.maxK OdlModel.Prox.absK
  simp only [sub_zero]
  by_cases h0 : y < 0
  · simp only [h0, if_true]
    have n1 : ¬ (lam < y) := by linarith
    by_cases h1 : -y ≤ lam
    · have n2 : ¬ (y < -lam) := by linarith
      simp only [h1, n1, n2, if_true, if_false]; field_simp
    · have n2 : (y < -lam) := by linarith
      have hy : -y ≠ 0 := by linarith
      have hy' : y ≠ 0 := by linarith
      simp only [h1, n1, n2, if_true, if_false]; field_simp
  · simp only [h0, if_false]
    have n2 : ¬ (y < -lam) := by linarith
    by_cases h1 : y ≤ lam
    · have n1 : ¬ (lam < y) := by linarith
      simp only [h1, n1, n2, if_true, if_false]; field_simp
    · have n1 : (lam < y) := by linarith
      have hy : y ≠ 0 := by linarith
      simp only [h1, n1, n2, if_true, if_false]; field_simp

/-- **Moreau decomposition of the L1 pair WITH the code's fudged radius** (entry-wise): for
`lam = float(1·(1 − eps)) ∈ (0, 1]` the two hand-coded proximals miss the identity by at most
`σ·(1 − lam)` (`= σ·10⁻¹⁴` in the code) — the exact statement behind the hypothesis
`lamF = 1` of the `moreau_exec_*` theorems. -/
theorem C08.moreau_l1_fudged (σ x lam : K) (hσ : 0 < σ) (hl : 0 < lam) (hl1 : lam ≤ 1) :
    |OdlModel.Prox.softCode σ x 0 + σ * OdlModel.Prox.ccL1Code lam 0 (x / σ) - x|
      ≤ σ * (1 - lam) := by
  have h := C08.moreau_l1_coded σ x hσ
  rw [C08.ccL1_one] at h
  rw [C08.ccL1_clip lam _ hl]
  have e : OdlModel.Prox.softCode σ x 0
      = x - σ * (if 1 < x / σ then (1:K) else if x / σ < -1 then -1 else x / σ) := by linarith
  rw [e]
  generalize x / σ = y
  have key : ∀ a b : K, |a - b| ≤ 1 - lam → |x - σ * b + σ * a - x| ≤ σ * (1 - lam) := by
    intro a b hab
    have : x - σ * b + σ * a - x = σ * (a - b) := by ring
    rw [this, abs_mul, abs_of_pos hσ]
    exact mul_le_mul_of_nonneg_left hab hσ.le
  apply key
  rw [abs_le]
  split_ifs <;> constructor <;> linarith


/-- Helper (equal lengths): `p + σ(x/σ − p/σ) = x` entry-wise. -/
theorem C08.moreauLhs_conj (σ : K) (hσ : σ ≠ 0) (x p : List K) (h : p.length = x.length) :
    moreauLhs σ p (List.zipWith (· - ·) (x.map (· / σ)) (p.map ((1 / σ) * ·))) = x := by
  unfold moreauLhs
  induction x generalizing p with
  | nil => cases p <;> simp_all
  | cons a x ih =>
    cases p with
    | nil => simp at h
    | cons b p =>
      simp only [List.length_cons, Nat.add_right_cancel_iff] at h
      simp only [List.map_cons, List.zipWith_cons_cons, ih p h]
      congr 1
      field_simp
      ring

/-- **Moreau decomposition where the code falls back to `FunctionalDefaultConvexConjugate`**
(e.g. `FunctionalQuadraticPerturb` with quadratic coefficient `a ≠ 0`, `FunctionalSum`): the
conjugate's proximal IS `proximal_convex_conj(f.proximal)`, so the executed pair adds up to `x`
BY CONSTRUCTION (all lengths; only `f.proximal(σ)(x)` must have the length of `x`).
The theorem adds: the executed `Fn.conj` / `Fn.toProx` / `proxConvexConj` chain computes exactly
that, with the step `1/(1/σ)` and the argument `(1/(1/σ))·(x/σ)`. -/
theorem C08.moreau_exec_default_conj (E : OdlModel.Prox.Env K) (w : List K) (f : Fn (List K) K)
    (F : OdlModel.Prox.Fn K) (hconj : f.conj (listOps w) = some (.dconj f))
    (hF : f.toProx 1 = some F) (σ : K) (x : List K) (hσ : 0 < σ)
    (hl : (F.prox E w (.sc σ) x).length = x.length) :
    ∃ p1 p2, moreauPair E 1 w f σ x = .ok p1 p2 x := by
  have hne : σ ≠ 0 := ne_of_gt hσ
  have e1 : (1 : K) / (1 / σ) = σ := by field_simp
  have e2 : (x.map (· / σ)).map (σ * ·) = x := by
    rw [List.map_map]
    have : x = x.map id := by simp
    conv_rhs => rw [this]
    apply List.map_congr_left; intro a _; simp only [Function.comp, id]; field_simp
  have key : moreauLhs σ (F.prox E w (.sc σ) x)
      ((OdlModel.Prox.Fn.conj F).prox E w (.sc (1 / σ)) (x.map (· / σ))) = x := by
    simp only [OdlModel.Prox.Fn.prox, OdlModel.Prox.proxConvexConj, OdlModel.Prox.Sig.scalar,
      C08.vec_sub_data, C08.vec_smul_data, e1, e2]
    exact C08.moreauLhs_conj σ hne x _ hl
  simp only [moreauPair, hconj, hF, Fn.toProx, Option.map_some]
  rw [key]
  exact ⟨_, _, rfl⟩

end moreau_extra

section moreau_extra_examples
open OdlModel.C08

/-- Non-vacuity of `moreau_l1_fudged`: the code's radius `1 − 10⁻¹⁴`. -/
example : |OdlModel.Prox.softCode (2 : ℝ) 5 0
    + 2 * OdlModel.Prox.ccL1Code (1 - 1 / 10 ^ 14) 0 (5 / 2) - 5| ≤ 2 * (1 - (1 - 1 / 10 ^ 14)) :=
  C08.moreau_l1_fudged 2 5 _ (by norm_num) (by norm_num) (by norm_num)

/-- Non-vacuity of `moreau_exec_default_conj`: `‖x‖₁ + 2‖x‖² + <x, u>` (quadratic coefficient
`2 ≠ 0`, conjugate = default wrapper). -/
example : ∃ p1 p2, moreauPair realEnv 1 [1, 1]
      (.qp (.coord .l1) 2 true [1, -1] 0) (1 / 2) [3, -4] = .ok p1 p2 [3, -4] := by
  refine C08.moreau_exec_default_conj realEnv [1, 1] _ (.quad (.l1 1 none) 2 (some [1, -1])) ?_ ?_
    (1 / 2) [3, -4] (by norm_num) ?_
  · simp [Fn.conj]
  · simp [Fn.toProx]
  · simp [OdlModel.Prox.Fn.prox, OdlModel.Prox.proxQuadPerturb, OdlModel.Prox.proxArgScaling,
      C08.vec_smul_data, C08.vec_sub_data, C08.idxMap_length]
end moreau_extra_examples

/-! ### ROUND 5 — SeparableSum: conjugate of a separable sum, Fenchel–Young through it

`sepConj` (Model/FunctionalsSep.lean) is `SeparableSum.convex_conj` over C09's `SepPart`s; the
driver op `sepfy` prints `sepValue ps`, `sepValue (sepConj ps)` and `sepInner` and the stream
`sepfy` of tools/harness/c08.py compares them (and the class skeletons of the conjugate parts)
with live `SeparableSum` objects on the product spaces. -/
open OdlModel.FunctionalsLeaves

section sep
variable {K : Type} [Field K] [LinearOrder K] [IsStrictOrderedRing K]

/-- Fenchel–Young for ONE summand with its coded conjugate, where both are finite. -/
def OdlModel.C08.PartFY (p : SepPart K) : Prop :=
  p.x.length = p.d.length ∧
  ∀ g, p.f.conj (listOps p.w) = some g → p.f.dom (listOps p.w) p.x = true →
    g.dom (listOps p.w) p.d = true →
    innerW p.w p.x p.d ≤ p.f.value (listOps p.w) p.x + g.value (listOps p.w) p.d

open OdlModel.C08 in
/-- **Fenchel–Young through `SeparableSum.convex_conj`, executed definitions** (any number of
summands, any part spaces): if every summand satisfies Fenchel–Young with its coded conjugate,
then so does the separable sum with the coded `SeparableSum.convex_conj` (`sepConj`: the separable
sum of the summands' conjugates) in the product space's inner product (`sepInner`: the sum of the
parts' weighted inner products of the flat arguments) — exactly the three numbers the driver
prints for `sepfy` and the stream `sepfy` compares with the live objects. -/
theorem C08.sep_conj_sound (ps qs : List (SepPart K)) (h : sepConj ps = some qs)
    (hp : ∀ p ∈ ps, PartFY p) (hd : sepDom ps = true) (hdc : sepDom qs = true) :
    sepInner ps (sepArg ps) (sepDir ps) ≤ sepValue ps + sepValue qs := by
  induction ps generalizing qs with
  | nil =>
    simp only [sepConj, Option.some.injEq] at h
    subst h
    simp [sepInner, sepValue]
  | cons p r ih =>
    simp only [sepConj] at h
    cases hg : p.f.conj (listOps p.w) with
    | none => simp [hg] at h
    | some g =>
      cases hr : sepConj r with
      | none => simp [hg, hr] at h
      | some r' =>
        simp only [hg, hr, Option.some.injEq] at h
        subst h
        simp only [sepDom, Bool.and_eq_true] at hd hdc
        obtain ⟨hlen, hfy⟩ := hp p (by simp)
        have h1 := hfy g hg hd.1 hdc.1
        have h2 := ih r' hr (fun q hq => hp q (by simp [hq])) hd.2 hdc.2
        simp only [sepInner, sepArg, sepDir, sepValue, List.take_left', hlen, List.drop_left']
        linarith

/-- Helper: `⟨y, y⟩_w ≥ 0` on weighted lists (weights ≥ 0). -/
theorem C08.innerW_self_nonneg (w y : List K) (hw : ∀ a ∈ w, 0 ≤ a) : 0 ≤ innerW w y y := by
  induction w generalizing y with
  | nil => simp [innerW]
  | cons a ws ih =>
    cases y with
    | nil => simp [innerW]
    | cons b ys =>
      have ha : 0 ≤ a := hw a (by simp)
      have := ih ys (fun c hc => hw c (by simp [hc]))
      simp only [innerW]
      nlinarith [mul_nonneg ha (mul_self_nonneg b)]

/-- Helper: `⟨x, y⟩_w ≤ ⟨x, x⟩_w + ¼⟨y, y⟩_w` on weighted lists (all lengths, weights ≥ 0). -/
theorem C08.innerW_l2sq (w x y : List K) (hw : ∀ a ∈ w, 0 ≤ a) :
    innerW w x y ≤ innerW w x x + 1 / ((1 + 1) * (1 + 1)) * innerW w y y := by
  have hq : (0 : K) ≤ 1 / ((1 + 1) * (1 + 1)) := by positivity
  induction w generalizing x y with
  | nil => simp [innerW]
  | cons a ws ih =>
    cases x with
    | nil =>
      have := C08.innerW_self_nonneg (a :: ws) y hw
      simp only [innerW, zero_add]
      exact mul_nonneg hq this
    | cons b xs =>
      cases y with
      | nil =>
        have := C08.innerW_self_nonneg (a :: ws) (b :: xs) hw
        simp only [innerW, mul_zero, add_zero] at this ⊢
        exact this
      | cons c ys =>
        have ha : 0 ≤ a := hw a (by simp)
        have := ih xs ys (fun c hc => hw c (by simp [hc]))
        simp only [innerW]
        nlinarith [mul_nonneg ha (sq_nonneg (b - c / 2))]

open OdlModel.C08 in
/-- Summands for which Fenchel–Young with the coded conjugate is a theorem on every weighted list
space: `L1Norm`, `Huber(γ > 0)`, `L2NormSquared` (weights ≥ 0, equal lengths of the two arguments). -/
def OdlModel.C08.SepLeaf (p : SepPart K) : Prop :=
  (∀ a ∈ p.w, 0 ≤ a) ∧ p.x.length = p.d.length ∧
    (p.f = .coord .l1 ∨ (∃ γ, 0 < γ ∧ p.f = .coord (.huber γ)) ∨ p.f = .l2sq)

open OdlModel.C08 in
/-- The built-in summands satisfy `PartFY` (from `l1_linf_conj`, `huber_conj`, `innerW_l2sq`) and
their coded conjugate exists. -/
theorem C08.partFY_of_leaf (p : SepPart K) (h : SepLeaf p) :
    PartFY p ∧ ∃ g, p.f.conj (listOps p.w) = some g := by
  obtain ⟨hw, hl, hf⟩ := h
  obtain ⟨w, f, x, d⟩ := p
  simp only at hw hl hf
  rcases hf with rfl | ⟨γ, hγ, rfl⟩ | rfl
  · refine ⟨⟨hl, ?_⟩, _, rfl⟩
    intro g hg _ hdg
    simp only [Fn.conj, Option.some.injEq] at hg
    subst hg
    have := C08.l1_linf_conj w x d hw (by simpa [Fn.dom, listOps] using hdg)
    simpa [Fn.value, listOps] using this
  · obtain ⟨t', ht', hfy⟩ := C08.huber_conj γ hγ w x d hw
    refine ⟨⟨hl, ?_⟩, t', ht'⟩
    intro g hg _ hdg
    rw [ht'] at hg
    simp only [Option.some.injEq] at hg
    subst hg
    simpa [listOps] using hfy hdg
  · refine ⟨⟨hl, ?_⟩, _, rfl⟩
    intro g hg _ _
    simp only [Fn.conj, Option.some.injEq] at hg
    subst hg
    have := C08.innerW_l2sq w x d hw
    simpa [Fn.value, listOps, two] using this

open OdlModel.C08 in
/-- **Fenchel–Young through `SeparableSum.convex_conj` for sums of built-ins, unconditional**
(any number of summands, any lengths, any non-negative weights per part): for separable sums of
`L1Norm`, `Huber(γ>0)` and `L2NormSquared` the coded conjugate exists, and wherever it is finite,
`<x, y> ≤ f(x) + f*(y)` for the executed `sepValue` / `sepConj` / `sepInner`. -/
theorem C08.sep_conj_sound_leaves (ps : List (SepPart K)) (hp : ∀ p ∈ ps, SepLeaf p) :
    ∃ qs, sepConj ps = some qs ∧
      (sepDom qs = true → sepInner ps (sepArg ps) (sepDir ps) ≤ sepValue ps + sepValue qs) := by
  have hex : ∃ qs, sepConj ps = some qs := by
    induction ps with
    | nil => exact ⟨[], rfl⟩
    | cons p r ih =>
      obtain ⟨r', hr⟩ := ih (fun q hq => hp q (by simp [hq]))
      obtain ⟨-, g, hg⟩ := C08.partFY_of_leaf p (hp p (by simp))
      exact ⟨⟨p.w, g, p.d, p.x⟩ :: r', by simp only [sepConj, hg, hr]⟩
  obtain ⟨qs, hqs⟩ := hex
  refine ⟨qs, hqs, fun hdc => ?_⟩
  have hd : sepDom ps = true := by
    clear hqs hdc
    induction ps with
    | nil => rfl
    | cons p r ih =>
      simp only [sepDom, Bool.and_eq_true]
      refine ⟨?_, ih (fun q hq => hp q (by simp [hq]))⟩
      obtain ⟨-, -, hf⟩ := hp p (by simp)
      rcases hf with h | ⟨γ, -, h⟩ | h <;> rw [h] <;> rfl
  exact C08.sep_conj_sound ps qs hqs (fun p hpm => (C08.partFY_of_leaf p (hp p hpm)).1) hd hdc
end sep

section sep_examples
/-- Non-vacuity: `‖·‖₁ ⊕ Huber_{1/2} ⊕ ‖·‖²` on `R² × R^1(weight 1/2) × R²`. -/
example : ∃ qs, sepConj (K := ℝ)
      [⟨[1, 1], .coord .l1, [1, -2], [1 / 2, 1 / 4]⟩, ⟨[1 / 2], .coord (.huber (1 / 2)), [3], [1]⟩,
       ⟨[1, 2], .l2sq, [1, 1], [4, -2]⟩] = some qs ∧
      (sepDom qs = true → sepInner (K := ℝ)
        [⟨[1, 1], .coord .l1, [1, -2], [1 / 2, 1 / 4]⟩, ⟨[1 / 2], .coord (.huber (1 / 2)), [3], [1]⟩,
         ⟨[1, 2], .l2sq, [1, 1], [4, -2]⟩] [1, -2, 3, 1, 1] [1 / 2, 1 / 4, 1, 4, -2]
        ≤ sepValue (K := ℝ)
        [⟨[1, 1], .coord .l1, [1, -2], [1 / 2, 1 / 4]⟩, ⟨[1 / 2], .coord (.huber (1 / 2)), [3], [1]⟩,
         ⟨[1, 2], .l2sq, [1, 1], [4, -2]⟩] + sepValue qs) :=
  C08.sep_conj_sound_leaves _ (by
    intro p hp
    simp only [List.mem_cons, List.not_mem_nil, or_false] at hp
    rcases hp with rfl | rfl | rfl
    · exact ⟨by intro a ha; simp at ha; rcases ha with rfl | rfl <;> norm_num, rfl, Or.inl rfl⟩
    · exact ⟨by intro a ha; simp at ha; subst ha; norm_num, rfl,
        Or.inr (Or.inl ⟨1 / 2, by norm_num, rfl⟩)⟩
    · exact ⟨by intro a ha; simp at ha; rcases ha with rfl | rfl <;> norm_num, rfl, Or.inr (Or.inr rfl)⟩)
end sep_examples
