/-
C18 — Fourier and wavelet transforms invert exactly and agree across back-ends.
Property theorems only.  Model: `Model/Fourier.lean`, `Model/Wavelet.lean`
(+ generated `Gen/WaveletPad.lean`).  All reciprocal-space quantities are rational
multiples of `π/s`, all phases are `exp(iπ q)` with rational `q`.
-/
import OdlModel.Model.Fourier
import OdlModel.Lemmas.Fourier

open OdlModel.Fourier

/-! ## Reciprocal and real-space grids (`reciprocal_grid`, `realspace_grid`) -/

/-- The full reciprocal grid of an axis with `n ≥ 2` points has `n` points and the uniform
stride `2/n` (in units of `π/s`, i.e. `2π/(n s)`), for both shift options. -/
theorem C18.recip_grid_uniform (n : Nat) (hn : 2 ≤ n) (shift : Bool) :
    (recipGrid n shift false).shape = n ∧
    (recipGrid n shift false).stride = 2 / (n : Rat) ∧
    ∀ j, (recipGrid n shift false).point j
      = (if shift then -1 else -1 + 1 / (n : Rat)) + 2 * (j : Rat) / n := by
  have h1 : ¬ n ≤ 1 := by omega
  have hn0 : (n : Rat) ≠ 0 := by exact_mod_cast (by omega : n ≠ 0)
  have hn1 : ((n - 1 : Nat) : Rat) = (n : Rat) - 1 := by
    rw [Nat.cast_sub (by omega)]; simp
  have hn1' : (n : Rat) - 1 ≠ 0 := by
    intro h; have : (n : Rat) = 1 := by linarith
    have : n = 1 := by exact_mod_cast this
    omega
  have hs : (recipGrid n shift false).stride = 2 / (n : Rat) := by
    cases shift <;> simp [recipGrid, Grid.stride, h1, hn1] <;> field_simp <;> ring
  refine ⟨by simp [recipGrid], hs, ?_⟩
  intro j
  simp only [Grid.point, hs]
  cases shift <;> simp [recipGrid] <;> ring

/-- The half-complex reciprocal grid has the same stride `2/n`, for every parity × shift
(the four-way case table of `reciprocal_grid`). -/
theorem C18.recip_halfcomplex_stride (n : Nat) (hn : 2 ≤ n) (shift : Bool) :
    (recipGrid n shift true).stride = 2 / (n : Rat) := by
  rcases Nat.even_or_odd' n with ⟨m, hm | hm⟩
  · have hm0 : (m : Rat) ≠ 0 := by exact_mod_cast (by omega : m ≠ 0)
    have hmN : m ≠ 0 := by omega
    subst hm
    rw [recipGrid_even]
    cases shift <;> simp [Grid.stride, hmN] <;> field_simp
  · have hm0 : (m : Rat) ≠ 0 := by exact_mod_cast (by omega : m ≠ 0)
    have hmN : m ≠ 0 := by omega
    subst hm
    rw [recipGrid_odd]
    cases shift <;> simp [Grid.stride, hmN] <;> field_simp <;> ring_nf

/-- **Half-complex prefix.**  For every length `n ≥ 1`, both parities and both shift
options, the half-complex grid consists of exactly the first `n/2 + 1` points of the full
reciprocal grid. -/
theorem C18.recip_halfcomplex_prefix (n : Nat) (hn : 1 ≤ n) (shift : Bool) :
    (recipGrid n shift true).shape = n / 2 + 1 ∧ n / 2 + 1 ≤ (recipGrid n shift false).shape ∧
    ∀ j, j < n / 2 + 1 → (recipGrid n shift true).point j = (recipGrid n shift false).point j := by
  refine ⟨by simp [recipGrid, hcLen], by simp [recipGrid]; omega, ?_⟩
  intro j hj
  by_cases h2 : 2 ≤ n
  · have hmin : (recipGrid n shift true).min = (recipGrid n shift false).min := by
      simp [recipGrid]
    simp only [Grid.point, hmin, C18.recip_halfcomplex_stride n h2 shift,
      (C18.recip_grid_uniform n h2 shift).2.1]
  · have : n = 1 := by omega
    subst this
    have : j = 0 := by omega
    subst this
    cases shift <;> simp [recipGrid, Grid.point, hcLen]

/-- The reciprocal grid contains the zero frequency exactly where the documentation says:
shifted grids of even length (index `n/2`) and non-shifted grids of odd length (index
`(n-1)/2`). -/
theorem C18.recip_contains_zero (m : Nat) (hm : 1 ≤ m) :
    (recipGrid (2*m) true false).point m = 0 ∧ (recipGrid (2*m+1) false false).point m = 0 := by
  have hm0 : (m : Rat) ≠ 0 := by exact_mod_cast (by omega : m ≠ 0)
  have h1 : (2 * (m : Rat) + 1) ≠ 0 := by positivity
  constructor
  · rw [(C18.recip_grid_uniform (2*m) (by omega) true).2.2]; push_cast; simp; field_simp; ring
  · rw [(C18.recip_grid_uniform (2*m+1) (by omega) false).2.2]; push_cast; simp; field_simp; ring

/-- `2(n/2+1) - 2 = n` for even and `2(n/2+1) - 1 = n` for odd `n`: the parity option of
`realspace_grid` (and the `s=` argument of `irfftn`) restores the original length. -/
theorem C18.halfcomplex_shape_roundtrip (n : Nat) (hn : 1 ≤ n) :
    irLen (hcLen n) (n % 2 == 1) = n := by
  unfold irLen hcLen
  rcases Nat.mod_two_eq_zero_or_one n with h | h <;> simp [h] <;> omega

/-- **Finding (model of the defect).**  `DiscreteFourierTransformInverse._call_numpy` calls
`np.fft.irfftn(x, axes)` without `s`; NumPy then produces `2(m-1)` points, which equals the
range length `n` only for even `n`. -/
theorem C18.dft_inverse_numpy_halfcomplex_len_partial (n : Nat) (hn : 1 ≤ n) :
    irLenNumpyDefault (hcLen n) = n ↔ n % 2 = 0 := by
  unfold irLenNumpyDefault hcLen; omega

/-- Proved counterexample on the model: for every odd length the NumPy half-complex inverse
DFT produces an array one short of the range (the real code raises `ValueError`). -/
theorem C18.dft_inverse_numpy_halfcomplex_odd_fails (m : Nat) :
    irLenNumpyDefault (hcLen (2*m+1)) ≠ 2*m+1 := by
  unfold irLenNumpyDefault hcLen; omega

/-- `realspace_grid (reciprocal_grid g) = g`: the shape is restored (with the parity of
`n`) and the stride is `s` again, for every `n ≥ 2`, shift and half-complex option. -/
theorem C18.recip_real_roundtrip (n : Nat) (hn : 2 ≤ n) (shift hc : Bool) :
    realShape (recipGrid n shift hc).shape hc (n % 2 == 1) = n ∧
    realStride n (recipGrid n shift hc).stride = 1 := by
  have hn0 : (n : Rat) ≠ 0 := by exact_mod_cast (by omega : n ≠ 0)
  constructor
  · cases hc
    · simp [realShape, recipGrid]
    · simpa [realShape, recipGrid] using C18.halfcomplex_shape_roundtrip n (by omega)
  · have hs : (recipGrid n shift hc).stride = 2 / (n : Rat) := by
      cases hc
      · exact (C18.recip_grid_uniform n hn shift).2.1
      · exact C18.recip_halfcomplex_stride n hn shift
    rw [hs]; unfold realStride; field_simp

example : (recipGrid 5 true true).shape = 3 ∧ (recipGrid 5 true true).point 2 = -1/5 ∧
    (recipGrid 5 true false).point 2 = -1/5 := by
  norm_num [recipGrid, Grid.point, Grid.stride, hcLen]

/-- The normalised frequencies fed to the interpolation-kernel FT in
`dft_postprocess_data` (its own `fmin/fmax` table, with half-complex DETECTED as
`len_dft < len_orig`) are exactly the reciprocal grid points divided by `2π/s`, for every
`n ≥ 1`, parity, shift and half-complex option. -/
theorem C18.interp_freqs_match_grid (n : Nat) (hn : 1 ≤ n) (shift hc : Bool) (j : Nat) :
    (interpFreqs n (recipGrid n shift hc).shape shift).point j
      = (recipGrid n shift hc).point j / 2 := by
  apply Grid.point_half
  · simp [interpFreqs]
  · cases shift <;> simp [interpFreqs, recipGrid] <;> split_ifs <;> ring
  · rcases Nat.even_or_odd' n with ⟨m, hm | hm⟩
    · subst hm
      have hm0 : (m : Rat) ≠ 0 := by exact_mod_cast (by omega : m ≠ 0)
      have e1 : 2 * m % 2 = 0 := by omega
      rw [recipGrid_even]
      by_cases h1 : m = 1
      · subst h1; cases shift <;> cases hc <;> simp [interpFreqs] <;> norm_num
      · have hlt : m + 1 < 2 * m := by omega
        cases shift <;> cases hc <;> simp [interpFreqs, e1, hlt] <;> field_simp <;> ring_nf
    · subst hm
      have e1 : (2 * m + 1) % 2 = 1 := by omega
      have h1 : (2 * (m : Rat) + 1) ≠ 0 := by positivity
      rw [recipGrid_odd]
      by_cases h0 : m = 0
      · subst h0; cases shift <;> cases hc <;> simp [interpFreqs] <;> norm_num
      · have hlt : m + 1 < 2 * m + 1 := by omega
        cases shift <;> cases hc <;> simp [interpFreqs, e1, hlt] <;> field_simp <;> ring_nf
