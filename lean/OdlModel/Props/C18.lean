/-
C18 — Fourier and wavelet transforms invert exactly and agree across back-ends.
Property theorems only.  Model: `Model/Fourier.lean`, `Model/Wavelet.lean`
(+ generated `Gen/WaveletPad.lean`).  All reciprocal-space quantities are rational
multiples of `π/s`, all phases are `exp(iπ q)` with rational `q`.
-/
import OdlModel.Model.Fourier
import OdlModel.Model.Wavelet
import OdlModel.Gen.WaveletPad
import OdlModel.Gen.RecipGrid
import OdlModel.Lemmas.Fourier
import OdlModel.Lemmas.Wavelet
import OdlModel.Lemmas.Phase
import OdlModel.Lemmas.FourierNd
import Mathlib.Analysis.SpecialFunctions.Trigonometric.Basic

open OdlModel.Fourier

/-! ## Reciprocal and real-space grids (`reciprocal_grid`, `realspace_grid`) -/

/-- The full reciprocal grid of an axis with `n ≥ 2` points has `n` points and the uniform
stride `2/n` (in units of `π/s`, i.e. `2π/(n s)`), for both shift options. -/
theorem C18.recip_grid_uniform (n : Nat) (hn : 2 ≤ n) (shift : Bool) :
    (recipGrid n shift false).shape = n ∧
    (recipGrid n shift false).stride = 2 / (n : Rat) ∧
    ∀ j, (recipGrid n shift false).point j
      = (if shift then -1 else -1 + 1 / (n : Rat)) + 2 * (j : Rat) / n := by
  have h1 : ¬ n ≤ 1 := by omega
  have hn0 : (n : Rat) ≠ 0 := by exact_mod_cast (by omega : n ≠ 0)
  have hn1 : ((n - 1 : Nat) : Rat) = (n : Rat) - 1 := by
    rw [Nat.cast_sub (by omega)]; simp
  have hn1' : (n : Rat) - 1 ≠ 0 := by
    intro h; have : (n : Rat) = 1 := by linarith
    have : n = 1 := by exact_mod_cast this
    omega
  have hs : (recipGrid n shift false).stride = 2 / (n : Rat) := by
    cases shift <;> simp [recipGrid, Grid.stride, h1, hn1] <;> field_simp <;> ring
  refine ⟨by simp [recipGrid], hs, ?_⟩
  intro j
  simp only [Grid.point, hs]
  cases shift <;> simp [recipGrid] <;> ring

/-- The half-complex reciprocal grid has the same stride `2/n`, for every parity × shift
(the four-way case table of `reciprocal_grid`). -/
theorem C18.recip_halfcomplex_stride (n : Nat) (hn : 2 ≤ n) (shift : Bool) :
    (recipGrid n shift true).stride = 2 / (n : Rat) := by
  rcases Nat.even_or_odd' n with ⟨m, hm | hm⟩
  · have hm0 : (m : Rat) ≠ 0 := by exact_mod_cast (by omega : m ≠ 0)
    have hmN : m ≠ 0 := by omega
    subst hm
    rw [recipGrid_even]
    cases shift <;> simp [Grid.stride, hmN] <;> field_simp
  · have hm0 : (m : Rat) ≠ 0 := by exact_mod_cast (by omega : m ≠ 0)
    have hmN : m ≠ 0 := by omega
    subst hm
    rw [recipGrid_odd]
    cases shift <;> simp [Grid.stride, hmN] <;> field_simp <;> ring_nf

/-- **Half-complex prefix.**  For every length `n ≥ 1`, both parities and both shift
options, the half-complex grid consists of exactly the first `n/2 + 1` points of the full
reciprocal grid. -/
theorem C18.recip_halfcomplex_prefix (n : Nat) (hn : 1 ≤ n) (shift : Bool) :
    (recipGrid n shift true).shape = n / 2 + 1 ∧ n / 2 + 1 ≤ (recipGrid n shift false).shape ∧
    ∀ j, j < n / 2 + 1 → (recipGrid n shift true).point j = (recipGrid n shift false).point j := by
  refine ⟨by simp [recipGrid, hcLen], by simp [recipGrid]; omega, ?_⟩
  intro j hj
  by_cases h2 : 2 ≤ n
  · have hmin : (recipGrid n shift true).min = (recipGrid n shift false).min := by
      simp [recipGrid]
    simp only [Grid.point, hmin, C18.recip_halfcomplex_stride n h2 shift,
      (C18.recip_grid_uniform n h2 shift).2.1]
  · have : n = 1 := by omega
    subst this
    have : j = 0 := by omega
    subst this
    cases shift <;> simp [recipGrid, Grid.point, hcLen]

/-- Node `j < n` of the full reciprocal grid is `ξ₀ + 2j/n` (units `π/s`), for every `n ≥ 1`
(a one-point axis included). -/
theorem C18.recip_point_formula (n : Nat) (hn : 1 ≤ n) (shift : Bool) (j : Nat) (hj : j < n) :
    (recipGrid n shift false).point j
      = (if shift then -1 else -1 + 1 / (n : Rat)) + 2 * (j : Rat) / n := by
  by_cases h2 : 2 ≤ n
  · exact (C18.recip_grid_uniform n h2 shift).2.2 j
  · have h1 : n = 1 := by omega
    have hj0 : j = 0 := by omega
    subst h1; subst hj0
    cases shift <;> simp [recipGrid, Grid.point]

/-- The reciprocal grid contains the zero frequency EXACTLY where the documentation says:
shifted grids of even length and non-shifted grids of odd length — and in no other case. -/
theorem C18.recip_contains_zero_iff (n : Nat) (hn : 1 ≤ n) (shift : Bool) :
    (∃ j, j < n ∧ (recipGrid n shift false).point j = 0) ↔
      ((shift = true ∧ n % 2 = 0) ∨ (shift = false ∧ n % 2 = 1)) := by
  have hn0 : (n : Rat) ≠ 0 := by exact_mod_cast (by omega : n ≠ 0)
  constructor
  · rintro ⟨j, hj, h⟩
    rw [C18.recip_point_formula n hn shift j hj] at h
    cases shift
    · right
      simp at h
      have : (2 * j + 1 : Rat) = n := by field_simp at h; linarith
      have : 2 * j + 1 = n := by exact_mod_cast this
      exact ⟨rfl, by omega⟩
    · left
      simp at h
      have : (2 * j : Rat) = n := by field_simp at h; linarith
      have : 2 * j = n := by exact_mod_cast this
      exact ⟨rfl, by omega⟩
  · rintro (⟨hs, hp⟩ | ⟨hs, hp⟩)
    · subst hs
      refine ⟨n / 2, by omega, ?_⟩
      rw [C18.recip_point_formula n hn true _ (by omega)]
      have : (2 * (n / 2 : Nat) : Rat) = n := by
        have : 2 * (n / 2) = n := by omega
        exact_mod_cast this
      simp; field_simp; linarith
    · subst hs
      refine ⟨n / 2, by omega, ?_⟩
      rw [C18.recip_point_formula n hn false _ (by omega)]
      have : (2 * (n / 2 : Nat) + 1 : Rat) = n := by
        have : 2 * (n / 2) + 1 = n := by omega
        exact_mod_cast this
      simp; field_simp; linarith

/-- `2(n/2+1) - 2 = n` for even and `2(n/2+1) - 1 = n` for odd `n`: the parity option of
`realspace_grid` (and the `s=` argument of `irfftn`) restores the original length. -/
theorem C18.halfcomplex_shape_roundtrip (n : Nat) (hn : 1 ≤ n) :
    irLen (hcLen n) (n % 2 == 1) = n := by
  unfold irLen hcLen
  rcases Nat.mod_two_eq_zero_or_one n with h | h <;> simp [h] <;> omega

/-- Sensitivity (why `s=` must be passed to `np.fft.irfftn`, as the repaired
`DiscreteFourierTransformInverse._call_numpy` and `FourierTransformInverse` do): NumPy's
default output length `2(m-1)` restores `n` exactly for even `n`; for every odd length it is
one short. -/
theorem C18.irfftn_without_s_loses_odd_length (n : Nat) (hn : 1 ≤ n) :
    (irLenNumpyDefault (hcLen n) = n ↔ n % 2 = 0) ∧
    (n % 2 = 1 → irLenNumpyDefault (hcLen n) + 1 = n) := by
  unfold irLenNumpyDefault hcLen; omega

/-- `realspace_grid (reciprocal_grid g) = g`: the shape is restored (with the parity of
`n`) and the stride is `s` again, for every `n ≥ 2`, shift and half-complex option. -/
theorem C18.recip_real_roundtrip (n : Nat) (hn : 2 ≤ n) (shift hc : Bool) :
    realShape (recipGrid n shift hc).shape hc (n % 2 == 1) = n ∧
    realStride n (recipGrid n shift hc).stride = 1 := by
  have hn0 : (n : Rat) ≠ 0 := by exact_mod_cast (by omega : n ≠ 0)
  constructor
  · cases hc
    · simp [realShape, recipGrid]
    · simpa [realShape, recipGrid] using C18.halfcomplex_shape_roundtrip n (by omega)
  · have hs : (recipGrid n shift hc).stride = 2 / (n : Rat) := by
      cases hc
      · exact (C18.recip_grid_uniform n hn shift).2.1
      · exact C18.recip_halfcomplex_stride n hn shift
    rw [hs]; unfold realStride; field_simp

example : (recipGrid 5 true true).shape = 3 ∧ (recipGrid 5 true true).point 2 = -1/5 ∧
    (recipGrid 5 true false).point 2 = -1/5 := by
  norm_num [recipGrid, Grid.point, Grid.stride, hcLen]

/-- The normalised frequencies fed to the interpolation-kernel FT in
`dft_postprocess_data` (its own `fmin/fmax` table, with half-complex DETECTED as
`len_dft < len_orig`) are exactly the reciprocal grid points divided by `2π/s`, for every
`n ≥ 1`, parity, shift and half-complex option. -/
theorem C18.interp_freqs_match_grid (n : Nat) (hn : 1 ≤ n) (shift hc : Bool) (j : Nat) :
    (interpFreqs n (recipGrid n shift hc).shape shift).point j
      = (recipGrid n shift hc).point j / 2 := by
  apply Grid.point_half
  · simp [interpFreqs]
  · cases shift <;> simp [interpFreqs, recipGrid] <;> split_ifs <;> ring
  · rcases Nat.even_or_odd' n with ⟨m, hm | hm⟩
    · subst hm
      have hm0 : (m : Rat) ≠ 0 := by exact_mod_cast (by omega : m ≠ 0)
      have e1 : 2 * m % 2 = 0 := by omega
      rw [recipGrid_even]
      by_cases h1 : m = 1
      · subst h1; cases shift <;> cases hc <;> simp [interpFreqs] <;> norm_num
      · have hlt : m + 1 < 2 * m := by omega
        cases shift <;> cases hc <;> simp [interpFreqs, e1, hlt] <;> field_simp <;> ring_nf
    · subst hm
      have e1 : (2 * m + 1) % 2 = 1 := by omega
      have h1 : (2 * (m : Rat) + 1) ≠ 0 := by positivity
      rw [recipGrid_odd]
      by_cases h0 : m = 0
      · subst h0; cases shift <;> cases hc <;> simp [interpFreqs] <;> norm_num
      · have hlt : m + 1 < 2 * m + 1 := by omega
        cases shift <;> cases hc <;> simp [interpFreqs, e1, hlt] <;> field_simp <;> ring_nf

/-! ## The case tables are the source's (translator tie) -/

namespace OdlModel.C18
/-- value `a + b/n` of a generated linear-in-`1/n` table entry -/
def linVal (v : (Int × Nat) × (Int × Nat)) (n : Nat) : Rat :=
  (v.1.1 : Rat) / (v.1.2 : Rat) + ((v.2.1 : Rat) / (v.2.2 : Rat)) / (n : Rat)
end OdlModel.C18
open OdlModel.C18 OdlModel.Gen.RecipGrid

/-- **Tie to the source (translator).**  The half-complex `rmax` case table of the model is
the table extracted from the live `reciprocal_grid` (`Gen/RecipGrid.lean`, regenerated on every
run), for every `n` and shift: a changed table entry in the source breaks this theorem. -/
theorem C18.recip_table_matches_source (n : Nat) (shift : Bool) :
    (recipGrid n shift true).max = (hcRmaxCoef (n % 2 == 1) shift : Rat) * (1 / (n : Rat)) := by
  rcases Nat.mod_two_eq_zero_or_one n with h | h <;> cases shift <;>
    simp [recipGrid, hcRmaxCoef, h]

/-- The `fmin`/`fmax` table of the model is the one extracted (symbolically, as `a + b/len_orig`)
from the live `dft_postprocess_data`, for every `n`, reciprocal length and shift. -/
theorem C18.freq_table_matches_source (n len : Nat) (shift : Bool) :
    (interpFreqs n len shift).min = linVal (fmin shift) n ∧
    (interpFreqs n len shift).max = linVal (fmax (decide (len < n)) shift (n % 2 == 1)) n := by
  constructor
  · cases shift <;> simp [interpFreqs, fmin, linVal] <;> ring
  · by_cases hl : len < n <;> rcases Nat.mod_two_eq_zero_or_one n with h | h <;> cases shift <;>
      simp [interpFreqs, fmax, linVal, hl, h] <;> ring

/-! ## The discrete transforms (`DiscreteFourierTransform`, `…Inverse`) -/

/-- **Inverse DFT with the coded normalisation.**  Over any field containing a primitive
`n`-th root of unity `w` (`n` invertible), for both sign conventions: the operator returned
by `DiscreteFourierTransform.inverse` (flipped sign; `ifftn` for `'+'`, `fftn / prod(shape)`
for `'-'`) applied to the forward transform (`fftn` for `'-'`, `prod(shape) * ifftn` for
`'+'`) returns the input, for every length `n` and every input. -/
theorem C18.dft_inverse {K : Type} [Field K] (w : K) (n : Nat) (hn : 0 < n) (hnK : (n : K) ≠ 0)
    (hw : IsPrimRoot w n) (plus : Bool) (f : Nat → K) (k : Nat) (hk : k < n) :
    dftInverseNp (!plus) w w⁻¹ n (dftForwardNp plus w w⁻¹ n f) k = f k := by
  cases plus
  · have hF : dftForwardNp false w w⁻¹ n f = fun j => ∑ l ∈ Finset.range n, f l * w ^ (l * j) := by
      funext j; simp [dftForwardNp, dftSum_eq]
    rw [hF]
    simp only [dftInverseNp, npIfft, Bool.not_false, if_true, dftSum_eq]
    rw [dft_core hw hn f k hk]
    field_simp
  · have hF : dftForwardNp true w w⁻¹ n f
        = fun j => ∑ l ∈ Finset.range n, f l * w⁻¹ ^ (l * j) := by
      funext j; simp [dftForwardNp, npIfft, dftSum_eq]; field_simp
    rw [hF]
    simp only [dftInverseNp, Bool.not_true, Bool.false_eq_true, if_false, dftSum_eq]
    have h2 := dft_core hw.inv hn f k hk
    rw [inv_inv] at h2
    rw [h2]
    field_simp

/-- Non-vacuity: `-1` is a primitive 2nd root of unity in `ℚ`; the 2-point transform of
`(3, 5)` is `(8, -2)` and the inverse restores `5`. -/
example : IsPrimRoot (-1 : ℚ) 2 ∧ dftForwardNp false (-1 : ℚ) (-1)⁻¹ 2 (fun j => if j = 0 then 3 else 5) 1 = -2 := by
  refine ⟨⟨by norm_num, ?_⟩, by norm_num [dftForwardNp, dftSum, sumTo, pw]⟩
  intro d hd hd2
  have : d = 1 := by omega
  subst this; norm_num

/-- **Back-ends agree.**  With FFTW's plan semantics (forward never scaled, backward scaled
by `1/n` iff `normalise_idft`) and the flag juggling of `pyfftw_call`, the pyfftw branches of
the forward and inverse DFT operators compute exactly what the NumPy branches compute, for
both signs, every length and every input. -/
theorem C18.dft_backends_agree {K : Type} [Field K] (w winv : K) (n : Nat) (hnK : (n : K) ≠ 0)
    (plus : Bool) (f : Nat → K) (k : Nat) :
    dftForwardFftw plus w winv n f k = dftForwardNp plus w winv n f k ∧
    dftInverseFftw plus w winv n f k = dftInverseNp plus w winv n f k := by
  cases plus <;>
    simp [dftForwardFftw, dftForwardNp, dftInverseFftw, dftInverseNp, pyfftwCall, fftwPlan, npIfft] <;>
    field_simp

/-- Hermitian symmetry of the transform of real data: with a conjugation `σ` (a ring
homomorphism with `σ w = w⁻¹`) and `σ (f j) = f j`, `σ (F (n-k)) = F k` for `k ≤ n`. -/
theorem C18.dft_hermitian {K : Type} [Field K] (σ : K →+* K) (w : K) (n : Nat) (hn : 0 < n)
    (hw : IsPrimRoot w n) (hσ : σ w = w⁻¹) (f : Nat → K) (hf : ∀ j, σ (f j) = f j)
    (k : Nat) (hk : k ≤ n) :
    σ (dftSum w n f (n - k)) = dftSum w n f k := by
  have hw0 := hw.ne_zero hn
  rw [dftSum_eq, dftSum_eq, map_sum]
  apply Finset.sum_congr rfl
  intro j _
  rw [map_mul, hf, map_pow, hσ]
  congr 1
  have h1 : w ^ (j * (n - k)) * w ^ (j * k) = 1 := by
    rw [← pow_add, ← Nat.mul_add, Nat.sub_add_cancel hk, mul_comm, pow_mul, hw.1, one_pow]
  rw [inv_pow]
  rw [eq_inv_of_mul_eq_one_left h1, inv_inv]

/-- **Half-complex round trip.**  For real data the `n/2+1` stored coefficients determine the
signal: the complex-to-real inverse (Hermitian extension, `ifft`) of ANY array agreeing with
the forward transform on the indices `0 … n/2` returns the input — for even and odd `n`. -/
theorem C18.halfcomplex_roundtrip {K : Type} [Field K] (σ : K →+* K) (w : K) (n : Nat)
    (hn : 0 < n) (hnK : (n : K) ≠ 0) (hw : IsPrimRoot w n) (hσ : σ w = w⁻¹)
    (f : Nat → K) (hf : ∀ j, σ (f j) = f j)
    (g : Nat → K) (hg : ∀ j, j ≤ n / 2 → g j = dftSum w n f j) (k : Nat) (hk : k < n) :
    npIrfft σ w⁻¹ n g k = f k := by
  have hext : ∀ j ∈ Finset.range n, hermExt σ n g j * w⁻¹ ^ (j * k)
      = dftSum w n f j * w⁻¹ ^ (j * k) := by
    intro j hj
    have hjn := Finset.mem_range.mp hj
    congr 1
    unfold hermExt
    split_ifs with h
    · exact hg j h
    · rw [hg (n - j) (by omega)]
      exact C18.dft_hermitian σ w n hn hw hσ f hf j hjn.le
  have hF : dftForwardNp false w w⁻¹ n f = dftSum w n f := by
    funext j; simp [dftForwardNp]
  have := C18.dft_inverse w n hn hnK hw false f k hk
  rw [hF] at this
  simp only [dftInverseNp, npIfft, Bool.not_false, if_true] at this
  rw [← this]
  unfold npIrfft npIfft
  rw [dftSum_eq, dftSum_eq, Finset.sum_congr rfl hext]

/-! ## The `adjoint` property of the plain DFT operators (what the code returns; F59 of C05) -/

/-- **The true adjoint is `n ·` the operator the code returns.**  `DiscreteFourierTransform.adjoint`
returns `self.inverse` (`dftAdjointAxis`, by construction the inverse with the flipped sign and the
`1/n` normalisation).  Over any field with a conjugation `σ` (`σ w = w⁻¹`), for both signs, every
length and all `x`, `y`, with the plain sesquilinear pairing `⟨u, v⟩ = Σ u_k σ(v_k)` (the inner
product of the unweighted spaces): `⟨F x, y⟩ = n · ⟨x, F.adjoint y⟩`.  So `n · F.adjoint` is the
adjoint and `F.adjoint` itself misses the factor `n` exactly (no root-of-unity hypothesis needed).
The harness checks this ratio on the real code in the stream `adjoint/scaled-identity`. -/
theorem C18.dft_true_adjoint {K : Type} [Field K] (σ : K →+* K) (w : K) (n : Nat)
    (hnK : (n : K) ≠ 0) (hσ : σ w = w⁻¹) (plus : Bool) (x y : Nat → K) :
    sumTo n (fun k => dftForwardNp plus w w⁻¹ n x k * σ (y k))
      = (n : K) * sumTo n (fun j => x j * σ (dftAdjointAxis plus w w⁻¹ n y j)) := by
  have hσi : σ w⁻¹ = w := by rw [map_inv₀, hσ, inv_inv]
  have hσn : σ (n : K) = n := map_natCast σ n
  simp only [sumTo_eq_sum, dftAdjointAxis]
  cases plus
  · simp only [dftForwardNp, dftInverseNp, npIfft, dftSum_eq, Bool.not_false, if_true,
      Bool.false_eq_true, if_false, map_div₀, map_sum, map_mul, map_pow, hσi, hσn]
    rw [adj_core, Finset.mul_sum]
    apply Finset.sum_congr rfl; intro j _
    field_simp
  · simp only [dftForwardNp, dftInverseNp, npIfft, dftSum_eq, Bool.not_true, if_true,
      Bool.false_eq_true, if_false, map_div₀, map_sum, map_mul, map_pow, hσ, hσn]
    simp only [mul_div_cancel₀ _ hnK]
    rw [adj_core, Finset.mul_sum]
    apply Finset.sum_congr rfl; intro j _
    field_simp

/-- The same for `DiscreteFourierTransformInverse.adjoint` (= its `inverse`, the forward operator with
the flipped sign, `dftInvAdjointAxis`): `n · ⟨F⁻¹ y, x⟩ = ⟨y, F⁻¹.adjoint x⟩`, i.e. the true adjoint
is `(1/n) ·` the returned operator. -/
theorem C18.dft_inverse_true_adjoint {K : Type} [Field K] (σ : K →+* K) (w : K) (n : Nat)
    (hnK : (n : K) ≠ 0) (hσ : σ w = w⁻¹) (plus : Bool) (x y : Nat → K) :
    (n : K) * sumTo n (fun j => dftInverseNp plus w w⁻¹ n y j * σ (x j))
      = sumTo n (fun k => y k * σ (dftInvAdjointAxis plus w w⁻¹ n x k)) := by
  have hσi : σ w⁻¹ = w := by rw [map_inv₀, hσ, inv_inv]
  have hσn : σ (n : K) = n := map_natCast σ n
  simp only [sumTo_eq_sum, dftInvAdjointAxis]
  cases plus
  · simp only [dftForwardNp, dftInverseNp, npIfft, dftSum_eq, Bool.not_false, if_true,
      Bool.false_eq_true, if_false, map_sum, map_mul, map_pow, hσi,
      mul_div_cancel₀ _ hnK]
    rw [← adj_core, Finset.mul_sum]
    apply Finset.sum_congr rfl; intro j _
    field_simp
  · simp only [dftForwardNp, dftInverseNp, npIfft, dftSum_eq, Bool.not_true, if_true,
      Bool.false_eq_true, if_false, map_sum, map_mul, map_pow, hσ]
    rw [← adj_core, Finset.mul_sum]
    apply Finset.sum_congr rfl; intro j _
    field_simp

/-- **Counterexample on the model (finding F59 of C05, every length).**  Whenever `n ≠ 1` in `K`
(every `n ≥ 2` in characteristic 0), the operator returned by `DiscreteFourierTransform.adjoint`
is NOT the adjoint for the plain pairing: for `x = e₀`, `y = F e₀` the two sides are `n` and `1`. -/
theorem C18.dft_code_adjoint_is_not_adjoint {K : Type} [Field K] (σ : K →+* K) (w : K) (n : Nat)
    (hn : 0 < n) (hnK : (n : K) ≠ 0) (hn1 : (n : K) ≠ 1) (hw : IsPrimRoot w n) (hσ : σ w = w⁻¹)
    (plus : Bool) :
    ∃ x y : Nat → K,
      sumTo n (fun k => dftForwardNp plus w w⁻¹ n x k * σ (y k))
        ≠ sumTo n (fun j => x j * σ (dftAdjointAxis plus w w⁻¹ n y j)) := by
  refine ⟨fun j => if j = 0 then 1 else 0, dftForwardNp plus w w⁻¹ n (fun j => if j = 0 then 1 else 0), ?_⟩
  rw [C18.dft_true_adjoint σ w n hnK hσ plus]
  have h1 : sumTo n (fun j => (if j = 0 then (1 : K) else 0) *
      σ (dftAdjointAxis plus w w⁻¹ n (dftForwardNp plus w w⁻¹ n (fun j => if j = 0 then 1 else 0)) j))
      = 1 := by
    rw [sumTo_eq_sum, Finset.sum_eq_single 0]
    · have := C18.dft_inverse w n hn hnK hw plus (fun j => if j = 0 then (1 : K) else 0) 0 hn
      simp only [dftAdjointAxis, this]; simp
    · intro j _ hj; simp [hj]
    · intro h; exact absurd (Finset.mem_range.mpr hn) h
  rw [h1, mul_one]; exact hn1

/-- Non-vacuity: `K = ℚ`, `σ = id`, `w = -1`, `n = 2`. -/
example : ∃ x y : Nat → ℚ,
    sumTo 2 (fun k => dftForwardNp false (-1 : ℚ) (-1)⁻¹ 2 x k * (RingHom.id ℚ) (y k))
      ≠ sumTo 2 (fun j => x j * (RingHom.id ℚ) (dftAdjointAxis false (-1 : ℚ) (-1)⁻¹ 2 y j)) :=
  C18.dft_code_adjoint_is_not_adjoint (RingHom.id ℚ) (-1) 2 (by norm_num) (by norm_num) (by norm_num)
    ⟨by norm_num, by intro d hd hd2; have : d = 1 := by omega
                     subst this; norm_num⟩ (by norm_num) false

/-- By construction of `dftAdjointStatus` (the `if` of `DiscreteFourierTransformBase.adjoint`): the
adjoint is exposed exactly for exponent 2 on both sides. -/
theorem C18.dft_adjoint_exposed_iff (d r : Bool) :
    dftAdjointStatus d r = none ↔ (d = true ∧ r = true) := by
  cases d <;> cases r <;> simp [dftAdjointStatus]

/-- **Default range (after /repo fix 02139e2).**  The constructor of the plain DFT operators builds
its default range (`range=None`) for EVERY range shape — one-point axes included — and accepts
every given range: the extent `max(n - 1, 1)` is positive on every axis, so the cell volume never
vanishes.  (`dftDefaultRangeExtent` is compared with `op.range` of the real operators in the
stream `dftctor/*`.) -/
theorem C18.dft_default_range_ok (fshape : List Nat) (given : Bool) :
    dftDefaultRangeStatus fshape given = none := by
  unfold dftDefaultRangeStatus dftDefaultRangeStatusOf
  have : fshape.any (fun n => dftDefaultRangeExtent n == 0) = false := by
    rw [List.any_eq_false]; intro n _; unfold dftDefaultRangeExtent; simp
  simp [this]

/-- Sensitivity, about the OLD variant `dftDefaultRangeStatusOld` (extent `shape - 1`, the code
before 02139e2, former finding F18g): it fails exactly when no range is given and the range shape
has an axis with at most one point. -/
theorem C18.dft_default_range_old_one_point_fails (fshape : List Nat) (given : Bool) :
    dftDefaultRangeStatusOld fshape given = some "err:value" ↔
      (given = false ∧ ∃ n ∈ fshape, n ≤ 1) := by
  unfold dftDefaultRangeStatusOld dftDefaultRangeStatusOf dftDefaultRangeExtentOld
  cases given
  · by_cases h : ∃ n ∈ fshape, n ≤ 1
    · have : fshape.any (fun n => n - 1 == 0) = true := by
        rw [List.any_eq_true]; obtain ⟨n, hn, h1⟩ := h; exact ⟨n, hn, by simp; omega⟩
      simp [this, h]
    · have : fshape.any (fun n => n - 1 == 0) = false := by
        rw [List.any_eq_false]; intro n hn h1; exact h ⟨n, hn, by simp at h1; omega⟩
      simp [this, h]
  · simp

example : dftDefaultRangeStatus [4, 1, 2] false = none ∧
    dftDefaultRangeStatusOld [4, 1, 2] false = some "err:value" ∧
    dftDefaultRangeStatusOld [4, 3, 2] false = none :=
  ⟨C18.dft_default_range_ok _ _, by decide, by decide⟩

/-! ## Constructor and planner of the plain DFT operators -/

/-- **What `pyfftw_call` computes, for both values of `normalise_idft`** (`pyfftwCall`, executed by
the op `pyfftwcall` and compared exactly with direct calls of the real function in the stream
`pyfftw_call/direct/*`): the forward transform is the plain sum with `w` and is NEVER scaled — also
when `normalise_idft=False`, where the code calls the plan with `normalise_idft=True` —, the
backward transform is the plain sum with `w⁻¹`, divided by `n` iff `normalise_idft`.  Case split
over the modelled flags, for every length and input. -/
theorem C18.pyfftw_call_normalisation {K : Type} [Field K] (w winv : K) (n : Nat) (backward ni : Bool)
    (f : Nat → K) (k : Nat) :
    pyfftwCall backward ni w winv n f k =
      if backward then (if ni then dftSum winv n f k / (n : K) else dftSum winv n f k)
      else dftSum w n f k := by
  cases backward <;> cases ni <;> simp [pyfftwCall, fftwPlan]

example : pyfftwCall true false (-1 : ℚ) (-1) 2 (fun j => if j = 0 then 1 else 3) 1 = -2 := by
  rw [C18.pyfftw_call_normalisation]; norm_num [dftSum, sumTo, pw]


/-- The range built by the constructor always fits the array the transform produces: for
real and complex domains, with and without the `halfcomplex` argument (on complex domains the
argument has no effect, as documented), every length. -/
theorem C18.dft_range_matches_output (n : Nat) (complexDom hcArg : Bool) :
    dftRangeLen n complexDom hcArg = dftOutLen n complexDom hcArg := by
  cases complexDom <;> cases hcArg <;>
    simp [dftRangeLen, dftOutLen, dftHalfcomplexFlag, recipGrid]

/-- Sensitivity: computing the range from the `halfcomplex` ARGUMENT (the code before the
repair) is wrong exactly on complex domains: for every `n ≥ 3` the range is too short. -/
theorem C18.dft_range_old_complex_halfcomplex_fails (n : Nat) (hn : 3 ≤ n) :
    dftRangeLenOld n true ≠ dftOutLen n true true := by
  simp [dftRangeLenOld, dftOutLen, dftHalfcomplexFlag, recipGrid, hcLen]; omega

/-- Boolean fact about the two guards of `pyfftw_call` (no arithmetic content): with
`plan_arr_in` a scratch array whenever the planner destroys, and `plan_arr_out` that same
scratch array for in-place calls, a destroying planner never runs on an array holding the
data — out-of-place and in-place calls, fresh and given plans, every planner.  (That FFTW
planners other than `estimate` overwrite both arrays, and nothing else, is the assumption
encoded in `dataSurvivesPlanning`; it is compared with the real library on every pyfftw
case, with `planning_effort ∈ {estimate, measure}`.) -/
theorem C18.pyfftw_planning_guards_cover_both_arrays (fresh destroys inPlace : Bool) :
    dataSurvivesPlanning fresh destroys inPlace = true := by
  cases fresh <;> cases destroys <;> cases inPlace <;>
    simp [dataSurvivesPlanning, planInIsData, planOutIsData, mustCopy]

/-- Sensitivity: the earlier guards lose the data exactly for a fresh plan with a destroying
planner when the input is real without halfcomplex (planned on its complex copy) or the call
is in place (planned on the output array, which is the data). -/
theorem C18.pyfftw_planning_old_guards_destroy_data (realIn hc fresh destroys inPlace : Bool) :
    dataSurvivesPlanningOld realIn hc fresh destroys inPlace = false ↔
      (fresh = true ∧ destroys = true ∧ ((realIn = true ∧ hc = false) ∨ inPlace = true)) := by
  cases realIn <;> cases hc <;> cases fresh <;> cases destroys <;> cases inPlace <;>
    simp [dataSurvivesPlanningOld, mustCopy, arrayInCopied]

/-- Boolean fact about the plan-reuse guard of `pyfftw_call` (no arithmetic content): the plan
that is executed always has the in-place-ness of the call, whatever plan the operator has
cached (out-of-place call after an in-place one and vice versa, after `init_fftw_plan`, …).
That FFTW requires this is an assumption; call histories on one operator instance are
compared with `numpy.fft` on every run. -/
theorem C18.pyfftw_executed_plan_matches_call (given : Option Bool) (callInPlace : Bool) :
    executedPlanInPlace given callInPlace = callInPlace := by
  cases given with
  | none => rfl
  | some p => cases p <;> cases callInPlace <;> rfl

/-- Sensitivity: executing every given plan (the code before the repair) runs a plan with the
wrong in-place-ness exactly when the cached plan's differs from the call's. -/
theorem C18.pyfftw_executed_plan_old_mismatch (p callInPlace : Bool) :
    executedPlanInPlaceOld (some p) callInPlace ≠ callInPlace ↔ p ≠ callInPlace := by
  cases p <;> cases callInPlace <;> simp [executedPlanInPlaceOld]

/-! ## Phases of the continuous transform (`dft_preprocess_data`, `dft_postprocess_data`) -/

open OdlModel.C18

/-- **Phase factorisation.**  For every length `n ≥ 1`, node indices `k`, `j < n`, shift
option, sign and grid offset `t = x0/s`, the exponents (in units of `π`) of
pre-processing factor `k`, DFT kernel `ω^{jk}` (`∓2jk/n`) and post-processing phase `j` add up,
modulo 2, to the exponent `± x_k ξ_j / π = ±(t + k) c_j` of the Fourier kernel on the
real-space node `x_k = x0 + k s` and the reciprocal node `ξ_j = c_j π/s`:
`post_j · Σ_k pre_k f_k ω^{jk}` is the discretised Fourier integral. -/
theorem C18.phase_factorisation (n : Nat) (hn : 1 ≤ n) (shift plus : Bool) (t : Rat)
    (k j : Nat) (hj : j < n) :
    EqMod2 (preExp n shift plus k + sgnOf plus * (2 * k * j / n)
              + postExp plus t ((recipGrid n shift false).point j))
           (sgnOf plus * ((t + k) * (recipGrid n shift false).point j)) := by
  have hn0 : (n : Rat) ≠ 0 := by exact_mod_cast (by omega : n ≠ 0)
  have hp : (recipGrid n shift false).point j
      = (if shift then -1 else -1 + 1 / (n : Rat)) + 2 * (j : Rat) / n := by
    by_cases h2 : 2 ≤ n
    · exact (C18.recip_grid_uniform n h2 shift).2.2 j
    · have h1 : n = 1 := by omega
      have hj0 : j = 0 := by omega
      subst h1; subst hj0
      cases shift <;> simp [recipGrid, Grid.point]
  rw [hp]
  have hk : (k : Rat) = 2 * ((k / 2 : Nat) : Rat) + ((k % 2 : Nat) : Rat) := by
    have := Nat.div_add_mod k 2
    exact_mod_cast this.symm
  cases shift <;> cases plus
  · exact ⟨0, by simp [preExp, postExp, sgnOf]; field_simp; ring⟩
  · exact ⟨0, by simp [preExp, postExp, sgnOf]; field_simp; ring⟩
  · refine ⟨-((k / 2 : Nat) : Int), ?_⟩
    simp only [preExp, postExp, sgnOf, if_true, Bool.false_eq_true, if_false]
    generalize k / 2 = m at hk ⊢
    generalize k % 2 = r at hk ⊢
    push_cast
    field_simp
    linear_combination (-(n : Rat)) * hk
  · refine ⟨((k / 2 : Nat) : Int) + ((k % 2 : Nat) : Int), ?_⟩
    simp only [preExp, postExp, sgnOf, if_true]
    generalize k / 2 = m at hk ⊢
    generalize k % 2 = r at hk ⊢
    push_cast
    field_simp
    linear_combination (n : Rat) * hk

example : EqMod2 (preExp 5 true false 3 + sgnOf false * (2 * 3 * 2 / 5)
      + postExp false (1/2) ((recipGrid 5 true false).point 2))
    (sgnOf false * ((1/2 + 3) * (recipGrid 5 true false).point 2)) :=
  by simpa using C18.phase_factorisation 5 (by norm_num) true false (1/2) 3 2 (by norm_num)

/-- On a shifted axis every pre-processing factor is `±1` (integer exponent): real data
stays real, which the half-complex transform relies on. -/
theorem C18.pre_factor_real_of_shift (n : Nat) (plus : Bool) (k : Nat) :
    ∃ z : Int, preExp n true plus k = (z : Rat) :=
  ⟨((k % 2 : Nat) : Int), by unfold preExp; simp only [if_true]; exact (Int.cast_natCast _).symm⟩

/-- On a NON-shifted axis with `n ≥ 2` points the factor of node 1 is not real
(`exp(∓iπ(1-1/n))`, `0 < 1 - 1/n < 1`): real data becomes complex. -/
theorem C18.pre_factor_not_real_of_no_shift (n : Nat) (hn : 2 ≤ n) (plus : Bool) :
    ¬ ∃ z : Int, preExp n false plus 1 = (z : Rat) := by
  rintro ⟨z, hz⟩
  have hn0 : (n : Rat) ≠ 0 := by exact_mod_cast (by omega : n ≠ 0)
  cases plus
  · simp [preExp, sgnOf] at hz
    have h : (n : Rat) - 1 = z * n := by field_simp at hz; linarith
    have h' : (n : Int) - 1 = z * n := by exact_mod_cast h
    rcases le_or_gt z 0 with hz0 | hz0 <;> nlinarith
  · simp [preExp, sgnOf] at hz
    have h : 1 - (n : Rat) = z * n := by field_simp at hz; linarith
    have h' : 1 - (n : Int) = z * n := by exact_mod_cast h
    rcases le_or_gt z (-1) with hz0 | hz0 <;> nlinarith

/-- The forward and inverse continuous transforms run on both back-ends for every shift
pattern on complex spaces and on real spaces without `halfcomplex`, and with `halfcomplex`
whenever every transformed axis is shifted (`halfcomplex` is only ever set on real spaces). -/
theorem C18.ft_status_partial (fftw real hc : Bool) (shifts : List Bool)
    (h : hc = true → shifts.all id = true) (hreal : hc = true → real = true) :
    ftForwardStatus fftw real hc shifts = none ∧ ftInverseStatus hc shifts = none := by
  cases fftw <;> cases real <;> cases hc <;>
    simp_all [ftForwardStatus, ftInverseStatus, preprocComplex]

/-- Counterexample on the model (open finding F18e): a non-shifted axis next to the halved
one breaks the half-complex transform — the NumPy forward runs, but on data whose imaginary
part was dropped (see `pre_factor_not_real_of_no_shift`); the pyfftw forward asserts; both
inverses raise. -/
theorem C18.ft_halfcomplex_mixed_shift_fails :
    preprocComplex true [false, true] = true ∧
    ftForwardStatus false true true [false, true] = none ∧
    ftForwardStatus true true true [false, true] = some "err:assert" ∧
    ftInverseStatus true [false, true] = some "err:cast" := by decide

/-- **The inverse's factors cancel the forward's** (`FourierTransformInverse`: division by
the kernel and phase with the flipped sign; `dft_preprocess_data` with the flipped sign):
the phase exponents of the forward post-processing and the inverse pre-processing add up to
0, and those of the forward pre-processing and the inverse post-processing to 0 modulo 2,
for every `n`, shift, sign, node and offset. -/
theorem C18.ft_inverse_factors (n : Nat) (shift plus : Bool) (t c : Rat) (k : Nat) :
    postExp plus t c + postExp (!plus) t c = 0 ∧
    EqMod2 (preExp n shift plus k + preExp n shift (!plus) k) 0 := by
  constructor
  · cases plus <;> simp [postExp, sgnOf]
  · cases shift
    · exact ⟨0, by cases plus <;> simp [preExp, sgnOf]⟩
    · refine ⟨((k % 2 : Nat) : Int), ?_⟩
      simp only [preExp, if_true]
      generalize k % 2 = r
      push_cast; ring

/-! ## The continuous transform as a whole (`FourierTransform`, `FourierTransformInverse`) -/

/-- **The continuous-FT approximation recovers its input through its inverse.**  Over any
field with a primitive `n`-th root of unity, for ANY phase function `e` (a character of
`(ℚ,+)` of period 2, e.g. `q ↦ exp(iπ q)`), any non-vanishing kernel factors `amp`, any
reciprocal nodes `c`, offset `t`, both shift options and both signs: one axis of
`FourierTransformInverse._call_numpy` (sign flipped: divide by the kernel, flipped phase,
inverse DFT with the coded normalisation, flipped pre-processing) applied to one axis of
`FourierTransform._call_numpy` returns the input, for every `n` and every input. -/
theorem C18.ft_inverse {K : Type} [Field K] (e : Rat → K) (he : IsPhase e)
    (w : K) (n : Nat) (hn : 0 < n) (hnK : (n : K) ≠ 0) (hw : IsPrimRoot w n)
    (amp : Nat → K) (hamp : ∀ j, j < n → amp j ≠ 0) (c : Nat → Rat) (t : Rat)
    (shift plus : Bool) (f : Nat → K) (k : Nat) (hk : k < n) :
    ftInverseAxis e amp c t shift (!plus) w w⁻¹ n
      (ftForwardAxis e amp c t shift plus w w⁻¹ n f) k = f k := by
  unfold ftInverseAxis
  have hcongr := dftInverseNp_congr (!plus) w w⁻¹ n
    (fun j => e (postExp (!plus) t (c j)) / amp j * ftForwardAxis e amp c t shift plus w w⁻¹ n f j)
    (dftForwardNp plus w w⁻¹ n (fun k => e (preExp n shift plus k) * f k))
    (by
      intro j hj
      unfold ftForwardAxis
      have h0 := (C18.ft_inverse_factors n shift plus t (c j) 0).1
      have : e (postExp (!plus) t (c j)) * e (postExp plus t (c j)) = 1 := by
        rw [← he.add, add_comm, h0, he.zero]
      have ha := hamp j hj
      generalize dftForwardNp plus w w⁻¹ n (fun k => e (preExp n shift plus k) * f k) j = D
      field_simp
      linear_combination D * this) k
  rw [hcongr, C18.dft_inverse w n hn hnK hw plus _ k hk]
  have h1 := (C18.ft_inverse_factors n shift plus t 0 k).2
  have : e (preExp n shift (!plus) k) * e (preExp n shift plus k) = 1 := by
    rw [← he.add, add_comm, he.eq_of_eqMod2 h1, he.zero]
  linear_combination (f k) * this

/-- **The forward transform is the discretised Fourier integral.**  With `e = exp(iπ ·)`
and the FFT root `w = e(-2/n) = exp(-2πi/n)`, one axis of `FourierTransform._call_numpy` on the
full reciprocal grid computes `amp_j · Σ_k f_k · exp(± i x_k ξ_j)` (`x_k = x0 + k s`,
`ξ_j = c_j π/s`), for every `n ≥ 1`, shift, sign, offset and input — pre- and post-processing
factors and the DFT kernel multiply up to exactly the Fourier kernel. -/
theorem C18.ft_forward_is_fourier_sum {K : Type} [Field K] (e : Rat → K) (he : IsPhase e)
    (n : Nat) (hn : 1 ≤ n) (hnK : (n : K) ≠ 0) (amp : Nat → K) (t : Rat)
    (shift plus : Bool) (f : Nat → K) (j : Nat) (hj : j < n) :
    ftForwardAxis e amp (recipGrid n shift false).point t shift plus
        (e (-2 / n)) (e (-2 / n))⁻¹ n f j
      = amp j * ∑ k ∈ Finset.range n,
          f k * e (sgnOf plus * ((t + k) * (recipGrid n shift false).point j)) := by
  set cj := (recipGrid n shift false).point j with hcj
  have hinv : (e (-2 / n))⁻¹ = e (2 / n) := by
    have := he.neg_mul (2 / (n : Rat))
    rw [show -(2 / (n : Rat)) = -2 / n by ring] at this
    exact inv_eq_of_mul_eq_one_right this
  have key : ∀ k : Nat, e (postExp plus t cj) * (e (preExp n shift plus k) *
      e (sgnOf plus * 2 / n) ^ (k * j)) = e (sgnOf plus * ((t + k) * cj)) := by
    intro k
    rw [he.pow, ← he.add, ← he.add]
    apply he.eq_of_eqMod2
    obtain ⟨z, hz⟩ := C18.phase_factorisation n hn shift plus t k j hj
    exact ⟨z, by rw [← hz, ← hcj]; push_cast; ring⟩
  unfold ftForwardAxis
  rw [hinv]
  cases plus
  · have hr : e (-2 / (n : Rat)) = e (sgnOf false * 2 / n) := by simp [sgnOf]
    simp only [dftForwardNp, Bool.false_eq_true, if_false, dftSum_eq]
    rw [Finset.mul_sum, Finset.mul_sum]
    apply Finset.sum_congr rfl
    intro k _
    rw [hr, ← key k]; ring
  · have hr : e (2 / (n : Rat)) = e (sgnOf true * 2 / n) := by simp [sgnOf]
    simp only [dftForwardNp, npIfft, if_true, dftSum_eq]
    rw [mul_div_cancel₀ _ hnK, Finset.mul_sum, Finset.mul_sum]
    apply Finset.sum_congr rfl
    intro k _
    rw [hr, ← key k]; ring

/-- **Link between the executed n-d definition and the one-axis maps of the theorems.**
On a 1-d array (shape `[n]`, axes `[0]`) the n-d definitions the driver executes for the
non-half-complex transforms, `ftForwardSepNd` / `ftInverseSepNd` (fibre-wise composition of the
one-axis maps), return at every index `k < n` exactly `ftForwardAxis` / `ftInverseAxis` of the
input — the functions `ft_inverse` and `ft_forward_is_fourier_sum` are about.  (For more axes
the definitions apply the same maps along every fibre, `alongAxis`; no composition theorem is
proved for `d > 1`.) -/
theorem C18.ft_sep_1d {K : Type} [Field K] [Inhabited K] (roots : Nat → Option (K × K))
    (e : Rat → K) (amp : Nat → Nat → K) (c : Nat → Nat → Rat) (t : Nat → Rat)
    (plus sh : Bool) (n : Nat) (w winv : K) (hroots : roots n = some (w, winv))
    (x : Array K) (k : Nat) (hk : k < n) :
    (ftForwardSepNd roots e amp c t plus [n] [0] [sh] x).map (fun r => r.2.getD k default)
      = some (ftForwardAxis e (amp 0) (c 0) (t 0) sh plus w winv n
          (fun j => x.getD j default) k) ∧
    (ftInverseSepNd roots e amp c t plus [n] [0] [sh] x).map (fun r => r.2.getD k default)
      = some (ftInverseAxis e (amp 0) (c 0) (t 0) sh plus w winv n
          (fun j => x.getD j default) k) := by
  constructor
  · simp [ftForwardSepNd, hroots, applyAxes, axisSplit]
    simpa using alongAxis_one n n _ x k hk
  · simp [ftInverseSepNd, hroots, applyAxes, axisSplit]
    simpa using alongAxis_one n n _ x k hk

/-- **Half-complex continuous transform round trip** (the default of `FourierTransform` on real
spaces).  With a conjugation `σ` (`σ w = w⁻¹`, `σ (e q) = e (-q)`), real data `f`, non-vanishing
kernel factors on the stored nodes: the halved-axis inverse `ftInverseAxisHc` (kernel division,
phase, `irfft(·, n)`, factors `(-1)^k`) applied to ANY array agreeing with the forward transform
on the `n/2+1` stored nodes returns the input, for even and odd `n`.  Uses that on a shifted axis
the pre-processed data stays real (`pre_factor_real_of_shift`). -/
theorem C18.ft_halfcomplex_inverse {K : Type} [Field K] (e : Rat → K) (he : IsPhase e)
    (σ : K →+* K) (hσe : ∀ q, σ (e q) = e (-q))
    (w : K) (n : Nat) (hn : 0 < n) (hnK : (n : K) ≠ 0) (hw : IsPrimRoot w n) (hσ : σ w = w⁻¹)
    (amp : Nat → K) (hamp : ∀ j, j ≤ n / 2 → amp j ≠ 0) (c : Nat → Rat) (t : Rat)
    (f : Nat → K) (hf : ∀ j, σ (f j) = f j)
    (g : Nat → K)
    (hg : ∀ j, j ≤ n / 2 → g j = ftForwardAxis e amp c t true false w w⁻¹ n f j)
    (k : Nat) (hk : k < n) :
    ftInverseAxisHc e σ amp c t w⁻¹ n g k = f k := by
  -- the pre-processed data is real
  have hpre : ∀ k p, preExp n true p k = ((k % 2 : Nat) : Rat) := by intro k p; simp [preExp]
  have hreal : ∀ r : Nat, e (-(r : Rat)) = e (r : Rat) :=
    fun r => he.eq_of_eqMod2 ⟨-(r : Int), by push_cast; ring⟩
  set f' : Nat → K := fun k => e (preExp n true false k) * f k with hf'
  have hf'real : ∀ j, σ (f' j) = f' j := by
    intro j; simp only [hf', map_mul, hσe, hf, hpre, hreal]
  have hh : ∀ j, j ≤ n / 2 →
      (e (postExp true t (c j)) / amp j) * g j = dftSum w n f' j := by
    intro j hj
    rw [hg j hj]
    unfold ftForwardAxis
    have h0 := (C18.ft_inverse_factors n true false t (c j) 0).1
    have : e (postExp true t (c j)) * e (postExp false t (c j)) = 1 := by
      rw [← he.add, add_comm]; simpa [he.zero] using congrArg e h0
    have ha := hamp j hj
    have hD : dftForwardNp false w w⁻¹ n (fun k => e (preExp n true false k) * f k) j
        = dftSum w n f' j := by simp [dftForwardNp, hf']
    rw [hD]
    generalize dftSum w n f' j = D
    field_simp
    linear_combination D * this
  unfold ftInverseAxisHc
  rw [C18.halfcomplex_roundtrip σ w n hn hnK hw hσ f' hf'real _ hh k hk]
  simp only [hf', hpre]
  generalize k % 2 = r
  have : e (r : Rat) * e (r : Rat) = 1 := by
    rw [← he.add]
    have := he.two_mul_int (r : Int)
    rw [← this]; congr 1; push_cast; ring
  linear_combination (f k) * this

/-- **Lifting to n-d arrays of any shape** (about `alongAxis`, the executed fibre operator of
every n-d definition of the driver): if a one-axis map `G` reads only the first `len` entries
and inverts `F` on them, then applying `G` along an axis after `F` along the same axis returns
the array, at every flat index, for every `(outer, len, inner)` split (i.e. every shape and
every axis position), every array content. -/
theorem C18.along_axis_left_inverse {K : Type} [Inhabited K] (outer len inner : Nat)
    (F G : (Nat → K) → Nat → K)
    (hcongr : ∀ f g : Nat → K, (∀ j, j < len → f j = g j) → ∀ k, G f k = G g k)
    (hGF : ∀ (f : Nat → K) (k : Nat), k < len → G (F f) k = f k)
    (x : Array K) (idx : Nat) (h : idx < outer * len * inner) :
    (alongAxis outer len inner len G (alongAxis outer len inner len F x)).getD idx default
      = x.getD idx default := by
  have hinner : 0 < inner := by
    rcases Nat.eq_zero_or_pos inner with h0 | h0
    · subst h0; simp at h
    · exact h0
  have hlen : 0 < len := by
    rcases Nat.eq_zero_or_pos len with h0 | h0
    · subst h0; simp at h
    · exact h0
  rw [alongAxis_get _ _ _ _ _ _ _ h]
  set o := idx / inner / len with ho
  set k := idx / inner % len with hk
  set i := idx % inner with hi
  have hkl : k < len := Nat.mod_lt _ hlen
  have hil : i < inner := Nat.mod_lt _ hinner
  have hidx : idx = (o * len + k) * inner + i := by
    have h1 : idx = idx / inner * inner + idx % inner := (Nat.div_add_mod' idx inner).symm
    have h2 : idx / inner = idx / inner / len * len + idx / inner % len := (Nat.div_add_mod' _ len).symm
    rw [ho, hk, hi, ← h2, ← h1]
  have ho_lt : o < outer := by
    rw [ho, Nat.div_div_eq_div_mul, Nat.div_lt_iff_lt_mul (Nat.mul_pos hinner hlen)]
    calc idx < outer * len * inner := h
      _ = outer * (inner * len) := by ring
  -- the fibre read by G is F of the fibre of x
  have hfib : ∀ j, j < len →
      (alongAxis outer len inner len F x).getD ((o * len + j) * inner + i) default
        = F (fun k' => x.getD ((o * len + k') * inner + i) default) j := by
    intro j hj
    have hb : (o * len + j) * inner + i < outer * len * inner := by
      have : o * len + j < outer * len := by nlinarith
      nlinarith
    rw [alongAxis_get _ _ _ _ _ _ _ hb]
    obtain ⟨a, b, c⟩ := fibre_index len inner o j i hj hil
    rw [a, b, c]
  rw [hcongr _ (F (fun k' => x.getD ((o * len + k') * inner + i) default)) hfib k,
    hGF _ k hkl, ← hidx]

/-- The plain DFT along ONE axis of an n-d array of any shape, followed by the inverse the code
pairs with it (flipped sign, coded normalisation) along the same axis, is the identity — the
executed `alongAxis` of the executed one-axis maps `dftForwardNp` / `dftInverseNp`. -/
theorem C18.dft_inverse_along_axis {K : Type} [Field K] [Inhabited K] (outer n inner : Nat)
    (w : K) (hnK : (n : K) ≠ 0) (hw : IsPrimRoot w n) (plus : Bool)
    (x : Array K) (idx : Nat) (h : idx < outer * n * inner) :
    (alongAxis outer n inner n (dftInverseNp (!plus) w w⁻¹ n)
        (alongAxis outer n inner n (dftForwardNp plus w w⁻¹ n) x)).getD idx default
      = x.getD idx default := by
  have hn : 0 < n := by
    rcases Nat.eq_zero_or_pos n with h0 | h0
    · subst h0; simp at h
    · exact h0
  exact C18.along_axis_left_inverse outer n inner _ _
    (fun f g hfg k => dftInverseNp_congr (!plus) w w⁻¹ n f g hfg k)
    (fun f k hk => C18.dft_inverse w n hn hnK hw plus f k hk) x idx h

/-- The continuous-FT approximation along ONE axis of an n-d array of any shape recovers its
input through its inverse along that axis (`ftForwardAxis` / `ftInverseAxis` under `alongAxis`,
the steps of the executed `ftForwardSepNd` / `ftInverseSepNd`), for every shift, sign, kernel
factors and phase function. -/
theorem C18.ft_inverse_along_axis {K : Type} [Field K] [Inhabited K] (outer n inner : Nat)
    (e : Rat → K) (he : IsPhase e) (w : K) (hnK : (n : K) ≠ 0) (hw : IsPrimRoot w n)
    (amp : Nat → K) (hamp : ∀ j, j < n → amp j ≠ 0) (c : Nat → Rat) (t : Rat)
    (shift plus : Bool) (x : Array K) (idx : Nat) (h : idx < outer * n * inner) :
    (alongAxis outer n inner n (ftInverseAxis e amp c t shift (!plus) w w⁻¹ n)
        (alongAxis outer n inner n (ftForwardAxis e amp c t shift plus w w⁻¹ n) x)).getD idx default
      = x.getD idx default := by
  have hn : 0 < n := by
    rcases Nat.eq_zero_or_pos n with h0 | h0
    · subst h0; simp at h
    · exact h0
  refine C18.along_axis_left_inverse outer n inner _ _ ?_
    (fun f k hk => C18.ft_inverse e he w n hn hnK hw amp hamp c t shift plus f k hk) x idx h
  intro f g hfg k
  unfold ftInverseAxis
  rw [dftInverseNp_congr (!plus) w w⁻¹ n _ _ (fun j hj => by rw [hfg j hj]) k]

/-- Non-vacuity: 2-point transforms with `w = -1` along the middle axis of a 2×2×3 array. -/
example (x : Array ℚ) (idx : Nat) (h : idx < 2 * 2 * 3) :
    (alongAxis 2 2 3 2 (dftInverseNp true (-1 : ℚ) (-1)⁻¹ 2)
        (alongAxis 2 2 3 2 (dftForwardNp false (-1 : ℚ) (-1)⁻¹ 2) x)).getD idx default
      = x.getD idx default :=
  C18.dft_inverse_along_axis 2 2 3 (-1 : ℚ) (by norm_num)
    ⟨by norm_num, by intro d hd hd2; have : d = 1 := by omega
                     subst this; norm_num⟩ false x idx h

/-- `dft_nd_halfcomplex_inverse` for an axes list written as `B ++ [h]` (`h` the halved axis); see
there for the meaning. -/
theorem C18.dft_nd_halfcomplex_inverse_snoc {K : Type} [Field K] [Inhabited K] (σ : K →+* K) (re : K → K)
    (hre : ∀ z, σ z = z → re z = z) (w : Nat → K) (fftw : Bool)
    (rshape B : List Nat) (h : Nat) (hnd : (B ++ [h]).Nodup)
    (hin : ∀ a ∈ B ++ [h], a < rshape.length)
    (hprim : ∀ a ∈ B ++ [h], IsPrimRoot (w (rshape.getD a 1)) (rshape.getD a 1) ∧
      ((rshape.getD a 1 : Nat) : K) ≠ 0)
    (hσ : σ (w (rshape.getD h 1)) = (w (rshape.getD h 1))⁻¹)
    (x : Array K) (hx : x.size = lprod rshape)
    (hreal : ∀ i, σ (x.getD i default) = x.getD i default) :
    (dftForwardNd (fun n => some (w n, (w n)⁻¹)) fftw false true rshape (B ++ [h]) x).bind
        (fun r => dftInverseNd (fun n => some (w n, (w n)⁻¹)) σ re fftw true true rshape (B ++ [h]) r.2)
      = some (rshape, x) := by
  have hhB : h ∉ B := by
    have := List.nodup_append.mp hnd
    intro hm; exact this.2.2 h hm h (by simp) rfl
  have hh : h < rshape.length := hin h (by simp)
  rw [dftForwardNd_eq, Option.bind_some, dftInverseNd_hc_eq]
  congr 1
  have hlast : (B ++ [h]).getLast? = some h := by simp
  rw [hlast, fshape_eq_set rshape h hh]
  set n : Nat → Nat := fun a => rshape.getD a 1 with hn
  set Ff : Nat → (Nat → K) → Nat → K := fun a =>
    if fftw then dftForwardFftw false (w (n a)) (w (n a))⁻¹ (n a)
    else dftForwardNp false (w (n a)) (w (n a))⁻¹ (n a) with hFf
  set Gf : Nat → (Nat → K) → Nat → K := fun a =>
    if fftw then dftInverseFftw true (w (n a)) (w (n a))⁻¹ (n a)
    else dftInverseNp true (w (n a)) (w (n a))⁻¹ (n a) with hGf
  set Gh : (Nat → K) → Nat → K := fun g k => re (npIrfft σ (w (n h))⁻¹ (n h) g k) with hGh
  -- the step lists
  have hfwd : ((B ++ [h]).reverse.map fun a =>
      ((a, (if true && some a == some h then hcLen (rshape.getD a 1) else rshape.getD a 1),
        if fftw then dftForwardFftw false (w (rshape.getD a 1)) (w (rshape.getD a 1))⁻¹ (rshape.getD a 1)
        else dftForwardNp false (w (rshape.getD a 1)) (w (rshape.getD a 1))⁻¹ (rshape.getD a 1)) : Step K))
      = ((h, hcLen (n h), Ff h) : Step K) :: (B.reverse.map fun a => ((a, n a, Ff a) : Step K)) := by
    rw [List.reverse_append, List.map_append]
    simp only [List.reverse_cons, List.reverse_nil, List.nil_append, List.map_cons, List.map_nil,
      List.singleton_append]
    congr 1
    · simp [hFf, hn]
    · apply List.map_congr_left
      intro a ha
      have : a ≠ h := fun e => hhB (e ▸ (by simpa using ha))
      simp [this, hFf, hn]
  have hinv : ((B ++ [h]).map fun a =>
      ((a, rshape.getD a 1,
        if true && some a == some h then
          fun g k => re (npIrfft σ (w (rshape.getD a 1))⁻¹ (rshape.getD a 1) g k)
        else if fftw then dftInverseFftw true (w (rshape.getD a 1)) (w (rshape.getD a 1))⁻¹ (rshape.getD a 1)
        else dftInverseNp true (w (rshape.getD a 1)) (w (rshape.getD a 1))⁻¹ (rshape.getD a 1)) : Step K))
      = (B.map fun a => ((a, n a, Gf a) : Step K)) ++ [((h, n h, Gh) : Step K)] := by
    rw [List.map_append]
    congr 1
    · apply List.map_congr_left
      intro a ha
      have : a ≠ h := fun e => hhB (e ▸ ha)
      simp [this, hGf, hn]
    · simp [hGh, hn]
  rw [hfwd, hinv, applyAxes_eq_foldl, applyAxes_eq_foldl, List.foldl_cons]
  -- first forward step
  set S1 := stepFn (rshape, x) ((h, hcLen (n h), Ff h) : Step K) with hS1
  have hS1sh : S1.1 = rshape.set h (hcLen (n h)) := rfl
  have hS1sz : S1.2.size = lprod (rshape.set h (hcLen (n h))) := by
    have := axisSplit_prod (rshape.set h (hcLen (n h))) h (by simpa using hh)
    rw [axisSplit_set rshape h _ hh] at this
    rw [← this]; simp only [hS1, stepFn]; rw [alongAxis_size]
  have hBlt : ∀ a ∈ B, a < (rshape.set h (hcLen (n h))).length := fun a ha => by
    simpa using hin a (by simp [ha])
  have hBlen : ∀ a ∈ B, (rshape.set h (hcLen (n h))).getD a 1 = n a := fun a ha => by
    have : h ≠ a := fun e => hhB (e ▸ ha)
    simp [hn, List.getD_eq_getElem?_getD, List.getElem?_set, this]
  have hS1eq : S1 = (rshape.set h (hcLen (n h)), S1.2) := Prod.ext hS1sh rfl
  -- facts per axis
  have hax : ∀ a ∈ B ++ [h], 0 < n a ∧ ((n a : Nat) : K) ≠ 0 ∧ IsPrimRoot (w (n a)) (n a) := by
    intro a ha
    obtain ⟨p1, p2⟩ := hprim a ha
    refine ⟨?_, p2, p1⟩
    rcases Nat.eq_zero_or_pos (n a) with h0 | h0
    · exfalso; apply p2; simp only [hn] at h0; rw [h0]; simp
    · exact h0
  have hFf_eq : ∀ a ∈ B ++ [h], ∀ f, Ff a f = dftForwardNp false (w (n a)) (w (n a))⁻¹ (n a) f := by
    intro a ha f
    funext k
    simp only [hFf]
    cases fftw
    · rfl
    · exact (C18.dft_backends_agree (w (n a)) (w (n a))⁻¹ (n a) (hax a ha).2.1 false f k).1
  have hGf_eq : ∀ a ∈ B ++ [h], ∀ f k, Gf a f k = dftInverseNp true (w (n a)) (w (n a))⁻¹ (n a) f k := by
    intro a ha f k
    simp only [hGf]
    cases fftw
    · rfl
    · exact (C18.dft_backends_agree (w (n a)) (w (n a))⁻¹ (n a) (hax a ha).2.1 true f k).2
  -- the forward steps over B keep the shape
  obtain ⟨hs1, hs2⟩ := fold_shape B.reverse (rshape.set h (hcLen (n h))) n Ff
    (fun b hb => hBlt b (by simpa using hb)) (fun b hb => hBlen b (by simpa using hb)) S1.2 hS1sz
  rw [hS1eq]
  set Y := (B.reverse.map fun a => ((a, n a, Ff a) : Step K)).foldl stepFn
    (rshape.set h (hcLen (n h)), S1.2) with hY
  have hYeq : (rshape.set h (hcLen (n h)), Y.2) = Y := Prod.ext hs1.symm rfl
  rw [hYeq, List.foldl_append, hY]
  rw [middle_cancel B (rshape.set h (hcLen (n h))) n Ff Gf hBlt hBlen ?_ ?_ S1.2 hS1sz]
  · -- the halved axis
    simp only [List.foldl_cons, List.foldl_nil]
    rw [← hS1eq, hS1]
    obtain ⟨hpos, hnK, hw⟩ := hax h (by simp)
    have := step_pair_cancel rshape x h (hcLen (n h)) (Ff h) Gh
      (fun f => ∀ j, σ (f j) = f j) hh hx
      (fun f g hfg k => by simp only [hGh]; rw [irfft_congr σ _ (n h) f g hfg k])
      (fun f hf k hk => by
        simp only [hGh]
        rw [hFf_eq h (by simp)]
        have hr := C18.halfcomplex_roundtrip σ (w (n h)) (n h) hpos hnK hw hσ f hf
          (dftForwardNp false (w (n h)) (w (n h))⁻¹ (n h) f)
          (fun j _ => by simp [dftForwardNp]) k hk
        rw [hr]; exact hre _ (hf k))
      (fun g j => hreal (g j))
    exact this
  · intro a ha f g hfg k
    rw [hGf_eq a (by simp [ha]), hGf_eq a (by simp [ha])]
    exact dftInverseNp_congr true _ _ (n a) f g hfg k
  · intro a ha f k hk
    obtain ⟨hpos, hnK, hw⟩ := hax a (by simp [ha])
    rw [hGf_eq a (by simp [ha]), hFf_eq a (by simp [ha])]
    exact C18.dft_inverse (w (n a)) (n a) hpos hnK hw false f k hk

/-- **The n-d half-complex DFT round trip, any number of axes** (the default `halfcomplex=True` of
`DiscreteFourierTransform` on real spaces; the executed `dftForwardNd` / `dftInverseNd` — the
definitions the `dft` stream compares with the real operators).  For every real-space shape, every
non-empty duplicate-free in-range axes list (any order; the LAST entry is the halved axis, as in the
code), both back-ends, over any field with a conjugation `σ` and primitive roots of unity for the
transformed lengths: for every REAL array of that shape, `rfftn` (model: the 1-d transforms along
the axes, last axis first, the last one keeping `n/2+1` entries) followed by
`DiscreteFourierTransformInverse(halfcomplex=True)` (complex inverse along all axes but the last in
the given order, then `irfft(·, n)` along the last one and the real part) returns `(shape, x)`
EXACTLY — even and odd lengths, untouched axes anywhere.  No commutation of axes is needed here
because the code's own orders telescope (forward: last axis first; half-complex inverse: first axis
first).  `re` is any map fixing the `σ`-fixed elements (the real part). -/
theorem C18.dft_nd_halfcomplex_inverse {K : Type} [Field K] [Inhabited K] (σ : K →+* K)
    (re : K → K) (hre : ∀ z, σ z = z → re z = z)
    (roots : Nat → Option (K × K)) (w : Nat → K) (hroots : ∀ n, roots n = some (w n, (w n)⁻¹))
    (fftw : Bool) (rshape axes : List Nat) (hne : axes ≠ []) (hnd : axes.Nodup)
    (hin : ∀ a ∈ axes, a < rshape.length)
    (hprim : ∀ a ∈ axes, IsPrimRoot (w (rshape.getD a 1)) (rshape.getD a 1) ∧
      ((rshape.getD a 1 : Nat) : K) ≠ 0)
    (hσ : ∀ a ∈ axes, σ (w (rshape.getD a 1)) = (w (rshape.getD a 1))⁻¹)
    (x : Array K) (hx : x.size = OdlModel.Wavelet.prod rshape)
    (hreal : ∀ i, σ (x.getD i default) = x.getD i default) :
    (dftForwardNd roots fftw false true rshape axes x).bind
        (fun r => dftInverseNd roots σ re fftw true true rshape axes r.2)
      = some (rshape, x) := by
  have hr : roots = fun n => some (w n, (w n)⁻¹) := funext hroots
  subst hr
  obtain ⟨B, h, rfl⟩ : ∃ B h, axes = B ++ [h] :=
    ⟨axes.dropLast, axes.getLast hne, (List.dropLast_append_getLast hne).symm⟩
  exact C18.dft_nd_halfcomplex_inverse_snoc σ re hre w fftw rshape B h hnd hin hprim (hσ h (by simp)) x hx hreal

/-- Non-vacuity: shape `(2, 3, 2)`, axes `(2, 0)` (axis 0 halved, axis 1 of odd length untouched), `w = -1`. -/
example (x : Array ℚ) (hx : x.size = 12) (fftw : Bool) :
    (dftForwardNd (fun n => some (if n = 2 then (-1 : ℚ) else 1, (if n = 2 then (-1 : ℚ) else 1)⁻¹))
        fftw false true [2, 3, 2] [2, 0] x).bind
      (fun r => dftInverseNd (fun n => some (if n = 2 then (-1 : ℚ) else 1, (if n = 2 then (-1 : ℚ) else 1)⁻¹))
        (RingHom.id ℚ) id fftw true true [2, 3, 2] [2, 0] r.2) = some ([2, 3, 2], x) := by
  have h2 : IsPrimRoot (-1 : ℚ) 2 := ⟨by norm_num, by
    intro d hd hd2; have : d = 1 := by omega
    subst this; norm_num⟩
  refine C18.dft_nd_halfcomplex_inverse (RingHom.id ℚ) id (fun z _ => rfl) _
    (fun n => if n = 2 then (-1 : ℚ) else 1) (fun _ => rfl) fftw [2, 3, 2] [2, 0] (by simp) (by decide)
    (by decide) ?_ ?_ x (by simpa [OdlModel.Wavelet.prod] using hx) (fun _ => rfl)
  · intro a ha
    have : a = 2 ∨ a = 0 := by simpa using ha
    rcases this with rfl | rfl <;> exact ⟨by simpa using h2, by norm_num⟩
  · intro a ha
    have : a = 2 ∨ a = 0 := by simpa using ha
    rcases this with rfl | rfl <;> norm_num

/-- **Transforms along different axes commute** (about the executed fibre operator `alongAxis`):
for two matrix maps (`F f k = Σ_j MF k j · f j`, such as every DFT / inverse DFT / diagonal
pre- or post-processing step of the model) along two DIFFERENT axes of a C-ordered array — in the
five-factor split `(oa, la, M, lb, ib)`: outer block, first axis, the axes between, second axis,
inner block — the two orders give the same array, for every array content and all sizes. -/
theorem C18.along_axis_commute {K : Type} [Field K] [Inhabited K] (oa la M lb ib : Nat)
    (F G : (Nat → K) → Nat → K) (MF MG : Nat → Nat → K) (hF : IsMat F la MF) (hG : IsMat G lb MG)
    (x : Array K) :
    alongAxis oa la (M * lb * ib) la F (alongAxis (oa * la * M) lb ib lb G x)
      = alongAxis (oa * la * M) lb ib lb G (alongAxis oa la (M * lb * ib) la F x) :=
  alongAxis_comm oa la M lb ib F G MF MG hF hG x

/-- Non-vacuity: the inverse 2-point DFT along axis 0 and along axis 2 of a `2×3×2` array. -/
example (x : Array ℚ) :
    alongAxis 1 2 (3 * 2 * 1) 2 (dftInverseNp true (-1 : ℚ) (-1)⁻¹ 2)
        (alongAxis (1 * 2 * 3) 2 1 2 (dftInverseNp true (-1 : ℚ) (-1)⁻¹ 2) x)
      = alongAxis (1 * 2 * 3) 2 1 2 (dftInverseNp true (-1 : ℚ) (-1)⁻¹ 2)
        (alongAxis 1 2 (3 * 2 * 1) 2 (dftInverseNp true (-1 : ℚ) (-1)⁻¹ 2) x) :=
  C18.along_axis_commute 1 2 3 2 1 _ _ _ _ (dftInverseNp_isMat true _ _ 2) (dftInverseNp_isMat true _ _ 2) x

/-- **The n-d DFT round trip without half-complex, any number of axes** (complex spaces, and real
spaces with `halfcomplex=False`; the executed `dftForwardNd` / `dftInverseNd` of the `dft` stream).
For every shape, every duplicate-free in-range axes list in any order, both signs, both back-ends,
over any field with primitive roots of unity for the transformed lengths, for EVERY array of that
shape: `DiscreteFourierTransform` (1-d transforms along the axes, last axis first) followed by the
operator its `inverse` property returns (flipped sign, `1/prod` normalisation, ALSO last axis first —
so the inverse steps meet the forward steps in the wrong order) returns `(shape, x)` exactly.  Uses
`along_axis_commute` to reorder the inverse steps and then telescopes (`dft_inverse` per axis).
`conj`, `re` are not used on this path.  (A real range additionally takes the real part in the
caller; not part of this statement.) -/
theorem C18.dft_nd_inverse {K : Type} [Field K] [Inhabited K] (conj re : K → K)
    (roots : Nat → Option (K × K)) (w : Nat → K) (hroots : ∀ n, roots n = some (w n, (w n)⁻¹))
    (fftw plus : Bool) (rshape axes : List Nat) (hnd : axes.Nodup)
    (hin : ∀ a ∈ axes, a < rshape.length)
    (hprim : ∀ a ∈ axes, IsPrimRoot (w (rshape.getD a 1)) (rshape.getD a 1) ∧
      ((rshape.getD a 1 : Nat) : K) ≠ 0)
    (x : Array K) (hx : x.size = OdlModel.Wavelet.prod rshape) :
    (dftForwardNd roots fftw plus false rshape axes x).bind
        (fun r => dftInverseNd roots conj re fftw (!plus) false rshape axes r.2)
      = some (rshape, x) := by
  have hr : roots = fun n => some (w n, (w n)⁻¹) := funext hroots
  subst hr
  rw [dftForwardNd_eq, Option.bind_some, dftInverseNd_full_eq]
  congr 1
  set n : Nat → Nat := fun a => rshape.getD a 1 with hn
  set Fn : Nat → (Nat → K) → Nat → K := fun a => dftForwardNp plus (w (n a)) (w (n a))⁻¹ (n a) with hFn
  set Gn : Nat → (Nat → K) → Nat → K := fun a => dftInverseNp (!plus) (w (n a)) (w (n a))⁻¹ (n a) with hGn
  have hax : ∀ a ∈ axes, 0 < n a ∧ ((n a : Nat) : K) ≠ 0 ∧ IsPrimRoot (w (n a)) (n a) := by
    intro a ha
    obtain ⟨p1, p2⟩ := hprim a ha
    refine ⟨?_, p2, p1⟩
    rcases Nat.eq_zero_or_pos (n a) with h0 | h0
    · exfalso; apply p2; simp only [hn] at h0; rw [h0]; simp
    · exact h0
  have hfwd : (axes.reverse.map fun a =>
      ((a, (if false && some a == axes.getLast? then hcLen (rshape.getD a 1) else rshape.getD a 1),
        if fftw then dftForwardFftw plus (w (rshape.getD a 1)) (w (rshape.getD a 1))⁻¹ (rshape.getD a 1)
        else dftForwardNp plus (w (rshape.getD a 1)) (w (rshape.getD a 1))⁻¹ (rshape.getD a 1)) : Step K))
      = (axes.reverse.map fun a => ((a, n a, Fn a) : Step K)) := by
    apply List.map_congr_left
    intro a ha
    have hnK := (hax a (by simpa using ha)).2.1
    simp only [Bool.false_and, Bool.false_eq_true, if_false, hFn, hn]
    congr 2
    cases fftw
    · rfl
    · funext f k
      exact (C18.dft_backends_agree _ _ _ hnK plus f k).1
  have hinv : (axes.reverse.map fun a =>
      ((a, rshape.getD a 1,
        if fftw then dftInverseFftw (!plus) (w (rshape.getD a 1)) (w (rshape.getD a 1))⁻¹ (rshape.getD a 1)
        else dftInverseNp (!plus) (w (rshape.getD a 1)) (w (rshape.getD a 1))⁻¹ (rshape.getD a 1)) : Step K))
      = (axes.reverse.map fun a => ((a, n a, Gn a) : Step K)) := by
    apply List.map_congr_left
    intro a ha
    have hnK := (hax a (by simpa using ha)).2.1
    simp only [hGn, hn]
    congr 2
    cases fftw
    · rfl
    · funext f k
      exact (C18.dft_backends_agree _ _ _ hnK (!plus) f k).2
  rw [hfwd, hinv, applyAxes_eq_foldl, applyAxes_eq_foldl]
  have hlt : ∀ a ∈ axes, a < rshape.length := hin
  have hlen : ∀ a ∈ axes, rshape.getD a 1 = n a := fun _ _ => rfl
  obtain ⟨hs1, hs2⟩ := fold_shape axes.reverse rshape n Fn (fun b hb => hlt b (by simpa using hb))
    (fun b hb => hlen b (by simpa using hb)) x hx
  set Y := (axes.reverse.map fun a => ((a, n a, Fn a) : Step K)).foldl stepFn (rshape, x) with hY
  have hYeq : (rshape, Y.2) = Y := Prod.ext hs1.symm rfl
  rw [fold_reverse axes rshape n Gn
    (fun a k j => if (!plus) then ((w (n a))⁻¹) ^ (j * k) / ((n a : Nat) : K)
      else (w (n a)) ^ (j * k) / ((n a : Nat) : K))
    (fun a => dftInverseNp_isMat (!plus) _ _ _) hnd hlt hlen Y.2, hYeq, hY]
  refine middle_cancel axes rshape n Fn Gn hlt hlen ?_ ?_ x hx
  · intro a _ f g hfg k
    exact dftInverseNp_congr (!plus) _ _ (n a) f g hfg k
  · intro a ha f k hk
    obtain ⟨hpos, hnK, hw⟩ := hax a ha
    exact C18.dft_inverse (w (n a)) (n a) hpos hnK hw plus f k hk

/-- Non-vacuity: shape `(2, 3, 2)`, axes `(2, 0)`, `w = -1`, both signs and back-ends. -/
example (x : Array ℚ) (hx : x.size = 12) (fftw plus : Bool) :
    (dftForwardNd (fun n => some (if n = 2 then (-1 : ℚ) else 1, (if n = 2 then (-1 : ℚ) else 1)⁻¹))
        fftw plus false [2, 3, 2] [2, 0] x).bind
      (fun r => dftInverseNd (fun n => some (if n = 2 then (-1 : ℚ) else 1, (if n = 2 then (-1 : ℚ) else 1)⁻¹))
        id id fftw (!plus) false [2, 3, 2] [2, 0] r.2) = some ([2, 3, 2], x) := by
  have h2 : IsPrimRoot (-1 : ℚ) 2 := ⟨by norm_num, by
    intro d hd hd2; have : d = 1 := by omega
    subst this; norm_num⟩
  refine C18.dft_nd_inverse id id _ (fun n => if n = 2 then (-1 : ℚ) else 1) (fun _ => rfl) fftw plus
    [2, 3, 2] [2, 0] (by decide) (by decide) ?_ x (by simpa [OdlModel.Wavelet.prod] using hx)
  intro a ha
  have : a = 2 ∨ a = 0 := by simpa using ha
  rcases this with rfl | rfl <;> exact ⟨by simpa using h2, by norm_num⟩

/-- **Real spaces without half-complex** (`DiscreteFourierTransform(real space, halfcomplex=False)`
and the inverse its `inverse` property returns, whose REAL range receives the real part of the
complex result — NumPy: assignment to the real array, pyfftw: `out[:] = tmp.real`; in the driver
`y.map re`, compared with the real operators in the `dft` stream with `real=1 hc=0`): for every
shape, duplicate-free axes list, sign, back-end and every REAL array `x`, forward followed by the
inverse INCLUDING the real-part step returns `(shape, x)` exactly.  Corollary of `dft_nd_inverse`;
`re` is any map fixing the `σ`-fixed elements. -/
theorem C18.dft_nd_inverse_real_range {K : Type} [Field K] [Inhabited K] (σ : K →+* K)
    (re : K → K) (hre : ∀ z, σ z = z → re z = z)
    (roots : Nat → Option (K × K)) (w : Nat → K) (hroots : ∀ n, roots n = some (w n, (w n)⁻¹))
    (fftw plus : Bool) (rshape axes : List Nat) (hnd : axes.Nodup)
    (hin : ∀ a ∈ axes, a < rshape.length)
    (hprim : ∀ a ∈ axes, IsPrimRoot (w (rshape.getD a 1)) (rshape.getD a 1) ∧
      ((rshape.getD a 1 : Nat) : K) ≠ 0)
    (x : Array K) (hx : x.size = OdlModel.Wavelet.prod rshape)
    (hreal : ∀ i, σ (x.getD i default) = x.getD i default) :
    ((dftForwardNd roots fftw plus false rshape axes x).bind
        (fun r => dftInverseNd roots σ re fftw (!plus) false rshape axes r.2)).map
      (fun r => (r.1, r.2.map re)) = some (rshape, x) := by
  rw [C18.dft_nd_inverse σ re roots w hroots fftw plus rshape axes hnd hin hprim x hx]
  simp only [Option.map_some]
  congr 2
  apply Array.ext
  · simp
  · intro i h1 h2
    have := hreal i
    simp only [Array.getD, h2, dite_true] at this
    simp only [Array.getElem_map]
    exact hre _ this

/-- Non-vacuity: shape `(2, 3, 2)`, axes `(2, 0)`, `K = ℚ`, `σ = id`. -/
example (x : Array ℚ) (hx : x.size = 12) (fftw plus : Bool) :
    ((dftForwardNd (fun n => some (if n = 2 then (-1 : ℚ) else 1, (if n = 2 then (-1 : ℚ) else 1)⁻¹))
        fftw plus false [2, 3, 2] [2, 0] x).bind
      (fun r => dftInverseNd (fun n => some (if n = 2 then (-1 : ℚ) else 1, (if n = 2 then (-1 : ℚ) else 1)⁻¹))
        (RingHom.id ℚ) id fftw (!plus) false [2, 3, 2] [2, 0] r.2)).map (fun r => (r.1, r.2.map id))
      = some ([2, 3, 2], x) := by
  have h2 : IsPrimRoot (-1 : ℚ) 2 := ⟨by norm_num, by
    intro d hd hd2; have : d = 1 := by omega
    subst this; norm_num⟩
  refine C18.dft_nd_inverse_real_range (RingHom.id ℚ) id (fun z _ => rfl) _
    (fun n => if n = 2 then (-1 : ℚ) else 1) (fun _ => rfl) fftw plus
    [2, 3, 2] [2, 0] (by decide) (by decide) ?_ x (by simpa [OdlModel.Wavelet.prod] using hx) (fun _ => rfl)
  intro a ha
  have : a = 2 ∨ a = 0 := by simpa using ha
  rcases this with rfl | rfl <;> exact ⟨by simpa using h2, by norm_num⟩

/-- **The continuous-FT approximation in n dimensions recovers its input through its inverse,
any number of axes, any shift tuple** (full-complex case; the executed per-axis definitions
`ftForwardSepNd` / `ftInverseSepNd`, compared with `FourierTransform` / `FourierTransformInverse` in
the stream `ft/model-variant=sep`).  For every shape, duplicate-free in-range axes list, per-axis
shift choice (`shifts = axes.map shiftOf`), sign, grid offsets `t`, reciprocal nodes `c`, phase
function `e`, kernel factors `amp` non-vanishing on the transformed axes, primitive roots of unity
for the transformed lengths, and EVERY array: forward followed by the inverse with the flipped sign
returns `(shape, x)` exactly.  Both run last axis first, so the proof reorders the inverse steps with
`along_axis_commute` and telescopes with `ft_inverse`.  (The code stages pre-processing / FFT /
post-processing over all axes — `ftForwardNd`; that staging and the half-complex case have no
composition theorem.) -/
theorem C18.ft_nd_inverse {K : Type} [Field K] [Inhabited K] (e : Rat → K) (he : IsPhase e)
    (roots : Nat → Option (K × K)) (w : Nat → K) (hroots : ∀ n, roots n = some (w n, (w n)⁻¹))
    (amp : Nat → Nat → K) (c : Nat → Nat → Rat) (t : Nat → Rat) (plus : Bool)
    (rshape axes : List Nat) (shiftOf : Nat → Bool) (hnd : axes.Nodup)
    (hin : ∀ a ∈ axes, a < rshape.length)
    (hprim : ∀ a ∈ axes, IsPrimRoot (w (rshape.getD a 1)) (rshape.getD a 1) ∧
      ((rshape.getD a 1 : Nat) : K) ≠ 0)
    (hamp : ∀ a ∈ axes, ∀ j, j < rshape.getD a 1 → amp a j ≠ 0)
    (x : Array K) (hx : x.size = OdlModel.Wavelet.prod rshape) :
    (ftForwardSepNd roots e amp c t plus rshape axes (axes.map shiftOf) x).bind
        (fun r => ftInverseSepNd roots e amp c t (!plus) rshape axes (axes.map shiftOf) r.2)
      = some (rshape, x) := by
  have hr : roots = fun n => some (w n, (w n)⁻¹) := funext hroots
  subst hr
  rw [(ftSep_eq w e amp c t plus rshape axes shiftOf x).1, Option.bind_some,
    (ftSep_eq w e amp c t (!plus) rshape axes shiftOf _).2]
  congr 1
  set n : Nat → Nat := fun a => rshape.getD a 1 with hn
  set Fn : Nat → (Nat → K) → Nat → K := fun a =>
    ftForwardAxis e (amp a) (c a) (t a) (shiftOf a) plus (w (n a)) (w (n a))⁻¹ (n a) with hFn
  set Gn : Nat → (Nat → K) → Nat → K := fun a =>
    ftInverseAxis e (amp a) (c a) (t a) (shiftOf a) (!plus) (w (n a)) (w (n a))⁻¹ (n a) with hGn
  have hax : ∀ a ∈ axes, 0 < n a ∧ ((n a : Nat) : K) ≠ 0 ∧ IsPrimRoot (w (n a)) (n a) := by
    intro a ha
    obtain ⟨p1, p2⟩ := hprim a ha
    refine ⟨?_, p2, p1⟩
    rcases Nat.eq_zero_or_pos (n a) with h0 | h0
    · exfalso; apply p2; simp only [hn] at h0; rw [h0]; simp
    · exact h0
  rw [applyAxes_eq_foldl, applyAxes_eq_foldl]
  have hlen : ∀ a ∈ axes, rshape.getD a 1 = n a := fun _ _ => rfl
  obtain ⟨hs1, hs2⟩ := fold_shape axes.reverse rshape n Fn (fun b hb => hin b (by simpa using hb))
    (fun b hb => hlen b (by simpa using hb)) x hx
  set Y := (axes.reverse.map fun a => ((a, n a, Fn a) : Step K)).foldl stepFn (rshape, x) with hY
  have hYeq : (rshape, Y.2) = Y := Prod.ext hs1.symm rfl
  rw [fold_reverse axes rshape n Gn _
    (fun a => ftInverseAxis_isMat e (amp a) (c a) (t a) (shiftOf a) (!plus) _ _ (n a)) hnd hin hlen Y.2,
    hYeq, hY]
  refine middle_cancel axes rshape n Fn Gn hin hlen ?_ ?_ x hx
  · intro a _ f g hfg k
    simp only [hGn]
    unfold ftInverseAxis
    rw [dftInverseNp_congr (!plus) _ _ (n a) _ _ (fun j hj => by rw [hfg j hj]) k]
  · intro a ha f k hk
    obtain ⟨hpos, hnK, hw⟩ := hax a ha
    exact C18.ft_inverse e he (w (n a)) (n a) hpos hnK hw (amp a) (hamp a ha) (c a) (t a)
      (shiftOf a) plus f k hk

/-- Non-vacuity (hypotheses satisfiable; a non-trivial `IsPhase` over `ℂ` is exhibited below): shape
`(2, 3, 2)`, axes `(2, 0)` with shifts `(true, false)`, `w = -1`, kernel factors `j + 2`. -/
example (x : Array ℚ) (hx : x.size = 12) (plus : Bool) (c : Nat → Nat → Rat) (t : Nat → Rat) :
    (ftForwardSepNd (fun n => some (if n = 2 then (-1 : ℚ) else 1, (if n = 2 then (-1 : ℚ) else 1)⁻¹))
        (fun _ => 1) (fun _ j => (j : ℚ) + 2) c t plus [2, 3, 2] [2, 0] ([2, 0].map (· == 2)) x).bind
      (fun r => ftInverseSepNd (fun n => some (if n = 2 then (-1 : ℚ) else 1, (if n = 2 then (-1 : ℚ) else 1)⁻¹))
        (fun _ => 1) (fun _ j => (j : ℚ) + 2) c t (!plus) [2, 3, 2] [2, 0] ([2, 0].map (· == 2)) r.2)
      = some ([2, 3, 2], x) := by
  have h2 : IsPrimRoot (-1 : ℚ) 2 := ⟨by norm_num, by
    intro d hd hd2; have : d = 1 := by omega
    subst this; norm_num⟩
  refine C18.ft_nd_inverse (fun _ => 1) ⟨fun _ _ => by norm_num, rfl⟩ _
    (fun n => if n = 2 then (-1 : ℚ) else 1) (fun _ => rfl) _ c t plus
    [2, 3, 2] [2, 0] (· == 2) (by decide) (by decide) ?_ ?_ x (by simpa [OdlModel.Wavelet.prod] using hx)
  · intro a ha
    have : a = 2 ∨ a = 0 := by simpa using ha
    rcases this with rfl | rfl <;> exact ⟨by simpa using h2, by norm_num⟩
  · intro a _ j _; positivity

/-- Non-vacuity of `IsPhase`: `q ↦ exp(iπ q)` over `ℂ` is a phase function, and it is not
trivial (`e 1 = -1`). -/
example : IsPhase (fun q : Rat => Complex.exp (Real.pi * Complex.I * (q : ℂ))) ∧
    Complex.exp (Real.pi * Complex.I * ((1 : Rat) : ℂ)) = -1 := by
  refine ⟨⟨?_, ?_⟩, ?_⟩
  · intro a b; show Complex.exp _ = Complex.exp _ * Complex.exp _
    rw [← Complex.exp_add]; congr 1; push_cast; ring
  · show Complex.exp _ = 1
    rw [show (Real.pi : ℂ) * Complex.I * ((2 : Rat) : ℂ) = 2 * Real.pi * Complex.I by push_cast; ring]
    exact Complex.exp_two_pi_mul_I
  · rw [show (Real.pi : ℂ) * Complex.I * ((1 : Rat) : ℂ) = Real.pi * Complex.I by push_cast; ring]
    exact Complex.exp_pi_mul_I

/-! ## Wavelets: ODL's own part (PyWavelets' filter bank is a parameter) -/

open OdlModel.Wavelet OdlModel.Gen.WaveletPad

/-- List fact about the MODEL'S STAND-INS for PyWavelets' `ravel_coeffs` (`ravel` = concatenation)
and `unravel_coeffs` (`unravel` = cut at the slices): cutting a concatenation at consecutive
slices of the block sizes returns the blocks.  It says nothing about ODL by itself; ODL's part
is `raveled_slices_layout` / `raveled_slices_roundtrip` below. -/
theorem C18.ravel_unravel_id {K : Type} (blocks : List (List K)) :
    unravel (slicesFrom 0 (blocks.map List.length)) (ravel blocks) = blocks := by
  simpa [ravel] using unravel_aux blocks [] []

/-- **ODL's `precompute_raveled_slices`** (`ravelSlices`, the function the driver executes and
compares with `WaveletTransform._coeff_slices`): for every approximation shape and every list
of detail dictionaries, the keys come out in the order approximation, then per level the
SORTED keys, and the slices are the consecutive intervals of the block sizes `prod(shape)` in
that order, starting at 0. -/
theorem C18.raveled_slices_layout (aShape : List Nat) (details : List (List (String × List Nat))) :
    (ravelSlices aShape details).map (·.1) = (blockOrder aShape details).map (·.1) ∧
    (ravelSlices aShape details).map (·.2)
      = slicesFrom 0 ((blockOrder aShape details).map fun b => prod b.2) := by
  unfold ravelSlices
  constructor
  · rw [List.map_fst_zip]; simp [slicesFrom_length]
  · rw [List.map_snd_zip]; simp [slicesFrom_length]

/-- Hence: cutting the concatenation of ANY coefficient blocks whose sizes are the `prod` of
the shapes in raveled order at ODL's precomputed slices returns exactly those blocks (what
`WaveletTransformInverse._call` relies on when it hands `_coeff_slices` to
`pywt.unravel_coeffs`; that PyWavelets concatenates in this order is compared on every case). -/
theorem C18.raveled_slices_roundtrip {K : Type} (aShape : List Nat)
    (details : List (List (String × List Nat))) (vals : List (List K))
    (hsz : vals.map List.length = (blockOrder aShape details).map fun b => prod b.2) :
    unravel ((ravelSlices aShape details).map (·.2)) (ravel vals) = vals := by
  rw [(C18.raveled_slices_layout aShape details).2, ← hsz]
  exact C18.ravel_unravel_id vals

example : ravelSlices [2, 3] [] = [("a", 0, 6)] ∧
    unravel ((ravelSlices [2, 3] []).map (·.2)) (ravel [[1, 2, 3, 4, 5, 6]]) = [[1, 2, 3, 4, 5, 6]] :=
  ⟨by decide, C18.raveled_slices_roundtrip [2, 3] [] [[1, 2, 3, 4, 5, 6]] (by decide)⟩

/-- **`scales()` has the layout of `W(x)`** (`scalesOf`, the executed model of
`WaveletTransformBase.scales`, compared entry by entry with `W.scales()` and `W.inverse.scales()`):
for every approximation shape and every list of detail dictionaries (any number of levels,
dimensions, `axes` subsets), cutting the scales array at ODL's precomputed slices
(`precompute_raveled_slices`) returns exactly the constant blocks `0` (approximation) and `i`
(every detail block of level `i`, sorted keys), and its length is the total coefficient count. -/
theorem C18.scales_layout (aShape : List Nat) (details : List (List (String × List Nat))) :
    unravel ((ravelSlices aShape details).map (·.2)) (scalesOf aShape details)
      = scaleBlocks aShape details ∧
    (scalesOf aShape details).length = ((blockOrder aShape details).map fun b => prod b.2).sum := by
  have hsz : (scaleBlocks aShape details).map List.length
      = (blockOrder aShape details).map fun b => prod b.2 := by
    unfold scaleBlocks blockOrder
    simp only [List.map_cons, List.length_replicate]
    congr 1
    exact scaleBlocks_lengths_aux details 0
  refine ⟨C18.raveled_slices_roundtrip aShape details _ hsz, ?_⟩
  unfold scalesOf ravel
  rw [List.length_flatten, hsz]

example : scalesOf [2] [[("d", [2])], [("d", [3])]] = [0, 0, 1, 1, 2, 2, 2] := by decide +kernel

/-- **Crop rule.**  Whenever PyWavelets' reconstruction has an admissible length (`n`, or
`n+1` for odd `n`), the crop of `WaveletTransformInverse._call` keeps exactly `n` entries and
never raises, for every `n`. -/
theorem C18.crop_rule (n r : Nat) (h : reconLenOk n r = true) : cropLen r n = .ok n := by
  simp only [reconLenOk, Bool.or_eq_true, beq_iff_eq, Bool.and_eq_true] at h
  unfold cropLen
  rcases h with h | ⟨h, _⟩
  · subst h; simp
  · subst h; simp

/-- Any other reconstruction length is rejected (`ValueError`), never silently cropped. -/
theorem C18.crop_rule_rejects (n r : Nat) (h1 : r ≠ n) (h2 : r ≠ n + 1) : cropLen r n = .error "err:value" := by
  simp [cropLen, h1, h2]

/-- The pad-mode table regenerated from the live module is injective in both directions and
maps ONTO the mode list of the installed PyWavelets (complete finite table, `decide`). -/
theorem C18.pad_table_sound :
    (padTable.map (·.1)).Nodup ∧ (padTable.map (·.2)).Nodup ∧
    (∀ p ∈ padTable, p.2 ∈ pywtModes) ∧
    (∀ m ∈ pywtModes, ∃ p ∈ padTable, p.2 = m) := by decide

/-- **Adjoint, CONDITIONAL on leaf hypotheses about PyWavelets.**  Hypotheses (not proved,
measured by the harness for orthogonal wavelets with periodization on dyadic sizes): the
decomposition `W` (`n` samples to `m` coefficients) preserves the plain dot product and has the
two-sided inverse `V`.  Conclusion about ODL's part: with the image space's inner product
`Σ w_i x_i y_i` (`w` = the pointwise weights `innerWeight` computed by
`_inner_product_weights`: weighting constant × boundary cell fractions, all non-zero) and the
plain pairing on the coefficient space, the operators ODL returns — `adjointForward`
(`(1/w)·W⁻¹`) and `adjointInverse` (`W ∘ (w·)`) — satisfy the adjoint identity for all `x`,
`c` and all sizes. -/
theorem C18.wavelet_adjoint_of_leaf_hyps {K : Type} [Field K] (n m : Nat)
    (w : Nat → K) (hw : ∀ i, i < n → w i ≠ 0)
    (W V : (Nat → K) → (Nat → K))
    (hiso : ∀ x x', sumTo m (fun i => W x i * W x' i) = sumTo n (fun i => x i * x' i))
    (hWV : ∀ c i, i < m → W (V c) i = c i)
    (hVW : ∀ x i, i < n → V (W x) i = x i)
    (x c : Nat → K) :
    sumTo m (fun i => W x i * c i)
      = sumTo n (fun i => w i * (x i * adjointForward w (V c) i)) ∧
    sumTo n (fun i => w i * (V c i * x i))
      = sumTo m (fun i => c i * adjointInverse W w x i) := by
  have e1 : sumTo m (fun i => W x i * c i) = sumTo m (fun i => W x i * W (V c) i) := by
    rw [sumTo_eq_sum, sumTo_eq_sum]
    exact Finset.sum_congr rfl fun i hi => by rw [hWV c i (Finset.mem_range.mp hi)]
  have key : ∀ y : Nat → K, sumTo n (fun i => V c i * y i) = sumTo m (fun i => c i * W y i) := by
    intro y
    have e2 : sumTo n (fun i => V c i * y i) = sumTo n (fun i => V c i * V (W y) i) := by
      rw [sumTo_eq_sum, sumTo_eq_sum]
      exact Finset.sum_congr rfl fun i hi => by rw [hVW y i (Finset.mem_range.mp hi)]
    rw [e2, ← hiso (V c) (V (W y)), sumTo_eq_sum, sumTo_eq_sum]
    exact Finset.sum_congr rfl fun i hi => by
      rw [hWV c i (Finset.mem_range.mp hi), hWV (W y) i (Finset.mem_range.mp hi)]
  constructor
  · rw [e1, hiso, sumTo_eq_sum, sumTo_eq_sum]
    apply Finset.sum_congr rfl; intro i hi
    have := hw i (Finset.mem_range.mp hi)
    simp only [adjointForward]; field_simp
  · have := key (fun i => w i * x i)
    unfold adjointInverse
    rw [← this, sumTo_eq_sum, sumTo_eq_sum]
    apply Finset.sum_congr rfl; intro i _; ring

example (x c : Nat → ℚ) :
    sumTo 2 (fun i => x (1 - i) * c i)
      = sumTo 2 (fun i => (if i = 0 then 3 else 1/2) *
          (x i * adjointForward (fun i => if i = 0 then 3 else 1/2) (fun i => c (1 - i)) i)) :=
  (C18.wavelet_adjoint_of_leaf_hyps 2 2 (fun i => if i = 0 then (3 : ℚ) else 1/2)
    (by intro i _; split_ifs <;> norm_num)
    (fun x i => x (1 - i)) (fun x i => x (1 - i))
    (by intro x x'; simp [sumTo]; ring)
    (by intro c i hi; have : 1 - (1 - i) = i := by omega
        simp [this])
    (by intro c i hi; have : 1 - (1 - i) = i := by omega
        simp [this]) x c).1

/-- For the default space (all boundary fractions 1) the weights are the weighting constant
at every index: the adjoint is the classical `(1/cell_volume)·W⁻¹`. -/
theorem C18.inner_weight_uniform {K : Type} [Field K] (const : K) (shape idx : List Nat) :
    innerWeight const (shape.map fun _ => ((1 : K), (1 : K))) shape idx = const := by
  unfold innerWeight
  apply foldl_weight_ones
  intro t ht
  have := (List.of_mem_zip ht).1
  simp at this
  exact this.2

example : unravel (slicesFrom 0 ([[1, 2], [], [3]].map List.length)) (ravel [[1, 2], [], [3]])
    = [[1, 2], [], [3]] := C18.ravel_unravel_id _

/-- The naming-convention table of the `WaveletTransform` documentation (with the spelling
`pywt_periodic` used by the code and its doctests). -/
def OdlModel.C18.documentedModes : List (String × String) :=
  [("symmetric", "symmetric"), ("reflect", "reflect"), ("order1", "smooth"),
   ("order0", "constant"), ("constant", "zero"), ("periodic", "periodic"),
   ("pywt_periodic", "periodization"), ("antisymmetric", "antisymmetric"),
   ("antireflect", "antireflect")]

/-- The regenerated table realises exactly the documented naming convention. -/
theorem C18.pad_table_documented :
    (∀ p ∈ OdlModel.C18.documentedModes, OdlModel.Gen.WaveletPad.padTable.lookup p.1 = some p.2) ∧
    OdlModel.Gen.WaveletPad.padTable.length = OdlModel.C18.documentedModes.length := by decide

/-- **The whole crop** (`cropShape`, the executed model of the crop loop of
`WaveletTransformInverse._call`): for reconstruction/intended shapes of any dimension, if every
axis has an admissible reconstruction length, the crop succeeds and yields exactly the intended
shape — also when no axis needs cropping. -/
theorem C18.crop_shape_ok (recon intended : List Nat) (hlen : recon.length = intended.length)
    (hok : ∀ p ∈ recon.zip intended, reconLenOk p.2 p.1 = true) :
    cropShape recon intended = Except.ok intended := by
  unfold cropShape
  split_ifs with h
  · rw [h]
  · exact mapM_crop recon intended hlen hok

example : cropShape [8, 5, 6] [7, 5, 5] = Except.ok [7, 5, 5] :=
  C18.crop_shape_ok _ _ rfl (by decide)

/-- **`pywt_pad_mode` characterised** (`padMode` over the regenerated table, the executed
definition): for EVERY string and constant flag the result is: `ValueError` for `'constant'`
(after lower-casing) with a non-zero constant, otherwise the table entry of the lower-cased
name, `ValueError` if there is none. -/
theorem C18.pad_mode_spec (mode : String) (zero : Bool) :
    padMode padTable mode zero =
      if mode.toLower = "constant" ∧ zero = false then Except.error "err:value"
      else ((padTable.lookup mode.toLower).map Except.ok).getD (Except.error "err:value") := by
  dsimp only [padMode]
  generalize List.lookup mode.toLower padTable = o
  cases zero <;> by_cases h : mode.toLower = "constant" <;> cases o <;> simp [h]

/-- Hence every spelling whose lower-case form is a documented ODL mode maps to the documented
PyWavelets mode (with `pad_const = 0`). -/
theorem C18.pad_mode_documented (mode : String) (p : String × String)
    (hp : p ∈ OdlModel.C18.documentedModes) (hm : mode.toLower = p.1) :
    padMode padTable mode true = Except.ok p.2 := by
  rw [C18.pad_mode_spec, hm, (C18.pad_table_documented.1 p hp)]
  simp

example : padMode padTable "order0" true = Except.ok "constant" :=
  C18.pad_mode_documented "order0" ("order0", "constant") (by decide) (by decide +kernel)
