/-
C18 — Fourier and wavelet transforms invert exactly and agree across back-ends.
Property theorems only.  Model: `Model/Fourier.lean`, `Model/Wavelet.lean`
(+ generated `Gen/WaveletPad.lean`).  All reciprocal-space quantities are rational
multiples of `π/s`, all phases are `exp(iπ q)` with rational `q`.
-/
import OdlModel.Model.Fourier
import OdlModel.Model.Wavelet
import OdlModel.Gen.WaveletPad
import OdlModel.Gen.RecipGrid
import OdlModel.Lemmas.Fourier
import OdlModel.Lemmas.Wavelet
import OdlModel.Lemmas.Phase
import Mathlib.Analysis.SpecialFunctions.Trigonometric.Basic

open OdlModel.Fourier

/-! ## Reciprocal and real-space grids (`reciprocal_grid`, `realspace_grid`) -/

/-- The full reciprocal grid of an axis with `n ≥ 2` points has `n` points and the uniform
stride `2/n` (in units of `π/s`, i.e. `2π/(n s)`), for both shift options. -/
theorem C18.recip_grid_uniform (n : Nat) (hn : 2 ≤ n) (shift : Bool) :
    (recipGrid n shift false).shape = n ∧
    (recipGrid n shift false).stride = 2 / (n : Rat) ∧
    ∀ j, (recipGrid n shift false).point j
      = (if shift then -1 else -1 + 1 / (n : Rat)) + 2 * (j : Rat) / n := by
  have h1 : ¬ n ≤ 1 := by omega
  have hn0 : (n : Rat) ≠ 0 := by exact_mod_cast (by omega : n ≠ 0)
  have hn1 : ((n - 1 : Nat) : Rat) = (n : Rat) - 1 := by
    rw [Nat.cast_sub (by omega)]; simp
  have hn1' : (n : Rat) - 1 ≠ 0 := by
    intro h; have : (n : Rat) = 1 := by linarith
    have : n = 1 := by exact_mod_cast this
    omega
  have hs : (recipGrid n shift false).stride = 2 / (n : Rat) := by
    cases shift <;> simp [recipGrid, Grid.stride, h1, hn1] <;> field_simp <;> ring
  refine ⟨by simp [recipGrid], hs, ?_⟩
  intro j
  simp only [Grid.point, hs]
  cases shift <;> simp [recipGrid] <;> ring

/-- The half-complex reciprocal grid has the same stride `2/n`, for every parity × shift
(the four-way case table of `reciprocal_grid`). -/
theorem C18.recip_halfcomplex_stride (n : Nat) (hn : 2 ≤ n) (shift : Bool) :
    (recipGrid n shift true).stride = 2 / (n : Rat) := by
  rcases Nat.even_or_odd' n with ⟨m, hm | hm⟩
  · have hm0 : (m : Rat) ≠ 0 := by exact_mod_cast (by omega : m ≠ 0)
    have hmN : m ≠ 0 := by omega
    subst hm
    rw [recipGrid_even]
    cases shift <;> simp [Grid.stride, hmN] <;> field_simp
  · have hm0 : (m : Rat) ≠ 0 := by exact_mod_cast (by omega : m ≠ 0)
    have hmN : m ≠ 0 := by omega
    subst hm
    rw [recipGrid_odd]
    cases shift <;> simp [Grid.stride, hmN] <;> field_simp <;> ring_nf

/-- **Half-complex prefix.**  For every length `n ≥ 1`, both parities and both shift
options, the half-complex grid consists of exactly the first `n/2 + 1` points of the full
reciprocal grid. -/
theorem C18.recip_halfcomplex_prefix (n : Nat) (hn : 1 ≤ n) (shift : Bool) :
    (recipGrid n shift true).shape = n / 2 + 1 ∧ n / 2 + 1 ≤ (recipGrid n shift false).shape ∧
    ∀ j, j < n / 2 + 1 → (recipGrid n shift true).point j = (recipGrid n shift false).point j := by
  refine ⟨by simp [recipGrid, hcLen], by simp [recipGrid]; omega, ?_⟩
  intro j hj
  by_cases h2 : 2 ≤ n
  · have hmin : (recipGrid n shift true).min = (recipGrid n shift false).min := by
      simp [recipGrid]
    simp only [Grid.point, hmin, C18.recip_halfcomplex_stride n h2 shift,
      (C18.recip_grid_uniform n h2 shift).2.1]
  · have : n = 1 := by omega
    subst this
    have : j = 0 := by omega
    subst this
    cases shift <;> simp [recipGrid, Grid.point, hcLen]

/-- The reciprocal grid contains the zero frequency exactly where the documentation says:
shifted grids of even length (index `n/2`) and non-shifted grids of odd length (index
`(n-1)/2`). -/
theorem C18.recip_contains_zero (m : Nat) (hm : 1 ≤ m) :
    (recipGrid (2*m) true false).point m = 0 ∧ (recipGrid (2*m+1) false false).point m = 0 := by
  have hm0 : (m : Rat) ≠ 0 := by exact_mod_cast (by omega : m ≠ 0)
  have h1 : (2 * (m : Rat) + 1) ≠ 0 := by positivity
  constructor
  · rw [(C18.recip_grid_uniform (2*m) (by omega) true).2.2]; push_cast; simp; field_simp; ring
  · rw [(C18.recip_grid_uniform (2*m+1) (by omega) false).2.2]; push_cast; simp; field_simp; ring

/-- `2(n/2+1) - 2 = n` for even and `2(n/2+1) - 1 = n` for odd `n`: the parity option of
`realspace_grid` (and the `s=` argument of `irfftn`) restores the original length. -/
theorem C18.halfcomplex_shape_roundtrip (n : Nat) (hn : 1 ≤ n) :
    irLen (hcLen n) (n % 2 == 1) = n := by
  unfold irLen hcLen
  rcases Nat.mod_two_eq_zero_or_one n with h | h <;> simp [h] <;> omega

/-- Sensitivity (why `s=` must be passed to `np.fft.irfftn`, as the repaired
`DiscreteFourierTransformInverse._call_numpy` and `FourierTransformInverse` do): NumPy's
default output length `2(m-1)` restores `n` exactly for even `n`; for every odd length it is
one short. -/
theorem C18.irfftn_without_s_loses_odd_length (n : Nat) (hn : 1 ≤ n) :
    (irLenNumpyDefault (hcLen n) = n ↔ n % 2 = 0) ∧
    (n % 2 = 1 → irLenNumpyDefault (hcLen n) + 1 = n) := by
  unfold irLenNumpyDefault hcLen; omega

/-- `realspace_grid (reciprocal_grid g) = g`: the shape is restored (with the parity of
`n`) and the stride is `s` again, for every `n ≥ 2`, shift and half-complex option. -/
theorem C18.recip_real_roundtrip (n : Nat) (hn : 2 ≤ n) (shift hc : Bool) :
    realShape (recipGrid n shift hc).shape hc (n % 2 == 1) = n ∧
    realStride n (recipGrid n shift hc).stride = 1 := by
  have hn0 : (n : Rat) ≠ 0 := by exact_mod_cast (by omega : n ≠ 0)
  constructor
  · cases hc
    · simp [realShape, recipGrid]
    · simpa [realShape, recipGrid] using C18.halfcomplex_shape_roundtrip n (by omega)
  · have hs : (recipGrid n shift hc).stride = 2 / (n : Rat) := by
      cases hc
      · exact (C18.recip_grid_uniform n hn shift).2.1
      · exact C18.recip_halfcomplex_stride n hn shift
    rw [hs]; unfold realStride; field_simp

example : (recipGrid 5 true true).shape = 3 ∧ (recipGrid 5 true true).point 2 = -1/5 ∧
    (recipGrid 5 true false).point 2 = -1/5 := by
  norm_num [recipGrid, Grid.point, Grid.stride, hcLen]

/-- The normalised frequencies fed to the interpolation-kernel FT in
`dft_postprocess_data` (its own `fmin/fmax` table, with half-complex DETECTED as
`len_dft < len_orig`) are exactly the reciprocal grid points divided by `2π/s`, for every
`n ≥ 1`, parity, shift and half-complex option. -/
theorem C18.interp_freqs_match_grid (n : Nat) (hn : 1 ≤ n) (shift hc : Bool) (j : Nat) :
    (interpFreqs n (recipGrid n shift hc).shape shift).point j
      = (recipGrid n shift hc).point j / 2 := by
  apply Grid.point_half
  · simp [interpFreqs]
  · cases shift <;> simp [interpFreqs, recipGrid] <;> split_ifs <;> ring
  · rcases Nat.even_or_odd' n with ⟨m, hm | hm⟩
    · subst hm
      have hm0 : (m : Rat) ≠ 0 := by exact_mod_cast (by omega : m ≠ 0)
      have e1 : 2 * m % 2 = 0 := by omega
      rw [recipGrid_even]
      by_cases h1 : m = 1
      · subst h1; cases shift <;> cases hc <;> simp [interpFreqs] <;> norm_num
      · have hlt : m + 1 < 2 * m := by omega
        cases shift <;> cases hc <;> simp [interpFreqs, e1, hlt] <;> field_simp <;> ring_nf
    · subst hm
      have e1 : (2 * m + 1) % 2 = 1 := by omega
      have h1 : (2 * (m : Rat) + 1) ≠ 0 := by positivity
      rw [recipGrid_odd]
      by_cases h0 : m = 0
      · subst h0; cases shift <;> cases hc <;> simp [interpFreqs] <;> norm_num
      · have hlt : m + 1 < 2 * m + 1 := by omega
        cases shift <;> cases hc <;> simp [interpFreqs, e1, hlt] <;> field_simp <;> ring_nf

/-! ## The case tables are the source's (translator tie) -/

namespace OdlModel.C18
/-- value `a + b/n` of a generated linear-in-`1/n` table entry -/
def linVal (v : (Int × Nat) × (Int × Nat)) (n : Nat) : Rat :=
  (v.1.1 : Rat) / (v.1.2 : Rat) + ((v.2.1 : Rat) / (v.2.2 : Rat)) / (n : Rat)
end OdlModel.C18
open OdlModel.C18 OdlModel.Gen.RecipGrid

/-- **Tie to the source (translator).**  The half-complex `rmax` case table of the model is
the table extracted from the live `reciprocal_grid` (`Gen/RecipGrid.lean`, regenerated on every
run), for every `n` and shift: a changed table entry in the source breaks this theorem. -/
theorem C18.recip_table_matches_source (n : Nat) (shift : Bool) :
    (recipGrid n shift true).max = (hcRmaxCoef (n % 2 == 1) shift : Rat) * (1 / (n : Rat)) := by
  rcases Nat.mod_two_eq_zero_or_one n with h | h <;> cases shift <;>
    simp [recipGrid, hcRmaxCoef, h]

/-- The `fmin`/`fmax` table of the model is the one extracted (symbolically, as `a + b/len_orig`)
from the live `dft_postprocess_data`, for every `n`, reciprocal length and shift. -/
theorem C18.freq_table_matches_source (n len : Nat) (shift : Bool) :
    (interpFreqs n len shift).min = linVal (fmin shift) n ∧
    (interpFreqs n len shift).max = linVal (fmax (decide (len < n)) shift (n % 2 == 1)) n := by
  constructor
  · cases shift <;> simp [interpFreqs, fmin, linVal] <;> ring
  · by_cases hl : len < n <;> rcases Nat.mod_two_eq_zero_or_one n with h | h <;> cases shift <;>
      simp [interpFreqs, fmax, linVal, hl, h] <;> ring

/-! ## The discrete transforms (`DiscreteFourierTransform`, `…Inverse`) -/

/-- **Inverse DFT with the coded normalisation.**  Over any field containing a primitive
`n`-th root of unity `w` (`n` invertible), for both sign conventions: the operator returned
by `DiscreteFourierTransform.inverse` (flipped sign; `ifftn` for `'+'`, `fftn / prod(shape)`
for `'-'`) applied to the forward transform (`fftn` for `'-'`, `prod(shape) * ifftn` for
`'+'`) returns the input, for every length `n` and every input. -/
theorem C18.dft_inverse {K : Type} [Field K] (w : K) (n : Nat) (hn : 0 < n) (hnK : (n : K) ≠ 0)
    (hw : IsPrimRoot w n) (plus : Bool) (f : Nat → K) (k : Nat) (hk : k < n) :
    dftInverseNp (!plus) w w⁻¹ n (dftForwardNp plus w w⁻¹ n f) k = f k := by
  cases plus
  · have hF : dftForwardNp false w w⁻¹ n f = fun j => ∑ l ∈ Finset.range n, f l * w ^ (l * j) := by
      funext j; simp [dftForwardNp, dftSum_eq]
    rw [hF]
    simp only [dftInverseNp, npIfft, Bool.not_false, if_true, dftSum_eq]
    rw [dft_core hw hn f k hk]
    field_simp
  · have hF : dftForwardNp true w w⁻¹ n f
        = fun j => ∑ l ∈ Finset.range n, f l * w⁻¹ ^ (l * j) := by
      funext j; simp [dftForwardNp, npIfft, dftSum_eq]; field_simp
    rw [hF]
    simp only [dftInverseNp, Bool.not_true, Bool.false_eq_true, if_false, dftSum_eq]
    have h2 := dft_core hw.inv hn f k hk
    rw [inv_inv] at h2
    rw [h2]
    field_simp

/-- Non-vacuity: `-1` is a primitive 2nd root of unity in `ℚ`; the 2-point transform of
`(3, 5)` is `(8, -2)` and the inverse restores `5`. -/
example : IsPrimRoot (-1 : ℚ) 2 ∧ dftForwardNp false (-1 : ℚ) (-1)⁻¹ 2 (fun j => if j = 0 then 3 else 5) 1 = -2 := by
  refine ⟨⟨by norm_num, ?_⟩, by norm_num [dftForwardNp, dftSum, sumTo, pw]⟩
  intro d hd hd2
  have : d = 1 := by omega
  subst this; norm_num

/-- **Back-ends agree.**  With FFTW's plan semantics (forward never scaled, backward scaled
by `1/n` iff `normalise_idft`) and the flag juggling of `pyfftw_call`, the pyfftw branches of
the forward and inverse DFT operators compute exactly what the NumPy branches compute, for
both signs, every length and every input. -/
theorem C18.dft_backends_agree {K : Type} [Field K] (w winv : K) (n : Nat) (hnK : (n : K) ≠ 0)
    (plus : Bool) (f : Nat → K) (k : Nat) :
    dftForwardFftw plus w winv n f k = dftForwardNp plus w winv n f k ∧
    dftInverseFftw plus w winv n f k = dftInverseNp plus w winv n f k := by
  cases plus <;>
    simp [dftForwardFftw, dftForwardNp, dftInverseFftw, dftInverseNp, pyfftwCall, fftwPlan, npIfft] <;>
    field_simp

/-- Hermitian symmetry of the transform of real data: with a conjugation `σ` (a ring
homomorphism with `σ w = w⁻¹`) and `σ (f j) = f j`, `σ (F (n-k)) = F k` for `k ≤ n`. -/
theorem C18.dft_hermitian {K : Type} [Field K] (σ : K →+* K) (w : K) (n : Nat) (hn : 0 < n)
    (hw : IsPrimRoot w n) (hσ : σ w = w⁻¹) (f : Nat → K) (hf : ∀ j, σ (f j) = f j)
    (k : Nat) (hk : k ≤ n) :
    σ (dftSum w n f (n - k)) = dftSum w n f k := by
  have hw0 := hw.ne_zero hn
  rw [dftSum_eq, dftSum_eq, map_sum]
  apply Finset.sum_congr rfl
  intro j _
  rw [map_mul, hf, map_pow, hσ]
  congr 1
  have h1 : w ^ (j * (n - k)) * w ^ (j * k) = 1 := by
    rw [← pow_add, ← Nat.mul_add, Nat.sub_add_cancel hk, mul_comm, pow_mul, hw.1, one_pow]
  rw [inv_pow]
  rw [eq_inv_of_mul_eq_one_left h1, inv_inv]

/-- **Half-complex round trip.**  For real data the `n/2+1` stored coefficients determine the
signal: the complex-to-real inverse (Hermitian extension, `ifft`) of ANY array agreeing with
the forward transform on the indices `0 … n/2` returns the input — for even and odd `n`. -/
theorem C18.halfcomplex_roundtrip {K : Type} [Field K] (σ : K →+* K) (w : K) (n : Nat)
    (hn : 0 < n) (hnK : (n : K) ≠ 0) (hw : IsPrimRoot w n) (hσ : σ w = w⁻¹)
    (f : Nat → K) (hf : ∀ j, σ (f j) = f j)
    (g : Nat → K) (hg : ∀ j, j ≤ n / 2 → g j = dftSum w n f j) (k : Nat) (hk : k < n) :
    npIrfft σ w⁻¹ n g k = f k := by
  have hext : ∀ j ∈ Finset.range n, hermExt σ n g j * w⁻¹ ^ (j * k)
      = dftSum w n f j * w⁻¹ ^ (j * k) := by
    intro j hj
    have hjn := Finset.mem_range.mp hj
    congr 1
    unfold hermExt
    split_ifs with h
    · exact hg j h
    · rw [hg (n - j) (by omega)]
      exact C18.dft_hermitian σ w n hn hw hσ f hf j hjn.le
  have hF : dftForwardNp false w w⁻¹ n f = dftSum w n f := by
    funext j; simp [dftForwardNp]
  have := C18.dft_inverse w n hn hnK hw false f k hk
  rw [hF] at this
  simp only [dftInverseNp, npIfft, Bool.not_false, if_true] at this
  rw [← this]
  unfold npIrfft npIfft
  rw [dftSum_eq, dftSum_eq, Finset.sum_congr rfl hext]

/-! ## Constructor and planner of the plain DFT operators -/

/-- The range built by the constructor always fits the array the transform produces: for
real and complex domains, with and without the `halfcomplex` argument (on complex domains the
argument has no effect, as documented), every length. -/
theorem C18.dft_range_matches_output (n : Nat) (complexDom hcArg : Bool) :
    dftRangeLen n complexDom hcArg = dftOutLen n complexDom hcArg := by
  cases complexDom <;> cases hcArg <;>
    simp [dftRangeLen, dftOutLen, dftHalfcomplexFlag, recipGrid]

/-- Sensitivity: computing the range from the `halfcomplex` ARGUMENT (the code before the
repair) is wrong exactly on complex domains: for every `n ≥ 3` the range is too short. -/
theorem C18.dft_range_old_complex_halfcomplex_fails (n : Nat) (hn : 3 ≤ n) :
    dftRangeLenOld n true ≠ dftOutLen n true true := by
  simp [dftRangeLenOld, dftOutLen, dftHalfcomplexFlag, recipGrid, hcLen]; omega

/-- `pyfftw_call` never creates a destroying plan on the array that holds the data: the data
survives planning for every input kind, plan state and planner. -/
theorem C18.pyfftw_planning_preserves_data (fresh destroys : Bool) :
    dataSurvivesPlanning fresh destroys = true := by
  cases fresh <;> cases destroys <;> simp [dataSurvivesPlanning, planOnDataArray, mustCopy]

/-- Sensitivity: with the old guard (`… and not array_in_copied`) real input without
halfcomplex, a fresh plan and a destroying planner (`FFTW_MEASURE`, the default of the DFT
operators) lose the data; all other combinations were safe. -/
theorem C18.pyfftw_planning_old_guard_destroys_real_input (realIn hc fresh destroys : Bool) :
    dataSurvivesPlanningOld realIn hc fresh destroys = false ↔
      (realIn = true ∧ hc = false ∧ fresh = true ∧ destroys = true) := by
  cases realIn <;> cases hc <;> cases fresh <;> cases destroys <;>
    simp [dataSurvivesPlanningOld, planOnDataArrayOld, mustCopy, arrayInCopied]

/-! ## Phases of the continuous transform (`dft_preprocess_data`, `dft_postprocess_data`) -/

open OdlModel.C18

/-- **Phase factorisation.**  For every length `n ≥ 1`, node indices `k`, `j < n`, shift
option, sign and grid offset `t = x0/s`, the exponents (in units of `π`) of
pre-processing factor `k`, DFT kernel `ω^{jk}` (`∓2jk/n`) and post-processing phase `j` add up,
modulo 2, to the exponent `± x_k ξ_j / π = ±(t + k) c_j` of the Fourier kernel on the
real-space node `x_k = x0 + k s` and the reciprocal node `ξ_j = c_j π/s`:
`post_j · Σ_k pre_k f_k ω^{jk}` is the discretised Fourier integral. -/
theorem C18.phase_factorisation (n : Nat) (hn : 1 ≤ n) (shift plus : Bool) (t : Rat)
    (k j : Nat) (hj : j < n) :
    EqMod2 (preExp n shift plus k + sgnOf plus * (2 * k * j / n)
              + postExp plus t ((recipGrid n shift false).point j))
           (sgnOf plus * ((t + k) * (recipGrid n shift false).point j)) := by
  have hn0 : (n : Rat) ≠ 0 := by exact_mod_cast (by omega : n ≠ 0)
  have hp : (recipGrid n shift false).point j
      = (if shift then -1 else -1 + 1 / (n : Rat)) + 2 * (j : Rat) / n := by
    by_cases h2 : 2 ≤ n
    · exact (C18.recip_grid_uniform n h2 shift).2.2 j
    · have h1 : n = 1 := by omega
      have hj0 : j = 0 := by omega
      subst h1; subst hj0
      cases shift <;> simp [recipGrid, Grid.point]
  rw [hp]
  have hk : (k : Rat) = 2 * ((k / 2 : Nat) : Rat) + ((k % 2 : Nat) : Rat) := by
    have := Nat.div_add_mod k 2
    exact_mod_cast this.symm
  cases shift <;> cases plus
  · exact ⟨0, by simp [preExp, postExp, sgnOf]; field_simp; ring⟩
  · exact ⟨0, by simp [preExp, postExp, sgnOf]; field_simp; ring⟩
  · refine ⟨-((k / 2 : Nat) : Int), ?_⟩
    simp only [preExp, postExp, sgnOf, if_true, Bool.false_eq_true, if_false]
    generalize k / 2 = m at hk ⊢
    generalize k % 2 = r at hk ⊢
    push_cast
    field_simp
    linear_combination (-(n : Rat)) * hk
  · refine ⟨((k / 2 : Nat) : Int) + ((k % 2 : Nat) : Int), ?_⟩
    simp only [preExp, postExp, sgnOf, if_true]
    generalize k / 2 = m at hk ⊢
    generalize k % 2 = r at hk ⊢
    push_cast
    field_simp
    linear_combination (n : Rat) * hk

example : EqMod2 (preExp 5 true false 3 + sgnOf false * (2 * 3 * 2 / 5)
      + postExp false (1/2) ((recipGrid 5 true false).point 2))
    (sgnOf false * ((1/2 + 3) * (recipGrid 5 true false).point 2)) :=
  by simpa using C18.phase_factorisation 5 (by norm_num) true false (1/2) 3 2 (by norm_num)

/-- On a shifted axis every pre-processing factor is `±1` (integer exponent): real data
stays real, which the half-complex transform relies on. -/
theorem C18.pre_factor_real_of_shift (n : Nat) (plus : Bool) (k : Nat) :
    ∃ z : Int, preExp n true plus k = (z : Rat) :=
  ⟨((k % 2 : Nat) : Int), by unfold preExp; simp only [if_true]; exact (Int.cast_natCast _).symm⟩

/-- On a NON-shifted axis with `n ≥ 2` points the factor of node 1 is not real
(`exp(∓iπ(1-1/n))`, `0 < 1 - 1/n < 1`): real data becomes complex. -/
theorem C18.pre_factor_not_real_of_no_shift (n : Nat) (hn : 2 ≤ n) (plus : Bool) :
    ¬ ∃ z : Int, preExp n false plus 1 = (z : Rat) := by
  rintro ⟨z, hz⟩
  have hn0 : (n : Rat) ≠ 0 := by exact_mod_cast (by omega : n ≠ 0)
  cases plus
  · simp [preExp, sgnOf] at hz
    have h : (n : Rat) - 1 = z * n := by field_simp at hz; linarith
    have h' : (n : Int) - 1 = z * n := by exact_mod_cast h
    rcases le_or_gt z 0 with hz0 | hz0 <;> nlinarith
  · simp [preExp, sgnOf] at hz
    have h : 1 - (n : Rat) = z * n := by field_simp at hz; linarith
    have h' : 1 - (n : Int) = z * n := by exact_mod_cast h
    rcases le_or_gt z (-1) with hz0 | hz0 <;> nlinarith

/-- The forward and inverse continuous transforms run on both back-ends for every shift
pattern on complex spaces and on real spaces without `halfcomplex`, and with `halfcomplex`
whenever every transformed axis is shifted (`halfcomplex` is only ever set on real spaces). -/
theorem C18.ft_status_partial (fftw real hc : Bool) (shifts : List Bool)
    (h : hc = true → shifts.all id = true) (hreal : hc = true → real = true) :
    ftForwardStatus fftw real hc shifts = none ∧ ftInverseStatus hc shifts = none := by
  cases fftw <;> cases real <;> cases hc <;>
    simp_all [ftForwardStatus, ftInverseStatus, preprocComplex]

/-- Counterexample on the model (open finding F18e): a non-shifted axis next to the halved
one breaks the half-complex transform — the NumPy forward runs, but on data whose imaginary
part was dropped (see `pre_factor_not_real_of_no_shift`); the pyfftw forward asserts; both
inverses raise. -/
theorem C18.ft_halfcomplex_mixed_shift_fails :
    preprocComplex true [false, true] = true ∧
    ftForwardStatus false true true [false, true] = none ∧
    ftForwardStatus true true true [false, true] = some "err:assert" ∧
    ftInverseStatus true [false, true] = some "err:cast" := by decide

/-- **The inverse's factors cancel the forward's** (`FourierTransformInverse`: division by
the kernel and phase with the flipped sign; `dft_preprocess_data` with the flipped sign):
the phase exponents of the forward post-processing and the inverse pre-processing add up to
0, and those of the forward pre-processing and the inverse post-processing to 0 modulo 2,
for every `n`, shift, sign, node and offset. -/
theorem C18.ft_inverse_factors (n : Nat) (shift plus : Bool) (t c : Rat) (k : Nat) :
    postExp plus t c + postExp (!plus) t c = 0 ∧
    EqMod2 (preExp n shift plus k + preExp n shift (!plus) k) 0 := by
  constructor
  · cases plus <;> simp [postExp, sgnOf]
  · cases shift
    · exact ⟨0, by cases plus <;> simp [preExp, sgnOf]⟩
    · refine ⟨((k % 2 : Nat) : Int), ?_⟩
      simp only [preExp, if_true]
      generalize k % 2 = r
      push_cast; ring

/-! ## The continuous transform as a whole (`FourierTransform`, `FourierTransformInverse`) -/

/-- **The continuous-FT approximation recovers its input through its inverse.**  Over any
field with a primitive `n`-th root of unity, for ANY phase function `e` (a character of
`(ℚ,+)` of period 2, e.g. `q ↦ exp(iπ q)`), any non-vanishing kernel factors `amp`, any
reciprocal nodes `c`, offset `t`, both shift options and both signs: one axis of
`FourierTransformInverse._call_numpy` (sign flipped: divide by the kernel, flipped phase,
inverse DFT with the coded normalisation, flipped pre-processing) applied to one axis of
`FourierTransform._call_numpy` returns the input, for every `n` and every input. -/
theorem C18.ft_inverse {K : Type} [Field K] (e : Rat → K) (he : IsPhase e)
    (w : K) (n : Nat) (hn : 0 < n) (hnK : (n : K) ≠ 0) (hw : IsPrimRoot w n)
    (amp : Nat → K) (hamp : ∀ j, j < n → amp j ≠ 0) (c : Nat → Rat) (t : Rat)
    (shift plus : Bool) (f : Nat → K) (k : Nat) (hk : k < n) :
    ftInverseAxis e amp c t shift (!plus) w w⁻¹ n
      (ftForwardAxis e amp c t shift plus w w⁻¹ n f) k = f k := by
  unfold ftInverseAxis
  have hcongr := dftInverseNp_congr (!plus) w w⁻¹ n
    (fun j => e (postExp (!plus) t (c j)) / amp j * ftForwardAxis e amp c t shift plus w w⁻¹ n f j)
    (dftForwardNp plus w w⁻¹ n (fun k => e (preExp n shift plus k) * f k))
    (by
      intro j hj
      unfold ftForwardAxis
      have h0 := (C18.ft_inverse_factors n shift plus t (c j) 0).1
      have : e (postExp (!plus) t (c j)) * e (postExp plus t (c j)) = 1 := by
        rw [← he.add, add_comm, h0, he.zero]
      have ha := hamp j hj
      generalize dftForwardNp plus w w⁻¹ n (fun k => e (preExp n shift plus k) * f k) j = D
      field_simp
      linear_combination D * this) k
  rw [hcongr, C18.dft_inverse w n hn hnK hw plus _ k hk]
  have h1 := (C18.ft_inverse_factors n shift plus t 0 k).2
  have : e (preExp n shift (!plus) k) * e (preExp n shift plus k) = 1 := by
    rw [← he.add, add_comm, he.eq_of_eqMod2 h1, he.zero]
  linear_combination (f k) * this

/-- **The forward transform is the discretised Fourier integral.**  With `e = exp(iπ ·)`
and the FFT root `w = e(-2/n) = exp(-2πi/n)`, one axis of `FourierTransform._call_numpy` on the
full reciprocal grid computes `amp_j · Σ_k f_k · exp(± i x_k ξ_j)` (`x_k = x0 + k s`,
`ξ_j = c_j π/s`), for every `n ≥ 1`, shift, sign, offset and input — pre- and post-processing
factors and the DFT kernel multiply up to exactly the Fourier kernel. -/
theorem C18.ft_forward_is_fourier_sum {K : Type} [Field K] (e : Rat → K) (he : IsPhase e)
    (n : Nat) (hn : 1 ≤ n) (hnK : (n : K) ≠ 0) (amp : Nat → K) (t : Rat)
    (shift plus : Bool) (f : Nat → K) (j : Nat) (hj : j < n) :
    ftForwardAxis e amp (recipGrid n shift false).point t shift plus
        (e (-2 / n)) (e (-2 / n))⁻¹ n f j
      = amp j * ∑ k ∈ Finset.range n,
          f k * e (sgnOf plus * ((t + k) * (recipGrid n shift false).point j)) := by
  set cj := (recipGrid n shift false).point j with hcj
  have hinv : (e (-2 / n))⁻¹ = e (2 / n) := by
    have := he.neg_mul (2 / (n : Rat))
    rw [show -(2 / (n : Rat)) = -2 / n by ring] at this
    exact inv_eq_of_mul_eq_one_right this
  have key : ∀ k : Nat, e (postExp plus t cj) * (e (preExp n shift plus k) *
      e (sgnOf plus * 2 / n) ^ (k * j)) = e (sgnOf plus * ((t + k) * cj)) := by
    intro k
    rw [he.pow, ← he.add, ← he.add]
    apply he.eq_of_eqMod2
    obtain ⟨z, hz⟩ := C18.phase_factorisation n hn shift plus t k j hj
    exact ⟨z, by rw [← hz, ← hcj]; push_cast; ring⟩
  unfold ftForwardAxis
  rw [hinv]
  cases plus
  · have hr : e (-2 / (n : Rat)) = e (sgnOf false * 2 / n) := by simp [sgnOf]
    simp only [dftForwardNp, Bool.false_eq_true, if_false, dftSum_eq]
    rw [Finset.mul_sum, Finset.mul_sum]
    apply Finset.sum_congr rfl
    intro k _
    rw [hr, ← key k]; ring
  · have hr : e (2 / (n : Rat)) = e (sgnOf true * 2 / n) := by simp [sgnOf]
    simp only [dftForwardNp, npIfft, if_true, dftSum_eq]
    rw [mul_div_cancel₀ _ hnK, Finset.mul_sum, Finset.mul_sum]
    apply Finset.sum_congr rfl
    intro k _
    rw [hr, ← key k]; ring

/-- Non-vacuity of `IsPhase`: `q ↦ exp(iπ q)` over `ℂ` is a phase function, and it is not
trivial (`e 1 = -1`). -/
example : IsPhase (fun q : Rat => Complex.exp (Real.pi * Complex.I * (q : ℂ))) ∧
    Complex.exp (Real.pi * Complex.I * ((1 : Rat) : ℂ)) = -1 := by
  refine ⟨⟨?_, ?_⟩, ?_⟩
  · intro a b; show Complex.exp _ = Complex.exp _ * Complex.exp _
    rw [← Complex.exp_add]; congr 1; push_cast; ring
  · show Complex.exp _ = 1
    rw [show (Real.pi : ℂ) * Complex.I * ((2 : Rat) : ℂ) = 2 * Real.pi * Complex.I by push_cast; ring]
    exact Complex.exp_two_pi_mul_I
  · rw [show (Real.pi : ℂ) * Complex.I * ((1 : Rat) : ℂ) = Real.pi * Complex.I by push_cast; ring]
    exact Complex.exp_pi_mul_I

/-! ## Wavelets: ODL's own part (PyWavelets' filter bank is a parameter) -/

open OdlModel.Wavelet OdlModel.Gen.WaveletPad

/-- **Flatten/unflatten round trip.**  For ANY list of coefficient blocks (any number of
levels, any shapes — each block raveled), cutting the flat coefficient vector at the slices
that `precompute_raveled_slices` derives from the block sizes alone returns exactly the
blocks that were concatenated. -/
theorem C18.ravel_unravel_id {K : Type} (blocks : List (List K)) :
    unravel (slicesFrom 0 (blocks.map List.length)) (ravel blocks) = blocks := by
  simpa [ravel] using unravel_aux blocks [] []

/-- **Crop rule.**  Whenever PyWavelets' reconstruction has an admissible length (`n`, or
`n+1` for odd `n`), the crop of `WaveletTransformInverse._call` keeps exactly `n` entries and
never raises, for every `n`. -/
theorem C18.crop_rule (n r : Nat) (h : reconLenOk n r = true) : cropLen r n = .ok n := by
  simp only [reconLenOk, Bool.or_eq_true, beq_iff_eq, Bool.and_eq_true] at h
  unfold cropLen
  rcases h with h | ⟨h, _⟩
  · subst h; simp
  · subst h; simp

/-- Any other reconstruction length is rejected (`ValueError`), never silently cropped. -/
theorem C18.crop_rule_rejects (n r : Nat) (h1 : r ≠ n) (h2 : r ≠ n + 1) : cropLen r n = .error "err:value" := by
  simp [cropLen, h1, h2]

/-- The pad-mode table regenerated from the live module is injective in both directions and
maps ONTO the mode list of the installed PyWavelets (complete finite table, `decide`). -/
theorem C18.pad_table_sound :
    (padTable.map (·.1)).Nodup ∧ (padTable.map (·.2)).Nodup ∧
    (∀ p ∈ padTable, p.2 ∈ pywtModes) ∧
    (∀ m ∈ pywtModes, ∃ p ∈ padTable, p.2 = m) := by decide

/-- **Adjoint scaling.**  Let `W` (the decomposition, `n` samples to `m` coefficients) be an
ℓ² isometry with two-sided inverse `V` (assumption on PyWavelets: orthogonal wavelet,
periodization, dyadic sizes).  With the cell-volume weighted pairing `cv·Σ` on the image
space and the plain pairing on the coefficient space, the operators ODL returns —
`(1/cv)·W⁻¹` for the forward transform and `cv·W` for the inverse — satisfy the adjoint
identity for all `x`, `c`, every `cv ≠ 0` and all sizes. -/
theorem C18.wavelet_adjoint_scale {K : Type} [Field K] (n m : Nat) (cv : K) (hcv : cv ≠ 0)
    (W V : (Nat → K) → (Nat → K))
    (hiso : ∀ x x', sumTo m (fun i => W x i * W x' i) = sumTo n (fun i => x i * x' i))
    (hWV : ∀ c i, i < m → W (V c) i = c i)
    (hVW : ∀ x i, i < n → V (W x) i = x i)
    (x c : Nat → K) :
    -- ⟨W x, c⟩_coeff = ⟨x, (1/cv) V c⟩_cv
    sumTo m (fun i => W x i * c i)
      = cv * sumTo n (fun i => x i * (adjointScale true cv * V c i)) ∧
    -- ⟨V c, x⟩_cv = ⟨c, cv W x⟩_coeff
    cv * sumTo n (fun i => V c i * x i)
      = sumTo m (fun i => c i * (adjointScale false cv * W x i)) := by
  have e1 : sumTo m (fun i => W x i * c i) = sumTo m (fun i => W x i * W (V c) i) := by
    rw [sumTo_eq_sum, sumTo_eq_sum]
    exact Finset.sum_congr rfl fun i hi => by rw [hWV c i (Finset.mem_range.mp hi)]
  have e2 : sumTo n (fun i => V c i * x i) = sumTo n (fun i => V c i * V (W x) i) := by
    rw [sumTo_eq_sum, sumTo_eq_sum]
    exact Finset.sum_congr rfl fun i hi => by rw [hVW x i (Finset.mem_range.mp hi)]
  have e3 : sumTo n (fun i => V c i * V (W x) i) = sumTo m (fun i => c i * W x i) := by
    rw [← hiso (V c) (V (W x))]
    rw [sumTo_eq_sum, sumTo_eq_sum]
    exact Finset.sum_congr rfl fun i hi => by
      rw [hWV c i (Finset.mem_range.mp hi), hWV (W x) i (Finset.mem_range.mp hi)]
  constructor
  · rw [e1, hiso, sumTo_eq_sum, sumTo_eq_sum, Finset.mul_sum]
    apply Finset.sum_congr rfl; intro i _
    simp only [adjointScale, if_true]; field_simp
  · rw [e2, e3, sumTo_eq_sum, sumTo_eq_sum, Finset.mul_sum]
    apply Finset.sum_congr rfl; intro i _
    simp only [adjointScale, Bool.false_eq_true, if_false]; ring

/-- Non-vacuity: the coordinate swap on two samples is an isometry with itself as inverse. -/
example (cv : ℚ) (hcv : cv ≠ 0) (x c : Nat → ℚ) :
    sumTo 2 (fun i => x (1 - i) * c i)
      = cv * sumTo 2 (fun i => x i * (adjointScale true cv * c (1 - i))) :=
  (C18.wavelet_adjoint_scale 2 2 cv hcv (fun x i => x (1 - i)) (fun x i => x (1 - i))
    (by intro x x'; simp [sumTo]; ring)
    (by intro c i hi; have : 1 - (1 - i) = i := by omega
        simp [this])
    (by intro c i hi; have : 1 - (1 - i) = i := by omega
        simp [this]) x c).1

example : unravel (slicesFrom 0 ([[1, 2], [], [3]].map List.length)) (ravel [[1, 2], [], [3]])
    = [[1, 2], [], [3]] := C18.ravel_unravel_id _

/-- The naming-convention table of the `WaveletTransform` documentation (with the spelling
`pywt_periodic` used by the code and its doctests). -/
def OdlModel.C18.documentedModes : List (String × String) :=
  [("symmetric", "symmetric"), ("reflect", "reflect"), ("order1", "smooth"),
   ("order0", "constant"), ("constant", "zero"), ("periodic", "periodic"),
   ("pywt_periodic", "periodization"), ("antisymmetric", "antisymmetric"),
   ("antireflect", "antireflect")]

/-- The regenerated table realises exactly the documented naming convention. -/
theorem C18.pad_table_documented :
    (∀ p ∈ OdlModel.C18.documentedModes, OdlModel.Gen.WaveletPad.padTable.lookup p.1 = some p.2) ∧
    OdlModel.Gen.WaveletPad.padTable.length = OdlModel.C18.documentedModes.length := by decide
