/-
C09 — functional values, gradients and Lipschitz bounds agree with each other.
Property theorems only.  The model (`Model/Functionals.lean`) is the expression language of
`odl/solvers/functional/functional.py` with values, gradients and `grad_lipschitz` exactly
as the constructors compute them; here it is instantiated on an arbitrary real
inner-product space `E` (`eOps`), which covers `rn`, weighted `rn`, `uniform_discr` and
product spaces at once: the functional's OWN inner product is the inner product of `E`.
-/
import OdlModel.Lemmas.Functionals
import Mathlib.Analysis.InnerProductSpace.Calculus
import Mathlib.Analysis.InnerProductSpace.Adjoint
import Mathlib.Analysis.Calculus.Gradient.Basic
import Mathlib.Analysis.Calculus.FDeriv.Mul
import Mathlib.Analysis.Calculus.Deriv.Inv
import Mathlib.Analysis.Calculus.Deriv.Abs
import Mathlib.Tactic.Ring
import Mathlib.Tactic.Linarith
import Mathlib.Tactic.FieldSimp

open OdlModel.Functionals OdlModel.FunctionalsR
open scoped RealInnerProductSpace

set_option linter.unusedSectionVars false

variable {E : Type} [NormedAddCommGroup E] [InnerProductSpace ℝ E]


/-- `FunctionalLeftScalarMult`: the gradient `s·∇f` is `|s|·L`-Lipschitz (the value the
constructor passes as `grad_lipschitz`). -/
theorem C09.lip_left_scalar {G : E → E} {L : ℝ} (s : ℝ) (h : LipOn G L) :
    LipOn (fun x => s • G x) (|s| * L) := by
  intro x y
  rw [← smul_sub, norm_smul, Real.norm_eq_abs, mul_assoc]
  exact mul_le_mul_of_nonneg_left (h x y) (abs_nonneg s)

/-- `FunctionalRightScalarMult`: the gradient `x ↦ s·∇f(s·x)` is `|s|²·L`-Lipschitz (the value
passed since 9cf3ca6; `|s|·L` is NOT a bound, see `C09.lip_right_scalar_abs_fails`). -/
theorem C09.lip_right_scalar {G : E → E} {L : ℝ} (s : ℝ) (h : LipOn G L) :
    LipOn (fun x => s • G (s • x)) (|s| * |s| * L) := by
  intro x y
  have h1 := h (s • x) (s • y)
  rw [← smul_sub, norm_smul, Real.norm_eq_abs] at h1
  rw [← smul_sub, norm_smul, Real.norm_eq_abs]
  calc |s| * ‖G (s • x) - G (s • y)‖ ≤ |s| * (L * (|s| * ‖x - y‖)) :=
        mul_le_mul_of_nonneg_left h1 (abs_nonneg s)
    _ = |s| * |s| * L * ‖x - y‖ := by ring

/-- `FunctionalSum`: `L₁ + L₂`. -/
theorem C09.lip_sum {G H : E → E} {L M : ℝ} (hG : LipOn G L) (hH : LipOn H M) :
    LipOn (fun x => G x + H x) (L + M) := by
  intro x y
  have : G x + H x - (G y + H y) = (G x - G y) + (H x - H y) := by abel
  rw [this, add_mul]
  exact (norm_add_le _ _).trans (add_le_add (hG x y) (hH x y))

/-- `FunctionalTranslation`: the same constant `L`. -/
theorem C09.lip_translation {G : E → E} {L : ℝ} (t : E) (h : LipOn G L) :
    LipOn (fun x => G (x - t)) L := by
  intro x y
  have := h (x - t) (y - t)
  simpa using this

/-- `FunctionalQuadraticPerturb`: `∇f + 2a·x + u` is `(L + 2|a|)`-Lipschitz. -/
theorem C09.lip_quadratic_perturb {G : E → E} {L : ℝ} (a : ℝ) (u : E) (h : LipOn G L) :
    LipOn (fun x => G x + (2 * a) • x + u) (L + 2 * |a|) := by
  intro x y
  have : G x + (2 * a) • x + u - (G y + (2 * a) • y + u) = (G x - G y) + (2 * a) • (x - y) := by
    rw [smul_sub]; abel
  rw [this, add_mul]
  refine (norm_add_le _ _).trans (add_le_add (h x y) ?_)
  rw [norm_smul, Real.norm_eq_abs, abs_mul, abs_two]

/-- `BregmanDistance`: `∇f − q` keeps the constant `L`. -/
theorem C09.lip_sub_const {G : E → E} {L : ℝ} (q : E) (h : LipOn G L) :
    LipOn (fun x => G x - q) L := by
  intro x y
  simpa using h x y

/-- `L2NormSquared`: the gradient `2x` is 2-Lipschitz. -/
theorem C09.lip_l2sq : LipOn (fun x : E => (2 : ℝ) • x) 2 := by
  intro x y
  rw [← smul_sub, norm_smul]; simp

/-- `ConstantFunctional` / linear functionals: a constant gradient is 0-Lipschitz. -/
theorem C09.lip_const (c : E) : LipOn (fun _ : E => c) 0 := by
  intro x y; simp

/-- **Lipschitz propagation is sound for every functional expression** (all depths, every
real inner-product space, i.e. every weighting / discretisation / product structure): if the
`grad_lipschitz` that the constructors of `functional.py` compute for the expression `t` is a
finite number `L`, and the finite constants of the coordinate-wise leaves (Huber: `1/γ`) are
valid, then the coded gradient `x ↦ t.grad x` satisfies `‖∇t x − ∇t y‖ ≤ L·‖x − y‖`. -/
theorem C09.lipschitz_sound (μ : E → E → E) (cv : Builtin ℝ → E → ℝ) (cd : Builtin ℝ → E → Bool)
    (cg : Builtin ℝ → E → E)
    (hleaf : ∀ b L, Lip.eval (Fn.lip (eOps μ cv cd cg) (.coord b)) = some L → LipOn (cg b) L)
    (t : Fn E ℝ) (L : ℝ) (h : Lip.eval (t.lip (eOps μ cv cd cg)) = some L) :
    LipOn (fun x => t.grad (eOps μ cv cd cg) x) L := by
  induction t generalizing L with
  | coord b => exact hleaf b L h
  | l2sq =>
      simp [Fn.lip, Lip.ofK, Lip.eval, rootsVal, two] at h
      subst h
      have := C09.lip_l2sq (E := E)
      simpa [Fn.grad, eOps, two, one_add_one_eq_two] using this
  | const c =>
      simp [Fn.lip, Lip.ofK, Lip.eval, rootsVal] at h
      subst h
      simpa [Fn.grad, eOps] using C09.lip_const (0 : E)
  | indZero c => simp [Fn.lip, Lip.eval] at h
  | lin b c => simp [Fn.lip, Lip.eval] at h
  | quad A At Ainv AinvT hasB b c => simp [Fn.lip, Lip.eval] at h
  | lscal s f ih =>
      obtain ⟨La, hLa, rfl⟩ := Lip.eval_scale h
      rw [absK_eq_abs]
      exact C09.lip_left_scalar s (ih La hLa)
  | rscal f s ih =>
      obtain ⟨La, hLa, rfl⟩ := Lip.eval_scale h
      rw [absK_eq_abs]
      exact C09.lip_right_scalar s (ih La hLa)
  | rvec f v vinv ih => simp [Fn.lip, Lip.eval] at h
  | sum f g ihf ihg =>
      obtain ⟨La, Lb, hLa, hLb, rfl⟩ := Lip.eval_add h
      exact C09.lip_sum (ihf La hLa) (ihg Lb hLb)
  | ssum f c ih =>
      obtain ⟨La, Lb, hLa, hLb, rfl⟩ := Lip.eval_add h
      simp [Lip.ofK, Lip.eval, rootsVal] at hLb
      subst hLb
      have := ih La hLa
      simpa [Fn.grad, eOps] using this
  | trans f t ih => exact C09.lip_translation t (ih L h)
  | qp f a hasU u c ih =>
      obtain ⟨La, Lb, hLa, hLb, rfl⟩ := Lip.eval_add h
      simp [Lip.ofK, Lip.eval, rootsVal, two, absK_eq_abs] at hLb
      subst hLb
      have key : ∃ L0, Lip.eval (f.lip (eOps μ cv cd cg)) = some L0 ∧ L0 ≤ La := by
        by_cases hu : hasU = true
        · simp only [hu, if_true] at hLa
          obtain ⟨L0, Lu, hL0, hLu, rfl⟩ := Lip.eval_add hLa
          refine ⟨L0, hL0, ?_⟩
          simp [Lip.norm, Lip.eval, rootsVal] at hLu
          subst hLu
          have := Real.sqrt_nonneg ((eOps μ cv cd cg).inner u u)
          linarith
        · simp only [hu] at hLa
          exact ⟨La, by simpa using hLa, le_refl _⟩
      obtain ⟨L0, hL0, hle⟩ := key
      have := C09.lip_quadratic_perturb a u ((ih L0 hL0).mono hle)
      simpa [Fn.grad, eOps, two, one_add_one_eq_two] using this
  | prod f g _ _ => simp [Fn.lip, Lip.eval] at h
  | quot f g _ _ => simp [Fn.lip, Lip.eval] at h
  | comp f op dAdj _ => simp [Fn.lip, Lip.eval] at h
  | breg f p q ih =>
      obtain ⟨La, Lb, hLa, hLb, rfl⟩ := Lip.eval_add h
      simp [Lip.norm, Lip.eval, rootsVal] at hLb
      subst hLb
      have h0 := Real.sqrt_nonneg ((eOps μ cv cd cg).inner q q)
      exact (C09.lip_sub_const q (ih La hLa)).mono (by linarith)
  | infconv f g _ _ => simp [Fn.lip, Lip.eval] at h
  | menv f P σ _ => simp [Fn.lip, Lip.eval] at h

/-- Non-vacuity: on `E = ℝ`, `L2NormSquared * 3` gets `grad_lipschitz = 18` and the theorem
applies to it. -/
example : LipOn (fun x : ℝ => (Fn.rscal .l2sq 3 : Fn ℝ ℝ).grad
    (eOps (· * ·) (fun _ _ => 0) (fun _ _ => true) (fun _ _ => 0)) x) 18 := by
  refine C09.lipschitz_sound (E := ℝ) _ _ _ _ ?_ (.rscal .l2sq 3) 18 ?_
  · intro b L h
    cases b with
    | l1 => simp [Fn.lip, Lip.eval] at h
    | indLinf => simp [Fn.lip, Lip.eval] at h
    | huber γ =>
        intro x y
        by_cases hγ : 0 < γ
        · simp [Fn.lip, hγ, Lip.ofK, Lip.eval, rootsVal] at h
          subst h
          simp only [sub_self, norm_zero]
          exact mul_nonneg (by positivity) (norm_nonneg _)
        · simp [Fn.lip, hγ, Lip.eval] at h
  · simp [Fn.lip, Lip.scale, Lip.ofK, Lip.eval, rootsVal, absK_eq_abs, two]
    norm_num

/-- The pre-9cf3ca6 constant `|s|·L` of `FunctionalRightScalarMult` is not a Lipschitz bound:
on `E = ℝ`, `f = ‖·‖²` (`L = 2`), `s = 3`: the gradient `x ↦ 18x` is not 6-Lipschitz. -/
theorem C09.lip_right_scalar_abs_fails :
    ¬ LipOn (fun x : ℝ => (3 : ℝ) • ((2 : ℝ) • ((3 : ℝ) • x))) (|(3 : ℝ)| * 2) := by
  intro h
  have := h 1 0
  norm_num at this
